"""C11: config and weight round trips reproduce the same function.

Tie / oracle (all on the REAL classes, under `tfl.premade.get_custom_objects()`):
  key_set        the keys of `get_config()` vs the constructor parameters (every argument given a
                 non-default value must be a key; every key must be a parameter or a documented
                 base-class key) AND vs the translator's table (a key the table says is emitted must
                 appear; the attribute it names must exist)   — comparing get_config() before and
                 after a round trip alone is BLIND to a forgotten key
  from_config    `cls.from_config(obj.get_config())` succeeds — directly and with Keras' serializer
                 + `json.dumps` / `json.loads` in between
  config_equal   get_config() of the rebuilt object is equal; every attribute behind a key survives
  outputs_equal  rebuilt layer / model + `set_weights(get_weights())` computes identical outputs;
                 rebuilt constraints / regularizers / deterministic initializers act identically;
                 RTL / random-ensemble structures are identical after a rebuild from the config
                 a `LatticeConstraints` given ONE bare constraint tuple (fix ebf18ed) has the config and the projections
                 of its one-element-list spelling, before and after the round trip (stream `single_tuple`)
  save_load      `model.save` / `load_model` (h5, .keras, SavedModel) after k in {0,1,5} hostile
                 training steps preserves outputs and weights (hence constraint satisfaction)
Correspondence with the Lean side:
  table.*        the regenerated table vs the real objects (keys, attributes, registry)
  norm.*         the value the real constructor stores vs `Tfl.Configs.valNorm` (driver `cfg.norm`)
Failures are keyed {"cls": class, "clause": ...} (+ "arg" naming the argument where one is to blame)."""
import copy, inspect, json, os, sys, tempfile
import numpy as np
from fractions import Fraction
from common import *

HERE = os.path.dirname(os.path.abspath(__file__))
sys.path.insert(0, os.path.dirname(HERE))
import translate_configs as TC  # noqa: E402
import translate_accept as TA   # noqa: E402

RULE = ("one or more constructions of EVERY public class with get_config (39 classes) such that every "
        "optional constructor argument is non-default at least once (trusts as a single tuple, per-dimension "
        "regularizer amounts, missing output values, string / int / tuple spellings, float64); each object goes "
        "through direct, Keras-serializer and JSON round trips. LatticeConstraints is also built with ONE bare tuple for "
        "each of its five trust / dominance / joint-monotonicity arguments and for joint_unimodalities (random dimensions and "
        "direction spellings; empty tuples too) and compared with the one-element-list spelling: equal configs before and "
        "after the round trip, identical projections of 4 random kernels. Non-trivial = a construction with at least one "
        "non-default optional argument; distinct = (class, case label, route). Models: premade models and a "
        "functional model of the layers, saved in three formats after 0, 1 and 5 hostile training steps.")
ASSUMPTIONS = [
    "the Keras serialisation machinery (initializers/regularizers get∘serialize, HDF5, SavedModel, .keras archives) "
    "is runtime: exercised here, an idempotence hypothesis of theorem roundtrip",
    "crash points DURING a save are not modelled (a save is atomic at the granularity observed here)",
    "training histories: k in {0,1,5} SGD steps with a large learning rate on random targets",
]
TRUSTED_EXTRA = ["harness/translate_configs.py: the AST reading of __init__ / get_config / from_config into table rows "
                 "(cross-checked against the real objects by the table.* suites of every run)"]

ROWS = None
BASE_KEYS = {"name", "trainable", "dtype", "batch_input_shape"}
PREMADE = ["AggregateFunction", "CalibratedLattice", "CalibratedLatticeEnsemble", "CalibratedLinear"]


def regenerate():
  """Both generated tables are refreshed from the current source: `lake build` builds every module,
  so a stale Generated/Accept.lean (e.g. left by a run against another tree) would break this build."""
  global ROWS
  ROWS = TC.regenerate()
  TA.regenerate()
  return ROWS


def rows():
  if ROWS is None:
    regenerate()
  return ROWS


# ------------------------------------------------------------------ canonical form of a config for comparison
def canon(x):
  import enum
  if isinstance(x, dict):
    return {str(k): canon(v) for k, v in sorted(x.items(), key=lambda kv: str(kv[0]))}
  if isinstance(x, (list, tuple)):
    return [canon(v) for v in x]
  if isinstance(x, np.ndarray):
    return canon(x.tolist())
  if isinstance(x, (np.floating, np.integer)):
    return x.item()
  if isinstance(x, enum.Enum):
    return x.value
  if isinstance(x, (str, int, float, bool)) or x is None:
    return x
  if hasattr(x, "numpy"):
    try:
      return canon(x.numpy())
    except Exception:  # pylint: disable=broad-except
      pass
  if hasattr(x, "dtype") and hasattr(x, "name") and not hasattr(x, "get_config"):
    return str(x)
  if hasattr(x, "get_config"):
    try:
      return {"__class__": type(x).__name__, "config": canon(x.get_config())}
    except Exception:  # pylint: disable=broad-except
      return repr(x)
  return repr(x)


def keras():
  import tf_keras
  return tf_keras


def custom_objects():
  from tensorflow_lattice.python import premade
  return premade.get_custom_objects()


def json_roundtrip(obj):
  """Keras' own JSON encoding of a serialised object, dumped and loaded again"""
  from tf_keras.src.saving.legacy.saved_model import json_utils
  return json.loads(json.dumps(obj, default=json_utils.get_json_type))


# ------------------------------------------------------------------ the constructions
def cases(rng):
  """[(class name, label, module attr path, kwargs)] — kwargs are what the constructor receives."""
  import tensorflow as tf
  from tensorflow_lattice.python import (configs, pwl_calibration_lib as plib, pwl_calibration_layer as pl,
                                         categorical_calibration_layer as cl)
  C = []

  def add(mod, cls, label, **kw):
    C.append((cls, label, mod, kw))
  # ---- lattice_layer
  add("lattice_layer", "Lattice", "full", lattice_sizes=[2, 3, 2], units=2, monotonicities=["increasing", "none", 1],
      unimodalities=None, edgeworth_trusts=(0, 1, "positive"), trapezoid_trusts=[(2, 1, -1)], monotonic_dominances=(0, 2),
      range_dominances=None, joint_monotonicities=None, joint_unimodalities=None, output_min=-1.0, output_max=2.0,
      num_projection_iterations=3, monotonic_at_every_step=False, clip_inputs=False, interpolation="simplex",
      kernel_initializer="random_monotonic_initializer",
      kernel_regularizer=[("torsion", 0.1, 0.2), ("laplacian", [0.1, 0.2, 0.3], 0.0)], name="lat_full", trainable=False,
      dtype="float64")
  add("lattice_layer", "Lattice", "joint", lattice_sizes=[3, 3], joint_unimodalities=([0, 1], "peak"),
      kernel_initializer="random_uniform_or_linear_initializer", joint_monotonicities=None, unimodalities=None)
  add("lattice_layer", "Lattice", "unimodal_range", lattice_sizes=(3, 3, 2), unimodalities=["valley", 0, 0],
      monotonicities=[0, 1, 1], range_dominances=[(1, 2)], joint_monotonicities=(1, 2),
      kernel_regularizer=("laplacian", (0.1, 0.2, 0.3), 0.1), output_min=0.0, kernel_initializer="linear_initializer")
  add("lattice_layer", "LinearInitializer", "full", lattice_sizes=[2, 3], monotonicities=[1, 0], output_min=0.0,
      output_max=1.0, unimodalities=[0, "valley"])
  add("lattice_layer", "RandomMonotonicInitializer", "full", lattice_sizes=[2, 3], output_min=0.0, output_max=1.0,
      unimodalities=[0, 1])
  add("lattice_layer", "LatticeConstraints", "full", lattice_sizes=[2, 3, 2], monotonicities=["increasing", 0, 1],
      unimodalities=None, edgeworth_trusts=[(0, 2, 1)], trapezoid_trusts=[(0, 2, "positive")], monotonic_dominances=[(0, 2)],
      range_dominances=None, joint_monotonicities=[(0, 2)], joint_unimodalities=None, output_min=0.0, output_max=1.0,
      num_projection_iterations=4, enforce_strict_monotonicity=False)
  add("lattice_layer", "LatticeConstraints", "unimodal", lattice_sizes=[3, 3], monotonicities=None,
      unimodalities=("peak", "none"), range_dominances=None, joint_unimodalities=None, output_min=-1.0)
  add("lattice_layer", "LatticeConstraints", "joint_range", lattice_sizes=[3, 3, 2], monotonicities=[0, 1, 1],
      range_dominances=[(1, 2)], joint_unimodalities=[([0], "valley")])
  add("lattice_layer", "LatticeConstraints", "trusts_only", lattice_sizes=(2, 3), monotonicities=("increasing", "none"),
      edgeworth_trusts=[(0, 1, "positive")], trapezoid_trusts=[[0, 1, 1]], output_max=1.0)
  # fix ebf18ed: ONE constraint given as a bare tuple (each of the five families, and a joint unimodality), random
  # dimensions / direction spellings; `single_twin()` is the one-element-list spelling of the same object
  a, b = rng.choice([(0, 2), (2, 0)])
  # (both trusts of a pair must point the same way: opposite directions are rejected by verify_hyperparameters)
  spell = rng.choice([["positive", 1, "Positive"], ["negative", -1, "Negative"]])
  add("lattice_layer", "LatticeConstraints", "single_trusts_dom", lattice_sizes=[2, 3, 2], monotonicities=["increasing", 0, 1],
      edgeworth_trusts=(a, b, rng.choice(spell)), trapezoid_trusts=(a, b, rng.choice(spell)), monotonic_dominances=(a, b),
      output_min=0.0, output_max=1.0)
  a, b = rng.choice([(1, 2), (2, 1)])
  add("lattice_layer", "LatticeConstraints", "single_range_jm", lattice_sizes=[3, 2, 2], monotonicities=[0, 1, 1],
      range_dominances=(a, b), joint_monotonicities=rng.choice([(0, 1), (0, 2), (1, 0)]))
  add("lattice_layer", "LatticeConstraints", "single_ju", lattice_sizes=[3, 3, 2], monotonicities=[0, 0, 1],
      joint_unimodalities=(rng.choice([[0, 1], [0], [1], (1, 0)]), rng.choice(["peak", "valley"])),
      joint_monotonicities=rng.choice([(0, 2), (2, 1)]))
  # the `and constraints` guard of `as_list`: an empty tuple is left alone (no IndexError)
  add("lattice_layer", "LatticeConstraints", "empty_tuples", lattice_sizes=(2, 3), monotonicities=(1, 0),
      edgeworth_trusts=(), trapezoid_trusts=(), monotonic_dominances=(), range_dominances=(), joint_monotonicities=())
  add("lattice_layer", "TorsionRegularizer", "perdim", lattice_sizes=[2, 3], l1=[0.1, 0.2], l2=0.3)
  add("lattice_layer", "TorsionRegularizer", "tuple", lattice_sizes=(2, 3), l1=0.5, l2=(0.1, 0.2))
  add("lattice_layer", "LaplacianRegularizer", "perdim", lattice_sizes=[2, 3], l1=[0.1, 0.2], l2=0.3)
  add("lattice_layer", "LaplacianRegularizer", "tuple", lattice_sizes=(2, 3), l1=0.5, l2=(0.1, 0.2))
  # ---- pwl
  add("pwl_calibration_layer", "PWLCalibration", "full", input_keypoints=[0.0, 1.0, 3.0], units=2, output_min=0.0,
      output_max=2.0, clamp_min=True, clamp_max=True, monotonicity="decreasing", convexity="concave", is_cyclic=False,
      kernel_initializer="equal_slopes", kernel_regularizer=[("hessian", 0.1, 0.2), ("wrinkle", 0.0, 0.1), ("laplacian", 0.3, 0.0)],
      impute_missing=True, missing_input_value=-1.0, missing_output_value=0.5, num_projection_iterations=3,
      split_outputs=True, input_keypoints_type="fixed", name="pwl_full", trainable=False, dtype="float64")
  add("pwl_calibration_layer", "PWLCalibration", "learned", input_keypoints=np.array([0.0, 1.0, 3.0]),
      input_keypoints_type="learned_interior", monotonicity=1, impute_missing=True, missing_input_value=-1.0,
      missing_output_value=None)
  add("pwl_calibration_layer", "PWLCalibration", "cyclic", input_keypoints=(0.0, 1.0, 3.0), is_cyclic=True,
      kernel_regularizer=("laplacian", 0.1, 0.0), convexity=0, monotonicity=0)
  add("pwl_calibration_layer", "UniformOutputInitializer", "full", output_min=0.0, output_max=1.0, monotonicity="decreasing",
      keypoints=[0.0, 1.0, 3.0])
  add("pwl_calibration_layer", "PWLCalibrationConstraints", "full", monotonicity="increasing", convexity="convex",
      lengths=[1.0, 2.0], output_min=0.0, output_max=1.0, output_min_constraints=plib.BoundConstraintsType.CLAMPED,
      output_max_constraints=plib.BoundConstraintsType.BOUND, num_projection_iterations=5)
  add("pwl_calibration_layer", "NaiveBoundsConstraints", "full", lower_bound=0.0, upper_bound=1.0)
  for r in ("LaplacianRegularizer", "HessianRegularizer", "WrinkleRegularizer"):
    add("pwl_calibration_layer", r, "full", l1=0.1, l2=0.2, is_cyclic=True)
  # ---- linear
  add("linear_layer", "Linear", "full", num_input_dims=3, units=2, monotonicities=["increasing", 1, "decreasing"],
      monotonic_dominances=[(0, 1)], range_dominances=None, input_min=[0.0, None, -1.0], input_max=[1.0, "none", 2.0],
      use_bias=False, normalization_order=2, kernel_initializer="ones", bias_initializer="ones",
      kernel_regularizer=keras().regularizers.l2(0.1), bias_regularizer=None, name="lin_full", trainable=False, dtype="float64")
  add("linear_layer", "Linear", "range_bias", num_input_dims=2, monotonicities="increasing", range_dominances=[(0, 1)],
      input_min=[0.0, 0.0], input_max=[1.0, 2.0], use_bias=True, bias_initializer="ones",
      bias_regularizer=keras().regularizers.l1(0.2), normalization_order=1)
  add("linear_layer", "LinearConstraints", "full", monotonicities=[1, 1, 0], monotonic_dominances=[(0, 1)],
      range_dominances=None, input_min=[0.0, 0.0, None], input_max=[1.0, 1.0, None], normalization_order=1)
  add("linear_layer", "LinearConstraints", "range", monotonicities=[-1, -1], range_dominances=[(0, 1)],
      input_min=[0.0, 0.0], input_max=[1.0, 2.0])
  # ---- categorical
  add("categorical_calibration_layer", "CategoricalCalibration", "full", num_buckets=4, units=2, output_min=0.0,
      output_max=1.0, monotonicities=[(0, 1), (1, 3)], kernel_initializer="constant",
      kernel_regularizer=keras().regularizers.l2(0.1), default_input_value=-1, split_outputs=True, name="cat_full",
      trainable=False)
  add("categorical_calibration_layer", "CategoricalCalibrationConstraints", "full", output_min=0.0, output_max=1.0,
      monotonicities=[(0, 1)])
  # ---- "falsy" argument values: 0 / 0.0 where None means absent (a truthiness test in get_config / __init__ loses them)
  add("categorical_calibration_layer", "CategoricalCalibration", "default_zero", num_buckets=4, default_input_value=0)
  add("categorical_calibration_layer", "CategoricalCalibration", "default_zero_units", num_buckets=3, units=2,
      default_input_value=0, output_min=0.0, output_max=0.0 + rng.choice([1.0, 2.0]))
  add("pwl_calibration_layer", "PWLCalibration", "missing_zero", input_keypoints=[1.0, 2.0, 3.0], missing_input_value=0.0,
      impute_missing=True, missing_output_value=0.0, output_min=-1.0, output_max=0.0)
  add("pwl_calibration_layer", "PWLCalibration", "missing_zero_learned", input_keypoints=[1.0, 2.0, 3.0],
      missing_input_value=0.0, impute_missing=True, output_min=0.0)
  add("lattice_layer", "Lattice", "zero_upper", lattice_sizes=[2, 3], monotonicities=[1, 0], output_min=-1.0, output_max=0.0)
  add("rtl_layer", "RTL", "seed_zero", num_lattices=3, lattice_rank=2, random_seed=0, output_min=-1.0, output_max=0.0)
  # ---- kfl
  add("kronecker_factored_lattice_layer", "KroneckerFactoredLattice", "full", lattice_sizes=3, units=2, num_terms=3,
      monotonicities=["increasing", 0], output_min=0.0, output_max=1.0, clip_inputs=False,
      kernel_initializer="kfl_random_monotonic_initializer", scale_initializer="scale_initializer", name="kfl_full",
      trainable=False)
  add("kronecker_factored_lattice_layer", "KroneckerFactoredLattice", "inits", lattice_sizes=2, monotonicities=(1, 1),
      kernel_initializer="ones", scale_initializer="ones", output_max=2.0)
  add("kronecker_factored_lattice_layer", "KFLRandomMonotonicInitializer", "full", monotonicities=[1, 0], init_min=0.1,
      init_max=0.9, seed=3)
  add("kronecker_factored_lattice_layer", "ScaleInitializer", "full", output_min=0.0, output_max=1.0)
  add("kronecker_factored_lattice_layer", "BiasInitializer", "full", output_min=0.0, output_max=1.0)
  add("kronecker_factored_lattice_layer", "ScaleConstraints", "full", output_min=0.0, output_max=1.0)
  add("kronecker_factored_lattice_layer", "KroneckerFactoredLatticeConstraints", "full", units=2, scale="variable",
      monotonicities=["increasing", 0], output_min=0.0, output_max=1.0)
  # ---- cdf / rtl / combination / aggregation
  add("cdf_layer", "CDF", "full", num_keypoints=4, units=3, activation="sigmoid", reduction="geometric_mean",
      input_scaling_init=2, input_scaling_type="learned_per_input", input_scaling_monotonicity="none", sparsity_factor=3,
      kernel_initializer="glorot_uniform", name="cdf_full", trainable=False)
  add("cdf_layer", "CDF", "defaults_none", num_keypoints=3, input_scaling_init=None, input_scaling_monotonicity=1)
  add("rtl_layer", "RTL", "full", num_lattices=3, lattice_rank=2, lattice_size=3, output_min=0.0, output_max=1.0,
      init_min=0.2, init_max=0.8, separate_outputs=True, random_seed=7, num_projection_iterations=3,
      monotonic_at_every_step=False, clip_inputs=False, interpolation="simplex", parameterization="all_vertices",
      num_terms=3, avoid_intragroup_interaction=False, kernel_initializer="linear_initializer",
      kernel_regularizer=["torsion", 0.1, 0.2], average_outputs=False, name="rtl_full", trainable=False)
  add("rtl_layer", "RTL", "kfl_avg", num_lattices=2, lattice_rank=2, parameterization="kronecker_factored", num_terms=3,
      average_outputs=True, random_seed=3, kernel_regularizer=None, kernel_initializer="kfl_random_monotonic_initializer")
  # the seed is a constructor argument like any other: None (documented default of np.random.RandomState: OS entropy)
  # and integers drawn by the run (F-C11-i: with None the rebuilt layer has another structure)
  add("rtl_layer", "RTL", "seed_none", num_lattices=4, lattice_rank=2, random_seed=None)
  add("rtl_layer", "RTL", "seed_drawn", num_lattices=rng.choice([3, 4]), lattice_rank=2, lattice_size=rng.choice([2, 3]),
      random_seed=rng.randrange(2 ** 31), avoid_intragroup_interaction=rng.choice([True, False]))
  add("parallel_combination_layer", "ParallelCombination", "full", calibration_layers="layers", single_output=False,
      name="pc_full")
  add("aggregation_layer", "Aggregation", "premade_inner", model="premade_inner", name="agg_full")
  add("aggregation_layer", "Aggregation", "functional_inner", model="model")
  # ---- configs
  add("configs", "RegularizerConfig", "full", name="calib_hessian", l1=0.1, l2=0.2)
  add("configs", "TrustConfig", "full", feature_name="g", trust_type="trapezoid", direction="negative")
  add("configs", "DominanceConfig", "full", feature_name="h", dominance_type="range")
  add("configs", "FeatureConfig", "full", name="f", is_missing_name="m", default_value=-1.0, lattice_size=3,
      monotonicity="increasing", unimodality="valley", reflects_trust_in="trusts", dominates="doms",
      pwl_calibration_always_monotonic=True, pwl_calibration_convexity=1, pwl_calibration_num_keypoints=5,
      pwl_calibration_input_keypoints="uniform", pwl_calibration_input_keypoints_type="learned_interior",
      pwl_calibration_clip_min=0.0, pwl_calibration_clip_max=1.0, pwl_calibration_clamp_min=True,
      pwl_calibration_clamp_max=True, num_buckets=3, vocabulary_list=["a", "b", "c"], regularizer_configs="regs")
  add("configs", "CalibratedLatticeConfig", "full", feature_configs="feats", interpolation="simplex",
      parameterization="kronecker_factored", num_terms=3, regularizer_configs="regs", output_min=0.0, output_max=1.0,
      output_calibration=True, output_calibration_num_keypoints=5, output_initialization="uniform",
      output_calibration_input_keypoints_type="learned_interior", random_seed=3)
  add("configs", "CalibratedLinearConfig", "full", feature_configs="feats", regularizer_configs="regs", use_bias=False,
      output_min=0.0, output_max=1.0, output_calibration=True, output_calibration_num_keypoints=4,
      output_initialization=[0.0, 0.5, 1.0], output_calibration_input_keypoints_type="learned_interior")
  add("configs", "CalibratedLatticeEnsembleConfig", "full", feature_configs="feats3", lattices=[["a", "b"], ["b", "c"]],
      num_lattices=2, lattice_rank=2, interpolation="simplex", parameterization="kronecker_factored", num_terms=3,
      separate_calibrators=False, use_linear_combination=True, use_bias=True, regularizer_configs="regs", output_min=0.0,
      output_max=1.0, output_calibration=True, output_calibration_num_keypoints=4, output_initialization="uniform",
      output_calibration_input_keypoints_type="learned_interior", fix_ensemble_for_2d_constraints=False, random_seed=5)
  add("configs", "AggregateFunctionConfig", "full", feature_configs="feats", regularizer_configs="regs", middle_dimension=3,
      middle_lattice_size=3, middle_calibration=True, middle_calibration_num_keypoints=4,
      middle_calibration_input_keypoints_type="learned_interior", middle_monotonicity="increasing",
      middle_lattice_interpolation="simplex", aggregation_lattice_interpolation="simplex", output_min=0.0, output_max=1.0,
      output_calibration=True, output_calibration_num_keypoints=4, output_initialization=[0.0, 0.5],
      output_calibration_input_keypoints_type="learned_interior")
  # ---- premade models
  for m, mc in (("CalibratedLinear", "linear"), ("CalibratedLattice", "lattice"), ("CalibratedLatticeEnsemble", "ensemble"),
                ("AggregateFunction", "aggregate")):
    add("premade", m, "named", model_config=mc, name="premade_" + mc, trainable=False)
    add("premade", m, "float64", model_config=mc, dtype="float64")
  add("premade", "CalibratedLatticeEnsemble", "rtl_seed_none", model_config="ensemble_rtl_none")
  add("premade", "CalibratedLatticeEnsemble", "rtl_seed_drawn", model_config="ensemble_rtl_drawn")
  return C


def _feature_configs(n=2):
  from tensorflow_lattice.python import configs
  names = ["a", "b", "c"][:n]
  return [configs.FeatureConfig(nm, pwl_calibration_input_keypoints=[0.0, 1.0, 2.0], monotonicity="increasing" if i == 0 else "none")
          for i, nm in enumerate(names)]


def _feature_configs5():
  from tensorflow_lattice.python import configs
  return [configs.FeatureConfig(nm, pwl_calibration_input_keypoints=[0.0, 1.0, 2.0], monotonicity="increasing" if i < 2 else "none")
          for i, nm in enumerate("abcde")]


_DRAWN_SEED = [12345]     # set by run() from the run's PRNG


def seed_is_none(obj):
  """an object whose seed-derived structure is drawn from the OS at every build: RTL(random_seed=None), a premade
  ensemble with lattices='rtl_layer' and random_seed=None (F-C11-i)"""
  if type(obj).__name__ == "RTL":
    return obj.random_seed is None
  mc = getattr(obj, "model_config", None)
  return mc is not None and getattr(mc, "lattices", None) == "rtl_layer" and getattr(mc, "random_seed", 0) is None


def materialize(mod, cls, kw):
  """turns the placeholders of a case into real objects; returns (class, kwargs)"""
  import importlib
  import tensorflow as tf
  from tensorflow_lattice.python import configs, pwl_calibration_layer as pl, categorical_calibration_layer as cl
  m = importlib.import_module("tensorflow_lattice.python." + mod)
  K = getattr(m, cls)
  kw = copy.deepcopy({k: v for k, v in kw.items()})
  if "dtype" in kw and isinstance(kw["dtype"], str):
    kw["dtype"] = getattr(tf, kw["dtype"])
  sub = {
      "layers": lambda: [pl.PWLCalibration(input_keypoints=[0.0, 1.0, 2.0], monotonicity=1), cl.CategoricalCalibration(num_buckets=3)],
      "trusts": lambda: [configs.TrustConfig("g", "trapezoid", "negative")],
      "doms": lambda: [configs.DominanceConfig("h", "range")],
      "regs": lambda: [configs.RegularizerConfig("calib_hessian", 0.1, 0.2)],
      "feats": lambda: _feature_configs(2), "feats3": lambda: _feature_configs(3),
      "model": lambda: _small_keras_model(),
      "premade_inner": lambda: __import__("tensorflow_lattice").premade.CalibratedLattice(
          configs.CalibratedLatticeConfig(feature_configs=_feature_configs(1), output_initialization=[0.0, 1.0])),
      "variable": lambda: tf.Variable(np.ones((2, 3)), dtype=tf.float32),
      "linear": lambda: configs.CalibratedLinearConfig(feature_configs=_feature_configs(2), output_initialization=[0.0, 1.0]),
      "lattice": lambda: configs.CalibratedLatticeConfig(feature_configs=_feature_configs(2), output_initialization=[0.0, 1.0],
                                                         output_min=0.0, output_max=1.0),
      "ensemble": lambda: configs.CalibratedLatticeEnsembleConfig(feature_configs=_feature_configs(3),
                                                                  lattices=[["a", "b"], ["b", "c"]],
                                                                  output_initialization=[0.0, 1.0]),
      "aggregate": lambda: configs.AggregateFunctionConfig(feature_configs=_feature_configs(2), middle_dimension=2,
                                                           output_initialization=[0.0, 1.0]),
      "ensemble_rtl_none": lambda: configs.CalibratedLatticeEnsembleConfig(
          feature_configs=_feature_configs5(), lattices="rtl_layer", num_lattices=4, lattice_rank=2,
          output_initialization=[0.0, 1.0], random_seed=None),
      "ensemble_rtl_drawn": lambda: configs.CalibratedLatticeEnsembleConfig(
          feature_configs=_feature_configs5(), lattices="rtl_layer", num_lattices=4, lattice_rank=2,
          output_initialization=[0.0, 1.0], random_seed=_DRAWN_SEED[0]),
  }
  for k, v in list(kw.items()):
    if isinstance(v, str) and v in sub and k in ("calibration_layers", "reflects_trust_in", "dominates", "regularizer_configs",
                                                  "feature_configs", "model", "scale", "model_config"):
      kw[k] = sub[v]()
  return K, kw


def _small_keras_model():
  k = keras()
  from tensorflow_lattice.python import pwl_calibration_layer as pl
  inp = k.Input((1,))
  return k.Model(inp, pl.PWLCalibration(input_keypoints=[0.0, 1.0, 2.0])(inp))


# ------------------------------------------------------------------ per-object checks
def row_of(cls, mod):
  for r in rows():
    if r["cls"] == cls and r["file"] == mod + ".py":
      return r
  return None


def sig_defaults(K):
  sig = inspect.signature(K.__init__)
  out = {}
  for n, p in sig.parameters.items():
    if n == "self" or p.kind in (p.VAR_KEYWORD, p.VAR_POSITIONAL):
      continue
    out[n] = p.default
  return out


def nondefault_args(K, kw):
  d = sig_defaults(K)
  nd = []
  for k, v in kw.items():
    if k in d:
      if d[k] is inspect.Parameter.empty:
        continue
      try:
        same = canon(v) == canon(d[k])
      except Exception:  # pylint: disable=broad-except
        same = False
      if not same:
        nd.append(k)
    else:
      nd.append(k)  # a **kwargs argument (name / trainable / dtype)
  return nd


def rebuild(K, cfg, kind):
  """`cls.from_config(cfg)` under the tfl custom objects"""
  co = custom_objects()
  with keras().utils.custom_object_scope(co):
    if kind in ("config", "model") or "custom_objects" in inspect.signature(K.from_config).parameters:
      return K.from_config(copy.deepcopy(cfg), custom_objects=co)
    return K.from_config(copy.deepcopy(cfg))


def keras_json_route(obj, kind):
  """serialize with Keras -> json -> deserialize with Keras (what model.to_json / a saved config do)"""
  k = keras()
  co = custom_objects()
  extra = {type(obj).__name__: type(obj)} if kind in ("regularizer", "initializer") else {}
  with k.utils.custom_object_scope(dict(co, **extra) if not _registered(obj) and _scoped(obj) else co):
    if kind == "layer":
      ser = k.layers.serialize(obj, use_legacy_format=True)
      return k.layers.deserialize(json_roundtrip(ser), use_legacy_format=True)
    ser = k.utils.legacy.serialize_keras_object(obj)
    return k.utils.legacy.deserialize_keras_object(json_roundtrip(ser), custom_objects=dict(co, **extra) if _scoped(obj) else co)


def _registered(obj):
  r = [x for x in rows() if x["cls"] == type(obj).__name__ and type(obj).__module__.endswith(x["file"][:-3])]
  return bool(r and r[0]["registered"])


def _scoped(obj):
  r = [x for x in rows() if x["cls"] == type(obj).__name__ and type(obj).__module__.endswith(x["file"][:-3])]
  return bool(r and r[0]["scoped"])


def layer_input(cls, kw, rs, dtype):
  import tensorflow as tf
  units = kw.get("units", 1)
  if cls == "Lattice":
    sizes = list(kw["lattice_sizes"])
    shp = (5, len(sizes)) if units == 1 else (5, units, len(sizes))
    return tf.constant(rs.uniform(0, 1, size=shp) * (np.array(sizes) - 1), dtype=dtype)
  if cls == "PWLCalibration":
    x = rs.uniform(-0.5, 3.5, size=(5, 1))
    if kw.get("missing_input_value") is not None:
      x[0, 0] = kw["missing_input_value"]
    return tf.constant(x, dtype=dtype)
  if cls == "Linear":
    n = kw["num_input_dims"]
    return tf.constant(rs.uniform(-0.5, 1.5, size=(5, n) if units == 1 else (5, units, n)), dtype=dtype)
  if cls == "CategoricalCalibration":
    x = rs.randint(0, kw["num_buckets"], size=(5, 1) if units == 1 else (5, units))
    x.flat[0] = kw.get("default_input_value") if kw.get("default_input_value") is not None else x.flat[0]
    return tf.constant(x)
  if cls == "KroneckerFactoredLattice":
    return tf.constant(rs.uniform(0, 1, size=(5, 2) if units == 1 else (5, units, 2)) * (kw["lattice_sizes"] - 1), dtype=dtype)
  if cls == "CDF":
    return tf.constant(rs.uniform(-0.5, 1.5, size=(5, 3) if units == 1 else (5, units, 3)), dtype=dtype)
  if cls == "RTL":
    s = kw.get("lattice_size", 2) - 1
    return {"unconstrained": tf.constant(rs.uniform(0, s, size=(5, 2)), dtype=dtype),
            "increasing": tf.constant(rs.uniform(0, s, size=(5, 2)), dtype=dtype)}
  if cls == "ParallelCombination":
    return tf.constant(np.stack([rs.uniform(0, 2, size=5), rs.randint(0, 3, size=5)], axis=1), dtype=dtype)
  if cls == "Aggregation":
    return tf.ragged.constant([[[0.1], [1.5]], [[0.7]], [[0.2], [0.4], [1.9]]], ragged_rank=1, dtype=dtype)
  return None


def flat_np(y):
  import tensorflow as tf
  return [np.asarray(t.numpy() if hasattr(t, "numpy") else t) for t in tf.nest.flatten(y)]


def same_arrays(a, b, tol=0.0):
  if len(a) != len(b):
    return False
  for u, v in zip(a, b):
    if u.shape != v.shape or u.dtype != v.dtype:
      return False
    if u.dtype.kind in "USO":
      if not np.array_equal(u, v):
        return False
    elif not np.allclose(u, v, rtol=0, atol=tol, equal_nan=False):
      return False
  return True


def behaviour(obj, cls, kind, kw, seed, weights=None):
  """a deterministic observation of what the object computes (None = nothing comparable)"""
  import tensorflow as tf
  rs = np.random.RandomState(seed)
  if kind == "layer":
    dt = obj.dtype or "float32"
    x = layer_input(cls, kw, rs, dt if "float" in str(dt) else "float32")
    if x is None:
      return None
    obj(x)
    if weights is not None:
      obj.set_weights(weights)
    w = obj.get_weights()
    obj.set_weights(w)                      # set_weights(get_weights()) is the identity
    out = flat_np(obj(x))
    proj = []
    for v in obj.trainable_weights:
      if getattr(v, "constraint", None) is not None:
        hostile = np.random.RandomState(seed + 1).uniform(-3, 3, size=v.shape).astype(v.dtype.as_numpy_dtype)
        proj.append(np.asarray(v.constraint(tf.constant(hostile))))
    struct = []
    if cls == "RTL":
      struct = [np.asarray(json.dumps(canon(obj._rtl_structure)))]
    return dict(weights=w, out=out + proj + struct)
  if kind == "constraint":
    shapes = {"LatticeConstraints": lambda: (int(np.prod(kw["lattice_sizes"])), 2),
              "PWLCalibrationConstraints": lambda: (len(kw["lengths"]) + 1, 2), "NaiveBoundsConstraints": lambda: (4, 2),
              "LinearConstraints": lambda: (len(kw["monotonicities"]), 2), "CategoricalCalibrationConstraints": lambda: (3, 2),
              "ScaleConstraints": lambda: (2, 3), "KroneckerFactoredLatticeConstraints": lambda: (1, 3, 4, 3)}
    if cls not in shapes:
      return None
    w = tf.constant(rs.uniform(-2, 2, size=shapes[cls]()), dtype=tf.float32 if cls.startswith("Kronecker") or cls in ("ScaleConstraints", "PWLCalibrationConstraints") else tf.float64)
    return dict(weights=None, out=flat_np(obj(w)))
  if kind == "regularizer":
    n = int(np.prod(kw["lattice_sizes"])) if "lattice_sizes" in kw else 5
    w = tf.constant(rs.uniform(-2, 2, size=(n, 2)))
    return dict(weights=None, out=flat_np(obj(w)))
  if kind == "initializer":
    if cls in ("RandomMonotonicInitializer", "KFLRandomMonotonicInitializer"):
      return None   # random draws (an op-level seed does not make two eager calls equal)
    shape = {"LinearInitializer": lambda: (int(np.prod(kw["lattice_sizes"])), 2), "UniformOutputInitializer": lambda: (3, 2),
             "ScaleInitializer": lambda: (2, 3), "BiasInitializer": lambda: (2,), "KFLRandomMonotonicInitializer": lambda: (1, 3, 4, 2)}[cls]()
    if cls == "KFLRandomMonotonicInitializer":
      return dict(weights=None, out=flat_np(obj(shape=shape, scale=tf.ones((2, 2)), dtype=tf.float32)))
    return dict(weights=None, out=flat_np(obj(shape=shape, dtype=tf.float32)))
  return None


def oracle_fail(ctx, cls, clause, case, observed, detail="", arg=None):
  key = dict(cls=cls)
  if arg is not None:
    key["arg"] = arg
  if isinstance(case, dict) and case.get("route"):
    key["route"] = case["route"]
  tag = "oracle:%s/%s%s" % (cls, clause, "" if arg is None else "/" + arg)
  ctx.count(tag)
  if ctx.dist[tag] <= 3:
    ctx.fail(clause, key, case, observed, detail)


# the normaliser labels of the table that have a Lean model -> the driver's name (`cfg.norm`)
_AS_LIST = ("def as_list(constraints): if isinstance(constraints, tuple) and constraints and isinstance(constraints[0], int): "
            "return [constraints] return constraints; _ = as_list(_); ")
NORM = {"@ = utils.canonicalize_monotonicities(_, allow_decreasing=False)": "canonicalize_monotonicities_nodecr",
        "@ = utils.canonicalize_monotonicity(_)": "canonicalize_monotonicity",
        "@ = utils.canonicalize_trust(_)": "canonicalize_trust",
        "@ = utils.canonicalize_unimodalities(_)": "canonicalize_unimodalities",
        "if isinstance(_, tuple) and isinstance(_[0], int): @ = [_] else: @ = _": "wrap_single",
        # the same wrap with the `and _` guard (Lattice.__init__ after the repair proposed for F-C16-aj)
        "if isinstance(_, tuple) and _ and isinstance(_[0], int): @ = [_] else: @ = _": "wrap_single",
        "if isinstance(_, list) or isinstance(_, tuple): @ = list(_) elif _ is not None: @ = [_] * self.num_input_dims else: @ = [0] * self.num_input_dims": "linear_monotonicities",
        "if _ is None: @ = float(num_keypoints) else: @ = float(_)": "float_or_num_keypoints",
        "as_tuples = lambda ps: [tuple(p) for p in ps] if ps else ps; @ = as_tuples(_)": "as_tuples",
        # LatticeConstraints since fix ebf18ed (the second label as the translator cuts it: 228 characters + hash)
        _AS_LIST + "@ = utils.canonicalize_trust(_)": "wrap_canonicalize_trust",
        TC._label_text(_AS_LIST + "as_tuples = lambda ps: [tuple(p) for p in ps] if ps else ps; @ = as_tuples(_)"): "wrap_as_tuples"}


def norm_lines(case, row, args, cfg, dflt, lines, pend):
  """queues `cfg.norm` driver lines: the value the real constructor stored for every key whose normaliser has a
  Lean model vs `Tfl.Configs.valNorm` on the raw argument"""
  for k in row["keys"]:
    if k["reader"] == "attr" and k["norm"] in NORM and k["key"] in cfg:
      raw = args.get(k["param"], dflt.get(k["param"]))
      try:
        line = "cfg.norm %s %s %s %s" % (NORM[k["norm"]], TA.wire_val(args.get("num_input_dims")),
                                         TA.wire_val(args.get("num_keypoints")), TA.wire_val(raw))
        want = TA.wire_val(_plain(cfg[k["key"]]))
      except TypeError:
        continue
      lines.append(line)
      pend.append((case, k["key"], NORM[k["norm"]], want))


SINGLE_ARGS = ("edgeworth_trusts", "trapezoid_trusts", "monotonic_dominances", "range_dominances", "joint_monotonicities",
               "joint_unimodalities")


def single_twin(kw):
  """the one-element-list spelling of every constraint given as ONE bare tuple"""
  out = dict(kw)
  for a in SINGLE_ARGS:
    v = kw.get(a)
    if isinstance(v, tuple) and v and (isinstance(v[0], int) or (a == "joint_unimodalities" and len(v) == 2 and isinstance(v[1], str))):
      out[a] = [v]
  return out


def check_single_tuples(ctx, cls, label, mod, kw, seed, lines, pend):
  """fix ebf18ed: a constraint given as one bare tuple builds the SAME object as its one-element-list spelling —
  equal get_config() (also after the round trip of either), identical projections of random kernels"""
  import tensorflow as tf
  K, args = materialize(mod, cls, kw)
  twin = single_twin(args)
  wrapped = [a for a in SINGLE_ARGS if twin.get(a) is not args.get(a)]
  case = dict(stream="single_tuple", cls=cls, label=label, mod=mod, seed=seed, kw=repr(kw))
  ctx.case(sig=(cls, label, "single_vs_list"), nontrivial=bool(wrapped), sample=dict(cls=cls, label=label, wrapped=wrapped))
  for a in wrapped:
    ctx.count("single_tuple:%s.%s" % (cls, a))
  try:
    o1, o2 = K(**copy.deepcopy(args)), K(**copy.deepcopy(twin))
  except Exception as e:  # pylint: disable=broad-except
    ctx.count("ctor_failed:%s/%s:%s" % (cls, label, type(e).__name__))
    ctx.disagree("table.constructible", case, "%s: %s" % (type(e).__name__, str(e)[:200]), "constructible")
    return
  row = row_of(cls, mod)
  c1, c2 = o1.get_config(), o2.get_config()
  norm_lines(dict(case, spelling="list"), row, twin, c2, sig_defaults(K), lines, pend)
  try:
    r1, r2 = rebuild(K, c1, row["kind"]), rebuild(K, c2, row["kind"])
  except Exception as e:  # pylint: disable=broad-except
    oracle_fail(ctx, cls, "from_config", case, "%s: %s" % (type(e).__name__, (str(e).splitlines() or [""])[0][:240]),
                "single-tuple / one-element-list spelling", arg="single_tuple_vs_list")
    return
  cfgs = [canon(o.get_config()) for o in (o1, o2, r1, r2)]
  if any(c != cfgs[0] for c in cfgs):
    diff = sorted(k for c in cfgs for k in set(c) | set(cfgs[0]) if c.get(k) != cfgs[0].get(k))
    oracle_fail(ctx, cls, "config_equal", case, dict(differing_keys=sorted(set(diff)), single=[cfgs[0].get(k) for k in sorted(set(diff))],
                                                    others=[[c.get(k) for k in sorted(set(diff))] for c in cfgs[1:]]),
                "configs of (single tuple, one-element list, rebuilt single, rebuilt list) differ", arg="single_tuple_vs_list")
  else:
    ctx.count("single_tuple_config_equal:%s" % cls)
  n = int(np.prod(args["lattice_sizes"]))
  ok = True
  for j in range(4):
    rs = np.random.RandomState(seed + j)
    w = tf.constant(rs.uniform(-3, 3, size=(n, 1 + j % 2)) * (10.0 if j == 3 else 1.0))
    outs = [np.asarray(o(w)) for o in (o1, o2, r1, r2)]
    if not all(same_arrays([outs[0]], [u]) for u in outs[1:]):
      ok = False
      oracle_fail(ctx, cls, "outputs_equal", dict(case, kernel=j), dict(single=outs[0][:3], others=[u[:3] for u in outs[1:]]),
                  "projections of a random kernel differ between the single-tuple and the one-element-list spelling",
                  arg="single_tuple_vs_list")
      break
    if not np.array_equal(outs[0], np.asarray(w)):
      ctx.count("single_tuple_projection_moves_kernel")
  if ok:
    ctx.count("single_tuple_outputs_equal:%s" % cls)


def check_object(ctx, cls, label, mod, kw, seed, lines, pend):
  import tensorflow as tf
  row = row_of(cls, mod)
  case = dict(stream="object", cls=cls, label=label, mod=mod, seed=seed)
  if cls == "LatticeConstraints":
    case["kw"] = repr(kw)        # randomised literal arguments (tuples kept): the replay rebuilds exactly this object
  K, args = materialize(mod, cls, kw)
  kind = row["kind"] if row else "?"
  nd = nondefault_args(K, args)
  ctx.count("class:%s" % cls)
  for a in nd:
    ctx.count("nondefault:%s.%s" % (cls, a))
  ctx.case(sig=(cls, label), nontrivial=bool(nd), sample=dict(cls=cls, label=label, nondefault=nd))
  try:
    obj = K(**copy.deepcopy(args) if kind not in ("layer", "model") else args)
  except Exception as e:  # pylint: disable=broad-except
    # a case that cannot be constructed is a finding of C16 (or a harness bug), not of C11
    key = dict(cls=cls)
    ctx.count("ctor_failed:%s/%s:%s" % (cls, label, type(e).__name__))
    if not (cls == "CalibratedLinear" and label == "float64"):
      ctx.disagree("table.constructible", case, "%s: %s" % (type(e).__name__, str(e)[:200]), "constructible")
    else:
      oracle_fail(ctx, cls, "from_config", case, "%s: %s" % (type(e).__name__, str(e).splitlines()[0][:200]),
                  "the dtype argument cannot even be used", arg="dtype")
    return
  try:
    cfg = obj.get_config()
  except Exception as e:  # pylint: disable=broad-except
    oracle_fail(ctx, cls, "from_config", case, "get_config raised %s: %s" % (type(e).__name__, str(e)[:200]))
    return
  # ---------------- key_set (real code): arguments vs keys
  params = set(sig_defaults(K))
  guarded_off = set()
  if row is not None:
    for k in row["keys"]:
      if k["guard"] and not bool(getattr(obj, k["guard"], True)):
        guarded_off.add(k["key"])    # a documented conditional key (bias_* without a bias): the argument is unused
  nd = [a for a in nd if a not in guarded_off]
  for a in nd:
    if a not in cfg:
      oracle_fail(ctx, cls, "key_set", case, dict(missing_key=a, keys=sorted(cfg)),
                  "constructor argument %r given a non-default value is not a key of get_config()" % a, arg=a)
  for k in cfg:
    if k not in params and k not in BASE_KEYS:
      oracle_fail(ctx, cls, "key_set", case, dict(unknown_key=k, params=sorted(params)),
                  "get_config() key %r is not a constructor parameter" % k, arg=k)
  # ---------------- table vs real object
  if row is None:
    ctx.disagree("table.rows", case, cls, None, "class missing from the translator's table")
  else:
    tkeys = {k["key"] for k in row["keys"] if not k["guard"] or bool(getattr(obj, k["guard"], False))}
    real = set(cfg) - {"batch_input_shape"}
    if tkeys == real:
      ctx.agree("table.keys")
    else:
      missing = sorted(tkeys - real)
      if missing:
        oracle_fail(ctx, cls, "key_set", case, dict(table_keys_missing_from_get_config=missing),
                    "the table (AST of get_config) lists keys the real get_config() does not emit", arg=missing[0])
      ctx.disagree("table.keys", case, sorted(real), sorted(tkeys))
    ok_attr = True
    for k in row["keys"]:
      if k["attr"] and (not k["guard"] or getattr(obj, k["guard"], False)) and not hasattr(obj, k["attr"]):
        ok_attr = False
        ctx.disagree("table.attrs", case, "no attribute " + k["attr"], k["key"])
    if ok_attr:
      ctx.agree("table.attrs")
    # normalisers with a Lean model: what the constructor stored vs Tfl.Configs.valNorm
    norm_lines(case, row, args, cfg, sig_defaults(K), lines, pend)
  # ---------------- round trips
  ref = None
  try:
    ref = behaviour(obj, cls, kind, args, seed) if kind != "model" else model_behaviour(obj, seed)
  except Exception as e:  # pylint: disable=broad-except
    ctx.count("behaviour_failed:%s:%s" % (cls, type(e).__name__))
    oracle_fail(ctx, cls, "outputs_equal", case, "%s: %s" % (type(e).__name__, (str(e).splitlines() or [""])[0][:240]),
                "the ORIGINAL object (a valid construction) cannot be evaluated / projected: no function to reproduce",
                arg="original_not_evaluable")
  for route in ("direct", "json"):
    if route == "json" and cls == "KroneckerFactoredLatticeConstraints":
      continue   # its `scale` is the layer's tf.Variable: the constraint is rebuilt by the layer, never serialised alone
    rc = dict(case, route=route)
    ctx.case(sig=(cls, label, route))
    try:
      if route == "direct":
        obj2 = rebuild(K, cfg, kind)
      elif kind == "model":
        with keras().utils.custom_object_scope(custom_objects()):
          obj2 = keras().models.model_from_json(obj.to_json())
      else:
        obj2 = keras_json_route(obj, kind)
    except Exception as e:  # pylint: disable=broad-except
      oracle_fail(ctx, cls, "from_config", rc, "%s: %s" % (type(e).__name__, (str(e).splitlines() or [""])[0][:240]),
                  "route=" + route)
      continue
    ctx.count("roundtrip:%s:%s" % (kind, route))
    try:
      cfg2 = obj2.get_config()
    except Exception as e:  # pylint: disable=broad-except
      oracle_fail(ctx, cls, "config_equal", rc, "get_config of the rebuilt object raised %s" % type(e).__name__)
      continue
    c1, c2 = canon(cfg), canon(cfg2)
    if cls == "KroneckerFactoredLatticeConstraints":
      c1.pop("scale", None), c2.pop("scale", None)     # a tf.Variable: compared by value below
    if c1 != c2:
      diff = sorted(k for k in set(c1) | set(c2) if c1.get(k) != c2.get(k))
      oracle_fail(ctx, cls, "config_equal", rc, dict(differing_keys=diff, before={k: c1.get(k) for k in diff},
                                                      after={k: c2.get(k) for k in diff}), "route=" + route, arg=diff[0])
    # every argument given a non-default value must survive in the rebuilt object
    dtype_lost = False
    for a in nd:
      attr = a
      if row is not None:
        for k in row["keys"]:
          if k["param"] == a and k["attr"]:
            attr = k["attr"]
      if kind == "model" and a == "dtype":
        d1 = sorted({w.dtype.name for w in obj.weights})
        d2 = sorted({w.dtype.name for w in obj2.weights})
        if d1 != d2:
          dtype_lost = True
          oracle_fail(ctx, cls, "config_equal", rc, dict(arg="dtype", weights_before=d1, weights_after=d2),
                      "the dtype the model was built with is lost by the round trip", arg="dtype")
        continue
      if hasattr(obj, attr):
        if not hasattr(obj2, attr) or canon(getattr(obj, attr)) != canon(getattr(obj2, attr)):
          oracle_fail(ctx, cls, "config_equal", rc, dict(arg=a, before=canon(getattr(obj, attr)),
                                                          after=canon(getattr(obj2, attr, "<missing>"))),
                      "attribute behind argument %r does not survive" % a, arg=a)
    # identical behaviour with the original weights (a lost dtype is already reported above)
    if ref is not None and not dtype_lost:
      try:
        got = behaviour(obj2, cls, kind, args, seed, weights=ref["weights"]) if kind != "model" else \
            model_behaviour(obj2, seed, weights=ref["weights"])
      except Exception as e:  # pylint: disable=broad-except
        oracle_fail(ctx, cls, "outputs_equal", rc, "%s: %s" % (type(e).__name__, (str(e).splitlines() or [""])[0][:240]),
                    "the rebuilt object cannot be evaluated / projected",
                    arg="list_valued_pair" if "unhashable" in str(e) else
                    # a differently wired rebuild has groups of other sizes: `set_weights` refuses the original weights
                    ("random_seed=None" if seed_is_none(obj) and isinstance(e, ValueError) and "weight" in str(e).lower()
                     else None))
        continue
      if not same_arrays(ref["out"], got["out"]):
        oracle_fail(ctx, cls, "outputs_equal", rc, dict(before=ref["out"][:2], after=got["out"][:2]),
                    "outputs / projections / structure differ after the round trip",
                    arg="random_seed=None" if seed_is_none(obj) else None)
      else:
        ctx.count("outputs_equal:%s" % kind)


def _plain(x):
  """the stored config value as plain Python (ListWrapper / numpy -> list, keeps tuples)"""
  if isinstance(x, tuple) or type(x).__name__ == "_TupleWrapper":
    return tuple(_plain(v) for v in x)
  if isinstance(x, list) or type(x).__name__ == "ListWrapper":
    return [_plain(v) for v in x]
  if isinstance(x, np.ndarray):
    return [_plain(v) for v in x.tolist()]
  if isinstance(x, (np.floating,)):
    return float(x)
  if isinstance(x, (np.integer,)):
    return int(x)
  return x


# ------------------------------------------------------------------ models
def model_inputs(model, rs):
  xs = []
  for i in model.inputs:
    dt = i.dtype.as_numpy_dtype
    if isinstance(i, type(None)):
      continue
    if "RaggedTensor" in type(i).__name__ or getattr(i, "ragged_rank", 0):
      import tensorflow as tf
      xs.append(tf.ragged.constant([[0.1, 1.5], [0.7], [0.2, 0.4, 1.9], [1.0]], dtype=i.dtype))
    else:
      shape = [4] + [d if d is not None else 1 for d in i.shape[1:]]
      xs.append(rs.uniform(0.0, 2.0, size=shape).astype(dt))
  return xs if len(xs) > 1 else xs[0]


def model_behaviour(model, seed, weights=None):
  rs = np.random.RandomState(seed)
  if weights is not None:
    model.set_weights([w.astype(v.dtype.as_numpy_dtype) for w, v in zip(weights, model.weights)])
  w = model.get_weights()
  model.set_weights(w)
  x = model_inputs(model, rs)
  return dict(weights=w, out=flat_np(model(x)) + [np.asarray(sorted({v.dtype.name for v in model.weights}))])


def functional_model(rng, which):
  """small functional models built from the library's layers"""
  import tensorflow as tf
  k = keras()
  from tensorflow_lattice.python import (lattice_layer as ll, pwl_calibration_layer as pl, linear_layer as lin,
                                         categorical_calibration_layer as cl, kronecker_factored_lattice_layer as kl,
                                         rtl_layer, cdf_layer, parallel_combination_layer as pc)
  if which == "calib_lattice":
    inp = k.Input((2,))
    comb = pc.ParallelCombination([
        pl.PWLCalibration(input_keypoints=[0.0, 1.0, 2.0], output_min=0.0, output_max=2.0, monotonicity="increasing",
                          kernel_regularizer=("hessian", 0.01, 0.01), missing_input_value=-1.0, impute_missing=True,
                          missing_output_value=0.5),
        cl.CategoricalCalibration(num_buckets=3, output_min=0.0, output_max=1.0, monotonicities=[(0, 1)])])
    out = ll.Lattice(lattice_sizes=[3, 2], monotonicities=["increasing", "increasing"], edgeworth_trusts=(0, 1, "positive"),
                     output_min=0.0, output_max=1.0, kernel_regularizer=[("torsion", 0.01, 0.0)])(comb(inp))
    return k.Model(inp, out)
  if which == "linear_kfl":
    inp = k.Input((3,))
    h = lin.Linear(num_input_dims=3, units=1, monotonicities=[1, 0, -1], normalization_order=1, use_bias=True)(inp)
    g = k.layers.Concatenate()([h, k.layers.Dense(1, activation="sigmoid")(inp)])
    out = kl.KroneckerFactoredLattice(lattice_sizes=2, num_terms=2, monotonicities=[1, 0], output_min=0.0, output_max=1.0)(g)
    return k.Model(inp, out)
  if which == "rtl":
    a, b = k.Input((2,)), k.Input((2,))
    out = rtl_layer.RTL(num_lattices=3, lattice_rank=2, lattice_size=2, output_min=0.0, output_max=1.0, random_seed=11,
                        average_outputs=True)({"unconstrained": a, "increasing": b})
    return k.Model([a, b], out)
  if which == "cdf":
    inp = k.Input((3,))
    return k.Model(inp, cdf_layer.CDF(num_keypoints=4, activation="sigmoid")(inp))
  raise KeyError(which)


def premade_model(which, rng):
  from tensorflow_lattice.python import configs, premade, premade_lib
  fcs = lambda n: _feature_configs(n)
  if which == "CalibratedLinear":
    return premade.CalibratedLinear(configs.CalibratedLinearConfig(feature_configs=fcs(2), output_min=0.0, output_max=1.0,
                                                                   output_initialization=[0.0, 1.0]))
  if which == "CalibratedLattice":
    return premade.CalibratedLattice(configs.CalibratedLatticeConfig(feature_configs=fcs(2), output_min=0.0, output_max=1.0,
                                                                     output_initialization=[0.0, 1.0]))
  if which == "CalibratedLatticeEnsemble":
    mc = configs.CalibratedLatticeEnsembleConfig(feature_configs=fcs(3), lattices="random", num_lattices=2, lattice_rank=2,
                                                 output_min=0.0, output_max=1.0, output_initialization=[0.0, 1.0], random_seed=4)
    premade_lib.set_random_lattice_ensemble(mc)
    return premade.CalibratedLatticeEnsemble(mc)
  if which == "CalibratedLatticeEnsembleRTL":
    mc = configs.CalibratedLatticeEnsembleConfig(feature_configs=fcs(3), lattices="rtl_layer", num_lattices=2, lattice_rank=2,
                                                 output_min=0.0, output_max=1.0, output_initialization=[0.0, 1.0], random_seed=4)
    return premade.CalibratedLatticeEnsemble(mc)
  if which == "AggregateFunction":
    return premade.AggregateFunction(configs.AggregateFunctionConfig(feature_configs=fcs(2), middle_dimension=2,
                                                                     output_initialization=[0.0, 1.0]))
  raise KeyError(which)


def hostile_steps(model, k, seed):
  """k SGD steps with a large learning rate on random targets (constraints are applied by Keras)"""
  import tensorflow as tf
  if k == 0:
    return
  rs = np.random.RandomState(seed)
  opt = keras().optimizers.SGD(learning_rate=2.0)
  x = model_inputs(model, rs)
  for _ in range(k):
    with tf.GradientTape() as tape:
      y = tf.nest.flatten(model(x, training=True))[0]
      loss = tf.reduce_mean((y - tf.constant(rs.uniform(-5, 5, size=y.shape), dtype=y.dtype)) ** 2)
    vs = model.trainable_variables
    gs = tape.gradient(loss, vs)
    opt.apply_gradients([(g, v) for g, v in zip(gs, vs) if g is not None])


def check_save_load(ctx, name, build, k, fmt, seed):
  import tensorflow as tf
  case = dict(stream="save_load", model=name, steps=k, format=fmt, seed=seed)
  ctx.case(sig=("save_load", name, k, fmt), sample=case)
  ctx.count("save_load:%s:%s:k%d" % (name, fmt, k))
  cls = name
  try:
    model = build()
    hostile_steps(model, k, seed)
    ref = model_behaviour(model, seed)
  except Exception as e:  # pylint: disable=broad-except
    oracle_fail(ctx, cls, "save_load", case, "%s: %s" % (type(e).__name__, (str(e).splitlines() or [""])[0][:240]),
                "the model cannot be built / trained for k steps before saving", arg="setup")
    return
  with tempfile.TemporaryDirectory() as d:
    path = os.path.join(d, "m" + {"h5": ".h5", "keras": ".keras", "tf": "_savedmodel"}[fmt])
    try:
      if fmt == "tf":
        model.save(path, save_format="tf")
      else:
        model.save(path)
      loaded = keras().models.load_model(path, custom_objects=custom_objects())
    except Exception as e:  # pylint: disable=broad-except
      oracle_fail(ctx, cls, "save_load", case, "%s: %s" % (type(e).__name__, (str(e).splitlines() or [""])[0][:240]),
                  "model.save / load_model raised")
      return
    try:
      got = model_behaviour(loaded, seed)
    except Exception as e:  # pylint: disable=broad-except
      oracle_fail(ctx, cls, "save_load", case, "%s: %s" % (type(e).__name__, (str(e).splitlines() or [""])[0][:240]),
                  "the loaded model cannot be evaluated")
      return
  if not same_arrays(ref["weights"], got["weights"]):
    oracle_fail(ctx, cls, "save_load", case, dict(n_before=len(ref["weights"]), n_after=len(got["weights"])),
                "weights differ after save/load (constraint satisfaction is a property of the weights)")
  elif not same_arrays(ref["out"], got["out"], tol=1e-6):
    oracle_fail(ctx, cls, "save_load", case, dict(before=ref["out"][:1], after=got["out"][:1]), "outputs differ after save/load")
  else:
    ctx.count("save_load_ok:%s" % fmt)


MODELS = ["calib_lattice", "linear_kfl", "rtl", "cdf", "CalibratedLinear", "CalibratedLattice", "CalibratedLatticeEnsemble",
          "CalibratedLatticeEnsembleRTL", "AggregateFunction"]


def model_builder(name, rng):
  if name in ("calib_lattice", "linear_kfl", "rtl", "cdf"):
    return lambda: functional_model(rng, name)
  return lambda: premade_model(name, rng)


def model_cls(name):
  return {"calib_lattice": "Lattice", "linear_kfl": "KroneckerFactoredLattice", "rtl": "RTL", "cdf": "CDF",
          "CalibratedLatticeEnsembleRTL": "CalibratedLatticeEnsemble"}.get(name, name)


def run_structures(ctx):
  """RTL / random-ensemble structure is a function of the stored config (seed included): a layer rebuilt from
  get_config() has the same `_rtl_structure` and, given the original weights, identical outputs. Seeds: fixed ones,
  integers drawn by the run, and None (np.random.RandomState(None): OS entropy — F-C11-i)."""
  from tensorflow_lattice.python import configs, premade_lib, rtl_layer
  import tensorflow as tf
  seeds = [1, 7, 42, None, None] + [ctx.rng.randrange(2 ** 31) for _ in range(ctx.n(4, 40))]
  for seed in seeds:
    for avoid in (True, False):
      nl = ctx.rng.choice([4, 5, 6])
      kw = dict(num_lattices=nl, lattice_rank=2, random_seed=seed, avoid_intragroup_interaction=avoid)
      a = rtl_layer.RTL(**kw)
      b = rtl_layer.RTL.from_config(a.get_config())
      rs = np.random.RandomState(ctx.rng.randrange(10 ** 6))
      x = {"unconstrained": tf.constant(rs.uniform(0, 1, (4, 4)), dtype=tf.float32),
           "increasing": tf.constant(rs.uniform(0, 1, (4, 3)), dtype=tf.float32)}
      ya = a(x)
      b(x)
      ctx.case(sig=("rtl_structure", "none" if seed is None else ("fixed" if seed in (1, 7, 42) else "drawn"), avoid),
               nontrivial=True, sample=dict(stream="structure", kw=repr(kw)))
      ctx.count("structure_seed:%s" % ("none" if seed is None else "int"))
      case = dict(stream="structure", kw=kw)
      arg = "random_seed=None" if seed is None else None
      if canon(a.get_config()) != canon(b.get_config()):
        oracle_fail(ctx, "RTL", "config_equal", case, dict(a=canon(a.get_config()), b=canon(b.get_config())))
        continue
      same_structure = canon(a._rtl_structure) == canon(b._rtl_structure)
      outputs_equal = False
      if same_structure:
        b.set_weights(a.get_weights())
        outputs_equal = same_arrays(flat_np(ya), flat_np(b(x)))
      if not (same_structure and outputs_equal):
        oracle_fail(ctx, "RTL", "outputs_equal", case,
                    dict(a=canon(a._rtl_structure), b=canon(b._rtl_structure), same_structure=same_structure),
                    "RTL structure / outputs differ after a rebuild from an EQUAL config", arg=arg)
      else:
        ctx.count("structure_equal:RTL")
    if seed is None:
      continue
    mk = lambda: configs.CalibratedLatticeEnsembleConfig(feature_configs=_feature_configs(3), lattices="random", num_lattices=3,
                                                         lattice_rank=2, random_seed=seed, output_initialization=[0.0, 1.0])
    m1, m2 = mk(), configs.CalibratedLatticeEnsembleConfig.from_config(mk().get_config(), custom_objects=custom_objects())
    premade_lib.set_random_lattice_ensemble(m1)
    premade_lib.set_random_lattice_ensemble(m2)
    ctx.case(sig=("random_ensemble", seed))
    if m1.lattices != m2.lattices:
      oracle_fail(ctx, "CalibratedLatticeEnsembleConfig", "outputs_equal", dict(stream="structure", seed=seed),
                  dict(a=m1.lattices, b=m2.lattices), "random ensemble differs after a rebuild from the config")
    else:
      ctx.count("structure_equal:random_ensemble")
  # lattices='random' with random_seed=None: the setter STORES the drawn ensemble in the config, so the round trip of the
  # config (and of a model built from it) reproduces it without drawing again
  mc = configs.CalibratedLatticeEnsembleConfig(feature_configs=_feature_configs(3), lattices="random", num_lattices=3,
                                               lattice_rank=2, random_seed=None, output_initialization=[0.0, 1.0])
  premade_lib.set_random_lattice_ensemble(mc)
  mc2 = configs.CalibratedLatticeEnsembleConfig.from_config(mc.get_config(), custom_objects=custom_objects())
  ctx.case(sig=("random_ensemble_stored", "none"))
  if mc.lattices != mc2.lattices or not isinstance(mc2.lattices, list):
    oracle_fail(ctx, "CalibratedLatticeEnsembleConfig", "config_equal", dict(stream="structure", seed=None),
                dict(a=mc.lattices, b=mc2.lattices), "the drawn random ensemble is not stored in the config")
  else:
    ctx.count("structure_equal:random_ensemble_stored")


def run(ctx):
  import tensorflow as tf
  regenerate()
  _DRAWN_SEED[0] = ctx.rng.randrange(2 ** 31)
  lines, pend = [], []
  seen_nd = {}
  for cls, label, mod, kw in cases(ctx.rng):
    check_object(ctx, cls, label, mod, kw, ctx.rng.randrange(10 ** 6), lines, pend)
    if cls == "LatticeConstraints" and label.startswith("single_"):
      check_single_tuples(ctx, cls, label, mod, kw, ctx.rng.randrange(10 ** 6), lines, pend)
  for a in SINGLE_ARGS:
    if "single_tuple:LatticeConstraints.%s" % a not in ctx.dist:
      ctx.disagree("table.coverage", dict(cls="LatticeConstraints", arg=a), None, None, "never given as a single tuple")
  replies = run_driver(lines)
  for (case, key, which, want), rep in zip(pend, replies):
    c = dict(case, key=key, normaliser=which)
    if rep == want:
      ctx.agree("norm." + which)
    else:
      ctx.disagree("norm." + which, c, want, rep)
  # every class of the table is constructed and every optional argument is non-default at least once
  for r in rows():
    if "class:%s" % r["cls"] not in ctx.dist:
      ctx.disagree("table.coverage", dict(cls=r["cls"]), None, None, "class of the table never constructed by the harness")
    for p, has_default in r["params"]:
      if has_default and p not in ("name", "trainable", "dtype") and "nondefault:%s.%s" % (r["cls"], p) not in ctx.dist:
        ctx.disagree("table.coverage", dict(cls=r["cls"], arg=p), None, None, "optional argument never given a non-default value")
  ctx.agree("table.coverage")
  # registry: every class is loadable under get_custom_objects() (registered or locally scoped)
  co = custom_objects()
  for r in rows():
    import importlib
    K = getattr(importlib.import_module("tensorflow_lattice.python." + r["file"][:-3]), r["cls"])
    real = co.get(r["cls"]) is K
    if real == r["registered"]:
      ctx.agree("table.registry")
    else:
      ctx.disagree("table.registry", dict(cls=r["cls"]), real, r["registered"])
  run_structures(ctx)
  # save / load after k hostile steps
  fmts = ["h5", "keras", "tf"]
  plan = []
  for i, name in enumerate(MODELS):
    if ctx.tier == "quick" and not ctx.search:
      for j, k in enumerate((0, 1, 5)):
        plan.append((name, k, fmts[(i + j + ctx.seed) % 3]))
    else:
      plan += [(name, k, f) for k in (0, 1, 5) for f in fmts]
  for name, k, fmt in plan:
    check_save_load(ctx, model_cls(name) if name in ("cdf",) else _save_cls(name), model_builder(name, ctx.rng), k, fmt,
                    ctx.rng.randrange(10 ** 6))


def _save_cls(name):
  return model_cls(name)


def replay(ctx, failure):
  case = failure["case"]
  regenerate()
  if case.get("stream") == "save_load":
    name = [n for n in MODELS if model_cls(n) == case["model"]][0] if case["model"] not in MODELS else case["model"]
    check_save_load(ctx, case["model"], model_builder(name, ctx.rng), case["steps"], case["format"], case.get("seed", 0))
    return
  if case.get("stream") == "structure":
    run_structures(ctx)
    return
  lines, pend = [], []
  for cls, label, mod, kw in cases(ctx.rng):
    if cls == case.get("cls") and label == case.get("label"):
      if case.get("kw"):
        import ast
        kw = ast.literal_eval(case["kw"])
      if case.get("stream") == "single_tuple":
        check_single_tuples(ctx, cls, label, mod, kw, case.get("seed", 0), lines, pend)
      else:
        check_object(ctx, cls, label, mod, kw, case.get("seed", 0), lines, pend)
