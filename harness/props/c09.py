"""C09: units and examples never interact.

REAL vs REAL (the heart): for every layer kind with units > 1
  * `constraint(K)[:, u]` vs `constraint(K[:, u:u+1])`         (clause unit_independence)
  * `constraint(K[:, P])` vs `constraint(K)[:, P]`              (clause unit_permutation)
  * `layer(x)[:, u]` vs the one-unit layer carrying column u    (clause unit_independence, layer "<kind>.call")
with columns of very different magnitude (x1, x100, x0.01: a reduction over the wrong axis leaks the
big column into the small one), and for EVERY layer / functional form / premade model
  * `layer(x)[i]` vs `layer(x[i:i+1])`                           (clause row_independence)
  * `layer(x[P])` vs `layer(x)[P]`, subsets                      (clause batch_permutation)
Tie of the Lean Units model (Model/Units.lean, ops `un.*`): the multi-unit reductions of
lattice_lib (`_approximately_project_edgeworth/_trapezoid/_bounds`, `finalize_constraints` on a
`sizes + [units]` tensor), pwl_calibration_lib (`reduce_sum(axis=0)` stages), linear_lib
(`tf.norm(axis=0)`) and the KFL `(lattice, units, dims, terms)` reshape are compared with the
multi-unit model on the same multi-unit input."""
import itertools, logging
import numpy as np
from fractions import Fraction
from common import *
from props.c01 import gen_cfg as lat_gen_cfg, fl

RULE = ("per layer kind (lattice incl. trusts/bounds/dominances/joint unimodalities, strict and Dykstra-only, lib and "
        "layer entry points; PWL incl. bounds/clamps/convexity; categorical incl. ordering pairs; linear incl. "
        "dominances and L1/L2/Linf normalisation; KFL kernel+scale constraints): random config, 2-4 units, kernel "
        "columns scaled by a random assignment of {1, 100, 1/100} (at least two different), every column vs its "
        "one-unit projection, one random unit permutation; forward passes of the multi-unit layer vs one-unit layers; "
        "row independence / permutations / subsets of batches whose rows are scaled by {1, 100, 1/100} for all layer "
        "kinds, CDF, cdf_fn, pwl_calibration_fn, ParallelCombination, Aggregation, RTL and three premade models. "
        "Non-trivial = the constraint moved the kernel / the outputs of the batch are not all equal.")
ASSUMPTIONS = ["float64 wherever the layer allows it (tolerance 1e-9 x column magnitude), float32 forward passes of "
               "Categorical/CDF/RTL/premade models with 2e-5 x output magnitude (batch-size dependent kernel selection "
               "in Eigen/oneDNN changes summation order)",
               "Aggregation is exercised with a Keras sub-model on ragged inputs of the documented form"]

MULTS = [Fraction(1), Fraction(100), Fraction(1, 100)]


# ------------------------------------------------------------------ generators
def col_mults(rng, units):
  while True:
    m = [rng.choice(MULTS) for _ in range(units)]
    if units == 1 or len(set(m)) > 1:
      return m


def gen_matrix(rng, n, units, mults, kinds=None):
  kind = rng.choice(kinds or ["dyadic", "dyadic", "int", "wide", "unit"])
  rows = [[gen_value(rng, kind) * mults[u] for u in range(units)] for _ in range(n)]
  return kind, rows


def tof(rows):
  return np.array([[float(v) for v in row] for row in rows], dtype=np.float64)


def mag(*xs):
  m = 0.0
  for x in xs:
    if x is None:
      continue
    a = np.asarray(x, dtype=np.float64)
    if a.size:
      m = max(m, float(np.max(np.abs(a))))
  return m


# ------------------------------------------------------------------ generic checks
def check_units(ctx, layer, case, f, U, colmag, rtol, rng, moved_of=None):
  """f(us) -> array (rows, len(us)): the operation restricted to the listed units (in that order).
  colmag[u] = magnitude against which a difference in column u is judged."""
  key = dict(layer=layer)
  try:
    full = np.asarray(f(list(range(U))), dtype=np.float64)
    err = None
  except Exception as e:
    full, err = None, classify_exc(e)
  ctx.count("units:" + layer)
  nontrivial = True if moved_of is None or full is None else bool(moved_of(full))
  ctx.case(sig=(layer, case.get("cls"), case.get("kind"), nontrivial, hash(repr(case.get("mults"))) % 97),
           nontrivial=nontrivial, sample=case)
  for u in range(U):
    try:
      single = np.asarray(f([u]), dtype=np.float64)
      serr = None
    except Exception as e:
      single, serr = None, classify_exc(e)
    if err is not None or serr is not None:
      if (err is None) != (serr is None):
        ctx.fail("unit_independence", key, case, dict(full=err, single=serr, unit=u),
                 "multi-unit and one-unit call do not raise alike")
      continue
    d = np.abs(full[:, u] - single[:, 0])
    bad = (not np.all(np.isfinite(single))) and np.all(np.isfinite(full[:, u]))
    tol = rtol * max(colmag[u], 1e-300)
    if bad or (np.all(np.isfinite(d)) and d.size and float(d.max()) > tol):
      ctx.fail("unit_independence", key, case, dict(unit=u, multi=full[:, u], single=single[:, 0]),
               "column %d differs by %g (tol %g)" % (u, float(np.nanmax(d)), tol))
    else:
      ctx.agree("real:units:" + layer)
  if err is None and U > 1:
    P = list(range(U))
    while P == list(range(U)):
      rng.shuffle(P)
    try:
      fp = np.asarray(f(P), dtype=np.float64)
    except Exception as e:
      ctx.fail("unit_permutation", key, case, classify_exc(e), "permuted call raises")
      return full
    ok = True
    for k, u in enumerate(P):
      d = np.abs(fp[:, k] - full[:, u])
      if np.all(np.isfinite(d)) and d.size and float(d.max()) > rtol * max(colmag[u], 1e-300):
        ok = False
        ctx.fail("unit_permutation", key, dict(case, perm=P), dict(unit=u, permuted=fp[:, k], plain=full[:, u]),
                 "unit %d differs by %g after permutation %s" % (u, float(d.max()), P))
    if ok:
      ctx.agree("real:perm:" + layer)
  return full


def check_rows(ctx, layer, case, g, B, rtol, rng):
  """g(rows) -> array (len(rows), ...): the layer applied to the listed examples (in that order)."""
  key = dict(layer=layer)
  ctx.count("rows:" + layer)
  try:
    full = np.asarray(g(list(range(B))), dtype=np.float64)
  except Exception as e:
    ctx.fail("row_independence", key, case, classify_exc(e) + ": " + str(e)[:300], "layer raises on the full batch")
    ctx.case(sig=(layer, "err"), sample=case)
    return
  full = full.reshape(B, -1)
  scale = max(1.0, mag(full[np.isfinite(full)]))
  tol = rtol * scale
  ctx.case(sig=(layer, case.get("cls"), hash(full.tobytes()) % 9973), nontrivial=bool(np.ptp(full, axis=0).max() > 0) if B > 1 else True,
           sample=dict(case, out=full))

  def same(a, b):
    fa, fb = np.isfinite(a), np.isfinite(b)
    if not np.array_equal(fa, fb):
      return False, float("inf")
    d = np.abs(a[fa] - b[fa])
    m = float(d.max()) if d.size else 0.0
    return m <= tol, m

  rows = list(range(B)) if B <= 6 else rng.sample(range(B), 6)
  for i in rows:
    try:
      one = np.asarray(g([i]), dtype=np.float64).reshape(1, -1)
    except Exception as e:
      ctx.fail("row_independence", key, dict(case, row=i), classify_exc(e) + ": " + str(e)[:300], "single example raises")
      continue
    ok, m = same(one[0], full[i])
    if not ok:
      ctx.fail("row_independence", key, dict(case, row=i), dict(batch=full[i], alone=one[0]),
               "row %d differs by %g (tol %g)" % (i, m, tol))
    else:
      ctx.agree("real:rows:" + layer)
  if B > 1:
    P = list(range(B))
    rng.shuffle(P)
    S = sorted(rng.sample(range(B), max(1, B // 2)))
    D = [rng.randrange(B) for _ in range(B + 1)]          # with repetitions, different batch size
    for name, sel in (("perm", P), ("subset", S), ("dup", D)):
      try:
        got = np.asarray(g(sel), dtype=np.float64).reshape(len(sel), -1)
      except Exception as e:
        ctx.fail("batch_permutation", key, dict(case, sel=sel), classify_exc(e) + ": " + str(e)[:300], name + " raises")
        continue
      ok, m = same(got, full[sel])
      if not ok:
        ctx.fail("batch_permutation", key, dict(case, sel=sel, how=name), dict(selected=got, plain=full[sel]),
                 "%s of the batch changes outputs by %g (tol %g)" % (name, m, tol))
      else:
        ctx.agree("real:batch:" + layer)


def row_mults(rng, B):
  return [float(rng.choice(MULTS)) for _ in range(B)]


# ------------------------------------------------------------------ lattice
def lattice_kwargs(cfg, ju=None):
  return dict(lattice_sizes=list(cfg["sizes"]), monotonicities=list(cfg["mono"]),
              unimodalities=list(cfg["uni"]) if any(cfg["uni"]) else None,
              edgeworth_trusts=[tuple(t) for t in cfg["ew"]] or None,
              trapezoid_trusts=[tuple(t) for t in cfg["tz"]] or None,
              monotonic_dominances=[tuple(t) for t in cfg["md"]] or None,
              range_dominances=[tuple(t) for t in cfg["rd"]] or None,
              joint_monotonicities=[tuple(t) for t in cfg["jm"]] or None,
              joint_unimodalities=ju,
              output_min=fl(cfg["lo"]), output_max=fl(cfg["hi"]))


def gen_joint_unimodality(rng, cfg):
  free = [d for d in range(len(cfg["sizes"])) if not cfg["mono"][d] and not cfg["uni"][d] and cfg["sizes"][d] >= 3
          and d not in {i for p in cfg["md"] + cfg["rd"] + cfg["jm"] for i in p}
          and d not in {c for _, c, _ in cfg["ew"] + cfg["tz"]}]
  if len(free) >= 1 and rng.random() < 0.25:
    k = rng.randint(1, min(2, len(free)))
    return [(tuple(sorted(rng.sample(free, k))), rng.choice(["valley", "peak"]))]
  return None


def lattice_fn(entry, cfg, ju, iters, wf):
  import tensorflow as tf
  from tensorflow_lattice.python import lattice_lib, lattice_layer
  kw = lattice_kwargs(cfg, ju)

  def f(us):
    w = tf.constant(wf[:, us], dtype=tf.float64)
    if entry == "lib.finalize":
      return lattice_lib.finalize_constraints(
          w, lattice_sizes=kw["lattice_sizes"], monotonicities=kw["monotonicities"],
          edgeworth_trusts=kw["edgeworth_trusts"], trapezoid_trusts=kw["trapezoid_trusts"],
          output_min=kw["output_min"], output_max=kw["output_max"]).numpy()
    if entry == "lib.dykstra":
      k2 = {k: v for k, v in kw.items() if k not in ("output_min", "output_max")}
      return lattice_lib.project_by_dykstra(w, num_iterations=iters, **k2).numpy()
    if entry in ("constraint", "constraint.nonstrict"):
      cons = lattice_layer.LatticeConstraints(num_projection_iterations=iters,
                                              enforce_strict_monotonicity=(entry == "constraint"), **kw)
      return cons(w).numpy()
    if entry == "layer.finalize":
      units = len(us)
      layer = lattice_layer.Lattice(units=units, num_projection_iterations=iters, monotonic_at_every_step=False,
                                    kernel_initializer="zeros", dtype="float64", **kw)
      layer.build((None, units, len(cfg["sizes"])) if units > 1 else (None, len(cfg["sizes"])))
      layer.kernel.assign(w)
      layer.finalize_constraints()
      return layer.kernel.numpy()
    raise ValueError(entry)
  return f


def run_lattice_units(ctx, count):
  rng = ctx.rng
  for _ in range(count):
    cfg = lat_gen_cfg(rng, allow_extra=True)
    ju = gen_joint_unimodality(rng, cfg)
    entry = rng.choice(["constraint", "constraint", "constraint.nonstrict", "lib.finalize", "lib.finalize",
                        "lib.dykstra", "layer.finalize"])
    if entry == "lib.finalize":
      ju = None
    n = int(np.prod(cfg["sizes"]))
    U = rng.choice([2, 3, 3, 4])
    mults = col_mults(rng, U)
    kind, w = gen_matrix(rng, n, U, mults)
    iters = rng.choice([1, 1, 3, 10])
    wf = tof(w)
    bm = mag([fl(cfg["lo"]) or 0.0, fl(cfg["hi"]) or 0.0])
    colmag = [max(mag(wf[:, u]), bm) for u in range(U)]
    cls = "ew%d:tz%d:x%d:ju%d:b%s%s" % (len(cfg["ew"]), len(cfg["tz"]),
                                       int(any(cfg["uni"]) or bool(cfg["md"] or cfg["rd"] or cfg["jm"])), int(bool(ju)),
                                       "L" if cfg["lo"] is not None else "", "H" if cfg["hi"] is not None else "")
    case = dict(layer="lattice", entry=entry, cfg=cfg, ju=ju, iters=iters, mults=mults, kind=kind, w=w, cls=entry + ":" + cls)
    ctx.count("lattice:" + entry)
    ctx.count("lattice:cls:" + cls)
    check_units(ctx, "lattice", case, lattice_fn(entry, cfg, ju, iters, wf), U, colmag, 1e-9, rng,
                moved_of=lambda full: np.any(full != wf))


# ------------------------------------------------------------------ PWL
def gen_pwl_cfg(rng):
  mono = rng.choice([-1, 0, 1, 1])
  conv = rng.choice([-1, 0, 0, 1])
  bmode = rng.choice(["none", "min", "max", "both", "both"])
  a = Fraction(rng.randint(-8, 8), 4)
  omin = a if bmode in ("min", "both") else None
  omax = a + Fraction(rng.randint(1, 16), 4) if bmode in ("max", "both") else None
  cmin = mono != 0 and rng.random() < 0.35
  cmax = mono != 0 and rng.random() < 0.35
  k = rng.choice([2, 3, 3, 4, 5, 6])
  lengths = [Fraction(rng.randint(1, 8), 4) for _ in range(k - 1)]
  return dict(mono=mono, conv=conv, omin=omin, omax=omax, cmin=cmin, cmax=cmax, lengths=lengths,
              iters=rng.choice([0, 1, 2, 8, 8]))


def pwl_constraint(cfg):
  import tensorflow as tf
  from tensorflow_lattice.python import pwl_calibration_layer as pl, pwl_calibration_lib as plib
  omin, omax = fl(cfg["omin"]), fl(cfg["omax"])
  _, _, minc, maxc = plib.convert_all_constraints(omin, omax, cfg["cmin"], cfg["cmax"])
  return pl.PWLCalibrationConstraints(
      monotonicity=cfg["mono"], convexity=cfg["conv"],
      lengths=tf.constant([float(l) for l in cfg["lengths"]], dtype=tf.float64),
      output_min=omin, output_max=omax, output_min_constraints=minc, output_max_constraints=maxc,
      num_projection_iterations=cfg["iters"])


def run_pwl_units(ctx, count):
  import tensorflow as tf
  rng = ctx.rng
  for _ in range(count):
    cfg = gen_pwl_cfg(rng)
    U = rng.choice([2, 3, 3, 4])
    mults = col_mults(rng, U)
    kind, w = gen_matrix(rng, len(cfg["lengths"]) + 1, U, mults)
    wf = tof(w)
    bm = mag([fl(cfg["omin"]) or 0.0, fl(cfg["omax"]) or 0.0])
    # magnitudes of a column = its outputs (cumulative sums), not only the increments
    colmag = [max(mag(np.cumsum(wf[:, u])), mag(wf[:, u]), bm) for u in range(U)]
    cls = "m%d:c%d:b%s%s:cl%d%d:it%d" % (cfg["mono"], cfg["conv"], "L" if cfg["omin"] is not None else "",
                                       "H" if cfg["omax"] is not None else "", cfg["cmin"], cfg["cmax"], min(cfg["iters"], 2))
    case = dict(layer="pwl", cfg=cfg, mults=mults, kind=kind, w=w, cls=cls)
    ctx.count("pwl:cls:" + cls)
    try:
      cons = pwl_constraint(cfg)
    except Exception as e:
      ctx.count("pwl:rejected")
      continue
    check_units(ctx, "pwl", case, lambda us: cons(tf.constant(wf[:, us], dtype=tf.float64)).numpy(), U, colmag, 1e-9, rng,
                moved_of=lambda full: np.any(full != wf))


# ------------------------------------------------------------------ categorical
def rand_dag_pairs(rng, nodes, max_pairs):
  order = list(range(nodes))
  rng.shuffle(order)
  pairs = set()
  for _ in range(rng.randint(1, max_pairs)):
    a, b = sorted(rng.sample(range(nodes), 2))
    pairs.add((order[a], order[b]))
  return sorted(pairs)


def run_categorical_units(ctx, count):
  import tensorflow as tf
  from tensorflow_lattice.python import categorical_calibration_layer as cl
  rng = ctx.rng
  for _ in range(count):
    n = rng.randint(2, 7)
    pairs = rand_dag_pairs(rng, n, 6) if rng.random() < 0.75 else None
    bmode = rng.choice(["none", "min", "max", "both"])
    a = Fraction(rng.randint(-8, 8), 4)
    lo = a if bmode in ("min", "both") else None
    hi = a + Fraction(rng.randint(1, 16), 4) if bmode in ("max", "both") else None
    U = rng.choice([2, 3, 3, 4])
    mults = col_mults(rng, U)
    kind, w = gen_matrix(rng, n, U, mults)
    wf = tof(w)
    bm = mag([fl(lo) or 0.0, fl(hi) or 0.0])
    colmag = [max(mag(wf[:, u]), bm) for u in range(U)]
    cls = "p%d:b%s%s" % (int(bool(pairs)), "L" if lo is not None else "", "H" if hi is not None else "")
    case = dict(layer="categorical", n=n, pairs=pairs, lo=lo, hi=hi, mults=mults, kind=kind, w=w, cls=cls)
    ctx.count("categorical:cls:" + cls)
    cons = cl.CategoricalCalibrationConstraints(output_min=fl(lo), output_max=fl(hi), monotonicities=pairs)
    check_units(ctx, "categorical", case, lambda us: cons(tf.constant(wf[:, us], dtype=tf.float64)).numpy(), U, colmag,
                1e-9, rng, moved_of=lambda full: np.any(full != wf))


# ------------------------------------------------------------------ linear
def gen_linear_cfg(rng):
  n = rng.randint(2, 6)
  monos = [rng.choice([-1, 0, 1, 1]) for _ in range(n)]
  md, rd = [], []
  sign = rng.choice([1, 1, -1])
  ms = [d for d in range(n) if monos[d] == sign]     # dominance pairs need the same direction
  inc = [d for d in range(n) if monos[d] == 1]        # monotonic dominance needs increasing dims
  if len(inc) >= 2 and rng.random() < 0.6:
    a, b = rng.sample(inc, 2)
    md.append((a, b))
  lo = [None] * n
  hi = [None] * n
  ms = [d for d in ms if not md or d not in md[0]]     # a dimension takes one kind of dominance only
  if len(ms) >= 2 and rng.random() < 0.5:
    a, b = rng.sample(ms, 2)
    rd.append((a, b))
    for d in (a, b):
      lo[d] = Fraction(rng.randint(-4, 4), 2)
      hi[d] = lo[d] + Fraction(rng.randint(1, 8), 2)
  ord_ = rng.choice([None, 1, 2, "inf", 1, 2])
  return dict(n=n, monotonicities=monos, monotonic_dominances=md or None, range_dominances=rd or None,
              input_min=lo if rd else None, input_max=hi if rd else None, normalization_order=ord_)


def linear_constraint(cfg):
  from tensorflow_lattice.python import linear_layer
  kw = {k: v for k, v in cfg.items() if k != "n"}
  kw["input_min"] = None if cfg["input_min"] is None else [None if v is None else float(v) for v in cfg["input_min"]]
  kw["input_max"] = None if cfg["input_max"] is None else [None if v is None else float(v) for v in cfg["input_max"]]
  if kw["normalization_order"] == "inf":
    kw["normalization_order"] = np.inf
  return linear_layer.LinearConstraints(**kw)


def run_linear_units(ctx, count):
  import tensorflow as tf
  rng = ctx.rng
  for _ in range(count):
    cfg = gen_linear_cfg(rng)
    U = rng.choice([2, 3, 3, 4])
    mults = col_mults(rng, U)
    kind, w = gen_matrix(rng, cfg["n"], U, mults)
    wf = tof(w)
    cons = linear_constraint(cfg)
    norm = cfg["normalization_order"] is not None
    cls = "md%d:rd%d:n%s" % (int(bool(cfg["monotonic_dominances"])), int(bool(cfg["range_dominances"])), cfg["normalization_order"])
    case = dict(layer="linear", cfg=cfg, mults=mults, kind=kind, w=w, cls=cls)
    ctx.count("linear:cls:" + cls)
    # after normalisation a non-degenerate column has norm 1 whatever its input magnitude
    colmag = [max(mag(wf[:, u]), 1.0 if norm else 0.0) for u in range(U)]
    check_units(ctx, "linear", case, lambda us: cons(tf.constant(wf[:, us], dtype=tf.float64)).numpy(), U, colmag, 1e-9,
                rng, moved_of=lambda full: np.any(full != wf))


# ------------------------------------------------------------------ KFL
def gen_kfl_cfg(rng):
  L = rng.randint(2, 4)
  dims = rng.randint(1, 3)
  T = rng.randint(1, 3)
  monos = [rng.choice([0, 1, 1]) for _ in range(dims)]
  bmode = rng.choice(["none", "min", "max", "both", "both"])
  a = Fraction(rng.randint(-8, 8), 4)
  lo = a if bmode in ("min", "both") else None
  hi = a + Fraction(rng.randint(1, 16), 4) if bmode in ("max", "both") else None
  return dict(L=L, dims=dims, T=T, monos=monos, lo=lo, hi=hi)


def run_kfl_units(ctx, count):
  import tensorflow as tf
  from tensorflow_lattice.python import kronecker_factored_lattice_layer as kl
  rng = ctx.rng
  for _ in range(count):
    cfg = gen_kfl_cfg(rng)
    L, dims, T = cfg["L"], cfg["dims"], cfg["T"]
    U = rng.choice([2, 3, 3, 4])
    mults = col_mults(rng, U)
    # kernel as (L*dims*T rows, U columns): row = (i, d, t)
    kind, w = gen_matrix(rng, L * dims * T, U, mults)
    wf = tof(w)
    smults = col_mults(rng, U)
    _, s = gen_matrix(rng, T, U, smults, kinds=["dyadic", "int"])
    sf = tof(s)

    def pack(us):
      k = wf[:, us].reshape(L, dims, T, len(us))            # (i, d, t, u)
      k = np.transpose(k, (0, 3, 1, 2)).reshape(1, L, len(us) * dims, T)
      return k, np.transpose(sf[:, us], (1, 0))               # scale (U, T)

    def unpack(k, nu):
      return np.transpose(k.reshape(L, nu, dims, T), (0, 2, 3, 1)).reshape(L * dims * T, nu)

    def f(us):
      k, sc = pack(us)
      cons = kl.KroneckerFactoredLatticeConstraints(
          units=len(us), scale=tf.constant(sc, dtype=tf.float64), monotonicities=cfg["monos"],
          output_min=fl(cfg["lo"]), output_max=fl(cfg["hi"]))
      return unpack(cons(tf.constant(k, dtype=tf.float64)).numpy(), len(us))

    def fs(us):
      _, sc = pack(us)
      cons = kl.ScaleConstraints(output_min=fl(cfg["lo"]), output_max=fl(cfg["hi"]))
      return np.transpose(cons(tf.constant(sc, dtype=tf.float64)).numpy(), (1, 0))

    cls = "m%d:b%s%s" % (sum(cfg["monos"]), "L" if cfg["lo"] is not None else "", "H" if cfg["hi"] is not None else "")
    case = dict(layer="kfl", cfg=cfg, mults=mults, smults=smults, kind=kind, w=w, scale=s, cls=cls)
    ctx.count("kfl:cls:" + cls)
    colmag = [max(mag(wf[:, u]), 1.0 if (cfg["lo"] is not None and cfg["hi"] is not None) else 0.0) for u in range(U)]
    check_units(ctx, "kfl", case, f, U, colmag, 1e-9, rng, moved_of=lambda full: np.any(full != wf))
    bm = mag([fl(cfg["lo"]) or 0.0, fl(cfg["hi"]) or 0.0])
    check_units(ctx, "kfl.scale", dict(case, cls="scale:" + cls), fs, U, [max(mag(sf[:, u]), bm) for u in range(U)], 1e-9,
                rng, moved_of=lambda full: np.any(full != sf))


# ------------------------------------------------------------------ forward passes per unit
def run_call_units(ctx, count):
  """layer(x)[:, u] of a multi-unit layer vs the one-unit layer with kernel column u on x[:, u]."""
  import tensorflow as tf
  import tensorflow_lattice as tfl
  rng = ctx.rng
  for _ in range(count):
    which = rng.choice(["lattice", "pwl", "categorical", "linear", "kfl"])
    U = rng.choice([2, 3, 4])
    mults = col_mults(rng, U)
    B = rng.randint(2, 5)
    if which == "lattice":
      rank = rng.randint(1, 3)
      sizes = [rng.randint(2, 3) for _ in range(rank)]
      interp = rng.choice(["hypercube", "simplex"])
      n = int(np.prod(sizes))
      kind, w = gen_matrix(rng, n, U, mults)
      wf = tof(w)
      x = np.array([[[rng.uniform(-0.5, s - 0.5) for s in sizes] for _ in range(U)] for _ in range(B)])

      def f(us, wf=wf, x=x, sizes=sizes, interp=interp):
        layer = tfl.layers.Lattice(lattice_sizes=sizes, units=len(us), interpolation=interp, kernel_initializer="zeros",
                                   dtype="float64")
        xi = x[:, us, :] if len(us) > 1 else x[:, us[0], :]
        layer.build(xi.shape)
        layer.kernel.assign(wf[:, us])
        return layer(tf.constant(xi)).numpy().reshape(B, len(us))
      case = dict(layer="lattice.call", sizes=sizes, interp=interp, mults=mults, w=w, x=x, cls=interp)
    elif which == "pwl":
      k = rng.randint(2, 5)
      kp = list(np.cumsum([0.0] + [rng.randint(1, 4) / 2.0 for _ in range(k - 1)]))
      kind, w = gen_matrix(rng, k, U, mults)
      wf = tof(w)
      shared = rng.random() < 0.4
      x = np.array([[rng.uniform(kp[0] - 1, kp[-1] + 1) for _ in range(1 if shared else U)] for _ in range(B)])
      miss = rng.random() < 0.3
      if miss:
        x[0, 0] = -7.0

      def f(us, wf=wf, x=x, kp=kp, shared=shared, miss=miss):
        layer = tfl.layers.PWLCalibration(input_keypoints=kp, units=len(us), dtype="float64",
                                          impute_missing=miss, missing_input_value=-7.0 if miss else None)
        xi = x if shared else x[:, us]
        layer.build(xi.shape)
        layer.kernel.assign(wf[:, us])
        if miss:
          layer.missing_output.assign(np.array([[0.25 * (u + 1) for u in us]]))
        return layer(tf.constant(xi)).numpy().reshape(B, len(us))
      case = dict(layer="pwl.call", keypoints=kp, shared=shared, missing=miss, mults=mults, w=w, x=x, cls="s%d:m%d" % (shared, miss))
    elif which == "categorical":
      nb = rng.randint(2, 5)
      kind, w = gen_matrix(rng, nb, U, mults, kinds=["dyadic", "int"])
      wf = tof(w)
      shared = rng.random() < 0.4
      x = np.array([[rng.randrange(nb) for _ in range(1 if shared else U)] for _ in range(B)], dtype=np.int32)

      def f(us, wf=wf, x=x, nb=nb, shared=shared):
        layer = tfl.layers.CategoricalCalibration(num_buckets=nb, units=len(us))
        xi = x if shared else x[:, us]
        layer.build(xi.shape)
        layer.kernel.assign(wf[:, us].astype(np.float32))
        return layer(tf.constant(xi)).numpy().reshape(B, len(us))
      case = dict(layer="categorical.call", buckets=nb, shared=shared, mults=mults, w=w, x=x, cls="s%d" % shared)
    elif which == "linear":
      n = rng.randint(1, 4)
      kind, w = gen_matrix(rng, n, U, mults)
      wf = tof(w)
      bias = np.array([rng.randint(-8, 8) / 4.0 for _ in range(U)])
      x = np.array([[[rng.randint(-16, 16) / 4.0 for _ in range(n)] for _ in range(U)] for _ in range(B)])

      def f(us, wf=wf, x=x, n=n, bias=bias):
        layer = tfl.layers.Linear(num_input_dims=n, units=len(us), dtype="float64")
        xi = x[:, us, :] if len(us) > 1 else x[:, us[0], :]
        layer.build(xi.shape)
        layer.kernel.assign(wf[:, us])
        layer.bias.assign(bias[us] if len(us) > 1 else bias[us].reshape(layer.bias.shape))
        return layer(tf.constant(xi)).numpy().reshape(B, len(us))
      case = dict(layer="linear.call", n=n, mults=mults, w=w, bias=bias, x=x, cls="n%d" % n)
    else:
      L, dims, T = rng.randint(2, 3), rng.randint(1, 3), rng.randint(1, 2)
      kind, w = gen_matrix(rng, L * dims * T, U, mults, kinds=["dyadic", "int", "unit"])
      wf = tof(w)
      sf = np.array([[rng.choice([-2.0, -1.0, 0.5, 1.0, 3.0]) for _ in range(U)] for _ in range(T)])
      bias = np.array([rng.randint(-8, 8) / 4.0 for _ in range(U)])
      x = np.array([[[rng.uniform(-0.5, L - 0.5) for _ in range(dims)] for _ in range(U)] for _ in range(B)])

      def f(us, wf=wf, x=x, L=L, dims=dims, T=T, sf=sf, bias=bias):
        layer = tfl.layers.KroneckerFactoredLattice(lattice_sizes=L, units=len(us), num_terms=T, dtype="float64")
        xi = x[:, us, :] if len(us) > 1 else x[:, us[0], :]
        layer.build(tf.TensorShape(xi.shape))
        k = wf[:, us].reshape(L, dims, T, len(us))
        layer.kernel.assign(np.transpose(k, (0, 3, 1, 2)).reshape(1, L, len(us) * dims, T))
        layer.scale.assign(np.transpose(sf[:, us], (1, 0)))
        layer.bias.assign(bias[us])
        return layer(tf.constant(xi)).numpy().reshape(B, len(us))
      case = dict(layer="kfl.call", L=L, dims=dims, T=T, mults=mults, w=w, scale=sf, bias=bias, x=x, cls="d%d:t%d" % (dims, T))
    ctx.count("call:" + which)
    rtol = 2e-6 if which == "categorical" else 1e-9
    # the output of unit u scales with its own kernel column
    colmag = [max(mag(wf[:, u]) * (1.0 if which != "linear" else 4.0 * wf.shape[0]) * (9.0 if which == "kfl" else 1.0), 1e-3)
              + (8.0 if which in ("linear", "kfl") else 0.0) for u in range(U)]
    check_units(ctx, case["layer"], case, f, U, colmag, rtol, rng)


# ------------------------------------------------------------------ row independence
def scaled_rows(rng, B, shape, lo, hi):
  """inputs in [lo, hi] scaled per ROW by {1, 100, 1/100} (so a reduction over the batch is visible) with a few
  rows kept in range."""
  rm = row_mults(rng, B)
  x = np.array([[rng.uniform(lo, hi) for _ in range(int(np.prod(shape)))] for _ in range(B)]).reshape((B,) + tuple(shape))
  for i in range(B):
    if rng.random() < 0.6:
      x[i] *= rm[i]
  return x


def build_row_cases(ctx, reps):
  """yields (layer name, case dict, g(rows) -> outputs, B, rtol)"""
  import tensorflow as tf
  import tensorflow_lattice as tfl
  from tensorflow_lattice.python import conditional_cdf, conditional_pwl_calibration as cpc, configs, premade, lattice_layer
  keras = lattice_layer.keras
  rng = ctx.rng
  out = []

  def rnd_assign(layer, scale=1.0):
    for v in layer.weights:
      a = np.array([rng.uniform(-1, 1) * scale for _ in range(int(np.prod(v.shape)))]).reshape(v.shape)
      v.assign(a.astype(v.dtype.as_numpy_dtype))

  for _ in range(reps):
    B = rng.randint(2, 7)
    # ---- Lattice
    rank = rng.randint(1, 3)
    sizes = [rng.randint(2, 3) for _ in range(rank)]
    U = rng.choice([1, 1, 2, 3])
    interp = rng.choice(["hypercube", "simplex"])
    clip = rng.random() < 0.7
    layer = tfl.layers.Lattice(lattice_sizes=sizes, units=U, interpolation=interp, clip_inputs=clip, dtype="float64")
    x = scaled_rows(rng, B, (U, rank) if U > 1 else (rank,), -0.5, max(sizes) - 0.5)
    if not clip:     # without clipping only in-range points are legal inputs (simplex gathers out of range otherwise)
      x = np.clip(np.abs(x), 0.0, min(sizes) - 1.0)
    layer.build(x.shape)
    rnd_assign(layer, 3.0)
    out.append(("lattice", dict(sizes=sizes, units=U, interp=interp, clip=clip, x=x, cls="%s:c%d:u%d" % (interp, clip, U)),
                lambda rows, layer=layer, x=x: layer(tf.constant(x[rows])).numpy(), B, 1e-9))
    # ---- PWL
    k = rng.randint(2, 5)
    kp = list(np.cumsum([0.0] + [rng.randint(1, 4) / 2.0 for _ in range(k - 1)]))
    U = rng.choice([1, 2, 3])
    kt = rng.choice(["fixed", "fixed", "learned_interior"])
    cyc = kt == "fixed" and k >= 3 and rng.random() < 0.2
    miss = rng.random() < 0.3
    # learned_interior keypoints hard-cast to float32
    pdt = "float64" if kt == "fixed" else "float32"
    layer = tfl.layers.PWLCalibration(input_keypoints=kp, units=U, dtype=pdt, input_keypoints_type=kt, is_cyclic=cyc,
                                      impute_missing=miss, missing_input_value=-7.0 if miss else None)
    x = scaled_rows(rng, B, (rng.choice([1, U]),), kp[0] - 1, kp[-1] + 1).astype(pdt)
    if miss:
      x[rng.randrange(B), 0] = -7.0
    layer.build(x.shape)
    rnd_assign(layer, 2.0)
    out.append(("pwl", dict(keypoints=kp, units=U, kptype=kt, cyclic=cyc, missing=miss, x=x, cls="%s:c%d:m%d" % (kt, cyc, miss)),
                lambda rows, layer=layer, x=x: layer(tf.constant(x[rows])).numpy(), B, 1e-9 if kt == "fixed" else 2e-5))
    # ---- Categorical
    nb = rng.randint(2, 5)
    U = rng.choice([1, 2, 3])
    dv = rng.choice([None, -1])
    layer = tfl.layers.CategoricalCalibration(num_buckets=nb, units=U, default_input_value=dv)
    wd = rng.choice([1, U])
    x = np.array([[rng.randrange(-1 if dv is not None else 0, nb) for _ in range(wd)] for _ in range(B)], dtype=np.int32)
    layer.build(x.shape)
    rnd_assign(layer, 2.0)
    out.append(("categorical", dict(buckets=nb, units=U, default=dv, x=x, cls="u%d:d%d" % (U, dv is not None)),
                lambda rows, layer=layer, x=x: layer(tf.constant(x[rows])).numpy(), B, 2e-6))
    # ---- Linear
    n = rng.randint(1, 4)
    U = rng.choice([1, 2, 3])
    bounds = rng.random() < 0.4
    layer = tfl.layers.Linear(num_input_dims=n, units=U, dtype="float64", use_bias=rng.random() < 0.7,
                              input_min=[-1.0] * n if bounds else None, input_max=[2.0] * n if bounds else None,
                              monotonicities=[1] * n if bounds else None)
    x = scaled_rows(rng, B, (U, n) if U > 1 else (n,), -4, 4)
    layer.build(x.shape)
    rnd_assign(layer, 2.0)
    out.append(("linear", dict(n=n, units=U, clip=bounds, x=x, cls="u%d:b%d" % (U, bounds)),
                lambda rows, layer=layer, x=x: layer(tf.constant(x[rows])).numpy(), B, 1e-9))
    # ---- KFL
    L, dims, T = rng.randint(2, 3), rng.randint(1, 3), rng.randint(1, 3)
    U = rng.choice([1, 2, 3])
    clip = rng.random() < 0.7
    layer = tfl.layers.KroneckerFactoredLattice(lattice_sizes=L, units=U, num_terms=T, clip_inputs=clip, dtype="float64")
    x = scaled_rows(rng, B, (U, dims) if U > 1 else (dims,), -0.5, L - 0.5)
    layer.build(tf.TensorShape(x.shape))
    rnd_assign(layer, 1.5)
    out.append(("kfl", dict(L=L, dims=dims, T=T, units=U, clip=clip, x=x, cls="u%d:c%d" % (U, clip)),
                lambda rows, layer=layer, x=x: layer(tf.constant(x[rows])).numpy(), B, 1e-9))
    # ---- CDF
    dimsC = rng.choice([1, 2, 4])
    sp = rng.choice([1, 1, 2]) if dimsC % 2 == 0 else 1
    U = sp * rng.randint(1, 2)
    act = rng.choice(["relu6", "sigmoid"])
    red = rng.choice(["mean", "geometric_mean", "none"])
    ist = rng.choice(["fixed", "learned_shared", "learned_per_input"])
    layer = tfl.layers.CDF(num_keypoints=rng.randint(1, 4), units=U, activation=act, reduction=red, sparsity_factor=sp,
                           input_scaling_type=ist)
    x = scaled_rows(rng, B, (dimsC,), -2, 2).astype(np.float32)
    layer.build(x.shape)
    rnd_assign(layer, 1.0)
    out.append(("cdf", dict(dims=dimsC, units=U, act=act, red=red, sparsity=sp, scaling=ist, x=x, cls="%s:%s:s%d" % (act, red, sp)),
                lambda rows, layer=layer, x=x: layer(tf.constant(x[rows])).numpy(), B, 2e-5))
    # ---- conditional_cdf.cdf_fn (parameters are per example too)
    nk = rng.randint(1, 3)
    loc = scaled_rows(rng, B, (dimsC, nk, U // sp), -2, 2).astype(np.float32)
    sc = np.array([rng.uniform(0.2, 2.0) for _ in range(B * dimsC)]).reshape(B, dimsC, 1, 1).astype(np.float32)
    out.append(("cdf_fn", dict(dims=dimsC, units=U, act=act, red=red, sparsity=sp, x=x, loc=loc, scaling=sc, cls="%s:%s:s%d" % (act, red, sp)),
                lambda rows, x=x, loc=loc, sc=sc, U=U, act=act, red=red, sp=sp: conditional_cdf.cdf_fn(
                    tf.constant(x[rows]), tf.constant(loc[rows]), tf.constant(sc[rows]), units=U, activation=act,
                    reduction=red, sparsity_factor=sp).numpy(), B, 2e-5))
    # ---- conditional_pwl_calibration.pwl_calibration_fn
    nkp = rng.randint(2, 5)
    U = rng.choice([1, 2, 3])
    mono = rng.choice(["none", "increasing"])
    cmin, cmax = mono == "increasing" and rng.random() < 0.4, mono == "increasing" and rng.random() < 0.4
    cyc = mono == "none" and rng.random() < 0.3
    missv = rng.choice([None, None, -3.0])
    out_size = nkp - int(cyc) - int(cmin) - int(cmax) + int(missv is not None)
    if out_size >= 1:
      xin = scaled_rows(rng, B, (rng.choice([1, U]),), -0.5, 1.5).astype(np.float32)
      ip = None if nkp == 2 else scaled_rows(rng, B, (rng.choice([1, U]), nkp - 2), -2, 2).astype(np.float32)
      op = scaled_rows(rng, B, (U, out_size), -2, 2).astype(np.float32)
      if missv is not None:
        xin[rng.randrange(B), 0] = missv
      out.append(("pwl_calibration_fn", dict(keypoints=nkp, units=U, mono=mono, cmin=cmin, cmax=cmax, cyclic=cyc, missing=missv,
                                             x=xin, ip=ip, op=op, cls="%s:%d%d%d:m%d" % (mono, cmin, cmax, cyc, missv is not None)),
                  lambda rows, xin=xin, ip=ip, op=op, U=U, mono=mono, cmin=cmin, cmax=cmax, cyc=cyc, missv=missv: cpc.pwl_calibration_fn(
                      tf.constant(xin[rows]), None if ip is None else tf.constant(ip[rows]), tf.constant(op[rows]), units=U,
                      monotonicity=mono, clamp_min=cmin, clamp_max=cmax, is_cyclic=cyc,
                      missing_input_value=missv).numpy(), B, 2e-5))
    # ---- ParallelCombination
    cals = []
    for j in range(rng.randint(2, 3)):
      if rng.random() < 0.5:
        cals.append(tfl.layers.PWLCalibration(input_keypoints=[0.0, 0.5, 2.0], dtype="float32"))
      else:
        cals.append(tfl.layers.CategoricalCalibration(num_buckets=3))
    pc = tfl.layers.ParallelCombination(cals, single_output=rng.random() < 0.7)
    x = np.array([[float(rng.randrange(3)) for _ in cals] for _ in range(B)], dtype=np.float32)
    pc.build(x.shape)
    pc(tf.constant(x))
    for c in cals:
      rnd_assign(c, 2.0)

    def gpc(rows, pc=pc, x=x):
      r = pc(tf.constant(x[rows]))
      return (tf.concat(r, axis=1) if isinstance(r, (list, tuple)) else r).numpy()
    out.append(("parallel_combination", dict(k=len(cals), x=x, cls="k%d" % len(cals)), gpc, B, 2e-6))
    # ---- Aggregation (ragged inputs, mean over the ragged dimension)
    nfeat = rng.randint(1, 2)
    inputs = [keras.Input(shape=(1,)) for _ in range(nfeat)]
    cal = [tfl.layers.PWLCalibration(input_keypoints=[0.0, 1.0, 2.0], output_min=0.0, output_max=1.0)(i) for i in inputs]
    body = tfl.layers.Lattice(lattice_sizes=[2] * nfeat)(cal if nfeat > 1 else cal[0]) if nfeat > 1 else \
        tfl.layers.Linear(num_input_dims=1)(cal[0])
    sub = keras.Model(inputs=inputs, outputs=body)
    for v in sub.weights:
      v.assign(np.array([rng.uniform(0, 1) for _ in range(int(np.prod(v.shape)))]).reshape(v.shape).astype(np.float32))
    agg = tfl.layers.Aggregation(sub)
    lens = [rng.randint(1, 4) for _ in range(B)]
    vals = [[[rng.uniform(-0.5, 2.5) for _ in range(lens[i])] for i in range(B)] for _ in range(nfeat)]

    def gagg(rows, agg=agg, vals=vals, nfeat=nfeat):
      rag = [tf.ragged.constant([vals[f][i] for i in rows], dtype=tf.float32, ragged_rank=1) for f in range(nfeat)]
      return agg(rag).numpy()
    out.append(("aggregation", dict(features=nfeat, lens=lens, vals=vals, cls="f%d" % nfeat), gagg, B, 2e-5))
    # ---- RTL
    nl, lr = rng.randint(2, 4), rng.randint(2, 3)
    nu, ni = rng.randint(1, 3), rng.randint(1, 3)
    par = rng.choice(["all_vertices", "all_vertices", "kronecker_factored"])
    avg = rng.random() < 0.3
    rtl = tfl.layers.RTL(num_lattices=nl, lattice_rank=lr, parameterization=par, average_outputs=avg,
                         random_seed=rng.randrange(1000), output_min=0.0, output_max=1.0)
    xu = scaled_rows(rng, B, (nu,), 0, 1).astype(np.float32)
    xi = scaled_rows(rng, B, (ni,), 0, 1).astype(np.float32)
    try:
      rtl({"unconstrained": tf.constant(xu), "increasing": tf.constant(xi)})
      for v in rtl.weights:
        v.assign(np.array([rng.uniform(0, 1) for _ in range(int(np.prod(v.shape)))]).reshape(v.shape).astype(np.float32))
      out.append(("rtl", dict(lattices=nl, rank=lr, param=par, avg=avg, xu=xu, xi=xi, cls="%s:a%d" % (par, avg)),
                  lambda rows, rtl=rtl, xu=xu, xi=xi: rtl({"unconstrained": tf.constant(xu[rows]),
                                                           "increasing": tf.constant(xi[rows])}).numpy(), B, 2e-5))
    except ValueError:
      ctx.count("rtl:rejected")
    # ---- premade models from tfl.configs
    fcs = [configs.FeatureConfig(name="a", lattice_size=2, monotonicity="increasing",
                                 pwl_calibration_input_keypoints=[0.0, 0.5, 1.0, 2.0], pwl_calibration_num_keypoints=4),
           configs.FeatureConfig(name="b", lattice_size=3, pwl_calibration_input_keypoints=[-1.0, 0.0, 1.0],
                                 pwl_calibration_num_keypoints=3),
           configs.FeatureConfig(name="c", num_buckets=3, lattice_size=2)]
    which = rng.choice(["lattice", "linear", "ensemble"])
    if which == "lattice":
      mc = configs.CalibratedLatticeConfig(feature_configs=fcs, output_min=0.0, output_max=1.0,
                                           output_calibration=rng.random() < 0.5, output_initialization=[0.0, 1.0])
      model = premade.CalibratedLattice(mc)
    elif which == "linear":
      mc = configs.CalibratedLinearConfig(feature_configs=fcs, use_bias=True, output_calibration=rng.random() < 0.5,
                                          output_initialization=[0.0, 1.0])
      model = premade.CalibratedLinear(mc)
    else:
      mc = configs.CalibratedLatticeEnsembleConfig(feature_configs=fcs, lattices=[["a", "b"], ["b", "c"], ["a", "c"]],
                                                   output_min=0.0, output_max=1.0, output_initialization=[0.0, 1.0])
      model = premade.CalibratedLatticeEnsemble(mc)
    for v in model.weights:
      if v.trainable:
        v.assign((v.numpy() + np.array([rng.uniform(-0.2, 0.2) for _ in range(int(np.prod(v.shape)))]).reshape(v.shape)).astype(np.float32))
    xa = scaled_rows(rng, B, (1,), 0, 2).astype(np.float32)
    xb = scaled_rows(rng, B, (1,), -1, 1).astype(np.float32)
    xc = np.array([[float(rng.randrange(3))] for _ in range(B)], dtype=np.float32)
    out.append(("premade." + which, dict(model=which, xa=xa, xb=xb, xc=xc, cls=which),
                lambda rows, model=model, xa=xa, xb=xb, xc=xc: model([tf.constant(xa[rows]), tf.constant(xb[rows]),
                                                                      tf.constant(xc[rows])]).numpy(), B, 2e-5))
  return out


def run_rows(ctx, reps):
  for name, case, g, B, rtol in build_row_cases(ctx, reps):
    case = dict(case, layer=name)
    check_rows(ctx, name, case, g, B, rtol, ctx.rng)



# ------------------------------------------------------------------ tie of the Lean multi-unit model (ops un.*)
def exact_matrix(rng, n, units, mults, kinds=None):
  """(n, units) floats and their exact rationals"""
  kind, rows = gen_matrix(rng, n, units, mults, kinds)
  wf = tof(rows)
  return kind, wf, [[Fraction(float(v)) for v in row] for row in wf]


def bct_int(x):
  return int(getattr(x, "value", x))


def run_units_model(ctx, count):
  import tensorflow as tf
  from tensorflow_lattice.python import lattice_lib, pwl_calibration_lib as plib, linear_lib
  from tensorflow_lattice.python import kronecker_factored_lattice_lib as kfl_lib
  rng = ctx.rng
  lines, pend = [], []
  kinds = ["finalize", "finalize", "finalize", "edgeworth", "trapezoid", "bounds", "reduce", "pwlbounds", "pwlsqueeze",
           "norm", "norm", "kflmax", "pwlfull", "pwlfull", "linfull", "catfull"]
  for _ in range(count):
    which = rng.choice(kinds)
    U = rng.choice([2, 2, 3])
    mults = col_mults(rng, U)
    if which in ("finalize", "edgeworth", "trapezoid", "bounds", "reduce"):
      while True:
        cfg = lat_gen_cfg(rng, allow_extra=False)
        if int(np.prod(cfg["sizes"])) * U <= 54 and (which in ("bounds", "reduce", "finalize") or cfg["ew"] or cfg["tz"]):
          break
      sizes = list(cfg["sizes"])
      n = int(np.prod(sizes))
      kind, wf, w = exact_matrix(rng, n, U, mults)
      full = sizes + [U]
      t = tf.reshape(tf.constant(wf, dtype=tf.float64), full)
      ew = [tuple(x) for x in cfg["ew"]]
      tz = [tuple(x) for x in cfg["tz"]]
      flat = frl([v for row in w for v in row])
      case = dict(op=which, cfg=cfg, units=U, mults=mults, w=w)
      try:
        if which == "finalize":
          out = lattice_lib.finalize_constraints(
              tf.constant(wf, dtype=tf.float64), lattice_sizes=sizes, monotonicities=list(cfg["mono"]),
              edgeworth_trusts=ew or None, trapezoid_trusts=tz or None, output_min=fl(cfg["lo"]),
              output_max=fl(cfg["hi"])).numpy().reshape(n, U)
          lines.append("un.finalize %s %d %s %s %s %s %s %s" % (il(sizes), U, il(cfg["mono"]), il2(ew), il2(tz),
                                                              opt(cfg["lo"]), opt(cfg["hi"]), flat))
        elif which == "edgeworth":
          out = lattice_lib._approximately_project_edgeworth(t, full, U, ew).numpy().reshape(n, U)
          lines.append("un.edgeworth %s %d %s %s" % (il(sizes), U, il2(ew), flat))
        elif which == "trapezoid":
          out = lattice_lib._approximately_project_trapezoid(t, full, U, tz, ew).numpy().reshape(n, U)
          lines.append("un.trapezoid %s %d %s %s %s" % (il(sizes), U, il2(ew), il2(tz), flat))
        elif which == "bounds":
          out = lattice_lib._approximately_project_bounds(t, U, fl(cfg["lo"]), fl(cfg["hi"])).numpy().reshape(n, U)
          lines.append("un.bounds %s %d %s %s %s" % (il(sizes), U, opt(cfg["lo"]), opt(cfg["hi"]), flat))
        else:
          axis = tf.constant(list(range(len(full) - 1)), dtype=tf.int32)      # the code's `axis`
          out = np.stack([tf.reduce_max(t, axis=axis).numpy(), tf.reduce_min(t, axis=axis).numpy(),
                          tf.reduce_sum(t, axis=axis).numpy()], axis=0)       # (3, U)
          lines.append("un.reduce %s %d %s" % (il(sizes), U, flat))
      except Exception as e:
        ctx.notes.append("un.%s real call raised %s" % (which, classify_exc(e)))
        continue
      colmag = [max(mag(wf[:, u]), mag([fl(cfg["lo"]) or 0.0, fl(cfg["hi"]) or 0.0])) for u in range(U)]
      if which == "reduce":
        colmag = [c * n for c in colmag]
      pend.append((which, case, out, colmag, wf))
    elif which in ("pwlbounds", "pwlsqueeze"):
      k = rng.randint(1, 5)
      kind, hf, h = exact_matrix(rng, k, U, mults)
      if which == "pwlsqueeze" or rng.random() < 0.5:
        hf = np.abs(hf)
        h = [[abs(v) for v in row] for row in h]
      _, bf, b = exact_matrix(rng, 1, U, mults)
      a = Fraction(rng.randint(-8, 8), 4)
      omin, omax = a, a + Fraction(rng.randint(1, 16), 4)
      B = plib.BoundConstraintsType
      minc, maxc = rng.choice([B.NONE, B.BOUND, B.CLAMPED]), rng.choice([B.NONE, B.BOUND, B.BOUND, B.CLAMPED])
      fn = plib._project_bounds_considering_monotonicity if which == "pwlbounds" else plib._squeeze_by_scaling
      try:
        rb, rh = fn(bias=tf.constant(bf, dtype=tf.float64), heights=tf.constant(hf, dtype=tf.float64), monotonicity=1,
                    output_min=float(omin), output_max=float(omax), output_min_constraints=minc, output_max_constraints=maxc)
      except Exception as e:
        ctx.notes.append("un.%s real call raised %s" % (which, classify_exc(e)))
        continue
      out = np.concatenate([np.asarray(rb).reshape(1, U), np.asarray(rh).reshape(k, U)], axis=0)
      lines.append("un.%s %d %s %s %d %d %s %s" % (which, U, fr(omin), fr(omax), bct_int(minc), bct_int(maxc), frl(b[0]), frl2(h)))
      colmag = [max(mag(hf[:, u]) * (k + 1), mag(bf[:, u]), float(abs(omin)), float(abs(omax))) for u in range(U)]
      pend.append((which, dict(op=which, units=U, mults=mults, omin=omin, omax=omax, minc=bct_int(minc), maxc=bct_int(maxc),
                               bias=b, h=h), out, colmag, hf))
    elif which == "pwlfull":
      # the WHOLE PWLCalibrationConstraints call (bounds / monotonicity / CONVEXITY Dykstra loop + finalisation, incl.
      # the units-dependent reshape of _project_convexity) on a multi-unit kernel vs the column-wise model
      # `Tfl.Units.pwlConstraintU` = one `pwlp.call` per column
      cfg = gen_pwl_cfg(rng)
      if rng.random() < 0.6 and cfg["conv"] == 0:
        cfg["conv"] = rng.choice([-1, 1])
      k = len(cfg["lengths"]) + 1
      kind, wf, w = exact_matrix(rng, k, U, mults)
      try:
        out = pwl_constraint(cfg)(tf.constant(wf, dtype=tf.float64)).numpy()
      except Exception as e:
        ctx.notes.append("un.pwlfull real call raised %s" % classify_exc(e))
        continue
      for u in range(U):
        lines.append("pwlp.call %d %d %s %s %d %d %s %d %s" % (
            cfg["mono"], cfg["conv"], opt(cfg["omin"]), opt(cfg["omax"]), cfg["cmin"], cfg["cmax"],
            frl(cfg["lengths"]), cfg["iters"], frl([row[u] for row in w])))
      bm = mag([fl(cfg["omin"]) or 0.0, fl(cfg["omax"]) or 0.0])
      colmag = [max(mag(np.cumsum(wf[:, u])), mag(wf[:, u]), bm) for u in range(U)]
      pend.append((which, dict(op=which, cfg=cfg, units=U, mults=mults, w=w), out, colmag, wf))
    elif which == "linfull":
      cfg = gen_linear_cfg(rng)
      n = cfg["n"]
      kind, wf, w = exact_matrix(rng, n, U, mults)
      try:
        out = linear_constraint(cfg)(tf.constant(wf, dtype=tf.float64)).numpy()
      except Exception as e:
        ctx.notes.append("un.linfull real call raised %s" % classify_exc(e))
        continue
      for u in range(U):
        lines.append("lin.project %s %s %s %s %s %s %s" % (
            il(cfg["monotonicities"]), il2(cfg["monotonic_dominances"] or []), il2(cfg["range_dominances"] or []),
            ",".join(opt(v) for v in (cfg["input_min"] or [None] * n)), ",".join(opt(v) for v in (cfg["input_max"] or [None] * n)),
            "none" if cfg["normalization_order"] is None else str(cfg["normalization_order"]), frl([row[u] for row in w])))
      norm = cfg["normalization_order"] is not None
      colmag = [max(mag(wf[:, u]), 1.0 if norm else 0.0) for u in range(U)]
      pend.append((which, dict(op=which, cfg=cfg, units=U, mults=mults, w=w), out, colmag, wf))
    elif which == "catfull":
      from tensorflow_lattice.python import categorical_calibration_layer as ccl
      n = rng.randint(2, 7)
      pairs = rand_dag_pairs(rng, n, 6) if rng.random() < 0.75 else []
      bmode = rng.choice(["none", "min", "max", "both"])
      a = Fraction(rng.randint(-8, 8), 4)
      lo = a if bmode in ("min", "both") else None
      hi = a + Fraction(rng.randint(1, 16), 4) if bmode in ("max", "both") else None
      kind, wf, w = exact_matrix(rng, n, U, mults)
      try:
        out = ccl.CategoricalCalibrationConstraints(output_min=fl(lo), output_max=fl(hi),
                                                    monotonicities=pairs or None)(tf.constant(wf, dtype=tf.float64)).numpy()
      except Exception as e:
        ctx.notes.append("un.catfull real call raised %s" % classify_exc(e))
        continue
      for u in range(U):
        lines.append("cat.project %s %s %s %s" % (opt(lo), opt(hi), il2(pairs), frl([row[u] for row in w])))
      bm = mag([fl(lo) or 0.0, fl(hi) or 0.0])
      colmag = [max(mag(wf[:, u]), bm) for u in range(U)]
      pend.append((which, dict(op=which, n=n, pairs=pairs, lo=lo, hi=hi, units=U, mults=mults, w=w), out, colmag, wf))
    elif which == "norm":
      n = rng.randint(1, 5)
      kind, wf, w = exact_matrix(rng, n, U, mults)
      if rng.random() < 0.15:
        wf[:, 0] = 0.0
        w = [[Fraction(0) if u == 0 else row[u] for u in range(U)] for row in w]
      ord_ = rng.choice([1, 2, "inf"])
      out = linear_lib.project(tf.constant(wf, dtype=tf.float64), monotonicities=[0] * n,
                               normalization_order=np.inf if ord_ == "inf" else ord_).numpy()
      lines.append("un.norm %d %s %s" % (U, ord_, frl2(w)))
      pend.append((which, dict(op=which, units=U, mults=mults, ord=ord_, w=w), out, [1.0] * U, wf))
    else:
      L, dims, T = rng.randint(2, 3), rng.randint(1, 3), rng.randint(1, 2)
      kind, kf, k = exact_matrix(rng, L * dims * T, U, mults, kinds=["dyadic", "int", "unit"])
      # flat (1, L, U*dims, T) kernel, entry (i, u*dims+d, t) = kf[(i*dims + d)*T + t, u]
      w4 = np.transpose(kf.reshape(L, dims, T, U), (0, 3, 1, 2)).reshape(1, L, U * dims, T)
      out = kfl_lib._approximately_project_bounds(tf.constant(w4, dtype=tf.float64), U, 0.0, 1.0).numpy()
      flat = [Fraction(float(v)) for v in w4.reshape(-1)]
      lines.append("un.kflmax %d %d %d %d %s" % (L, U, dims, T, frl(flat)))
      pend.append((which, dict(op=which, L=L, dims=dims, T=T, units=U, mults=mults, k=k), out, [1.0] * U, w4))
  replies = run_driver(lines, timeout=1200)
  pos = 0
  for (which, case, out, colmag, wf) in pend:
    nrep = case["units"] if which in ("pwlfull", "linfull", "catfull") else 1
    reps, rep = replies[pos:pos + nrep], replies[pos]
    pos += nrep
    ctx.count("un:" + which)
    suite = "un." + which
    if which in ("pwlfull", "linfull", "catfull"):
      # column-wise multi-unit model: reply u = the one-unit model on column u
      ctx.case(sig=(suite, hash(np.asarray(wf).tobytes()) % 99991), nontrivial=bool(np.any(out != wf)), sample=dict(case, out=out))
      for u in range(case["units"]):
        r = reps[u]
        if r == "bad-op" or r.startswith("ERR"):
          ctx.disagree(suite, case, out[:, u], r, "model rejects")
          continue
        toks = r.split(" ")
        mv = parse_rats(toks[0])
        if which == "linfull" and case["cfg"]["normalization_order"] == 2:
          nrm = float(Fraction(toks[1])) ** 0.5
          mv = [Fraction(float(v) / (nrm if nrm >= 1e-8 else 1.0)) for v in mv]
        ctx.compare(suite, case, out[:, u], mv, colmag[u], rtol=1e-9)
      continue
    ctx.case(sig=(suite, hash(np.asarray(wf).tobytes()) % 99991), nontrivial=True, sample=dict(case, out=out))
    if rep == "bad-op" or rep.startswith("ERR"):
      ctx.disagree(suite, case, out, rep, "model rejects")
      continue
    toks = rep.split(" ")
    U = case["units"]
    if which in ("finalize", "edgeworth", "trapezoid", "bounds"):
      mv = parse_rats(toks[0])
      ok = True
      for u in range(U):
        ok = ctx.compare(suite, case, out[:, u], mv[u::U], colmag[u], rtol=1e-9) and ok
      if which == "finalize" and toks[1] != "1":
        ctx.disagree(suite + ".per_unit", case, out, rep, "multi-unit model column != one-unit model of the column")
      elif which == "finalize":
        ctx.agree(suite + ".per_unit")
    elif which == "reduce":
      for r in range(3):
        mv = parse_rats(toks[r])
        for u in range(U):
          ctx.compare(suite, case, [out[r, u]], [mv[u]], colmag[u], rtol=1e-9)
    elif which in ("pwlbounds", "pwlsqueeze"):
      mb, mh = parse_rats(toks[0]), parse_rats2(toks[1])
      for u in range(U):
        ctx.compare(suite, case, out[:, u], [mb[u]] + [row[u] for row in mh], colmag[u], rtol=1e-9)
    elif which == "norm":
      mm, nsq = parse_rats2(toks[0]), parse_rats(toks[1])
      for u in range(U):
        if case["ord"] == 2:
          nrm = float(nsq[u]) ** 0.5
          exp = [float(r[u]) / (nrm if nrm >= 1e-8 else 1.0) for r in case["w"]]
          ctx.compare(suite, case, out[:, u], [Fraction(e) for e in exp], max(1.0, mag(exp)), rtol=1e-9)
        else:
          ctx.compare(suite, case, out[:, u], [r[u] for r in mm], max(1.0, mag([float(r[u]) for r in mm])), rtol=1e-9)
    else:
      mm = parse_rats2(toks[0])
      L, dims, T = case["L"], case["dims"], case["T"]
      win = np.asarray(wf).reshape(L, U, dims, T)
      wout = out.reshape(L, U, dims, T)
      for u in range(U):
        for t in range(T):
          M = max(float(mm[u][t]), 1.0)
          exp = win[:, u, :, t] / (M ** (1.0 / dims))
          ctx.compare(suite, case, wout[:, u, :, t].reshape(-1), [Fraction(float(e)) for e in exp.reshape(-1)],
                      max(1e-6, mag(exp)), rtol=1e-7)

# ------------------------------------------------------------------ entry points
def run(ctx):
  logging.getLogger("absl").setLevel(logging.ERROR)
  try:
    from absl import logging as absl_logging
    absl_logging.set_verbosity(absl_logging.ERROR)
  except Exception:
    pass
  run_lattice_units(ctx, ctx.n(60, 1500))
  run_pwl_units(ctx, ctx.n(60, 1500))
  run_categorical_units(ctx, ctx.n(40, 800))
  run_linear_units(ctx, ctx.n(50, 1000))
  run_kfl_units(ctx, ctx.n(40, 800))
  run_call_units(ctx, ctx.n(40, 600))
  run_rows(ctx, ctx.n(6, 80))
  run_units_model(ctx, ctx.n(150, 4000))


def replay(ctx, failure):
  """Replays are seeded re-runs: the failing case carries the layer name; the same generator family is re-run
  on a small budget and must reproduce a failure of the same clause (real-vs-real checks need the live objects)."""
  layer = failure["key"].get("layer", "")
  base = layer.split(".")[0]
  sub = Ctx(ctx.prop, ctx.tier, ctx.seed)
  fam = {"lattice": run_lattice_units, "pwl": run_pwl_units, "categorical": run_categorical_units,
         "linear": run_linear_units, "kfl": run_kfl_units}
  if failure["clause"] in ("row_independence", "batch_permutation"):
    run_rows(sub, 6)
  elif layer.endswith(".call"):
    run_call_units(sub, 60)
  elif base in fam:
    fam[base](sub, 60)
  for f in sub.failures:
    if f["key"].get("layer") == layer and f["clause"] == failure["clause"]:
      ctx.failures.append(f)
      break
