-- Root of the `TflModel` library: executable model (Mathlib-free), lemmas and property theorems.
import TflModel.Model.Core
import TflModel.Model.Wire
import TflModel.Props.C01
import TflModel.Props.C06
