-- Root of the `TflModel` library: executable model (Mathlib-free), lemmas and property theorems.
import TflModel.Model.Core
import TflModel.Model.Wire
import TflModel.Props.C01
import TflModel.Props.C02
import TflModel.Props.C04
import TflModel.Props.C05
import TflModel.Props.C06
import TflModel.Props.C07
import TflModel.Props.C08
import TflModel.Props.C12
import TflModel.Props.C13
import TflModel.Props.C17
import TflModel.Props.C18
import TflModel.Props.C19
import TflModel.Props.C20
