import TflModel.Model.Core
/-!
# `kronecker_factored_lattice_lib.py` / `kronecker_factored_lattice_layer.py` (one unit, one example)

Data layout for ONE unit (the code's `(lattice_sizes, units, dims, num_terms)` reshape, read at a
fixed unit): `K : List (List (List Rat))` = terms → dims → lattice vertices, `scale : List Rat`
over terms, `xs : List Rat` over dims. Units never interact (C09), so every function of the
library acts on each `(unit, term)` block separately.

The dims-th root of `_approximately_project_bounds` is not rational: that step is a division by
an ARBITRARY factor `r`; the facts the code guarantees about it are `RootOk` below. The harness
passes the real code's factor as the exact rational of the float.
-/
namespace Tfl.Kfl
open Tfl

/-! ## custom_reduce_prod (lines 25-70): the factor `grad0 + grad1` of `grad_fn` -/

/-- `tf.cast(tf.equal(t, 0), tf.float32)` -/
def isZero (x : Rat) : Rat := if x = 0 then 1 else 0
/-- `tf.math.divide_no_nan` -/
def divNoNan (a b : Rat) : Rat := if b = 0 then 0 else a / b
/-- `num_zeros = tf.reduce_sum(is_zero, axis)` -/
def numZeros (t : List Rat) : Rat := rsum (t.map isZero)
/-- `prod = tf.reduce_prod(t + is_zero, axis)` -/
def prodPlus (t : List Rat) : Rat := rprod (t.map (fun x => x + isZero x))

/-- entry `i` of `grad0 + grad1` (the incoming `dy` multiplies it) for the slice `t` along the
reduced axis. -/
def gradFactor (t : List Rat) (i : Nat) : Rat :=
  let fwd := rprod t
  let ti := getR t i
  let grad0 := divNoNan fwd ti
  let grad1 := (if numZeros t = 1 then 1 else 0) * prodPlus t
  grad0 + grad1 * isZero ti

def gradFactors (t : List Rat) : List Rat := (List.range t.length).map (gradFactor t)

/-! ## evaluate_with_hypercube_interpolation (lines 73-149) -/

/-- `1 - min(|vertex - x|, 1)` for the vertices `i, i+1, …, i+n-1` -/
def hatFrom (x : Rat) : Nat → Nat → List Rat
  | _, 0 => []
  | i, n + 1 => (1 - min (Rat.abs ((i : Rat) - x)) 1) :: hatFrom x (i + 1) n

/-- interpolation weights of one input coordinate, incl. the `lattice_sizes == 2` fast path -/
def interpWeights (L : Nat) (x : Rat) : List Rat :=
  if L = 2 then [1 - x, x] else hatFrom x 0 L

/-- `tf.clip_by_value(inputs, 0.0, lattice_sizes - 1.0)` when `clip_inputs` -/
def clipIn (L : Nat) (clipI : Bool) (x : Rat) : Rat :=
  if clipI then min (max x 0) ((L : Rat) - 1) else x

def dot : List Rat → List Rat → Rat
  | w :: ws, k :: ks => w * k + dot ws ks
  | _, _ => 0

/-- one output channel of the depthwise convolution: weights · kernel column -/
def interp1 (L : Nat) (clipI : Bool) (x : Rat) (k : List Rat) : Rat :=
  dot (interpWeights L (clipIn L clipI x)) k

/-- `dotprod[…, :, t]` : the per-dimension factors of one term -/
def termFactors (L : Nat) (clipI : Bool) (xs : List Rat) (kt : List (List Rat)) : List Rat :=
  List.zipWith (interp1 L clipI) xs kt

/-- `custom_reduce_prod(dotprod, axis=-2)` for one term -/
def termProd (L : Nat) (clipI : Bool) (xs : List Rat) (kt : List (List Rat)) : Rat :=
  rprod (termFactors L clipI xs kt)

/-- `scale * prod` over terms -/
def scaled (L : Nat) (clipI : Bool) (xs : List Rat) : List Rat → List (List (List Rat)) → List Rat
  | s :: ss, kt :: ks => s * termProd L clipI xs kt :: scaled L clipI xs ss ks
  | _, _ => []

/-- `reduce_mean(scale * prod, axis=-1) + bias` -/
def eval (L : Nat) (clipI : Bool) (K : List (List (List Rat))) (scale : List Rat) (bias : Rat)
    (xs : List Rat) : Rat :=
  rsum (scaled L clipI xs scale K) / (K.length : Rat) + bias

/-! ## _approximately_project_monotonicity (lines 287-343) -/

/-- `tf.sign` -/
def sgn (s : Rat) : Rat := if 0 < s then 1 else if s < 0 then -1 else 0

/-- forward sweep `max_projection[i] = max(max_projection[i], max_projection[i-1])` -/
def cummaxFrom (m : Rat) : List Rat → List Rat
  | [] => []
  | x :: xs => max x m :: cummaxFrom (max x m) xs
def cummax : List Rat → List Rat
  | [] => []
  | x :: xs => x :: cummaxFrom x xs

/-- `(weight + max_projection) / 2` -/
def half (w : List Rat) : List Rat := List.zipWith (fun a b => (a + b) / 2) w (cummax w)

/-- backward sweep `min_projection[i] = min(min_projection[i], min_projection[i+1])` -/
def cumminBack : List Rat → List Rat
  | [] => []
  | x :: xs =>
    match cumminBack xs with
    | [] => [x]
    | y :: ys => min x y :: y :: ys

def monoProj1 (v : List Rat) : List Rat := cumminBack (half v)

/-- one dimension of one term: multiply by `direction`, project if monotone, multiply back -/
def projectDim (dir : Rat) (m : Bool) (k : List Rat) : List Rat :=
  let v := k.map (dir * ·)
  (if m then monoProj1 v else v).map (dir * ·)

/-- the loop `for weight, monotonicity in zip(weights, monotonicities)` for one (unit, term) -/
def projectMono (monos : List Bool) (s : Rat) (kt : List (List Rat)) : List (List Rat) :=
  List.zipWith (projectDim (sgn s)) monos kt

/-! ## _approximately_project_bounds (lines 346-387) -/

/-- `reduce_max(abs(weights), axis=1)` (for the non-empty columns `lattice_sizes ≥ 2` guarantees) -/
def maxAbs : List Rat → Rat
  | [] => 0
  | x :: xs => max (Rat.abs x) (maxAbs xs)

/-- `max_output_value = reduce_prod(max_keypoint_values, axis=3)` -/
def maxOutput (kt : List (List Rat)) : Rat := rprod (kt.map maxAbs)
/-- `full_projection_factor = maximum(max_output_value, 1.0)` -/
def fullFactor (kt : List (List Rat)) : Rat := max (maxOutput kt) 1

def rpow (r : Rat) : Nat → Rat
  | 0 => 1
  | n + 1 => r * rpow r n

/-- what `tf.pow(full_projection_factor, 1.0 / dims)` guarantees about the factor `r` it returns
(exactly for the real root; the driver evaluates it on the float the code produced) -/
def rootOk (r : Rat) (kt : List (List Rat)) : Bool :=
  decide (1 ≤ r) && decide (fullFactor kt ≤ rpow r kt.length)

def scaleDown (r : Rat) (kt : List (List Rat)) : List (List Rat) := kt.map (fun k => k.map (· / r))
def clipNonneg (kt : List (List Rat)) : List (List Rat) := kt.map (fun k => k.map (max · 0))

def projectBounds (omin omax : Option Rat) (r : Rat) (kt : List (List Rat)) : List (List Rat) :=
  match omin, omax with
  | none, none => kt
  | some _, some _ => scaleDown r kt
  | _, _ => clipNonneg kt

/-! ## finalize_weight_constraints (lines 394-438), per (unit, term) and per unit -/

/-- the kernel after the monotonicity stage, i.e. what the bound stage (and its factor) sees -/
def monoStage (monos : List Bool) (s : Rat) (kt : List (List Rat)) : List (List Rat) :=
  if monos.any id then projectMono monos s (clipNonneg kt) else kt

def finalizeWeightTerm (monos : List Bool) (omin omax : Option Rat) (s r : Rat)
    (kt : List (List Rat)) : List (List Rat) :=
  let k1 := monoStage monos s kt
  if omin.isSome || omax.isSome then projectBounds omin omax r k1 else k1

/-- all terms of one unit; `rs` = the root factor of every term -/
def finalizeWeight (monos : List Bool) (omin omax : Option Rat) :
    List Rat → List Rat → List (List (List Rat)) → List (List (List Rat))
  | s :: ss, r :: rs, kt :: ks =>
    finalizeWeightTerm monos omin omax s r kt :: finalizeWeight monos omin omax ss rs ks
  | _, _, _ => []

/-! ## finalize_scale_constraints (447-469), bias_initializer (256-284) -/

def finalizeScale1 (omin omax : Option Rat) (s : Rat) : Rat :=
  match omin, omax with
  | some lo, some hi => let b := (hi - lo) / 2; min (max s (-b)) b
  | some _, none => max s 0
  | none, some _ => min s 0
  | none, none => s

def finalizeScale (omin omax : Option Rat) (scale : List Rat) : List Rat :=
  scale.map (finalizeScale1 omin omax)

/-- the (non-trainable) bias of a bounded layer; unbounded layers start at 0 and train it -/
def fixedBias (omin omax : Option Rat) : Rat :=
  match omin, omax with
  | some lo, some hi => (lo + hi) / 2
  | some lo, none => lo
  | none, some hi => hi
  | none, none => 0

/-! ## the constraint objects (layer lines 566-708): when does projection run -/

/-- `KroneckerFactoredLatticeConstraints.__call__` (current tree, after fix 6d3f016) -/
def kernelConstraint (monos : List Bool) (omin omax : Option Rat) (scale rs : List Rat)
    (K : List (List (List Rat))) : List (List (List Rat)) :=
  if monos.any id || omin.isSome || omax.isSome then finalizeWeight monos omin omax scale rs K else K

/-- the guard as it was before 6d3f016 (`if self.num_constraint_dims:`), kept only for the
counter-witness of finding F-C07-a -/
def kernelConstraintOld (monos : List Bool) (omin omax : Option Rat) (scale rs : List Rat)
    (K : List (List (List Rat))) : List (List (List Rat)) :=
  if monos.any id then finalizeWeight monos omin omax scale rs K else K

/-- `ScaleConstraints.__call__` -/
def scaleConstraint (omin omax : Option Rat) (scale : List Rat) : List Rat :=
  if omin.isSome || omax.isSome then finalizeScale omin omax scale else scale

/-- layer state of one unit -/
structure State where
  K : List (List (List Rat))
  scale : List Rat

/-- what can happen to the two variables: raw assignment (an optimizer step) or
`v.assign(v.constraint(v))`; `consK rs` carries the root factors the code computed. -/
inductive Op where
  | assignK (K : List (List (List Rat)))
  | assignS (s : List Rat)
  | consK (rs : List Rat)
  | consS

def step (monos : List Bool) (omin omax : Option Rat) (st : State) : Op → State
  | .assignK K => { st with K := K }
  | .assignS s => { st with scale := s }
  | .consK rs => { st with K := kernelConstraint monos omin omax st.scale rs st.K }
  | .consS => { st with scale := scaleConstraint omin omax st.scale }

def runOps (monos : List Bool) (omin omax : Option Rat) (st : State) (ops : List Op) : State :=
  ops.foldl (step monos omin omax) st

/-- `finalize_constraints()`: kernel first (reads the not yet clipped scale), then scale -/
def finalizeConstraints (monos : List Bool) (omin omax : Option Rat) (rs : List Rat) (st : State) : State :=
  runOps monos omin omax st [.consK rs, .consS]

/-! ## bookkeeping over an ARBITRARY run (C07): which constraint saw what

The kernel projection orients every term by `sign(scale_t)` AT THE TIME IT RUNS. `Track` records,
along a run of raw updates and constraint calls in any interleaving,
* `ref` — the scale the last kernel-constraint call read, provided no raw kernel update came after it;
* `sFresh` — the scale constraint has run after the last raw scale update.
Nothing here looks at the kernel values or at the root factors. -/

structure Track where
  ref : Option (List Rat)
  sFresh : Bool

/-- before anything has happened -/
def Track.init : Track := { ref := none, sFresh := false }

/-- `st` is the state the op is applied TO -/
def trackStep (st : State) (tr : Track) : Op → Track
  | .assignK _ => { tr with ref := none }
  | .assignS _ => { tr with sFresh := false }
  | .consK _ => { tr with ref := some st.scale }
  | .consS => { tr with sFresh := true }

def runTracked (monos : List Bool) (omin omax : Option Rat) : State → Track → List Op → State × Track
  | st, tr, [] => (st, tr)
  | st, tr, op :: ops => runTracked monos omin omax (step monos omin omax st op) (trackStep st tr op) ops

/-- the bookkeeping of a whole run started with nothing known -/
def trackOf (monos : List Bool) (omin omax : Option Rat) (st : State) (ops : List Op) : Track :=
  (runTracked monos omin omax st Track.init ops).2

/-- term `t` is still oriented correctly when the scale went from `r` (seen by the kernel
constraint) to `f` (now): the kernel of the term was zeroed (`r = 0`), or the term is switched
off (`f = 0`), or the sign is the same. -/
def signOk1 (r f : Rat) : Bool := decide (r = 0) || decide (f = 0) || decide (sgn f = sgn r)

def signsOk : List Rat → List Rat → Bool
  | [], [] => true
  | r :: rs, f :: fs => signOk1 r f && signsOk rs fs
  | _, _ => false

/-- the monotonicity clause is covered at the end of the run: a kernel-constraint call came after
the last raw kernel update, and no term's scale has changed to the opposite non-zero sign since -/
def monoCovered (tr : Track) (scale : List Rat) : Bool :=
  match tr.ref with
  | some r => signsOk r scale
  | none => false

/-- the bounds clause is covered: each constraint ran after the last raw update of ITS variable -/
def boundCovered (tr : Track) : Bool := tr.ref.isSome && tr.sFresh

/-- one optimizer step of `tf_keras.optimizers.legacy.*` (`optimizer_v2._distributed_apply`): per
variable "update, then `var.assign(var.constraint(var))`", variables in `trainable_variables` order —
the layer creates `scale` before `kernel` -/
def kerasStepPerVar (s : List Rat) (K : List (List (List Rat))) (rs : List Rat) : List Op :=
  [.assignS s, .consS, .assignK K, .consK rs]

/-- one optimizer step of `tf_keras.optimizers.*` (`Optimizer.apply_gradients`): all updates, then
the constraints of all variables in `trainable_variables` order -/
def kerasStepBatch (s : List Rat) (K : List (List (List Rat))) (rs : List Rat) : List Op :=
  [.assignS s, .assignK K, .consS, .consK rs]

/-- the opposite per-variable order (kernel first): NOT what the layer does; a custom loop can -/
def kernelFirstStep (s : List Rat) (K : List (List (List Rat))) (rs : List Rat) : List Op :=
  [.assignK K, .consK rs, .assignS s, .consS]

end Tfl.Kfl
