import TflModel.Model.Lattice
import TflModel.Model.Poset
/-!
# Hyper-parameter validation (C16) and the `utils.py` canonicalisers (C11-T2, C16-T2)

Models of
* `utils.canonicalize_{convexity,input_bounds,monotonicity,monotonicities,trust,unimodalities}`
  (utils.py:25-242),
* `lattice_lib.verify_hyperparameters` + `_verify_dominances_hyperparameters` (lattice_lib.py:2245-2520),
* `pwl_calibration_lib.verify_hyperparameters` (888-963) and the extra checks of `PWLCalibration.__init__`,
* `linear_lib.verify_hyperparameters` (211-391) and the broadcast in `Linear.__init__`,
* `categorical_calibration_lib.verify_hyperparameters` (127-160),
* `kronecker_factored_lattice_lib.verify_hyperparameters` (472-549),
* `rtl_lib.verify_hyperparameters` (23-113),
* `premade_lib.verify_config` (1584-1817) on a typed description of small configs,
as functions `Raw… → Except Err Cfg…`.  Raw arguments are *Python values* (`Val`): `None`, ints,
floats, strings (as tokens of the finite vocabulary the code compares against, with a flag saying
whether the spelling is exactly the lower-case one), lists and tuples nested at most twice.  The
models follow the duck typing of the code: iterating / `len()` of a number is a `TypeError`,
comparing `None` with a number is a `TypeError`, an `assert` is `Err.other`, a failed tuple
unpacking is a `ValueError`; checks are made in the order of the source.
-/
namespace Tfl.Verify
open Tfl

/-- the strings the validated code compares against (lower-cased); anything else is `other` -/
inductive Tok
  | increasing | decreasing | none_ | peak | valley | positive | negative | convex | concave
  | hypercube | simplex | fixed | learned_interior | all_vertices | kronecker_factored
  | linear_initializer | random_monotonic_initializer | rtl_layer | torsion | laplacian
  | calib_hessian | quantiles | uniform | equal_slopes | other
  deriving DecidableEq, Repr

/-- a Python scalar; `str t exact`: a string whose `.lower()` is the token `t`, `exact` iff the
string is spelled exactly in lower case (what `==` / `in [...]` comparisons need). -/
inductive Atom
  | none | int (i : Int) | flt (r : Rat) | str (t : Tok) (exact : Bool := true)
  deriving DecidableEq, Repr

/-- element of a sequence: a scalar or an inner list/tuple of scalars -/
inductive Item
  | a (x : Atom) | s (tup : Bool) (xs : List Atom)
  deriving DecidableEq, Repr

/-- a hyper-parameter value: a scalar or a list (`tup = false`) / tuple of items -/
inductive Val
  | a (x : Atom) | s (tup : Bool) (xs : List Item)
  deriving DecidableEq, Repr

def ve {α} : Except Err α := .error .valueError
def te {α} : Except Err α := .error .typeError
def oe {α} : Except Err α := .error .other

/-! ## Python semantics of the few operations the validators use -/

def Atom.num : Atom → Option Rat
  | .int i => some i
  | .flt r => some r
  | _ => Option.none
def Atom.isInt : Atom → Bool
  | .int _ => true
  | _ => false
def Atom.isFloat : Atom → Bool
  | .flt _ => true
  | _ => false
def Atom.isNone : Atom → Bool
  | .none => true
  | _ => false
def Atom.isStr : Atom → Bool
  | .str _ _ => true
  | _ => false
/-- `x == k` for a number `k` (`None == 1`, `'a' == 1` are `False`) -/
def Atom.eqNum (x : Atom) (k : Rat) : Bool := x.num == some k
/-- numeric value needed by an ordering comparison: `None < 2`, `'a' < 2` raise `TypeError` -/
def Atom.toNum (x : Atom) : Except Err Rat :=
  match x.num with
  | some r => .ok r
  | Option.none => te
def Atom.truthy : Atom → Bool
  | .none => false
  | .int i => i != 0
  | .flt r => r != 0
  | .str _ _ => true

def Val.truthy : Val → Bool
  | .a x => x.truthy
  | .s _ xs => !xs.isEmpty
def Val.isNone : Val → Bool
  | .a .none => true
  | _ => false
/-- `for x in v` : numbers and `None` are not iterable; iterating a string yields characters,
which no domain of this model contains (`Err.other`). -/
def Val.iter : Val → Except Err (List Item)
  | .s _ xs => .ok xs
  | .a (.str _ _) => oe
  | .a _ => te
def Val.len : Val → Except Err Nat
  | .s _ xs => .ok xs.length
  | .a (.str _ _) => oe
  | .a _ => te
def Item.len : Item → Except Err Nat
  | .s _ xs => .ok xs.length
  | .a (.str _ _) => oe
  | .a _ => te
def Item.iter : Item → Except Err (List Atom)
  | .s _ xs => .ok xs
  | .a (.str _ _) => oe
  | .a _ => te
def Val.toItem : Val → Item
  | .a x => .a x
  | .s t xs => .s t (xs.filterMap (fun i => match i with | .a x => some x | _ => Option.none))
def Val.atom? : Val → Option Atom
  | .a x => some x
  | _ => Option.none

/-- `[f(x) for x in xs]` where `f` may raise: the first error wins -/
def mapE {α β} (f : α → Except Err β) : List α → Except Err (List β)
  | [] => .ok []
  | x :: xs =>
    match f x with
    | .error e => .error e
    | .ok y =>
      match mapE f xs with
      | .error e => .error e
      | .ok ys => .ok (y :: ys)

/-! ## `utils.py` canonicalisers -/

/-- `canonicalize_monotonicity(m, allow_decreasing)` -/
def canonMonotonicity (allowDecr : Bool) : Item → Except Err Atom
  | .a .none => .ok .none
  | .a x =>
    match x.num with
    | some r =>
      if r = -1 ∨ r = 0 ∨ r = 1 then (if !allowDecr && r == -1 then ve else .ok x) else ve
    | Option.none =>
      match x with
      | .str .decreasing _ => if allowDecr then .ok (.int (-1)) else ve
      | .str .none_ _ => .ok (.int 0)
      | .str .increasing _ => .ok (.int 1)
      | _ => ve
  | .s _ _ => ve

/-- `canonicalize_monotonicities`: `None` for a falsy argument -/
def canonMonotonicities (allowDecr : Bool) (v : Val) : Except Err (Option (List Atom)) :=
  if !v.truthy then .ok Option.none
  else do
    let xs ← v.iter
    let ys ← mapE (canonMonotonicity allowDecr) xs
    pure (some ys)

def canonUnimodality : Item → Except Err Atom
  | .a x =>
    match x.num with
    | some r => if r = -1 ∨ r = 0 ∨ r = 1 then .ok x else ve
    | Option.none =>
      match x with
      | .str .peak _ => .ok (.int (-1))
      | .str .none_ _ => .ok (.int 0)
      | .str .valley _ => .ok (.int 1)
      | _ => ve
  | .s _ _ => ve

def canonUnimodalities (v : Val) : Except Err (Option (List Atom)) :=
  if !v.truthy then .ok Option.none
  else do
    let xs ← v.iter
    let ys ← mapE canonUnimodality xs
    pure (some ys)

/-- `canonicalize_convexity` -/
def canonConvexity : Item → Except Err Atom
  | .a .none => .ok .none
  | .a x =>
    match x.num with
    | some r => if r = -1 ∨ r = 0 ∨ r = 1 then .ok x else ve
    | Option.none =>
      match x with
      | .str .concave _ => .ok (.int (-1))
      | .str .none_ _ => .ok (.int 0)
      | .str .convex _ => .ok (.int 1)
      | _ => ve
  | .s _ _ => ve

/-- one trust: `(feature_a, feature_b, direction)` with the direction as an integer -/
structure CTrust where
  main : Atom
  cond : Atom
  dir : Int
  deriving DecidableEq, Repr

def canonTrustOne (it : Item) : Except Err CTrust := do
  let n ← it.len
  if n ≠ 3 then ve
  else
    match it with
    | .s _ [a, b, d] =>
      if d.eqNum 1 then .ok ⟨a, b, 1⟩
      else if d.eqNum (-1) then .ok ⟨a, b, -1⟩
      else match d with
        | .str .negative _ => .ok ⟨a, b, -1⟩
        | .str .positive _ => .ok ⟨a, b, 1⟩
        | _ => ve
    | _ => oe

/-- `canonicalize_trust`: `None` for a falsy argument, else a list of TUPLES -/
def canonTrust (v : Val) : Except Err (Option (List CTrust)) :=
  if !v.truthy then .ok Option.none
  else do
    let xs ← v.iter
    let ys ← mapE canonTrustOne xs
    pure (some ys)

/-- `canonicalize_input_bounds` -/
def canonInputBound : Item → Except Err Atom
  | .a (.flt r) => .ok (.flt r)
  | .a .none => .ok .none
  | .a (.str .none_ _) => .ok .none
  | _ => ve
def canonInputBounds (v : Val) : Except Err (Option (List Atom)) :=
  if !v.truthy then .ok Option.none
  else do
    let xs ← v.iter
    let ys ← mapE canonInputBound xs
    pure (some ys)

/-! the canonical values back as Python values (what `get_config` stores) -/
def atomsVal (o : Option (List Atom)) : Val :=
  match o with
  | Option.none => .a .none
  | some l => .s false (l.map Item.a)
def trustsVal (o : Option (List CTrust)) : Val :=
  match o with
  | Option.none => .a .none
  | some l => .s false (l.map (fun t => Item.s true [t.main, t.cond, .int t.dir]))

/-- what a JSON round trip does to a value: tuples become lists -/
def Item.jsonify : Item → Item
  | .a x => .a x
  | .s _ xs => .s false xs
def Val.jsonify : Val → Val
  | .a x => .a x
  | .s _ xs => .s false (xs.map Item.jsonify)

/-! ### the layer-level normalisers of `Lattice.__init__` / `Linear.__init__` -/

/-- `[x] if isinstance(x, tuple) and isinstance(x[0], int) else x` -/
def wrapSingle (v : Val) : Val :=
  match v with
  | .s true (.a (.int i) :: rest) =>
    .s false [.s true ((Atom.int i) :: rest.filterMap (fun it => match it with | .a x => some x | _ => Option.none))]
  | v => v

/-- `Linear.__init__`: list/tuple → `list(m)`; other non-None → `[m] * num_input_dims`; None → zeros -/
def linearBroadcast (nid : Nat) (v : Val) : Val :=
  match v with
  | .s _ xs => .s false xs
  | .a .none => .s false (List.replicate nid (.a (.int 0)))
  | .a x => .s false (List.replicate nid (.a x))

/-! ## `lattice_lib.verify_hyperparameters` -/

/-- joint unimodalities, typed: `None`, a list of `(dimensions, direction)` or ONE such pair given
without the enclosing list -/
inductive JU
  | none | list (xs : List (List Int × Atom)) | single (dims : List Int) (dir : Atom)
  deriving DecidableEq, Repr

/-- `if not lattice_sizes: raise`, `for size in lattice_sizes: if size < 2: raise` → the sizes as integers -/
def parseSizes (v : Val) : Except Err (List Int) :=
  -- fix 93797fc: `if not lattice_sizes: raise ValueError` (an empty list / tuple, also `None` and 0)
  if !v.truthy then ve else do
  let xs ← v.iter
  let ys ← mapE (fun it => match it with
    | .a (.int i) => Except.ok i
    | .a (.flt _) => oe
    | _ => te) xs
  if ys.any (· < 2) then ve else pure ys

/-- `a >= n or b >= n or a < 0 or b < 0` with Python's short-circuit evaluation -/
def dimsOutOfRange (n : Nat) (a b : Atom) : Except Err Bool := do
  let ra ← a.toNum
  if ra ≥ n then pure true
  else
    let rb ← b.toNum
    if rb ≥ n then pure true else pure (ra < 0 || rb < 0)

def atomNat : Atom → Nat
  | .int i => i.toNat
  | _ => 0

/-- `not monotonicities or monotonicities[dim] != 1` -/
def notIncreasing (mono : Option (List Atom)) (dim : Nat) : Bool :=
  match mono with
  | Option.none => true
  | some l => !((l.getD dim .none).eqNum 1)

structure TrustAcc where
  mains : List Nat := []
  conds : List Nat := []
  dirs : List ((Nat × Nat) × Int) := []

def trustStep (n : Nat) (mono : Option (List Atom)) (acc : TrustAcc) (t : CTrust) : Except Err TrustAcc := do
  let bad ← dimsOutOfRange n t.main t.cond
  if bad then ve
  else if !(t.main.isInt && t.cond.isInt) then ve
  else
    let m := atomNat t.main
    let c := atomNat t.cond
    if notIncreasing mono m then ve
    else match acc.dirs.lookup (m, c) with
      | some d => if d ≠ t.dir then ve else pure ⟨m :: acc.mains, c :: acc.conds, ((m, c), t.dir) :: acc.dirs⟩
      | Option.none => pure ⟨m :: acc.mains, c :: acc.conds, ((m, c), t.dir) :: acc.dirs⟩

def trustLoop (n : Nat) (mono : Option (List Atom)) : List CTrust → TrustAcc → Except Err TrustAcc
  | [], acc => .ok acc
  | t :: ts, acc => do
    let acc' ← trustStep n mono acc t
    trustLoop n mono ts acc'

/-- `(edgeworth_trusts or []) + (trapezoid_trusts or [])`: list+list and tuple+tuple concatenate,
mixed or non-sequence operands raise `TypeError` -/
def concatTrusts (ew tp : Val) : Except Err Val :=
  let a := if ew.truthy then ew else .s false []
  let b := if tp.truthy then tp else .s false []
  match a, b with
  | .s ta xs, .s tb ys => if ta = tb then .ok (.s ta (xs ++ ys)) else te
  | _, _ => te

/-- `_verify_dominances_hyperparameters`; `withMono = false` is the joint-monotonicity loop (same
length / range / integer checks and, since fix 18dd711, two DIFFERENT dimensions; nothing else).
Returns the validated pairs. -/
def domLoop (n : Nat) (mono : Option (List Atom)) (withMono : Bool) :
    List Item → List (Nat × Nat) → Except Err (List (Nat × Nat))
  | [], acc => .ok acc.reverse
  | it :: rest, acc => do
    let l ← it.len
    if l ≠ 2 then ve
    else match it with
      | .s _ [a, b] => do
        let bad ← dimsOutOfRange n a b
        if bad then ve
        else if !(a.isInt && b.isInt) then ve
        else
          let d := atomNat a
          let w := atomNat b
          if withMono && (notIncreasing mono d || notIncreasing mono w) then ve
          -- fix 18dd711: `dominant_dim == weak_dim` / `dim1 == dim2` (a constraint naming one dimension twice)
          else if d == w then ve
          else if withMono && acc.contains (w, d) then ve
          else domLoop n mono withMono rest ((d, w) :: acc)
      | _ => oe

def verifyDominances (n : Nat) (mono : Option (List Atom)) (withMono : Bool) (v : Val) :
    Except Err (List (Nat × Nat)) :=
  if v.isNone then .ok []
  else do
    let xs ← v.iter
    domLoop n mono withMono xs []

def isPeakValley : Atom → Bool
  | .str .peak _ => true
  | .str .valley _ => true
  | _ => false

def juDimLoop (sizes : List Int) (mono : Option (List Atom)) : List Int → Except Err Unit
  | [] => .ok ()
  | d :: ds =>
    if d < 0 ∨ d ≥ sizes.length then ve
    else if sizes.getD d.toNat 0 < 3 then ve
    else if (match mono with
        | some l => !((l.getD d.toNat .none).eqNum 0)
        | Option.none => false) then ve
    else juDimLoop sizes mono ds

def juLoop (sizes : List Int) (mono : Option (List Atom)) :
    List (List Int × Atom) → Except Err Unit
  | [] => .ok ()
  | (dims, dir) :: rest => do
    if !isPeakValley dir then ve
    else
      juDimLoop sizes mono dims
      -- `len(set(dimensions)) != len(dimensions)`: since fix f7753e0 the message is formatted with
      -- `% (single_constraint,)`, so this is the intended `ValueError` (was a `TypeError`, F-C16-n)
      if !dims.Nodup then ve else juLoop sizes mono rest

def verifyJU (sizes : List Int) (mono : Option (List Atom)) : JU → Except Err (List (List Int × Atom))
  | .none => .ok []
  | .list xs => do
    juLoop sizes mono xs
    pure xs
  -- iterating the bare pair: its first element (a list of ints) is unpacked into
  -- `(dimensions, direction)`: two elements → `direction` is an int, not a string; otherwise the
  -- unpacking itself fails — a `ValueError` both ways
  | .single _ _ => ve

/-- everything `lattice_lib.verify_hyperparameters` receives from the constructors modelled here -/
structure RawLatFull where
  sizes : Val
  mono : Val := .a .none
  uni : Val := .a .none
  ew : Val := .a .none
  tp : Val := .a .none
  md : Val := .a .none
  rd : Val := .a .none
  jm : Val := .a .none
  ju : JU := .none
  omin : Val := .a .none
  omax : Val := .a .none
  amount : Val := .a .none
  interp : Val := .a (.str .hypercube)

/-- what an accepted configuration is canonicalised to -/
structure LatCfg where
  sizes : List Int
  mono : Option (List Atom)
  uni : Option (List Atom)
  ew : List CTrust
  tp : List CTrust
  md : List (Nat × Nat)
  rd : List (Nat × Nat)
  jm : List (Nat × Nat)
  ju : List (List Int × Atom)
  lo : Option Rat
  hi : Option Rat
  deriving DecidableEq, Repr

def lenNe (o : Option (List Atom)) (n : Nat) : Bool :=
  match o with
  | some l => l.length != n
  | Option.none => false
/-- `output_min >= output_max` (both given) -/
def loGeHi (lo hi : Option Rat) : Bool :=
  match lo, hi with
  | some l, some h => decide (l ≥ h)
  | _, _ => false
/-- `output_max < output_min` (both given) -/
def hiLtLo (lo hi : Option Rat) : Bool :=
  match lo, hi with
  | some l, some h => decide (h < l)
  | _, _ => false

def boundOf (v : Val) : Except Err (Option Rat) :=
  match v with
  | .a .none => .ok Option.none
  | .a x => (x.toNum).map some
  | _ => oe

/-- a unimodal dimension with lattice size < 3 -/
def uniSizeBad (uni : Option (List Atom)) (sizes : List Int) : Bool :=
  match uni with
  | some l => (l.zip sizes).any (fun p => !(p.1.eqNum 0) && p.2 < 3)
  | Option.none => false
/-- a dimension both monotone and unimodal -/
def monoUniClash (mono uni : Option (List Atom)) : Bool :=
  match mono, uni with
  | some m, some u => (m.zip u).any (fun p => !(p.1.eqNum 0) && !(p.2.eqNum 0))
  | _, _ => false
/-- per-dimension regularisation amounts whose number differs from the number of dimensions -/
def amountBad (amount : Val) (n : Nat) : Bool :=
  match amount with
  | .s _ xs => !xs.isEmpty && xs.length != n
  | _ => false

/-- canonical monotonicities / unimodalities and their length and compatibility checks -/
def verifyShape (sizes : List Int) (monoV uniV : Val) :
    Except Err (Option (List Atom) × Option (List Atom)) := do
  let n := sizes.length
  let mono ← canonMonotonicities false monoV
  if lenNe mono n then ve
  else
  let uni ← canonUnimodalities uniV
  if lenNe uni n then ve
  else if uniSizeBad uni sizes then ve
  else if monoUniClash mono uni then ve
  else pure (mono, uni)

/-- number of trusts an argument contributes to the concatenation -/
def seqLen (v : Val) : Nat :=
  match v with
  | .s _ xs => xs.length
  | _ => 0

/-- the trust section: all canonical trusts (Edgeworth first), each validated -/
def verifyTrusts (n : Nat) (mono : Option (List Atom)) (ew tp : Val) : Except Err (List CTrust) := do
  let allV ← concatTrusts ew tp
  let all ← canonTrust allV
  let acc ← trustLoop n mono (all.getD []) {}
  if acc.mains.any (fun m => acc.conds.contains m) then ve
  else pure (all.getD [])

def verifyLattice (r : RawLatFull) : Except Err LatCfg := do
  let sizes ← parseSizes r.sizes
  let n := sizes.length
  let mu ← verifyShape sizes r.mono r.uni
  let all ← verifyTrusts n mu.1 r.ew r.tp
  let md ← verifyDominances n mu.1 true r.md
  let rd ← verifyDominances n mu.1 true r.rd
  let jm ← verifyDominances n mu.1 false r.jm
  let ju ← verifyJU sizes mu.1 r.ju
  let lo ← boundOf r.omin
  let hi ← boundOf r.omax
  if loGeHi lo hi then ve
  else if amountBad r.amount n then ve
  else if !(r.interp == .a (.str .hypercube) || r.interp == .a (.str .simplex)) then ve
  else
    -- the Edgeworth trusts are the first `len(edgeworth_trusts)` of the concatenation
    let k := seqLen r.ew
    pure ⟨sizes, mu.1, mu.2, all.take k, all.drop k, md, rd, jm, ju, lo, hi⟩

/-- `LatticeConstraints.__init__` (since fix 6e08a8c the output bounds are verified too) -/
structure RawLattice where
  sizes : Val
  mono : Val
  uni : Val
  ew : Val
  tp : Val
  md : Val
  rd : Val
  jm : Val
  ju : JU
  omin : Val
  omax : Val
/-- `isinstance(ju, tuple) and len(ju) == 2 and isinstance(ju[1], str)` → `[ju]` -/
def wrapJU : JU → JU
  | .single dims (.str t e) => .list [(dims, .str t e)]
  | j => j
/-- `LatticeConstraints.__init__` (fix: a single constraint tuple is wrapped like in `Lattice.__init__`) -/
def latticeConstraints (r : RawLattice) : Except Err LatCfg :=
  verifyLattice { sizes := r.sizes, mono := r.mono, uni := r.uni, ew := wrapSingle r.ew, tp := wrapSingle r.tp,
                  md := wrapSingle r.md, rd := wrapSingle r.rd, jm := wrapSingle r.jm, ju := wrapJU r.ju,
                  omin := r.omin, omax := r.omax }

/-- `LinearInitializer.__init__` -/
structure RawLatInit where
  sizes : Val
  mono : Val
  omin : Val
  omax : Val
  uni : Val
def linearInitializer (r : RawLatInit) : Except Err LatCfg :=
  verifyLattice { sizes := r.sizes, mono := r.mono, uni := r.uni, omin := r.omin, omax := r.omax }

/-- `RandomMonotonicInitializer.__init__` -/
structure RawLatInit2 where
  sizes : Val
  omin : Val
  omax : Val
  uni : Val
def randomMonotonicInitializer (r : RawLatInit2) : Except Err LatCfg :=
  verifyLattice { sizes := r.sizes, uni := r.uni, omin := r.omin, omax := r.omax }

/-- lattice `LaplacianRegularizer.__init__` / `TorsionRegularizer.__init__` verify `l1` then `l2` -/
structure RawLatReg where
  sizes : Val
  l1 : Val
  l2 : Val
def laplacianRegularizer (r : RawLatReg) : Except Err Unit := do
  let _ ← verifyLattice { sizes := r.sizes, amount := r.l1 }
  let _ ← verifyLattice { sizes := r.sizes, amount := r.l2 }
  pure ()
/-- since fix 4c13b7a `TorsionRegularizer.__init__` verifies its amounts like the Laplacian one -/
def torsionRegularizer (r : RawLatReg) : Except Err Unit := laplacianRegularizer r

/-! ### `Lattice.__init__` (lattice_layer.py:285-375), without custom regularizers

1. `verify_hyperparameters(lattice_sizes, monotonicities, unimodalities, interpolation)`;
2. a bare `(dimensions, 'peak'|'valley')` tuple is wrapped into a one-element list;
3. since fix f995047: `verify_hyperparameters(lattice_sizes, monotonicities, joint_unimodalities)`;
4. `create_kernel_initializer`: the per-dimension list `all_unimodalities` is INDEXED by the jointly
   unimodal dimensions (an `IndexError` for a dimension `≥ rank` — what step 3 now excludes), then the
   named initializer is constructed (and verifies its own arguments). -/


/-- `all_unimodalities[dim] = direction` on a Python list of length `n`: negative indices count
from the end, anything outside `[-n, n)` is an `IndexError` -/
def pySet (l : List Atom) (d : Int) (x : Atom) : Except Err (List Atom) :=
  if 0 ≤ d ∧ d < l.length then .ok (l.set d.toNat x)
  else if d < 0 ∧ -(l.length : Int) ≤ d then .ok (l.set (d + l.length).toNat x)
  else oe

def pySetAll (x : Atom) : List Int → List Atom → Except Err (List Atom)
  | [], l => .ok l
  | d :: ds, l => do
    let l' ← pySet l d x
    pySetAll x ds l'

/-- the two loops at the head of `create_kernel_initializer` that build `all_unimodalities`:
`[0] * n`, overwritten by the truthy entries of `unimodalities` (scalars: the first verification
of the constructor has canonicalised them), then by the direction of every jointly unimodal dim -/
def allUnimodalities (n : Nat) (uni : Val) (ju : List (List Int × Atom)) : Except Err (List Atom) :=
  let base : List Atom :=
    match uni with
    | .s _ xs =>
      (List.range n).map (fun i =>
        match xs.getD i (.a (.int 0)) with
        | .a x => if x.truthy then x else .int 0
        | .s _ _ => .int 0)
    | _ => List.replicate n (.int 0)
  ju.foldlM (fun l p => pySetAll p.2 p.1 l) base

/-- `lattice_lib.default_init_params` -/
def defaultInitParams (lo hi : Option Rat) : Rat × Rat :=
  (match lo, hi with
    | some l, _ => l
    | Option.none, some h => min 0 h
    | Option.none, Option.none => 0,
   match hi, lo with
    | some h, _ => h
    | Option.none, some l => max 1 l
    | Option.none, Option.none => 1)

/-- the arguments of `Lattice.__init__` modelled here (trusts and dominances are only stored by the
constructor; they are verified by `LatticeConstraints` at build) -/
structure RawLatLayer where
  sizes : Val
  mono : Val
  uni : Val
  ju : JU
  omin : Val
  omax : Val
  interp : Val
  /-- `kernel_initializer`: `'linear_initializer'`, `'random_monotonic_initializer'`, the token
  `other` for the default `'random_uniform_or_linear_initializer'`; any other value stands for a
  plain Keras initializer (`'zeros'`) -/
  init : Val

/-- the list `create_kernel_initializer` iterates (`if joint_unimodalities: for … in …`) -/
def JU.pairs : JU → List (List Int × Atom)
  | .list xs => xs
  | _ => []

/-- `do_joint_unimodalities_contain_all_features`: exactly one constraint and
`set(dimensions) == set(range(n))` -/
def juCoversAll (n : Nat) : List (List Int × Atom) → Bool
  | [(dims, _)] => (List.range n).all (fun i => dims.contains (Int.ofNat i)) &&
      dims.all (fun d => decide (0 ≤ d) && decide (d < n))
  | _ => false

/-- `create_kernel_initializer(kernel_initializer, lattice_sizes, monotonicities, output_min,
output_max, unimodalities, joint_unimodalities)` as far as it can raise -/
def createKernelInitializer (r : RawLatLayer) (ju : JU) : Except Err Unit := do
  let n ← r.sizes.len
  let all ← allUnimodalities n r.uni ju.pairs
  let uniV : Val := .s false (all.map Item.a)
  -- `LinearInitializer(lattice_sizes, monotonicities, init_min, init_max, all_unimodalities)`
  let lin : Except Err Unit := do
    let lo ← boundOf r.omin
    let hi ← boundOf r.omax
    let ip := defaultInitParams lo hi
    let _ ← linearInitializer ⟨r.sizes, r.mono, .a (.flt ip.1), .a (.flt ip.2), uniV⟩
    pure ()
  if r.init == .a (.str .linear_initializer) then lin
  else if r.init == .a (.str .random_monotonic_initializer) then do
    let lo ← boundOf r.omin
    let hi ← boundOf r.omax
    let ip := defaultInitParams lo hi
    let _ ← randomMonotonicInitializer ⟨r.sizes, .a (.flt ip.1), .a (.flt ip.2), uniV⟩
    pure ()
  else if r.init == .a (.str .other) then
    -- 'random_uniform_or_linear_initializer'
    if juCoversAll n ju.pairs then pure () else lin
  else pure ()

def latticeLayer (r : RawLatLayer) : Except Err Unit := do
  let _ ← verifyLattice { sizes := r.sizes, mono := r.mono, uni := r.uni, interp := r.interp }
  let ju := wrapJU r.ju
  -- fix f995047: the dimensions are verified BEFORE `create_kernel_initializer` indexes by them
  let _ ← verifyLattice { sizes := r.sizes, mono := r.mono, ju := ju }
  createKernelInitializer r ju

/-! ## `pwl_calibration_lib.verify_hyperparameters` -/

structure PwlCfg where
  keypoints : Option (List Rat)
  lo : Option Rat
  hi : Option Rat
  mono : Atom
  conv : Atom
  cyclic : Bool
  /-- the piece lengths given as a Python list (`PWLCalibrationConstraints(lengths=…)`) -/
  lengths : Option (List Rat) := Option.none
  deriving DecidableEq, Repr

def strictlyIncreasing : List Rat → Bool
  | a :: b :: rest => a < b && strictlyIncreasing (b :: rest)
  | _ => true

def parseKeypoints (v : Val) : Except Err (Option (List Rat)) :=
  if v.isNone then .ok Option.none
  else do
    let n ← v.len
    if n < 2 then ve
    else
      let xs ← v.iter
      let ys ← mapE (fun it => match it with
        | .a x => x.toNum
        | _ => te) xs
      if !strictlyIncreasing ys then ve else pure (some ys)

/-- `all(isinstance(length, numbers.Real) and length > 0 for length in lengths)` (fixes e215d06 and its
follow-up): the first entry that is not a positive real number is a `ValueError` -/
def lengthsLoop : List Item → Except Err (List Rat)
  | [] => .ok []
  | .a x :: rest =>
    match x.toNum with
    | .ok r =>
      if r > 0 then do
        let rs ← lengthsLoop rest
        pure (r :: rs)
      else ve
    | .error _ => ve
  | .s _ _ :: _ => ve

/-- `lengths is not None and not tf.is_tensor(lengths)`: every length must be positive -/
def parseLengths (v : Val) : Except Err (Option (List Rat)) :=
  if v.isNone then .ok Option.none
  else do
    let xs ← v.iter
    let rs ← lengthsLoop xs
    pure (some rs)

def verifyPwl (kp omin omax mono conv cyclic kptype : Val) (lengths : Val := .a .none) : Except Err PwlCfg := do
  let k ← parseKeypoints kp
  let lo ← boundOf omin
  let hi ← boundOf omax
  if hiLtLo lo hi then ve
  else
  let m ← canonMonotonicity true mono.toItem
  let c ← canonConvexity conv.toItem
  if cyclic.truthy && (m.truthy || c.truthy) then ve
  else
  let ls ← parseLengths lengths
  if !(kptype.isNone || kptype == .a (.str .fixed) || kptype == .a (.str .learned_interior)) then ve
  else pure ⟨k, lo, hi, m, c, cyclic.truthy, ls⟩

/-- `PWLCalibration.__init__`: the lib verification, then the constructor's own checks -/
structure RawPwl where
  kp : Val
  omin : Val
  omax : Val
  mono : Val
  conv : Val
  cyclic : Val
  impute : Val
  missIn : Val
  missOut : Val
  kptype : Val
  clampMin : Val
  clampMax : Val
  init : Val
/-- `convexity in ("none", 0)` -/
def convIsNone (v : Val) : Bool :=
  v == .a (.str .none_) || (match v with | .a x => x.eqNum 0 | _ => false)

/-- `(clamp_min and output_min is not None) or (clamp_max and output_max is not None)` -/
def clampRequested (r : RawPwl) : Bool :=
  (r.clampMin.truthy && !r.omin.isNone) || (r.clampMax.truthy && !r.omax.isNone)
def pwlCalibration (r : RawPwl) : Except Err PwlCfg := do
  let c ← verifyPwl r.kp r.omin r.omax r.mono r.conv r.cyclic r.kptype
  if !r.missIn.isNone && !r.impute.truthy then ve
  else if !r.missOut.isNone && !r.impute.truthy then ve
  else if r.kp.isNone then ve
  -- fix a22154b: 'equal_slopes' together with is_cyclic (the clamp rejection of a22154b/35f6090 was
  -- taken back by 0029d95: upstream's testAssertMonotonicity constructs such a layer)
  else if r.cyclic.truthy && r.init == .a (.str .equal_slopes) then ve
  else if r.mono.isNone then ve
  else if !convIsNone r.conv && r.kptype == .a (.str .learned_interior) then ve
  else pure c

structure RawPwlC where
  mono : Val
  conv : Val
  lengths : Val
  omin : Val
  omax : Val
def pwlConstraints (r : RawPwlC) : Except Err PwlCfg :=
  verifyPwl (.a .none) r.omin r.omax r.mono r.conv (.a (.int 0)) (.a .none) r.lengths

structure RawPwlInit where
  omin : Val
  omax : Val
  mono : Val
  kp : Val
def uniformOutputInitializer (r : RawPwlInit) : Except Err PwlCfg :=
  verifyPwl r.kp r.omin r.omax r.mono (.a .none) (.a (.int 0)) (.a .none)

/-! ## the cycle check of the categorical (fix 66006cc) and linear (fix 2ef7ec2) validations: rounds of
Kahn's algorithm on the SET of pairs

```
remaining = set((i, j) for (i, j) in monotonicities)
while remaining:
  has_smaller = set(j for (_, j) in remaining)
  resolved = set((i, j) for (i, j) in remaining if i not in has_smaller)
  if not resolved: raise ValueError("Circular monotonicity constraints …")
  remaining -= resolved
```
The model keeps the LIST (with its repetitions): a pair is kept or dropped together with all its
copies, so emptiness and "nothing resolved" (= the filter dropped nothing) coincide with the set's.
Every successful round removes at least one pair, so `fuel = length` rounds suffice
(`Tfl.Verify.kahnAcyclic_fuel`, Lemmas/Kahn.lean: any larger fuel gives the same answer). -/

/-- `remaining - resolved`: the pairs `(i, j)` whose `i` is the larger bucket of a remaining pair -/
def kahnStep {α} [BEq α] (ps : List (α × α)) : List (α × α) :=
  ps.filter (fun p => ps.any (fun q => q.2 == p.1))

/-- `true`: the loop ends with `remaining` empty; `false`: a round resolves nothing (`ValueError`) -/
def kahnAcyclic {α} [BEq α] : Nat → List (α × α) → Bool
  | 0, ps => ps.isEmpty
  | fuel + 1, ps =>
    ps.isEmpty || ((kahnStep ps).length != ps.length && kahnAcyclic fuel (kahnStep ps))

/-! ## `linear_lib.verify_hyperparameters` -/

structure LinCfg where
  mono : Option (List Atom)
  md : List (Nat × Nat)
  rd : List (Nat × Nat)
  imin : Option (List Atom)
  imax : Option (List Atom)
  deriving DecidableEq, Repr

def boundsCrossed : List Atom → List Atom → Bool
  | l :: ls, u :: us =>
    (match l.num, u.num with | some a, some b => a > b | _, _ => false) || boundsCrossed ls us
  | _, _ => false

/-- the `monotonic_dominances` loop of the linear verification -/
def linMdLoop (mono : List Atom) : List Item → List (Nat × Nat) → Except Err (List (Nat × Nat))
  | [], acc => .ok acc.reverse
  | it :: rest, acc => do
    let l ← it.len
    if l ≠ 2 then ve
    else match it with
      | .s _ [a, b] => do
        let bad ← dimsOutOfRange mono.length a b
        if bad then ve
        else if !(a.isInt && b.isInt) then ve
        else
          let d := atomNat a
          let w := atomNat b
          if !((mono.getD d .none).eqNum 1) || !((mono.getD w .none).eqNum 1) then ve
          else if acc.contains (w, d) then ve
          else linMdLoop mono rest ((d, w) :: acc)
      | _ => oe

/-- `input_min is None or input_min[dim] is None`: an index beyond a too short list is an
`IndexError` (`Err.other`) -/
def boundMissing (b : Option (List Atom)) (dim : Nat) : Except Err Bool :=
  match b with
  | Option.none => .ok true
  | some l => if dim < l.length then .ok (l.getD dim .none).isNone else oe

/-- `input_min[dim] >= input_max[dim]` (fix 7189cd2); both entries are numbers here -/
def rangeEmpty (imin imax : Option (List Atom)) (dim : Nat) : Except Err Bool :=
  match ((imin.getD []).getD dim .none).num, ((imax.getD []).getD dim .none).num with
  | some a, some b => .ok (decide (a ≥ b))
  | _, _ => te

/-- the three checks of one dimension of a range dominance, in source order: `input_min` set,
`input_max` set, `input_min < input_max` -/
def rdDimBad (imin imax : Option (List Atom)) (dim : Nat) : Except Err Bool := do
  let m1 ← boundMissing imin dim
  if m1 then pure true else
  let m2 ← boundMissing imax dim
  if m2 then pure true else
  rangeEmpty imin imax dim

/-- `for dim in [dominant, weak]:` -/
def rdBoundsMissing (imin imax : Option (List Atom)) (d w : Nat) : Except Err Bool := do
  let b1 ← rdDimBad imin imax d
  if b1 then pure true else rdDimBad imin imax w

def linRdLoop (mono : List Atom) (imin imax : Option (List Atom)) :
    List Item → List (Nat × Nat) → Except Err (List (Nat × Nat))
  | [], acc => .ok acc.reverse
  | it :: rest, acc => do
    let l ← it.len
    if l ≠ 2 then ve
    else match it with
      | .s _ [a, b] => do
        let bad ← dimsOutOfRange mono.length a b
        if bad then ve
        else if !(a.isInt && b.isInt) then ve
        else
          let d := atomNat a
          let w := atomNat b
          -- `monotonicities[d] != monotonicities[w] or not monotonicities[d]` (fix 1f0b06a: `None` is falsy
          -- like 0; it used to be `== 0`, which `None` passes)
          if (mono.getD d .none).num ≠ (mono.getD w .none).num || !(mono.getD d .none).truthy then ve
          else
            let miss ← rdBoundsMissing imin imax d w
            if miss then ve
            else if acc.contains (w, d) then ve
            else linRdLoop mono imin imax rest ((d, w) :: acc)
      | _ => oe

/-- the `monotonic_dominances` section (`assert monotonicities is not None` first) -/
def linMd (mono : Option (List Atom)) (mdV : Val) : Except Err (List (Nat × Nat)) :=
  if mdV.isNone then .ok []
  else match mono with
    | Option.none => oe
    | some m => do
      let xs ← mdV.iter
      let ps ← linMdLoop m xs []
      -- fix 2ef7ec2: `_verify_no_circular_dominances(dim_pairs, "monotonic")` on the set of
      -- (dominant, weak) pairs (the list with its repetitions answers like the set)
      if !kahnAcyclic ps.length ps then ve else pure ps

/-- the `range_dominances` section -/
def linRd (mono imin imax : Option (List Atom)) (rdV : Val) : Except Err (List (Nat × Nat)) :=
  if rdV.isNone then .ok []
  else match mono with
    | Option.none => oe
    | some m => do
      let xs ← rdV.iter
      let ps ← linRdLoop m imin imax xs []
      -- fix 2ef7ec2: `_verify_no_circular_dominances(dim_pairs, "range")`
      if !kahnAcyclic ps.length ps then ve else pure ps

/-- a dimension constrained by both kinds of dominance -/
def sharedDim (md rd : List (Nat × Nat)) : Bool :=
  rd.any (fun p => md.any (fun q => q.1 = p.1 || q.2 = p.1 || q.1 = p.2 || q.2 = p.2))

/-- `len(monotonicities) != num_input_dims` (both given) -/
def nidBad (nid : Option Nat) (mono : Option (List Atom)) : Bool :=
  match nid with
  | some k => lenNe mono k
  | Option.none => false

/-- `len(monotonicities) if monotonicities is not None else num_input_dims` -/
def expectedLen (mono : Option (List Atom)) (nid : Option Nat) : Option Nat :=
  match mono with
  | some m => some m.length
  | Option.none => nid

/-- `bounds is not None and expected is not None and len(bounds) != expected` -/
def boundsLenBad (expected : Option Nat) (b : Option (List Atom)) : Bool :=
  match expected, b with
  | some k, some l => l.length != k
  | _, _ => false

def verifyLinear (nid : Option Nat) (monoV mdV rdV iminV imaxV : Val) : Except Err LinCfg := do
  let mono ← canonMonotonicities true monoV
  let imin ← canonInputBounds iminV
  let imax ← canonInputBounds imaxV
  if nidBad nid mono then ve
  else if boundsCrossed (imin.getD []) (imax.getD []) then ve
  -- fix b89ac95: dominances need monotonicities; bounds must have one entry per input dimension
  else if (!mdV.isNone || !rdV.isNone) && mono.isNone then ve
  else if boundsLenBad (expectedLen mono nid) imin then ve
  else if boundsLenBad (expectedLen mono nid) imax then ve
  else
  let md ← linMd mono mdV
  let rd ← linRd mono imin imax rdV
  if !mdV.isNone && !rdV.isNone && sharedDim md rd then ve
  else pure ⟨mono, md, rd, imin, imax⟩

structure RawLinC where
  mono : Val
  md : Val
  rd : Val
  imin : Val
  imax : Val
def linearConstraints (r : RawLinC) : Except Err LinCfg :=
  verifyLinear Option.none r.mono r.md r.rd r.imin r.imax

/-- `Linear.__init__`: broadcast, then `verify_hyperparameters(num_input_dims, monotonicities,
input_min, input_max)` — the bounds are handed over since fix 4a8f232, so bounds of the wrong
length, crossed bounds and non-float entries are a `ValueError` at construction even when no
constraint object is ever created (dominances are verified by `LinearConstraints` at build) -/
structure RawLin where
  nid : Val
  mono : Val
  imin : Val := .a .none
  imax : Val := .a .none
def linearLayer (r : RawLin) : Except Err LinCfg :=
  match r.nid with
  | .a (.int k) =>
    verifyLinear (some k.toNat) (linearBroadcast k.toNat r.mono) (.a .none) (.a .none) r.imin r.imax
  | _ => oe

/-- `v is not None and v < k` (a string or a list compared with a number is a `TypeError`) -/
def lessThan (v : Val) (k : Rat) : Except Err Bool :=
  match v with
  | .a .none => .ok false
  | .a x => (x.toNum).map (· < k)
  | _ => te

/-! ## `categorical_calibration_lib.verify_hyperparameters` -/

structure CatCfg where
  buckets : Option Nat
  lo : Option Rat
  hi : Option Rat
  pairs : List (Rat × Rat)
  deriving DecidableEq, Repr

/-- one pair of the `for (i, j) in monotonicities:` loop. Since fix ab2e39a both indices must be
`numbers.Integral` (Python ints and bools — a bool is encoded as the int it is; floats, also the
integral ones like `1.0`, `None` and strings are a `ValueError`), then in range. -/
def catPair (nb : Option Int) : Item → Except Err (Rat × Rat)
  | .s _ [a, b] =>
    if !(a.isInt && b.isInt) then ve else do
    let i ← a.toNum
    if i < 0 then ve else
    let j ← b.toNum
    if j < 0 then ve
    else match nb with
      | some k => if i ≥ k || j ≥ k then ve else pure (i, j)
      | Option.none => pure (i, j)
  | _ => ve

def nbOf (v : Val) : Option Int :=
  match v with
  | .a (.int k) => some k
  | _ => Option.none

def isPairItem : Item → Bool
  | .s _ [_, _] => true
  | _ => false

/-- the `if monotonicities:` section: must be a LIST of 2-element lists/tuples of valid indices -/
def catPairs (nb : Option Int) (monoV : Val) : Except Err (List (Rat × Rat)) :=
  if !monoV.truthy then .ok []
  else match monoV with
    | .s false xs => if !(xs.all isPairItem) then ve else mapE (catPair nb) xs
    | _ => ve

/-- `num_buckets is not None and (not isinstance(num_buckets, numbers.Integral) or num_buckets < 1)`
(fix 76984f9 and its follow-up: a non-integer `num_buckets` is rejected as well) -/
def nbFew (v : Val) : Except Err Bool :=
  match v with
  | .a .none => .ok false
  | .a (.int k) => .ok (decide (k < 1))
  | _ => .ok true

def verifyCategorical (nbV omin omax monoV : Val) : Except Err CatCfg := do
  let few ← nbFew nbV
  if few then ve else
  let lo ← boundOf omin
  let hi ← boundOf omax
  if hiLtLo lo hi then ve
  else
    let ps ← catPairs (nbOf nbV) monoV
    if !kahnAcyclic ps.length ps then ve
    else pure ⟨(nbOf nbV).map Int.toNat, lo, hi, ps⟩

structure RawCatC where
  omin : Val
  omax : Val
  mono : Val
def categoricalConstraints (r : RawCatC) : Except Err CatCfg :=
  verifyCategorical (.a .none) r.omin r.omax r.mono

structure RawCat where
  nb : Val
  omin : Val
  omax : Val
  mono : Val
def categoricalLayer (r : RawCat) : Except Err CatCfg :=
  verifyCategorical r.nb r.omin r.omax r.mono

/-! ## `kronecker_factored_lattice_lib.verify_hyperparameters` -/

structure KflCfg where
  size : Int
  units : Int
  terms : Int
  lo : Option Rat
  hi : Option Rat
  deriving DecidableEq, Repr

structure RawKfl where
  size : Val
  units : Val
  terms : Val
  omin : Val
  omax : Val
def kflLayer (r : RawKfl) : Except Err KflCfg := do
  let b1 ← lessThan r.size 2
  if b1 then ve else
  let b2 ← lessThan r.units 1
  if b2 then ve else
  let b3 ← lessThan r.terms 1
  if b3 then ve else
  let lo ← boundOf r.omin
  let hi ← boundOf r.omax
  if loGeHi lo hi then ve
  else
    let i (v : Val) : Int := match v with | .a (.int k) => k | _ => 0
    pure ⟨i r.size, i r.units, i r.terms, lo, hi⟩

/-! ## `rtl_lib.verify_hyperparameters` -/

def rtlRegOne (xs : List Atom) : Except Err Unit :=
  if xs.length ≠ 3 then ve
  else match xs with
    | [_, l1, l2] => if !l1.isFloat then ve else if !l2.isFloat then ve else .ok ()
    | _ => oe

structure RawRtl where
  size : Val
  omin : Val
  omax : Val
  interp : Val
  param : Val
  init : Val
  reg : Val
def rtlLayer (r : RawRtl) : Except Err Unit := do
  let b ← lessThan r.size 2
  if b then ve else
  let lo ← boundOf r.omin
  let hi ← boundOf r.omax
  if loGeHi lo hi then ve
  else if !(r.interp == .a (.str .hypercube) || r.interp == .a (.str .simplex)) then ve
  else
  let kf := r.param == .a (.str .kronecker_factored)
  if kf && r.init == .a (.str .linear_initializer) then ve
  else if kf && !r.reg.isNone then ve
  else if !r.reg.truthy then pure ()
  else match r.reg with
    | .s false xs =>
      match xs with
      | .a (.str _ _) :: _ =>
        rtlRegOne (xs.filterMap (fun it => match it with | .a x => some x | _ => Option.none))
      | _ => do
        let _ ← mapE (fun it => do
          let ys ← it.iter
          rtlRegOne ys) xs
        pure ()
    | _ => pure ()

/-! ## `premade_lib.verify_config` on a typed description of the configuration -/

/-- the facts `verify_config` reads from one `FeatureConfig` -/
structure Feat where
  latticeSize : Nat
  unimodal : Nat        -- 1: `unimodality` neither 'none' nor 0
  trust : Nat           -- 1: `reflects_trust_in is not None`
  dominance : Nat
  regs : Nat            -- 0 none, 1 only `calib_*` regularizers, 2 has a lattice regularizer
  buckets : Nat         -- 0: numeric feature
  keypoints : Nat       -- 0 list of numbers, 1 a string ('quantiles'), 2 list with a non-number
  catMono : Nat         -- 0 falsy / 'none', 1 valid pairs, 2 index out of range, 3 non-int index,
                        -- 4 flat list of ints, 5 another string, 6 an int, 7 a set of pairs (neither
                        -- list nor tuple: rejected since fix e8dafc0)
  deriving DecidableEq, Repr

structure RawPremade where
  kind : Nat            -- 0 CalibratedLattice, 1 CalibratedLinear, 2 ensemble, 3 AggregateFunction
  feats : Option (List Feat)
  kf : Nat              -- parameterization == 'kronecker_factored'
  regs : Nat            -- model-level regularizers: 0 none, 1 calib only, 2 has a lattice one
  lat : Nat             -- lattices: 0 'rtl_layer', 1 another string, 2 list of well-formed lattices,
                        -- 3 list with a malformed entry (not iterable, a non-string feature name, or —
                        -- since fix b6fcc7a — an EMPTY lattice), 4 anything else (None)
  nlat : Nat            -- len(lattices) when it is a list
  numLattices : Option Int
  midDim : Int
  midCal : Nat
  midMono : Nat         -- middle_monotonicity is not None
  outInit : Nat         -- output_initialization: 0 non-empty list of numbers, 1 string, 2 list with a
                        -- non-number, 3 None, 4 empty list (rejected since fix b6fcc7a)

def verifyFeature (f : Feat) : Except Err Unit :=
  if f.buckets = 0 then
    -- a string is iterable and its characters are not numbers
    if f.keypoints ≠ 0 then ve else .ok ()
  else if f.catMono = 0 then .ok ()
  else if f.catMono = 1 then .ok ()
  else ve   -- 2,3: bad index; 4: element not a pair; 5,6,7: not a list or tuple (fix e8dafc0)

def verifyEnsemble (r : RawPremade) (fs : List Feat) : Except Err Unit :=
  if r.lat = 0 then
    match r.numLattices with
    | Option.none => ve
    | some k =>
      if k < 2 then ve
      else if fs.any (fun f => f.latticeSize ≠ (fs.headD ⟨0, 0, 0, 0, 0, 0, 0, 0⟩).latticeSize) then ve
      else if fs.any (·.unimodal = 1) then ve
      else if fs.any (·.trust = 1) then ve
      else if fs.any (·.dominance = 1) then ve
      else if fs.any (·.regs = 2) then ve
      else .ok ()
  else if r.lat = 2 ∨ r.lat = 3 then
    if r.nlat < 2 then ve else if r.lat = 3 then ve else .ok ()
  else ve

def verifyKf (r : RawPremade) (fs : List Feat) : Except Err Unit :=
  if r.regs = 2 then ve
  else if fs.any (·.regs = 2) then ve
  else if fs.any (fun f => f.latticeSize ≠ (fs.headD ⟨0, 0, 0, 0, 0, 0, 0, 0⟩).latticeSize) then ve
  else if fs.any (·.unimodal = 1) then ve
  else if fs.any (·.trust = 1) then ve
  else if fs.any (·.dominance = 1) then ve
  else .ok ()

def premadeConfig (r : RawPremade) : Except Err Unit :=
  match r.feats with
  | Option.none => ve
  | some fs => do
    -- fix b6fcc7a: `if not model_config.feature_configs` (an empty list as well as None)
    if fs.isEmpty then ve
    if r.kind = 2 then verifyEnsemble r fs
    if (r.kind = 2 ∨ r.kind = 0) ∧ r.kf = 1 then verifyKf r fs
    if r.kind = 3 then
      if r.midDim < 1 then ve
      else if r.midMono = 1 ∧ r.midCal = 0 then ve
    let _ ← mapE verifyFeature fs
    if r.outInit ≠ 0 then ve else pure ()

/-! ## outcome code of the generated tables: 0 accept, 1 ValueError, 2 TypeError, 3 other -/
def outcome {α} : Except Err α → Nat
  | .ok _ => 0
  | .error .valueError => 1
  | .error .typeError => 2
  | .error _ => 3

/-- every row of a (chunked) table is predicted by the model -/
def agrees {ρ α} (f : ρ → Except Err α) (rows : List (ρ × Nat)) : Bool :=
  rows.all (fun r => outcome (f r.1) == r.2)

/-! ## cycle check of `internal_utils._topological_sort` (internal_utils.py:28-62)

`_topological_sort` raises `ValueError` only when NO root exists. A pair set that contains a
cycle but also a root (e.g. `[(0,1),(1,2),(2,1)]`) is not rejected by it: the sort terminates (every
vertex is expanded at most once per stack position) and returns an order that is not a valid
topological order. Since fix 66006cc the categorical constructors never let such a pair set reach
the sort (`kahnAcyclic` above). The Linear dominance loops (`linMdLoop`, `linRdLoop`) only reject a
pair together with its reverse: a longer dominance cycle, or a pair `(i, i)`, still reaches the sort. -/
def cycleRejected (cs : Tfl.Poset.Pairs) : Bool := (Tfl.Poset.topoSort cs).isNone

end Tfl.Verify

namespace Tfl.Verify
open Tfl

/-! ## from an accepted lattice configuration to the configuration of the projection model -/

def toTrust (t : CTrust) : Tfl.Lat.Trust := ⟨atomNat t.main, atomNat t.cond, t.dir == 1⟩

/-- the `Tfl.Lat.Cfg` (model of `finalize_constraints` / `LatticeConstraints.__call__`, C01) that an
accepted configuration configures -/
def LatCfg.toLat (c : LatCfg) : Tfl.Lat.Cfg :=
  { sizes := c.sizes.map Int.toNat
    mono := (c.mono.getD []).map (fun a => a.eqNum 1)
    edgeworth := c.ew.map toTrust
    trapezoid := c.tp.map toTrust
    lo := c.lo
    hi := c.hi }

end Tfl.Verify

namespace Tfl.Verify
open Tfl

/-! ## from an accepted linear configuration to the arguments of `Tfl.Linear.project` -/
def LinCfg.los (c : LinCfg) : List (Option Rat) := (c.imin.getD []).map Atom.num
def LinCfg.his (c : LinCfg) : List (Option Rat) := (c.imax.getD []).map Atom.num
def LinCfg.monos (c : LinCfg) : List Int :=
  (c.mono.getD []).map (fun a => match a.num with | some r => r.floor | Option.none => 0)

/-! ## from an accepted categorical configuration to the pairs of `Tfl.Categorical.project`

Accepted indices are Python ints (fix ab2e39a), non-negative and below `num_buckets`; the
configuration keeps them as the rationals the range checks compare. -/
def natPairs (ps : List (Rat × Rat)) : Tfl.Poset.Pairs :=
  ps.map (fun p => (p.1.floor.toNat, p.2.floor.toNat))
def CatCfg.natPairs (c : CatCfg) : Tfl.Poset.Pairs := Tfl.Verify.natPairs c.pairs

/-- the lengths of the pieces of a piecewise-linear calibrator -/
def pieceLengths (ks : List Rat) : List Rat := List.zipWith (fun a b => b - a) ks ks.tail

end Tfl.Verify

namespace Tfl.Verify
open Tfl

/-! ## Constructor arguments that are only STORED by the constructors (C16, audit row 5)

`units`, `num_projection_iterations`, `split_outputs`, `normalization_order` are arguments of the
layer / constraint constructors that no `verify_hyperparameters` looks at on the current tree: the
constructor stores them and the first build / projection uses them.  The `…Full` models below take
them as arguments (so the acceptance tables range over them) and reproduce what the constructor does
with them — nothing, except for `Linear` (whose `InputSpec` converts `units` to a tensor dimension)
and `KroneckerFactoredLattice` (which compares them with numbers).  They ARE verified since the fixes
of F-C16-af (`utils.verify_units`: a positive int), F-C16-ag (`utils.verify_num_projection_iterations`:
an int), F-C16-ah (4f3f7ef, `normOrderValid`), F-C16-ai (KFL: ints) and F-C16-aj (an empty tuple of
constraints is "no constraint").  What the LATER uses need is stated as predicates (`posIntVal`,
`Val.isInt`, `normLate`) and follows from acceptance (Props/C16Full.lean). -/

/-- a Python int (bools are ints: `True` is encoded as `.int 1`) -/
def Val.isInt : Val → Bool
  | .a (.int _) => true
  | _ => false

/-- what every later use of `units` (a tensor dimension that is multiplied, compared with 1 and used
as a `tf.split` count) needs: a Python int ≥ 1 -/
def posIntVal : Val → Bool
  | .a (.int k) => decide (1 ≤ k)
  | _ => false

/-- the value as an integer (0 for anything that is not a Python int) -/
def Val.toInt : Val → Int
  | .a (.int k) => k
  | _ => 0

/-- `tf.TensorShape([…, v, …])` (through `keras.layers.InputSpec(shape=…)` or `add_weight(shape=…)`):
`None` is an unknown dimension, a negative int a `ValueError` ("Dimension -1 must be >= 0"), anything
that is not an int a `TypeError` ("Dimension value must be integer or None") -/
def dimVal : Val → Except Err Unit
  | .a .none => .ok ()
  | .a (.int k) => if k < 0 then ve else .ok ()
  | _ => te

/-- `normalization_order`: a Python value, or one of the objects the small domains contain that are
not `Val`s: `np.inf`, `-np.inf`, `'euclidean'`, `'fro'` -/
inductive NormOrd
  | val (v : Val) | inf | negInf | euclidean | fro
  deriving DecidableEq, Repr

/-- `if normalization_order:` (linear_lib.project / assert_constraints) -/
def NormOrd.truthy : NormOrd → Bool
  | .val v => v.truthy
  | _ => true

/-- the FIRST PROJECTION's use of `normalization_order` (linear_lib.project:109-112):
`if normalization_order: tf.norm(weights, axis=0, ord=normalization_order)`; `tf.norm` of a vector
(tensorflow/python/ops/linalg_ops.py `norm`) supports `'euclidean'`, `1`, `2`, `np.inf` and any positive
real number: `if (not np.isreal(ord) or ord <= 0) and ord not in ['euclidean', 1, 2, np.inf]: raise
ValueError`; a list is compared with 0 (`TypeError`). -/
def normLate : NormOrd → Except Err Unit
  | .inf => .ok ()
  | .euclidean => .ok ()
  | .negInf => ve
  | .fro => ve
  | .val v =>
    if !v.truthy then .ok ()
    else match v with
      | .a x =>
        match x.num with
        | some r => if r > 0 then .ok () else ve
        | Option.none => ve
      | .s _ _ => te

/-- the check at the head of `linear_lib.verify_hyperparameters` (fix 4f3f7ef):
```
if isinstance(normalization_order, str):            valid = normalization_order == "euclidean"
elif isinstance(normalization_order, (list, tuple)): valid = False
elif normalization_order:                            valid = isinstance(…, numbers.Real) and … > 0
else:                                                valid = True
```
(`np.inf` / `-np.inf` are floats: `inf > 0`, `-inf > 0` is false) -/
def normOrderValid : NormOrd → Bool
  | .inf => true
  | .euclidean => true
  | .negInf => false
  | .fro => false
  | .val (.s _ _) => false
  | .val (.a (.str _ _)) => false
  | .val (.a x) => !x.truthy || (match x.num with | some r => decide (r > 0) | Option.none => false)

/-! ### `PWLCalibration.__init__` with every stored argument -/
structure RawPwlFull where
  kp : Val
  omin : Val
  omax : Val
  mono : Val
  conv : Val
  cyclic : Val
  impute : Val
  missIn : Val
  missOut : Val
  kptype : Val
  clampMin : Val
  clampMax : Val
  init : Val
  units : Val
  iters : Val
  split : Val
def RawPwlFull.base (r : RawPwlFull) : RawPwl :=
  ⟨r.kp, r.omin, r.omax, r.mono, r.conv, r.cyclic, r.impute, r.missIn, r.missOut, r.kptype, r.clampMin,
    r.clampMax, r.init⟩
/-- `PWLCalibration.__init__` (pwl_calibration_layer.py:199-300): `units` must be a positive int,
`num_projection_iterations` an int (both checked first); `split_outputs` is assigned to an attribute,
nothing else -/
def pwlCalibrationFull (r : RawPwlFull) : Except Err PwlCfg :=
  -- `utils.verify_units(units)`, `utils.verify_num_projection_iterations(…)`, then the library verification
  if !posIntVal r.units then ve
  else if !r.iters.isInt then ve
  else pwlCalibration r.base

/-- `PWLCalibrationConstraints.__init__` with `num_projection_iterations` (an int, checked first) -/
structure RawPwlCFull where
  mono : Val
  conv : Val
  lengths : Val
  omin : Val
  omax : Val
  iters : Val
def RawPwlCFull.base (r : RawPwlCFull) : RawPwlC := ⟨r.mono, r.conv, r.lengths, r.omin, r.omax⟩
def pwlConstraintsFull (r : RawPwlCFull) : Except Err PwlCfg :=
  if !r.iters.isInt then ve else pwlConstraints r.base

/-! ### `Lattice.__init__` / `LatticeConstraints.__init__` with every stored argument -/
structure RawLatLayerFull where
  sizes : Val
  mono : Val
  uni : Val
  ju : JU
  omin : Val
  omax : Val
  interp : Val
  init : Val
  units : Val
  iters : Val
  /-- the trust / dominance / joint-monotonicity arguments: wrapped and stored by the constructor,
  verified by `LatticeConstraints` at build -/
  ew : Val := .a .none
  tp : Val := .a .none
  md : Val := .a .none
  rd : Val := .a .none
  jm : Val := .a .none
def RawLatLayerFull.base (r : RawLatLayerFull) : RawLatLayer :=
  ⟨r.sizes, r.mono, r.uni, r.ju, r.omin, r.omax, r.interp, r.init⟩
/-- `isinstance(x, tuple) and x and isinstance(x[0], int)` → `[x]` as written in `Lattice.__init__`
(lattice_layer.py:297-321) since the fix of F-C16-aj: the same normalisation as in
`LatticeConstraints.__init__` (`wrapSingle`); it cannot raise (before the fix `x[0]` of an EMPTY tuple
was an `IndexError`) -/
def wrapSingleLayer (v : Val) : Except Err Val := .ok (wrapSingle v)

/-- `Lattice.__init__` (lattice_layer.py:285-375) in source order: first verification; the five
constraint arguments wrapped and stored; the bare joint unimodality wrapped; second verification
(joint unimodalities); `create_kernel_initializer`.  `units` (a positive int) and
`num_projection_iterations` (an int) are verified first.  Returns the attributes that `build` hands
to `LatticeConstraints`. -/
def latticeLayerCore (r : RawLatLayerFull) : Except Err RawLattice := do
  let _ ← verifyLattice { sizes := r.sizes, mono := r.mono, uni := r.uni, interp := r.interp }
  let ew ← wrapSingleLayer r.ew
  let tp ← wrapSingleLayer r.tp
  let md ← wrapSingleLayer r.md
  let rd ← wrapSingleLayer r.rd
  let jm ← wrapSingleLayer r.jm
  let ju := wrapJU r.ju
  let _ ← verifyLattice { sizes := r.sizes, mono := r.mono, ju := ju }
  createKernelInitializer r.base ju
  pure ⟨r.sizes, r.mono, r.uni, ew, tp, md, rd, jm, ju, r.omin, r.omax⟩

/-- `Lattice.__init__`: `utils.verify_units(units)` and `utils.verify_num_projection_iterations(…)`
come first (fixes of F-C16-af / F-C16-ag), then `latticeLayerCore` -/
def latticeLayerFull (r : RawLatLayerFull) : Except Err RawLattice :=
  if !posIntVal r.units then ve
  else if !r.iters.isInt then ve
  else latticeLayerCore r

/-- `Lattice.__init__` followed by `Lattice.build` on an input of the layer's own shape
(`(batch, len(lattice_sizes))`, `(batch, units, len(lattice_sizes))` for `units > 1` — the shape
checks of `verify_hyperparameters(lattice_sizes, units, input_shape)` then pass) for a positive int
`units`: the constructor, then `LatticeConstraints(**stored attributes)`. -/
def latticeBuild (r : RawLatLayerFull) : Except Err LatCfg := do
  let s ← latticeLayerFull r
  latticeConstraints s

structure RawLatticeFull where
  sizes : Val
  mono : Val
  uni : Val
  ew : Val
  tp : Val
  md : Val
  rd : Val
  jm : Val
  ju : JU
  omin : Val
  omax : Val
  iters : Val
def RawLatticeFull.base (r : RawLatticeFull) : RawLattice :=
  ⟨r.sizes, r.mono, r.uni, r.ew, r.tp, r.md, r.rd, r.jm, r.ju, r.omin, r.omax⟩
/-- `LatticeConstraints.__init__` with `num_projection_iterations` (an int, checked first) -/
def latticeConstraintsFull (r : RawLatticeFull) : Except Err LatCfg :=
  if !r.iters.isInt then ve else latticeConstraints r.base

/-! ### `Linear.__init__` / `LinearConstraints.__init__` with `units` and `normalization_order` -/
structure RawLinFull where
  nid : Val
  mono : Val
  imin : Val
  imax : Val
  units : Val
  norm : NormOrd
def RawLinFull.base (r : RawLinFull) : RawLin := ⟨r.nid, r.mono, r.imin, r.imax⟩
/-- `units == 1` (`1.0 == 1` and `True == 1` hold in Python) -/
def unitsIsOne (v : Val) : Bool :=
  match v with
  | .a x => x.eqNum 1
  | _ => false
/-- `Linear.__init__` (linear_layer.py:150-198): the broadcast of the monotonicities, then
`verify_hyperparameters(num_input_dims, monotonicities, input_min, input_max, normalization_order)`
— `normalization_order` FIRST (fix 4f3f7ef), then the checks of `linearLayer` —, then
`InputSpec(shape=(None, num_input_dims) if units == 1 else (None, units, num_input_dims))` converts
the entries to tensor dimensions -/
def linearLayerCore (r : RawLinFull) : Except Err LinCfg := do
  let c ← (if r.nid.isInt && !normOrderValid r.norm then ve else linearLayer r.base)
  let _ ← (if unitsIsOne r.units then Except.ok () else dimVal r.units)
  let _ ← dimVal r.nid
  pure c

/-- `Linear.__init__`: `utils.verify_units(units)` first (fix of F-C16-af), then `linearLayerCore` -/
def linearLayerFull (r : RawLinFull) : Except Err LinCfg :=
  if !posIntVal r.units then ve else linearLayerCore r

structure RawLinCFull where
  mono : Val
  md : Val
  rd : Val
  imin : Val
  imax : Val
  norm : NormOrd
def RawLinCFull.base (r : RawLinCFull) : RawLinC := ⟨r.mono, r.md, r.rd, r.imin, r.imax⟩
/-- `LinearConstraints.__init__`: `verify_hyperparameters(…, normalization_order)` checks the order
first (fix 4f3f7ef), then everything `linearConstraints` checks -/
def linearConstraintsFull (r : RawLinCFull) : Except Err LinCfg :=
  if !normOrderValid r.norm then ve else linearConstraints r.base

/-! ### `CategoricalCalibration.__init__` with `units` and `split_outputs` -/
structure RawCatFull where
  nb : Val
  omin : Val
  omax : Val
  mono : Val
  units : Val
  split : Val
def RawCatFull.base (r : RawCatFull) : RawCat := ⟨r.nb, r.omin, r.omax, r.mono⟩
/-- `utils.verify_units(units)` first; `split_outputs` is stored -/
def categoricalLayerFull (r : RawCatFull) : Except Err CatCfg :=
  if !posIntVal r.units then ve else categoricalLayer r.base

/-! ### `KroneckerFactoredLattice`: constructor and build (the monotonicities are verified at build,
against the number of input dimensions) -/
structure KflCfgM where
  size : Int
  units : Int
  terms : Int
  lo : Option Rat
  hi : Option Rat
  /-- canonical monotonicities (`None`, or one entry in {0, 1} per input dimension) -/
  mono : Option (List Atom)
  deriving DecidableEq, Repr

structure RawKflFull where
  size : Val
  units : Val
  terms : Val
  omin : Val
  omax : Val
  mono : Val
def RawKflFull.base (r : RawKflFull) : RawKfl := ⟨r.size, r.units, r.terms, r.omin, r.omax⟩

/-- `KroneckerFactoredLattice.__init__` since the fix of F-C16-ai: `lattice_sizes`, `units`, `num_terms`
must not be `None` (constructor) and must be ints (head of `verify_hyperparameters`: `isinstance(value,
bool) or not isinstance(value, numbers.Integral)` ⇒ `ValueError`), then the comparisons of `kflLayer` -/
def kflLayerInt (r : RawKfl) : Except Err KflCfg :=
  if r.size.isNone || r.units.isNone || r.terms.isNone then ve
  else if !r.size.isInt || !r.units.isInt || !r.terms.isInt then ve
  else kflLayer r

/-- `monotonicities and len(monotonicities) != dims` -/
def monoLenBad (mono : Option (List Atom)) (dims : Nat) : Bool :=
  match mono with
  | some l => !l.isEmpty && l.length != dims
  | Option.none => false

/-- `KroneckerFactoredLattice.__init__` followed by `build` on an input of the layer's own shape with
`dims` input dimensions (`(batch, dims)`, `(batch, units, dims)` for `units > 1`):
the constructor's `verify_hyperparameters(lattice_sizes, units, num_terms, output_min, output_max)`,
then `verify_hyperparameters(units, input_shape, monotonicities)`: `units < 1` once more,
`canonicalize_monotonicities(monotonicities, allow_decreasing=False)` and
`monotonicities and len(monotonicities) != dims`. -/
def kflBuild (r : RawKflFull) (dims : Nat) : Except Err KflCfgM := do
  let c ← kflLayerInt r.base
  let mono ← canonMonotonicities false r.mono
  if monoLenBad mono dims then ve
  else pure ⟨c.size, c.units, c.terms, c.lo, c.hi, mono⟩

/-- one row of the constructor + build table: the constructor arguments and the number of input
dimensions of the shape handed to `build` -/
structure RawKflBuild where
  size : Val
  units : Val
  terms : Val
  omin : Val
  omax : Val
  mono : Val
  dims : Val
def RawKflBuild.raw (r : RawKflBuild) : RawKflFull := ⟨r.size, r.units, r.terms, r.omin, r.omax, r.mono⟩
def kflBuildRow (r : RawKflBuild) : Except Err KflCfgM := kflBuild r.raw r.dims.toInt.toNat

end Tfl.Verify
