import TflModel.Model.Core
/-!
# `internal_utils.py`: topological sort and the approximate partial-order projection

A pair `(i, j)` means `w i ≤ w j`. Vectors are `List Rat` (one unit column); an update of
entry `i` is `List.set`.
-/
namespace Tfl.Poset

abbrev Pairs := List (Nat × Nat)

def getV (l : List Rat) (k : Nat) : Rat := l.getD k 0

/-- `key_less_than_values[i]` : all `j` with `(i, j)` listed, in order -/
def lessThan (cs : Pairs) (i : Nat) : List Nat := (cs.filter (fun c => c.1 == i)).map (·.2)
/-- `key_greater_than_values[j]` : all `i` with `(i, j)` listed, in order -/
def greaterThan (cs : Pairs) (j : Nat) : List Nat := (cs.filter (fun c => c.2 == j)).map (·.1)

/-- keys of the python dict in insertion order -/
def keys (cs : Pairs) : List Nat := (cs.map (·.1)).eraseDups

/-- the `while q:` loop of `_topological_sort`; the stack is kept top-first. -/
def topoLoop (cs : Pairs) : Nat → List Nat → List Nat → List Nat → List Nat
  | 0, _, _, result => result
  | _, [], _, result => result
  | fuel + 1, v :: stack, seen, result =>
    let seen' := v :: seen
    match (lessThan cs v).filter (fun x => !seen'.contains x) with
    | [] => topoLoop cs fuel stack seen' (v :: result)
    | x :: _ => topoLoop cs fuel (x :: v :: stack) seen' result

/-- `_topological_sort`: `none` is the `ValueError("Circular ...")` raised when no root exists. -/
def topoSort (cs : Pairs) : Option (List Nat) :=
  let allValues := cs.map (·.2)
  let q := (keys cs).filter (fun k => !allValues.contains k)
  if q.isEmpty then none
  else some (topoLoop cs (4 * (cs.length + 1) + 4) q.reverse [] [])

/-- position-based validity of an order: every constrained pair `(i, j)` has both ends listed,
`i` strictly before `j`, and the order has no duplicates. Decidable; checked by the driver on
every correspondence case. -/
def idxOf (order : List Nat) (x : Nat) : Nat := order.findIdx (· == x)
def validOrder (cs : Pairs) (order : List Nat) : Bool :=
  decide order.Nodup &&
  cs.all (fun c => order.contains c.1 && order.contains c.2 && idxOf order c.1 < idxOf order c.2)

/-- `min(w_i, w_j for j in key_less_than_values[i])` -/
def minAt (cs : Pairs) (w : List Rat) (i : Nat) : Rat :=
  (lessThan cs i).foldl (fun m j => min m (getV w j)) (getV w i)
def maxAt (cs : Pairs) (w : List Rat) (i : Nat) : Rat :=
  (greaterThan cs i).foldl (fun m j => max m (getV w j)) (getV w i)

/-- one iteration of the loop body of `_min_projection` -/
def minStep (cs : Pairs) (step : Rat) (w : List Rat) (i : Nat) : List Rat :=
  if (lessThan cs i).isEmpty then w
  else w.set i (step * minAt cs w i + (1 - step) * getV w i)
def maxStep (cs : Pairs) (step : Rat) (w : List Rat) (i : Nat) : List Rat :=
  if (greaterThan cs i).isEmpty then w
  else w.set i (step * maxAt cs w i + (1 - step) * getV w i)

/-- `_min_projection`: sweep in reversed topological order -/
def minProjection (cs : Pairs) (order : List Nat) (step : Rat) (w : List Rat) : List Rat :=
  order.reverse.foldl (minStep cs step) w
/-- `_max_projection`: sweep in topological order -/
def maxProjection (cs : Pairs) (order : List Nat) (step : Rat) (w : List Rat) : List Rat :=
  order.foldl (maxStep cs step) w

def avg2 (a b : List Rat) : List Rat := List.zipWith (fun x y => (x + y) / 2) a b

/-- body of `approximately_project_categorical_partial_monotonicities` for a given order -/
def approxProjectWith (cs : Pairs) (order : List Nat) (w : List Rat) : List Rat :=
  let a := maxProjection cs order 1 (minProjection cs order (1/2) w)
  let b := minProjection cs order 1 (maxProjection cs order (1/2) w)
  avg2 a b

def approxProject (cs : Pairs) (w : List Rat) : Except Err (List Rat) :=
  match topoSort cs with
  | none => .error .valueError
  | some order => .ok (approxProjectWith cs order w)

/-- every listed pair holds -/
def Feasible (cs : Pairs) (w : List Rat) : Prop := ∀ c ∈ cs, getV w c.1 ≤ getV w c.2
def feasibleB (cs : Pairs) (w : List Rat) : Bool := cs.all (fun c => getV w c.1 ≤ getV w c.2)

end Tfl.Poset
