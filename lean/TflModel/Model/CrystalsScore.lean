import TflModel.Model.Regularizers
import TflModel.Model.Ensembles
/-!
# Crystals scoring path (C17): from the prefitting lattice kernels to torsions, Laplacians, importance

Anchors (`/repo/tensorflow_lattice/python/premade_lib.py`):
* `_get_torsions_and_laplacians` (1131-1175): for every prefitting lattice the kernel is normalised
  (`weights -= np.min(weights); weights /= np.max(weights)`), `lattice_sizes = [2] * len(lattice)`; for every
  within-lattice dimension `i0` the value `laplacian_regularizer(l2 = e_i0)` is appended to the list of its
  feature, for every `i0 < i1` the value `torsion_regularizer(l2 = e_i0 + e_i1)` is appended to the lists of
  both ordered feature pairs; then `np.mean` per feature / per feature pair, `0.0` for a pair never seen.
* importance scores at the start of `_get_final_crystal_lattices` (1186-1190) = `Tfl.Ensembles.importance`.

The regularizers are the models of `Model/Regularizers.lean` (`Tfl.Reg.laplacian`, `Tfl.Reg.torsion`, `l1`
falsy, `l2` a per-dimension list); means are exact rationals.

NaN points of the real code are error values here (every later use of a NaN score raises `ValueError` in
`int(round(nan))`, findings F-C17-a/b): a CONSTANT kernel (`max - min = 0`: `0/0`), and a feature that no
prefitting lattice contains (`np.mean([])`).  A kernel whose length is not `2 ** len(lattice)` cannot be
produced by the real code (the kernel belongs to the lattice layer): `.error .other`.
-/
namespace Tfl.CrystalsScore
open Tfl Tfl.Reg Tfl.Ensembles

/-- `Except`-traversal written out (first error wins, left to right) -/
def collect {α β : Type} (f : α → Except Err β) : List α → Except Err (List β)
  | [] => .ok []
  | a :: as =>
    match f a with
    | .error e => .error e
    | .ok b =>
      match collect f as with
      | .error e => .error e
      | .ok bs => .ok (b :: bs)

/-- `weights -= np.min(weights); weights /= np.max(weights)`: the divisor is the maximum of the SHIFTED
kernel (= max − min).  A constant kernel is `0/0 = NaN` in the real code (finding F-C17-b): an error value. -/
def normalizeKernel : List Rat → Except Err (List Rat)
  | [] => .error .valueError
  | x :: xs =>
    let mn := rmin x xs
    let mx := rmax (x - mn) (xs.map (· - mn))
    if mx = 0 then .error .valueError
    else .ok (((x :: xs).map (· - mn)).map (· / mx))

def sizesOf (d : Nat) : List Nat := List.replicate d 2
/-- `l2 = [0] * d; l2[i] = 1` -/
def unit1 (d i : Nat) : List Rat := (List.range d).map fun k => if k = i then 1 else 0
/-- `l2 = [0] * d; l2[i] = 1; l2[j] = 1` -/
def unit2 (d i j : Nat) : List Rat := (List.range d).map fun k => if k = i ∨ k = j then 1 else 0

/-- `lattice_lib.laplacian_regularizer(weights, [2]*d, l2=e_i)` (`l1` defaults to `0.0`) -/
def lapAt (d : Nat) (w : W) (i : Nat) : Rat :=
  laplacian (sizesOf d) 1 (.scalar 0) (.perDim (unit1 d i)) w
/-- `lattice_lib.torsion_regularizer(weights, [2]*d, l2=e_i+e_j)` -/
def torAt (d : Nat) (w : W) (i j : Nat) : Except Err Rat :=
  torsion (sizesOf d) 1 (.scalar 0) (.perDim (unit2 d i j)) w

/-- the pairs `within_lattice_index_0 < within_lattice_index_1 < d` in loop order -/
def pairsOf (d : Nat) : List (Nat × Nat) :=
  (List.range d).flatMap fun i => (List.range' (i + 1) (d - (i + 1))).map fun j => (i, j)

/-- what one prefitting lattice appends: `(feature, laplacian)` and `(feature_0, feature_1, torsion)` -/
structure Obs where
  laps : List (Nat × Rat)
  tors : List (Nat × Nat × Rat)

/-- the two symmetric appends `torsions[f0][f1].append(t); torsions[f1][f0].append(t)` -/
def torObs (lat : List Nat) (w : W) (p : Nat × Nat) : Except Err (List (Nat × Nat × Rat)) :=
  match torAt lat.length w p.1 p.2 with
  | .error e => .error e
  | .ok v => .ok [(lat.getD p.1 0, lat.getD p.2 0, v), (lat.getD p.2 0, lat.getD p.1 0, v)]

/-- body of the `for (lattice_index, lattice) in enumerate(...)` loop; `lat` = feature indices of the lattice -/
def latticeObs (lat : List Nat) (kernel : List Rat) : Except Err Obs :=
  let d := lat.length
  if kernel.length ≠ 2 ^ d then .error .other
  else
    match normalizeKernel kernel with
    | .error e => .error e
    | .ok k =>
      let w := (Table.ofVals (sizesOf d) k).get
      let laps := (List.range d).map fun i => (lat.getD i 0, lapAt d w i)
      match collect (torObs lat w) (pairsOf d) with
      | .error e => .error e
      | .ok ts => .ok ⟨laps, ts.flatten⟩

/-- `np.mean(v)` of a non-empty list -/
def mean (l : List Rat) : Rat := rsum l / (l.length : Rat)

/-- the values appended to `laplacians[f]` -/
def lapList (obs : List Obs) (f : Nat) : List Rat :=
  ((obs.flatMap (·.laps)).filter (fun x => x.1 == f)).map (·.2)
/-- the values appended to `torsions[f][g]` -/
def torList (obs : List Obs) (f g : Nat) : List Rat :=
  ((obs.flatMap (·.tors)).filter (fun x => x.1 == f && x.2.1 == g)).map (·.2.2)

/-- `[[np.mean(v) if v else 0.0 for v in row] for row in torsions]` -/
def torMeans (obs : List Obs) (n : Nat) : List (List Rat) :=
  (List.range n).map fun f => (List.range n).map fun g =>
    let vs := torList obs f g
    if vs.isEmpty then 0 else mean vs

/-- `_get_torsions_and_laplacians`: `lattices` = the prefitting lattices as feature indices, `kernels` =
their kernels (row-major over `[2] * d`), `numFeatures = len(feature_names)`.  A feature in no lattice has
`np.mean([]) = NaN` as its Laplacian: an error value. -/
def torsionsAndLaplacians (lattices : List (List Nat)) (kernels : List (List Rat)) (numFeatures : Nat) :
    Except Err (List (List Rat) × List Rat) :=
  if lattices.length ≠ kernels.length then .error .other
  else
    match collect (fun p => latticeObs p.1 p.2) (lattices.zip kernels) with
    | .error e => .error e
    | .ok obs =>
      if (List.range numFeatures).any (fun f => (lapList obs f).isEmpty) then .error .valueError
      else .ok (torMeans obs numFeatures, (List.range numFeatures).map fun f => mean (lapList obs f))

/-- `importance_scores = laplacians * 6 + Σ torsions with every other feature` (premade_lib.py:1186-1190) -/
def importanceScores (n : Nat) (tl : List (List Rat) × List Rat) : List Rat := importance n tl.1 tl.2

/-- `np.mean(torsions) * lattice_rank**2 / 2` over the `n × n` matrix (exact rational) -/
def emptyScoreOf (n r : Nat) (t : List (List Rat)) : Rat :=
  rsum t.flatten / ((n : Rat) * (n : Rat)) * ((r : Rat) * (r : Rat)) / 2

/-- `_get_final_crystal_lattices` from the prefitting kernels: scores computed by the model, then the
existing `Tfl.Ensembles.crystals`.  `argsort` stands for `np.argsort(-importance_scores)` (its tie order is
NumPy's, a parameter). -/
def crystalsFromKernels (argsort : List Rat → List Nat) (n L r : Nat) (lattices : List (List Nat))
    (kernels : List (List Rat)) (fuel : Nat := maxCrystalsSwaps + 1) : Except Err (List (List Nat) × Bool) :=
  match torsionsAndLaplacians lattices kernels n with
  | .error e => .error e
  | .ok tl => crystals n L r tl.1 tl.2 (argsort (importanceScores n tl)) (emptyScoreOf n r tl.1) fuel

end Tfl.CrystalsScore
