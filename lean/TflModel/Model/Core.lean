/-!
# Core of the executable model (Mathlib-free)

Scalars are exact rationals; lattice tensors are functions on multi-indices
(`W := Idx → Rat`), executed on tabulated data (`Table`).
-/
namespace Tfl

abbrev Idx := List Nat
abbrev W := Idx → Rat

def coord (idx : Idx) (d : Nat) : Nat := idx.getD d 0
def setc (idx : Idx) (d v : Nat) : Idx := idx.set d v

/-- all multi-indices of the box `sizes`, row-major (the order of `tf.reshape(w, sizes)`). -/
def allIdx : List Nat → List Idx
  | [] => [[]]
  | n :: ns => (List.range n).flatMap (fun i => (allIdx ns).map (fun t => i :: t))

/-- A tabulated tensor: the executable state of every loop is DATA, never a closure. -/
abbrev Table := List (Idx × Rat)
def tabulate (sizes : List Nat) (f : W) : Table := (allIdx sizes).map (fun idx => (idx, f idx))
def Table.get (t : Table) : W := fun idx => (t.lookup idx).getD 0
def runStage (sizes : List Nat) (stage : W → W) (t : Table) : Table := tabulate sizes (stage t.get)
def Table.ofVals (sizes : List Nat) (vs : List Rat) : Table := (allIdx sizes).zip vs
def Table.vals (sizes : List Nat) (t : Table) : List Rat := (allIdx sizes).map t.get

/-- sum of a list of rationals -/
def rsum : List Rat → Rat
  | [] => 0
  | x :: xs => x + rsum xs

def rprod : List Rat → Rat
  | [] => 1
  | x :: xs => x * rprod xs

/-- maximum of a non-empty list given as head + tail (the code's `reduce_max`). -/
def rmax (x : Rat) : List Rat → Rat
  | [] => x
  | y :: ys => rmax (max x y) ys
def rmin (x : Rat) : List Rat → Rat
  | [] => x
  | y :: ys => rmin (min x y) ys

def clip (x lo hi : Rat) : Rat := max lo (min x hi)
def clip01 (x : Rat) : Rat := max 0 (min x 1)

/-- optional bounds: `none` = unbounded on that side -/
def clipOpt (x : Rat) (lo hi : Option Rat) : Rat :=
  let y := match hi with | some h => min x h | none => x
  match lo with | some l => max y l | none => y

def getR (l : List Rat) (i : Nat) : Rat := l.getD i 0

/-- errors are values: what the real code rejects is rejected by the model. -/
inductive Err where
  | valueError | typeError | invalidArgument | other
  deriving Repr, DecidableEq

end Tfl
