import TflModel.Model.Poset
/-! # `categorical_calibration_lib.project` and `CategoricalCalibration.call` (one unit column) -/
namespace Tfl.Categorical
open Tfl Tfl.Poset

/-- `tf.maximum(w, output_min)` then `tf.minimum(w, output_max)` -/
def clipOut (lo hi : Option Rat) (x : Rat) : Rat :=
  let y := match lo with | some l => max x l | none => x
  match hi with | some h => min y h | none => y

def project (lo hi : Option Rat) (cs : Pairs) (w : List Rat) : Except Err (List Rat) := do
  let w1 ← if cs.isEmpty then pure w else approxProject cs w
  pure (w1.map (clipOut lo hi))

/-- `CategoricalCalibration.call` for one unit: `default_input_value` is replaced by the last
bucket `num_buckets - 1`, then the row is looked up. -/
def call (kernel : List Rat) (default : Option Int) (x : Int) : Rat :=
  let n := kernel.length
  let i : Int := match default with
    | some d => if x = d then (n : Int) - 1 else x
    | none => x
  if 0 ≤ i ∧ i < n then getV kernel i.toNat else 0

/-- `CategoricalCalibration.call` for all units of one example: `kernels[u]` is unit `u`'s kernel column,
`xs` the example's input row — ONE category (broadcast to every unit by `one_hot(inputs, axis=1) *
kernel`) or one per unit; any other number of columns cannot be broadcast against the kernel
(`InvalidArgumentError`). -/
def callUnits (kernels : List (List Rat)) (default : Option Int) (xs : List Int) : Except Err (List Rat) :=
  if xs.length ≠ 1 ∧ xs.length ≠ kernels.length then .error .invalidArgument
  else .ok ((List.range kernels.length).map (fun u =>
    call (kernels.getD u []) default (xs.getD (if xs.length = 1 then 0 else u) 0)))

end Tfl.Categorical
