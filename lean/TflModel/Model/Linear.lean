import TflModel.Model.Poset
/-!
# `linear_lib.project` and `Linear.call` (one unit column)
-/
namespace Tfl.Linear
open Tfl Tfl.Poset

/-- `tf.clip_by_value(x, lo, hi) = min(max(x, lo), hi)` with `-inf/+inf` for missing bounds -/
def clipBV (x : Rat) (lo hi : Option Rat) : Rat :=
  let y := match lo with | some l => max x l | none => x
  match hi with | some h => min y h | none => y

/-- `Linear.build` only installs clipping when some bound is given; with none it is the identity,
which `clipBV x none none` also is. -/
def clipInputs : List Rat → List (Option Rat) → List (Option Rat) → List Rat
  | [], _, _ => []
  | x :: xs, los, his => clipBV x (los.headD none) (his.headD none) :: clipInputs xs los.tail his.tail

def dot : List Rat → List Rat → Rat
  | k :: ks, x :: xs => k * x + dot ks xs
  | _, _ => 0

/-- `Linear.call` for one unit and one example -/
def call (kernel : List Rat) (bias : Option Rat) (los his : List (Option Rat)) (x : List Rat) : Rat :=
  dot kernel (clipInputs x los his) + bias.getD 0

/-- masked `tf.maximum` / `tf.minimum` of `project` -/
def signClip : List Int → List Rat → List Rat
  | m :: ms, x :: xs =>
    (if m = 1 then max x 0 else if m = -1 then min x 0 else x) :: signClip ms xs
  | _, xs => xs

def swapPairs (cs : Pairs) : Pairs := cs.map (fun c => (c.2, c.1))

/-- `dim in range_dims`: the dimension occurs in some range-dominance pair -/
def inPairs (rd : Pairs) (k : Nat) : Bool := rd.any (fun c => c.1 == k || c.2 == k)

/-- `scalings` of the range-dominance step of `project` (linear_lib.py:93-103), from dimension `k`
on: `±1` by the monotonicity, times `input_max - input_min` ONLY for the dimensions that take part
in a range dominance (fix 44c9e89) and have both bounds; every other dimension keeps `±1`. -/
def scalingsFrom (rd : Pairs) : Nat → List Int → List (Option Rat) → List (Option Rat) → List Rat
  | _, [], _, _ => []
  | k, m :: ms, los, his =>
    let s : Rat := if m = -1 then -1 else 1
    let r : Rat := if inPairs rd k then
        (match los.headD none, his.headD none with
          | some l, some h => h - l
          | _, _ => 1)
      else 1
    s * r :: scalingsFrom rd (k + 1) ms los.tail his.tail

def scalings (monos : List Int) (rd : Pairs) (los his : List (Option Rat)) : List Rat :=
  scalingsFrom rd 0 monos los his

/-- `scalings` of `assert_constraints` (linear_lib.py:180-183, untouched by 44c9e89): EVERY dimension
with both bounds is scaled by its range. On the dimensions of the range-dominance pairs — the only
entries `assert_constraints` reads — it agrees with `scalings` (`scalings_eq_all`, Lemmas/LinearEval). -/
def scalingsAll : List Int → List (Option Rat) → List (Option Rat) → List Rat
  | [], _, _ => []
  | m :: ms, los, his =>
    let s : Rat := if m = -1 then -1 else 1
    let r : Rat := match los.headD none, his.headD none with
      | some l, some h => h - l
      | _, _ => 1
    s * r :: scalingsAll ms los.tail his.tail

def mulV (a b : List Rat) : List Rat := List.zipWith (· * ·) a b
def divV (a b : List Rat) : List Rat := List.zipWith (· / ·) a b

inductive NormOrd | none | l1 | l2 | linf deriving DecidableEq, Repr

def norm1 (w : List Rat) : Rat := rsum (w.map Rat.abs)
def normInf (w : List Rat) : Rat := rmax 0 (w.map Rat.abs)
def normSq (w : List Rat) : Rat := rsum (w.map (fun x => x * x))

/-- `_NORMALIZATION_EPS = 1e-8` -/
def normEps : Rat := 1 / 100000000

/-- everything in `project` before the normalisation step -/
def projectPre (monos : List Int) (monoDom rangeDom : Pairs) (los his : List (Option Rat))
    (w : List Rat) : Except Err (List Rat) := do
  let w1 := signClip monos w
  let w2 ← if monoDom.isEmpty then pure w1 else approxProject (swapPairs monoDom) w1
  if rangeDom.isEmpty then pure w2
  else
    let sc := scalings monos rangeDom los his
    let w3 ← approxProject (swapPairs rangeDom) (mulV w2 sc)
    pure (divV w3 sc)

/-- normalisation for the rational orders (1 and inf); order 2 needs a square root and is
compared by the harness through `normSq` of `projectPre`. -/
def normalize (ord : NormOrd) (w : List Rat) : List Rat :=
  match ord with
  | .l1 => let n := norm1 w; let n' := if n < normEps then 1 else n; w.map (· / n')
  | .linf => let n := normInf w; let n' := if n < normEps then 1 else n; w.map (· / n')
  | _ => w

/-- the guard `tf.norm(w, ord=2) < _NORMALIZATION_EPS` of the order-2 normalisation decided WITHOUT a
root: `√s < ε ⇔ s < ε²` for `s ≥ 0`, `ε > 0` (`Tfl.C06.l2Skips_iff`, Props/C06Compose.lean). The
order-2 normalised column itself, `w / √(normSq w)`, is irrational in general and is not computed by
the model: `normalize .l2` returns the column as it is and the claims about the real result are
proved for every positive scaling factor (ℚ) and for the factor `√(normSq w)` over ℝ. -/
def l2Skips (w : List Rat) : Bool := decide (normSq w < normEps * normEps)

def project (monos : List Int) (monoDom rangeDom : Pairs) (los his : List (Option Rat))
    (ord : NormOrd) (w : List Rat) : Except Err (List Rat) :=
  (projectPre monos monoDom rangeDom los his w).map (normalize ord)

end Tfl.Linear
