import TflModel.Model.Core
import TflModel.Model.Linear
import TflModel.Model.Ensembles
import TflModel.Model.PwlEval
import TflModel.Model.Categorical
import TflModel.Model.LatticeEval
import TflModel.Model.Lattice
import TflModel.Model.Kfl
import TflModel.Model.Verify
/-!
# Premade models (C03) — builder decision logic, abstract composite, histories (Mathlib-free)

Anchors: `premade.py` (the three constructors), `premade_lib.py:145-173` (`_output_range`),
`202-288` (`build_multi_unit_calibration_layers`), `291-357` (`build_calibration_layers`),
`441-468` (`_monotonicities_from_feature_configs`, `_dominance_constraints_from_feature_configs`),
`482-651` (`build_linear_layer`, `build_lattice_layer`), `654-686`, `689-762` (`build_rtl_layer`),
`765-826`, `829-903` (`build_linear_combination_layer`, `build_output_calibration_layer`),
`1591-1824` (`verify_config`), `rtl_layer.py:377-428,509-628`.

* `buildSpec : ModelConfig → Except Err LayerGraph` is the DECISION LOGIC of the builders as data:
  which layers exist, their hyper-parameters, and which calibrator unit feeds which axis.
  A feature is identified by its position in `feature_configs`.
* Randomness is an explicit argument: `'random'` lattices are turned into explicit ones by
  `set_random_lattice_ensemble` before construction (C17); the two shuffles of
  `RTL._get_rtl_structure` are the permutations `perm1`, `perm2` (as in `Tfl.Ensembles`).
* `forward` is the ABSTRACT composite: every calibrator / lattice / output calibrator is an
  arbitrary function (`Fns`), linear layers are concrete kernels evaluated by `Tfl.Linear.call`;
  they are composed according to the `LayerGraph`.
* `runHistory` is a training history: a list of ARBITRARY updates of all weights, each followed
  by the per-variable constraint.
* `realise g P w` is the CONCRETE composite: the weights `w` of every variable of the model (one
  `CalW` per calibrator unit, one `BlkW` per lattice / KFL unit, the kernels of the `Linear` layers, the
  output calibrator) are turned into `Fns` with the layer evaluation models of C02 / C05 / C07 / C20;
  `forward g (realise g P w)` is the function the driver evaluates (`pm.forward`) and the check
  compares with the real premade model, AND the function the `System` of `Props/C03System.lean`
  speaks about.
* `layersAccept g P` collects what the layer constructors (`verify_hyperparameters` of every layer
  the builders create) check beyond `verify_config`; `trapClass` is the restriction H_trap of C01.
-/
namespace Tfl.Premade
open Tfl

/-! ## configuration records: the fields the builders read -/

/-- the python type of a categorical `monotonicity` value: `list`, `tuple`, or any other iterable of
pairs (`set`, `dict` keys, …); the
calibrator builder tests `isinstance(…, (list, tuple))` (since f70b866; `list` only before).
`verify_config` accepted every iterable (`np.iterable`) before fix e8dafc0 and only `list` / `tuple`
since. -/
inductive PairsKind where
  | list | tuple | other
  deriving DecidableEq, Repr, Inhabited

/-- `FeatureConfig.monotonicity` as the builders see it.
* `none`  : `0` or the string `'none'` in any capitalisation; for a categorical feature also `None`,
  `[]`, `()` (a numeric feature with `None` is rejected by `PWLCalibration.__init__`: not modelled);
* `inc c` / `dec c` : a value `utils.canonicalize_monotonicity` maps to `1` / `-1`; `c` says that it
  is spelled exactly `1`, `-1`, `'increasing'`, `'decreasing'` rather than e.g. `'Increasing'` (only
  the model VARIANT of the RTL rule before fix defc941 reads `c`);
* `pairs ps k` : a NON-EMPTY iterable of category pairs of python type `k`. -/
inductive MonoSpec where
  | none
  | inc (canon : Bool)
  | dec (canon : Bool)
  | pairs (ps : List (Nat × Nat)) (k : PairsKind)
  deriving DecidableEq, Repr, Inhabited

/-- `tfl.configs.FeatureConfig`, the fields read by `premade_lib` builders -/
structure Feature where
  /-- `num_buckets` (`0` = `None` = numeric feature) -/
  numBuckets : Nat := 0
  mono : MonoSpec := .none
  latticeSize : Nat := 2
  /-- `default_value` -/
  default : Option Rat := none
  /-- `pwl_calibration_always_monotonic` -/
  alwaysMono : Bool := false
  /-- `pwl_calibration_convexity` (canonical -1/0/1) -/
  convexity : Int := 0
  clampMin : Bool := false
  clampMax : Bool := false
  /-- `len(pwl_calibration_input_keypoints)` -/
  numKeypoints : Nat := 2
  /-- `pwl_calibration_input_keypoints_type == 'learned_interior'` -/
  learned : Bool := false
  /-- `unimodality` (canonical -1/0/1) -/
  unimodality : Int := 0
  /-- `reflects_trust_in`: `(main feature, trust_type == 'trapezoid', direction)` -/
  trusts : List (Nat × Bool × Int) := []
  /-- `dominates`: weak features (`dominance_type == 'monotonic'`) -/
  dominates : List Nat := []
  deriving DecidableEq, Repr, Inhabited

inductive Kind where
  | linear | lattice | ensemble
  deriving DecidableEq, Repr, Inhabited

/-- `CalibratedLinearConfig` / `CalibratedLatticeConfig` / `CalibratedLatticeEnsembleConfig` -/
structure ModelConfig where
  kind : Kind
  features : List Feature
  outMin : Option Rat := none
  outMax : Option Rat := none
  /-- `output_calibration` -/
  outCalib : Bool := false
  /-- `len(output_initialization)` (number of keypoints of the output calibrator) -/
  outInitLen : Nat := 2
  useBias : Bool := false
  /-- `parameterization == 'kronecker_factored'` -/
  kfl : Bool := false
  numTerms : Nat := 2
  /-- `interpolation == 'simplex'` -/
  simplex : Bool := false
  /-- `lattices == 'rtl_layer'` (otherwise `lattices` is the explicit list of lists) -/
  rtl : Bool := false
  lattices : List (List Nat) := []
  numLattices : Nat := 0
  latticeRank : Nat := 0
  separateCalibrators : Bool := true
  useLinearCombination : Bool := false
  /-- the two shuffles `RandomState(random_seed)` draws in `RTL._get_rtl_structure` -/
  perm1 : List Nat := []
  perm2 : List Nat := []
  deriving Repr, Inhabited

/-! ## the layer graph -/

/-- one `PWLCalibration` / `CategoricalCalibration` layer (all its units) -/
structure Calibrator where
  feature : Nat
  categorical : Bool
  units : Nat
  /-- PWL `monotonicity` (-1/0/1); 0 for categorical -/
  mono : Int
  /-- categorical `monotonicities` (`[]` = `None`) -/
  pairs : List (Nat × Nat)
  numBuckets : Nat
  numKeypoints : Nat
  outMin : Option Rat
  outMax : Option Rat
  clampMin : Bool
  clampMax : Bool
  convexity : Int
  /-- `missing_input_value` (PWL, with `impute_missing = True`) / `default_input_value` (categorical) -/
  missing : Option Rat
  learned : Bool
  deriving DecidableEq, Repr, Inhabited

inductive BlockKind where
  | lattice | kfl | linear
  deriving DecidableEq, Repr, Inhabited

/-- one `Lattice` / `KroneckerFactoredLattice` unit, or the `Linear` layer of a calibrated linear
model: `inputs[d]` = (feature, calibrator unit) wired to axis `d`. -/
structure Block where
  kind : BlockKind
  inputs : List (Nat × Nat)
  /-- lattice sizes per axis (`[]` for linear) -/
  sizes : List Nat := []
  /-- `monotonicities` per axis, 0/1 (linear: 1 = weight constrained to be ≥ 0) -/
  monos : List Nat
  unimod : List Int := []
  edgeworth : List (Nat × Nat × Int) := []
  trapezoid : List (Nat × Nat × Int) := []
  dominances : List (Nat × Nat) := []
  outMin : Option Rat := none
  outMax : Option Rat := none
  /-- linear: `normalization_order = 1` -/
  normalized : Bool := false
  useBias : Bool := false
  numTerms : Nat := 0
  simplex : Bool := false
  deriving DecidableEq, Repr, Inhabited

inductive Combine where
  /-- the single block is the output -/
  | single
  /-- `keras.layers.Average` / `RTL(average_outputs=True)` -/
  | average
  /-- `build_linear_combination_layer`: all-increasing `Linear`, `normalization_order = 1` iff `normalized` -/
  | linear (normalized useBias : Bool)
  deriving DecidableEq, Repr, Inhabited

/-- `build_output_calibration_layer`: increasing PWL on `linspace(0, 1, numKeypoints)` -/
structure OutCal where
  numKeypoints : Nat
  outMin : Option Rat
  outMax : Option Rat
  deriving DecidableEq, Repr, Inhabited

structure LayerGraph where
  calibrators : List Calibrator
  blocks : List Block
  /-- the blocks are the lattices of one `tfl.layers.RTL` -/
  rtl : Bool
  combine : Combine
  outCal : Option OutCal
  deriving DecidableEq, Repr, Inhabited

/-! ## builder decision logic -/

def featAt (c : ModelConfig) (i : Nat) : Feature := c.features.getD i default

/-- python truthiness of `monotonicity` (`'none'` is handled by the callers' second test) -/
def MonoSpec.truthy : MonoSpec → Bool
  | .none => false
  | .pairs ps _ => !ps.isEmpty
  | _ => true

/-- `_monotonicities_from_feature_configs`: 0 for falsy / `'none'`, else 1 -/
def axisMono (m : MonoSpec) : Nat := if m.truthy then 1 else 0

/-- `utils.canonicalize_monotonicity(feature_config.monotonicity)` for a numeric feature; anything
that is not -1/0/1 or one of the three strings raises `ValueError` -/
def MonoSpec.canonical : MonoSpec → Except Err Int
  | .none => .ok 0
  | .inc _ => .ok 1
  | .dec _ => .ok (-1)
  | .pairs _ _ => .error .valueError

/-- `build_rtl_layer` (since fix defc941): the feature is filed under `'increasing'` iff
`_monotonicities_from_feature_configs([feature_config])[0]` is 1 — the rule of every other builder. -/
def rtlIncreasing (f : Feature) : Bool := f.mono.truthy

/-- the rule between fixes b13cb79 and defc941 (finding F-C03-d):
`monotonicity in [1, -1, 'increasing', 'decreasing'] or (num_buckets and isinstance(monotonicity,
list) and monotonicity)` -/
def rtlIncreasingLiteral (f : Feature) : Bool :=
  match f.mono with
  | .inc c => c
  | .dec c => c
  | .pairs ps k => f.numBuckets != 0 && k == .list && !ps.isEmpty
  | .none => false

/-- the rule before fix b13cb79 (finding F-C03-c) -/
def rtlIncreasingOld (f : Feature) : Bool :=
  match f.mono with
  | .inc c => c
  | .dec c => c
  | _ => false

/-- which python types of a pairs value the calibrator builder honours:
`isinstance(feature_config.monotonicity, (list, tuple))` (since fix f70b866) -/
def pairsHonoured (k : PairsKind) : Bool := k != .other
/-- before fix f70b866 (finding F-C03-e): `isinstance(feature_config.monotonicity, list)` -/
def pairsHonouredOld (k : PairsKind) : Bool := k == .list

/-- `monotonicities=` of the categorical calibrator, with the type test as a parameter -/
def calPairsWith (honoured : PairsKind → Bool) (m : MonoSpec) : List (Nat × Nat) :=
  match m with
  | .pairs ps k => if honoured k then ps else []
  | _ => []
def calPairs (m : MonoSpec) : List (Nat × Nat) := calPairsWith pairsHonoured m

inductive Range where
  | toLattice | modelOutput | toFinalCalibration
  deriving DecidableEq, Repr

/-- `_output_range` (`output_min`, `output_max`; the init range is not modelled) -/
def outputRange (r : Range) (c : ModelConfig) (f : Feature) : Option Rat × Option Rat :=
  match r with
  | .toLattice => (some 0, some ((f.latticeSize : Rat) - 1))
  | .modelOutput => (c.outMin, c.outMax)
  | .toFinalCalibration => (some 0, some 1)

/-- the range the layer in front of the (optional) output calibrator must produce -/
def finalRange (c : ModelConfig) : Range := if c.outCalib then .toFinalCalibration else .modelOutput

/-- one iteration of the loop of `build_multi_unit_calibration_layers` -/
def mkCalibrator (c : ModelConfig) (r : Range) (i units : Nat) : Except Err Calibrator :=
  let f := featAt c i
  if units = 0 then .error .valueError
  else
    let rg := outputRange r c f
    if f.numBuckets != 0 then
      .ok { feature := i, categorical := true, units := units, mono := 0,
            pairs := calPairs f.mono,
            numBuckets := f.numBuckets, numKeypoints := 0, outMin := rg.1, outMax := rg.2,
            clampMin := false, clampMax := false, convexity := 0, missing := f.default,
            learned := false }
    else
      match f.mono.canonical with
      | .error e => .error e
      | .ok m =>
        .ok { feature := i, categorical := false, units := units,
              mono := if m = 0 ∧ f.alwaysMono = true then 1 else m,
              pairs := [], numBuckets := 0, numKeypoints := f.numKeypoints,
              outMin := rg.1, outMax := rg.2, clampMin := f.clampMin, clampMax := f.clampMax,
              convexity := f.convexity, missing := f.default, learned := f.learned }

/-- `calibration_output_idx` of every submodel input (`build_calibration_layers`): with separate
calibrators the running number of earlier uses of the feature, else 0. `seen` = features used so far. -/
def unitsRow (sep : Bool) : List Nat → List Nat → List Nat
  | _, [] => []
  | seen, f :: fs => (if sep then seen.count f else 0) :: unitsRow sep (f :: seen) fs

def assignUnits (sep : Bool) : List Nat → List (List Nat) → List (List (Nat × Nat))
  | _, [] => []
  | seen, l :: ls => l.zip (unitsRow sep seen l) :: assignUnits sep (l.reverse ++ seen) ls

/-- features in order of first use (keys of `calibration_last_index`) -/
def usedFeatures (ls : List (List Nat)) : List Nat := ls.flatten.eraseDups

/-- insertion sort (the calibrators are listed by feature index; structural recursion, so that the
kernel can evaluate `buildSpec` on closed configs) -/
def insertNat (x : Nat) : List Nat → List Nat
  | [] => [x]
  | y :: ys => if x ≤ y then x :: y :: ys else y :: insertNat x ys
def sortNat : List Nat → List Nat
  | [] => []
  | x :: xs => insertNat x (sortNat xs)

/-- `calibration_output_units` of `build_calibration_layers` -/
def explicitUnits (sep : Bool) (ls : List (List Nat)) (f : Nat) : Nat :=
  max (if sep then ls.flatten.count f else 0) 1

/-- position of the first occurrence (`list.index`) -/
def indexOf? (l : List Nat) (x : Nat) : Option Nat :=
  let i := l.idxOf x
  if i < l.length then some i else none

/-- trust constraints of `build_lattice_layer` for the lattice over features `fs` -/
def trustsOf (c : ModelConfig) (fs : List Nat) (trap : Bool) : List (Nat × Nat × Int) :=
  fs.zipIdx.flatMap fun p =>
    (featAt c p.1).trusts.filterMap fun t =>
      if t.2.1 = trap then (indexOf? fs t.1).map (fun m => (m, p.2, t.2.2)) else none

/-- `_dominance_constraints_from_feature_configs` -/
def dominancesOf (c : ModelConfig) (fs : List Nat) : List (Nat × Nat) :=
  fs.zipIdx.flatMap fun p =>
    (featAt c p.1).dominates.filterMap fun w => (indexOf? fs w).map (fun k => (p.2, k))

/-- `build_lattice_layer` on the submodel inputs `ins` -/
def mkLattice (c : ModelConfig) (ins : List (Nat × Nat)) : Block :=
  let fs := ins.map (·.1)
  let rg := outputRange (finalRange c) c default
  let monos := ins.map (fun p => axisMono (featAt c p.1).mono)
  if c.kfl then
    { kind := .kfl, inputs := ins,
      sizes := ins.map (fun _ => (featAt c (fs.headD 0)).latticeSize),
      monos := monos, outMin := rg.1, outMax := rg.2, numTerms := c.numTerms }
  else
    { kind := .lattice, inputs := ins,
      sizes := ins.map (fun p => (featAt c p.1).latticeSize),
      monos := monos,
      unimod := ins.map (fun p => (featAt c p.1).unimodality),
      edgeworth := trustsOf c fs false, trapezoid := trustsOf c fs true,
      dominances := dominancesOf c fs, outMin := rg.1, outMax := rg.2, simplex := c.simplex }

/-- `weighted_average` of `CalibratedLinear.__init__` -/
def weightedAverage (c : ModelConfig) : Bool := c.outMin.isSome || c.outMax.isSome || c.outCalib

/-- `build_linear_layer` -/
def mkLinear (c : ModelConfig) (ins : List (Nat × Nat)) : Block :=
  let fs := ins.map (·.1)
  if weightedAverage c then
    { kind := .linear, inputs := ins, monos := ins.map (fun _ => 1), dominances := dominancesOf c fs,
      normalized := true, useBias := false }
  else
    { kind := .linear, inputs := ins, monos := ins.map (fun p => axisMono (featAt c p.1).mono),
      dominances := dominancesOf c fs, normalized := false, useBias := c.useBias }

/-- `build_output_calibration_layer` -/
def mkOutCal (c : ModelConfig) : Option OutCal :=
  if c.outCalib then some ⟨c.outInitLen, c.outMin, c.outMax⟩ else none

/-! ### `verify_config` (the parts that depend on the modelled fields) -/

def sameLatticeSizes (c : ModelConfig) : Bool :=
  c.features.all (fun f => f.latticeSize == (featAt c 0).latticeSize)
def noShapeExtras (c : ModelConfig) : Bool :=
  c.features.all (fun f => f.unimodality == 0 && f.trusts.isEmpty && f.dominates.isEmpty)

/-- `_verify_feature_config` for a categorical feature (since fix e8dafc0): a truthy non-`'none'`
monotonicity must be a `list` or `tuple` of iterables of bucket indices (an `int`, a string, a
`set`, … raise `ValueError`) -/
def verifyFeature (f : Feature) : Bool :=
  if f.numBuckets = 0 then true
  else match f.mono with
    | .none => true
    | .pairs ps k => ps.isEmpty || (k != .other && ps.all (fun p => p.1 < f.numBuckets && p.2 < f.numBuckets))
    | _ => false

/-- the check before fix e8dafc0 (finding F-C03-f): any iterable (`np.iterable`) was accepted -/
def verifyFeatureOld (f : Feature) : Bool :=
  if f.numBuckets = 0 then true
  else match f.mono with
    | .none => true
    | .pairs ps _ => ps.all (fun p => p.1 < f.numBuckets && p.2 < f.numBuckets)
    | _ => false

def verifyConfig (c : ModelConfig) : Except Err Unit :=
  if c.kind = .ensemble ∧ c.rtl = true ∧
      (c.numLattices < 2 ∨ sameLatticeSizes c = false ∨ noShapeExtras c = false) then .error .valueError
  else if c.kind = .ensemble ∧ c.rtl = false ∧ c.lattices.length < 2 then .error .valueError
  else if c.kind = .ensemble ∧ c.rtl = false ∧
      c.lattices.all (fun l => l.all (fun f => f < c.features.length)) = false then
    -- a lattice names a feature without `FeatureConfig`: `calibration_input_layer[name]` raises KeyError
    .error .other
  else if (c.kind = .ensemble ∨ c.kind = .lattice) ∧ c.kfl = true ∧
      (sameLatticeSizes c = false ∨ noShapeExtras c = false) then .error .valueError
  else if c.features.all verifyFeature = false then .error .valueError
  else .ok ()

/-! ### RTL -/

/-- `units` of `build_calibrated_lattice_ensemble_layer` for the RTL branch -/
def rtlUnits (c : ModelConfig) (i : Nat) : Nat :=
  if c.separateCalibrators then
    let n := c.features.length
    let tot := c.numLattices * c.latticeRank
    (i + 1) * tot / n - i * tot / n
  else 1

/-- features of one RTL input key, in `feature_configs` order -/
def rtlKey (c : ModelConfig) (rule : Feature → Bool) (inc : Bool) : List Nat :=
  (List.range c.features.length).filter (fun i => rule (featAt c i) == inc)

/-- flattened RTL input: `'increasing'` tensors, then `'unconstrained'`; one column per unit -/
def rtlFlat (c : ModelConfig) (rule : Feature → Bool) : List (Nat × Nat) :=
  (rtlKey c rule true ++ rtlKey c rule false).flatMap
    (fun i => (List.range (rtlUnits c i)).map (fun u => (i, u)))

/-- one lattice unit of the RTL layer: input indices `lat`, monotonicities `monos` -/
def mkRtlBlock (c : ModelConfig) (flat : List (Nat × Nat)) (monos lat : List Nat) : Block :=
  let rg := outputRange (finalRange c) c default
  { kind := if c.kfl then .kfl else .lattice,
    inputs := lat.map (fun i => flat.getD i default),
    sizes := lat.map (fun _ => (featAt c 0).latticeSize),
    monos := monos, outMin := rg.1, outMax := rg.2,
    numTerms := if c.kfl then c.numTerms else 0, simplex := !c.kfl && c.simplex }

/-- `build_rtl_layer` + `RTL.build` with the filing rule `rule` -/
def rtlBlocksWith (rule : Feature → Bool) (c : ModelConfig) : Except Err (List Block) :=
  let inc := (rtlKey c rule true).map (rtlUnits c)
  let unc := (rtlKey c rule false).map (rtlUnits c)
  match Ensembles.rtlStructure inc unc c.numLattices c.latticeRank true c.perm1 c.perm2 with
  | .error e => .error e
  | .ok (s, _) => .ok (s.flatMap fun g => g.2.map (mkRtlBlock c (rtlFlat c rule) g.1))

/-! ### the three constructors -/

def mapMExcept {α β} (f : α → Except Err β) : List α → Except Err (List β)
  | [] => .ok []
  | a :: as => match f a with
    | .error e => .error e
    | .ok b => match mapMExcept f as with
      | .error e => .error e
      | .ok bs => .ok (b :: bs)

/-- `build_linear_combination_layer`: `normalization_order = 1` unless there is neither output
calibration nor an output bound; a bias is then rejected -/
def mkCombine (c : ModelConfig) : Except Err Combine :=
  if c.useLinearCombination then
    let norm := c.outCalib || c.outMin.isSome || c.outMax.isSome
    if norm ∧ c.useBias = true then .error .valueError else .ok (.linear norm c.useBias)
  else .ok .average

/-- `buildSpec` with the RTL filing rule as a parameter (the current code uses `rtlIncreasing`) -/
def buildSpecWith (rule : Feature → Bool) (c : ModelConfig) : Except Err LayerGraph :=
  match verifyConfig c with
  | .error e => .error e
  | .ok () =>
    let all := List.range c.features.length
    match c.kind with
    | .lattice =>
      match mapMExcept (fun i => mkCalibrator c .toLattice i 1) all with
      | .error e => .error e
      | .ok cals =>
        .ok { calibrators := cals, blocks := [mkLattice c (all.map (fun i => (i, 0)))], rtl := false,
              combine := .single, outCal := mkOutCal c }
    | .linear =>
      match mapMExcept (fun i => mkCalibrator c (finalRange c) i 1) all with
      | .error e => .error e
      | .ok cals =>
        .ok { calibrators := cals, blocks := [mkLinear c (all.map (fun i => (i, 0)))], rtl := false,
              combine := .single, outCal := mkOutCal c }
    | .ensemble =>
      if c.rtl then
        match mapMExcept (fun i => mkCalibrator c .toLattice i (rtlUnits c i)) all with
        | .error e => .error e
        | .ok cals =>
          match rtlBlocksWith rule c with
          | .error e => .error e
          | .ok bs =>
            match mkCombine c with
            | .error e => .error e
            | .ok cb => .ok { calibrators := cals, blocks := bs, rtl := true, combine := cb, outCal := mkOutCal c }
      else
        let used := sortNat (usedFeatures c.lattices)
        match mapMExcept (fun i => mkCalibrator c .toLattice i
            (explicitUnits c.separateCalibrators c.lattices i)) used with
        | .error e => .error e
        | .ok cals =>
          match mkCombine c with
          | .error e => .error e
          | .ok cb =>
            .ok { calibrators := cals,
                  blocks := (assignUnits c.separateCalibrators [] c.lattices).map (mkLattice c),
                  rtl := false, combine := cb, outCal := mkOutCal c }

/-- **the builder decision logic of the current code** -/
def buildSpec (c : ModelConfig) : Except Err LayerGraph := buildSpecWith rtlIncreasing c

/-- model VARIANT with the RTL rule before fix b13cb79 (finding F-C03-c) -/
def buildSpecOld (c : ModelConfig) : Except Err LayerGraph := buildSpecWith rtlIncreasingOld c

/-- model VARIANT with the RTL rule between b13cb79 and defc941 (finding F-C03-d) -/
def buildSpecLiteral (c : ModelConfig) : Except Err LayerGraph := buildSpecWith rtlIncreasingLiteral c

/-! ## the abstract composite -/

/-- what the current weights realise: every calibrator unit, lattice unit and the output
calibrator is an arbitrary function; linear layers are their kernels. -/
structure Fns where
  /-- feature, calibrator unit, raw input ↦ calibrated value -/
  cal : Nat → Nat → Rat → Rat
  /-- block index, calibrated inputs ↦ lattice output -/
  lat : Nat → List Rat → Rat
  /-- kernel / bias of the `Linear` layer of a calibrated linear model -/
  linW : List Rat
  linB : Rat
  /-- kernel / bias of the linear-combination layer -/
  combW : List Rat
  combB : Rat
  /-- output calibrator -/
  out : Rat → Rat

def calInputs (F : Fns) (x : List Rat) (ins : List (Nat × Nat)) : List Rat :=
  ins.map (fun p => F.cal p.1 p.2 (x.getD p.1 0))

def blockOut (F : Fns) (x : List Rat) (i : Nat) (b : Block) : Rat :=
  match b.kind with
  | .linear => Linear.call F.linW (if b.useBias then some F.linB else none) [] [] (calInputs F x b.inputs)
  | _ => F.lat i (calInputs F x b.inputs)

def blockOutsFrom (F : Fns) (x : List Rat) : Nat → List Block → List Rat
  | _, [] => []
  | i, b :: bs => blockOut F x i b :: blockOutsFrom F x (i + 1) bs

def combineOut (g : LayerGraph) (F : Fns) (ys : List Rat) : Rat :=
  match g.combine with
  | .single => ys.headD 0
  | .average => rsum ys / (ys.length : Rat)
  | .linear _ ub => Linear.call F.combW (if ub then some F.combB else none) [] [] ys

/-- the model function: `x[i]` is the raw input of feature `i` -/
def forward (g : LayerGraph) (F : Fns) (x : List Rat) : Rat :=
  let y := combineOut g F (blockOutsFrom F x 0 g.blocks)
  match g.outCal with
  | none => y
  | some _ => F.out y

/-! ## histories -/

/-- apply every variable's constraint -/
def constrain {V : Type} {S : V → Type} (c : ∀ v, S v → S v) (w : ∀ v, S v) : ∀ v, S v :=
  fun v => c v (w v)

/-- a training history: ARBITRARY updates of all weights, each followed by the constraints -/
def runHistory {V : Type} {S : V → Type} (c : ∀ v, S v → S v) (w0 : ∀ v, S v)
    (h : List ((∀ v, S v) → (∀ v, S v))) : ∀ v, S v :=
  h.foldl (fun w u => constrain c (u w)) w0

/-! ## the concrete composite: weights as data, realised with the layer evaluation models -/

/-- values of the configuration that no builder DECISION depends on -/
structure Params where
  /-- `pwl_calibration_input_keypoints` by feature index (`[]` for a categorical feature) -/
  kps : List (List Rat) := []
  deriving Repr, Inhabited

def Params.kpsOf (P : Params) (f : Nat) : List Rat := P.kps.getD f []

/-- the trainable state of ONE calibrator unit: `kernel` = one column of `pwl_calibration_kernel`
(bias, then the heights) resp. of `categorical_calibration_kernel`; `ws` = the unit's row of
`softmax(interpolation_logits)` (learned interior keypoints only); `missingOut` = its entry of
`missing_output`. -/
structure CalW where
  kernel : List Rat := []
  ws : List Rat := []
  missingOut : Rat := 0
  deriving Repr, Inhabited

/-- the trainable state of ONE lattice unit: all-vertices kernel column (as a table) or the
Kronecker-factored kernel / scale and the bias (trained only when the layer has no output bound). -/
structure BlkW where
  table : Table := []
  kfl : Kfl.State := ⟨[], []⟩
  bias : Rat := 0
  deriving Inhabited

/-- kernel column and bias of a `Linear` layer -/
structure LinW where
  w : List Rat := []
  b : Rat := 0
  deriving Repr, Inhabited

/-- the variables of a model: calibrator unit `u` of feature `f`; lattice unit `j` (position in
`blocks`); the `Linear` layer of a calibrated linear model; the linear-combination layer; the output
calibrator. -/
inductive Var where
  | cal (f u : Nat)
  | blk (j : Nat)
  | lin
  | comb
  | out
  deriving DecidableEq, Repr

def Var.S : Var → Type
  | .cal _ _ => CalW
  | .blk _ => BlkW
  | .lin => LinW
  | .comb => LinW
  | .out => CalW

/-- a value for every variable -/
abbrev Assign := ∀ v : Var, v.S

/-- the function a PWL calibrator unit realises (`PWLCalibration.call` without `is_missing` tensor) -/
def pwlFn (cfgE : PwlEval.Cfg) (kernel ws : List Rat) (mo x : Rat) : Rat :=
  match PwlEval.call cfgE kernel ws mo x none with
  | .ok v => v
  | .error _ => 0

/-- the function a categorical calibrator unit with kernel `k` realises; categories and the default
value are integers given as rationals -/
def catFn (k : List Rat) (dflt : Option Rat) (x : Rat) : Rat := Categorical.call k (dflt.map Rat.num) x.num

/-- evaluation configuration of the `PWLCalibration` layer the builders create for calibrator `c` -/
def pwlCfg (c : Calibrator) (kps : List Rat) : PwlEval.Cfg :=
  ⟨kps, c.learned, false, c.missing.isSome, c.missing⟩

/-- `np.linspace(0, 1, n)`: the input keypoints of the output calibrator -/
def linspace01 (n : Nat) : List Rat := (List.range n).map (fun (i : Nat) => (i : Rat) / ((n : Rat) - 1))

/-- evaluation configuration of the output calibrator -/
def outCfg (oc : OutCal) : PwlEval.Cfg := ⟨linspace01 oc.numKeypoints, false, false, false, none⟩

def calFn (P : Params) (c : Calibrator) (s : CalW) (x : Rat) : Rat :=
  if c.categorical then catFn s.kernel c.missing x
  else pwlFn (pwlCfg c (P.kpsOf c.feature)) s.kernel s.ws s.missingOut x

/-- the calibrator of feature `f` (the builders create one per used feature) -/
def calOf (g : LayerGraph) (f : Nat) : Calibrator :=
  (g.calibrators.find? (fun c => c.feature == f)).getD default

/-- the all-vertices kernel column in the layout of the evaluation model -/
def latKernel (sizes : List Nat) (t : Table) : List Rat := (allIdx sizes).map t.get

/-- the bias of a Kronecker-factored unit: fixed by the bounds when there is one, trained otherwise -/
def kflBias (b : Block) (s : BlkW) : Rat :=
  if b.outMin.isSome || b.outMax.isSome then Kfl.fixedBias b.outMin b.outMax else s.bias

/-- the value of an evaluation that cannot fail on the inputs the property speaks about -/
def okOr0 (r : Except Err Rat) : Rat :=
  match r with
  | .ok v => v
  | .error _ => 0

/-- the function a lattice / KFL unit realises (`clip_inputs = False`, as all builders set it) -/
def blkFn (b : Block) (s : BlkW) (z : List Rat) : Rat :=
  match b.kind with
  | .lattice =>
    if b.simplex then okOr0 (LatticeEval.evalSimplex false b.sizes (latKernel b.sizes s.table) z)
    else LatticeEval.hypercubeValue .list false b.sizes (latKernel b.sizes s.table) z
  | .kfl => Kfl.eval (b.sizes.headD 0) false s.kfl.K s.kfl.scale (kflBias b s) z
  | .linear => 0

/-- **the concrete composite**: the layer functions of a weight assignment -/
def realise (g : LayerGraph) (P : Params) (w : Assign) : Fns where
  cal := fun f u x => calFn P (calOf g f) (w (.cal f u)) x
  lat := fun j z => match g.blocks[j]? with
    | some b => blkFn b (w (.blk j)) z
    | none => 0
  linW := (w .lin).w
  linB := (w .lin).b
  combW := (w .comb).w
  combB := (w .comb).b
  out := fun y => match g.outCal with
    | some oc => pwlFn (outCfg oc) (w .out).kernel (w .out).ws (w .out).missingOut y
    | none => y

/-! ### what the layer constructors check (beyond `verify_config`) -/

/-- `(main, conditional, direction)` as the projection model reads it -/
def trustOf (t : Nat × Nat × Int) : Lat.Trust := ⟨t.1, t.2.1, t.2.2 == 1⟩

/-- the configuration of `LatticeConstraints` of an all-vertices block -/
def latCfgOf (b : Block) : Lat.Cfg :=
  { sizes := b.sizes, mono := b.monos.map (fun m => m == 1), edgeworth := b.edgeworth.map trustOf,
    trapezoid := b.trapezoid.map trustOf, lo := b.outMin, hi := b.outMax }

def strictIncrB : List Rat → Bool
  | a :: b :: t => decide (a < b) && strictIncrB (b :: t)
  | _ => true

/-- `output_min ≤ output_max` when both are given (PWL / categorical calibrators, KFL) -/
def boundsLeB (lo hi : Option Rat) : Bool :=
  match lo, hi with
  | some l, some h => decide (l ≤ h)
  | _, _ => true

/-- `output_min < output_max` when both are given (`Lattice`) -/
def boundsLtB (lo hi : Option Rat) : Bool :=
  match lo, hi with
  | some l, some h => decide (l < h)
  | _, _ => true

def pairwiseB {α} (r : α → α → Bool) : List α → Bool
  | [] => true
  | a :: l => l.all (r a) && pairwiseB r l

/-- two trusts do not interfere: neither's conditional axis is the other's main axis and they are
not on the same pair of axes -/
def compatB (a b : Lat.Trust) : Bool :=
  b.cond != a.main && b.main != a.cond && !(a.main == b.main && a.cond == b.cond)

/-- `PWLCalibration.__init__` / `verify_hyperparameters` for the calibrator of feature `c.feature` -/
def pwlAccept (P : Params) (c : Calibrator) : Bool :=
  (c.mono == 0 || c.mono == 1 || c.mono == -1) && (c.convexity == 0 || c.convexity == 1 || c.convexity == -1) &&
  c.pairs.isEmpty && decide (2 ≤ (P.kpsOf c.feature).length) && strictIncrB (P.kpsOf c.feature) &&
  boundsLeB c.outMin c.outMax

/-- `CategoricalCalibration.__init__`: at least one bucket, an acyclic set of pairs of bucket indices
(the round-based cycle check `Tfl.Verify.kahnAcyclic`), an integer default value -/
def catAccept (c : Calibrator) : Bool :=
  c.mono == 0 && decide (0 < c.numBuckets) &&
  c.pairs.all (fun p => decide (p.1 < c.numBuckets) && decide (p.2 < c.numBuckets)) &&
  Verify.kahnAcyclic c.pairs.length c.pairs &&
  (match c.missing with | some m => m.den == 1 | none => true) && boundsLeB c.outMin c.outMax

/-- `Lattice.__init__` / `lattice_lib.verify_hyperparameters`: sizes ≥ 2; every trust names two
different axes of the lattice and a monotone main axis; no axis is a main and a conditional axis;
two trusts on the same pair of axes have the same direction; `output_min < output_max`.
Beyond that: no Edgeworth pair is listed twice (a duplicated identical trust is accepted by the
real check; the C01 theorems do not cover it). -/
def latticeAccept (b : Block) : Bool :=
  let c := latCfgOf b
  let n := b.sizes.length
  !b.sizes.isEmpty && b.sizes.all (fun s => decide (2 ≤ s)) &&
  (c.edgeworth ++ c.trapezoid).all (fun t =>
    decide (t.main < n) && decide (t.cond < n) && t.main != t.cond && c.mono.getD t.main false) &&
  pairwiseB (fun x y => compatB x y && compatB y x) c.edgeworth &&
  c.trapezoid.all (fun x => c.trapezoid.all (fun y => y.cond != x.main)) &&
  c.trapezoid.all (fun t => c.edgeworth.all (fun e => e == t || compatB t e)) &&
  boundsLtB b.outMin b.outMax

/-- `KroneckerFactoredLattice.__init__`: one common lattice size ≥ 2, `output_min < output_max` -/
def kflAccept (b : Block) : Bool :=
  !b.sizes.isEmpty && decide (2 ≤ b.sizes.headD 0) && b.sizes.all (fun s => s == b.sizes.headD 0) &&
  boundsLtB b.outMin b.outMax

/-- `Linear.__init__`: monotonic dominance only between increasing inputs of the layer, no circular
dominances -/
def linearAccept (b : Block) : Bool :=
  b.dominances.all (fun p => b.monos.getD p.1 0 == 1 && b.monos.getD p.2 0 == 1 &&
    decide (p.1 < b.inputs.length) && decide (p.2 < b.inputs.length)) &&
  Verify.kahnAcyclic b.dominances.length b.dominances

def blockAccept (b : Block) : Bool :=
  match b.kind with
  | .lattice => latticeAccept b
  | .kfl => kflAccept b
  | .linear => linearAccept b

/-- **every layer the builders create for `g` is accepted by its constructor** -/
def layersAccept (g : LayerGraph) (P : Params) : Bool :=
  g.calibrators.all (fun c => if c.categorical then catAccept c else pwlAccept P c) &&
  g.blocks.all blockAccept &&
  (match g.outCal with
   | some oc => decide (2 ≤ oc.numKeypoints) && boundsLeB oc.outMin oc.outMax
   | none => true)

/-- trapezoid conditional axes are pairwise distinct (first half of H_trap; only demanded when
Edgeworth trusts are present) -/
def trapDistinct (b : Block) : Bool :=
  b.edgeworth.isEmpty || pairwiseB (fun x y : Lat.Trust => x.cond != y.cond) (latCfgOf b).trapezoid

/-- no trapezoid conditional axis is monotone (second half of H_trap; only demanded when Edgeworth
trusts are present and the lattice has a third axis). Its failure is the class of finding F-C01-a. -/
def trapCondFree (b : Block) : Bool :=
  b.edgeworth.isEmpty || b.sizes.length == 2 ||
    (latCfgOf b).trapezoid.all (fun t => !(latCfgOf b).mono.getD t.cond false)

/-- **H_trap (C01)** for every all-vertices block of the graph -/
def trapClass (g : LayerGraph) : Bool :=
  g.blocks.all (fun b => b.kind != .lattice || (trapDistinct b && trapCondFree b))

end Tfl.Premade
