import TflModel.Model.Core
/-!
# `lattice_lib.py`: lattice evaluation (one unit, one example) — Mathlib-free

* `evaluate_with_hypercube_interpolation` / `compute_interpolation_weights` /
  `batch_outer_operation` (lattice_lib.py:150-334),
* `evaluate_with_simplex_interpolation` (lattice_lib.py:32-147),
* `_clip_onto_lattice_range`, `_bucketize_consequtive_equal_dims` (lattice_lib.py:337-413).

The kernel of one unit is the flat row-major list `kernel` (the column `kernel[:, u]` of the
layer's `(prod(lattice_sizes), units)` weight); `x` is one input point (`inputs[b, (u,) :]`).
The proofs talk about `K : Idx → Rat` with `kernel = (allIdx sizes).map K`.
-/
namespace Tfl.LatticeEval
open Tfl

/-! ## 1-D pieces -/

def absR (z : Rat) : Rat := if z < 0 then -z else z
/-- `tf.clip_by_value(x, lo, hi) = min(max(x, lo), hi)` -/
def clipV (x lo hi : Rat) : Rat := min (max x lo) hi
/-- `1.0 - tf.minimum(tf.abs(x - keypoint_i), 1.0)` -/
def hat (i : Nat) (x : Rat) : Rat := 1 - min (absR (x - (i : Rat))) 1
/-- PWL ramp `clip(x - i, 0, 1)` — proof-side only (L1) -/
def ramp (i : Nat) (x : Rat) : Rat := max (min (x - (i : Rat)) 1) 0
/-- weights of one dimension of size `n`: `1 - min(|x - [0..n-1]|, 1)` -/
def oneD (n : Nat) (x : Rat) : List Rat := (List.range n).map (fun i => hat i x)

/-- `_clip_onto_lattice_range` (both the tensor and the list variant clip dimension `d` onto
`[0, size_d - 1]`). -/
def clipOntoRange (sizes : List Nat) (x : List Rat) : List Rat :=
  List.zipWith (fun (n : Nat) (xd : Rat) => clipV xd 0 ((n : Rat) - 1)) sizes x

/-! ## `_bucketize_consequtive_equal_dims` -/

/-- the `for i in range(1, len(lattice_sizes))` loop: `prev = lattice_sizes[i-1]`,
`cur = current_size`; emits `(bucket_size, bucket_dim_size)` in order. -/
def bucketLoop : Nat → Nat → List Nat → List (Nat × Nat)
  | prev, cur, [] => [(cur, prev)]
  | prev, cur, n :: ns =>
    if n ≠ prev then (cur, prev) :: bucketLoop n 1 ns else bucketLoop prev (cur + 1) ns
def bucketize : List Nat → List (Nat × Nat)
  | [] => []
  | n :: ns => bucketLoop n 1 ns
/-- `tf.split(inputs, num_or_size_splits=bucket_sizes, axis=-1)` -/
def splitBy : List Nat → List Rat → List (List Rat)
  | [], _ => []
  | b :: bs, x => x.take b :: splitBy bs (x.drop b)

/-- one bucket of the general path: a run of `bs` dims of size `ds` is interpolated with ONE
broadcast op and unstacked afterwards (`bucket_size > 1`), a single dim directly. -/
def bucketWeights (chunk : List Rat) (b : Nat × Nat) : List (List Rat) :=
  if b.1 > 1 then chunk.map (oneD b.2) else [oneD b.2 (chunk.headD 0)]

/-- general path, inputs given as ONE tensor (bucketised) -/
def generalWeightsTensor (sizes : List Nat) (x : List Rat) : List (List Rat) :=
  let bk := bucketize sizes
  ((splitBy (bk.map (·.1)) x).zip bk).flatMap (fun cb => bucketWeights cb.1 cb.2)
/-- general path, inputs given as a LIST of tensors (all buckets of size 1) -/
def generalWeightsList (sizes : List Nat) (x : List Rat) : List (List Rat) :=
  List.zipWith oneD sizes x
/-- special case `2^d` lattice, single tensor: `stack([1 - x, x])`, clipped to [0,1] iff
`clip_inputs` (NO clipping of the input itself, NO `min(distance, 1)`) -/
def fastWeights (clipOn : Bool) (x : List Rat) : List (List Rat) :=
  x.map (fun xd => if clipOn then [clipV (1 - xd) 0 1, clipV xd 0 1] else [1 - xd, xd])

/-! ## `batch_outer_operation` -/

/-- one step: `reshape(result[..., :, None] * tensor[..., None, :], [..., -1])` (row-major) -/
def outer2 (a b : List Rat) : List Rat := a.flatMap (fun u => b.map (fun v => u * v))
/-- left fold over the list of 1-D weight tensors (`tf.multiply` for the first steps, `tf.matmul`
afterwards: the same numbers) -/
def batchOuter : List (List Rat) → List Rat
  | [] => []
  | t :: ts => ts.foldl outer2 t

inductive InputForm where
  | tensor | list
  deriving DecidableEq, Repr

def allTwo (sizes : List Nat) : Bool := sizes.all (· == 2)

/-- the list of 1-D interpolation weight vectors `compute_interpolation_weights` builds -/
def oneDWeights (form : InputForm) (clipOn : Bool) (sizes : List Nat) (x : List Rat) :
    List (List Rat) :=
  if allTwo sizes && form == .tensor then fastWeights clipOn x
  else
    let x' := if clipOn then clipOntoRange sizes x else x
    match form with
    | .tensor => generalWeightsTensor sizes x'
    | .list => generalWeightsList sizes x'

/-- `compute_interpolation_weights` -/
def hypercubeWeights (form : InputForm) (clipOn : Bool) (sizes : List Nat) (x : List Rat) : List Rat :=
  batchOuter (oneDWeights form clipOn sizes x)

def dot (a b : List Rat) : Rat := rsum (List.zipWith (· * ·) a b)

/-- `verify_hyperparameters(lattice_sizes, input_shape)`: sizes ≥ 2, last input dim = rank -/
def verify (sizes : List Nat) (x : List Rat) : Bool :=
  sizes.all (fun n => decide (2 ≤ n)) && decide (x.length = sizes.length)

/-- value of `evaluate_with_hypercube_interpolation` for one unit and one example
(`tf.matmul(weights, kernel)` resp. `reduce_sum(weights * transpose(kernel))`). -/
def hypercubeValue (form : InputForm) (clipOn : Bool) (sizes : List Nat) (kernel x : List Rat) : Rat :=
  dot (hypercubeWeights form clipOn sizes x) kernel

def evalHypercube (form : InputForm) (clipOn : Bool) (sizes : List Nat) (kernel x : List Rat) :
    Except Err Rat :=
  if verify sizes x then .ok (hypercubeValue form clipOn sizes kernel x) else .error .valueError

/-! ## `evaluate_with_simplex_interpolation` -/

/-- `np.cumprod` -/
def cumprodFrom : Nat → List Nat → List Nat
  | _, [] => []
  | acc, n :: ns => (acc * n) :: cumprodFrom (acc * n) ns
/-- `np.cumprod([1] + lattice_sizes[::-1][:-1])[::-1]` -/
def stridesCode (sizes : List Nat) : List Nat :=
  (cumprodFrom 1 (1 :: sizes.reverse.dropLast)).reverse
/-- closed form: `stride_d = ∏_{e > d} size_e` -/
def prodNat : List Nat → Nat
  | [] => 1
  | n :: ns => n * prodNat ns
def strides : List Nat → List Nat
  | [] => []
  | _ :: ns => prodNat ns :: strides ns

/-- `tf.cast(x, tf.int32)`: truncation toward zero -/
def truncToInt (x : Rat) : Int := if x < 0 then -((-x).floor) else x.floor

/-- `lower_corner_coordinates = min(cast(inputs, int32), sizes - 2)` -/
def lowerCorner (sizes : List Nat) (x : List Rat) : List Int :=
  List.zipWith (fun (xd : Rat) (n : Nat) => min (truncToInt xd) ((n : Int) - 2)) x sizes
def isum : List Int → Int
  | [] => 0
  | a :: as => a + isum as
/-- `reduce_sum(lower_corner_coordinates * strides)` -/
def lowerOffset (st : List Nat) (lower : List Int) : Int :=
  isum (List.zipWith (fun (l : Int) (s : Nat) => l * (s : Int)) lower st)
def residual (x : List Rat) (lower : List Int) : List Rat :=
  List.zipWith (fun (xd : Rat) (l : Int) => xd - (l : Rat)) x lower

/-- stable descending sort of `(value, position)` pairs (`tf.argsort(direction="DESCENDING")`
= `top_k`: among equal values the lower position comes first) -/
def insertDesc (p : Rat × Nat) : List (Rat × Nat) → List (Rat × Nat)
  | [] => [p]
  | q :: qs => if p.1 < q.1 then q :: insertDesc p qs else p :: q :: qs
def sortDesc (l : List (Rat × Nat)) : List (Rat × Nat) := l.foldr insertDesc []

/-- `pad_left(sorted, 1) - pad_right(sorted, 0)` -/
def simplexWeights (sv : List Rat) : List Rat := List.zipWith (· - ·) (1 :: sv) (sv ++ [0])
/-- `tf.cumsum` -/
def cumsumFrom : Int → List Int → List Int
  | _, [] => []
  | acc, a :: as => (acc + a) :: cumsumFrom (acc + a) as
/-- `tf.gather(flat_kernel, i)`; an out-of-bounds index is an `InvalidArgumentError` on CPU -/
def gatherAt (flat : List Rat) (i : Int) : Except Err Rat :=
  if 0 ≤ i ∧ i.toNat < flat.length then .ok (flat.getD i.toNat 0) else .error .invalidArgument

/-- `(lower_corner_offset, residual inputs)`; for `2^d` lattices the floor step is skipped -/
def simplexSplit (sizes : List Nat) (x : List Rat) : Int × List Rat :=
  if allTwo sizes then (0, x)
  else
    let lower := lowerCorner sizes x
    (lowerOffset (stridesCode sizes) lower, residual x lower)

def evalSimplex (clipOn : Bool) (sizes : List Nat) (kernel x : List Rat) : Except Err Rat :=
  if verify sizes x then
    let x' := if clipOn then clipOntoRange sizes x else x
    let st := stridesCode sizes
    let (offset, resid) := simplexSplit sizes x'
    let sorted := sortDesc resid.zipIdx
    let weights := simplexWeights (sorted.map (·.1))
    let sortedStrides := sorted.map (fun p => ((st.getD p.2 0 : Nat) : Int))
    let indices := cumsumFrom 0 (offset :: sortedStrides)
    match indices.mapM (gatherAt kernel) with
    | .ok gathered => .ok (dot gathered weights)
    | .error e => .error e
  else .error .valueError

end Tfl.LatticeEval
