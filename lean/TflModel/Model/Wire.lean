import TflModel.Model.Core
/-! Line protocol: tokens separated by spaces; scalars `n/d` or `n`; lists comma-separated
(`_` = empty list); lists of lists separated by `;`. -/
namespace Tfl.Wire
open Tfl

def parseRat (s : String) : Option Rat :=
  match s.splitOn "/" with
  | [n] => n.toInt?.map (fun k => (k : Rat))
  | [n, d] => do
    let a ← n.toInt?
    let b ← d.toNat?
    if b = 0 then none else some ((a : Rat) / (b : Rat))
  | _ => none
def showRat (r : Rat) : String := if r.den = 1 then s!"{r.num}" else s!"{r.num}/{r.den}"

def parseList {α} (p : String → Option α) (s : String) : Option (List α) :=
  if s = "_" then some [] else (s.splitOn ",").mapM p
def parseList2 {α} (p : String → Option α) (s : String) : Option (List (List α)) :=
  if s = "_" then some [] else (s.splitOn ";").mapM (parseList p)
def parseNats := parseList (fun s => s.toNat?)
def parseInts := parseList (fun s => s.toInt?)
def parseRats := parseList parseRat
def parseOptRat (s : String) : Option (Option Rat) :=
  if s = "none" then some none else (parseRat s).map some
def parseBool (s : String) : Option Bool :=
  if s = "1" then some true else if s = "0" then some false else none

def showRats (l : List Rat) : String := if l.isEmpty then "_" else ",".intercalate (l.map showRat)
def showNats (l : List Nat) : String := if l.isEmpty then "_" else ",".intercalate (l.map toString)
def showInts (l : List Int) : String := if l.isEmpty then "_" else ",".intercalate (l.map toString)
def showRats2 (l : List (List Rat)) : String := if l.isEmpty then "_" else ";".intercalate (l.map showRats)
def showNats2 (l : List (List Nat)) : String := if l.isEmpty then "_" else ";".intercalate (l.map showNats)
def showBool (b : Bool) : String := if b then "1" else "0"
def showErr : Err → String
  | .valueError => "ERR ValueError"
  | .typeError => "ERR TypeError"
  | .invalidArgument => "ERR InvalidArgument"
  | .other => "ERR Other"

/-- a handler maps the argument tokens of one op to a reply line; `none` = malformed op -/
abbrev Handler := List String → Option String

end Tfl.Wire
