import TflModel.Model.Core
import TflModel.Model.Kfl
/-!
# The library's own initialisers (C10), executable and Mathlib-free

* `lattice_lib.default_init_params`, `_linspace`, `linear_initializer`, `random_monotonic_initializer`
  (lattice_lib.py:416-616) — for ONE unit (the code tiles one column `units` times);
* `lattice_layer.create_kernel_initializer` (547-650): id → initialiser, joint unimodalities folded
  into the unimodality vector, `random_uniform` fallback;
* `pwl_calibration_lib.linear_initializer` (129-193) with the init bounds of `convert_all_constraints`;
* `kronecker_factored_lattice_lib.default_init_params / kfl_random_monotonic_initializer /
  scale_initializer / bias_initializer` (152-284).

Randomness is an explicit argument: the post-shuffle vertex list of every BFS level
(`np.random.shuffle(new_vertices)`), the uniform sample before sorting (`tf.random.uniform`).
Sorting (`tf.sort`) is code and is modelled (`isort`).
-/
namespace Tfl.Init
open Tfl

/-! ## sorting -/
def insertSorted (x : Rat) : List Rat → List Rat
  | [] => [x]
  | y :: ys => if x ≤ y then x :: y :: ys else y :: insertSorted x ys
/-- `tf.sort` (ascending) -/
def isort : List Rat → List Rat
  | [] => []
  | x :: xs => insertSorted x (isort xs)

/-! ## lattice_lib.default_init_params -/
def defaultInitParams (omin omax : Option Rat) : Rat × Rat :=
  match omin, omax with
  | some a, some b => (a, b)
  | some a, none => (a, max 1 a)          -- init_max = max(1.0, output_min)
  | none, some b => (min 0 b, b)          -- init_min = min(0.0, output_max)
  | none, none => (0, 1)

/-! ## lattice_lib._linspace / linear_initializer -/

/-- `[start + (stop - start) * i / (num - 1.0) for i in range(num)]`, `[start]` for `num == 1` -/
def linspace (start stop : Rat) (num : Nat) : List Rat :=
  if num = 1 then [start]
  else (List.range num).map (fun (i : Nat) => start + (stop - start) * (i : Rat) / ((num : Rat) - 1))

/-- `one_d` of one dimension -/
def oneD (mono : Bool) (unimod : Int) (dimRange : Rat) (size : Nat) : List Rat :=
  if mono then linspace 0 dimRange size
  else if unimod ≠ 0 then
    let half := (size + 1) / 2
    let decreasing := linspace dimRange 0 half
    let increasing := linspace 0 dimRange half
    if unimod = 1 then decreasing ++ increasing.drop (size % 2)
    else increasing ++ decreasing.drop (size % 2)
  else List.replicate size 0

/-- `utils.count_non_zeros(monotonicities, unimodalities)` -/
def countNonZeros (monos : List Bool) (unimods : List Int) : Nat :=
  (monos.filter id).length + (unimods.filter (· != 0)).length

/-- the monotonicity vector actually used: all ones when nothing is constrained -/
def effMonos (n : Nat) (monos : List Bool) (unimods : List Int) : List Bool :=
  if countNonZeros monos unimods = 0 then List.replicate n true else monos
def numConstraintDims (n : Nat) (monos : List Bool) (unimods : List Int) : Nat :=
  if countNonZeros monos unimods = 0 then n else countNonZeros monos unimods

/-- `dim_range = float(output_max - output_min) / num_constraint_dims` -/
def dimRange (n : Nat) (monos : List Bool) (unimods : List Int) (omin omax : Rat) : Rat :=
  (omax - omin) / (numConstraintDims n monos unimods : Rat)

/-- contribution of dimension `d` at coordinate `k` -/
def contrib (sizes : List Nat) (monos : List Bool) (unimods : List Int) (omin omax : Rat) (d k : Nat) : Rat :=
  getR (oneD ((effMonos sizes.length monos unimods).getD d false) (unimods.getD d 0)
    (dimRange sizes.length monos unimods omin omax) (sizes.getD d 0)) k

/-- `linear_initializer(lattice_sizes, output_min, output_max, monotonicities, unimodalities)`:
`batch_outer_operation(one_d_weights, operation=tf.add) + output_min` — the outer SUM over dimensions -/
def linearInit (sizes : List Nat) (monos : List Bool) (unimods : List Int) (omin omax : Rat) : W :=
  fun idx => rsum ((List.range sizes.length).map (fun d => contrib sizes monos unimods omin omax d (coord idx d))) + omin

def linearInitT (sizes : List Nat) (monos : List Bool) (unimods : List Int) (omin omax : Rat) : Table :=
  tabulate sizes (linearInit sizes monos unimods omin omax)

/-! ## lattice_lib.random_monotonic_initializer -/

def zeroIdx (sizes : List Nat) : Idx := sizes.map (fun _ => 0)

/-- the children of a vertex: one coordinate raised by one where the dimension allows it -/
def children (sizes : List Nat) (v : Idx) : List Idx :=
  (List.range sizes.length).filterMap (fun d =>
    if coord v d + 1 < sizes.getD d 0 then some (setc v d (coord v d + 1)) else none)

/-- `new_vertices_set` of one iteration of the while loop (as a duplicate-free list) -/
def nextLevel (sizes : List Nat) (last : List Idx) : List Idx := (last.flatMap (children sizes)).eraseDups

/-- the while loop. `perms` = what `np.random.shuffle` left in `new_vertices` in each iteration (the
iterations with a non-empty level); a list that is not a permutation of the level is rejected.
Returns the vertices in the order of their `parameter_index` (vertex 0 first). -/
def rmOrderLoop (sizes : List Nat) : Nat → List Idx → List (List Idx) → List Idx → Except Err (List Idx)
  | 0, _, _, _ => .error .other
  | fuel + 1, last, perms, acc =>
    let nl := nextLevel sizes last
    if nl.isEmpty then (if perms.isEmpty then .ok acc else .error .other)
    else
      match perms with
      | [] => .error .other
      | p :: ps => if p.isPerm nl then rmOrderLoop sizes fuel p ps (acc ++ p) else .error .other

def sumNat : List Nat → Nat
  | [] => 0
  | x :: xs => x + sumNat xs

def rmOrder (sizes : List Nat) (perms : List (List Idx)) : Except Err (List Idx) :=
  rmOrderLoop sizes (sumNat sizes + 2) [zeroIdx sizes] perms [zeroIdx sizes]

/-- `tf.gather(tf.sort(parameter_values), lattice_parameter_indices)` -/
def rmWeights (order : List Idx) (sample : List Rat) : W :=
  fun idx => getR (isort sample) (order.idxOf idx)

/-- `parameter_values` has `total_lattice_size` entries, one per vertex: a sample of another length
cannot come from the code (guard of the model, never taken on recorded draws) -/
def randomMonotonicInit (sizes : List Nat) (perms : List (List Idx)) (sample : List Rat) : Except Err W :=
  match rmOrder sizes perms with
  | .error e => .error e
  | .ok order => if order.length = sample.length then .ok (rmWeights order sample) else .error .invalidArgument

def randomMonotonicInitT (sizes : List Nat) (perms : List (List Idx)) (sample : List Rat) : Except Err Table :=
  (randomMonotonicInit sizes perms sample).map (fun w => tabulate sizes w)

/-! ## lattice_layer.create_kernel_initializer -/

inductive InitId | linear | randomMonotonic | randomUniformOrLinear | keras
  deriving DecidableEq, Repr

/-- what the factory returns -/
inductive Chosen
  | linear (monos : List Bool) (lo hi : Rat) (unimods : List Int)
  | randomMonotonic (lo hi : Rat)
  | kerasRandomUniform
  | keras
  deriving DecidableEq, Repr

def setAll (l : List Int) (dims : List Nat) (v : Int) : List Int := dims.foldl (fun acc d => acc.set d v) l

/-- `all_unimodalities`: the plain ones, then every joint group written over them -/
def allUnimodalities (n : Nat) (unimods : List Int) (joint : List (List Nat × Int)) : List Int :=
  let base := (List.range n).map (fun i => unimods.getD i 0)
  joint.foldl (fun acc g => setAll acc g.1 g.2) base

/-- `do_joint_unimodalities_contain_all_features` -/
def jointContainsAll (n : Nat) (joint : List (List Nat × Int)) : Bool :=
  match joint with
  | [g] => (List.range n).all (g.1.contains ·) && g.1.all (· < n)
  | _ => false

def createKernelInitializer (id : InitId) (n : Nat) (monos : List Bool) (omin omax : Option Rat)
    (unimods : List Int) (joint : List (List Nat × Int)) (initMin initMax : Option Rat) : Except Err Chosen :=
  if initMin.isSome != initMax.isSome then .error .valueError
  else
    let all := allUnimodalities n unimods joint
    let bounds : Rat × Rat := match initMin, initMax with
      | some a, some b => (a, b)
      | _, _ => defaultInitParams omin omax
    match id with
    | .linear => .ok (.linear monos bounds.1 bounds.2 all)
    | .randomMonotonic => .ok (.randomMonotonic bounds.1 bounds.2)
    | .randomUniformOrLinear =>
      if jointContainsAll n joint then .ok .kerasRandomUniform else .ok (.linear monos bounds.1 bounds.2 all)
    | .keras => .ok .keras

/-! ## pwl_calibration_lib.linear_initializer -/

/-- `keypoints[1:] - keypoints[:-1]` -/
def diffs : List Rat → List Rat
  | a :: b :: r => (b - a) :: diffs (b :: r)
  | _ => []

/-- `(bias, heights)` of one unit; `keypoints = none` is "equal heights", `some kp` "equal slopes" -/
def pwlLinearInit (numKeypoints : Nat) (omin omax : Rat) (mono : Int) (keypoints : Option (List Rat)) :
    Rat × List Rat :=
  let heights := match keypoints with
    | none =>
      let numPieces := numKeypoints - 1
      List.replicate numPieces ((omax - omin) / (numPieces : Rat))
    | some kp =>
      let lengths := diffs kp
      lengths.map (fun l => l * ((omax - omin) / rsum lengths))
  if mono = -1 then (omax, heights.map (fun h => -h)) else (omin, heights)

/-- the init bounds `PWLCalibration.__init__` takes from `convert_all_constraints`:
a missing bound is replaced by the other one, both missing give `(0, 0)` -/
def pwlInitBounds (omin omax : Option Rat) : Rat × Rat :=
  match omin, omax with
  | none, none => (0, 0)
  | none, some b => (b, b)
  | some a, none => (a, a)
  | some a, some b => (a, b)

/-! ## KFL -/

/-- `kfl_lib.default_init_params` -/
def kflDefaultInitParams (omin omax : Option Rat) : Rat × Rat :=
  match omin, omax with
  | none, none => (1/2, 3/2)
  | _, _ => (0, 1)

/-- one dimension of one `(unit, term)` block of `kfl_random_monotonic_initializer`:
`direction * weights`, sorted when monotone, `direction *` again -/
def kflInitDim (dir : Rat) (m : Bool) (sample : List Rat) : List Rat :=
  let v := sample.map (dir * ·)
  (if m then isort v else v).map (dir * ·)

/-- `kfl_random_monotonic_initializer` for one (unit, term): `samples` = the uniform draws, dims → vertices -/
def kflInitTerm (monos : List Bool) (s : Rat) (samples : List (List Rat)) : List (List Rat) :=
  if monos.any id then List.zipWith (kflInitDim (Tfl.Kfl.sgn s)) monos samples else samples

def kflInit (monos : List Bool) : List Rat → List (List (List Rat)) → List (List (List Rat))
  | s :: ss, smp :: rest => kflInitTerm monos s smp :: kflInit monos ss rest
  | _, _ => []

/-- `scale_initializer(units, num_terms, output_min, output_max)` for one unit -/
def scaleInit (numTerms : Nat) (omin omax : Option Rat) : List Rat :=
  match omin, omax with
  | some _, none => List.replicate numTerms 1
  | none, some _ => List.replicate numTerms (-1)
  | none, none => (List.range numTerms).map (fun t => if t % 2 = 0 then 1 else -1)
  | some lo, some hi => (List.range numTerms).map (fun t => (if t % 2 = 0 then 1 else -1) * ((hi - lo) / 2))

/-- `bias_initializer` is `Tfl.Kfl.fixedBias` -/
def biasInit (omin omax : Option Rat) : Rat := Tfl.Kfl.fixedBias omin omax

end Tfl.Init
