import TflModel.Model.Core
/-!
# Regularizers (C13)

* `lattice_lib.laplacian_regularizer` / `torsion_regularizer` (lattice_lib.py:2074-2242), wrapped by
  `lattice_layer.LaplacianRegularizer` / `TorsionRegularizer`;
* `pwl_calibration_layer.LaplacianRegularizer` / `HessianRegularizer` / `WrinkleRegularizer`
  (pwl_calibration_layer.py:815-1043).

Lattice tensors are functions on multi-indices.  `tf.transpose(weights, perm)` with `perm` obtained
from the identity by swapping two positions is modelled as the index map `swp` (the transposed
tensor at `a` is the weight at `swp .. a`); `tf.reshape(slices, [n, -1])` followed by the row
slices `[1:]`, `[0:-1]` is modelled as the box `(n-1) :: rest` of the difference tensor whose entry
`a` is `T (a + e_0) - T a`.  `reduce_sum` is `rsum` (order is irrelevant over `Rat`).

The only irrational operation is `math.sqrt` of a scalar torsion amount: the code stores
`[sqrt(a)] * rank` and multiplies `l[i] * l[j]`; over the reals that product is `a`, which is what
`TAmt.root` stands for (the harness compares with float tolerance).  `sqrt` of a negative scalar
raises `ValueError: math domain error`.
-/
namespace Tfl.Reg
open Tfl

def sumAbs (v : List Rat) : Rat := rsum (v.map Rat.abs)
def sumSq (v : List Rat) : Rat := rsum (v.map (fun x => x * x))

/-- swap entries `a` and `b` of an index / a shape
(`permut[a], permut[b] = permut[b], permut[a]` applied to the list). -/
def swp (a b : Nat) (l : List Nat) : List Nat := setc (setc l a (coord l b)) b (coord l a)

/-- a python regularization amount: a float or a list / tuple of floats -/
inductive Amt where
  | scalar (a : Rat)
  | perDim (l : List Rat)
  deriving Repr

/-- python truthiness (`if l1:` / `not l1`) -/
def Amt.truthy : Amt → Bool
  | .scalar a => a != 0
  | .perDim l => !l.isEmpty

/-! ## Lattice Laplacian -/

/-- lattice_lib.py:2120-2131. `none` = the amount is falsy (every later `if l1:` fails);
a scalar becomes `[l1] * rank`; with `units > 1` a `0.0` for the units axis is appended. -/
def lapAmounts (rank units : Nat) (a : Amt) : Option (List Rat) :=
  if a.truthy then
    let l := match a with
      | .scalar x => List.replicate rank x
      | .perDim l => l
    some (if units > 1 then l ++ [0] else l)
  else none

/-- `not l1 or not l1[dim]` -/
def amtZeroAt (a : Option (List Rat)) (d : Nat) : Bool :=
  match a with
  | none => true
  | some l => getR l d == 0

/-- the tensor `slices[1:] - slices[0:-1]` of lines 2138-2149, flattened: `slices` is `weights`
with axes `0` and `dim` swapped (not at all when `dim = 0`), reshaped to `[sizes[dim], -1]`. -/
def lapDiffs (sizes : List Nat) (d : Nat) (w : W) : List Rat :=
  let ps := if d > 0 then swp 0 d sizes else sizes
  let T : W := if d > 0 then fun a => w (swp 0 d a) else w
  let n := coord sizes d
  (allIdx ((n - 1) :: ps.drop 1)).map (fun a => T (setc a 0 (coord a 0 + 1)) - T a)

/-- body of the `for dim in range(rank)` loop, lines 2136-2153 -/
def lapStep (sizes : List Nat) (a1 a2 : Option (List Rat)) (w : W) (res : Rat) (d : Nat) : Rat :=
  if amtZeroAt a1 d && amtZeroAt a2 d then res
  else
    let diff := lapDiffs sizes d w
    let res := match a1 with
      | some l => res + sumAbs diff * getR l d
      | none => res
    match a2 with
      | some l => res + sumSq diff * getR l d
      | none => res

/-- the `for dim in range(rank)` loop, lines 2134-2154 -/
def lapCore (sizes : List Nat) (a1 a2 : Option (List Rat)) (w : W) : Rat :=
  (List.range sizes.length).foldl (lapStep sizes a1 a2 w) 0

/-- `laplacian_regularizer(weights, lattice_sizes, l1, l2)`; `w` is `weights` reshaped to
`lattice_sizes` (`units = 1`) or to `lattice_sizes + [units]`. -/
def laplacian (sizes : List Nat) (units : Nat) (l1 l2 : Amt) (w : W) : Rat :=
  if !l1.truthy && !l2.truthy then 0
  else
    let rank := sizes.length
    let a1 := lapAmounts rank units l1
    let a2 := lapAmounts rank units l2
    let sizes' := if units > 1 then sizes ++ [units] else sizes
    lapCore sizes' a1 a2 w

/-! ## Lattice torsion -/

/-- per-dimension torsion amounts after lines 2199-2210:
`root a r` = `[sqrt a] * r` followed (if at all) by `0.0`; `list l` = the given list (+ `[0.0]`). -/
inductive TAmt where
  | root (a : Rat) (r : Nat)
  | list (l : List Rat)
  deriving Repr

/-- `not l[i]` -/
def TAmt.zeroAt : TAmt → Nat → Bool
  | .root _ r, i => !(decide (i < r))
  | .list l, i => getR l i == 0

/-- `l[i] * l[j]` (exact real value) -/
def TAmt.pair : TAmt → Nat → Nat → Rat
  | .root a r, i, j => if i < r ∧ j < r then a else 0
  | .list l, i, j => getR l i * getR l j

def torAmounts (rank units : Nat) (a : Amt) : Except Err (Option TAmt) :=
  if a.truthy then
    match a with
    | .scalar x => if x < 0 then .error .valueError else .ok (some (.root x rank))
    | .perDim l => .ok (some (.list (if units > 1 then l ++ [0] else l)))
  else .ok none

def tamtZeroAt (a : Option TAmt) (i j : Nat) : Bool :=
  match a with
  | none => true
  | some t => t.zeroAt i || t.zeroAt j

/-- `a00 + a11 - a01 - a10` of lines 2219-2236, flattened: `planes` is `weights` with axes `0,i`
swapped and then axes `1,j` swapped in `permut` (nothing when `j = 1`), reshaped to
`[sizes[i], sizes[j], -1]`.  `tf.transpose(w, perm)[a] = w[b]` with `b[perm[k]] = a[k]`, i.e.
`b = swp 0 i (swp 1 j a)`, and the transposed shape is `swp 1 j (swp 0 i sizes)`. -/
def torTwists (sizes : List Nat) (i j : Nat) (w : W) : List Rat :=
  let ps := if j = 1 then sizes else swp 1 j (swp 0 i sizes)
  let T : W := if j = 1 then w else fun a => w (swp 0 i (swp 1 j a))
  let ni := coord sizes i
  let nj := coord sizes j
  (allIdx ((ni - 1) :: (nj - 1) :: ps.drop 2)).map (fun a =>
    let a10 := setc a 0 (coord a 0 + 1)
    let a01 := setc a 1 (coord a 1 + 1)
    let a11 := setc a10 1 (coord a 1 + 1)
    T a + T a11 - T a01 - T a10)

/-- body of the double loop for one pair `(i, j)` -/
def torStep (sizes : List Nat) (a1 a2 : Option TAmt) (w : W) (i : Nat) (res : Rat) (j : Nat) : Rat :=
  if tamtZeroAt a1 i j && tamtZeroAt a2 i j then res
  else
    let t := torTwists sizes i j w
    let res := match a1 with
      | some l => res + sumAbs t * l.pair i j
      | none => res
    match a2 with
      | some l => res + sumSq t * l.pair i j
      | none => res

/-- `for i in range(rank - 1): for j in range(i + 1, rank)`, lines 2213-2242 -/
def torCore (sizes : List Nat) (a1 a2 : Option TAmt) (w : W) : Rat :=
  let rank := sizes.length
  (List.range (rank - 1)).foldl (fun res i =>
    (List.range' (i + 1) (rank - (i + 1))).foldl (torStep sizes a1 a2 w i) res) 0

/-- `torsion_regularizer(weights, lattice_sizes, l1, l2)` -/
def torsion (sizes : List Nat) (units : Nat) (l1 l2 : Amt) (w : W) : Except Err Rat :=
  let rank := sizes.length
  if rank == 1 || (!l1.truthy && !l2.truthy) then .ok 0
  else do
    let a1 ← torAmounts rank units l1
    let a2 ← torAmounts rank units l2
    let sizes' := if units > 1 then sizes ++ [units] else sizes
    pure (torCore sizes' a1 a2 w)

/-! ## Documented sums (the specification side of T1) -/

def absSq (l1 l2 x : Rat) : Rat := l1 * Rat.abs x + l2 * (x * x)

/-- `Σ_d Σ_{idx : idx_d + 1 < size_d} l1_d |w(idx + e_d) - w idx| + l2_d (w(idx + e_d) - w idx)^2` -/
def lapSpec (sizes : List Nat) (l1 l2 : List Rat) (w : W) : Rat :=
  rsum ((List.range sizes.length).map (fun d =>
    rsum (((allIdx sizes).filter (fun idx => coord idx d + 1 < coord sizes d)).map (fun idx =>
      absSq (getR l1 d) (getR l2 d) (w (setc idx d (coord idx d + 1)) - w idx)))))

/-- the 2x2 twist of `w` at `idx` in the plane `(d, d')` -/
def twist (w : W) (d d' : Nat) (idx : Idx) : Rat :=
  let i10 := setc idx d (coord idx d + 1)
  let i01 := setc idx d' (coord idx d' + 1)
  let i11 := setc i10 d' (coord idx d' + 1)
  w idx + w i11 - w i01 - w i10

/-- `Σ_{d < d'} Σ_{idx : idx_d + 1 < size_d, idx_d' + 1 < size_d'} p1 d d' |twist| + p2 d d' twist^2` -/
def torSpec (sizes : List Nat) (p1 p2 : Nat → Nat → Rat) (w : W) : Rat :=
  let rank := sizes.length
  rsum ((List.range (rank - 1)).map (fun d =>
    rsum ((List.range' (d + 1) (rank - (d + 1))).map (fun d' =>
      rsum (((allIdx sizes).filter (fun idx =>
          coord idx d + 1 < coord sizes d ∧ coord idx d' + 1 < coord sizes d')).map (fun idx =>
        absSq (p1 d d') (p2 d d') (twist w d d' idx)))))))

/-! ## PWL calibration regularizers (one kernel column = bias :: heights) -/

/-- `heights[1:] - heights[:-1]` -/
def diffs (v : List Rat) : List Rat := List.zipWith (fun a b => a - b) (v.drop 1) v.dropLast

/-- the `losses` list logic shared by the three `__call__`s -/
def combine (l1 l2 : Rat) (v : List Rat) : Rat :=
  let losses := (if l1 != 0 then [l1 * sumAbs v] else []) ++ (if l2 != 0 then [l2 * sumSq v] else [])
  match losses with
  | [a] => a
  | [a, b] => a + b
  | _ => 0

/-- `heights` of `LaplacianRegularizer.__call__` for one column -/
def pwlLapTerms (cyc : Bool) (x : List Rat) : List Rat :=
  let h := x.drop 1
  if cyc then h ++ [-(rsum h)] else h

/-- `nonlinearity` of `HessianRegularizer.__call__`; `x[2:] - x[1:-1]` is `diffs (x[1:])` -/
def pwlHessTerms (cyc : Bool) (x : List Rat) : List Rat :=
  let h := x.drop 1
  if cyc then diffs (h ++ [-(rsum h)] ++ h.take 1) else diffs h

/-- `wrinkleness` of `WrinkleRegularizer.__call__` (`[]` = the early `return 0` for < 3 rows) -/
def pwlWrinkleTerms (cyc : Bool) (x : List Rat) : List Rat :=
  if x.length < 3 then []
  else
    let h := x.drop 1
    let nonlin := if cyc then diffs (h ++ [-(rsum h)] ++ h.take 1 ++ (h.drop 1).take 1) else diffs h
    diffs nonlin

/-- a regularizer on a `(rows, units)` kernel given by its columns: `reduce_sum` runs over all
entries of the term matrix. -/
def pwlReg (terms : List Rat → List Rat) (l1 l2 : Rat) (cols : List (List Rat)) : Rat :=
  if l1 == 0 && l2 == 0 then 0 else combine l1 l2 (cols.flatMap terms)

def pwlLaplacian (l1 l2 : Rat) (cyc : Bool) := pwlReg (pwlLapTerms cyc) l1 l2
def pwlHessian (l1 l2 : Rat) (cyc : Bool) := pwlReg (pwlHessTerms cyc) l1 l2
def pwlWrinkle (l1 l2 : Rat) (cyc : Bool) := pwlReg (pwlWrinkleTerms cyc) l1 l2

/-- keypoint outputs of a column: `out_j = bias + h_1 + ... + h_j` -/
def cumFrom (acc : Rat) : List Rat → List Rat
  | [] => [acc]
  | h :: hs => acc :: cumFrom (acc + h) hs
def outs : List Rat → List Rat
  | [] => []
  | b :: hs => cumFrom b hs

/-- documented penalty: `l1 * ||Δ^m out||_1 + l2 * ||Δ^m out||_2^2`; when cyclic the outputs are
continued periodically by `m` points (`out_k = out_0`, ...), which yields the wrap-around terms. -/
def iterDiffs : Nat → List Rat → List Rat
  | 0, v => v
  | m + 1, v => iterDiffs m (diffs v)
def pwlSpecTerms (m : Nat) (cyc : Bool) (x : List Rat) : List Rat :=
  let o := outs x
  iterDiffs m (if cyc then o ++ o.take m else o)
def pwlSpec (m : Nat) (l1 l2 : Rat) (cyc : Bool) (cols : List (List Rat)) : Rat :=
  l1 * sumAbs (cols.flatMap (pwlSpecTerms m cyc)) + l2 * sumSq (cols.flatMap (pwlSpecTerms m cyc))

/-! ## PWL regularizers on the `(rows, units)` kernel the way the code handles it: a list of ROWS

The three `__call__`s slice ROWS (`x[1:]`, `heights[0:1]`, `heights[1:] - heights[:-1]`), append the row
`-tf.reduce_sum(heights, axis=0, keepdims=True)` (one wrap-around height PER COLUMN) when cyclic, and
`reduce_sum` over all entries.  `pwlReg` above works column by column; `Lemmas/RegRows.lean` proves both
readings equal for every rectangular kernel (`pwl_*_rows_eq_columns` in `Props/C13Exact.lean`), and the driver evaluates both. -/

/-- `r - s` of two rows -/
def rowSub (r s : List Rat) : List Rat := List.zipWith (fun a b => a - b) r s
/-- `tf.reduce_sum(m, axis=0, keepdims=True)` of a matrix with `units` columns: entry `u` is the sum over
the rows of their entry `u` -/
def colSums (units : Nat) (m : List (List Rat)) : List Rat :=
  (List.range units).map (fun u => rsum (m.map (fun r => getR r u)))
/-- `m[1:] - m[:-1]` -/
def rowDiffs (m : List (List Rat)) : List (List Rat) := List.zipWith rowSub (m.drop 1) m.dropLast
/-- the wrap-around row `-tf.reduce_sum(heights, axis=0, keepdims=True)` -/
def wrapRow (units : Nat) (h : List (List Rat)) : List Rat := (colSums units h).map (fun a => -a)

/-- `heights` of `LaplacianRegularizer.__call__` -/
def lapRows (cyc : Bool) (units : Nat) (x : List (List Rat)) : List (List Rat) :=
  let h := x.drop 1
  if cyc then h ++ [wrapRow units h] else h
/-- `nonlinearity` of `HessianRegularizer.__call__` (`x[2:] - x[1:-1]` is `rowDiffs (x[1:])`) -/
def hessRows (cyc : Bool) (units : Nat) (x : List (List Rat)) : List (List Rat) :=
  let h := x.drop 1
  if cyc then rowDiffs (h ++ [wrapRow units h] ++ h.take 1) else rowDiffs h
/-- `wrinkleness` of `WrinkleRegularizer.__call__` (`[]` = the early `return 0` for `x.shape[0] < 3`) -/
def wrinkleRows (cyc : Bool) (units : Nat) (x : List (List Rat)) : List (List Rat) :=
  if x.length < 3 then []
  else
    let h := x.drop 1
    let nonlin := if cyc then rowDiffs (h ++ [wrapRow units h] ++ h.take 1 ++ (h.drop 1).take 1) else rowDiffs h
    rowDiffs nonlin
/-- the `losses` logic on a term MATRIX: `reduce_sum` over all its entries -/
def pwlRegRows (l1 l2 : Rat) (t : List (List Rat)) : Rat :=
  if l1 == 0 && l2 == 0 then 0 else combine l1 l2 t.flatten
def pwlLaplacianRows (l1 l2 : Rat) (cyc : Bool) (units : Nat) (x : List (List Rat)) : Rat :=
  pwlRegRows l1 l2 (lapRows cyc units x)
def pwlHessianRows (l1 l2 : Rat) (cyc : Bool) (units : Nat) (x : List (List Rat)) : Rat :=
  pwlRegRows l1 l2 (hessRows cyc units x)
def pwlWrinkleRows (l1 l2 : Rat) (cyc : Bool) (units : Nat) (x : List (List Rat)) : Rat :=
  pwlRegRows l1 l2 (wrinkleRows cyc units x)
/-- column `u` of a matrix given by its rows, and all `units` columns -/
def column (u : Nat) (m : List (List Rat)) : List Rat := m.map (fun r => getR r u)
def columns (units : Nat) (m : List (List Rat)) : List (List Rat) := (List.range units).map (fun u => column u m)

end Tfl.Reg
