import TflModel.Model.Core
/-!
# Keypoint computation (C18) — executable model, Mathlib-free

`premade_lib.compute_keypoints` (1392-1486) with `_weighted_quantile` (1357-1389) over exact
rationals.  `np.unique` = sort + de-duplicate; `np.quantile(method='nearest')` takes the order
statistic `np.around((n-1)·q)` (NumPy `_QuantileMethods['nearest']`), `np.around`/`np.rint`
round to nearest, ties to even.

Float rounding can move a value that is an exact tie `m + 1/2` in exact arithmetic to either
side, so the rounding direction AT AN EXACT TIE is an explicit argument (`dirs`, per quantile
position: `0` = ties-to-even, `1` = up, `-1` = down); theorems quantify over all directions.
-/
namespace Tfl.Keypoints
open Tfl

inductive Mode where
  | quantiles | uniform
  deriving DecidableEq, Repr

inductive Reduce where
  | mean | sum
  deriving DecidableEq, Repr

/-- fractional part is exactly one half -/
def isTie (x : Rat) : Bool := x - (x.floor : Rat) = 1 / 2

/-- round to nearest; an exact tie goes up (`d = 1`), down (`d = -1`) or to even (otherwise) -/
def roundDir (d : Int) (x : Rat) : Int :=
  let f := x.floor
  let r := x - (f : Rat)
  if r < 1 / 2 then f
  else if 1 / 2 < r then f + 1
  else if d = 1 then f + 1
  else if d = -1 then f
  else if f % 2 = 0 then f else f + 1

/-- insert into a strictly increasing list, dropping duplicates -/
def insertU (x : Rat) : List Rat → List Rat
  | [] => [x]
  | y :: ys => if x < y then x :: y :: ys else if x = y then y :: ys else y :: insertU x ys

/-- `np.unique(values)`: sorted distinct values -/
def unique (l : List Rat) : List Rat := l.foldr insertU []

/-- `(value, Σ weights, count)` entries, strictly increasing in the value -/
def insertW (x w : Rat) : List (Rat × Rat × Nat) → List (Rat × Rat × Nat)
  | [] => [(x, w, 1)]
  | e :: es =>
    if x < e.1 then (x, w, 1) :: e :: es
    else if x = e.1 then (e.1, e.2.1 + w, e.2.2 + 1) :: es
    else e :: insertW x w es

/-- `np.argsort` + `np.unique(return_index, return_counts)` + `np.add.reduceat` -/
def uniqueW (vw : List (Rat × Rat)) : List (Rat × Rat × Nat) :=
  vw.foldr (fun p acc => insertW p.1 p.2 acc) []

/-- `np.linspace(a, b, k)` -/
def linspace (a b : Rat) (k : Nat) : List Rat :=
  if k = 1 then [a] else (List.range k).map fun (i : Nat) => a + (i : Rat) * (b - a) / ((k : Rat) - 1)

/-- cumulative sums -/
def cumsum : Rat → List Rat → List Rat
  | _, [] => []
  | acc, w :: ws => (acc + w) :: cumsum (acc + w) ws

/-- last index `j` with `xp[j] ≤ x` (what `np.interp`'s binary search returns on a
non-decreasing `xp`) -/
def lastLe (xp : List Rat) (x : Rat) : Option Nat :=
  (xp.zipIdx).foldl (fun acc p => if p.1 ≤ x then some p.2 else acc) none

/-- `np.interp(x, xp, arange(len(xp)))` -/
def interpIdx (xp : List Rat) (x : Rat) : Rat :=
  match lastLe xp x with
  | none => 0
  | some j =>
    if xp.length ≤ j + 1 then (j : Rat)
    else
      let a := xp.getD j 0
      let b := xp.getD (j + 1) 0
      if a = x then (j : Rat) else (j : Rat) + (x - a) / (b - a)

/-- the first unused in-range index in the order of
`itertools.product(range(1, n), [-1, 1])` around `v` -/
def findCand (n : Nat) (used : List Int) (v : Int) : Option Int :=
  ((List.range (n - 1)).flatMap fun (d : Nat) => [v - ((d : Int) + 1), v + ((d : Int) + 1)]).find?
    (fun c => decide (0 ≤ c) && decide (c < (n : Int)) && !used.contains c)

/-- the repair loop: a position that is not the first use of its index takes the nearest
unused index. `seen` = indices of the positions already passed, `used` = `used_idx`. -/
def repair (n : Nat) : List Int → List Int → List Int → List Int
  | _, _, [] => []
  | seen, used, v :: vs =>
    if seen.contains v then
      match findCand n used v with
      | some c => c :: repair n seen (c :: used) vs
      | none => v :: repair n seen used vs
    else v :: repair n (v :: seen) used vs

/-- sort of an integer list (`np.sort`) -/
def insertI (x : Int) : List Int → List Int
  | [] => [x]
  | y :: ys => if x ≤ y then x :: y :: ys else y :: insertI x ys
def sortI (l : List Int) : List Int := l.foldr insertI []

/-- python/numpy indexing `a[i]` with negative wrap-around; out of range = IndexError -/
def pyIndex (vals : List Rat) (i : Int) : Except Err Rat :=
  let n : Int := vals.length
  let j := if i < 0 then i + n else i
  if 0 ≤ j ∧ j < n then .ok (vals.getD j.toNat 0) else .error .other

/-- rounded quantile indices of `_weighted_quantile`: `np.rint(np.interp(...))` -/
def weightedIdx (ws qs : List Rat) (dirs : List Int) : List Int :=
  let s := rsum ws
  let wq := (List.zipWith (fun c w => (c - w / 2) / s) (cumsum 0 ws) ws)
  (qs.zipIdx).map fun p => roundDir (dirs.getD p.2 0) (interpIdx wq p.1)

/-- `quantiles_idx[0] = 0; quantiles_idx[-1] = len(sorted_values) - 1`: the extreme quantiles
are the extreme values whatever the zero-weight plateaus of the grid did -/
def forceEnds (n : Nat) (idx : List Int) : List Int := (idx.set 0 0).set (idx.length - 1) ((n : Int) - 1)

/-- `set(unique_idx)`: the distinct indices (in order of first use), given those already `seen` -/
def firstUses : List Int → List Int → List Int
  | _, [] => []
  | seen, v :: vs => if seen.contains v then firstUses seen vs else v :: firstUses (v :: seen) vs

/-- `_weighted_quantile(sorted_values, quantiles, weights)`. With all weights zero the grid is
`0/0`: every interpolated index is NaN cast to `INT_MIN`; only the two forced ends are usable, so
more than two quantiles end in `IndexError`. -/
def weightedQuantile (vals ws qs : List Rat) (dirs : List Int) : Except Err (List Rat) :=
  if vals.length < qs.length then .error .valueError
  else if rsum ws = 0 ∧ 2 < qs.length then .error .other
  else
    let idx0 := forceEnds vals.length (weightedIdx ws qs dirs)
    let idx := sortI (repair vals.length [] (firstUses [] idx0) idx0)
    idx.mapM (pyIndex vals)

/-- `np.linspace(0., 1., k)` -/
def quantileGrid (k : Nat) : List Rat := linspace 0 1 k

/-- indices of `np.quantile(sorted_values, quantiles, method='nearest')` -/
def nearestIdx (n : Nat) (qs : List Rat) (dirs : List Int) : List Int :=
  (qs.zipIdx).map fun p => roundDir (dirs.getD p.2 0) (((n : Rat) - 1) * p.1)

/-- the values entering de-duplication: default removal, clipping, sentinels with zero weight -/
def prepare (values : List Rat) (weights : Option (List Rat)) (clipMin clipMax dflt : Option Rat) :
    List (Rat × Rat) :=
  let ws := match weights with | some w => w | none => values.map (fun _ => 1)
  let vw0 := (values.zip ws).filter (fun p => dflt ≠ some p.1)
  let vw1 := match clipMin with
    | some c => vw0.map (fun p => (max p.1 c, p.2)) ++ [(c, 0)]
    | none => vw0
  match clipMax with
    | some c => vw1.map (fun p => (min p.1 c, p.2)) ++ [(c, 0)]
    | none => vw1

/-- `compute_keypoints(values, num_keypoints, keypoints, clip_min, clip_max, default_value,
weights, weight_reduction)`; `values` / `weights` are what `np.asarray` makes of an array or a
Python list (fix e275cfc). One weight per value is assumed: a weight vector of another length is an
`IndexError` in `weights[non_default_idx]`, outside C18's quantifier (`prepare` zips). -/
def computeKeypoints (values : List Rat) (k : Nat) (mode : Mode) (clipMin clipMax dflt : Option Rat)
    (weights : Option (List Rat)) (red : Reduce) (dirs : List Int) : Except Err (List Rat) :=
  let vw := prepare values weights clipMin clipMax dflt
  let sorted := unique (vw.map (·.1))
  match mode with
  | .quantiles =>
    if sorted.length < k then .ok sorted
    else match weights with
      | none => (nearestIdx sorted.length (quantileGrid k) dirs).mapM (pyIndex sorted)
      | some _ =>
        let u := uniqueW vw
        let ws := u.map fun e => match red with
          | .sum => e.2.1
          | .mean => e.2.1 / (e.2.2 : Rat)
        weightedQuantile sorted ws (quantileGrid k) dirs
  | .uniform =>
    match sorted with
    | [] => .error .other  -- `sorted_values[0]`: IndexError
    | a :: rest => .ok (linspace a ((a :: rest).getLast?.getD a) k)

/-- quantile positions whose virtual index is an exact tie (reported by the driver) -/
def tiePositions (values : List Rat) (k : Nat) (clipMin clipMax dflt : Option Rat)
    (weights : Option (List Rat)) (red : Reduce) : List Nat :=
  let vw := prepare values weights clipMin clipMax dflt
  let sorted := unique (vw.map (·.1))
  if sorted.length < k then []
  else
    let qs := quantileGrid k
    let virt : List Rat := match weights with
      | none => qs.map fun q => ((sorted.length : Rat) - 1) * q
      | some _ =>
        let u := uniqueW vw
        let ws := u.map fun e => match red with
          | .sum => e.2.1
          | .mean => e.2.1 / (e.2.2 : Rat)
        let s := rsum ws
        if s = 0 then [] else
        let wq := (List.zipWith (fun c w => (c - w / 2) / s) (cumsum 0 ws) ws)
        qs.map (interpIdx wq)
    (virt.zipIdx).filterMap fun p =>
      -- the weighted path overwrites the first and last index: ties there are immaterial
      if isTie p.1 && (weights.isNone || (0 < p.2 && p.2 + 1 < k)) then some p.2 else none

/-- does a quantile hit a plateau of the weighted-quantile grid (two equal consecutive `xp`,
i.e. consecutive zero weights)? `np.interp` is discontinuous there, so float rounding of the
grid decides the index: such cases are float-fragile. -/
def plateauHit (values : List Rat) (k : Nat) (clipMin clipMax dflt : Option Rat)
    (weights : List Rat) (red : Reduce) : Bool :=
  let vw := prepare values (some weights) clipMin clipMax dflt
  let u := uniqueW vw
  let ws := u.map fun e => match red with
    | .sum => e.2.1
    | .mean => e.2.1 / (e.2.2 : Rat)
  let s := rsum ws
  if s = 0 then false else
  let wq := (List.zipWith (fun c w => (c - w / 2) / s) (cumsum 0 ws) ws)
  -- only interior quantiles matter: the first and last index are forced
  ((quantileGrid k).drop 1).dropLast.any fun q => (wq.zip (wq.drop 1)).any fun p => p.1 = p.2 && p.1 = q

/-! ## the feature / label keypoint helpers (premade_lib.py:1496-1588)

`compute_feature_keypoints`, `set_feature_keypoints`, `compute_label_keypoints`,
`set_label_keypoints`.  Feature names are natural numbers (dict keys / config names compared with
`==`); a Python dict is an association list in insertion order. -/

/-- `pwl_calibration_input_keypoints` / `output_initialization`: `isinstance(…, str)` → a keypoint
mode, otherwise user-specified keypoint values (list, tuple or array: passed through untouched) -/
inductive KpSpec where
  | mode (m : Mode)
  | given (kps : List Rat)
  deriving DecidableEq, Repr

/-- the fields of `configs.FeatureConfig` the helpers read, with the constructor's defaults
(`num_buckets` `None` and `0` are both falsy: one value `0`) -/
structure FeatureCfg where
  name : Nat
  numBuckets : Nat := 0
  spec : KpSpec := .mode .quantiles
  numKeypoints : Nat := 10
  clipMin : Option Rat := none
  clipMax : Option Rat := none
  dflt : Option Rat := none
  deriving DecidableEq, Repr

/-- `_feature_config_by_name(feature_configs, name, add_if_missing=False)`: the FIRST config of
that name, else a fresh default `FeatureConfig(name)` -/
def featureConfigByName (cfgs : List FeatureCfg) (name : Nat) : FeatureCfg :=
  match cfgs.find? (fun c => c.name = name) with
  | some c => c
  | none => { name := name }

/-- the body of the loop of `compute_feature_keypoints` for one feature: `none` = skipped
(categorical, `if feature_config.num_buckets: continue`) -/
def featureKeypoints1 (cfg : FeatureCfg) (values : List Rat) (weights : Option (List Rat)) (red : Reduce)
    (dirs : List Int) : Except Err (Option (List Rat)) :=
  if cfg.numBuckets ≠ 0 then .ok none
  else match cfg.spec with
    | .mode m =>
      match computeKeypoints values cfg.numKeypoints m cfg.clipMin cfg.clipMax cfg.dflt weights red dirs with
      | .ok kps => .ok (some kps)
      | .error e => .error e
    | .given kps => .ok (some kps)

/-- `compute_feature_keypoints(feature_configs, features, weights, weight_reduction)`: the SAME
weight vector for every feature; the first exception leaves the loop. `dirs` = tie directions per
feature (in the order of `features`). -/
def computeFeatureKeypoints (cfgs : List FeatureCfg) (weights : Option (List Rat)) (red : Reduce) :
    List (Nat × List Rat) → List (List Int) → Except Err (List (Nat × List Rat))
  | [], _ => .ok []
  | (name, values) :: rest, dirs =>
    match featureKeypoints1 (featureConfigByName cfgs name) values weights red (dirs.headD []) with
    | .error e => .error e
    | .ok r =>
      match computeFeatureKeypoints cfgs weights red rest dirs.tail with
      | .error e => .error e
      | .ok out => .ok (match r with
        | some kps => (name, kps) :: out
        | none => out)

/-- overwrite `pwl_calibration_input_keypoints` of the first config called `name` -/
def setFirst (name : Nat) (kps : List Rat) : List FeatureCfg → List FeatureCfg
  | [] => []
  | c :: cs => if c.name = name then { c with spec := .given kps } :: cs else c :: setFirst name kps cs

/-- one step of `set_feature_keypoints`: `_feature_config_by_name(…, add_if_missing)` then the
assignment (on a discarded temporary config when the name is missing and not added) -/
def setOne (add : Bool) (cfgs : List FeatureCfg) (p : Nat × List Rat) : List FeatureCfg :=
  if cfgs.any (fun c => c.name = p.1) then setFirst p.1 p.2 cfgs
  else if add then cfgs ++ [{ name := p.1, spec := .given p.2 }]
  else cfgs

/-- `set_feature_keypoints(feature_configs, feature_keypoints, add_missing_feature_configs)` -/
def setFeatureKeypoints (cfgs : List FeatureCfg) (kps : List (Nat × List Rat)) (add : Bool) : List FeatureCfg :=
  kps.foldl (setOne add) cfgs

/-- the label array as `compute_label_keypoints` sees it: a numeric dtype, or anything else
(strings, bytes, objects, booleans: `np.issubdtype(dtype, np.number)` is false) with the labels
coded by class so that `len(set(labels))` = number of distinct codes -/
inductive Labels where
  | numeric (l : List Rat)
  | classes (l : List Nat)
  deriving DecidableEq, Repr

/-- the fields of the model config read by `compute_label_keypoints` -/
structure LabelCfg where
  spec : KpSpec
  numKeypoints : Nat
  outMin : Option Rat := none
  outMax : Option Rat := none
  deriving DecidableEq, Repr

/-- `np.arange(n)` -/
def arange (n : Nat) : List Rat := (List.range n).map fun (i : Nat) => (i : Rat)

/-- `len(set(labels))` -/
def numClasses (l : List Nat) : Nat := l.eraseDups.length

/-- `compute_label_keypoints(model_config, labels, logits_output, weights, weight_reduction)`:
non-numeric labels become `arange(n_classes)` and DROP the weights; a string
`output_initialization` with logits output gives `linspace(-2, 2, k)` whatever the labels; user
keypoints are passed through. -/
def computeLabelKeypoints (cfg : LabelCfg) (labels : Labels) (logits : Bool) (weights : Option (List Rat))
    (red : Reduce) (dirs : List Int) : Except Err (List Rat) :=
  let vw : List Rat × Option (List Rat) := match labels with
    | .numeric l => (l, weights)
    | .classes l => (arange (numClasses l), none)
  match cfg.spec with
  | .mode m =>
    if logits then .ok (linspace (-2) 2 cfg.numKeypoints)
    else computeKeypoints vw.1 cfg.numKeypoints m cfg.outMin cfg.outMax none vw.2 red dirs
  | .given kps => .ok kps

/-- `set_label_keypoints(model_config, label_keypoints)` -/
def setLabelKeypoints (cfg : LabelCfg) (kps : List Rat) : LabelCfg := { cfg with spec := .given kps }

end Tfl.Keypoints
