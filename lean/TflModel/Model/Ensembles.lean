import TflModel.Model.Core
/-!
# Ensemble structures (C17) — executable model, Mathlib-free

* `rtlStructure`      — `rtl_layer.RTL._get_rtl_structure` (rtl_layer.py:509-628)
* `randomEnsemble`    — `premade_lib.set_random_lattice_ensemble` (premade_lib.py:945-981)
* `addPair`/`pairCover` — `_add_pair_to_ensemble` / `_set_all_pairs_cover_lattices` (984-1027)
* `crystals`          — `_get_final_crystal_lattices` (1171-1301)

Randomness is an explicit argument: a shuffle is the list `perm` such that
`new[i] = old[perm[i]]` (what `RandomState(seed).shuffle` does to `range(n)`), a
`np.random.choice` is the index it drew in the candidate list, `np.argsort` of the importance
scores is the order it returned (ties are broken by the sorting network of the installed NumPy).
Scores are exact rationals.

NOT modelled: how the Crystals scores are obtained from the prefitting model
(`_get_torsions_and_laplacians`, premade_lib.py:1127-1168: per prefitting lattice
`weights -= np.min(weights); weights /= np.max(weights)`, then `laplacian_regularizer` /
`torsion_regularizer` per dimension / pair and `np.mean` over the lattices).  `crystals` takes the
torsions and Laplacians as INPUTS, so the normalisation step — where a constant prefitting kernel
is `0/0` (NaN scores, finding F-C17-b) — is outside this model and covered only by the
`crystals_real` stream of `harness/props/c17.py`, which runs the real function un-patched.
-/
namespace Tfl.Ensembles
open Tfl

/-! ## RTL -/

/-- `_RTLInput(monotonicity, group, input_index)` -/
structure RtlInput where
  mono : Nat
  group : Nat
  idx : Nat
  deriving DecidableEq, Repr

/-- the `(monotonicity, group)` tags of one input key: one group per entry of `sizes`
(`shape[1]` of each tensor of the key), group ids counting up from `g`. -/
def groupTags (mono : Nat) : Nat → List Nat → List (Nat × Nat)
  | _, [] => []
  | g, s :: ss => List.replicate s (mono, g) ++ groupTags mono (g + 1) ss

/-- flattened inputs: keys in sorted order, i.e. `'increasing'` before `'unconstrained'`;
`input_index` = position in the flattened input. -/
def rtlInputs (inc unc : List Nat) : List RtlInput :=
  ((groupTags 1 0 inc ++ groupTags 0 inc.length unc).zipIdx).map (fun p => ⟨p.1.1, p.1.2, p.2⟩)

/-- a shuffle that drew `perm` on `range n`: `new[i] = old[perm[i]]` -/
def applyPerm {α} (perm : List Nat) (l : List α) : List α := perm.filterMap (fun i => l[i]?)

/-- `rtl_inputs * (1 + total // n)` then `[:total]` -/
def tileTake {α} (l : List α) (total : Nat) : List α :=
  ((List.replicate (1 + total / l.length) l).flatten).take total

/-- lattice `k` of the flat slot list: `rtl_inputs[k*rank : (k+1)*rank]` -/
def chunk {α} (r : Nat) (flat : List α) (k : Nat) : List α := (flat.drop (k * r)).take r
def chunks {α} (r L : Nat) (flat : List α) : List (List α) := (List.range L).map (chunk r flat)

/-- exchange positions `p` and `q` -/
def swapFlat {α} (l : List α) (p q : Nat) : List α :=
  match l[p]?, l[q]? with
  | some x, some y => (l.set p y).set q x
  | _, _ => l

/-- `(lattice_0, lattice_1, index_0, index_1)` in the order of
`itertools.combinations(lattices, 2)` × `itertools.product(range(r), range(r))` -/
def quads (L r : Nat) : List (Nat × Nat × Nat × Nat) :=
  (List.range L).flatMap fun a =>
    ((List.range L).filter (fun b => a < b)).flatMap fun b =>
      (List.range r).flatMap fun i0 => (List.range r).map fun i1 => (a, b, i0, i1)

/-- one candidate swap of the group-avoiding loop (the lattices are the chunks of the flat
slot list; swapping `lattice_0[index_0]` with `lattice_1[index_1]` swaps two flat slots). -/
def rtlSwapStep (r : Nat) (st : List RtlInput × Bool) (c : Nat × Nat × Nat × Nat) :
    List RtlInput × Bool :=
  let l0 := chunk r st.1 c.1
  let l1 := chunk r st.1 c.2.1
  match l0[c.2.2.1]?, l1[c.2.2.2]? with
  | some f0, some f1 =>
    if f0.group = f1.group then st else
    let g0 := (l0.eraseIdx c.2.2.1).map (·.group)
    let g1 := (l1.eraseIdx c.2.2.2).map (·.group)
    if g0.contains f0.group && !g1.contains f0.group && !g0.contains f1.group then
      (swapFlat st.1 (c.1 * r + c.2.2.1) (c.2.1 * r + c.2.2.2), true)
    else st
  | _, _ => st

def rtlSwapPass (L r : Nat) (flat : List RtlInput) : List RtlInput × Bool :=
  (quads L r).foldl (rtlSwapStep r) (flat, false)

/-- `while changed and avoid: if iteration > _MAX_RTL_SWAPS: break; …` — `fuel` passes at most
(`_MAX_RTL_SWAPS + 1`); the flag says that the cap was hit. -/
def rtlSwapLoop (L r : Nat) : Nat → List RtlInput → List RtlInput × Bool
  | 0, flat => (flat, true)
  | fuel + 1, flat =>
    let p := rtlSwapPass L r flat
    if p.2 then rtlSwapLoop L r fuel p.1 else (p.1, false)

def maxRtlSwaps : Nat := 10000

/-- lexicographic `<` / `≤` on tuples of naturals (python tuple comparison) -/
def lexLe : List Nat → List Nat → Bool
  | [], _ => true
  | _ :: _, [] => false
  | a :: as, b :: bs => if a < b then true else if b < a then false else lexLe as bs

/-- `lattices_for_monotonicities[key].append(v)` on an insertion-ordered dict -/
def insertGroup (acc : List (List Nat × List (List Nat))) (k : List Nat) (v : List Nat) :
    List (List Nat × List (List Nat)) :=
  match acc with
  | [] => [(k, [v])]
  | (k', vs) :: rest => if k' = k then (k', vs ++ [v]) :: rest else (k', vs) :: insertGroup rest k v

/-- `lattice.sort(key=monotonicity)` (stable) -/
def sortLattice (l : List RtlInput) : List RtlInput := l.mergeSort (fun a b => a.mono ≤ b.mono)

def groupLattices (lats : List (List RtlInput)) : List (List Nat × List (List Nat)) :=
  lats.foldl (fun acc lat =>
    let s := sortLattice lat
    insertGroup acc (s.map (·.mono)) (s.map (·.idx))) []

abbrev Structure := List (List Nat × List (List Nat))

/-- the slot list after shuffle, tile, truncate, shuffle and the swap loop -/
def rtlSlots (inc unc : List Nat) (L r : Nat) (avoid : Bool) (perm1 perm2 : List Nat) (fuel : Nat) :
    List RtlInput × Bool :=
  let inputs := rtlInputs inc unc
  let total := L * r
  let s := applyPerm perm2 (tileTake (applyPerm perm1 inputs) total)
  if avoid then rtlSwapLoop L r fuel s else (s, false)

/-- `_get_rtl_structure`: returns the sorted `(monotonicities, lattices)` items and whether the
swap cap was hit. `inc` / `unc` are the group sizes of the two input keys.  A layer without any
input passes the "too small" check (`0 ≤ total_usage`) and then divides by `len(rtl_inputs) = 0`
(`1 + total_usage // len(rtl_inputs)`, rtl_layer.py:570): `ZeroDivisionError`, here `.error .other` —
NOT the `0` of Lean's total division inside `tileTake`. -/
def rtlStructure (inc unc : List Nat) (L r : Nat) (avoid : Bool) (perm1 perm2 : List Nat)
    (fuel : Nat := maxRtlSwaps + 1) : Except Err (Structure × Bool) :=
  if L * r < (rtlInputs inc unc).length then .error .valueError
  else if (rtlInputs inc unc).length = 0 then .error .other
  else
    let p := rtlSlots inc unc L r avoid perm1 perm2 fuel
    .ok ((groupLattices (chunks r L p.1)).mergeSort (fun a b => lexLe a.1 b.1), p.2)

/-- `output_monotonicity = max(monotonicities)`: the lattice output goes to `'increasing'` -/
def outputIncreasing (monos : List Nat) : Bool := monos.foldl max 0 == 1

/-! ## Random ensemble -/

/-- first loop of `set_random_lattice_ensemble`: each feature goes to
`non_full_indices[choice]` -/
def randomFirst (L r : Nat) : List Nat → List Nat → List (List Nat) → Except Err (List (List Nat))
  | [], _, lats => .ok lats
  | _ :: _, [], _ => .error .other
  | f :: fs, c :: cs, lats =>
    let nonFull := (List.range L).filter (fun i => (lats.getD i []).length < r)
    match nonFull[c]? with
    | none => if nonFull.isEmpty then .error .valueError else .error .other
    | some i => randomFirst L r fs cs (lats.set i (lats.getD i [] ++ [f]))

/-- `np.random.choice(cands, size=m, replace=False)` having drawn the indices `draw` -/
def choiceNoReplace (cands : List Nat) (m : Nat) (draw : List Nat) : Except Err (List Nat) :=
  if cands.length < m then .error .valueError
  else if draw.length ≠ m || !(draw.all (· < cands.length)) || !(decide draw.Nodup) then
    .error .other
  else .ok (draw.filterMap (fun i => cands[i]?))

/-- second loop: fill every lattice with features it does not contain yet -/
def randomFill (n r : Nat) : List (List Nat) → List (List Nat) → Except Err (List (List Nat))
  | [], _ => .ok []
  | _ :: _, [] => .error .other
  | lat :: lats, d :: ds => do
    let cands := (List.range n).filter (fun f => !lat.contains f)
    let ext ← choiceNoReplace cands (r - lat.length) d
    let rest ← randomFill n r lats ds
    pure ((lat ++ ext) :: rest)

def randomEnsemble (n L r : Nat) (first : List Nat) (fill : List (List Nat)) :
    Except Err (List (List Nat)) := do
  let lats ← randomFirst L r (List.range n) first (List.replicate L [])
  randomFill n r lats fill

/-! ## All-pairs cover -/

def addIfAbsent (l : List Nat) (x : Nat) : List Nat := if l.contains x then l else l ++ [x]

/-- second loop of `_add_pair_to_ensemble`: first lattice with room that has `i` or `j` -/
def addToHaving (r i j : Nat) : List (List Nat) → Option (List (List Nat))
  | [] => none
  | lat :: rest =>
    if lat.length < r ∧ lat.contains i then some (addIfAbsent lat j :: rest)
    else if lat.length < r ∧ lat.contains j then some (addIfAbsent lat i :: rest)
    else (addToHaving r i j rest).map (lat :: ·)

/-- third loop: first lattice with two free slots -/
def addToRoomy (r i j : Nat) : List (List Nat) → Option (List (List Nat))
  | [] => none
  | lat :: rest =>
    if lat.length + 1 < r then some (addIfAbsent (addIfAbsent lat i) j :: rest)
    else (addToRoomy r i j rest).map (lat :: ·)

/-- `_add_pair_to_ensemble` (lattices are python sets: kept duplicate-free, order immaterial) -/
def addPair (r : Nat) (lats : List (List Nat)) (p : Nat × Nat) : List (List Nat) :=
  if lats.any (fun l => l.contains p.1 && l.contains p.2) then lats
  else match addToHaving r p.1 p.2 lats with
    | some l => l
    | none => match addToRoomy r p.1 p.2 lats with
      | some l => l
      | none => lats ++ [addIfAbsent [p.1] p.2]

/-- `itertools.combinations(range(n), 2)` -/
def allPairs (n : Nat) : List (Nat × Nat) :=
  (List.range n).flatMap fun i => ((List.range n).filter (fun j => i < j)).map fun j => (i, j)

def pairCover (n r : Nat) (perm : List Nat) : List (List Nat) :=
  (applyPerm perm (allPairs n)).foldl (addPair r) []

/-! ## Crystals -/

def getT (t : List (List Rat)) (i j : Nat) : Rat := (t.getD i []).getD j 0
def getC (c : List (List Int)) (i j : Nat) : Int := (c.getD i []).getD j 0
def addC (c : List (List Int)) (i j : Nat) (d : Int) : List (List Int) :=
  c.set i ((c.getD i []).set j (getC c i j + d))
def addC2 (c : List (List Int)) (i j : Nat) (d : Int) : List (List Int) := addC (addC c i j d) j i d

/-- `_REPEATED_PAIR_DISCOUNT_IN_CRYSTALS_SCORE ** c` = `0.5 ** c` for an integer `c` -/
def discPow (c : Int) : Rat := if 0 ≤ c then (1 / 2 : Rat) ^ c.toNat else (2 : Rat) ^ (-c).toNat

/-- python `round` of an exact rational: nearest integer, ties to even -/
def roundHalfEven (x : Rat) : Int :=
  let f := x.floor
  let d := x - (f : Rat)
  if d < 1 / 2 then f else if 1 / 2 < d then f + 1 else if f % 2 = 0 then f else f + 1

/-- `importance_scores = laplacians * 6.0`, then `+= torsions[f0][f1]` for both ends of every
pair `f0 < f1` (only the upper triangle is read) -/
def importance (n : Nat) (t : List (List Rat)) (lap : List Rat) : List Rat :=
  (List.range n).map fun f =>
    6 * lap.getD f 0 + rsum ((List.range n).map fun g =>
      if f < g then getT t f g else if g < f then getT t g f else 0)

structure Alloc where
  uses : List Int
  rem : Int
  rs : Rat

/-- one iteration of the use-allocation loop. `0/0` is NaN (`int(round(nan))` raises
`ValueError`), `x/0` is ±inf (`OverflowError`). -/
def allocStep (L : Nat) (scores : List Rat) (st : Alloc) (f : Nat) : Except Err Alloc :=
  let s := scores.getD f 0
  if st.rs = 0 then (if (st.rem : Rat) * s = 0 then .error .valueError else .error .other)
  else
    let added := min (roundHalfEven ((st.rem : Rat) * s / st.rs)) ((L : Int) - 1)
    .ok ⟨st.uses.set f (st.uses.getD f 0 + added), st.rem - added, st.rs - s⟩

def allocLoop (L : Nat) (scores : List Rat) : List Nat → Alloc → Except Err Alloc
  | [], st => .ok st
  | f :: fs, st => do
    let st' ← allocStep L scores st f
    allocLoop L scores fs st'

def isum : List Int → Int
  | [] => 0
  | x :: xs => x + isum xs

/-- `features_uses`: one use each, the rest proportional to the importance scores in the
order `order = np.argsort(-importance_scores)`; the code's `assert Σ uses = total`. -/
def allocUses (n L r : Nat) (scores : List Rat) (order : List Nat) : Except Err (List Int) := do
  let st ← allocLoop L scores order ⟨List.replicate n 1, (L * r : Int) - n, rsum scores⟩
  if isum st.uses ≠ (L * r : Int) then .error .other else pure st.uses

/-- round-robin add list -/
def addList (uses : List Int) : List Nat :=
  let m := (uses.foldl max 0).toNat
  (List.range m).flatMap fun (u : Nat) =>
    (uses.zipIdx).filterMap fun (p : Int × Nat) => if ((u : Int) + 1) ≤ p.1 then some p.2 else none

def addScore (t : List (List Rat)) (c : List (List Int)) (r : Nat) (emptyScore : Rat) (f : Nat)
    (lat : List Nat) : Rat :=
  if r ≤ lat.length then -2
  else if lat.contains f then -1
  else if lat.isEmpty then emptyScore
  else rsum (lat.map fun o => getT t f o * discPow (getC c f o))

/-- `score_candidates_pairs.sort(reverse=True)[0][1]`: highest score, ties to the highest index -/
def bestCand : List Rat → Nat → Rat × Nat → Nat
  | [], _, best => best.2
  | s :: ss, i, best => bestCand ss (i + 1) (if best.1 ≤ s then (s, i) else best)

def placeStep (t : List (List Rat)) (r : Nat) (emptyScore : Rat)
    (st : List (List Nat) × List (List Int)) (f : Nat) : List (List Nat) × List (List Int) :=
  match st.1.map (addScore t st.2 r emptyScore f) with
  | [] => st
  | s :: ss =>
    let b := bestCand ss 1 (s, 0)
    let lat := st.1.getD b []
    (st.1.set b (lat ++ [f]), lat.foldl (fun c o => addC (addC c f o 1) o f 1) st.2)

def pairKey (a b : Nat) : Nat × Nat := (min a b, max a b)

structure Cry where
  lats : List (List Nat)
  cooc : List (List Int)
  changed : Bool

/-- one candidate swap of the torsion-increasing loop -/
def crySwapStep (t : List (List Rat)) (st : Cry) (q : Nat × Nat × Nat × Nat) : Cry :=
  let l0 := st.lats.getD q.1 []
  let l1 := st.lats.getD q.2.1 []
  match l0[q.2.2.1]?, l1[q.2.2.2]? with
  | some f0, some f1 =>
    if f0 = f1 then st else
    let rest0 := l0.eraseIdx q.2.2.1
    let rest1 := l1.eraseIdx q.2.2.2
    let added0 := (rest0.map (pairKey f1) ++ rest1.map (pairKey f0)).eraseDups
    let removed0 := (rest0.map (pairKey f0) ++ rest1.map (pairKey f1)).eraseDups
    let added := added0.filter (fun p => !removed0.contains p)
    let removed := removed0.filter (fun p => !added0.contains p)
    let diff := rsum (added.map fun p => getT t p.1 p.2 * discPow (getC st.cooc p.1 p.2))
      - rsum (removed.map fun p => getT t p.1 p.2 * discPow (getC st.cooc p.1 p.2 - 1))
    if !l1.contains f0 && !l0.contains f1 &&
        (decide (1 < l0.count f0) || decide (1 < l1.count f1) || decide (0 < diff)) then
      let c1 := added.foldl (fun c p => addC2 c p.1 p.2 1) st.cooc
      let c2 := removed.foldl (fun c p => addC2 c p.1 p.2 (-1)) c1
      ⟨(st.lats.set q.1 (l0.set q.2.2.1 f1)).set q.2.1 (l1.set q.2.2.2 f0), c2, true⟩
    else st
  | _, _ => st

def maxLen (lats : List (List Nat)) : Nat := (lats.map List.length).foldl max 0

def crySwapLoop (t : List (List Rat)) (L : Nat) : Nat → List (List Nat) → List (List Int) →
    List (List Nat) × Bool
  | 0, lats, _ => (lats, true)
  | fuel + 1, lats, c =>
    let m := maxLen lats
    let st := (quads L m).foldl (crySwapStep t) ⟨lats, c, false⟩
    if st.changed then crySwapLoop t L fuel st.lats st.cooc else (st.lats, false)

def maxCrystalsSwaps : Nat := 1000

/-- `_get_final_crystal_lattices` given the prefitting scores: `t` torsions (n×n), `lap`
laplacians, `order` = `np.argsort(-importance_scores)`, `emptyScore` =
`np.mean(torsions) * rank**2 / 2` (the float the code computed, as an exact rational).
Returns the lattices and whether the swap cap was hit.  The scores are inputs: their computation
from the prefitting kernels (normalisation included) is outside the model, see the file header. -/
def crystals (n L r : Nat) (t : List (List Rat)) (lap : List Rat) (order : List Nat)
    (emptyScore : Rat) (fuel : Nat := maxCrystalsSwaps + 1) :
    Except Err (List (List Nat) × Bool) := do
  let uses ← allocUses n L r (importance n t lap) order
  let al := addList uses
  if al.length ≠ L * r then .error .other
  else
    let init : List (List Nat) × List (List Int) :=
      (List.replicate L [], List.replicate n (List.replicate n 0))
    let placed := al.foldl (placeStep t r emptyScore) init
    pure (crySwapLoop t L fuel placed.1 placed.2)

/-- is `order` a descending sort of the scores? (what `np.argsort(-scores)` guarantees) -/
def sortedDesc (scores : List Rat) : List Nat → Bool
  | [] => true
  | [_] => true
  | a :: b :: rest => decide (scores.getD b 0 ≤ scores.getD a 0) && sortedDesc scores (b :: rest)

end Tfl.Ensembles
