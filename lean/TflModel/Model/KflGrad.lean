import TflModel.Model.Kfl
/-!
# Gradients of the KFL OUTPUT as the backward pass assembles them (Mathlib-free, executable)

`kronecker_factored_lattice_lib.evaluate_with_hypercube_interpolation` (lines 73-149) for one unit and one
example is `out = mean_t (scale_t · Π_d f_{t,d}) + bias`, `f_{t,d} = Σ_i w_i(x_d) · k_{t,d,i}`. Autodiff
multiplies, per term, `scale_t / T`, the hand-written factor of `custom_reduce_prod` (`gradFactor` of the
slice of factors along the dims axis) and the derivative of the factor — `w_i(x_d)` for a kernel entry,
the slope `k_{t,d,j+1} − k_{t,d,j}` of the cell for an input coordinate. `Props/C19Kfl.lean` proves these
assembled numbers to be the exact difference quotients / derivatives of `Kfl.eval`.
-/
namespace Tfl.Kfl
open Tfl

/-- replace kernel entry `(term t, dim d, vertex i)` -/
def setK (K : List (List (List Rat))) (t d i : Nat) (v : Rat) : List (List (List Rat)) :=
  K.set t ((K.getD t []).set d (((K.getD t []).getD d []).set i v))

/-- `∂ out / ∂ scale_t = Π_d f_{t,d} / T` -/
def gradScale (L : Nat) (clipI : Bool) (K : List (List (List Rat))) (xs : List Rat) (t : Nat) : Rat :=
  termProd L clipI xs (K.getD t []) / (K.length : Rat)

/-- `∂ out / ∂ k_{t,d,i} = scale_t / T · gradFactor(f_{t,·}) d · w_i(x_d)` -/
def gradKernel (L : Nat) (clipI : Bool) (K : List (List (List Rat))) (scale xs : List Rat)
    (t d i : Nat) : Rat :=
  getR scale t / (K.length : Rat) * gradFactor (termFactors L clipI xs (K.getD t [])) d *
    getR (interpWeights L (clipIn L clipI (getR xs d))) i

/-- slope of one interpolated factor inside the cell `[j, j+1]` -/
def cellSlope (k : List Rat) (j : Nat) : Rat := getR k (j + 1) - getR k j

/-- `∂ out / ∂ x_d` for `x_d` inside the cell `[j, j+1]` of the lattice range:
`Σ_t scale_t / T · gradFactor(f_{t,·}) d · (k_{t,d,j+1} − k_{t,d,j})` -/
def gradInput (L : Nat) (clipI : Bool) (K : List (List (List Rat))) (scale xs : List Rat) (d j : Nat) : Rat :=
  rsum (List.zipWith (fun s kt => s * (gradFactor (termFactors L clipI xs kt) d * cellSlope (kt.getD d []) j))
    scale K) / (K.length : Rat)

end Tfl.Kfl
