import TflModel.Model.Core
/-!
# `pwl_calibration_lib.py`: the PWLCalibration weight constraint (one unit column)

A kernel column is `bias : Rat` (row 0 = output at the first keypoint) and
`heights : List Rat` (rows 1.. = increments between consecutive keypoint outputs);
`lengths : List Rat` are the keypoint spacings.  Every function of the projection pipeline is
modelled in the order and with the guards of the Python:

* `convertAllConstraints` / `convertConstraints`      (`convert_all_constraints`, `_convert_constraints`)
* `approxProjectBoundsOnly`                           (`_approximately_project_bounds_only`)
* `projectBoundsConsideringMonotonicity`              (`_project_bounds_considering_monotonicity`)
* `projectConvexity`                                  (`_project_convexity`, groups 0 and 1)
* `projectMonotonicity`                               (`_project_monotonicity`)
* `body`, `whileLoop`, `projectAll`                   (`project_all_constraints`: Dykstra loop with the
                                                       `last_change` bookkeeping and the `num_projections <= 1` shortcut)
* `squeezeByScaling`, `approxProjectConvexity`, `finalize`   (`_squeeze_by_scaling`, `_approximately_project_convexity`, `_finalize_constraints`)
* `constraintsCall`, `naiveBounds`                    (`PWLCalibrationConstraints.__call__`, `NaiveBoundsConstraints.__call__`)

`output_min/max = None` occur in the Python exactly when the corresponding constraint type is
`NONE` (that is how `PWLCalibration.__init__` wires them through `convert_all_constraints`), and
the values are read only under `constraint != NONE`; the model therefore carries plain `Rat`
values next to the constraint types.
-/
namespace Tfl.PwlProj
open Tfl

/-- `BoundConstraintsType` -/
inductive BCT where
  | none | bound | clamped
  deriving DecidableEq, Repr

/-- `_convert_constraints(value, clamp_to_value)` -/
def convertConstraints (value : Option Rat) (clamp : Bool) : Rat × BCT :=
  match value with
  | none => (0, .none)
  | some v => if clamp then (v, .clamped) else (v, .bound)

/-- static configuration of one constraint object -/
structure Cfg where
  mono : Int
  conv : Int
  omin : Rat
  omax : Rat
  minC : BCT
  maxC : BCT
  deriving Repr

/-- `convert_all_constraints(output_min, output_max, clamp_min, clamp_max)`:
`(output_min, output_max, output_min_constraints, output_max_constraints)` -/
def convertAllConstraints (omin omax : Option Rat) (clampMin clampMax : Bool) :
    Rat × Rat × BCT × BCT :=
  match omin, omax with
  | none, _ =>
    let r := convertConstraints omax clampMax
    (r.1, r.1, .none, r.2)
  | some _, none =>
    let r := convertConstraints omin clampMin
    (r.1, r.1, r.2, .none)
  | some _, some _ =>
    let a := convertConstraints omin clampMin
    let b := convertConstraints omax clampMax
    (a.1, b.1, a.2, b.2)

/-! ### vectors -/
def vsub (a b : List Rat) : List Rat := List.zipWith (· - ·) a b
def zeros (n : Nat) : List Rat := List.replicate n 0
def vneg (a : List Rat) : List Rat := a.map (fun x => -x)

/-- running sums `acc + h₁, acc + h₁ + h₂, …` -/
def cumsumFrom (acc : Rat) : List Rat → List Rat
  | [] => []
  | h :: hs => (acc + h) :: cumsumFrom (acc + h) hs

/-- `tf.cumsum(tf.concat([bias, heights], axis=0))`: the keypoint outputs -/
def outputs (bias : Rat) (heights : List Rat) : List Rat := bias :: cumsumFrom bias heights

/-- `sums[1:] - sums[:-1]` with `prev = sums[0]` -/
def diffsFrom (prev : Rat) : List Rat → List Rat
  | [] => []
  | s :: ss => (s - prev) :: diffsFrom s ss

/-- `_approximately_project_bounds_only` -/
def approxProjectBoundsOnly (bias : Rat) (heights : List Rat) (omin omax : Rat) (minC maxC : BCT) :
    Except Err (Rat × List Rat) :=
  if minC = .clamped ∨ maxC = .clamped then .error .valueError
  else if minC = .none ∧ maxC = .none then .ok (bias, heights)
  else
    let sums := outputs bias heights
    let sums := if minC = .bound then sums.map (fun s => max s omin) else sums
    let sums := if maxC = .bound then sums.map (fun s => min s omax) else sums
    .ok (sums.headD 0, diffsFrom (sums.headD 0) sums.tail)

/-- the increasing branch of `_project_bounds_considering_monotonicity` -/
def projectBoundsInc (bias : Rat) (heights : List Rat) (omin omax : Rat) (minC maxC : BCT) :
    Rat × List Rat :=
  if maxC ≠ .none then
    let n : Rat := (heights.length : Rat)
    let s := rsum heights
    let bh : Rat × Rat :=
      match minC with
      | .clamped =>
        let bias := omin
        (bias, (omax - (bias + s)) / n)
      | .bound =>
        let bd := (omax - (bias + s)) / (n + 1)
        let bd := if maxC ≠ .clamped then min bd 0 else bd
        let bias := max (bias + bd) omin
        (bias, (omax - (bias + s)) / n)
      | .none =>
        let bd := (omax - (bias + s)) / (n + 1)
        let hd := bd
        let bd := if maxC ≠ .clamped then min bd 0 else bd
        (bias + bd, hd)
    let hd := if maxC ≠ .clamped then min bh.2 0 else bh.2
    (bh.1, heights.map (fun h => h + hd))
  else
    match minC with
    | .clamped => (omin, heights)
    | .bound => (max bias omin, heights)
    | .none => (bias, heights)

/-- `_project_bounds_considering_monotonicity`: the decreasing case is reduced to the increasing
one by negating everything and swapping the roles of the bounds. -/
def projectBoundsConsideringMonotonicity (bias : Rat) (heights : List Rat) (mono : Int)
    (omin omax : Rat) (minC maxC : BCT) : Except Err (Rat × List Rat) :=
  if mono = -1 then
    let r := projectBoundsInc (-bias) (vneg heights) (-omax) (-omin) maxC minC
    .ok (-r.1, vneg r.2)
  else if mono = 1 then .ok (projectBoundsInc bias heights omin omax minC maxC)
  else .error .valueError

/-- the pairs `(h₀,h₁),(h₂,h₃),…` of one constraint group, each projected exactly;
an unpaired last height is kept. -/
def convPairs (conv : Int) : List Rat → List Rat → List Rat
  | h0 :: h1 :: hs, l0 :: l1 :: ls =>
    let base := (h0 + h1) / (l0 + l1)
    let p0 := l0 * base
    let p1 := l1 * base
    (if conv = 1 then min h0 p0 else max h0 p0) ::
      (if conv = 1 then max h1 p1 else min h1 p1) :: convPairs conv hs ls
  | hs, _ => hs

/-- `_project_convexity(heights, lengths, convexity, constraint_group)`:
group 0 pairs `(0,1),(2,3),…`; group 1 skips the first height and pairs `(1,2),(3,4),…`. -/
def projectConvexity (heights lengths : List Rat) (conv : Int) (group : Nat) :
    Except Err (List Rat) :=
  -- verify_hyperparameters(convexity, lengths, weights_shape)
  if conv ≠ 0 ∧ conv ≠ 1 ∧ conv ≠ -1 then .error .valueError
  else if lengths.length ≠ heights.length then .error .valueError
  else if group ≠ 0 ∧ group ≠ 1 then .error .valueError
  else if conv = 0 ∨ heights.length = 1 then .ok heights
  else if group = 0 then .ok (convPairs conv heights lengths)
  else
    match heights, lengths with
    | h :: hs, _ :: ls => .ok (h :: convPairs conv hs ls)
    | hs, _ => .ok hs

/-- `_project_monotonicity` -/
def projectMonotonicity (heights : List Rat) (mono : Int) : List Rat :=
  if mono = 0 then heights
  else if mono = 1 then heights.map (fun h => max h 0)
  else heights.map (fun h => min h 0)

/-- the increasing branch of `_squeeze_by_scaling` (current code: the bias is clipped into the
bounds, heights are scaled by `delta / total` whenever `total > delta`). -/
def squeezeInc (bias : Rat) (heights : List Rat) (omin omax : Rat) (minC maxC : BCT) :
    Rat × List Rat :=
  let bias := if minC ≠ .none then max bias omin else bias
  if maxC = .none then (bias, heights)
  else
    let bias := min bias omax
    let delta := omax - bias
    let total := rsum heights
    let needs : Bool := decide (delta < total)
    let factor := if needs then delta / (if needs then total else 1) else 1
    (bias, heights.map (fun h => h * factor))

/-- `_squeeze_by_scaling` -/
def squeezeByScaling (bias : Rat) (heights : List Rat) (mono : Int) (omin omax : Rat)
    (minC maxC : BCT) : Rat × List Rat :=
  if mono = -1 then
    let r := squeezeInc (-bias) (vneg heights) (-omax) (-omin) maxC minC
    (-r.1, vneg r.2)
  else squeezeInc bias heights omin omax minC maxC

/-- loop body of `_approximately_project_convexity`: left to right, align the current slope
with the (already updated) previous one when it violates convexity. -/
def approxConvFrom (conv : Int) (hp lp : Rat) : List Rat → List Rat → List Rat
  | h :: hs, l :: ls =>
    let temp := hp * (l / lp)
    let h' := if conv = 1 then max h temp else min h temp
    h' :: approxConvFrom conv h' l hs ls
  | hs, _ => hs

/-- `_approximately_project_convexity` -/
def approxProjectConvexity (heights lengths : List Rat) (conv : Int) : List Rat :=
  if conv = 0 then heights
  else
    match heights, lengths with
    | h :: hs, l :: ls => h :: approxConvFrom conv h l hs ls
    | hs, _ => hs

/-- `_finalize_constraints` -/
def finalize (c : Cfg) (lengths : List Rat) (bias : Rat) (heights : List Rat) :
    Except Err (Rat × List Rat) :=
  let heights := if c.mono ≠ 0 then projectMonotonicity heights c.mono else heights
  let heights := if c.conv ≠ 0 then approxProjectConvexity heights lengths c.conv else heights
  if c.minC ≠ .none ∨ c.maxC ≠ .none then
    if c.mono ≠ 0 ∧ c.conv ≠ 0 then
      .ok (squeezeByScaling bias heights c.mono c.omin c.omax c.minC c.maxC)
    else
      let minC := if c.minC = .clamped then BCT.bound else c.minC
      let maxC := if c.maxC = .clamped then BCT.bound else c.maxC
      approxProjectBoundsOnly bias heights c.omin c.omax minC maxC
  else .ok (bias, heights)

/-! ### Dykstra loop -/

/-- the two `last_*_change` dicts, keyed like the Python
(`"BOUNDS"`, `"MONOTONICITY"`, `"CONVEXITY_0"`, `"CONVEXITY_1"`). -/
structure Changes where
  biasBounds : Rat
  hBounds : List Rat
  hMono : List Rat
  hConv0 : List Rat
  hConv1 : List Rat
  deriving Repr

/-- loop variables of the `tf.while_loop` -/
structure State where
  counter : Nat
  bias : Rat
  heights : List Rat
  lc : Changes
  deriving Repr

def initState (bias : Rat) (heights : List Rat) : State :=
  let z := zeros heights.length
  ⟨0, bias, heights, ⟨0, z, z, z, z⟩⟩

/-- `# **** BOUNDS ****` -/
def stepBounds (c : Cfg) (st : State) : Except Err State :=
  if c.minC ≠ .none ∨ c.maxC ≠ .none then
    let rb := st.bias - st.lc.biasBounds
    let rh := vsub st.heights st.lc.hBounds
    (if c.mono ≠ 0 then
      projectBoundsConsideringMonotonicity rb rh c.mono c.omin c.omax c.minC c.maxC
    else approxProjectBoundsOnly rb rh c.omin c.omax c.minC c.maxC).map fun r =>
      { counter := st.counter + 1, bias := r.1, heights := r.2,
        lc := { st.lc with biasBounds := r.1 - rb, hBounds := vsub r.2 rh } }
  else .ok st

/-- `# **** MONOTONICITY ****` -/
def stepMono (c : Cfg) (st : State) : State :=
  if c.mono ≠ 0 then
    let rh := vsub st.heights st.lc.hMono
    let h := projectMonotonicity rh c.mono
    { st with counter := st.counter + 1, heights := h, lc := { st.lc with hMono := vsub h rh } }
  else st

/-- `# **** CONVEXITY ****`, group 0 (`heights.shape[0] >= 2`) -/
def stepConv0 (c : Cfg) (lengths : List Rat) (st : State) : Except Err State :=
  if c.conv ≠ 0 ∧ 2 ≤ st.heights.length then
    let rh := vsub st.heights st.lc.hConv0
    (projectConvexity rh lengths c.conv 0).map fun h =>
      { st with counter := st.counter + 1, heights := h, lc := { st.lc with hConv0 := vsub h rh } }
  else .ok st

/-- `# **** CONVEXITY ****`, group 1 (`heights.shape[0] >= 3`) -/
def stepConv1 (c : Cfg) (lengths : List Rat) (st : State) : Except Err State :=
  if c.conv ≠ 0 ∧ 3 ≤ st.heights.length then
    let rh := vsub st.heights st.lc.hConv1
    (projectConvexity rh lengths c.conv 1).map fun h =>
      { st with counter := st.counter + 1, heights := h, lc := { st.lc with hConv1 := vsub h rh } }
  else .ok st

/-- `body` of the `tf.while_loop`: one step of Dykstra's projection over the configured sets;
`counter` advances by the number of projections done. -/
def body (c : Cfg) (lengths : List Rat) (st : State) : Except Err State := do
  let s1 ← stepBounds c st
  let s2 := stepMono c s1
  let s3 ← stepConv0 c lengths s2
  stepConv1 c lengths s3

/-- `tf.while_loop(cond, body, …)` with `cond = projection_counter < limit`; the fuel is an upper
bound of the number of iterations (the counter grows by at least one per iteration). -/
def whileLoop (c : Cfg) (lengths : List Rat) (limit : Nat) : Nat → State → Except Err State
  | 0, st => .ok st
  | fuel + 1, st =>
    if st.counter < limit then
      match body c lengths st with
      | .ok st' => whileLoop c lengths limit fuel st'
      | .error e => .error e
    else .ok st

/-- `project_all_constraints(weights, …, num_projection_iterations)` on one column.
The body is run once to count the projections; with at most one the result of that run is
returned, otherwise the loop restarts from the ORIGINAL `(bias, heights)` with zero
`last_change` and is followed by `_finalize_constraints`. -/
def projectAll (c : Cfg) (lengths : List Rat) (iters : Nat) (bias : Rat) (heights : List Rat) :
    Except Err (Rat × List Rat) :=
  match body c lengths (initState bias heights) with
  | .error e => .error e
  | .ok st1 =>
    let numProjections := st1.counter
    if numProjections ≤ 1 then .ok (st1.bias, st1.heights)
    else
      match whileLoop c lengths (iters * numProjections) (iters * numProjections)
          (initState bias heights) with
      | .error e => .error e
      | .ok st => finalize c lengths st.bias st.heights

/-- `PWLCalibrationConstraints(monotonicity, convexity, lengths, output_min, output_max,
output_min_constraints, output_max_constraints, num_projection_iterations)(w)` wired the way
`PWLCalibration.__init__/build` does: the constraint types come from `convert_all_constraints`;
`verify_hyperparameters` rejects `output_max < output_min`. -/
def constraintsCall (mono conv : Int) (omin omax : Option Rat) (clampMin clampMax : Bool)
    (lengths : List Rat) (iters : Nat) (bias : Rat) (heights : List Rat) :
    Except Err (Rat × List Rat) :=
  let bad : Bool := match omin, omax with
    | some a, some b => decide (b < a)
    | _, _ => false
  if bad then .error .valueError
  else
    let r := convertAllConstraints omin omax clampMin clampMax
    projectAll ⟨mono, conv, r.1, r.2.1, r.2.2.1, r.2.2.2⟩ lengths iters bias heights

/-- `NaiveBoundsConstraints(lower_bound, upper_bound)(w)` on one entry (the constraint of the
learned `missing_output`). -/
def naiveBounds (lo hi : Option Rat) (w : Rat) : Rat :=
  let w := match lo with | some l => max w l | none => w
  match hi with | some h => min w h | none => w

/-- `self.missing_output` of a built `PWLCalibration` layer after its constraint ran on the raw value `w`:
with `missing_output_value = v` it is the CONSTANT `tf.constant(v, shape=[1, units])` (no weight, no
constraint — `w` is irrelevant), otherwise the learned weight constrained by
`NaiveBoundsConstraints(output_min, output_max)`. -/
def missingOutputOf (fixed : Option Rat) (lo hi : Option Rat) (w : Rat) : Rat :=
  match fixed with
  | some v => v
  | none => naiveBounds lo hi w

/-! ### the property's vocabulary (decidable forms are used by the driver) -/

/-- heights have the sign demanded by `monotonicity` -/
def monoOkB (mono : Int) (heights : List Rat) : Bool :=
  if mono = 1 then heights.all (fun h => decide (0 ≤ h))
  else if mono = -1 then heights.all (fun h => decide (h ≤ 0))
  else true

/-- every keypoint output within the configured bounds -/
def boundsOkB (c : Cfg) (bias : Rat) (heights : List Rat) : Bool :=
  (outputs bias heights).all fun y =>
    (decide (c.minC = .none) || decide (c.omin ≤ y)) && (decide (c.maxC = .none) || decide (y ≤ c.omax))

end Tfl.PwlProj
