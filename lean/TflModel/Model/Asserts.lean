import TflModel.Model.Linear
import TflModel.Model.PwlEval
/-!
# `assert_constraints` of every layer kind, as executable accept/reject functions

Each `accepts…` mirrors one `assert_constraints`: one conjunct per `tf.Assert`, the same reductions
(`reduce_min` / `reduce_max` as `rmin` / `rmax`), the same comparison operators (`>=`, `<=`, `<`).
`true` = every assertion holds (the eager call returns), `false` = some `tf.Assert` fires
(`InvalidArgumentError`).

* Lattice: the kernel is a function on multi-indices over `sizes`; for `units > 1` the code appends
  the unit axis as a trailing non-monotone dimension (`withUnits`), which the model does literally.
* Linear / categorical / PWL / KFL: `accepts…` judges one unit column; `accepts…Layer` (section
  "Layer level" at the end) is the call as the layer makes it, on the whole units-column kernel given
  as the list of its columns `kernel[:, u]`, with the real reductions over the unit axis
  (`reduce_min` / `reduce_max` over all entries, `reduce_all` over per-unit tests). Props/C12Units.lean
  proves: the layer accepts iff every unit column is accepted.
* PWL layer level: `PWLCalibration.assert_constraints` judges `keypoints_outputs()` (for
  `learned_interior` keypoints since 57c7e1f, for fixed ones since 164b31b): `pwlLayerOutputs`, on
  `Tfl.PwlEval`.
-/
namespace Tfl.Asserts
open Tfl Tfl.Poset Tfl.Linear

/-- `reduce_min(l) >= c` (an empty reduction is `+inf`) -/
def minGe (l : List Rat) (c : Rat) : Bool :=
  match l with
  | [] => true
  | x :: xs => decide (c ≤ rmin x xs)
/-- `reduce_max(l) <= c` -/
def maxLe (l : List Rat) (c : Rat) : Bool :=
  match l with
  | [] => true
  | x :: xs => decide (rmax x xs ≤ c)

/-! ## Linear (`linear_lib.assert_constraints`) -/

def normOk (ord : NormOrd) (w : List Rat) (eps : Rat) : Bool :=
  match ord with
  | .none => true
  | .l1 => decide (Rat.abs (norm1 w - 1) < eps) || decide (Rat.abs (norm1 w) < normEps)
  | .linf => decide (Rat.abs (normInf w - 1) < eps) || decide (Rat.abs (normInf w) < normEps)
  | .l2 =>
    -- `|sqrt s - 1| < eps  ∨  |sqrt s| < 1e-8` on `s = Σ w²`, without the square root
    let s := normSq w
    (decide (0 < 1 + eps) && decide (s < (1 + eps) * (1 + eps)) &&
      (decide (1 - eps < 0) || decide ((1 - eps) * (1 - eps) < s))) || decide (s < normEps * normEps)

def linMono (monos : List Int) (w : List Rat) (eps : Rat) : Bool :=
  if monos.any (· != 0) then minGe (List.zipWith (fun x (m : Int) => x * (m : Rat)) w monos) (-eps) else true
def linMdom (md : Pairs) (w : List Rat) (eps : Rat) : Bool :=
  md.all (fun c => decide (-eps ≤ getV w c.1 - getV w c.2))
def linRdom (monos : List Int) (rd : Pairs) (los his : List (Option Rat)) (w : List Rat) (eps : Rat) : Bool :=
  let sc := scalingsAll monos los his
  rd.all (fun c => decide (-eps ≤ getV sc c.1 * getV w c.1 - getV sc c.2 * getV w c.2))

def acceptsLinear (monos : List Int) (md rd : Pairs) (los his : List (Option Rat)) (ord : NormOrd)
    (w : List Rat) (eps : Rat) : Bool :=
  linMono monos w eps && linMdom md w eps && linRdom monos rd los his w eps && normOk ord w eps

/-! ## Categorical (`categorical_calibration_lib.assert_constraints`) -/

def catLo (lo : Option Rat) (w : List Rat) (eps : Rat) : Bool :=
  match lo with | none => true | some l => minGe w (l - eps)
def catHi (hi : Option Rat) (w : List Rat) (eps : Rat) : Bool :=
  match hi with | none => true | some h => maxLe w (h + eps)
/-- `reduce_max(left - right) <= eps` -/
def catPairs (cs : Pairs) (w : List Rat) (eps : Rat) : Bool :=
  maxLe (cs.map (fun c => getV w c.1 - getV w c.2)) eps

def acceptsCategorical (lo hi : Option Rat) (cs : Pairs) (w : List Rat) (eps : Rat) : Bool :=
  catLo lo w eps && catHi hi w eps && catPairs cs w eps

/-! ## PWL calibration (`PWLCalibration.assert_constraints` → `pwl_calibration_lib.assert_constraints`)
The layer evaluates itself at its keypoints: for fixed, non-cyclic keypoints output `k` is
`bias + Σ_{j<k} heights_j`. -/

def prefixSums (b : Rat) : List Rat → List Rat
  | [] => [b]
  | h :: hs => b :: prefixSums (b + h) hs
/-- kernel = bias :: heights -/
def pwlOutputs : List Rat → List Rat
  | [] => []
  | b :: hs => prefixSums b hs
/-- `outputs[1:] - outputs[0:-1]` -/
def diffs : List Rat → List Rat
  | x :: y :: r => (y - x) :: diffs (y :: r)
  | _ => []

def pwlLo (lo : Option Rat) (clamp : Bool) (out : List Rat) (eps : Rat) : Bool :=
  match lo, out with
  | some l, x :: xs =>
    if clamp then decide (Rat.abs (rmin x xs - l) ≤ eps) else decide (l - eps ≤ rmin x xs)
  | _, _ => true
def pwlHi (hi : Option Rat) (clamp : Bool) (out : List Rat) (eps : Rat) : Bool :=
  match hi, out with
  | some h, x :: xs =>
    if clamp then decide (Rat.abs (rmax x xs - h) ≤ eps) else decide (rmax x xs ≤ h + eps)
  | _, _ => true
def pwlMono (mono : Int) (out : List Rat) (eps : Rat) : Bool :=
  if mono = 0 then true else minGe ((diffs out).map (fun d => d * (mono : Rat))) (-eps)

def acceptsPwlOutputs (mono : Int) (lo hi : Option Rat) (clampMin clampMax : Bool) (out : List Rat)
    (eps : Rat) : Bool :=
  pwlLo lo clampMin out eps && pwlHi hi clampMax out eps && pwlMono mono out eps

/-- `missing = some v`: `impute_missing` with a learned `missing_output` (bounds only, no clamps) -/
def acceptsPwl (mono : Int) (lo hi : Option Rat) (clampMin clampMax : Bool) (missing : Option Rat)
    (kernel : List Rat) (eps : Rat) : Bool :=
  acceptsPwlOutputs mono lo hi clampMin clampMax (pwlOutputs kernel) eps &&
  (match missing with
   | none => true
   | some v => acceptsPwlOutputs 0 lo hi false false [v] eps)

/-! ## Lattice (`lattice_lib.assert_constraints`) -/

structure LatCfg where
  sizes : List Nat
  monos : List Int                  -- canonicalised: 0 / 1; `[]` = None
  edge : List (Nat × Nat × Int)     -- (main, cond, direction)
  trap : List (Nat × Nat × Int)
  mdom : List (Nat × Nat)           -- (dominant, weak)
  rdom : List (Nat × Nat)
  jmono : List (Nat × Nat)
  lo : Option Rat
  hi : Option Rat

def sz (c : LatCfg) (d : Nat) : Nat := c.sizes.getD d 0

/-- `if weights.shape[1] > 1: lattice_sizes += [units]; monotonicities += [0]` -/
def withUnits (c : LatCfg) (units : Nat) : LatCfg :=
  if units > 1 then
    { c with sizes := c.sizes ++ [units], monos := if c.monos.isEmpty then c.monos else c.monos ++ [0] }
  else c

/-- the positions of `_unstack_nd(weights, [a, b])[i][j]` -/
def cells (sizes : List Nat) (a b i j : Nat) : List Idx :=
  (allIdx sizes).filter (fun idx => coord idx a == i && coord idx b == j)
/-- the entry of `_unstack_nd(weights, [a, b])[i][j]` lying behind the same position as `idx` -/
def at2 (w : W) (idx : Idx) (a b i j : Nat) : Rat := w (setc (setc idx a i) b j)

/-- `for i in range(na): for j in range(nb): assert reduce_min(f i j) >= -eps` -/
def forCells (sizes : List Nat) (a b na nb : Nat) (f : Nat → Nat → Idx → Rat) (eps : Rat) : Bool :=
  (List.range na).all fun i => (List.range nb).all fun j =>
    minGe ((cells sizes a b i j).map (f i j)) (-eps)

def latMono (c : LatCfg) (w : W) (eps : Rat) : Bool :=
  (List.range c.monos.length).all fun i =>
    if c.monos.getD i 0 = 1 then
      (List.range (sz c i - 1)).all fun j =>
        minGe (((allIdx c.sizes).filter (fun idx => coord idx i == j + 1)).map
          (fun idx => w idx - w (setc idx i j))) (-eps)
    else true

def latEdge (c : LatCfg) (w : W) (eps : Rat) : Bool :=
  c.edge.all fun (a, b, dir) =>
    forCells c.sizes a b (sz c a - 1) (sz c b - 1) (fun i j idx =>
      (dir : Rat) * ((at2 w idx a b (i + 1) (j + 1) - at2 w idx a b i (j + 1)) -
                     (at2 w idx a b (i + 1) j - at2 w idx a b i j))) eps

def latTrap (c : LatCfg) (w : W) (eps : Rat) : Bool :=
  c.trap.all fun (a, b, dir) =>
    (List.range (sz c b - 1)).all fun j =>
      minGe ((cells c.sizes a b 0 j).map (fun idx =>
        (dir : Rat) * (at2 w idx a b 0 j - at2 w idx a b 0 (j + 1)))) (-eps) &&
      minGe ((cells c.sizes a b (sz c a - 1) j).map (fun idx =>
        (dir : Rat) * (at2 w idx a b (sz c a - 1) (j + 1) - at2 w idx a b (sz c a - 1) j))) (-eps)

def latMdom (c : LatCfg) (w : W) (eps : Rat) : Bool :=
  c.mdom.all fun (a, b) =>
    forCells c.sizes a b (sz c a - 1) (sz c b - 1) (fun i j idx =>
      at2 w idx a b (i + 1) j - (at2 w idx a b (i + 1) (j + 1) + at2 w idx a b i j) / 2) eps &&
    forCells c.sizes a b (sz c a - 1) (sz c b - 1) (fun i j idx =>
      (at2 w idx a b (i + 1) (j + 1) + at2 w idx a b i j) / 2 - at2 w idx a b i (j + 1)) eps

def latRdom (c : LatCfg) (w : W) (eps : Rat) : Bool :=
  c.rdom.all fun (a, b) =>
    forCells c.sizes a b (sz c a) (sz c b) (fun i j idx =>
      (at2 w idx a b (sz c a - 1) j - at2 w idx a b 0 j) -
      (at2 w idx a b i (sz c b - 1) - at2 w idx a b i 0)) eps

def latJoint (c : LatCfg) (w : W) (eps : Rat) : Bool :=
  c.jmono.all fun (a, b) =>
    forCells c.sizes a b (sz c a - 1) (sz c b - 1) (fun i j idx =>
      at2 w idx a b (i + 1) (j + 1) - (at2 w idx a b (i + 1) j + at2 w idx a b i (j + 1)) / 2) eps &&
    forCells c.sizes a b (sz c a - 1) (sz c b - 1) (fun i j idx =>
      (at2 w idx a b (i + 1) j + at2 w idx a b i (j + 1)) / 2 - at2 w idx a b i j) eps

def latLo (c : LatCfg) (w : W) (eps : Rat) : Bool :=
  match c.lo with | none => true | some l => minGe ((allIdx c.sizes).map w) (l - eps)
def latHi (c : LatCfg) (w : W) (eps : Rat) : Bool :=
  match c.hi with | none => true | some h => maxLe ((allIdx c.sizes).map w) (h + eps)

/-- all assertions of `lattice_lib.assert_constraints` on a kernel already reshaped to `c.sizes` -/
def acceptsLatticeW (c : LatCfg) (w : W) (eps : Rat) : Bool :=
  latMono c w eps && latEdge c w eps && latTrap c w eps && latMdom c w eps && latRdom c w eps &&
  latJoint c w eps && latLo c w eps && latHi c w eps

/-- the layer-level call: kernel `(prod sizes, units)` given row-major as a table over
`sizes ++ [units]` (just `sizes` for one unit) -/
def acceptsLattice (c : LatCfg) (units : Nat) (vals : List Rat) (eps : Rat) : Bool :=
  let c' := withUnits c units
  acceptsLatticeW c' (Table.ofVals c'.sizes vals).get eps

/-! ## KroneckerFactoredLattice (`kronecker_factored_lattice_lib.assert_constraints`), one unit:
`w[k][d][t]` (keypoint, dimension, term), `scale[t]`. -/

def get3 (w : List (List (List Rat))) (k d t : Nat) : Rat := ((w.getD k []).getD d []).getD t 0
/-- `tf.sign` -/
def sign (s : Rat) : Rat := if 0 < s then 1 else if s < 0 then -1 else 0

def kflMono (ls dims terms : Nat) (monos : List Int) (w : List (List (List Rat))) (scale : List Rat)
    (eps : Rat) : Bool :=
  (List.range (min dims monos.length)).all fun d =>
    if monos.getD d 0 ≠ 0 then
      (List.range (ls - 1)).all fun j =>
        minGe ((List.range terms).map (fun t =>
          sign (getV scale t) * get3 w (j + 1) d t - sign (getV scale t) * get3 w j d t)) (-eps)
    else true

def kflBounds (ls dims terms : Nat) (lo hi : Option Rat) (w : List (List (List Rat))) (scale : List Rat)
    (eps : Rat) : Bool :=
  let noNeg : Bool := (List.range ls).all fun k => (List.range dims).all fun d =>
    (List.range terms).all fun t => !decide (get3 w k d t < 0)
  match lo, hi with
  | none, none => true
  | some l, some h =>
    ((List.range terms).all fun t =>
      decide (-eps ≤ 1 - rprod ((List.range dims).map (fun d =>
        match (List.range ls).map (fun k => Rat.abs (get3 w k d t)) with
        | [] => 0
        | x :: xs => rmax x xs)))) &&
    scale.all (fun s => !decide (s < -((h - l) / 2)) && !decide ((h - l) / 2 < s))
  | some _, none => noNeg && scale.all (fun s => !decide (s < 0))
  | none, some _ => noNeg && scale.all (fun s => !decide (0 < s))

def acceptsKfl (ls dims terms : Nat) (monos : List Int) (lo hi : Option Rat)
    (w : List (List (List Rat))) (scale : List Rat) (eps : Rat) : Bool :=
  kflMono ls dims terms monos w scale eps && kflBounds ls dims terms lo hi w scale eps

/-! ## Layer level: the whole units-column kernel

A kernel of shape `(n, units)` is given as the list `cols` of its unit columns `cols[u] = kernel[:, u]`.
A reduction over ALL entries (`tf.reduce_min(t)`) is a reduction over the concatenation of the
columns' entries; `reduce_min(t, axis=0)` followed by `reduce_all` is one test per column. -/

/-! `categorical_calibration_lib.assert_constraints(weights (num_buckets, units), …)` -/
/-- `reduce_min(weights) >= output_min - eps` -/
def catLoL (lo : Option Rat) (cols : List (List Rat)) (eps : Rat) : Bool :=
  match lo with | none => true | some l => minGe cols.flatten (l - eps)
/-- `reduce_max(weights) <= output_max + eps` -/
def catHiL (hi : Option Rat) (cols : List (List Rat)) (eps : Rat) : Bool :=
  match hi with | none => true | some h => maxLe cols.flatten (h + eps)
/-- `reduce_max(left - right) <= eps`, `left/right = gather_nd(weights, [[i]…])` of shape `(pairs, units)` -/
def catPairsL (cs : Pairs) (cols : List (List Rat)) (eps : Rat) : Bool :=
  maxLe (cols.flatMap (fun w => cs.map (fun c => getV w c.1 - getV w c.2))) eps

def acceptsCategoricalLayer (lo hi : Option Rat) (cs : Pairs) (cols : List (List Rat)) (eps : Rat) : Bool :=
  catLoL lo cols eps && catHiL hi cols eps && catPairsL cs cols eps

/-! `linear_lib.assert_constraints(weights (n, units), …)` -/
/-- `reduce_min(weights * monotonicities) >= -eps` over all `(input, unit)` entries -/
def linMonoL (monos : List Int) (cols : List (List Rat)) (eps : Rat) : Bool :=
  if monos.any (· != 0) then
    minGe (cols.flatMap (fun w => List.zipWith (fun x (m : Int) => x * (m : Rat)) w monos)) (-eps)
  else true
/-- per pair `reduce_min(weights[dom] - weights[weak]) >= -eps` over the units -/
def linMdomL (md : Pairs) (cols : List (List Rat)) (eps : Rat) : Bool :=
  md.all (fun c => minGe (cols.map (fun w => getV w c.1 - getV w c.2)) (-eps))
def linRdomL (monos : List Int) (rd : Pairs) (los his : List (Option Rat)) (cols : List (List Rat)) (eps : Rat) : Bool :=
  let sc := scalingsAll monos los his
  rd.all (fun c => minGe (cols.map (fun w => getV sc c.1 * getV w c.1 - getV sc c.2 * getV w c.2)) (-eps))
/-- `tf.norm(weights, axis=0)` per unit, `reduce_all` of the per-unit tests -/
def linNormL (ord : NormOrd) (cols : List (List Rat)) (eps : Rat) : Bool :=
  cols.all (fun w => normOk ord w eps)

def acceptsLinearLayer (monos : List Int) (md rd : Pairs) (los his : List (Option Rat)) (ord : NormOrd)
    (cols : List (List Rat)) (eps : Rat) : Bool :=
  linMonoL monos cols eps && linMdomL md cols eps && linRdomL monos rd los his cols eps && linNormL ord cols eps

/-- the `outputs` column of unit `u` in `PWLCalibration.assert_constraints`: `keypoints_outputs()`
in every case (learned keypoints since 57c7e1f, fixed keypoints since 164b31b; before, the layer
evaluated `call(input_keypoints)`: `C12.oldCallOutputs`, Props/C12Units.lean) -/
def pwlLayerOutputs (cfg : PwlEval.Cfg) (kernel : List Rat) : List Rat :=
  PwlEval.keypointsOutputs cfg kernel

/-- `pwl_calibration_lib.assert_constraints(outputs (K, units), …)`: bounds and clamps test
`reduce_min/max(outputs, axis=0)` per unit and `reduce_all`; monotonicity is ONE
`reduce_min(diffs * monotonicity)` over all units -/
def pwlMonoL (mono : Int) (outs : List (List Rat)) (eps : Rat) : Bool :=
  if mono = 0 then true
  else minGe (outs.flatMap (fun out => (diffs out).map (fun d => d * (mono : Rat)))) (-eps)

def acceptsPwlOutputsLayer (mono : Int) (lo hi : Option Rat) (clampMin clampMax : Bool)
    (outs : List (List Rat)) (eps : Rat) : Bool :=
  outs.all (fun out => pwlLo lo clampMin out eps) && outs.all (fun out => pwlHi hi clampMax out eps) &&
  pwlMonoL mono outs eps

/-- `PWLCalibration.assert_constraints(eps)`: `cols[u]` the kernel column, `mouts[u]` the entry of
`self.missing_output` of unit `u` (read only when `assertMissing`);
`assertMissing = impute_missing and missing_output_value is None` (the learned missing output is
judged against the bounds, as a `(1, units)` outputs tensor) -/
def acceptsPwlLayer (mono : Int) (lo hi : Option Rat) (clampMin clampMax : Bool) (assertMissing : Bool)
    (cfg : PwlEval.Cfg) (cols : List (List Rat)) (mouts : List Rat) (eps : Rat) : Bool :=
  acceptsPwlOutputsLayer mono lo hi clampMin clampMax
    ((List.range cols.length).map (fun u => pwlLayerOutputs cfg (cols.getD u []))) eps &&
  (if assertMissing then
     acceptsPwlOutputsLayer 0 lo hi false false ((List.range cols.length).map (fun u => [getR mouts u])) eps
   else true)

/-- `kronecker_factored_lattice_lib.assert_constraints`: `us[u] = (weights[0, :, u, :, :], scale[u, :])`.
Monotonicity: per dimension and adjacent keypoint pair ONE `reduce_min` over units × terms.
Both bounds: one assertion per (term, unit) on `max_output_values`; the scale test counts the
offending entries of the whole `scale`. One bound: the negative entries of the whole kernel and the
wrongly signed entries of the whole `scale` are counted. -/
def kflMonoL (ls dims terms : Nat) (monos : List Int) (us : List (List (List (List Rat)) × List Rat))
    (eps : Rat) : Bool :=
  (List.range (min dims monos.length)).all fun d =>
    if monos.getD d 0 ≠ 0 then
      (List.range (ls - 1)).all fun j =>
        minGe (us.flatMap (fun u => (List.range terms).map (fun t =>
          sign (getV u.2 t) * get3 u.1 (j + 1) d t - sign (getV u.2 t) * get3 u.1 j d t))) (-eps)
    else true

def kflBoundsL (ls dims terms : Nat) (lo hi : Option Rat) (us : List (List (List (List Rat)) × List Rat))
    (eps : Rat) : Bool :=
  let noNeg : Bool := us.all fun u => (List.range ls).all fun k => (List.range dims).all fun d =>
    (List.range terms).all fun t => !decide (get3 u.1 k d t < 0)
  let scaleAll : List Rat := us.flatMap (·.2)
  match lo, hi with
  | none, none => true
  | some l, some h =>
    ((List.range terms).all fun t => us.all fun u =>
      decide (-eps ≤ 1 - rprod ((List.range dims).map (fun d =>
        match (List.range ls).map (fun k => Rat.abs (get3 u.1 k d t)) with
        | [] => 0
        | x :: xs => rmax x xs)))) &&
    scaleAll.all (fun s => !decide (s < -((h - l) / 2)) && !decide ((h - l) / 2 < s))
  | some _, none => noNeg && scaleAll.all (fun s => !decide (s < 0))
  | none, some _ => noNeg && scaleAll.all (fun s => !decide (0 < s))

def acceptsKflLayer (ls dims terms : Nat) (monos : List Int) (lo hi : Option Rat)
    (us : List (List (List (List Rat)) × List Rat)) (eps : Rat) : Bool :=
  kflMonoL ls dims terms monos us eps && kflBoundsL ls dims terms lo hi us eps

end Tfl.Asserts
