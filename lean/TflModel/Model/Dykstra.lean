import TflModel.Model.Lattice
/-!
# `project_by_dykstra` and the `_project_partial_*` group projections (one unit)

Each group projection is a function `W → W` that acts on disjoint stencils (pairs, 2×2
squares, triangles, range quadruples). The Dykstra loop carries the weights and one
`last_change` tensor per group KEY (`SlotKey`: the key of the Python dict `last_change`), in the
fixed order in which the Python visits the groups (`groups`, `groupKeys`). A constraint that is
listed twice has the same keys both times, so its second visit in a pass reads and overwrites the
slot written by the first (`slots`, `dykstraPassS`, `dykstraPassST`) — exactly as the dict does.
The loops with one slot per list POSITION (`dykstraPass`, `dykstraPassT`) are what the slotted
loops are when no key repeats (`Lemmas/DykstraSlots.lean`).
-/
namespace Tfl.Lat
open Tfl

/-- does loop variable `range(g, n - 1, 2)` take the value `i`? -/
def inGroup (g n i : Nat) : Bool := g ≤ i && i + 1 < n && (i - g) % 2 == 0

/-- kind of update applied to the lower / upper element of a pair -/
inductive PairKind | incr | decr | none
  deriving DecidableEq, Repr

/-- which direction `_project_partial_monotonicity` enforces for the pair `(i, i+1)` of a dimension
with the given monotonicity / unimodality flags -/
def pairKind (mono : Bool) (unimod : Int) (size i : Nat) : PairKind :=
  if mono then .incr
  else if unimod = 0 then .none
  else
    let first := decide (i < size / 2)
    if (unimod = -1 ∧ first) ∨ (unimod = 1 ∧ ¬ first) then .incr else .decr

/-- `_project_partial_monotonicity(weights, …, dimension=d, constraint_group=g)` -/
def monoGroup (size : Nat) (mono : Bool) (unimod : Int) (d g : Nat) (w : W) : W := fun idx =>
  let k := coord idx d
  if inGroup g size k then
    -- lower element of the pair (k, k+1)
    let avg := (w idx + w (setc idx d (k+1))) / 2
    match pairKind mono unimod size k with
    | .incr => min (w idx) avg
    | .decr => max (w idx) avg
    | .none => w idx
  else if 1 ≤ k ∧ inGroup g size (k-1) then
    let avg := (w (setc idx d (k-1)) + w idx) / 2
    match pairKind mono unimod size (k-1) with
    | .incr => max (w idx) avg
    | .decr => min (w idx) avg
    | .none => w idx
  else w idx

/-- position of conditional layer `j` after the optional reversal -/
def rev (N : Nat) (pos : Bool) (j : Nat) : Nat := if pos then j else N - 1 - j

/-- the base index `i0 ∈ {a-1, a}` of the group stencil (start `g`, step 2, `< n-1`) containing `a` -/
def stencilBase (g n a : Nat) : Option Nat :=
  if inGroup g n a then some a
  else if 1 ≤ a ∧ inGroup g n (a-1) then some (a-1)
  else none

/-- `_project_partial_edgeworth` for group `(g0, g1)` -/
def edgeworthGroup (M N : Nat) (tr : Trust) (g0 g1 : Nat) (w : W) : W := fun idx =>
  let a := coord idx tr.main
  let j := rev N tr.pos (coord idx tr.cond)       -- position in the (possibly reversed) list
  match stencilBase g0 M a, stencilBase g1 N j with
  | some i0, some j0 =>
    let L := fun (x y : Nat) => gat w tr.main tr.cond x (rev N tr.pos y) idx
    let diff := (L (i0+1) j0 - L i0 j0) - (L (i0+1) (j0+1) - L i0 (j0+1))
    let corr := max (diff / 4) 0
    if (a - i0 + (j - j0)) % 2 == 0 then w idx + corr else w idx - corr
  | _, _ => w idx

/-- `_project_partial_trapezoid` for group `g` -/
def trapezoidGroup (M N : Nat) (tr : Trust) (g : Nat) (w : W) : W := fun idx =>
  let a := coord idx tr.main
  let j := rev N tr.pos (coord idx tr.cond)
  match stencilBase g N j with
  | some j0 =>
    let L := fun (x y : Nat) => gat w tr.main tr.cond x (rev N tr.pos y) idx
    if a = 0 then
      let corr := max ((L 0 (j0+1) - L 0 j0) / 2) 0
      if j = j0 then w idx + corr else w idx - corr
    else if a = M - 1 then
      let corr := max ((L (M-1) j0 - L (M-1) (j0+1)) / 2) 0
      if j = j0 then w idx - corr else w idx + corr
    else w idx
  | none => w idx

/-- `_project_partial_monotonic_dominance` for group `(g0, g1, g2)` on dims `(dom, weak)` -/
def monoDomGroup (M N : Nat) (dom weak : Nat) (g0 g1 : Nat) (g2 : Bool) (w : W) : W := fun idx =>
  let a := coord idx dom
  let j := coord idx weak
  match stencilBase g0 M a, stencilBase g1 N j with
  | some i0, some j0 =>
    let L := fun (x y : Nat) => gat w dom weak x y idx
    let mid := (L i0 j0 + L (i0+1) (j0+1)) / 2
    if g2 then
      let corr := max ((mid - L (i0+1) j0) / 3) 0
      if a = i0 + 1 ∧ j = j0 then w idx + 2 * corr
      else if (a = i0 ∧ j = j0) ∨ (a = i0 + 1 ∧ j = j0 + 1) then w idx - corr
      else w idx
    else
      let corr := min ((mid - L i0 (j0+1)) / 3) 0
      if a = i0 ∧ j = j0 + 1 then w idx + 2 * corr
      else if (a = i0 ∧ j = j0) ∨ (a = i0 + 1 ∧ j = j0 + 1) then w idx - corr
      else w idx
  | _, _ => w idx

/-- `_project_partial_joint_monotonicity` for group `(g0, g1, g2)` on dims `(d1, d2)` -/
def jointMonoGroup (M N : Nat) (d1 d2 : Nat) (g0 g1 : Nat) (g2 : Bool) (w : W) : W := fun idx =>
  let a := coord idx d1
  let j := coord idx d2
  match stencilBase g0 M a, stencilBase g1 N j with
  | some i0, some j0 =>
    let L := fun (x y : Nat) => gat w d1 d2 x y idx
    let mid := (L (i0+1) j0 + L i0 (j0+1)) / 2
    if g2 then
      let corr := max ((mid - L (i0+1) (j0+1)) / 3) 0
      if a = i0 + 1 ∧ j = j0 + 1 then w idx + 2 * corr
      else if (a = i0 + 1 ∧ j = j0) ∨ (a = i0 ∧ j = j0 + 1) then w idx - corr
      else w idx
    else
      let corr := min ((mid - L i0 j0) / 3) 0
      if a = i0 ∧ j = j0 then w idx + 2 * corr
      else if (a = i0 + 1 ∧ j = j0) ∨ (a = i0 ∧ j = j0 + 1) then w idx - corr
      else w idx
  | _, _ => w idx

/-- `_project_partial_range_dominance` for the vertex `(i, j)` of dims `(dom, weak)` -/
def rangeDomGroup (M N : Nat) (dom weak : Nat) (i j : Nat) (w : W) : W := fun idx =>
  let a := coord idx dom
  let k := coord idx weak
  let L := fun (x y : Nat) => gat w dom weak x y idx
  let diff := (L i (N-1) - L i 0) - (L (M-1) j - L 0 j)
  if (i = 0 ∨ i = M - 1) ∧ (j = 0 ∨ j = N - 1) then
    let corr := max (diff / 2) 0
    -- sequential in-place updates of the Python, in order
    let u1 : Rat := if i = 0 then (if a = M - 1 ∧ k = j then corr else 0)
                    else (if a = 0 ∧ k = j then -corr else 0)
    let u2 : Rat := if j = 0 then (if a = i ∧ k = N - 1 then -corr else 0)
                    else (if a = i ∧ k = 0 then corr else 0)
    w idx + u1 + u2
  else
    let corr := max (diff / 4) 0
    let u1 : Rat := if a = i ∧ k = N - 1 then -corr else 0
    let u2 : Rat := if a = i ∧ k = 0 then corr else 0
    let u3 : Rat := if a = M - 1 ∧ k = j then corr else 0
    let u4 : Rat := if a = 0 ∧ k = j then -corr else 0
    w idx + u1 + u2 + u3 + u4

/-! ## joint unimodality: one half-space projection per (vertex, offsets) pair -/

/-- one joint unimodality constraint: the constrained dimensions and the direction
(`valley = true` for `'valley'`, `false` for `'peak'`) -/
structure JointUni where
  dims : List Nat
  valley : Bool
  deriving DecidableEq, Repr

/-- coordinates of `idx` along `dims` (the position inside `_unstack_nd(weights, dims)`) -/
def coordsOf (idx : Idx) (dims : List Nat) : List Nat := dims.map (coord idx)

/-- `idx` with the coordinates along `dims` replaced by `pos` -/
def setcs (idx : Idx) : List Nat → List Nat → Idx
  | d :: ds, v :: vs => setcs (setc idx d v) ds vs
  | _, _ => idx

/-- the loop `for dim, offset in enumerate(offsets)` of `_project_partial_joint_unimodality`
over the dimension positions `ts`: `none` = a neighbour with non-zero weight leaves the lattice;
otherwise the (neighbour, coefficient) pairs in loop order -/
def juTerms (ub center vertex : List Nat) (offsets : List Int) : List Nat → Option (List (List Nat × Int))
  | [] => some []
  | t :: ts =>
    let wgt : Int := (vertex.getD t 0 : Int) - (center.getD t 0 : Int)
    if wgt = 0 then juTerms ub center vertex offsets ts
    else
      let nb : Int := (vertex.getD t 0 : Int) + offsets.getD t 0
      if nb < 0 ∨ nb ≥ (ub.getD t 0 : Int) then none
      else (juTerms ub center vertex offsets ts).map
        (fun rest => (vertex.set t nb.toNat, wgt * offsets.getD t 0) :: rest)

/-- the hyperplane of the pair `(vertex, offsets)`: stencil positions (coordinates along the
constrained dimensions) with their integer coefficients, the vertex itself last with minus the sum;
`none` when `_project_partial_joint_unimodality` returns `None` -/
def juStencil (ub vertex : List Nat) (offsets : List Int) : Option (List (List Nat × Int)) :=
  let center := ub.map (· / 2)
  if vertex = center then none
  else
    match juTerms ub center vertex offsets (List.range offsets.length) with
    | none => none
    | some [] => none
    | some ts => some (ts ++ [(vertex, - (ts.map (·.2)).foldl (· + ·) 0)])

/-- `_project_onto_hyperplane`: in every slice of the non-constrained dimensions the stencil values
`v` become `v − (min(a·v, 0) [valley] | max(a·v, 0) [peak]) / (a·a) · a` -/
def hyperplaneGroup (dims : List Nat) (valley : Bool) (st : List (List Nat × Int)) (w : W) : W := fun idx =>
  let viol := rsum (st.map (fun pc => (pc.2 : Rat) * w (setcs idx dims pc.1)))
  let v := if valley then min viol 0 else max viol 0
  let factor := v / rsum (st.map (fun pc => (pc.2 : Rat) * (pc.2 : Rat)))
  match st.lookup (coordsOf idx dims) with
  | some a => w idx - factor * (a : Rat)
  | none => w idx

/-- `itertools.product([-1, 1], repeat=n)` -/
def offsetsAll : Nat → List (List Int)
  | 0 => [[]]
  | n + 1 => [-1, 1].flatMap (fun o => (offsetsAll n).map (fun r => o :: r))

/-! ## the group schedule of `project_by_dykstra` -/

structure DCfg where
  sizes : List Nat
  mono : List Bool
  unimod : List Int := []
  edgeworth : List Trust := []
  trapezoid : List Trust := []
  monoDom : List (Nat × Nat) := []
  rangeDom : List (Nat × Nat) := []
  jointMono : List (Nat × Nat) := []
  jointUnimod : List JointUni := []

def sz (c : DCfg) (d : Nat) : Nat := c.sizes.getD d 0

/-- all group projections in the order the loop body visits them (skip conditions included) -/
def groups (c : DCfg) : List (W → W) :=
  let monoG : List (W → W) := (List.range c.sizes.length).flatMap (fun d =>
    let m := c.mono.getD d false
    let u := c.unimod.getD d 0
    if !m && u == 0 then [] else
      ([0, 1].filter (fun g => g + 1 < sz c d)).map (fun g => monoGroup (sz c d) m u d g))
  let edgeG : List (W → W) := c.edgeworth.flatMap (fun tr =>
    ([(0,0),(0,1),(1,0),(1,1)].filter (fun g => g.1 + 1 < sz c tr.main ∧ g.2 + 1 < sz c tr.cond)).map
      (fun g => edgeworthGroup (sz c tr.main) (sz c tr.cond) tr g.1 g.2))
  let trapG : List (W → W) := c.trapezoid.flatMap (fun tr =>
    ([0, 1].filter (fun g => g + 1 < sz c tr.cond)).map
      (fun g => trapezoidGroup (sz c tr.main) (sz c tr.cond) tr g))
  let tri : List (Nat × Nat × Bool) :=
    [(0,0,false),(0,0,true),(0,1,false),(0,1,true),(1,0,false),(1,0,true),(1,1,false),(1,1,true)]
  let mdG : List (W → W) := c.monoDom.flatMap (fun p =>
    (tri.filter (fun g => g.1 + 1 < sz c p.1 ∧ g.2.1 + 1 < sz c p.2)).map
      (fun g => monoDomGroup (sz c p.1) (sz c p.2) p.1 p.2 g.1 g.2.1 g.2.2))
  let rdG : List (W → W) := c.rangeDom.flatMap (fun p =>
    (List.range (sz c p.1)).flatMap (fun i => (List.range (sz c p.2)).map (fun j =>
      rangeDomGroup (sz c p.1) (sz c p.2) p.1 p.2 i j)))
  let jmG : List (W → W) := c.jointMono.flatMap (fun p =>
    (tri.filter (fun g => g.1 + 1 < sz c p.1 ∧ g.2.1 + 1 < sz c p.2)).map
      (fun g => jointMonoGroup (sz c p.1) (sz c p.2) p.1 p.2 g.1 g.2.1 g.2.2))
  -- joint unimodality: every (vertex, offsets) pair that yields a hyperplane, in loop order
  let juG : List (W → W) := c.jointUnimod.flatMap (fun ju =>
    let ub := ju.dims.map (sz c)
    (allIdx ub).flatMap (fun vertex =>
      (offsetsAll ju.dims.length).filterMap (fun offs =>
        (juStencil ub vertex offs).map (fun st => hyperplaneGroup ju.dims ju.valley st))))
  monoG ++ edgeG ++ trapG ++ mdG ++ rdG ++ jmG ++ juG

/-- the early-return test of `project_by_dykstra` -/
def dykstraActive (c : DCfg) : Bool :=
  (c.mono.any id || c.unimod.any (· != 0)) || !c.jointMono.isEmpty || !c.jointUnimod.isEmpty ||
    !c.rangeDom.isEmpty

/-! ### the loop, function level (what the bookkeeping theorems talk about) -/

/-- one group visit: roll back, project, record the change -/
def visit (P : W → W) (w c : W) : W × W :=
  let rolled : W := fun idx => w idx - c idx
  let w' := P rolled
  (w', fun idx => w' idx - rolled idx)

/-- one pass over all groups; `cs` is aligned with `ps` -/
def dykstraPass : List (W → W) → W → List W → W × List W
  | [], w, _ => (w, [])
  | P :: ps, w, cs =>
    let r := visit P w (cs.headD (fun _ => 0))
    let rest := dykstraPass ps r.1 cs.tail
    (rest.1, r.2 :: rest.2)

def dykstraIter (ps : List (W → W)) : Nat → W × List W → W × List W
  | 0, s => s
  | n+1, s => let s' := dykstraPass ps s.1 s.2; dykstraIter ps n s'

/-! ### the loop, executable (tables) -/

def subT (sizes : List Nat) (a b : Table) : Table := tabulate sizes (fun idx => a.get idx - b.get idx)
def zeroT (sizes : List Nat) : Table := tabulate sizes (fun _ => 0)

def dykstraPassT (sizes : List Nat) : List (W → W) → Table → List Table → Table × List Table
  | [], t, _ => (t, [])
  | P :: ps, t, cs =>
    let rolled := subT sizes t (cs.headD (zeroT sizes))
    let t' := runStage sizes P rolled
    let rest := dykstraPassT sizes ps t' cs.tail
    (rest.1, subT sizes t' rolled :: rest.2)

def dykstraIterT (sizes : List Nat) (ps : List (W → W)) : Nat → Table × List Table → Table × List Table
  | 0, s => s
  | n+1, s => dykstraIterT sizes ps n (dykstraPassT sizes ps s.1 s.2)

/-! ### the `last_change` dict: one slot per KEY

`last_change[("MONOTONICITY", dim, group)]`, `last_change[("EDGEWORTH", constraint, group)]`, …,
`last_change[("JOINT_UNIMODALITY", dimensions, direction, vertex, offsets)]` (the direction is part
of the key since /repo 4b9511c). Two list positions with the same key — a constraint tuple that
occurs twice in its list — share ONE tensor. -/

/-- key of a `last_change` entry -/
inductive SlotKey
  | mono (d g : Nat)
  | edge (tr : Trust) (g0 g1 : Nat)
  | trap (tr : Trust) (g : Nat)
  | mdom (p : Nat × Nat) (g0 g1 : Nat) (g2 : Bool)
  | rdom (p : Nat × Nat) (i j : Nat)
  | jmono (p : Nat × Nat) (g0 g1 : Nat) (g2 : Bool)
  | juni (ju : JointUni) (vertex : List Nat) (offs : List Int)
  deriving DecidableEq, Repr

/-- the dict key of every group visit, aligned with `groups c` (same traversal, same skip
conditions; `Lemmas/DykstraSlots.lean`: `groups_eq_groupKeys`) -/
def groupKeys (c : DCfg) : List SlotKey :=
  let monoK : List SlotKey := (List.range c.sizes.length).flatMap (fun d =>
    let m := c.mono.getD d false
    let u := c.unimod.getD d 0
    if !m && u == 0 then [] else
      ([0, 1].filter (fun g => g + 1 < sz c d)).map (fun g => SlotKey.mono d g))
  let edgeK : List SlotKey := c.edgeworth.flatMap (fun tr =>
    ([(0,0),(0,1),(1,0),(1,1)].filter (fun g => g.1 + 1 < sz c tr.main ∧ g.2 + 1 < sz c tr.cond)).map
      (fun g => SlotKey.edge tr g.1 g.2))
  let trapK : List SlotKey := c.trapezoid.flatMap (fun tr =>
    ([0, 1].filter (fun g => g + 1 < sz c tr.cond)).map (fun g => SlotKey.trap tr g))
  let tri : List (Nat × Nat × Bool) :=
    [(0,0,false),(0,0,true),(0,1,false),(0,1,true),(1,0,false),(1,0,true),(1,1,false),(1,1,true)]
  let mdK : List SlotKey := c.monoDom.flatMap (fun p =>
    (tri.filter (fun g => g.1 + 1 < sz c p.1 ∧ g.2.1 + 1 < sz c p.2)).map
      (fun g => SlotKey.mdom p g.1 g.2.1 g.2.2))
  let rdK : List SlotKey := c.rangeDom.flatMap (fun p =>
    (List.range (sz c p.1)).flatMap (fun i => (List.range (sz c p.2)).map (fun j =>
      SlotKey.rdom p i j)))
  let jmK : List SlotKey := c.jointMono.flatMap (fun p =>
    (tri.filter (fun g => g.1 + 1 < sz c p.1 ∧ g.2.1 + 1 < sz c p.2)).map
      (fun g => SlotKey.jmono p g.1 g.2.1 g.2.2))
  -- only the (vertex, offsets) pairs that yield a hyperplane ever get an entry
  let juK : List SlotKey := c.jointUnimod.flatMap (fun ju =>
    let ub := ju.dims.map (sz c)
    (allIdx ub).flatMap (fun vertex =>
      (offsetsAll ju.dims.length).filterMap (fun offs =>
        (juStencil ub vertex offs).map (fun _ => SlotKey.juni ju vertex offs))))
  monoK ++ edgeK ++ trapK ++ mdK ++ rdK ++ jmK ++ juK

/-- the group map that belongs to a key (`groups c = (groupKeys c).map (slotMap c)`) -/
def slotMap (c : DCfg) : SlotKey → W → W
  | .mono d g => monoGroup (sz c d) (c.mono.getD d false) (c.unimod.getD d 0) d g
  | .edge tr g0 g1 => edgeworthGroup (sz c tr.main) (sz c tr.cond) tr g0 g1
  | .trap tr g => trapezoidGroup (sz c tr.main) (sz c tr.cond) tr g
  | .mdom p g0 g1 g2 => monoDomGroup (sz c p.1) (sz c p.2) p.1 p.2 g0 g1 g2
  | .rdom p i j => rangeDomGroup (sz c p.1) (sz c p.2) p.1 p.2 i j
  | .jmono p g0 g1 g2 => jointMonoGroup (sz c p.1) (sz c p.2) p.1 p.2 g0 g1 g2
  | .juni ju vertex offs =>
    match juStencil (ju.dims.map (sz c)) vertex offs with
    | some st => hyperplaneGroup ju.dims ju.valley st
    | none => id

/-- for every list position the position of the FIRST occurrence of its element: the slot a dict
keyed by the elements gives to that position -/
def firstIdx {α : Type} [BEq α] (ks : List α) : List Nat := ks.map (fun k => ks.idxOf k)

/-- the `last_change` slot of every group visit -/
def slots (c : DCfg) : List Nat := firstIdx (groupKeys c)

/-- one pass over the groups, every group paired with the index of its slot in `cs`: roll back what
the slot holds, project, store the change in the slot -/
def dykstraPassS : List ((W → W) × Nat) → W → List W → W × List W
  | [], w, cs => (w, cs)
  | q :: ps, w, cs =>
    let r := visit q.1 w (cs.getD q.2 (fun _ => 0))
    dykstraPassS ps r.1 (cs.set q.2 r.2)

def dykstraIterS (ps : List ((W → W) × Nat)) : Nat → W × List W → W × List W
  | 0, s => s
  | n+1, s => dykstraIterS ps n (dykstraPassS ps s.1 s.2)

/-- the same pass on tables -/
def dykstraPassST (sizes : List Nat) : List ((W → W) × Nat) → Table → List Table → Table × List Table
  | [], t, cs => (t, cs)
  | q :: ps, t, cs =>
    let rolled := subT sizes t (cs.getD q.2 (zeroT sizes))
    let t' := runStage sizes q.1 rolled
    dykstraPassST sizes ps t' (cs.set q.2 (subT sizes t' rolled))

def dykstraIterST (sizes : List Nat) (ps : List ((W → W) × Nat)) : Nat → Table × List Table → Table × List Table
  | 0, s => s
  | n+1, s => dykstraIterST sizes ps n (dykstraPassST sizes ps s.1 s.2)

/-- `project_by_dykstra` on a table: the groups in visiting order, each with the slot of its dict
key; all slots start at zero (the dict the Python builds from its dry run of the body) -/
def projectByDykstraT (c : DCfg) (iters : Nat) (t : Table) : Table :=
  if iters = 0 || !dykstraActive c then t
  else
    let ps := groups c
    (dykstraIterST c.sizes (ps.zip (slots c)) iters (t, ps.map (fun _ => zeroT c.sizes))).1

/-! ## `LatticeConstraints.__call__` -/

structure LCfg where
  d : DCfg
  lo : Option Rat := none
  hi : Option Rat := none
  iters : Nat := 1
  strict : Bool := true

def LCfg.fin (c : LCfg) : Cfg :=
  { sizes := c.d.sizes, mono := c.d.mono, edgeworth := c.d.edgeworth, trapezoid := c.d.trapezoid,
    lo := c.lo, hi := c.hi }

/-- `num_constraint_dims > 0 or joint_monotonicities or joint_unimodalities` -/
def constraintActive (c : LCfg) : Bool :=
  (c.d.mono.any id || c.d.unimod.any (· != 0)) || !c.d.jointMono.isEmpty || !c.d.jointUnimod.isEmpty

def latticeConstraintT (c : LCfg) (t : Table) : Table :=
  let t1 :=
    if constraintActive c then
      let td := projectByDykstraT c.d c.iters t
      if c.strict then finalizeT c.fin td else td
    else t
  runStage c.d.sizes (clipBounds c.lo c.hi) t1

end Tfl.Lat
