import TflModel.Model.Core
import TflModel.Model.Kfl
import TflModel.Model.LatticeEval
import TflModel.Model.PwlEval
/-!
# Alternative representations of the same function (C14) and the conditional
# calibration / CDF functions (C15) — executable model, Mathlib-free

* (a) the dense lattice kernel of a KroneckerFactoredLattice
      (`kronecker_factored_lattice_lib.py:73-149` read against `lattice_lib.py:150-334`),
* (b) `conditional_pwl_calibration.pwl_calibration_fn` (`:150-246` verification, `:249-495`),
* (c) `conditional_cdf.cdf_fn` (`:40-275`) and `cdf_layer.CDF.call` (`:158-243`),
* (d) `ParallelCombination.call`, `Aggregation.call`, `RTL.call`.

`softmax` / `sigmoid` are not rational: they are explicit FUNCTION arguments.  The theorems
quantify over every function with the algebraic facts used (length preserving, non-negative /
positive weights summing to one; monotone with values in `[0, 1]`); the driver instantiates them
with finite tables holding the floats the real code computed (exact rationals).
-/
namespace Tfl.Alt
open Tfl

/-! ## (a) dense kernel of a KFL (one unit) -/

/-- `⊗_d k_d` at a vertex: `Π_d k_d[idx_d]` -/
def outerK : List (List Rat) → Idx → Rat
  | k :: ks, i :: t => getR k i * outerK ks t
  | _, _ => 1

/-- `Σ_t scale_t · ⊗_d k_{d,t}` at a vertex (zipped like `scale * prod`) -/
def denseSum : List Rat → List (List (List Rat)) → Idx → Rat
  | s :: ss, kt :: ks, idx => s * outerK kt idx + denseSum ss ks idx
  | _, _, _ => 0

/-- the dense kernel as a function on multi-indices: `bias + mean_t scale_t · ⊗_d k_{d,t}` -/
def denseW (K : List (List (List Rat))) (scale : List Rat) (bias : Rat) : W :=
  fun idx => bias + denseSum scale K idx / (K.length : Rat)

/-- a KFL has the same size `L` in each of its `dims` dimensions -/
def kflSizes (L dims : Nat) : List Nat := List.replicate dims L

/-- the flat row-major kernel column a `Lattice` layer of sizes `[L]*dims` holds -/
def denseKernel (L dims : Nat) (K : List (List (List Rat))) (scale : List Rat) (bias : Rat) : List Rat :=
  (allIdx (kflSizes L dims)).map (denseW K scale bias)

/-- the paired `Lattice` layer evaluated on the dense kernel -/
def kflAsLattice (form : LatticeEval.InputForm) (L : Nat) (clipI : Bool) (dims : Nat)
    (K : List (List (List Rat))) (scale : List Rat) (bias : Rat) (xs : List Rat) : Except Err Rat :=
  LatticeEval.evalHypercube form clipI (kflSizes L dims) (denseKernel L dims K scale bias) xs

/-! ## (b) `pwl_calibration_fn` -/

structure PwlFnCfg where
  inMin : Rat
  inMax : Rat
  outMin : Rat
  outMax : Rat
  units : Nat
  /-- `monotonicity == "increasing"` (otherwise `"none"`) -/
  increasing : Bool
  clampMin : Bool
  clampMax : Bool
  cyclic : Bool
  missingInput : Option Rat
  missingOutput : Option Rat

def b2i (b : Bool) : Int := if b then 1 else 0

/-- `num_keypoints = keypoint_input_parameters.shape[-1] + 2`, `2` when they are omitted -/
def numKeypoints (inLast : Option Nat) : Nat :=
  match inLast with
  | some k => k + 2
  | none => 2

/-- `output_param_size` of `_verify_pwl_calibration` -/
def outputParamSize (cfg : PwlFnCfg) (inLast : Option Nat) : Int :=
  (numKeypoints inLast : Int) - b2i cfg.clampMax - b2i cfg.clampMin - b2i cfg.cyclic
    + b2i cfg.missingInput.isSome - b2i cfg.missingOutput.isSome

/-- `_verify_pwl_calibration` (every rejection is a `ValueError`; current tree: a zero input range is
rejected, ff5f96e, and 3-dimensional output parameters may have a unit axis of size 1, ab7779b).
`inLast` = last dimension of `keypoint_input_parameters` (`none` when omitted), `outRank3` = the
output parameters are 3-dimensional, `outRows` / `outLast` = their 2nd / last dimension,
`inputCols = inputs.shape[1]`. -/
def verifyPwlFn (cfg : PwlFnCfg) (inLast : Option Nat) (outRank3 : Bool) (outRows outLast : Nat)
    (inputCols : Nat) : Except Err Unit :=
  if cfg.inMin ≥ cfg.inMax then .error .valueError
  else if !cfg.increasing && (cfg.clampMin || cfg.clampMax) then .error .valueError
  else if cfg.outMin > cfg.outMax then .error .valueError
  else if cfg.increasing && cfg.cyclic then .error .valueError
  else if cfg.missingOutput.isSome && cfg.missingInput.isNone then .error .valueError
  else if outputParamSize cfg inLast ≤ 0 then .error .valueError
  else if decide (cfg.units > 1) && !outRank3 then .error .valueError
  else if outRank3 && decide (outRows ≠ 1 ∧ outRows ≠ cfg.units) then .error .valueError
  else if (outLast : Int) ≠ outputParamSize cfg inLast then .error .valueError
  else if decide (inputCols > 1) && decide (inputCols ≠ cfg.units) then .error .valueError
  else .ok ()

/-- `keypoint_deltas = softmax(padded) * (keypoint_input_max - keypoint_input_min)` -/
def keypointDeltas (cfg : PwlFnCfg) (softmax : List Rat → List Rat) (inRow : List Rat) : List Rat :=
  (softmax inRow).map (· * (cfg.inMax - cfg.inMin))

/-- `keypoints = cumsum(keypoint_deltas, exclusive=True) + keypoint_input_min` -/
def keypointsOf (cfg : PwlFnCfg) (deltas : List Rat) : List Rat :=
  (PwlEval.cumsumExcl 0 deltas).map (· + cfg.inMin)

/-- the part of the output parameters that describes keypoint outputs: the last entry is the
missing-output logit when `missing_input_value` is set and `missing_output_value` is not -/
def keypointParams (cfg : PwlFnCfg) (outRow : List Rat) : List Rat :=
  match cfg.missingInput, cfg.missingOutput with
  | some _, none => outRow.dropLast
  | _, _ => outRow

/-- `missing_output` -/
def missingOut (cfg : PwlFnCfg) (sigmoid : Rat → Rat) (outRow : List Rat) : Option Rat :=
  match cfg.missingInput, cfg.missingOutput with
  | some _, none => some (cfg.outMin + sigmoid (outRow.getLastD 0) * (cfg.outMax - cfg.outMin))
  | some _, some v => some v
  | none, _ => none

/-- `monotonicity == "none"`: sigmoid-squashed free outputs, closed when cyclic, rewritten as
`[initial value, delta_0, delta_1, …]` -/
def freeOutputs (cfg : PwlFnCfg) (sigmoid : Rat → Rat) (ko : List Rat) : List Rat :=
  let v := ko.map (fun p => sigmoid p * (cfg.outMax - cfg.outMin) + cfg.outMin)
  let v := if cfg.cyclic then v ++ v.take 1 else v
  v.take 1 ++ List.zipWith (· - ·) v.tail v.dropLast

/-- `monotonicity == "increasing"`: softmax-normalised increments (front-padded logit 0), the
lower bound front-padded (`clamp_min`) or added to the first entry, the last increment dropped
unless `clamp_max` -/
def incOutputs (cfg : PwlFnCfg) (softmax : List Rat → List Rat) (ko : List Rat) : List Rat :=
  let s := (softmax (0 :: ko)).map (· * (cfg.outMax - cfg.outMin))
  let s := if cfg.clampMin then cfg.outMin :: s else (s.take 1).map (· + cfg.outMin) ++ s.drop 1
  if cfg.clampMax then s else s.dropLast

/-- the derived `kernel_outputs` (third element of `return_derived_parameters`) -/
def kernelOutputs (cfg : PwlFnCfg) (softmax : List Rat → List Rat) (sigmoid : Rat → Rat)
    (outRow : List Rat) : List Rat :=
  if cfg.increasing then incOutputs cfg softmax (keypointParams cfg outRow)
  else freeOutputs cfg sigmoid (keypointParams cfg outRow)

/-- `_compute_interpolation_weights`: `clip_by_value((x - keypoints) / lengths, 0, 1)`
(`clip_by_value(t, lo, hi) = maximum(minimum(t, hi), lo)`), front-padded with `1` -/
def interpWeights (x : Rat) (kps lens : List Rat) : List Rat :=
  1 :: List.zipWith (fun k l => max (min ((x - k) / l) 1) 0) kps lens

/-- `reduce_sum(weights * kernel_outputs, axis=-1)` -/
def calibrated (cfg : PwlFnCfg) (deltas kernel : List Rat) (x : Rat) : Rat :=
  PwlEval.dot (interpWeights x (keypointsOf cfg deltas) deltas) kernel

/-- `pwl_calibration_fn` for ONE unit and ONE example. `inRow` are the (already padded) input
logits, `outRow` the unit's output parameters. -/
def pwlFn1 (cfg : PwlFnCfg) (softmax : List Rat → List Rat) (sigmoid : Rat → Rat)
    (inRow outRow : List Rat) (x : Rat) : Rat :=
  let out := calibrated cfg (keypointDeltas cfg softmax inRow) (kernelOutputs cfg softmax sigmoid outRow) x
  match cfg.missingInput, missingOut cfg sigmoid outRow with
  | some v, some mo => if x = v then mo else out
  | _, _ => out

/-- `tf.tile(p, [1, units, 1])` when the unit axis has size 1 and `units > 1` -/
def tileUnits {α} (units : Nat) (rows : List α) : List α :=
  match rows with
  | [r] => if units > 1 then List.replicate units r else [r]
  | _ => rows

/-- `tf.tile(inputs, [1, units])` when a single input column feeds several units -/
def tileInputs (units : Nat) (xs : List Rat) : List Rat :=
  match xs with
  | [x] => List.replicate units x
  | _ => xs

/-- the padded input logits of every unit: `zeros((1, units, 1))` when the parameters are omitted,
otherwise tiled over units and front-padded with `0` -/
def inputRows (cfg : PwlFnCfg) (inParams : Option (List (List Rat))) : List (List Rat) :=
  match inParams with
  | none => List.replicate cfg.units [0]
  | some rows => (tileUnits cfg.units rows).map (0 :: ·)

/-- `pwl_calibration_fn` for all units of one example. `inParams` / `outParams` = the example's
parameter rows along the unit axis (one row when that axis has size 1 or is absent), `xs` the
example's input row (one entry, broadcast, or one per unit). -/
def pwlFnRow (cfg : PwlFnCfg) (softmax : List Rat → List Rat) (sigmoid : Rat → Rat)
    (inParams : Option (List (List Rat))) (outRank3 : Bool) (outParams : List (List Rat))
    (xs : List Rat) : Except Err (List Rat) := do
  verifyPwlFn cfg (inParams.map (fun r => (r.headD []).length)) outRank3 outParams.length
    (outParams.headD []).length xs.length
  let inRows := inputRows cfg inParams
  let outRows := tileUnits cfg.units outParams
  -- the broadcast of `inputs - keypoints` / `weights * kernel_outputs` along the unit axis
  if inRows.length ≠ cfg.units ∨ outRows.length ≠ cfg.units then .error .valueError
  else
    let xsT := tileInputs cfg.units xs
    pure ((List.range cfg.units).map fun u =>
      pwlFn1 cfg softmax sigmoid (inRows.getD u []) (outRows.getD u []) (getR xsT u))

/-- the keypoints a `PWLCalibration` layer has to hold to compute the same function:
left ends of the pieces plus the right end of the last one -/
def derivedKeypoints (cfg : PwlFnCfg) (deltas : List Rat) : List Rat :=
  PwlEval.cumsumExcl cfg.inMin deltas ++ [cfg.inMin + rsum deltas]

/-- the kernel column of that layer: the derived kernel, without the closing height when cyclic
(the layer re-derives it) -/
def layerKernel (cfg : PwlFnCfg) (kernel : List Rat) : List Rat :=
  if cfg.cyclic then kernel.dropLast else kernel

/-- configuration of the paired `PWLCalibration` layer with fixed keypoints -/
def layerCfg (cfg : PwlFnCfg) (deltas : List Rat) : PwlEval.Cfg :=
  { inputKeypoints := derivedKeypoints cfg deltas, learned := false, isCyclic := cfg.cyclic,
    imputeMissing := false, missingInputValue := none }

/-- configuration of the paired `PWLCalibration(input_keypoints_type="learned_interior")` layer whose
`interpolation_logits` row is the padded parameter row: only the first and the last configured
keypoint matter (`n` keypoints, the interior ones equally spaced) -/
def learnedCfg (cfg : PwlFnCfg) (n : Nat) : PwlEval.Cfg :=
  { inputKeypoints := cfg.inMin :: ((List.range (n - 2)).map (fun (i : Nat) =>
      cfg.inMin + (cfg.inMax - cfg.inMin) * ((i : Rat) + 1) / ((n : Rat) - 1)) ++ [cfg.inMax]),
    learned := true, isCyclic := cfg.cyclic, imputeMissing := false, missingInputValue := none }

/-! ## (c) `cdf_fn` and `CDF.call` (one example) -/

inductive Activation where
  | relu6 | sigmoid
  deriving DecidableEq, Repr

/-- the reductions with a rational model (`'geometric_mean'` is `exp ∘ mean ∘ log`, see
`Lemmas/CondReal.lean`) -/
inductive Reduction where
  | mean | none
  deriving DecidableEq, Repr

/-- `tf.nn.relu6` -/
def relu6 (z : Rat) : Rat := min (max z 0) 6

def basis (a : Activation) (σ : Rat → Rat) (z : Rat) : Rat :=
  match a with
  | .relu6 => relu6 z
  | .sigmoid => σ z

/-- `reduce_mean(relu6(z), axis=2) / 6` resp. `reduce_mean(sigmoid(z), axis=2)` -/
def finish (a : Activation) (m : Rat) : Rat :=
  match a with
  | .relu6 => m / 6
  | .sigmoid => m

/-- `tf.reduce_mean` of a vector -/
def meanL (l : List Rat) : Rat := rsum l / (l.length : Rat)

/-- one entry `(i, j)` of the `(input_dim, units / factor)` matrix after the reduction over the
`K` basis functions; `z k` is the pre-activation of basis function `k` -/
def cdfEntry (a : Activation) (σ : Rat → Rat) (K : Nat) (z : Nat → Rat) : Rat :=
  finish a (meanL ((List.range K).map (fun k => basis a σ (z k))))

def get3 (t : List (List (List Rat))) (i k j : Nat) : Rat := getR ((t.getD i []).getD k []) j

/-- entry of a vector that may have size 1 (broadcast) -/
def bgetR (l : List Rat) (i : Nat) : Rat := if l.length = 1 then getR l 0 else getR l i
def bgetL {α} (l : List (List α)) (i : Nat) : List α := if l.length = 1 then l.headD [] else l.getD i []
/-- entry of a `(1|I, 1|K, 1|W)` tensor broadcast to `(I, K, W)` -/
def bget3 (t : List (List (List Rat))) (i k j : Nat) : Rat := bgetR (bgetL (bgetL t i) k) j

/-- `CDF.call`, first stage: `input_scaling * (x - kernel)`, activation, mean over keypoints.
`scale` = `[s]` (`'fixed'`, `'learned_shared'`) or one entry per input (`'learned_per_input'`);
`kernel[i][k][j]`, `K = num_keypoints`, `W = units / sparsity_factor`. -/
def layerCdfs (a : Activation) (σ : Rat → Rat) (scale : List Rat) (kernel : List (List (List Rat)))
    (K W : Nat) (x : List Rat) : List (List Rat) :=
  (List.range x.length).map fun i => (List.range W).map fun j =>
    cdfEntry a σ K (fun k => bgetR scale i * (getR x i - get3 kernel i k j))

/-- `x = inputs[..., None, None] - location_parameters; if scaling_parameters is not None: x *= scaling_parameters` -/
def fnPre (scaling : Option (List (List (List Rat)))) (loc : List (List (List Rat))) (x : List Rat)
    (i k j : Nat) : Rat :=
  match scaling with
  | some sc => (getR x i - get3 loc i k j) * bget3 sc i k j
  | none => getR x i - get3 loc i k j

/-- `cdf_fn`, first stage: `(inputs - location_parameters) [* scaling_parameters]`, activation,
mean over the basis functions. `scaling` (after the optional `exp` transform) is broadcast
against `(input_dim, num_functions, units / factor)`. -/
def fnCdfs (a : Activation) (σ : Rat → Rat) (scaling : Option (List (List (List Rat))))
    (loc : List (List (List Rat))) (K W : Nat) (x : List Rat) : List (List Rat) :=
  (List.range x.length).map fun i => (List.range W).map fun j =>
    cdfEntry a σ K (fun k => fnPre scaling loc x i k j)

/-- `tf.reshape(flat, (rows, cols))`, row-major -/
def reshapeRows (rows cols : Nat) (flat : List Rat) : List (List Rat) :=
  (List.range rows).map fun r => (List.range cols).map fun u => getR flat (r * cols + u)

/-- `if sparsity_factor != 1: result = tf.reshape(result, (-1, input_dim // factor, units))` -/
def sparsify (f I U : Nat) (cdfs : List (List Rat)) : List (List Rat) :=
  if f ≠ 1 then reshapeRows (I / f) U cdfs.flatten else cdfs

/-- `tf.reduce_mean(result, axis=1)`: over the rows, per unit column -/
def reduceMeanRows (U : Nat) (m : List (List Rat)) : List Rat :=
  (List.range U).map fun u => meanL (m.map (fun row => getR row u))

/-- divisibility / shape checks of `CDF.build` and `_verify_cdf_params` (`ValueError`), in the order of
`_verify_cdf_params`; a sparsity factor below 1 is rejected first (`CDF.__init__`, fix 1677739, and
`_verify_cdf_params`, fix 75478be: `if sparsity_factor < 1: raise ValueError`; before them factor 0 was a
`ZeroDivisionError` of `units % sparsity_factor`); a location / kernel tensor without keypoints
(`shape[2] < 1`) is rejected with the other shape checks (current tree, fixes 4d4b844 / 575725d).
`.error .other` stands for the one place left where the real code does NOT raise a `ValueError` but
does not return numbers either: an input without columns (`reduce_mean` over an empty axis: NaN).
Here the factor is already a natural number; `sparsityOf` below is the step from the Python `int`. -/
def verifyCdf (f I U K W locI : Nat) : Except Err Unit :=
  if f = 0 then .error .valueError
  else if U % f ≠ 0 then .error .valueError
  else if I % f ≠ 0 then .error .valueError
  else if locI ≠ I ∨ K = 0 ∨ W ≠ U / f then .error .valueError
  else if I = 0 then .error .other
  else .ok ()

/-- `if sparsity_factor < 1: raise ValueError(…)` on the Python `int` the caller passed (zero and
negative factors alike); an accepted factor is the natural number the rest of the model computes with -/
def sparsityOf (f : Int) : Except Err Nat :=
  if f < 1 then .error .valueError else .ok f.toNat

/-- reduction stage shared by both code paths: `'none'` returns the `(input_dim / factor, units)`
matrix, `'mean'` its column means (as a single row) -/
def reduceStage (red : Reduction) (f I U : Nat) (cdfs : List (List Rat)) : List (List Rat) :=
  let m := sparsify f I U cdfs
  match red with
  | .none => m
  | .mean => [reduceMeanRows U m]

/-- `CDF.call` for one example -/
def layerCall (a : Activation) (σ : Rat → Rat) (red : Reduction) (f U : Nat) (scale : List Rat)
    (kernel : List (List (List Rat))) (K W : Nat) (x : List Rat) : Except Err (List (List Rat)) := do
  -- `CDF.__init__`: `if num_keypoints < 1 or units < 1: raise ValueError`
  if K = 0 ∨ U = 0 then .error .valueError
  verifyCdf f x.length U K W kernel.length
  pure (reduceStage red f x.length U (layerCdfs a σ scale kernel K W x))

/-- `cdf_fn` for one example -/
def cdfFn (a : Activation) (σ : Rat → Rat) (red : Reduction) (f U : Nat)
    (scaling : Option (List (List (List Rat)))) (loc : List (List (List Rat))) (K W : Nat)
    (x : List Rat) : Except Err (List (List Rat)) := do
  verifyCdf f x.length U K W loc.length
  pure (reduceStage red f x.length U (fnCdfs a σ scaling loc K W x))

/-- `CDF(…, sparsity_factor=f)(x)` with the factor as the Python `int` handed to the constructor:
`__init__` checks `num_keypoints < 1 or units < 1`, then `sparsity_factor < 1` (both `ValueError`), `build` /
`call` follow -/
def layerCallZ (a : Activation) (σ : Rat → Rat) (red : Reduction) (f : Int) (U : Nat) (scale : List Rat)
    (kernel : List (List (List Rat))) (K W : Nat) (x : List Rat) : Except Err (List (List Rat)) := do
  if K = 0 ∨ U = 0 then .error .valueError
  let f ← sparsityOf f
  layerCall a σ red f U scale kernel K W x

/-- `cdf_fn(…, sparsity_factor=f)` with the factor as the Python `int` of the call: `_verify_cdf_params`
rejects `sparsity_factor < 1` before it divides by it -/
def cdfFnZ (a : Activation) (σ : Rat → Rat) (red : Reduction) (f : Int) (U : Nat)
    (scaling : Option (List (List (List Rat)))) (loc : List (List (List Rat))) (K W : Nat)
    (x : List Rat) : Except Err (List (List Rat)) := do
  let f ← sparsityOf f
  cdfFn a σ red f U scaling loc K W x

/-- `keras.constraints.NonNeg` on the learned input scaling: `w * cast(w >= 0)` -/
def nonNeg (scale : List Rat) : List Rat := scale.map (fun w => if 0 ≤ w then w else 0)

/-- the scaling the layer evaluates with after an optimizer step assigned `raw`:
`'fixed'` ignores assignments; learned scalings pass through the `NonNeg` constraint iff
`input_scaling_monotonicity` is increasing -/
def constrainedScale (monotone : Bool) (raw : List Rat) : List Rat :=
  if monotone then nonNeg raw else raw

/-! ## (d) ParallelCombination, Aggregation, RTL -/

/-- `ParallelCombination.call` (one example): column `c` goes through calibrator `c`, outputs are
concatenated -/
def parallelCall (layers : List (Rat → Except Err (List Rat))) (x : List Rat) : Except Err (List Rat) :=
  if x.length ≠ layers.length then .error .valueError
  else do
    let outs ← (List.zipWith (fun l xc => l xc) layers x).mapM id
    pure outs.flatten

/-- `tf.split(values, row_lengths)` -/
def splitBy {α} : List Nat → List α → List (List α)
  | [], _ => []
  | n :: ns, l => l.take n :: splitBy ns (l.drop n)

/-- mean of a ragged row; `none` = NaN of `reduce_mean` over an empty row -/
def meanOpt (l : List Rat) : Option Rat := if l.isEmpty then none else some (meanL l)

/-- `Aggregation.call`: `tf.ragged.map_flat_values(model, x)` runs the model on the flat values of
ALL examples at once, the row partition is re-attached and `reduce_mean(axis=1)` taken.
`batch[b]` = the elements of example `b`, each element one feature vector. -/
def aggCall (model : List Rat → Rat) (batch : List (List (List Rat))) : List (Option Rat) :=
  (splitBy (batch.map List.length) (batch.flatten.map model)).map meanOpt

/-- `tf.gather(flattened_input, indices, axis=1)`; an index out of range is an
`InvalidArgumentError` on CPU -/
def gather (x : List Rat) (idxs : List Nat) : Except Err (List Rat) :=
  idxs.mapM (fun i => if i < x.length then .ok (getR x i) else .error .invalidArgument)

/-- one entry of `_rtl_structure` together with the lattice layer it feeds: the layer maps the
gathered `(units, rank)` inputs to `units` outputs -/
structure RtlGroup where
  monos : List Nat
  idxs : List (List Nat)
  lattice : List (List Rat) → Except Err (List Rat)

def groupOutput (x : List Rat) (g : RtlGroup) : Except Err (List Rat) := do
  let ins ← g.idxs.mapM (gather x)
  g.lattice ins

/-- `RTL.call` with `separate_outputs=False` (one example, flattened input `x`): outputs of the
groups whose output monotonicity `max(monotonicities)` is 0 come first, then the monotone ones;
`average_outputs` takes their mean -/
def rtlCall (groups : List RtlGroup) (average : Bool) (x : List Rat) : Except Err (List Rat) := do
  let outs0 ← (groups.filter (fun g => g.monos.foldl max 0 == 0)).mapM (groupOutput x)
  let outs1 ← (groups.filter (fun g => g.monos.foldl max 0 != 0)).mapM (groupOutput x)
  let joint := outs0.flatten ++ outs1.flatten
  pure (if average then [meanL joint] else joint)

/-- the lattice layer of an RTL group: unit `u` evaluates its own kernel column on its own gathered
inputs (`Lattice` with `units > 1` takes `(batch, units, rank)`) -/
def rtlLattice (simplex clipI : Bool) (L rank : Nat) (kernels : List (List Rat))
    (ins : List (List Rat)) : Except Err (List Rat) :=
  if ins.length ≠ kernels.length then .error .valueError
  else (List.zipWith (fun k x =>
    if simplex then LatticeEval.evalSimplex clipI (kflSizes L rank) k x
    else LatticeEval.evalHypercube .tensor clipI (kflSizes L rank) k x) kernels ins).mapM id

end Tfl.Alt
