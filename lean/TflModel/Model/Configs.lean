import TflModel.Model.Verify
import TflModel.Model.Ensembles
/-!
# Config round trips (C11): the table row of a class, and a generic model of
`get_config` / `from_config`

An object is its constructor arguments `o : String → V` (defaults filled in, as Python does).
`get_config` emits, for every key row `k` whose guard holds, the pair
`(k.key, N_k o (o k.param))` where `N_k` is the composite of the constructor-side normaliser
(`k.norm`) and of the way `get_config` reads the attribute (`k.reader`); `from_config` is
`cls(**config)` (or the custom one, which passes on the keys it consumes): unknown keys and
missing required parameters are `TypeError`s, absent optional parameters take their default.
-/
namespace Tfl.Configs
open Tfl

structure KeyRow where
  key : String
  /-- the attribute `get_config` reads for this key -/
  attr : String
  /-- the constructor parameter that attribute is assigned from ("" = none found) -/
  param : String
  /-- through which statements ("id" = `self.a = a`) -/
  norm : String
  /-- how `get_config` reads it ("attr" = `self.a`) -/
  reader : String
  /-- "" or the flag attribute under which the key is emitted (`if self.use_bias:`) -/
  guard : String
  deriving DecidableEq, Repr

structure ParamRow where
  name : String
  hasDefault : Bool
  deriving DecidableEq, Repr

structure ClassRow where
  cls : String
  file : String
  kind : String
  kwargs : Bool
  params : List ParamRow
  keys : List KeyRow
  /-- "default" (`cls(**config)`) or "custom" -/
  fromConfig : String
  /-- keys a custom `from_config` reads explicitly -/
  consumes : List String
  /-- does it pass the remaining keys on (`**config`)? -/
  consumesRest : Bool
  registered : Bool
  localScope : Bool
  deriving Repr

abbrev NormId := String × String
def KeyRow.nid (k : KeyRow) : NormId := (k.reader, k.norm)
def ClassRow.paramNames (r : ClassRow) : List String := r.params.map (·.name)
def ClassRow.keyNames (r : ClassRow) : List String := r.keys.map (·.key)

def idNorm : NormId := ("attr", "id")

/-- Premises of the generic round-trip theorem, decidable on a table row:
key names and parameter names are duplicate-free and EQUAL as sets; every key reads the attribute
assigned from the SAME-NAMED parameter through a normaliser of the list `ok`; a guarded key has a
default and its guard is itself an unguarded, un-normalised key; `from_config` hands every key to
the constructor. -/
def RowOK (ok : List NormId) (row : ClassRow) : Bool :=
  decide row.keyNames.Nodup && decide row.paramNames.Nodup &&
  row.keys.all (fun k =>
    k.param == k.key && row.paramNames.contains k.key && ok.contains k.nid &&
    (k.guard == "" ||
      (row.keys.any (fun g => g.key == k.guard && g.guard == "" && g.nid == idNorm) &&
       row.params.any (fun p => p.name == k.key && p.hasDefault)))) &&
  row.paramNames.all (fun p => row.keyNames.contains p) &&
  (row.fromConfig == "default" || row.consumesRest || row.keyNames.all (fun k => row.consumes.contains k))

/-- can a saved model that contains the class be reloaded under `get_custom_objects()`? -/
def Loadable (row : ClassRow) : Bool := row.registered || row.localScope

/-- semantics of values: the composite normalisers and truthiness (of guard flags) -/
structure Sem (V : Type) where
  norm : NormId → (String → V) → V → V
  truthy : V → Bool

variable {V : Type}

def emitted (S : Sem V) (o : String → V) (k : KeyRow) : Bool := k.guard == "" || S.truthy (o k.guard)

def getConfig (S : Sem V) (row : ClassRow) (o : String → V) : List (String × V) :=
  (row.keys.filter (emitted S o)).map (fun k => (k.key, S.norm k.nid o (o k.param)))

/-- the keys a `from_config` hands to the constructor -/
def passed (row : ClassRow) (cfg : List (String × V)) : List (String × V) :=
  if row.fromConfig == "default" || row.consumesRest then cfg
  else cfg.filter (fun kv => row.consumes.contains kv.1)

def fromConfig (row : ClassRow) (dflt : String → V) (cfg : List (String × V)) : Except Err (String → V) :=
  let c := passed row cfg
  if c.any (fun kv => !(row.paramNames.contains kv.1)) then .error .typeError
  else if row.params.any (fun p => !p.hasDefault && (c.lookup p.name).isNone) then .error .typeError
  else .ok (fun n => (c.lookup n).getD (dflt n))

/-! ## the value-level semantics of the normalisers that are modelled in Lean (`Tfl.Verify`) -/
open Tfl.Verify

def orSelf (v : Val) (r : Except Err Val) : Val :=
  match r with
  | .ok x => x
  | .error _ => v      -- the constructor raised: there is no object

def nCanonMono0 : NormId := ("attr", "@ = utils.canonicalize_monotonicities(_, allow_decreasing=False)")
def nCanonMono1 : NormId := ("attr", "@ = utils.canonicalize_monotonicity(_)")
def nCanonTrust : NormId := ("attr", "@ = utils.canonicalize_trust(_)")
def nCanonUni : NormId := ("attr", "@ = utils.canonicalize_unimodalities(_)")
def nWrapSingle : NormId := ("attr", "if isinstance(_, tuple) and isinstance(_[0], int): @ = [_] else: @ = _")
/-- the same wrap with the `and _` guard of `LatticeConstraints.__init__` (what `Lattice.__init__` reads after the
repair proposed for F-C16-aj: an empty tuple is left alone instead of raising `IndexError`); `wrapSingle` models both
(for the unguarded spelling an empty tuple raises: there is no object) -/
def nWrapSingleG : NormId := ("attr", "if isinstance(_, tuple) and _ and isinstance(_[0], int): @ = [_] else: @ = _")
def nLinearMono : NormId := ("attr", "if isinstance(_, list) or isinstance(_, tuple): @ = list(_) elif _ is not None: @ = [_] * self.num_input_dims else: @ = [0] * self.num_input_dims")
def nFloatOr : NormId := ("attr", "if _ is None: @ = float(num_keypoints) else: @ = float(_)")

def nAsTuples : NormId := ("attr", "as_tuples = lambda ps: [tuple(p) for p in ps] if ps else ps; @ = as_tuples(_)")

/-- `LatticeConstraints.__init__` since fix ebf18ed: the local helper
`as_list(c) = [c] if isinstance(c, tuple) and c and isinstance(c[0], int) else c` first (the single-tuple
wrap of `Lattice.__init__` plus the `and c` guard: an empty tuple is left alone instead of raising
`IndexError` — `wrapSingle` leaves `.s true []` alone too), THEN the canonicaliser. The labels are the
literal statements, in source order, that lead from the parameter to the attribute. -/
def nWrapCanonTrust : NormId := ("attr", "def as_list(constraints): if isinstance(constraints, tuple) and constraints and isinstance(constraints[0], int): return [constraints] return constraints; _ = as_list(_); @ = utils.canonicalize_trust(_)")
/-- full text (the translator cuts labels at 240 characters and appends a hash of the FULL text):
`def as_list(constraints): … return constraints; _ = as_list(_); as_tuples = lambda ps: [tuple(p) for p
in ps] if ps else ps; @ = as_tuples(_)` -/
def nWrapAsTuples : NormId := ("attr", "def as_list(constraints): if isinstance(constraints, tuple) and constraints and isinstance(constraints[0], int): return [constraints] return constraints; _ = as_list(_); as_tuples = lambda ps: [tuple(p) for p in ps] if ps else p…#38455b94")

/-- `[tuple(p) for p in ps] if ps else ps` (fix 7780660): a non-empty sequence of sequences becomes a
LIST of TUPLES; anything else is left alone (`tuple(3)` raises: there is no object) -/
def isSeqItem : Item → Bool
  | .s _ _ => true
  | _ => false
def toTupleItem : Item → Item
  | .s _ ys => Item.s true ys
  | it => it
def asTuples (v : Val) : Val :=
  match v with
  | .s t xs => if !xs.isEmpty && xs.all isSeqItem then .s false (xs.map toTupleItem) else .s t xs
  | v => v

def toFloat (ctx : Val) (v : Val) : Val :=
  match v with
  | .a .none => (match ctx with | .a (.int i) => .a (.flt i) | .a (.flt r) => .a (.flt r) | _ => .a (.flt 0))
  | .a (.int i) => .a (.flt i)
  | v => v

/-- the normalisers with a Lean model; every other id is the identity here (it is opaque: a Keras
`get`∘`serialize` composite, or a nested config list) -/
def valNorm (n : NormId) (o : String → Val) (v : Val) : Val :=
  if n = nCanonMono0 then orSelf v ((canonMonotonicities false v).map atomsVal)
  else if n = nCanonMono1 then orSelf v ((canonMonotonicity true v.toItem).map Val.a)
  else if n = nCanonTrust then orSelf v ((canonTrust v).map trustsVal)
  else if n = nCanonUni then orSelf v ((canonUnimodalities v).map atomsVal)
  else if n = nWrapSingle then wrapSingle v
  else if n = nLinearMono then
    linearBroadcast (match o "num_input_dims" with | .a (.int k) => k.toNat | _ => 0) v
  else if n = nFloatOr then toFloat (o "num_keypoints") v
  else if n = nAsTuples then asTuples v
  -- the COMPOSITIONS (not the parts): `(0, 1)` alone is left a tuple by `asTuples`, `[(0, 1)]` after the wrap
  else if n = nWrapCanonTrust then orSelf v ((canonTrust (wrapSingle v)).map trustsVal)
  else if n = nWrapAsTuples then asTuples (wrapSingle v)
  else if n = nWrapSingleG then wrapSingle v
  else v

def valSem : Sem Val := ⟨valNorm, Val.truthy⟩

/-- the modelled normaliser ids -/
def modelledNorms : List NormId :=
  [idNorm, ("attr", "keras_base"), nCanonMono0, nCanonMono1, nCanonTrust, nCanonUni, nWrapSingle, nLinearMono, nFloatOr,
   nAsTuples, nWrapCanonTrust, nWrapAsTuples, nWrapSingleG]

/-- composite normalisers that are NOT modelled: Keras' `serialize ∘ get` of initialisers /
regularisers / layers / nested configs, and the wrap of a single joint-unimodality tuple (nesting
depth 3). Their idempotence is a hypothesis of the round-trip theorem, exercised on the real
objects by every run of the harness. -/
def opaqueNorms : List NormId := [
  ("[keras.layers.serialize(layer, use_legacy_format=True) for layer in @]",
   "@ = []; for calibration_layer in _ or []: if not isinstance(calibration_layer, dict): @.append(calibration_layer) else: with keras.utils.custom_object_scope({'Lattice': lattice_layer.Lattice, 'Linear': linear_layer.Linear, 'PWLC…#f9904f4f"),
  ("[keras.regularizers.serialize(r, use_legacy_format=True) for r in @]",
   "@ = []; if _: if callable(_) or (isinstance(_, tuple) and isinstance(_[0], six.string_types)): _ = [_] for reg in _: if isinstance(reg, tuple): name, l1, l2 = reg if name.lower() == 'laplacian': @.append(LaplacianRegularizer(l1=…#825ac3fb"),
  ("[keras.regularizers.serialize(r, use_legacy_format=True) for r in @]",
   "@ = []; if _: if callable(_) or (isinstance(_, tuple) and isinstance(_[0], six.string_types)): _ = [_] for regularizer in _: if isinstance(regularizer, tuple): name, l1, l2 = regularizer if name.lower() == 'torsion': @.append(To…#17574899"),
  ("[keras.regularizers.serialize(r, use_legacy_format=True) for r in @]",
   "@ = []; if _: if callable(_): _ = [_] for reg in _: @.append(keras.regularizers.get(reg))"),
  ("attr", "if isinstance(_, tuple) and len(_) == 2 and isinstance(_[1], six.string_types): @ = [_] else: @ = _"),
  -- the SAME wrap in `LatticeConstraints.__init__` (fix ebf18ed), spelled as a rebinding of the parameter
  -- followed by a plain assignment; `Val` has no nesting depth 3, the typed model is `Tfl.Verify.wrapJU`
  -- (idempotent: `Tfl.C11.wrapJU_idem`)
  ("attr", "if isinstance(_, tuple) and len(_) == 2 and isinstance(_[1], six.string_types): _ = [_]; @ = _"),
  ("keras.initializers.serialize(@, use_legacy_format=True)",
   "@ = create_kernel_initializer(_, self.lattice_sizes, self.monotonicities, self.output_min, self.output_max, self.unimodalities, self.joint_unimodalities)"),
  ("keras.initializers.serialize(@, use_legacy_format=True)", "@ = create_kernel_initializer(kernel_initializer_id=_)"),
  ("keras.initializers.serialize(@, use_legacy_format=True)",
   "@ = create_kernel_initializer(kernel_initializer_id=_, monotonicities=self.monotonicities, output_min=self.output_min, output_max=self.output_max)"),
  ("keras.initializers.serialize(@, use_legacy_format=True)",
   "@ = create_scale_initializer(scale_initializer_id=_, output_min=self.output_min, output_max=self.output_max)"),
  ("keras.initializers.serialize(@, use_legacy_format=True)", "@ = keras.initializers.get(_)"),
  ("keras.initializers.serialize(@, use_legacy_format=True)",
   "if _ == 'equal_heights': @ = UniformOutputInitializer(output_min=self._output_init_min, output_max=self._output_init_max, monotonicity=self.monotonicity) elif _ == 'equal_slopes': @ = UniformOutputInitializer(output_min=self._ou…#6fea5b68"),
  ("keras.initializers.serialize(@, use_legacy_format=True)",
   "if output_min is not None and output_max is not None: if _ == 'constant': _ = keras.initializers.Constant((output_min + output_max) / 2) elif _ == 'uniform': _ = keras.initializers.RandomUniform(output_min, output_max); @ = kera…#c33846db"),
  ("keras.initializers.serialize(@, use_legacy_format=True)", "if use_bias: @ = keras.initializers.get(_)"),
  ("keras.utils.legacy.serialize_keras_object(@)", "id"),
  -- `enum.Enum(member) = member` and `Enum(value) = member` (fix 07828c0): idempotent
  ("attr", "@ = pwl_calibration_lib.BoundConstraintsType(_)"),
  ("serialize_keras_object_list", "nested_config_list"),
  -- `RTL.__init__` after the repair proposed for F-C11-i (repo_patches/F-C11-i.diff): a `None` seed is replaced by a
  -- drawn integer BEFORE it is stored. Not a function of the argument (the draw); the object of the round-trip theorem
  -- is the layer after construction, whose stored seed is an integer, and on integers the statement is the identity:
  -- idempotent on its range, which is all `roundtrip` uses (it is applied to `get_config` values only).
  ("attr", "if _ is None: _ = int(np.random.randint(0, 2 ** 31 - 1)); @ = _")]

def okNorms : List NormId := modelledNorms ++ opaqueNorms

/-! ## determinism of seed-derived structure (T3) -/

/-- the RTL structure as a function of what `get_config` stores (`random_seed` determines the two
shuffles `perm1`, `perm2`; `num_lattices`, `lattice_rank`, `avoid_intragroup_interaction`) and of
the input shapes: nothing else enters `_get_rtl_structure`. -/
def rtlStructureOf (inc unc : List Nat) (numLattices rank : Nat) (avoid : Bool) (perm1 perm2 : List Nat) :=
  Tfl.Ensembles.rtlStructure inc unc numLattices rank avoid perm1 perm2

end Tfl.Configs
