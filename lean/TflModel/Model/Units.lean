import TflModel.Model.Dykstra
import TflModel.Model.Linear
import TflModel.Model.Kfl
import TflModel.Model.PwlProj
import TflModel.Model.PwlEval
import TflModel.Model.Categorical
import TflModel.Model.LatticeEval
/-!
# Multi-unit models of the reductions and reshapes of the constraint code (C09)

Every other model file is written for ONE unit column. Here the same stages are written the way
the Python does them for `units > 1`, with the unit axis explicit, so that the axis of every
reduction is part of the model:

* **Lattice** (`lattice_lib.py`): `finalize_constraints` / `project_by_dykstra` reshape the
  `(prod(sizes), units)` kernel to `sizes ++ [units]` and append a `0` to `monotonicities`; the
  strict projections reduce with `axis = range(dims - 1)` — over every axis but the last.
  A multi-unit tensor is a `W` on indices of length `rank + 1`; `slice w u` is unit `u`.
  `unitIdx sizes units u` is the index set of "all axes but the last" at output position `u`.
* **PWL** (`pwl_calibration_lib.py`): `(rows, units)` matrices as `List (List Rat)` (list of rows),
  `tf.reduce_sum(heights, axis=0)` = `sumAxis0`, broadcasting of `(units)` vectors over rows.
* **Linear** (`linear_lib.project`): `tf.norm(weights, axis=0, ord)` = `norm1U / normInfU / normSqU`.
* **KFL**: the `(1, L, units*dims, T)` kernel read through the `(L, units, dims, T)` reshape.
-/
namespace Tfl.Units
open Tfl Tfl.Lat

/-! ## lattice tensors with a trailing unit axis -/

/-- unit `u` of a multi-unit tensor -/
def slice (w : W) (u : Nat) : W := fun idx => w (idx ++ [u])

/-- all multi-indices of `sizes ++ [units]` whose LAST coordinate is `u`: what a reduction over
`axis = range(dims - 1)` ranges over for output position `u`. -/
def unitIdx (sizes : List Nat) (units u : Nat) : List Idx :=
  (allIdx (sizes ++ [units])).filter (fun idx => coord idx sizes.length == u)

/-- `tf.reduce_max(f, axis=all but last)[u]` (0 for an empty tensor) -/
def reduceMaxButLast (sizes : List Nat) (units : Nat) (f : Idx → Rat) (u : Nat) : Rat :=
  match unitIdx sizes units u with
  | [] => 0
  | i :: is => rmax (f i) (is.map f)
def reduceMinButLast (sizes : List Nat) (units : Nat) (f : Idx → Rat) (u : Nat) : Rat :=
  match unitIdx sizes units u with
  | [] => 0
  | i :: is => rmin (f i) (is.map f)
def reduceSumButLast (sizes : List Nat) (units : Nat) (f : Idx → Rat) (u : Nat) : Rat :=
  rsum ((unitIdx sizes units u).map f)

/-- `tf.maximum(tf.reduce_max(difference_in_slopes, axis=axis), 0)[u]` (lattice_lib.py:793) -/
def maxViol (sizes : List Nat) (units : Nat) (f : Idx → Rat) (u : Nat) : Rat :=
  maxOver (unitIdx sizes units u) f

/-- the trailing coordinate of an index of the multi-unit tensor -/
def unitOf (sizes : List Nat) (idx : Idx) : Nat := coord idx sizes.length

/-- direction +1 step: `layers[i+1][j+1] += max_violation` with `max_violation` of shape `(units)`
broadcast along the trailing axis -/
def estepPosU (sizes : List Nat) (units m c : Nat) (w : W) (p : Nat × Nat) : W :=
  fun idx => if coord idx m = p.1 + 1 ∧ coord idx c = p.2 + 1
    then w idx + maxViol sizes units (eviol w m c p.1 p.2) (unitOf sizes idx) else w idx
def estepNegU (sizes : List Nat) (units m c : Nat) (w : W) (p : Nat × Nat) : W :=
  fun idx => if coord idx m = p.1 ∧ coord idx c = p.2
    then w idx - maxViol sizes units (fun b => - eviol w m c p.1 p.2 b) (unitOf sizes idx) else w idx

def edgeworthOneU (sizes : List Nat) (units : Nat) (tr : Trust) (w : W) : W :=
  let M := sizes.getD tr.main 0
  let N := sizes.getD tr.cond 0
  if tr.pos then (pairsLex M N).foldl (estepPosU sizes units tr.main tr.cond) w
  else (pairsLex M N).reverse.foldl (estepNegU sizes units tr.main tr.cond) w

/-- `_approximately_project_edgeworth(weights, lattice_sizes, units, trusts)` for `units > 1` -/
def approxEdgeworthU (sizes : List Nat) (units : Nat) (trusts : List Trust) (w : W) : W :=
  trusts.foldl (fun acc tr => edgeworthOneU sizes units tr acc) w

/-! ### trapezoid: the carried updates are `(units)` vectors -/

/-- `_trapezoid_violation_update` (lattice_lib.py:975-983) for the two reducing modes, per unit -/
def trapScalarU (mode : TrapMode) (sizes : List Nat) (units : Nat) (f : Idx → Rat) (prior : List Rat) :
    List Rat :=
  (List.range units).map (fun u => trapScalar mode (unitIdx sizes units u) f (getR prior u))

structure TrapStateU where
  w : W
  lhs : List Rat
  rhs : List Rat

def trapStepU (sizes : List Nat) (units m c M N : Nat) (pos : Bool) (mode : TrapMode) (s : TrapStateU)
    (j : Nat) : TrapStateU :=
  let lhsU := trapScalarU mode sizes units (lhsDiff s.w m c N pos j) s.lhs
  let w1 : W := fun idx =>
    if coord idx m = 0 ∧ coord idx c = jn N pos j then
      s.w idx - trapAmount mode (lhsDiff s.w m c N pos j idx) (getR lhsU (unitOf sizes idx))
    else s.w idx
  let rhsU := trapScalarU mode sizes units (rhsDiff w1 m c M N pos j) s.rhs
  let w2 : W := fun idx =>
    if coord idx m = M - 1 ∧ coord idx c = jn N pos j then
      w1 idx + trapAmount mode (rhsDiff w1 m c M N pos j idx) (getR rhsU (unitOf sizes idx))
    else w1 idx
  ⟨w2, lhsU, rhsU⟩

def trapezoidOneU (sizes : List Nat) (units : Nat) (edgeworth : List Trust) (tr : Trust) (w : W) : W :=
  let M := sizes.getD tr.main 0
  let N := sizes.getD tr.cond 0
  ((List.range (N-1)).foldl
    (trapStepU sizes units tr.main tr.cond M N tr.pos (trapMode edgeworth tr))
    ⟨w, List.replicate units 0, List.replicate units 0⟩).w

def approxTrapezoidU (sizes : List Nat) (units : Nat) (edgeworth trapezoid : List Trust) (w : W) : W :=
  trapezoid.foldl (fun acc tr => trapezoidOneU sizes units edgeworth tr acc) w

/-- `_approximately_project_bounds(weights, units, output_min, output_max)` (lattice_lib.py:1017-1036):
`reduce_min / reduce_max` over all axes but the last give one affine map PER UNIT -/
def approxBoundsU (sizes : List Nat) (units : Nat) (lo hi : Option Rat) (w : W) : W :=
  fun idx =>
    let u := unitOf sizes idx
    let k := boundsCoeffs lo hi (reduceMinButLast sizes units w u) (reduceMaxButLast sizes units w u)
    (w idx + k.1) * k.2.1 + k.2.2

/-- `finalize_constraints` for `units > 1` (lattice_lib.py:1084-1104): sizes `+ [units]`,
monotonicities `+ [0]`, every stage on the reshaped tensor -/
def finalizeU (c : Cfg) (units : Nat) (w : W) : W :=
  if !hasMono c then w
  else
    let w1 := approxMono (c.sizes ++ [units]) (c.mono ++ [false]) w
    if c.edgeworth.isEmpty && c.trapezoid.isEmpty then w1
    else
      let w2 := approxEdgeworthU c.sizes units c.edgeworth w1
      let w3 := approxTrapezoidU c.sizes units c.edgeworth c.trapezoid w2
      approxBoundsU c.sizes units c.lo c.hi w3

/-- `project_by_dykstra` for `units > 1` (lattice_lib.py:1918-1923): the same group schedule on
`sizes + [units]` with `monotonicities + [0]`, `unimodalities + [0]` -/
def dcfgU (c : DCfg) (units : Nat) : DCfg :=
  { c with sizes := c.sizes ++ [units], mono := c.mono ++ [false], unimod := c.unimod ++ [0] }

/-- function-level `project_by_dykstra` for one unit (what `projectByDykstraT` executes on tables) -/
def projectByDykstra (c : DCfg) (iters : Nat) (w : W) : W :=
  if iters = 0 || !dykstraActive c then w
  else (dykstraIter (groups c) iters (w, (groups c).map (fun _ => fun _ => 0))).1

/-- `project_by_dykstra` for `units > 1`: the early-return tests read the lists as given; the loop
runs the group schedule of `sizes + [units]`, `monotonicities + [0]`, `unimodalities + [0]` -/
def projectByDykstraU (c : DCfg) (units iters : Nat) (w : W) : W :=
  if iters = 0 || !dykstraActive c then w
  else (dykstraIter (groups (dcfgU c units)) iters (w, (groups (dcfgU c units)).map (fun _ => fun _ => 0))).1

/-- function-level `LatticeConstraints.__call__`, one unit (what `latticeConstraintT` executes) -/
def constraint1 (c : LCfg) (w : W) : W :=
  let w1 :=
    if constraintActive c then
      let wd := projectByDykstra c.d c.iters w
      if c.strict then finalize c.fin wd else wd
    else w
  clipBounds c.lo c.hi w1

/-- `LatticeConstraints.__call__` on a `(prod(sizes), units)` kernel with `units > 1` -/
def constraintU (c : LCfg) (units : Nat) (w : W) : W :=
  let w1 :=
    if constraintActive c then
      let wd := projectByDykstraU c.d units c.iters w
      if c.strict then finalizeU c.fin units wd else wd
    else w
  clipBounds c.lo c.hi w1

/-- units permuted by `σ` (the trailing coordinate is at position `rank`) -/
def permUnits (rank : Nat) (σ : Nat → Nat) (w : W) : W := fun idx => w (setc idx rank (σ (coord idx rank)))

/-! ### executable (tables over `sizes ++ [units]`) -/

def foldStageT {α : Type} (full : List Nat) (S : W → α → W) (l : List α) (t : Table) : Table :=
  l.foldl (fun t a => runStage full (fun w => S w a) t) t

def edgeworthOneUT (sizes : List Nat) (units : Nat) (tr : Trust) (t : Table) : Table :=
  let M := sizes.getD tr.main 0
  let N := sizes.getD tr.cond 0
  let full := sizes ++ [units]
  if tr.pos then foldStageT full (estepPosU sizes units tr.main tr.cond) (pairsLex M N) t
  else foldStageT full (estepNegU sizes units tr.main tr.cond) (pairsLex M N).reverse t

def approxEdgeworthUT (sizes : List Nat) (units : Nat) (trusts : List Trust) (t : Table) : Table :=
  trusts.foldl (fun acc tr => edgeworthOneUT sizes units tr acc) t

structure TrapStateUT where
  t : Table
  lhs : List Rat
  rhs : List Rat

def trapStepUT (sizes : List Nat) (units m c M N : Nat) (pos : Bool) (mode : TrapMode) (s : TrapStateUT)
    (j : Nat) : TrapStateUT :=
  let full := sizes ++ [units]
  let lhsU := trapScalarU mode sizes units (lhsDiff s.t.get m c N pos j) s.lhs
  let t1 := tabulate full (fun idx =>
    if coord idx m = 0 ∧ coord idx c = jn N pos j then
      s.t.get idx - trapAmount mode (lhsDiff s.t.get m c N pos j idx) (getR lhsU (unitOf sizes idx))
    else s.t.get idx)
  let rhsU := trapScalarU mode sizes units (rhsDiff t1.get m c M N pos j) s.rhs
  let t2 := tabulate full (fun idx =>
    if coord idx m = M - 1 ∧ coord idx c = jn N pos j then
      t1.get idx + trapAmount mode (rhsDiff t1.get m c M N pos j idx) (getR rhsU (unitOf sizes idx))
    else t1.get idx)
  ⟨t2, lhsU, rhsU⟩

def trapezoidOneUT (sizes : List Nat) (units : Nat) (edgeworth : List Trust) (tr : Trust) (t : Table) : Table :=
  let M := sizes.getD tr.main 0
  let N := sizes.getD tr.cond 0
  ((List.range (N-1)).foldl
    (trapStepUT sizes units tr.main tr.cond M N tr.pos (trapMode edgeworth tr))
    ⟨t, List.replicate units 0, List.replicate units 0⟩).t

def approxTrapezoidUT (sizes : List Nat) (units : Nat) (edgeworth trapezoid : List Trust) (t : Table) : Table :=
  trapezoid.foldl (fun acc tr => trapezoidOneUT sizes units edgeworth tr acc) t

def approxBoundsUT (sizes : List Nat) (units : Nat) (lo hi : Option Rat) (t : Table) : Table :=
  let ks := (List.range units).map (fun u =>
    boundsCoeffs lo hi (reduceMinButLast sizes units t.get u) (reduceMaxButLast sizes units t.get u))
  tabulate (sizes ++ [units]) (fun idx =>
    let k := ks.getD (unitOf sizes idx) (0, 1, 0)
    (t.get idx + k.1) * k.2.1 + k.2.2)

def finalizeUT (c : Cfg) (units : Nat) (t : Table) : Table :=
  if !hasMono c then t
  else
    let t1 := approxMonoT (c.sizes ++ [units]) (c.mono ++ [false]) t
    if c.edgeworth.isEmpty && c.trapezoid.isEmpty then t1
    else
      let t2 := approxEdgeworthUT c.sizes units c.edgeworth t1
      let t3 := approxTrapezoidUT c.sizes units c.edgeworth c.trapezoid t2
      approxBoundsUT c.sizes units c.lo c.hi t3

/-! ## matrices `(rows, units)`: PWL and Linear -/

abbrev Mat := List (List Rat)

/-- column `u` -/
def col (m : Mat) (u : Nat) : List Rat := m.map (fun row => getR row u)

def vadd (a b : List Rat) : List Rat := List.zipWith (· + ·) a b
def vmax (a b : List Rat) : List Rat := List.zipWith max a b

/-- `tf.reduce_sum(m, axis=0)`: rows are added up elementwise -/
def sumAxis0 (units : Nat) (m : Mat) : List Rat := m.foldl vadd (List.replicate units 0)
/-- `tf.reduce_max(tf.abs(m), axis=0)` (non-negative, so starting from zeros is exact) -/
def maxAbsAxis0 (units : Nat) (m : Mat) : List Rat :=
  m.foldl (fun acc row => vmax acc (row.map Rat.abs)) (List.replicate units 0)

/-- a `(units)` vector broadcast-added to every row -/
def addRows (m : Mat) (v : List Rat) : Mat := m.map (fun row => vadd row v)
def mulRows (m : Mat) (v : List Rat) : Mat := m.map (fun row => List.zipWith (· * ·) row v)
def divRows (m : Mat) (v : List Rat) : Mat := m.map (fun row => List.zipWith (· / ·) row v)
def negM (m : Mat) : Mat := m.map (fun row => row.map (fun x => -x))

open Tfl.PwlProj in
/-- the scalar arithmetic of the increasing branch of `_project_bounds_considering_monotonicity`
(lines 310-357) for ONE position of the units axis, given that unit's `sum_heights`:
returns the new bias and `heights_delta`. -/
def boundsIncCore (n s bias omin omax : Rat) (minC maxC : BCT) : Rat × Rat :=
  if maxC ≠ .none then
    let bh : Rat × Rat :=
      match minC with
      | .clamped => (omin, (omax - (omin + s)) / n)
      | .bound =>
        let bd := (omax - (bias + s)) / (n + 1)
        let bd := if maxC ≠ .clamped then min bd 0 else bd
        let b := max (bias + bd) omin
        (b, (omax - (b + s)) / n)
      | .none =>
        let bd := (omax - (bias + s)) / (n + 1)
        let hd := bd
        let bd := if maxC ≠ .clamped then min bd 0 else bd
        (bias + bd, hd)
    (bh.1, if maxC ≠ .clamped then min bh.2 0 else bh.2)
  else
    match minC with
    | .clamped => (omin, 0)
    | .bound => (max bias omin, 0)
    | .none => (bias, 0)

open Tfl.PwlProj in
/-- multi-unit increasing branch: `sum_heights = tf.reduce_sum(heights, axis=0)` is a `(units)` vector,
all the arithmetic is elementwise along the units axis, `heights += heights_delta` broadcasts over rows -/
def projectBoundsIncU (units : Nat) (bias : List Rat) (H : Mat) (omin omax : Rat) (minC maxC : BCT) :
    List Rat × Mat :=
  let s := sumAxis0 units H
  let r := (List.range units).map (fun u =>
    boundsIncCore (H.length : Rat) (getR s u) (getR bias u) omin omax minC maxC)
  (r.map (·.1), addRows H (r.map (·.2)))

open Tfl.PwlProj in
/-- scalar arithmetic of the increasing branch of `_squeeze_by_scaling` (lines 683-700) for one
unit given its `total = reduce_sum(heights, axis=0)[u]`: new bias and the scaling factor -/
def squeezeCore (total bias omin omax : Rat) (minC maxC : BCT) : Rat × Rat :=
  let bias := if minC ≠ .none then max bias omin else bias
  if maxC = .none then (bias, 1)
  else
    let bias := min bias omax
    let delta := omax - bias
    let needs : Bool := decide (delta < total)
    (bias, if needs then delta / (if needs then total else 1) else 1)

open Tfl.PwlProj in
def squeezeIncU (units : Nat) (bias : List Rat) (H : Mat) (omin omax : Rat) (minC maxC : BCT) :
    List Rat × Mat :=
  let total := sumAxis0 units H
  let r := (List.range units).map (fun u =>
    squeezeCore (getR total u) (getR bias u) omin omax minC maxC)
  (r.map (·.1), mulRows H (r.map (·.2)))

/-- columns permuted by `σ` -/
def permCols (units : Nat) (σ : Nat → Nat) (m : Mat) : Mat :=
  m.map (fun row => (List.range units).map (fun u => getR row (σ u)))

/-! ### Linear: `norm = tf.norm(weights, axis=0, ord)`; `tf.where(norm < eps, 1, norm)`; `weights / norm` -/
open Tfl.Linear in
def normsU (units : Nat) (ord : NormOrd) (m : Mat) : List Rat :=
  match ord with
  | .l1 => sumAxis0 units (m.map (fun row => row.map Rat.abs))
  | .linf => maxAbsAxis0 units m
  | _ => List.replicate units 1
open Tfl.Linear in
/-- squared 2-norms per column (the square root is not rational; compared through squares) -/
def normSqU (units : Nat) (m : Mat) : List Rat := sumAxis0 units (m.map (fun row => row.map (fun x => x * x)))
open Tfl.Linear in
def normalizeU (units : Nat) (ord : NormOrd) (m : Mat) : Mat :=
  match ord with
  | .l1 | .linf =>
    let n := (normsU units ord m).map (fun x => if x < normEps then 1 else x)
    divRows m n
  | _ => m

/-! ## KFL: `(1, L, units*dims, T)` kernel read through `tf.reshape(w, [-1, L, units, dims, T])` -/

/-- flat kernel: vertex → column (`units*dims`) → term -/
abbrev Flat := Nat → Nat → Nat → Rat

/-- entry `(i, u, d, t)` of the reshaped kernel -/
def reshaped (dims : Nat) (k : Flat) (i u d t : Nat) : Rat := k i (u * dims + d) t

/-- `max_keypoint_values = reduce_max(abs(w), axis=1)` at `(u, d, t)` -/
def maxKeypoint (L dims : Nat) (k : Flat) (u d t : Nat) : Rat :=
  Tfl.Kfl.maxAbs ((List.range L).map (fun i => reshaped dims k i u d t))
/-- `max_output_value = reduce_prod(max_keypoint_values, axis=3)` at `(u, t)` -/
def maxOutputU (L dims : Nat) (k : Flat) (u t : Nat) : Rat :=
  rprod ((List.range dims).map (fun d => maxKeypoint L dims k u d t))

/-- the one-unit layout (dims → vertices) of term `t` of unit `u`, as `Model/Kfl.lean` uses it -/
def unitTerm (L dims : Nat) (k : Flat) (u t : Nat) : List (List Rat) :=
  (List.range dims).map (fun d => (List.range L).map (fun i => reshaped dims k i u d t))

/-- the kernel of the one-unit layer that carries unit `u` alone: columns `u*dims .. u*dims+dims-1` -/
def unitKernel (dims : Nat) (k : Flat) (u : Nat) : Flat := fun i cl t => k i (u * dims + cl) t

/-- flat table `(i, col, t)` row-major as a list, for the driver -/
def Flat.ofVals (cols T : Nat) (vs : List Rat) : Flat := fun i cl t => getR vs ((i * cols + cl) * T + t)

/-! ## column-wise multi-unit models of the remaining constraints and of the forward passes

For these the multi-unit model is DEFINED column by column (unit `u` of the result is the one-unit model
of `Model/PwlProj.lean`, `Model/Linear.lean`, `Model/Categorical.lean`, … applied to column `u`), so
"column `u` of the multi-unit result = the one-unit result of column `u`" holds by definition
(`Props/C09Units.lean` states it). What is NOT definitional — that the REAL multi-unit call
(`reduce_sum(axis=0)` stages, the units-dependent reshape of `_project_convexity`,
`tf.norm(axis=0)`, the per-column topological sweeps) equals this column-wise map — is checked by the
correspondence suites `un.pwlfull`, `un.linfull`, `un.catfull` of `harness/props/c09.py` on kernels
whose columns differ in magnitude by factors 100, and by the real-vs-real suites. -/

/-- `PWLCalibrationConstraints(...)(K)` for a `(k, units)` kernel: bias row and heights matrix -/
def pwlConstraintU (mono conv : Int) (omin omax : Option Rat) (clampMin clampMax : Bool) (lengths : List Rat)
    (iters units : Nat) (bias : List Rat) (H : Mat) : List (Except Err (Rat × List Rat)) :=
  (List.range units).map (fun u =>
    Tfl.PwlProj.constraintsCall mono conv omin omax clampMin clampMax lengths iters (getR bias u) (col H u))

/-- `LinearConstraints(...)(K)` for a `(num_input_dims, units)` kernel -/
def linearProjectU (monos : List Int) (monoDom rangeDom : Tfl.Poset.Pairs) (los his : List (Option Rat))
    (ord : Tfl.Linear.NormOrd) (units : Nat) (m : Mat) : List (Except Err (List Rat)) :=
  (List.range units).map (fun u => Tfl.Linear.project monos monoDom rangeDom los his ord (col m u))

/-- `CategoricalCalibrationConstraints(...)(K)` for a `(num_buckets, units)` kernel -/
def categoricalProjectU (lo hi : Option Rat) (cs : Tfl.Poset.Pairs) (units : Nat) (m : Mat) :
    List (Except Err (List Rat)) :=
  (List.range units).map (fun u => Tfl.Categorical.project lo hi cs (col m u))

/-- `Linear.call` with `units > 1` on one example (`bias` = the `(units)` bias vector when `use_bias`) -/
def linearCallU (units : Nat) (K : Mat) (bias : Option (List Rat)) (los his : List (Option Rat)) (x : List Rat) :
    List Rat :=
  (List.range units).map (fun u => Tfl.Linear.call (col K u) (bias.map (fun b => getR b u)) los his x)

/-- `CategoricalCalibration.call` with `units > 1` on one example: one input broadcast to every unit or
one input per unit -/
def categoricalCallU (units : Nat) (K : Mat) (default : Option Int) (xs : List Int) : List Rat :=
  (List.range units).map (fun u =>
    Tfl.Categorical.call (col K u) default (xs.getD (if xs.length = 1 then 0 else u) 0))

/-- `Lattice.call` (hypercube interpolation) with `units > 1` on one example `(units, dims)`: unit `u`
interpolates ITS kernel column at ITS input row -/
def latticeCallU (form : Tfl.LatticeEval.InputForm) (clipOn : Bool) (sizes : List Nat) (units : Nat) (K : Mat)
    (xs : List (List Rat)) : List (Except Err Rat) :=
  (List.range units).map (fun u => Tfl.LatticeEval.evalHypercube form clipOn sizes (col K u) (xs.getD u []))

end Tfl.Units
