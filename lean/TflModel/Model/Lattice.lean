import TflModel.Model.Core
/-!
# `lattice_lib.py`: strict (approximate) projections, Dykstra group projections, and
`LatticeConstraints.__call__` — for ONE unit (the code appends `units` as a trailing
unconstrained axis and reduces over every axis but that one, so units are independent).

Function-level definitions (`W → W`) are what the theorems talk about; the executable
versions (`…T`, on `Table`) tabulate after every step and are `runStage` of the function-level
step (`rfl`-lemmas in `Lemmas/LatticeExec.lean`).
-/
namespace Tfl.Lat
open Tfl

/-! ## monotonicity: `_approximately_project_monotonicity` -/

/-- running max along axis `d`: the loop `layers[i] = max(layers[i], layers[i-1])`. -/
def cummaxUpTo (w : W) (d : Nat) (idx : Idx) : Nat → Rat
  | 0 => w (setc idx d 0)
  | k+1 => max (cummaxUpTo w d idx k) (w (setc idx d (k+1)))
def cummaxAx (w : W) (d : Nat) : W := fun idx => cummaxUpTo w d idx (coord idx d)

/-- running min from the top layer `n-1` downwards: `layers[i] = min(layers[i], layers[i+1])`;
the `Nat` argument is the distance from the top layer. -/
def cumminFrom (w : W) (d : Nat) (n : Nat) (idx : Idx) : Nat → Rat
  | 0 => w (setc idx d (n-1))
  | j+1 => min (cumminFrom w d n idx j) (w (setc idx d (n-1-(j+1))))
def cumminAx (w : W) (d n : Nat) : W := fun idx => cumminFrom w d n idx (n-1 - coord idx d)

def monoDims (sizes : List Nat) (mono : List Bool) : List Nat :=
  (List.range sizes.length).filter (fun d => mono.getD d false)

def approxMono (sizes : List Nat) (mono : List Bool) (w : W) : W :=
  let dims := monoDims sizes mono
  let mx := dims.foldl (fun acc d => cummaxAx acc d) w
  let half : W := fun idx => (w idx + mx idx) / 2
  dims.foldl (fun acc d => cumminAx acc d (sizes.getD d 0)) half

def approxMonoT (sizes : List Nat) (mono : List Bool) (t : Table) : Table :=
  let dims := monoDims sizes mono
  let mx := dims.foldl (fun acc d => runStage sizes (fun w => cummaxAx w d) acc) t
  let half := tabulate sizes (fun idx => (t.get idx + mx.get idx) / 2)
  dims.foldl (fun acc d => runStage sizes (fun w => cumminAx w d (sizes.getD d 0)) acc) half

/-! ## trusts -/

structure Trust where
  main : Nat
  cond : Nat
  pos : Bool            -- direction +1 (`true`) or -1
  deriving DecidableEq, Repr

/-- the tensor read at grid point `(i, j)` of the `(m, c)` grid, behind-position `b` -/
def gat (w : W) (m c i j : Nat) (b : Idx) : Rat := w (setc (setc b m i) c j)

/-- amount by which square `(i, j)` violates the direction-(+1) Edgeworth inequality at `b` -/
def eviol (w : W) (m c i j : Nat) (b : Idx) : Rat :=
  (gat w m c (i+1) j b - gat w m c i j b) - (gat w m c (i+1) (j+1) b - gat w m c i (j+1) b)

/-- `tf.maximum(tf.reduce_max(f over everything behind), 0)` -/
def maxOver (bs : List Idx) (f : Idx → Rat) : Rat := bs.foldl (fun acc b => max acc (f b)) 0

/-- direction +1: `layers[i+1][j+1] += max_violation` -/
def estepPos (bs : List Idx) (m c : Nat) (w : W) (p : Nat × Nat) : W :=
  fun idx => if coord idx m = p.1 + 1 ∧ coord idx c = p.2 + 1
    then w idx + maxOver bs (eviol w m c p.1 p.2) else w idx
/-- direction -1: `layers[i][j] -= max_violation` with the opposite difference of slopes -/
def estepNeg (bs : List Idx) (m c : Nat) (w : W) (p : Nat × Nat) : W :=
  fun idx => if coord idx m = p.1 ∧ coord idx c = p.2
    then w idx - maxOver bs (fun b => - eviol w m c p.1 p.2 b) else w idx

def pairsLex (M N : Nat) : List (Nat × Nat) :=
  (List.range (M-1)).flatMap (fun i => (List.range (N-1)).map (fun j => (i, j)))

/-- one trust of `_approximately_project_edgeworth` -/
def edgeworthOne (sizes : List Nat) (tr : Trust) (w : W) : W :=
  let M := sizes.getD tr.main 0
  let N := sizes.getD tr.cond 0
  if tr.pos then (pairsLex M N).foldl (estepPos (allIdx sizes) tr.main tr.cond) w
  else (pairsLex M N).reverse.foldl (estepNeg (allIdx sizes) tr.main tr.cond) w

def approxEdgeworth (sizes : List Nat) (trusts : List Trust) (w : W) : W :=
  trusts.foldl (fun acc tr => edgeworthOne sizes tr acc) w

def estepPosT (sizes : List Nat) (m c : Nat) (t : Table) (p : Nat × Nat) : Table :=
  let v := maxOver (allIdx sizes) (eviol t.get m c p.1 p.2)
  tabulate sizes (fun idx => if coord idx m = p.1 + 1 ∧ coord idx c = p.2 + 1
    then t.get idx + v else t.get idx)
def estepNegT (sizes : List Nat) (m c : Nat) (t : Table) (p : Nat × Nat) : Table :=
  let v := maxOver (allIdx sizes) (fun b => - eviol t.get m c p.1 p.2 b)
  tabulate sizes (fun idx => if coord idx m = p.1 ∧ coord idx c = p.2
    then t.get idx - v else t.get idx)
def edgeworthOneT (sizes : List Nat) (tr : Trust) (t : Table) : Table :=
  let M := sizes.getD tr.main 0
  let N := sizes.getD tr.cond 0
  if tr.pos then (pairsLex M N).foldl (estepPosT sizes tr.main tr.cond) t
  else (pairsLex M N).reverse.foldl (estepNegT sizes tr.main tr.cond) t
def approxEdgeworthT (sizes : List Nat) (trusts : List Trust) (t : Table) : Table :=
  trusts.foldl (fun acc tr => edgeworthOneT sizes tr acc) t

/-! ### trapezoid: `_approximately_project_trapezoid`

`jc j` / `jn j` are the "current" and "next" conditional layers of loop index `j` after the
`_reverse_second_list_dimension` trick for direction -1. -/
def jc (N : Nat) (pos : Bool) (j : Nat) : Nat := if pos then j else N - 1 - j
def jn (N : Nat) (pos : Bool) (j : Nat) : Nat := if pos then j + 1 else N - 2 - j

inductive TrapMode | perElement | maxBehind | runningMax
  deriving DecidableEq, Repr

/-- difference on the low-main side: `layers[0][j+1] - layers[0][j]` -/
def lhsDiff (w : W) (m c N : Nat) (pos : Bool) (j : Nat) (b : Idx) : Rat :=
  gat w m c 0 (jn N pos j) b - gat w m c 0 (jc N pos j) b
/-- difference on the high-main side: `layers[M-1][j] - layers[M-1][j+1]` -/
def rhsDiff (w : W) (m c M N : Nat) (pos : Bool) (j : Nat) (b : Idx) : Rat :=
  gat w m c (M-1) (jc N pos j) b - gat w m c (M-1) (jn N pos j) b

/-- `_trapezoid_violation_update` for the two scalar modes -/
def trapScalar (mode : TrapMode) (bs : List Idx) (f : Idx → Rat) (prior : Rat) : Rat :=
  match mode with
  | .runningMax => max (maxOver bs f) prior
  | _ => maxOver bs f

/-- the amount applied at one vertex: its own violation in `perElement` mode, the shared scalar otherwise -/
def trapAmount (mode : TrapMode) (own scalar : Rat) : Rat :=
  match mode with
  | .perElement => max own 0
  | _ => scalar

/-- state of the `for j` loop: weights and the two carried updates -/
structure TrapState where
  w : W
  lhs : Rat
  rhs : Rat

/-- one iteration `j` of the loop, function level. In `perElement` mode the update is
`max(diff, 0)` at every behind-position separately. -/
def trapStep (bs : List Idx) (m c M N : Nat) (pos : Bool) (mode : TrapMode) (s : TrapState) (j : Nat) :
    TrapState :=
  let lhsU := trapScalar mode bs (lhsDiff s.w m c N pos j) s.lhs
  let w1 : W := fun idx =>
    if coord idx m = 0 ∧ coord idx c = jn N pos j then
      s.w idx - trapAmount mode (lhsDiff s.w m c N pos j idx) lhsU
    else s.w idx
  let rhsU := trapScalar mode bs (rhsDiff w1 m c M N pos j) s.rhs
  let w2 : W := fun idx =>
    if coord idx m = M - 1 ∧ coord idx c = jn N pos j then
      w1 idx + trapAmount mode (rhsDiff w1 m c M N pos j idx) rhsU
    else w1 idx
  ⟨w2, lhsU, rhsU⟩

def trapMode (edgeworth : List Trust) (tr : Trust) : TrapMode :=
  if edgeworth.isEmpty then .perElement
  else if edgeworth.contains tr then .runningMax else .maxBehind

def trapezoidOne (sizes : List Nat) (edgeworth : List Trust) (tr : Trust) (w : W) : W :=
  let M := sizes.getD tr.main 0
  let N := sizes.getD tr.cond 0
  ((List.range (N-1)).foldl
    (trapStep (allIdx sizes) tr.main tr.cond M N tr.pos (trapMode edgeworth tr)) ⟨w, 0, 0⟩).w

def approxTrapezoid (sizes : List Nat) (edgeworth trapezoid : List Trust) (w : W) : W :=
  trapezoid.foldl (fun acc tr => trapezoidOne sizes edgeworth tr acc) w

structure TrapStateT where
  t : Table
  lhs : Rat
  rhs : Rat

def trapStepT (sizes : List Nat) (m c M N : Nat) (pos : Bool) (mode : TrapMode) (s : TrapStateT) (j : Nat) :
    TrapStateT :=
  let bs := allIdx sizes
  let lhsU := trapScalar mode bs (lhsDiff s.t.get m c N pos j) s.lhs
  let t1 := tabulate sizes (fun idx =>
    if coord idx m = 0 ∧ coord idx c = jn N pos j then
      s.t.get idx - trapAmount mode (lhsDiff s.t.get m c N pos j idx) lhsU
    else s.t.get idx)
  let rhsU := trapScalar mode bs (rhsDiff t1.get m c M N pos j) s.rhs
  let t2 := tabulate sizes (fun idx =>
    if coord idx m = M - 1 ∧ coord idx c = jn N pos j then
      t1.get idx + trapAmount mode (rhsDiff t1.get m c M N pos j idx) rhsU
    else t1.get idx)
  ⟨t2, lhsU, rhsU⟩

def trapezoidOneT (sizes : List Nat) (edgeworth : List Trust) (tr : Trust) (t : Table) : Table :=
  let M := sizes.getD tr.main 0
  let N := sizes.getD tr.cond 0
  ((List.range (N-1)).foldl
    (trapStepT sizes tr.main tr.cond M N tr.pos (trapMode edgeworth tr)) ⟨t, 0, 0⟩).t
def approxTrapezoidT (sizes : List Nat) (edgeworth trapezoid : List Trust) (t : Table) : Table :=
  trapezoid.foldl (fun acc tr => trapezoidOneT sizes edgeworth tr acc) t

/-! ## bounds: `_approximately_project_bounds` -/

/-- `reduce_max` / `reduce_min` over the whole (non-empty) box -/
def boxMax (sizes : List Nat) (w : W) : Rat :=
  match allIdx sizes with
  | [] => 0
  | i :: is => rmax (w i) (is.map w)
def boxMin (sizes : List Nat) (w : W) : Rat :=
  match allIdx sizes with
  | [] => 0
  | i :: is => rmin (w i) (is.map w)

/-- the positive affine map applied by the bounds projection, as `(shiftBefore, scale, shiftAfter)`:
`x ↦ (x + a) * s + b` -/
def boundsCoeffs (lo hi : Option Rat) (mn mx : Rat) : Rat × Rat × Rat :=
  match lo, hi with
  | none, none => (0, 1, 0)
  | some l, none => (max (l - mn) 0, 1, 0)
  | none, some h => (- max (mx - h) 0, 1, 0)
  | some l, some h =>
    let maxV := max (mx - h) 0
    let minV := max (l - mn) 0
    (minV - l, (h - l) / ((h + maxV) - (l - minV)), l)

def approxBounds (sizes : List Nat) (lo hi : Option Rat) (w : W) : W :=
  let k := boundsCoeffs lo hi (boxMin sizes w) (boxMax sizes w)
  fun idx => (w idx + k.1) * k.2.1 + k.2.2

def approxBoundsT (sizes : List Nat) (lo hi : Option Rat) (t : Table) : Table :=
  let k := boundsCoeffs lo hi (boxMin sizes t.get) (boxMax sizes t.get)
  tabulate sizes (fun idx => (t.get idx + k.1) * k.2.1 + k.2.2)

/-! ## `finalize_constraints` -/

structure Cfg where
  sizes : List Nat
  mono : List Bool
  edgeworth : List Trust := []
  trapezoid : List Trust := []
  lo : Option Rat := none
  hi : Option Rat := none

def hasMono (c : Cfg) : Bool := !(monoDims c.sizes c.mono).isEmpty

def finalize (c : Cfg) (w : W) : W :=
  if !hasMono c then w
  else
    let w1 := approxMono c.sizes c.mono w
    if c.edgeworth.isEmpty && c.trapezoid.isEmpty then w1
    else
      let w2 := approxEdgeworth c.sizes c.edgeworth w1
      let w3 := approxTrapezoid c.sizes c.edgeworth c.trapezoid w2
      approxBounds c.sizes c.lo c.hi w3

def finalizeT (c : Cfg) (t : Table) : Table :=
  if !hasMono c then t
  else
    let t1 := approxMonoT c.sizes c.mono t
    if c.edgeworth.isEmpty && c.trapezoid.isEmpty then t1
    else
      let t2 := approxEdgeworthT c.sizes c.edgeworth t1
      let t3 := approxTrapezoidT c.sizes c.edgeworth c.trapezoid t2
      approxBoundsT c.sizes c.lo c.hi t3

/-- the final `tf.maximum(w, output_min)` / `tf.minimum(w, output_max)` of `LatticeConstraints` -/
def clipBounds (lo hi : Option Rat) (w : W) : W := fun idx =>
  let x := match lo with | some l => max (w idx) l | none => w idx
  match hi with | some h => min x h | none => x

end Tfl.Lat
