import TflModel.Model.Core
/-!
# `compute_interpolation_weights`, `PWLCalibration.call`, `keypoints_inputs/outputs`
(one unit column, one example)

Anchors: `pwl_calibration_lib.py:95-126`, `pwl_calibration_layer.py:396-501,582-611`.

* `input_keypoints_type == "fixed"`: `build` stores `input_keypoints[:-1]` and the differences
  `input_keypoints[1:] - input_keypoints[:-1]`.
* `"learned_interior"`: `call` recomputes `lengths = softmax(logits) * range` and
  `keypoints = cumsum(lengths, exclusive) + keypoint_min`.  `softmax` is not rational: the model
  receives its result `ws` (one row) as data; the theorems quantify over every list of positive
  weights summing to one.
* the unit axis: every unit is one kernel column (and one logits row); a single input column is
  broadcast, i.e. every unit's column is evaluated at the same `x`.
-/
namespace Tfl.PwlEval
open Tfl

/-- `input_keypoints[1:] - input_keypoints[:-1]` -/
def diffs : List Rat → List Rat
  | a :: b :: t => (b - a) :: diffs (b :: t)
  | _ => []

/-- `tf.cumsum(l, exclusive=True)` (started at `acc`) -/
def cumsumExcl (acc : Rat) : List Rat → List Rat
  | [] => []
  | l :: ls => acc :: cumsumExcl (acc + l) ls

/-- `tf.cumsum(l)` (started at `acc`) -/
def cumsumIncl (acc : Rat) : List Rat → List Rat
  | [] => []
  | l :: ls => (acc + l) :: cumsumIncl (acc + l) ls

/-- python slice `l[-1:]` -/
def lastSlice (l : List Rat) : List Rat :=
  match l.getLast? with
  | some a => [a]
  | none => []

structure Cfg where
  inputKeypoints : List Rat
  /-- `input_keypoints_type == "learned_interior"` -/
  learned : Bool
  isCyclic : Bool
  imputeMissing : Bool
  missingInputValue : Option Rat

def kpMin (cfg : Cfg) : Rat := cfg.inputKeypoints.headD 0
def kpRange (cfg : Cfg) : Rat := cfg.inputKeypoints.getLastD 0 - cfg.inputKeypoints.headD 0

/-- `self._lengths`; `ws` = one row of `softmax(interpolation_logits)` (ignored when fixed) -/
def lengths (cfg : Cfg) (ws : List Rat) : List Rat :=
  if cfg.learned then ws.map (· * kpRange cfg) else diffs cfg.inputKeypoints

/-- `self._interpolation_keypoints`: left ends of the pieces -/
def interpKeypoints (cfg : Cfg) (ws : List Rat) : List Rat :=
  if cfg.learned then (cumsumExcl 0 (lengths cfg ws)).map (· + kpMin cfg)
  else cfg.inputKeypoints.dropLast

/-- one clipped ramp: `max(min((x - keypoint) / length, 1), 0)` -/
def ramp (x k l : Rat) : Rat := max (min ((x - k) / l) 1) 0

/-- `compute_interpolation_weights`: a leading 1 for the bias, then one ramp per piece -/
def interpWeights (x : Rat) (kps lens : List Rat) : List Rat :=
  1 :: List.zipWith (fun k l => ramp x k l) kps lens

/-- `bias_and_heights`: with `is_cyclic` the closing height `-sum(kernel[1:])` is appended -/
def biasAndHeights (cfg : Cfg) (kernel : List Rat) : List Rat :=
  if cfg.isCyclic then kernel ++ [-(rsum kernel.tail)] else kernel

/-- `matmul` / `reduce_sum(weights * heights)` for one unit and one example -/
def dot : List Rat → List Rat → Rat
  | w :: ws, h :: hs => w * h + dot ws hs
  | _, _ => 0

/-- the calibration proper (everything in `call` before the handling of missing) -/
def calibrate (cfg : Cfg) (kernel ws : List Rat) (x : Rat) : Rat :=
  dot (interpWeights x (interpKeypoints cfg ws) (lengths cfg ws)) (biasAndHeights cfg kernel)

/-- `PWLCalibration.call` for one unit and one example.
`isMissing` is the entry of the optional second input tensor (a float), `missingOutput` the entry
of `self.missing_output` (constant `missing_output_value` or the learned weight). -/
def call (cfg : Cfg) (kernel ws : List Rat) (missingOutput x : Rat) (isMissing : Option Rat) :
    Except Err Rat :=
  if isMissing.isSome && !cfg.imputeMissing then .error .valueError
  else
    let result := calibrate cfg kernel ws x
    if cfg.imputeMissing then
      match isMissing, cfg.missingInputValue with
      | some m, _ => .ok (m * missingOutput + (1 - m) * result)
      | none, some v =>
        let m : Rat := if x = v then 1 else 0
        .ok (m * missingOutput + (1 - m) * result)
      | none, none => .error .valueError
    else .ok result

/-- `PWLCalibration.call` for all units of one example. `kernels[u]` / `wss[u]` / `mouts[u]` are unit
`u`'s kernel column / softmax row / missing output; `xs` is the example's input row — ONE entry
(broadcast to every unit) or one entry per unit, anything else is the `ValueError` of `call`;
`ms` is the matching row of the optional `is_missing` tensor (same shape as the inputs). -/
def callUnits (cfg : Cfg) (kernels wss : List (List Rat)) (mouts xs : List Rat)
    (ms : Option (List Rat)) : Except Err (List Rat) :=
  if xs.length ≠ 1 ∧ xs.length ≠ kernels.length then .error .valueError
  else if (match ms with | some m => m.length != xs.length | none => false) then .error .valueError
  else
    (List.range kernels.length).mapM (fun u =>
      let c := if xs.length = 1 then 0 else u
      call cfg (kernels.getD u []) (wss.getD u []) (getR mouts u) (getR xs c)
        (ms.map (fun m => getR m c)))

/-- `keypoints_inputs()` (one unit column): the left ends plus `last left end + last length` -/
def keypointsInputs (cfg : Cfg) (ws : List Rat) : List Rat :=
  let kps := interpKeypoints cfg ws
  kps ++ List.zipWith (· + ·) (lastSlice kps) (lastSlice (lengths cfg ws))

/-- `keypoints_outputs()` (one unit column): `cumsum(kernel)`, closed by its first entry when cyclic -/
def keypointsOutputs (cfg : Cfg) (kernel : List Rat) : List Rat :=
  let c := cumsumIncl 0 kernel
  if cfg.isCyclic then c ++ c.take 1 else c

/-- `tf.split(result, units, axis=1)` on one example row (`units > 1 and split_outputs`): the list of
per-unit tensors, each holding that unit's single output column -/
def splitOutputs (ys : List Rat) : List (List Rat) := ys.map (fun y => [y])

/-- what `call` hands back for one example: the `(units)` row, or its split into `units` one-entry
rows when `units > 1 and split_outputs` (the same rule in `PWLCalibration.call` and
`CategoricalCalibration.call`; a single unit is never split) -/
def layerOutput (units : Nat) (split : Bool) (ys : List Rat) : List (List Rat) :=
  if units > 1 ∧ split then splitOutputs ys else [ys]

end Tfl.PwlEval
