import TflModel.Lemmas.PwlProj
import TflModel.Driver.PwlProj
/-!
# C04 — the PWLCalibration weight constraint returns keypoint outputs meeting all its limits

Model: `Tfl.PwlProj` (one unit column `bias, heights`, spacings `lengths`; units are independent
columns, see C09).  `projectAll` is `pwl_calibration_lib.project_all_constraints`,
`constraintsCall` the constraint object as `PWLCalibration.build()` wires it.

Hypotheses used below are exactly what `verify_hyperparameters` guarantees:
`CfgOk` (monotonicity, convexity ∈ {-1,0,1}; `output_min ≤ output_max` when both are given) and
`AllPos lengths` (strictly increasing keypoints).  Every theorem holds for ANY kernel, ANY number
of keypoints and ANY `num_projection_iterations` unless stated otherwise; the proof quantifies
over an arbitrary result of the Dykstra loop (`finalize_spec`).

The theorems of this file take `projectAll … = .ok out`. WHEN the projection returns is settled in
`Lemmas/PwlProj.lean` (`projectAll_ok_iff`: iff no clamp is requested without monotonicity, the known
finding F-C16-m) and Props/C04Accepted.lean restates the clauses for accepted configurations in the
total form `∃ out, projectAll … = .ok out ∧ …`.
-/
namespace Tfl.C04
open Tfl Tfl.PwlProj

/-- **T1 (monotone exactly).** Whenever the constraint returns, the heights have the sign of
`monotonicity` exactly, i.e. the keypoint outputs (running sums) are sorted in the configured
direction — for every kernel and every iteration count (also 0). -/
theorem monotone_exact (c : Cfg) (hc : CfgOk c) (L : List Rat) (hl : AllPos L) (it : Nat) (b : Rat)
    (hs : List Rat) (out : Rat × List Rat) (h : projectAll c L it b hs = .ok out) :
    (c.mono = 1 → (∀ x ∈ out.2, 0 ≤ x) ∧ (outputs out.1 out.2).Pairwise (fun x y => x ≤ y)) ∧
    (c.mono = -1 → (∀ x ∈ out.2, x ≤ 0) ∧ (outputs out.1 out.2).Pairwise (fun x y => y ≤ x)) := by
  have hm := (projectAll_spec c hc L hl it b hs out h).2.1
  exact ⟨fun e => ⟨hm.1 e, outputs_pairwise _ _ (hm.1 e)⟩,
    fun e => ⟨hm.2 e, outputs_pairwise_neg _ _ (hm.2 e)⟩⟩

/-- **T2 (convex / concave exactly).** With monotonicity (any bounds, any clamps), or with
convexity alone without bounds, consecutive slopes `height / length` of the result are ordered
exactly.  (Convexity + bounds without monotonicity is the documented relaxation and is excluded.) -/
theorem convex_exact (c : Cfg) (hc : CfgOk c) (L : List Rat) (hl : AllPos L) (it : Nat) (b : Rat)
    (hs : List Rat) (out : Rat × List Rat) (h : projectAll c L it b hs = .ok out)
    (hcase : c.mono ≠ 0 ∨ (c.minC = .none ∧ c.maxC = .none)) :
    out.2.length = hs.length ∧
    (c.conv = 1 → Slopes (fun a b => a ≤ b) out.2 L) ∧ (c.conv = -1 → Slopes (fun a b => b ≤ a) out.2 L) := by
  obtain ⟨h1, _, _, h4⟩ := projectAll_spec c hc L hl it b hs out h
  have : c.mono ≠ 0 ∨ ¬ hasBounds c := by
    rcases hcase with h | ⟨e1, e2⟩
    · exact Or.inl h
    · right; rintro (h | h)
      · exact h e1
      · exact h e2
  exact ⟨h1, h4 this⟩

/-- `Slopes` unfolded for three heights, to show what T2 says. -/
example (h0 h1 h2 l0 l1 l2 : Rat) :
    Slopes (fun a b => a ≤ b) [h0, h1, h2] [l0, l1, l2] ↔ h0 / l0 ≤ h1 / l1 ∧ h1 / l1 ≤ h2 / l2 := by
  simp [Slopes, SlopesFrom]

/-- **T3 (bounds).** Every keypoint output of the result lies in `[output_min, output_max]` (each
side when configured) — for EVERY configuration that returns: bounds only, monotone + bounds,
monotone + convex/concave + bounds (unconditional since the `_squeeze_by_scaling` fix), and also
convexity + bounds without monotonicity; any iteration count including 0. -/
theorem bounds_hold (c : Cfg) (hc : CfgOk c) (L : List Rat) (hl : AllPos L) (it : Nat) (b : Rat)
    (hs : List Rat) (out : Rat × List Rat) (h : projectAll c L it b hs = .ok out) :
    ∀ y ∈ outputs out.1 out.2, (c.minC ≠ .none → c.omin ≤ y) ∧ (c.maxC ≠ .none → y ≤ c.omax) :=
  (projectAll_spec c hc L hl it b hs out h).2.2.1

/-- **Key lemma, restated: the finalisation alone establishes T1–T3 from ANY input** (so the
Dykstra result may be an arbitrary vector). -/
theorem finalisation_from_any_input (c : Cfg) (hc : CfgOk c) (L : List Rat) (hl : AllPos L) (b : Rat)
    (hs : List Rat) (r : Rat × List Rat) (h : finalize c L b hs = .ok r) :
    MonoOk c.mono r.2 ∧ BoundsOk c r.1 r.2 ∧
      ((c.mono ≠ 0 ∨ (c.minC = .none ∧ c.maxC = .none)) → ConvOk c.conv r.2 L) :=
  (finalize_spec c hc L hl b hs r h).2

/-- **T4 (clamps, near end), iterations ≥ 1, no convexity.** For an increasing calibrator with
`clamp_min` the first keypoint output equals `output_min` exactly; for a decreasing one with
`clamp_max` it equals `output_max` exactly.  By T1 that output is the minimum resp. maximum. -/
theorem clamp_near_end (c : Cfg) (hc : CfgOk c) (hcv : c.conv = 0) (L : List Rat) (it : Nat) (hit : 1 ≤ it)
    (b : Rat) (hs : List Rat) (out : Rat × List Rat) (h : projectAll c L it b hs = .ok out) :
    (c.mono = 1 → c.minC = .clamped → out.1 = c.omin) ∧
    (c.mono = -1 → c.maxC = .clamped → out.1 = c.omax) := by
  have key : ∀ (hm : c.mono ≠ 0) (hB : hasBounds c),
      ∃ st : State, ((c.mono = 1 → c.minC = .clamped → st.bias = c.omin) ∧
        (c.mono = -1 → c.maxC = .clamped → st.bias = c.omax)) ∧
        out.1 = clipB c.omin c.omax (unclamp c.minC) (unclamp c.maxC) st.bias := by
    intro hm hB
    have hnp : 2 ≤ numProjections c hs.length := by
      unfold numProjections
      rw [if_pos hB, if_pos hm]
      omega
    rcases projectAll_cases c L it b hs out h with ⟨hn, _⟩ | ⟨_, st, hw, hwl, hf⟩
    · omega
    · refine ⟨st, ?_, ?_⟩
      · refine whileLoop_after_one c L _ hs.length _ (fun s s' hws hb => body_bias_near c L _ s s' hws hb)
          _ _ st (wf_init b hs) ?_ ?_ hwl
        · exact Nat.mul_pos (by omega) (by omega)
        · exact Nat.mul_pos (by omega) (by omega)
      · rw [finalize_eq] at hf
        have hB' : c.minC ≠ .none ∨ c.maxC ≠ .none := hB
        have h2 : ¬ (c.mono ≠ 0 ∧ c.conv ≠ 0) := fun hh => hh.2 hcv
        rw [if_pos hB', if_neg h2] at hf
        cases hf
        rfl
  constructor
  · intro hm hcl
    obtain ⟨st, hb, ho⟩ := key (by omega) (Or.inl (by rw [hcl]; simp))
    rw [ho, hb.1 hm hcl]
    exact clipB_fix _ _ _ _ _ (fun _ => le_rfl)
      (fun e => hc.bnd (by rw [hcl]; simp) ((unclamp_bound _).mp e))
  · intro hm hcl
    obtain ⟨st, hb, ho⟩ := key (by omega) (Or.inr (by rw [hcl]; simp))
    rw [ho, hb.2 hm hcl]
    exact clipB_fix _ _ _ _ _ (fun e => hc.bnd ((unclamp_bound _).mp e) (by rw [hcl]; simp))
      (fun _ => le_rfl)

/-- **T4, both ends, both directions (full statement).** With clamps and without convexity, for
iterations ≥ 1: the first keypoint output (`bias`) and the last one (`bias + Σ heights`) sit exactly
on the clamped bound of their side. -/
def ClampBothEnds : Prop :=
  ∀ (c : Cfg), CfgOk c → c.conv = 0 → ∀ (L : List Rat) (it : Nat), 1 ≤ it → ∀ (b : Rat) (hs : List Rat)
    (out : Rat × List Rat), hs ≠ [] → projectAll c L it b hs = .ok out →
    (c.mono = 1 → (c.minC = .clamped → out.1 = c.omin) ∧ (c.maxC = .clamped → out.1 + rsum out.2 = c.omax)) ∧
    (c.mono = -1 → (c.maxC = .clamped → out.1 = c.omax) ∧ (c.minC = .clamped → out.1 + rsum out.2 = c.omin))

/-- **T4 (clamps hit exactly), proved at full strength.** The far end uses the Dykstra invariant
`FarInv` (`far_step`): after the BOUNDS projection of an iteration the far end is exactly on the
clamped bound (`projectBoundsInc_clamped_max`); the rolled-back MONOTONICITY step of the same
iteration cannot lower the sum of the heights because the uniform BOUNDS shift never grows from one
iteration to the next (`hd ≤ δ`) and heights with a positive last MONOTONICITY change are zero
(`rsum_after_mono_ge`); the finalisation's cumulative-sum clip then puts the far end back exactly
(`clipDiffs_last`).  The decreasing calibrator is the mirror image (`body_refl`).
`hs ≠ []` (at least two keypoints) is what `verify_hyperparameters` guarantees. -/
theorem clamp_hit : ClampBothEnds := by
  intro c hc hcv L it hit b hs out hne h
  have hnear := clamp_near_end c hc hcv L it hit b hs out h
  exact ⟨fun hm => ⟨hnear.1 hm, fun hx => far_end_inc c L it hit b hs hne hm hcv hx out h⟩,
    fun hm => ⟨hnear.2 hm, fun hx => far_end_dec c hc L it hit b hs hne hm hcv hx out h⟩⟩

/-- the hypothesis `hs ≠ []` of `clamp_hit` is needed (and is what `verify_hyperparameters`
guarantees: the layer rejects fewer than two keypoints): a one-row kernel has a single output and
cannot sit on two different clamps; model and real code both return `[0]` for bounds `[0, 1]`. -/
theorem clamp_far_needs_two_keypoints :
    projectAll ⟨1, 0, 0, 1, .clamped, .clamped⟩ [] 1 (1/2) [] = .ok (0, []) := by
  decide +kernel

/-- **T4 in the words of the property:** with `clamp_min` (and monotonicity, no convexity,
iterations ≥ 1) the MINIMUM keypoint output equals `output_min` exactly — `output_min` is one of
the outputs and no output is below it; likewise the maximum with `clamp_max`. -/
theorem clamp_hit_min_max (c : Cfg) (hc : CfgOk c) (hcv : c.conv = 0) (hm : c.mono ≠ 0) (L : List Rat)
    (hl : AllPos L) (it : Nat) (hit : 1 ≤ it) (b : Rat) (hs : List Rat) (hne : hs ≠ [])
    (out : Rat × List Rat) (h : projectAll c L it b hs = .ok out) :
    (c.minC = .clamped → c.omin ∈ outputs out.1 out.2 ∧ ∀ y ∈ outputs out.1 out.2, c.omin ≤ y) ∧
    (c.maxC = .clamped → c.omax ∈ outputs out.1 out.2 ∧ ∀ y ∈ outputs out.1 out.2, y ≤ c.omax) := by
  have hb := bounds_hold c hc L hl it b hs out h
  have hcl := clamp_hit c hc hcv L it hit b hs out hne h
  have hm1 : c.mono = 1 ∨ c.mono = -1 := by
    rcases hc.mono with e | e | e
    · exact absurd e hm
    · exact Or.inl e
    · exact Or.inr e
  constructor
  · intro hx
    refine ⟨?_, fun y hy => (hb y hy).1 (by rw [hx]; simp)⟩
    rcases hm1 with e | e
    · rw [← (hcl.1 e).1 hx]; exact first_mem_outputs _ _
    · rw [← (hcl.2 e).2 hx]; exact last_mem_outputs _ _
  · intro hx
    refine ⟨?_, fun y hy => (hb y hy).2 (by rw [hx]; simp)⟩
    rcases hm1 with e | e
    · rw [← (hcl.1 e).2 hx]; exact last_mem_outputs _ _
    · rw [← (hcl.2 e).1 hx]; exact first_mem_outputs _ _

/-- **F-C04-b (counter-witness).** With `num_projection_iterations = 0` the Dykstra loop is
skipped and the finalisation never moves an end point onto a clamped bound: increasing
calibrator, `output_min = 0`, `output_max = 1`, both clamped, kernel `[1/2, 0]` is returned
unchanged — neither clamp is met.  Hence the hypothesis `1 ≤ it` of T4 is needed. -/
theorem clamp_fails_with_zero_iterations :
    projectAll ⟨1, 0, 0, 1, .clamped, .clamped⟩ [1] 0 (1/2) [0] = .ok (1/2, [0]) := by
  decide +kernel

/-- the same kernel with one iteration meets both clamps (non-vacuity of T4) -/
example : projectAll ⟨1, 0, 0, 1, .clamped, .clamped⟩ [1] 1 (1/2) [0] = .ok (0, [1]) := by
  decide +kernel

/-- non-vacuity of T1–T3 on the former F-C04-a witness (kernel `[5,1,2,1/2]`, bounds `[0,1]`,
increasing + convex, 8 iterations): the constraint returns, the kernel moves, all outputs ≤ 1. -/
example : (match projectAll ⟨1, 1, 0, 1, .bound, .bound⟩ [1, 1, 1] 8 5 [1, 2, 1/2] with
    | .ok r => decide (r ≠ (5, [1, 2, 1/2])) && boundsOkB ⟨1, 1, 0, 1, .bound, .bound⟩ r.1 r.2 && monoOkB 1 r.2
    | .error _ => false) = true := by
  decide +kernel

/-- **T5 (feasible ⇒ unchanged).** A kernel that already satisfies its constraints — heights of
the configured sign, slopes ordered, every keypoint output within the bounds, requested clamps
met (`ClampOk`; clamps without monotonicity are rejected by the code) — is returned unchanged,
exactly, for every iteration count: every Dykstra step is the identity and every `last_change`
stays zero (`zst` is the state with all-zero `last_change`), and so is every finalisation stage. -/
theorem feasible_unchanged (c : Cfg) (hc : CfgOk c) (L : List Rat) (hl : AllPos L) (it : Nat) (b : Rat)
    (hs : List Rat) (hlen : c.conv ≠ 0 → L.length = hs.length)
    (hmono : MonoOk c.mono hs) (hconv : ConvOk c.conv hs L) (hbnd : BoundsOk c b hs)
    (hcl : ClampOk c b hs) :
    projectAll c L it b hs = .ok (b, hs) ∧
    (∀ k, body c L (zst k b hs) = .ok (zst (k + numProjections c hs.length) b hs)) ∧
    finalize c L b hs = .ok (b, hs) :=
  ⟨projectAll_fix c hc L hl it b hs hlen ⟨hmono, hconv, hbnd⟩ hcl,
    fun k => body_fix c hc L hl k b hs hlen ⟨hmono, hconv, hbnd⟩ hcl,
    finalize_fix c hc L hl b hs ⟨hmono, hconv, hbnd⟩⟩

/-- non-vacuity of T5: increasing convex kernel `[0, 1/4, 3/4]` on spacings `[1, 1]`, bounds
`[0, 1]` both clamped, 8 iterations: feasible, and returned unchanged. -/
example : projectAll ⟨1, 1, 0, 1, .clamped, .clamped⟩ [1, 1] 8 0 [1/4, 3/4] = .ok (0, [1/4, 3/4]) := by
  decide +kernel

/-- **T6 (imputed missing output, LEARNED).** `NaiveBoundsConstraints(output_min, output_max)` — the
constraint `build()` attaches to the learned `missing_output` — returns a value within the bounds.
(A FIXED `missing_output_value` is a constant without constraint: `missing_output_fixed_is_value`.) -/
theorem missing_output_in_bounds (lo hi : Option Rat) (hb : ∀ l h, lo = some l → hi = some h → l ≤ h)
    (w : Rat) :
    (∀ l, lo = some l → l ≤ naiveBounds lo hi w) ∧ (∀ h, hi = some h → naiveBounds lo hi w ≤ h) := by
  unfold naiveBounds
  cases lo <;> cases hi <;> simp only
  · exact ⟨fun _ h => (by cases h), fun _ h => (by cases h)⟩
  · exact ⟨fun _ h => (by cases h), fun h e => (by cases e; exact min_le_right _ _)⟩
  · exact ⟨fun l e => (by cases e; exact le_max_right _ _), fun _ h => (by cases h)⟩
  · rename_i l h
    refine ⟨fun l' e => ?_, fun h' e => (by cases e; exact min_le_right _ _)⟩
    cases e
    exact le_min (le_max_right _ _) (hb l h rfl rfl)

/-- **T6, both kinds of imputed missing output.** `missing_output_in_bounds` is about the LEARNED missing
output (`missing_output_value=None`): it lies within the bounds after the constraint, whatever the
optimizer wrote. A FIXED `missing_output_value = v` is a constant the layer never constrains: the imputed
output IS `v` — for every raw value — and hence lies within `[output_min, output_max]` **iff** `v` does.
A value outside the bounds is accepted by the constructor and returned as is, by design (upstream's own
tests configure imputed outputs outside the output range; see `C04.fixed_missing_output_accepted` for
the constructor model and C15's `fixed_missing_output_outside_range_accepted`); the property's clause
"the imputed missing-value output also stays within the bounds" is therefore claimed, and true, for the
learned output and for fixed values chosen inside the bounds. -/
theorem missing_output_fixed_is_value (v : Rat) (lo hi : Option Rat) (w : Rat) :
    missingOutputOf (some v) lo hi w = v ∧
    (((∀ l, lo = some l → l ≤ missingOutputOf (some v) lo hi w) ∧
      (∀ h, hi = some h → missingOutputOf (some v) lo hi w ≤ h)) ↔
     ((∀ l, lo = some l → l ≤ v) ∧ (∀ h, hi = some h → v ≤ h))) :=
  ⟨rfl, Iff.rfl⟩

/-- the learned case in the same vocabulary -/
theorem missing_output_learned_in_bounds (lo hi : Option Rat)
    (hb : ∀ l h, lo = some l → hi = some h → l ≤ h) (w : Rat) :
    (∀ l, lo = some l → l ≤ missingOutputOf none lo hi w) ∧
    (∀ h, hi = some h → missingOutputOf none lo hi w ≤ h) :=
  missing_output_in_bounds lo hi hb w

/-- a fixed value outside the bounds stays outside: `output_min = 0`, `output_max = 1`,
`missing_output_value = 5` imputes 5 (what the real layer returns and `assert_constraints` accepts) -/
example : missingOutputOf (some 5) (some 0) (some 1) (1/2) = 5 ∧ missingOutputOf none (some 0) (some 1) 5 = 1 := by
  decide +kernel

/-- the wiring of `PWLCalibration.__init__`: `convert_all_constraints` yields a configuration
that satisfies `CfgOk` whenever `verify_hyperparameters` accepted the bounds. -/
theorem wired_cfgOk (mono conv : Int) (hm : mono = 0 ∨ mono = 1 ∨ mono = -1)
    (hcv : conv = 0 ∨ conv = 1 ∨ conv = -1) (omin omax : Option Rat) (cmin cmax : Bool)
    (hb : ∀ a b, omin = some a → omax = some b → a ≤ b) :
    let r := convertAllConstraints omin omax cmin cmax
    CfgOk ⟨mono, conv, r.1, r.2.1, r.2.2.1, r.2.2.2⟩ := by
  intro r
  refine ⟨hm, hcv, ?_⟩
  cases omin <;> cases omax <;> simp only [r, convertAllConstraints, convertConstraints]
  · intro h; exact absurd rfl h
  · intro h; exact absurd rfl h
  · intro _ h; exact absurd rfl h
  · intro _ _; cases cmin <;> cases cmax <;> exact hb _ _ rfl rfl

/-- **The driver op the correspondence uses is `projectAll`.** For a well-formed column
`bias :: heights` and bounds that `verify_hyperparameters` accepts, the value printed by the driver op
`pwlp.call` (`Tfl.Driver.PwlProj.callResult`, compared with the real
`PWLCalibrationConstraints(...)(w)` on every correspondence case) is exactly `projectAll` on the
configuration wired by `convert_all_constraints` — the function all theorems above are about. -/
theorem driver_call_is_projectAll (m cv : Int) (lo hi : Option Rat) (cmin cmax : Bool) (ls : List Rat)
    (it : Nat) (b : Rat) (hs : List Rat) (hb : ∀ x y, lo = some x → hi = some y → x ≤ y) :
    Tfl.Driver.PwlProj.callResult m cv lo hi cmin cmax ls it (b :: hs) =
      some (projectAll ⟨m, cv, (convertAllConstraints lo hi cmin cmax).1,
        (convertAllConstraints lo hi cmin cmax).2.1, (convertAllConstraints lo hi cmin cmax).2.2.1,
        (convertAllConstraints lo hi cmin cmax).2.2.2⟩ ls it b hs) := by
  unfold Tfl.Driver.PwlProj.callResult Tfl.Driver.PwlProj.splitCol constraintsCall
  simp only [Option.map_some]
  cases lo with
  | none => simp
  | some x => cases hi with
    | none => simp
    | some y =>
      have := hb x y rfl rfl
      simp [not_lt.mpr this]

/-- and what it rejects: inverted bounds give `ValueError`, as `verify_hyperparameters` does -/
theorem driver_call_rejects_inverted (m cv : Int) (x y : Rat) (cmin cmax : Bool) (ls : List Rat)
    (it : Nat) (b : Rat) (hs : List Rat) (h : y < x) :
    Tfl.Driver.PwlProj.callResult m cv (some x) (some y) cmin cmax ls it (b :: hs) =
      some (.error .valueError) := by
  simp [Tfl.Driver.PwlProj.callResult, Tfl.Driver.PwlProj.splitCol, constraintsCall, h]

end Tfl.C04
