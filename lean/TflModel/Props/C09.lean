import TflModel.Lemmas.UnitsDykstra
/-!
# C09 — units and examples never interact

All other property files work on ONE unit column, where "column `u` of the multi-unit projection
= projection of column `u`" holds by construction. The content of C09 is that the REAL code's
reductions and reshapes have the right axes. `Model/Units.lean` writes those stages the way the
code does for `units > 1` (unit axis explicit, reductions over "all axes but the last", `(units)`
vectors broadcast over rows, the `(L, units, dims, T)` view of the KFL kernel) and the theorems
here prove that every such multi-unit stage, read at unit `u`, IS the one-unit stage of the other
model files applied to the unit-`u` slice — for every configuration, unit count, kernel.

* T1 `…_per_unit`: generic index lemma; Lattice reductions, every strict stage, the whole
  `finalize_constraints`, the Dykstra schedule, the whole `LatticeConstraints.__call__`;
  PWL column sums / bounds / scaling stages; Linear normalisation; KFL reshape and bound factor.
* T2 `…_permutation`: permuting units permutes results (corollary of T1).
* T3 `batch_*`: in the model a batch IS the list of single-example evaluations (`call` functions
  take one example), so row independence is structural; it is the real-vs-real tie of
  `harness/props/c09.py` that checks it on the code (`layer(x)[i]` vs `layer(x[i:i+1])`).

Companions: `Props/C09Units.lean` (the executables `finalizeUT` / `latticeConstraintT`, column-wise models of
the full PWL / Linear / Categorical constraints and of the forward passes), `Props/C09Accepted.lean`
(`CfgShape` / `DCfgWF` from acceptance).

What ties the multi-unit model to the code: the driver ops `un.*` (same multi-unit input through
`lattice_lib` private stages / `finalize_constraints`, `pwl_calibration_lib`, `linear_lib`, KFL) and,
for everything not modelled with an explicit unit axis (categorical, convexity stages, layer
forward passes), the real-vs-real comparisons with columns of magnitude ×1 / ×100 / ×0.01.
-/
namespace Tfl.C09
open Tfl Tfl.Lat Tfl.Units

/-! ## T1 — lattice -/

/-- **Generic lemma.** The positions a reduction over "all axes but the last" visits for output
unit `u` are exactly the one-unit box positions extended by `u`, in the same order. -/
theorem unit_positions (sizes : List Nat) (units u : Nat) (hu : u < units) :
    unitIdx sizes units u = (allIdx sizes).map (fun idx => idx ++ [u]) :=
  unitIdx_eq sizes units u hu

/-- **T1, reductions** (`tf.reduce_max / reduce_min / reduce_sum(…, axis=range(dims-1))`, lattice_lib.py
783-803, 975-983, 1017-1036): evaluated at unit `u`, each equals the whole-box reduction of the
unit-`u` slice — for every rank, size vector, unit count and tensor. -/
theorem reductions_per_unit (sizes : List Nat) (units u : Nat) (hu : u < units) (f : W) :
    reduceMaxButLast sizes units f u = boxMax sizes (slice f u) ∧
    reduceMinButLast sizes units f u = boxMin sizes (slice f u) ∧
    reduceSumButLast sizes units f u = rsum ((allIdx sizes).map (slice f u)) ∧
    maxViol sizes units f u = maxOver (allIdx sizes) (slice f u) :=
  ⟨reduceMaxButLast_slice sizes units u hu f, reduceMinButLast_slice sizes units u hu f,
    reduceSumButLast_slice sizes units u hu f, maxViol_slice sizes units u hu f⟩

/-- **T1, Edgeworth max-violation**: the `(units)` vector `max(reduce_max(difference_in_slopes), 0)`
of the multi-unit kernel, at `u`, is the one-unit max-violation `Tfl.Lat.maxOver … (eviol …)` of unit
`u`'s kernel. A violation of one unit can therefore never shift another unit's weights. -/
theorem edgeworth_max_violation_per_unit (sizes : List Nat) (units u : Nat) (hu : u < units) (w : W)
    (m c i j : Nat) (hm : m < sizes.length) (hc : c < sizes.length) :
    maxViol sizes units (eviol w m c i j) u = maxOver (allIdx sizes) (eviol (slice w u) m c i j) :=
  maxViol_eviol sizes units u hu w (slice w u) m c i j hm hc (AgreeLen.refl _ _)

/-- **T1, `_approximately_project_edgeworth`** for `units > 1`, all trusts of both directions:
unit `u` of the result = `Tfl.Lat.approxEdgeworth` of unit `u`. -/
theorem edgeworth_stage_per_unit (sizes : List Nat) (units u : Nat) (hu : u < units) (trs : List Trust)
    (htr : ∀ tr ∈ trs, tr.main < sizes.length ∧ tr.cond < sizes.length) (w : W) :
    AgreeLen sizes.length (slice (approxEdgeworthU sizes units trs w) u) (approxEdgeworth sizes trs (slice w u)) :=
  approxEdgeworthU_slice sizes units u hu trs htr w _ (AgreeLen.refl _ _)

/-- **T1, `_approximately_project_trapezoid`** (all three update modes of
`_trapezoid_violation_update`, carried `(units)` update vectors included). -/
theorem trapezoid_stage_per_unit (sizes : List Nat) (units u : Nat) (hu : u < units) (ew trs : List Trust)
    (htr : ∀ tr ∈ trs, tr.main < sizes.length ∧ tr.cond < sizes.length) (w : W) :
    AgreeLen sizes.length (slice (approxTrapezoidU sizes units ew trs w) u)
      (approxTrapezoid sizes ew trs (slice w u)) :=
  approxTrapezoidU_slice sizes units u hu ew trs htr w _ (AgreeLen.refl _ _)

/-- **T1, `_approximately_project_bounds`**: each unit is squeezed by ITS OWN min / max. -/
theorem bounds_stage_per_unit (sizes : List Nat) (units u : Nat) (hu : u < units) (lo hi : Option ℚ) (w : W) :
    AgreeLen sizes.length (slice (approxBoundsU sizes units lo hi w) u) (approxBounds sizes lo hi (slice w u)) :=
  approxBoundsU_slice sizes units u hu lo hi w _ (AgreeLen.refl _ _)

/-- hypotheses on a finalisation config: what `verify_hyperparameters` guarantees
(`len(monotonicities) == len(lattice_sizes)`, trust indices inside the rank) -/
structure CfgShape (c : Cfg) : Prop where
  mono_len : c.mono.length ≤ c.sizes.length
  trusts : ∀ tr ∈ c.edgeworth ++ c.trapezoid, tr.main < c.sizes.length ∧ tr.cond < c.sizes.length

/-- **T1, `finalize_constraints`** (lattice_lib.py:1084-1104): for every accepted configuration,
`units`, unit `u < units` and multi-unit kernel `w`, unit `u` of the finalisation of `w` equals the
one-unit finalisation `Tfl.Lat.finalize` (the object of C01) of unit `u` of `w`. -/
theorem finalize_per_unit (c : Cfg) (hc : CfgShape c) (units u : Nat) (hu : u < units) (w : W) :
    AgreeLen c.sizes.length (slice (finalizeU c units w) u) (finalize c (slice w u)) :=
  finalizeU_slice c units u hu hc.mono_len hc.trusts w _ (AgreeLen.refl _ _)

/-- **T1, Dykstra reshape** (lattice_lib.py:1918-1923): on `sizes + [units]` with `monotonicities + [0]`,
`unimodalities + [0]` the loop visits the very same list of group projections … -/
theorem dykstra_schedule_unchanged (c : DCfg) (h : DCfgWF c) (units : Nat) :
    groups (dcfgU c units) = groups c := groups_dcfgU c units h

theorem projectByDykstraU_slice (c : DCfg) (h : DCfgWF c) (units u iters : Nat) (w w1 : W)
    (hw : AgreeLen c.sizes.length (slice w u) w1) :
    AgreeLen c.sizes.length (slice (projectByDykstraU c units iters w) u) (projectByDykstra c iters w1) := by
  unfold projectByDykstraU projectByDykstra
  split
  · exact hw
  · rw [groups_dcfgU c units h]
    exact dykstraIter_slice _ u (groups c) (groups_sliceStage c h) iters w w1 _ _ hw
      (changesAgree_zero _ u _) (by simp)

/-- … and every iteration count of the loop (with its `last_change` bookkeeping) acts on each unit
separately: unit `u` of `project_by_dykstra(w)` = `project_by_dykstra` of unit `u`. -/
theorem dykstra_per_unit (c : DCfg) (h : DCfgWF c) (units u iters : Nat) (w : W) :
    AgreeLen c.sizes.length (slice (projectByDykstraU c units iters w) u) (projectByDykstra c iters (slice w u)) :=
  projectByDykstraU_slice c h units u iters w _ (AgreeLen.refl _ _)

theorem constraintU_slice (c : LCfg) (hd : DCfgWF c.d) (units u : Nat) (hu : u < units) (w w1 : W)
    (hw : AgreeLen c.d.sizes.length (slice w u) w1) :
    AgreeLen c.d.sizes.length (slice (constraintU c units w) u) (constraint1 c w1) := by
  have hclip : ∀ a a1 : W, AgreeLen c.d.sizes.length (slice a u) a1 →
      AgreeLen c.d.sizes.length (slice (clipBounds c.lo c.hi a) u) (clipBounds c.lo c.hi a1) := by
    intro a a1 h idx hl
    have := h idx hl
    simp only [slice, clipBounds] at this ⊢
    rw [this]
  unfold constraintU constraint1
  apply hclip
  split
  · have hdy := projectByDykstraU_slice c.d hd units u c.iters w w1 hw
    split
    · exact finalizeU_slice c.fin units u hu hd.mono_len hd.trusts _ _ hdy
    · exact hdy
  · exact hw

/-- **T1, `LatticeConstraints.__call__`** (Dykstra iterations, strict finalisation, final clip), any
configuration / iteration count / strictness: unit `u` of `constraint(K)` = `constraint(K[:, u])`. -/
theorem lattice_constraint_per_unit (c : LCfg) (hd : DCfgWF c.d) (units u : Nat) (hu : u < units) (w : W) :
    AgreeLen c.d.sizes.length (slice (constraintU c units w) u) (constraint1 c (slice w u)) :=
  constraintU_slice c hd units u hu w _ (AgreeLen.refl _ _)

/-! ## T1 — matrices: PWL, Linear -/

/-- **T1, column sums** (`tf.reduce_sum(heights, axis=0)`, `tf.norm(w, axis=0, ord=1)`): entry `u` of the
reduced vector is the sum of column `u` alone. -/
theorem column_sum_per_unit (units u : Nat) (hu : u < units) (m : Mat) (hm : Rect units m) :
    getR (sumAxis0 units m) u = rsum (col m u) := getR_sumAxis0 units u hu m hm

/-- **T1, PWL** `_project_bounds_considering_monotonicity` (lines 310-357) and `_squeeze_by_scaling`
(lines 688-697), increasing branch (the decreasing one negates and swaps, elementwise): bias `u`
and height column `u` of the multi-unit stage = `Tfl.PwlProj.projectBoundsInc / squeezeInc` of unit `u`. -/
theorem pwl_bounds_and_scaling_per_unit (units u : Nat) (hu : u < units) (bias : List ℚ) (H : Mat)
    (hH : Rect units H) (omin omax : ℚ) (minC maxC : Tfl.PwlProj.BCT) :
    (getR (projectBoundsIncU units bias H omin omax minC maxC).1 u,
        col (projectBoundsIncU units bias H omin omax minC maxC).2 u) =
      Tfl.PwlProj.projectBoundsInc (getR bias u) (col H u) omin omax minC maxC ∧
    (getR (squeezeIncU units bias H omin omax minC maxC).1 u,
        col (squeezeIncU units bias H omin omax minC maxC).2 u) =
      Tfl.PwlProj.squeezeInc (getR bias u) (col H u) omin omax minC maxC :=
  ⟨projectBoundsIncU_col units u hu bias H hH omin omax minC maxC,
    squeezeIncU_col units u hu bias H hH omin omax minC maxC⟩

/-- **T1, Linear normalisation** (`tf.norm(weights, axis=0, ord)`, `tf.where(norm < eps, 1, norm)`,
`weights / norm`, linear_lib.py:106-109) for orders 1 and ∞ (and the identity otherwise); the
order-2 norm is compared through its square `normSqU`. -/
theorem linear_normalization_per_unit (units u : Nat) (hu : u < units) (ord : Tfl.Linear.NormOrd) (m : Mat)
    (hm : Rect units m) :
    col (normalizeU units ord m) u = Tfl.Linear.normalize ord (col m u) ∧
    getR (normSqU units m) u = Tfl.Linear.normSq (col m u) :=
  ⟨normalizeU_col units u hu ord m hm, getR_normSqU units u hu m hm⟩

/-! ## T1 — KFL -/

/-- **T1, KFL reshape** `(1, L, units*dims, T) → (L, units, dims, T)` (kronecker_factored_lattice_lib.py
304-343, 368-389): block `u` is the one-unit view of columns `u*dims …`, and the bound factor
`reduce_prod(reduce_max(|w|, axis=1), axis=3)` at `(u, t)` is `Tfl.Kfl.maxOutput` of that block. -/
theorem kfl_reshape_per_unit (L dims : Nat) (k : Flat) (u t : Nat) :
    (∀ i d, reshaped dims k i u d t = reshaped dims (unitKernel dims k u) i 0 d t) ∧
    unitTerm L dims k u t = unitTerm L dims (unitKernel dims k u) 0 t ∧
    maxOutputU L dims k u t = Tfl.Kfl.maxOutput (unitTerm L dims k u t) :=
  ⟨fun i d => reshaped_unitKernel dims k i u d t, unitTerm_unitKernel L dims k u t, maxOutputU_eq L dims k u t⟩

/-! ## T2 — permuting units permutes results -/

theorem slice_permUnits (rank : Nat) (σ : Nat → Nat) (w : W) (u : Nat) :
    AgreeLen rank (slice (permUnits rank σ w) u) (slice w (σ u)) := by
  intro idx hl
  simp only [slice, permUnits]
  rw [← hl, coord_append_len, show setc (idx ++ [u]) idx.length (σ u) = idx ++ [σ u] by simp [setc]]

/-- **T2 (generic)**: any multi-unit stage `F` that acts per unit (T1 shape, with one-unit stage `F1`)
commutes with every re-indexing `σ` of the units (permutations in particular): unit `u` of
`F(K[:, σ])` is unit `σ u` of `F(K)`. -/
theorem unit_permutation_of_per_unit (rank units : Nat) (F F1 : W → W)
    (hF : ∀ u, u < units → ∀ w w1, AgreeLen rank (slice w u) w1 → AgreeLen rank (slice (F w) u) (F1 w1))
    (σ : Nat → Nat) (u : Nat) (hu : u < units) (hσ : σ u < units) (w : W) :
    AgreeLen rank (slice (F (permUnits rank σ w)) u) (slice (F w) (σ u)) := by
  intro idx hl
  rw [hF u hu (permUnits rank σ w) (slice w (σ u)) (slice_permUnits rank σ w u) idx hl,
    hF (σ u) hσ w (slice w (σ u)) (AgreeLen.refl _ _) idx hl]

/-- **T2, `LatticeConstraints.__call__`**: permuting the units of the kernel permutes the result. -/
theorem lattice_constraint_unit_permutation (c : LCfg) (hd : DCfgWF c.d) (units : Nat) (σ : Nat → Nat)
    (u : Nat) (hu : u < units) (hσ : σ u < units) (w : W) :
    AgreeLen c.d.sizes.length (slice (constraintU c units (permUnits c.d.sizes.length σ w)) u)
      (slice (constraintU c units w) (σ u)) :=
  unit_permutation_of_per_unit c.d.sizes.length units (constraintU c units) (constraint1 c)
    (fun v hv a a1 h => constraintU_slice c hd units v hv a a1 h) σ u hu hσ w

/-- **T2, `finalize_constraints`** -/
theorem finalize_unit_permutation (c : Cfg) (hc : CfgShape c) (units : Nat) (σ : Nat → Nat)
    (u : Nat) (hu : u < units) (hσ : σ u < units) (w : W) :
    AgreeLen c.sizes.length (slice (finalizeU c units (permUnits c.sizes.length σ w)) u)
      (slice (finalizeU c units w) (σ u)) :=
  unit_permutation_of_per_unit c.sizes.length units (finalizeU c units) (finalize c)
    (fun v hv a a1 h => finalizeU_slice c units v hv hc.mono_len hc.trusts a a1 h) σ u hu hσ w

theorem col_permCols (units : Nat) (σ : Nat → Nat) (m : Mat) (u : Nat) (hu : u < units) :
    col (permCols units σ m) u = col m (σ u) := by
  simp only [col, permCols, List.map_map]
  apply List.map_congr_left
  intro row _
  exact getR_map_range units _ u hu

theorem rect_permCols (units : Nat) (σ : Nat → Nat) (m : Mat) : Rect units (permCols units σ m) := by
  intro row hrow
  obtain ⟨r, _, rfl⟩ := List.mem_map.mp hrow
  simp

/-- **T2, matrices**: permuting the columns permutes the column sums and the normalised columns
(`σ` maps the units into themselves). -/
theorem linear_normalization_unit_permutation (units : Nat) (σ : Nat → Nat) (ord : Tfl.Linear.NormOrd)
    (m : Mat) (hm : Rect units m) (u : Nat) (hu : u < units) (hσ : σ u < units) :
    col (normalizeU units ord (permCols units σ m)) u = col (normalizeU units ord m) (σ u) ∧
    getR (sumAxis0 units (permCols units σ m)) u = getR (sumAxis0 units m) (σ u) := by
  constructor
  · rw [normalizeU_col units u hu ord _ (rect_permCols units σ m), col_permCols units σ m u hu,
      normalizeU_col units (σ u) hσ ord m hm]
  · rw [getR_sumAxis0 units u hu _ (rect_permCols units σ m), col_permCols units σ m u hu,
      getR_sumAxis0 units (σ u) hσ m hm]

/-! ## T3 — rows: structural in the model

Every `call` of the model files (`Tfl.Linear.call`, `Tfl.Categorical.call`, `Tfl.Kfl.eval`, `Tfl.PwlEval.*`,
`Tfl.LatticeEval.*`) takes ONE example; the model of a batch is the list of per-example results.
The two statements below are all there is to say inside the model; that the REAL layers behave like
this (no reduction / normalisation over the batch axis, no state shared between rows) is what the
real-vs-real tie of `harness/props/c09.py` checks on every layer kind. -/

/-- **T3**: output row `i` of a batch is the single-example evaluation of row `i`. -/
theorem batch_row_independence {α β : Type} (f : α → β) (xs : List α) (i : Nat) (h : i < xs.length) :
    (xs.map f)[i]'(by simpa using h) = f xs[i] := by simp

/-- **T3**: permuting / selecting / repeating the rows of the batch (any re-indexing `sel`) does the
same to the outputs. -/
theorem batch_reindex {α β : Type} (f : α → β) (xs : List α) (d : α) (sel : List Nat) :
    (sel.map (fun i => xs.getD i d)).map f = sel.map (fun i => f (xs.getD i d)) := by
  simp [List.map_map, Function.comp_def]

/-! ## non-vacuity and what the theorems exclude -/

/-- a 2×2 lattice with 2 units of very different magnitude (unit 0 ×1, unit 1 ×100), Edgeworth trust
`(0, 1, +)` and bounds `[0, 1]`; entries in row-major order of `[2, 2, 2]` (unit fastest) -/
def exCfg : Cfg := { sizes := [2, 2], mono := [true, false], edgeworth := [⟨0, 1, true⟩], lo := some 0, hi := some 1 }
def exW : Table := Table.ofVals [2, 2, 2] [0, 0, 1, -300, 3, 400, 2, -100]

example : CfgShape exCfg :=
  ⟨by decide, by
    intro tr h
    simp only [exCfg, List.append_nil, List.mem_cons, List.not_mem_nil, or_false] at h
    subst h; exact ⟨by decide, by decide⟩⟩

/-- the executable multi-unit finalisation of the example, and the one-unit finalisations of its
two unit slices: column by column identical (unit 0: `[0,1,3,2] ↦ [0,1/4,3/4,1]`, unit 1, a hundred times
bigger and with its own Edgeworth violation: `[0,-300,400,-100] ↦ [3/7,0,1,4/7]`) -/
example :
    Table.vals [2, 2, 2] (finalizeUT exCfg 2 exW) = [0, 3/7, 1/4, 0, 3/4, 1, 1, 4/7] ∧
    Table.vals [2, 2] (finalizeT exCfg (Table.ofVals [2, 2] [0, 1, 3, 2])) = [0, 1/4, 3/4, 1] ∧
    Table.vals [2, 2] (finalizeT exCfg (Table.ofVals [2, 2] [0, -300, 400, -100])) = [3/7, 0, 1, 4/7] := by
  decide +kernel

/-- what T1 excludes: reducing over ALL axes (the mutation `axis=None`) gives a different
max-violation (200, unit 1's) for unit 0 of the example than its own one (2) — the theorems are not vacuous. -/
theorem wrong_axis_differs :
    maxOver (allIdx [2, 2, 2]) (eviol exW.get 0 1 0 0) ≠ maxViol [2, 2] 2 (eviol exW.get 0 1 0 0) 0 := by
  decide +kernel

end Tfl.C09
