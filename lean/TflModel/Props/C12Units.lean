import TflModel.Props.C12
import TflModel.Props.C05
/-!
# C12 — layer level: "whichever unit is the offender", and the PWL layer's own evaluation

`Props/C12.lean` characterises `accepts…` on ONE unit column.  The layers call their
`assert_constraints` on the whole `(n, units)` kernel; `Tfl.Asserts.accepts…Layer` models that call with
the real reductions over the unit axis.  Here, for categorical, linear, PWL and KFL:

  `accepts…Layer cfg cols eps = true  ↔  ∀ column ∈ cols, accepts… cfg column eps = true`

(`*_layer_iff`), hence with the per-column theorems: the layer is accepted iff every covered constraint
of EVERY unit has slack `≥ −eps` (`*_layer_explicit`).  (Lattice: `C12.lattice_layer_iff`.)

PWL: `PWLCalibration.assert_constraints` judges `keypoints_outputs()` — for `learned_interior`
keypoints since 57c7e1f (before, it evaluated the function at the INITIAL `input_keypoints`, F-C12-e,
`learned_old_assert_witness`), for fixed keypoints since 164b31b (before, it evaluated
`call(input_keypoints)`, which returns `missing_output` at a keypoint equal to `missing_input_value`,
F-C12-f, `missing_value_at_keypoint_witness`).  `pwl_layer_iff` therefore needs no hypothesis.
That these cumulative sums ARE the function's values at its keypoints is C05's node theorem;
`oldCallOutputs_eq` restates it for the evaluation the layer used to make (the two fixes change
nothing outside the two recorded classes).
-/
namespace Tfl.C12
open Tfl Tfl.Poset Tfl.Linear Tfl.Asserts

/-! ## reductions over the unit axis -/

theorem minGe_flatten (cols : List (List Rat)) (c : Rat) :
    minGe cols.flatten c = true ↔ ∀ w ∈ cols, minGe w c = true := by
  simp only [minGe_iff, List.mem_flatten]
  constructor
  · intro h w hw y hy; exact h y ⟨w, hw, hy⟩
  · rintro h y ⟨w, hw, hy⟩; exact h w hw y hy

theorem maxLe_flatten (cols : List (List Rat)) (c : Rat) :
    maxLe cols.flatten c = true ↔ ∀ w ∈ cols, maxLe w c = true := by
  simp only [maxLe_iff, List.mem_flatten]
  constructor
  · intro h w hw y hy; exact h y ⟨w, hw, hy⟩
  · rintro h y ⟨w, hw, hy⟩; exact h w hw y hy

theorem minGe_flatMap {α : Type} (l : List α) (f : α → List Rat) (c : Rat) :
    minGe (l.flatMap f) c = true ↔ ∀ a ∈ l, minGe (f a) c = true := by
  simp only [minGe_iff, List.mem_flatMap]
  constructor
  · intro h a ha y hy; exact h y ⟨a, ha, hy⟩
  · rintro h y ⟨a, ha, hy⟩; exact h a ha y hy

theorem maxLe_flatMap {α : Type} (l : List α) (f : α → List Rat) (c : Rat) :
    maxLe (l.flatMap f) c = true ↔ ∀ a ∈ l, maxLe (f a) c = true := by
  simp only [maxLe_iff, List.mem_flatMap]
  constructor
  · intro h a ha y hy; exact h y ⟨a, ha, hy⟩
  · rintro h y ⟨a, ha, hy⟩; exact h a ha y hy

theorem minGe_map {α : Type} (l : List α) (f : α → Rat) (c : Rat) :
    minGe (l.map f) c = true ↔ ∀ a ∈ l, c ≤ f a := by
  simp [minGe_iff]

/-! ## Categorical -/

/-- **C12 (categorical, all units).** `reduce_min` / `reduce_max` of the real assert run over the
whole `(num_buckets, units)` kernel and over all `(pair, unit)` differences: the layer is accepted
iff every unit column is. -/
theorem categorical_layer_iff (lo hi : Option Rat) (cs : Pairs) (cols : List (List Rat)) (eps : Rat) :
    acceptsCategoricalLayer lo hi cs cols eps = true ↔
      ∀ w ∈ cols, acceptsCategorical lo hi cs w eps = true := by
  have h1 : catLoL lo cols eps = true ↔ ∀ w ∈ cols, catLo lo w eps = true := by
    cases lo with
    | none => simp [catLo, catLoL]
    | some l => simp only [catLo, catLoL, minGe_flatten]
  have h2 : catHiL hi cols eps = true ↔ ∀ w ∈ cols, catHi hi w eps = true := by
    cases hi with
    | none => simp [catHi, catHiL]
    | some h => simp only [catHi, catHiL, maxLe_flatten]
  have h3 : catPairsL cs cols eps = true ↔ ∀ w ∈ cols, catPairs cs w eps = true := by
    simp only [catPairsL, catPairs, maxLe_flatMap]
  simp only [acceptsCategoricalLayer, acceptsCategorical, Bool.and_eq_true, h1, h2, h3]
  exact ⟨fun h w hw => ⟨⟨h.1.1 w hw, h.1.2 w hw⟩, h.2 w hw⟩,
    fun h => ⟨⟨fun w hw => (h w hw).1.1, fun w hw => (h w hw).1.2⟩, fun w hw => (h w hw).2⟩⟩

/-- **C12 (categorical, layer, explicit).** Accepted iff for EVERY unit column every weight is within
`eps` of the bounds that are set and every ordering pair has `w_j − w_i ≥ −eps`. -/
theorem categorical_layer_explicit (lo hi : Option Rat) (cs : Pairs) (cols : List (List Rat)) (eps : Rat) :
    acceptsCategoricalLayer lo hi cs cols eps = true ↔
      ∀ w ∈ cols,
        (∀ l, lo = some l → ∀ k, k < w.length → -eps ≤ getV w k - l) ∧
        (∀ h, hi = some h → ∀ k, k < w.length → -eps ≤ h - getV w k) ∧
        (∀ c ∈ cs, -eps ≤ getV w c.2 - getV w c.1) := by
  rw [categorical_layer_iff]
  exact forall_congr' fun w => forall_congr' fun _ => categorical_iff lo hi cs w eps

/-! ## Linear -/

/-- **C12 (linear, all units).** The sign test reduces over all `(input, unit)` entries, each dominance
test over the units, the norm test is per unit with `reduce_all`: the layer is accepted iff every
unit column is. -/
theorem linear_layer_iff (monos : List Int) (md rd : Pairs) (los his : List (Option Rat)) (ord : NormOrd)
    (cols : List (List Rat)) (eps : Rat) :
    acceptsLinearLayer monos md rd los his ord cols eps = true ↔
      ∀ w ∈ cols, acceptsLinear monos md rd los his ord w eps = true := by
  have h1 : linMonoL monos cols eps = true ↔ ∀ w ∈ cols, linMono monos w eps = true := by
    unfold linMono linMonoL
    by_cases ha : monos.any (· != 0) = true
    · simp only [ha, if_true, minGe_flatMap]
    · simp [ha]
  have h2 : linMdomL md cols eps = true ↔ ∀ w ∈ cols, linMdom md w eps = true := by
    simp only [linMdom, linMdomL, List.all_eq_true, minGe_map, decide_eq_true_eq]
    exact ⟨fun h w hw c hc => h c hc w hw, fun h c hc w hw => h w hw c hc⟩
  have h3 : linRdomL monos rd los his cols eps = true ↔ ∀ w ∈ cols, linRdom monos rd los his w eps = true := by
    simp only [linRdom, linRdomL, List.all_eq_true, minGe_map, decide_eq_true_eq]
    exact ⟨fun h w hw c hc => h c hc w hw, fun h c hc w hw => h w hw c hc⟩
  have h4 : linNormL ord cols eps = true ↔ ∀ w ∈ cols, normOk ord w eps = true := by
    simp only [linNormL, List.all_eq_true]
  simp only [acceptsLinearLayer, acceptsLinear, Bool.and_eq_true, h1, h2, h3, h4]
  exact ⟨fun h w hw => ⟨⟨⟨h.1.1.1 w hw, h.1.1.2 w hw⟩, h.1.2 w hw⟩, h.2 w hw⟩,
    fun h => ⟨⟨⟨fun w hw => (h w hw).1.1.1, fun w hw => (h w hw).1.1.2⟩, fun w hw => (h w hw).1.2⟩,
      fun w hw => (h w hw).2⟩⟩

/-- **C12 (linear, layer, explicit).** Accepted iff EVERY unit column meets the sign, dominance and
norm statements of `linear_iff`. -/
theorem linear_layer_explicit (monos : List Int) (md rd : Pairs) (los his : List (Option Rat)) (ord : NormOrd)
    (cols : List (List Rat)) (eps : Rat) (hlen : ∀ w ∈ cols, monos.length = w.length) :
    acceptsLinearLayer monos md rd los his ord cols eps = true ↔
      ∀ w ∈ cols,
        ((∃ m ∈ monos, m ≠ 0) → ∀ k, k < w.length → -eps ≤ getV w k * (getM monos k : Rat)) ∧
        (∀ c ∈ md, -eps ≤ getV w c.1 - getV w c.2) ∧
        (∀ c ∈ rd, -eps ≤ getV (scalingsAll monos los his) c.1 * getV w c.1 -
                          getV (scalingsAll monos los his) c.2 * getV w c.2) ∧
        normOk ord w eps = true := by
  rw [linear_layer_iff]
  exact forall_congr' fun w => forall_congr' fun hw => linear_iff monos md rd los his ord w eps (hlen w hw)

/-! ## PWL calibration -/

/-- `pwl_calibration_lib.assert_constraints` on an outputs tensor `(K, units)`: per-unit bound /
clamp tests with `reduce_all`, one `reduce_min` of the oriented differences over all units — accepted
iff every unit's output column is. -/
theorem pwl_outputs_layer_iff (mono : Int) (lo hi : Option Rat) (cmin cmax : Bool) (outs : List (List Rat))
    (eps : Rat) :
    acceptsPwlOutputsLayer mono lo hi cmin cmax outs eps = true ↔
      ∀ out ∈ outs, acceptsPwlOutputs mono lo hi cmin cmax out eps = true := by
  have h3 : pwlMonoL mono outs eps = true ↔ ∀ out ∈ outs, pwlMono mono out eps = true := by
    unfold pwlMono pwlMonoL
    by_cases hm : mono = 0
    · simp [hm]
    · simp only [hm, if_false, minGe_flatMap]
  simp only [acceptsPwlOutputsLayer, acceptsPwlOutputs, Bool.and_eq_true, h3, List.all_eq_true]
  exact ⟨fun h w hw => ⟨⟨h.1.1 w hw, h.1.2 w hw⟩, h.2 w hw⟩,
    fun h => ⟨⟨fun w hw => (h w hw).1.1, fun w hw => (h w hw).1.2⟩, fun w hw => (h w hw).2⟩⟩

/-- `PWLCalibration.call` for one unit at input `x`, as `assert_constraints` invoked it BEFORE
164b31b (fixed keypoints): `call([x, zeros])` when imputing without a `missing_input_value`,
`call(x)` otherwise (`missing_output` where `x == missing_input_value`) -/
def pwlCallAt (cfg : PwlEval.Cfg) (kernel : List Rat) (mo x : Rat) : Rat :=
  let result := PwlEval.calibrate cfg kernel [] x
  if cfg.imputeMissing then
    match cfg.missingInputValue with
    | none => 0 * mo + (1 - 0) * result
    | some v =>
      let m : Rat := if x = v then 1 else 0
      m * mo + (1 - m) * result
  else result

/-- the `outputs` column the layer built before 164b31b for fixed keypoints: `call(input_keypoints)` -/
def oldCallOutputs (cfg : PwlEval.Cfg) (kernel : List Rat) (mo : Rat) : List Rat :=
  cfg.inputKeypoints.map (pwlCallAt cfg kernel mo)

/-- the total function `pwlCallAt` is C05's `PwlEval.call` with the arguments
`assert_constraints` passed (`[x, zeros]` when imputing without a `missing_input_value`) -/
theorem pwlCallAt_eq_call (cfg : PwlEval.Cfg) (kernel : List Rat) (mo x : Rat) :
    PwlEval.call cfg kernel [] mo x
        (if cfg.imputeMissing && cfg.missingInputValue.isNone then some 0 else none) =
      .ok (pwlCallAt cfg kernel mo x) := by
  unfold PwlEval.call pwlCallAt
  cases hi : cfg.imputeMissing <;> cases hv : cfg.missingInputValue <;> simp

/-- away from `missing_input_value` the call is the calibration proper -/
theorem pwlCallAt_eq_calibrate (cfg : PwlEval.Cfg) (kernel : List Rat) (mo x : Rat)
    (hx : cfg.imputeMissing = true → cfg.missingInputValue ≠ some x) :
    pwlCallAt cfg kernel mo x = PwlEval.calibrate cfg kernel [] x := by
  unfold pwlCallAt
  cases hi : cfg.imputeMissing
  · simp
  · cases hv : cfg.missingInputValue with
    | none => simp
    | some v =>
      have : x ≠ v := fun e => hx hi (by rw [hv, e])
      simp [this]

theorem getR_eq_getElem (l : List Rat) (j : Nat) (hj : j < l.length) : getR l j = l[j] := by
  simp [getR, List.getD, hj]

/-- **C12 (PWL, what the layer judges).** The `outputs` column `PWLCalibration.assert_constraints`
builds for a unit IS `keypoints_outputs()` of that unit's kernel column — by the code, for fixed and
learned keypoints alike (57c7e1f, 164b31b): no hypothesis. -/
theorem pwlLayerOutputs_eq (cfg : PwlEval.Cfg) (kernel : List Rat) :
    pwlLayerOutputs cfg kernel = PwlEval.keypointsOutputs cfg kernel := rfl

/-- **C12 (PWL, the judged values are the function's values).** For fixed keypoints, the function
evaluated at its keypoints (the way the assert did before 164b31b) gives exactly
`keypoints_outputs()`, because it passes through its nodes (`C05.pwl_value_at_keypoints`) — for every
well-formed layer none of whose keypoints equals `missing_input_value` (at such a keypoint `call`
returns `missing_output`: F-C12-f). So 164b31b changes the verdict only in that class. -/
theorem oldCallOutputs_eq (cfg : PwlEval.Cfg) (kernel : List Rat) (mo : Rat) (hl : cfg.learned = false)
    (h : PwlEval.WF cfg kernel [])
    (hmiss : cfg.imputeMissing = true → ∀ v, cfg.missingInputValue = some v → v ∉ cfg.inputKeypoints) :
    oldCallOutputs cfg kernel mo = pwlLayerOutputs cfg kernel := by
  unfold oldCallOutputs pwlLayerOutputs
  have hlen := PwlEval.length_keypointsOutputs h
  have hki := PwlEval.keypointsInputs_fixed h hl
  apply List.ext_getElem
  · simp [hlen]
  · intro j hj1 hj2
    have hj : j < cfg.inputKeypoints.length := by simpa using hj1
    rw [List.getElem_map, ← getR_eq_getElem _ j hj2, ← C05.pwl_value_at_keypoints h j hj, hki,
      getR_eq_getElem _ j hj]
    apply pwlCallAt_eq_calibrate
    intro hi hv
    exact hmiss hi _ hv (List.getElem_mem hj)

theorem cons_cumsumIncl (b : Rat) (hs : List Rat) : b :: PwlEval.cumsumIncl b hs = prefixSums b hs := by
  induction hs generalizing b with
  | nil => rfl
  | cons h hs ih => simp only [PwlEval.cumsumIncl, prefixSums, ih]

/-- without `is_cyclic`, `keypoints_outputs()` is the prefix-sum list `pwlOutputs` of `C12.pwl_iff` -/
theorem keypointsOutputs_eq_pwlOutputs (cfg : PwlEval.Cfg) (kernel : List Rat) (hc : cfg.isCyclic = false) :
    PwlEval.keypointsOutputs cfg kernel = pwlOutputs kernel := by
  unfold PwlEval.keypointsOutputs pwlOutputs
  cases kernel with
  | nil => simp [hc, PwlEval.cumsumIncl]
  | cons b hs => simp [hc, PwlEval.cumsumIncl, cons_cumsumIncl]

/-- cyclic: the outputs are the prefix sums closed by the first one (the value at the last keypoint
equals the value at the first) -/
theorem keypointsOutputs_cyclic (cfg : PwlEval.Cfg) (kernel : List Rat) (hc : cfg.isCyclic = true) :
    PwlEval.keypointsOutputs cfg kernel = pwlOutputs kernel ++ (pwlOutputs kernel).take 1 := by
  unfold PwlEval.keypointsOutputs pwlOutputs
  cases kernel with
  | nil => simp [hc, PwlEval.cumsumIncl]
  | cons b hs => simp [hc, PwlEval.cumsumIncl, cons_cumsumIncl]

theorem mem_range_map_getD {α : Type} (cols : List (List Rat)) (f : Nat → α) (P : α → Prop) :
    (∀ a ∈ (List.range cols.length).map f, P a) ↔ ∀ u, u < cols.length → P (f u) := by
  simp [List.mem_map, List.mem_range]

/-- **C12 (PWL, all units, general).** `PWLCalibration.assert_constraints` accepts iff for EVERY unit the
column `keypoints_outputs()` (cumulative sums of that unit's kernel column, closed by the first one
when cyclic) is accepted by the per-unit test `acceptsPwlOutputs` (spelled out by `pwl_outputs_iff`)
and, when the missing output is learned, that unit's `missing_output` lies within `eps` of the bounds.
Holds with NO hypothesis: fixed AND learned-interior keypoints, cyclic or not, any
`missing_input_value` (since 164b31b). -/
theorem pwl_layer_iff (mono : Int) (lo hi : Option Rat) (cmin cmax assertMissing : Bool)
    (cfg : PwlEval.Cfg) (cols : List (List Rat)) (mouts : List Rat) (eps : Rat) :
    acceptsPwlLayer mono lo hi cmin cmax assertMissing cfg cols mouts eps = true ↔
      ∀ u, u < cols.length →
        acceptsPwlOutputs mono lo hi cmin cmax (PwlEval.keypointsOutputs cfg (cols.getD u [])) eps = true ∧
        (assertMissing = true →
          (∀ l, lo = some l → -eps ≤ getR mouts u - l) ∧ (∀ hh, hi = some hh → -eps ≤ hh - getR mouts u)) := by
  have hout : ∀ u, u < cols.length →
      pwlLayerOutputs cfg (cols.getD u []) = PwlEval.keypointsOutputs cfg (cols.getD u []) :=
    fun u _ => rfl
  have hm : ∀ v : Rat, acceptsPwlOutputs 0 lo hi false false [v] eps = true ↔
      ((∀ l, lo = some l → -eps ≤ v - l) ∧ (∀ hh, hi = some hh → -eps ≤ hh - v)) := by
    intro v
    rw [pwl_outputs_iff 0 lo hi false false [v] eps (by simp)]
    simp
  unfold acceptsPwlLayer
  rw [Bool.and_eq_true, pwl_outputs_layer_iff, mem_range_map_getD cols _
    (fun out => acceptsPwlOutputs mono lo hi cmin cmax out eps = true)]
  cases assertMissing
  · simp only [Bool.false_eq_true, if_false, false_imp_iff, and_true]
    exact forall_congr' fun u => forall_congr' fun hu => by rw [hout u hu]
  · simp only [if_true, true_imp_iff]
    rw [pwl_outputs_layer_iff, mem_range_map_getD cols _
      (fun out => acceptsPwlOutputs 0 lo hi false false out eps = true)]
    constructor
    · rintro ⟨h1, h2⟩ u hu
      exact ⟨by rw [← hout u hu]; exact h1 u hu, (hm _).mp (h2 u hu)⟩
    · intro h'
      exact ⟨fun u hu => by rw [hout u hu]; exact (h' u hu).1, fun u hu => (hm _).mpr (h' u hu).2⟩

/-- **C12 (PWL, all units, non-cyclic).** The layer-level call accepts iff every unit column is accepted
by the per-column model `acceptsPwl` of `pwl_iff` — "whichever unit is the offender". -/
theorem pwl_layer_iff_units (mono : Int) (lo hi : Option Rat) (cmin cmax assertMissing : Bool)
    (cfg : PwlEval.Cfg) (cols : List (List Rat)) (mouts : List Rat) (eps : Rat)
    (hc : cfg.isCyclic = false) :
    acceptsPwlLayer mono lo hi cmin cmax assertMissing cfg cols mouts eps = true ↔
      ∀ u, u < cols.length →
        acceptsPwl mono lo hi cmin cmax (if assertMissing then some (getR mouts u) else none)
          (cols.getD u []) eps = true := by
  rw [pwl_layer_iff mono lo hi cmin cmax assertMissing cfg cols mouts eps]
  refine forall_congr' fun u => forall_congr' fun _ => ?_
  rw [pwl_iff, keypointsOutputs_eq_pwlOutputs cfg _ hc]
  cases assertMissing <;> simp

/-- **C12 (PWL, learned interior keypoints)** — the special case `cfg.learned = true` of
`pwl_layer_iff` (kept by name): wherever the softmax has moved
the keypoints, the layer is judged on the cumulative sums of its kernel columns, i.e. on the
function's values at its CURRENT keypoints (`C05.pwl_value_at_keypoints`), which bound the whole
function (`C05.pwl_bounded`, `C05.pwl_monotone_increasing`). -/
theorem pwl_layer_iff_learned (mono : Int) (lo hi : Option Rat) (cmin cmax assertMissing : Bool)
    (cfg : PwlEval.Cfg) (cols : List (List Rat)) (mouts : List Rat) (eps : Rat) (_hl : cfg.learned = true) :
    acceptsPwlLayer mono lo hi cmin cmax assertMissing cfg cols mouts eps = true ↔
      ∀ u, u < cols.length →
        acceptsPwlOutputs mono lo hi cmin cmax (PwlEval.keypointsOutputs cfg (cols.getD u [])) eps = true ∧
        (assertMissing = true →
          (∀ l, lo = some l → -eps ≤ getR mouts u - l) ∧ (∀ hh, hi = some hh → -eps ≤ hh - getR mouts u)) :=
  pwl_layer_iff mono lo hi cmin cmax assertMissing cfg cols mouts eps

/-- counter-witness of the defect fixed by 57c7e1f (F-C12-e): learned keypoints moved to
`[0, 1/10, 1]` (softmax row `[1/10, 9/10]`), kernel `[0, 3/2, −3/2]`, bounds `[0, 1]`. The OLD assert
judged the function at the initial keypoints `[0, 1/2, 1]`, where it is `[0, 5/6, 0]`: accepted;
the node output `3/2` at the learned keypoint `1/10` violates `output_max` by `1/2`: the model of the
fixed code rejects. -/
theorem learned_old_assert_witness :
    let cfg : PwlEval.Cfg := ⟨[0, 1/2, 1], true, false, false, none⟩
    let kernel : List Rat := [0, 3/2, -3/2]
    cfg.inputKeypoints.map (PwlEval.calibrate cfg kernel [1/10, 9/10]) = [0, 5/6, 0] ∧
    acceptsPwlOutputs 0 (some 0) (some 1) false false [0, 5/6, 0] (1 / 1000000) = true ∧
    PwlEval.keypointsOutputs cfg kernel = [0, 3/2, 0] ∧
    acceptsPwlLayer 0 (some 0) (some 1) false false false cfg [kernel] [0] (1 / 1000000) = false := by
  decide +kernel

/-- witness of the defect fixed by 164b31b (F-C12-f): fixed keypoints `[0, 1/2, 1]`,
`missing_input_value = 1/2`, kernel `[0, 3/2, −1]` (node outputs `[0, 3/2, 1/2]`), `missing_output = 1/2`,
bounds `[0, 1]`. The OLD evaluation `call(input_keypoints)` read `missing_output` at the keypoint `1/2`:
`[0, 1/2, 1/2]`, accepted (so the hypothesis `hmiss` of `oldCallOutputs_eq` is needed); the node output
`3/2` violates `output_max` by `1/2`: the layer-level model of the fixed code rejects, in agreement with
the per-column model. -/
theorem missing_value_at_keypoint_witness :
    let cfg : PwlEval.Cfg := ⟨[0, 1/2, 1], false, false, true, some (1/2)⟩
    oldCallOutputs cfg [0, 3/2, -1] (1/2) = [0, 1/2, 1/2] ∧
    acceptsPwlOutputs 0 (some 0) (some 1) false false [0, 1/2, 1/2] (1 / 1000000) = true ∧
    acceptsPwlLayer 0 (some 0) (some 1) false false true cfg [[0, 3/2, -1]] [1/2] (1 / 1000000) = false ∧
    acceptsPwl 0 (some 0) (some 1) false false (some (1/2)) [0, 3/2, -1] (1 / 1000000) = false := by
  decide +kernel

/-! ## KroneckerFactoredLattice -/

/-- **C12 (KFL, all units).** The monotonicity `reduce_min` runs over units × terms, the bound
assertions are per (term, unit), the counts of negative weights / out-of-range scales run over all
units: the layer is accepted iff every unit `(kernel slice, scale row)` is. -/
theorem kfl_layer_iff (ls dims terms : Nat) (monos : List Int) (lo hi : Option Rat)
    (us : List (List (List (List Rat)) × List Rat)) (eps : Rat) :
    acceptsKflLayer ls dims terms monos lo hi us eps = true ↔
      ∀ u ∈ us, acceptsKfl ls dims terms monos lo hi u.1 u.2 eps = true := by
  have hmono : kflMonoL ls dims terms monos us eps = true ↔
      ∀ u ∈ us, kflMono ls dims terms monos u.1 u.2 eps = true := by
    simp only [kflMono, kflMonoL, List.all_eq_true, List.mem_range]
    constructor
    · intro h u hu d hd
      have := h d hd
      by_cases hm : monos.getD d 0 ≠ 0
      · rw [if_pos hm] at this ⊢
        simp only [List.all_eq_true, List.mem_range, minGe_flatMap] at this ⊢
        exact fun j hj => this j hj u hu
      · rw [if_neg hm]
    · intro h d hd
      by_cases hm : monos.getD d 0 ≠ 0
      · rw [if_pos hm]
        simp only [List.all_eq_true, List.mem_range, minGe_flatMap]
        intro j hj u hu
        have := h u hu d hd
        rw [if_pos hm] at this
        simp only [List.all_eq_true, List.mem_range] at this
        exact this j hj
      · rw [if_neg hm]
  have hb : kflBoundsL ls dims terms lo hi us eps = true ↔
      ∀ u ∈ us, kflBounds ls dims terms lo hi u.1 u.2 eps = true := by
    unfold kflBounds kflBoundsL
    cases lo <;> cases hi <;>
      simp only [Bool.and_eq_true, List.all_eq_true, List.mem_flatMap, forall_exists_index, and_imp,
        implies_true]
    · exact ⟨fun h u hu => ⟨h.1 u hu, fun s hs => h.2 s u hu hs⟩,
        fun h => ⟨fun u hu => (h u hu).1, fun s u hu hs => (h u hu).2 s hs⟩⟩
    · exact ⟨fun h u hu => ⟨h.1 u hu, fun s hs => h.2 s u hu hs⟩,
        fun h => ⟨fun u hu => (h u hu).1, fun s u hu hs => (h u hu).2 s hs⟩⟩
    · exact ⟨fun h u hu => ⟨fun t ht => h.1 t ht u hu, fun s hs => h.2 s u hu hs⟩,
        fun h => ⟨fun t ht u hu => (h u hu).1 t ht, fun s u hu hs => (h u hu).2 s hs⟩⟩
  unfold acceptsKflLayer acceptsKfl
  rw [Bool.and_eq_true, hmono, hb]
  simp only [Bool.and_eq_true]
  exact ⟨fun h u hu => ⟨h.1 u hu, h.2 u hu⟩, fun h => ⟨fun u hu => (h u hu).1, fun u hu => (h u hu).2⟩⟩

/-- **C12 (KFL, layer, explicit).** Accepted iff EVERY unit meets the monotonicity and bound
statements of `kfl_iff`. -/
theorem kfl_layer_explicit (ls dims terms : Nat) (monos : List Int) (lo hi : Option Rat)
    (us : List (List (List (List Rat)) × List Rat)) (eps : Rat) :
    acceptsKflLayer ls dims terms monos lo hi us eps = true ↔
      ∀ u ∈ us,
        (∀ d, d < min dims monos.length → monos.getD d 0 ≠ 0 → ∀ j, j < ls - 1 → ∀ t, t < terms →
          -eps ≤ sign (getV u.2 t) * get3 u.1 (j + 1) d t - sign (getV u.2 t) * get3 u.1 j d t) ∧
        KflBoundsOK ls dims terms lo hi u.1 u.2 eps := by
  rw [kfl_layer_iff]
  exact forall_congr' fun u => forall_congr' fun _ => kfl_iff ls dims terms monos lo hi u.1 u.2 eps

/-! ### non-vacuity: only the second unit offends — rejected; both fine — accepted -/
example : acceptsCategoricalLayer (some 0) (some 1) [(0, 1)] [[0, 1], [1, 0]] (1 / 1000000) = false := by decide +kernel
example : acceptsCategoricalLayer (some 0) (some 1) [(0, 1)] [[0, 1], [1/2, 1/2]] (1 / 1000000) = true := by decide +kernel
example : acceptsLinearLayer [1, 1] [(0, 1)] [] [none, none] [none, none] .l1 [[3/4, 1/4], [1/4, 3/4]] (1 / 10000) = false := by
  decide +kernel
example : acceptsLinearLayer [1, 1] [(0, 1)] [] [none, none] [none, none] .l1 [[3/4, 1/4], [1/2, 1/2]] (1 / 10000) = true := by
  decide +kernel
-- PWL: clamp_min reached by unit 0 only (the `reduce_min(axis=0)` + `reduce_all` of the fixed code, F-C16/C12 seeded mutant)
example : acceptsPwlLayer 1 (some 0) (some 1) true false false ⟨[0, 1/2, 1], false, false, false, none⟩
    [[0, 1/2, 1/4], [1/8, 1/2, 1/4]] [0, 0] (1 / 1000000) = false := by decide +kernel
example : acceptsPwlLayer 1 (some 0) (some 1) true false false ⟨[0, 1/2, 1], false, false, false, none⟩
    [[0, 1/2, 1/4], [0, 1/4, 1/4]] [0, 0] (1 / 1000000) = true := by decide +kernel
example : acceptsKflLayer 2 2 1 [1, 0] (some 0) (some 2)
    [([[[1/4], [1]], [[1/2], [-1]]], [1]), ([[[1/2], [1]], [[1/4], [-1]]], [1])] (1 / 1000000) = false := by decide +kernel
example : acceptsKflLayer 2 2 1 [1, 0] (some 0) (some 2)
    [([[[1/4], [1]], [[1/2], [-1]]], [1]), ([[[1/4], [1]], [[1/4], [-1]]], [-1])] (1 / 1000000) = true := by decide +kernel

end Tfl.C12
