import TflModel.Props.C18
import TflModel.Model.Verify
/-!
# C18 — ends = clip bounds / data extremes, 'uniform' range, the rules as ONE predicate, the
feature / label helpers, acceptance by `PWLCalibration`

* `sortedValues_head_clipMin`, `sortedValues_last_clipMax`, `sortedValues_head_dataMin`,
  `sortedValues_last_dataMax`: the smallest / largest value of the de-duplicated clipped sample IS
  `clip_min` / `clip_max` when given (and consistent), else the data extreme — this ties the
  "first / last keypoint" clauses of `Props/C18.lean` (stated on `sortedValues`) to the arguments.
* `uniform_within_range`: 'uniform' keypoints lie in the clipped range.
* `Rules` + `compute_keypoints_rules`: all clauses of the property for both modes, weighted or not.
* `feature_helper_rules`, `label_helper_rules`, `label_logits_rules`, `set_feature_keypoints_get`:
  the helpers return and store keypoints obeying the same rules (by reduction to `compute_keypoints`).
* `pwl_accepts_keypoints`: strictly increasing keypoints (≥ 2) pass `PWLCalibration`'s verification.
-/
namespace Tfl.C18
open Tfl Tfl.Keypoints

/-! ## first / last value of the clipped sample -/

theorem head_of_strict_rat {s : List Rat} (hs : s.Pairwise (· < ·)) {m : Rat} (hm : m ∈ s) (hlo : ∀ z ∈ s, m ≤ z) :
    s[0]? = some m := by
  obtain ⟨i, hi, rfl⟩ := List.getElem_of_mem hm
  rcases Nat.eq_zero_or_pos i with rfl | hpos
  · exact List.getElem?_eq_getElem hi
  · have h1 := List.pairwise_iff_getElem.mp hs 0 i (by omega) hi hpos
    have h2 := hlo (s[0]'(by omega)) (List.getElem_mem _)
    exact absurd (lt_of_lt_of_le h1 h2) (lt_irrefl _)

theorem last_of_strict_rat {s : List Rat} (hs : s.Pairwise (· < ·)) {m : Rat} (hm : m ∈ s) (hhi : ∀ z ∈ s, z ≤ m) :
    s[s.length - 1]? = some m := by
  obtain ⟨i, hi, rfl⟩ := List.getElem_of_mem hm
  rcases Nat.lt_or_ge i (s.length - 1) with hlt | hge
  · have h1 := List.pairwise_iff_getElem.mp hs i (s.length - 1) hi (by omega) hlt
    have h2 := hhi (s[s.length - 1]'(by omega)) (List.getElem_mem _)
    exact absurd (lt_of_lt_of_le h1 h2) (lt_irrefl _)
  · have : i = s.length - 1 := by omega
    subst this
    exact List.getElem?_eq_getElem hi

/-- the value an observation `v` enters de-duplication with: `np.maximum(v, clip_min)` then
`np.minimum(·, clip_max)` -/
def clipTo (clipMin clipMax : Option Rat) (v : Rat) : Rat :=
  let v1 := match clipMin with
    | some c => max v c
    | none => v
  match clipMax with
  | some c => min v1 c
  | none => v1

/-- one weight per value (`weights[non_default_idx]` is an `IndexError` otherwise: outside the
quantifier of C18; the model zips) -/
def WeightsFit (values : List Rat) (weights : Option (List Rat)) : Prop :=
  ∀ w, weights = some w → w.length = values.length

theorem map_fst_filter_zip (values ws : List Rat) (h : ws.length = values.length) (dflt : Option Rat) :
    ((values.zip ws).filter (fun p => dflt ≠ some p.1)).map (·.1) = values.filter (fun v => dflt ≠ some v) := by
  have h1 : (values.zip ws).map (·.1) = values := List.map_fst_zip (by omega)
  conv_rhs => rw [← h1]
  rw [List.filter_map]
  rfl

/-- the values entering de-duplication, without the weights: non-default observations, clipped,
with the clip bounds appended -/
def clippedData (values : List Rat) (clipMin clipMax dflt : Option Rat) : List Rat :=
  let d0 := values.filter (fun v => dflt ≠ some v)
  let d1 := match clipMin with
    | some c => d0.map (fun v => max v c) ++ [c]
    | none => d0
  match clipMax with
    | some c => d1.map (fun v => min v c) ++ [c]
    | none => d1

theorem prepare_map_fst (values : List Rat) (weights : Option (List Rat)) (clipMin clipMax dflt : Option Rat)
    (hw : WeightsFit values weights) :
    (prepare values weights clipMin clipMax dflt).map (·.1) = clippedData values clipMin clipMax dflt := by
  unfold prepare clippedData
  cases weights with
  | none =>
    have hk := map_fst_filter_zip values (values.map fun _ => (1 : Rat)) (by simp) dflt
    cases clipMin <;> cases clipMax <;>
      simp only [List.map_append, List.map_map, List.map_cons, List.map_nil, Function.comp_def] <;>
      simp only [← hk, List.map_map, Function.comp_def]
  | some w =>
    have hk := map_fst_filter_zip values w (hw w rfl) dflt
    cases clipMin <;> cases clipMax <;>
      simp only [List.map_append, List.map_map, List.map_cons, List.map_nil, Function.comp_def] <;>
      simp only [← hk, List.map_map, Function.comp_def]

/-- the de-duplicated sample does not depend on the weights -/
theorem sortedValues_eq (values : List Rat) (weights : Option (List Rat)) (clipMin clipMax dflt : Option Rat)
    (hw : WeightsFit values weights) :
    sortedValues values weights clipMin clipMax dflt = unique (clippedData values clipMin clipMax dflt) := by
  unfold sortedValues
  rw [prepare_map_fst _ _ _ _ _ hw]

/-- **The clipped sample, element-wise.** `x` is among the values entering de-duplication iff it
is a clipped non-default observation, the (upper-clipped) `clip_min` sentinel, or the `clip_max`
sentinel. -/
theorem mem_clippedData (values : List Rat) (clipMin clipMax dflt : Option Rat) (x : Rat) :
    x ∈ clippedData values clipMin clipMax dflt ↔
      (∃ v ∈ values, dflt ≠ some v ∧ x = clipTo clipMin clipMax v) ∨
      (∃ c, clipMin = some c ∧ x = clipTo none clipMax c) ∨ clipMax = some x := by
  unfold clippedData clipTo
  cases clipMin <;> cases clipMax <;>
    simp only [List.mem_append, List.mem_map, List.mem_singleton, List.mem_filter, decide_eq_true_eq]
  · constructor
    · rintro ⟨h1, h2⟩; exact Or.inl ⟨x, h1, h2, rfl⟩
    · rintro (⟨v, h1, h2, rfl⟩ | ⟨c, h, _⟩ | h)
      · exact ⟨h1, h2⟩
      · cases h
      · cases h
  · constructor
    · rintro (⟨v, ⟨h1, h2⟩, rfl⟩ | rfl)
      · exact Or.inl ⟨v, h1, h2, rfl⟩
      · exact Or.inr (Or.inr rfl)
    · rintro (⟨v, h1, h2, rfl⟩ | ⟨c, h, _⟩ | h)
      · exact Or.inl ⟨v, ⟨h1, h2⟩, rfl⟩
      · cases h
      · cases h; exact Or.inr rfl
  · constructor
    · rintro (⟨v, ⟨h1, h2⟩, rfl⟩ | rfl)
      · exact Or.inl ⟨v, h1, h2, rfl⟩
      · exact Or.inr (Or.inl ⟨x, rfl, rfl⟩)
    · rintro (⟨v, h1, h2, rfl⟩ | ⟨c, h, rfl⟩ | h)
      · exact Or.inl ⟨v, ⟨h1, h2⟩, rfl⟩
      · cases h; exact Or.inr rfl
      · cases h
  · constructor
    · rintro (⟨w, (⟨v, ⟨h1, h2⟩, rfl⟩ | rfl), rfl⟩ | rfl)
      · exact Or.inl ⟨v, h1, h2, rfl⟩
      · exact Or.inr (Or.inl ⟨_, rfl, rfl⟩)
      · exact Or.inr (Or.inr rfl)
    · rintro (⟨v, h1, h2, rfl⟩ | ⟨c, h, rfl⟩ | h)
      · exact Or.inl ⟨_, Or.inl ⟨v, ⟨h1, h2⟩, rfl⟩, rfl⟩
      · cases h; exact Or.inl ⟨_, Or.inr rfl, rfl⟩
      · cases h; exact Or.inr rfl

/-- **C18, "first … equal to the clip bound".** With `clip_min = c` (and `clip_max ≥ c` if given)
the smallest value of the de-duplicated clipped sample — the first keypoint by
`quantiles_unweighted` / `quantiles_weighted` / `quantiles_few_distinct` / `uniform_keypoints` —
is `c` itself, for every data array, weights and default value. -/
theorem sortedValues_head_clipMin (values : List Rat) (weights : Option (List Rat)) (c : Rat) (clipMax dflt : Option Rat)
    (hmax : ∀ c', clipMax = some c' → c ≤ c') :
    (sortedValues values weights (some c) clipMax dflt)[0]? = some c := by
  unfold sortedValues
  apply head_of_strict_rat (unique_pairwise _)
  · rw [mem_unique]
    unfold prepare
    cases clipMax with
    | none => simp
    | some c' =>
      have := hmax c' rfl
      simp only [List.map_append, List.map_map, List.mem_append, List.mem_map, List.map_cons, List.map_nil,
        List.mem_singleton]
      left; right
      simp [min_eq_left this]
  · intro z hz
    rw [mem_unique] at hz
    unfold prepare at hz
    cases clipMax with
    | none =>
      simp only [List.map_append, List.map_map, List.mem_append, List.mem_map, List.map_cons, List.map_nil,
        List.mem_singleton] at hz
      rcases hz with ⟨p, _, rfl⟩ | rfl
      · exact le_max_right _ _
      · exact le_refl _
    | some c' =>
      have hcc := hmax c' rfl
      simp only [List.map_append, List.map_map, List.mem_append, List.mem_map, List.map_cons, List.map_nil,
        List.mem_singleton] at hz
      rcases hz with (⟨p, _, rfl⟩ | rfl) | rfl
      · exact le_min (le_max_right _ _) hcc
      · exact le_min (le_refl _) hcc
      · exact hcc

/-- **C18, "last … equal to the clip bound".** With `clip_max = c` the largest value of the
de-duplicated clipped sample (the last keypoint) is `c` itself — whatever `clip_min` is (the
upper clip is applied last). -/
theorem sortedValues_last_clipMax (values : List Rat) (weights : Option (List Rat)) (c : Rat) (clipMin dflt : Option Rat) :
    (sortedValues values weights clipMin (some c) dflt)[(sortedValues values weights clipMin (some c) dflt).length - 1]?
      = some c := by
  unfold sortedValues
  apply last_of_strict_rat (unique_pairwise _)
  · rw [mem_unique]
    unfold prepare
    simp
  · intro z hz
    rw [mem_unique] at hz
    unfold prepare at hz
    simp only [List.map_append, List.map_map, List.mem_append, List.mem_map, List.map_cons, List.map_nil,
      List.mem_singleton] at hz
    rcases hz with ⟨p, _, rfl⟩ | rfl
    · exact min_le_right _ _
    · exact le_refl _

/-- **C18, "first … equal to the data extreme".** Without `clip_min`, if `m` is the smallest
non-default observation (and not above `clip_max`), the smallest value of the clipped sample — the
first keypoint — is `m`. -/
theorem sortedValues_head_dataMin (values : List Rat) (weights : Option (List Rat)) (clipMax dflt : Option Rat)
    (hw : WeightsFit values weights) (m : Rat) (hm : m ∈ values) (hd : dflt ≠ some m)
    (hle : ∀ v ∈ values, dflt ≠ some v → m ≤ v) (hmax : ∀ c', clipMax = some c' → m ≤ c') :
    (sortedValues values weights none clipMax dflt)[0]? = some m := by
  rw [sortedValues_eq _ _ _ _ _ hw]
  apply head_of_strict_rat (unique_pairwise _)
  · rw [mem_unique, mem_clippedData]
    refine Or.inl ⟨m, hm, hd, ?_⟩
    unfold clipTo
    cases clipMax with
    | none => rfl
    | some c' => exact (min_eq_left (hmax c' rfl)).symm
  · intro z hz
    rw [mem_unique, mem_clippedData] at hz
    rcases hz with ⟨v, hv, hdv, rfl⟩ | ⟨c, h, _⟩ | h
    · unfold clipTo
      cases clipMax with
      | none => exact hle v hv hdv
      | some c' => exact le_min (hle v hv hdv) (hmax c' rfl)
    · cases h
    · exact hmax z h

/-- **C18, "last … equal to the data extreme".** Without `clip_max`, if `m` is the largest
non-default observation (and not below `clip_min`), the largest value of the clipped sample — the
last keypoint — is `m`. -/
theorem sortedValues_last_dataMax (values : List Rat) (weights : Option (List Rat)) (clipMin dflt : Option Rat)
    (hw : WeightsFit values weights) (m : Rat) (hm : m ∈ values) (hd : dflt ≠ some m)
    (hge : ∀ v ∈ values, dflt ≠ some v → v ≤ m) (hmin : ∀ c, clipMin = some c → c ≤ m) :
    (sortedValues values weights clipMin none dflt)[(sortedValues values weights clipMin none dflt).length - 1]?
      = some m := by
  rw [sortedValues_eq _ _ _ _ _ hw]
  apply last_of_strict_rat (unique_pairwise _)
  · rw [mem_unique, mem_clippedData]
    refine Or.inl ⟨m, hm, hd, ?_⟩
    unfold clipTo
    cases clipMin with
    | none => rfl
    | some c => exact (max_eq_left (hmin c rfl)).symm
  · intro z hz
    rw [mem_unique, mem_clippedData] at hz
    rcases hz with ⟨v, hv, hdv, rfl⟩ | ⟨c, h, rfl⟩ | h
    · unfold clipTo
      cases clipMin with
      | none => exact hge v hv hdv
      | some c => exact max_le (hge v hv hdv) (hmin c rfl)
    · exact hmin _ h
    · cases h

/-- with both bounds given (`clip_min ≤ clip_max`) the ends of the clipped sample are exactly the
bounds: e.g. data `[1,1,2,2,2,5,7,7,9]`, bounds `0`, `8` -/
example : (sortedValues [1, 1, 2, 2, 2, 5, 7, 7, 9] none (some 0) (some 8) none)[0]? = some 0 :=
  sortedValues_head_clipMin _ _ 0 _ _ (by intro c' h; cases h; decide)

/-! ## 'uniform': inside the clipped range -/

theorem linspace_within (a b : Rat) (k : Nat) (hk : 2 ≤ k) (hab : a ≤ b) : ∀ x ∈ linspace a b k, a ≤ x ∧ x ≤ b := by
  intro x hx
  unfold linspace at hx
  rw [if_neg (by omega), List.mem_map] at hx
  obtain ⟨i, hi, rfl⟩ := hx
  rw [List.mem_range] at hi
  have hk' : (0 : Rat) < (k : Rat) - 1 := by
    have : (2 : Rat) ≤ k := by exact_mod_cast hk
    linarith
  have hi0 : (0 : Rat) ≤ i := by exact_mod_cast Nat.zero_le i
  have hi1 : (i : Rat) ≤ (k : Rat) - 1 := by
    have : (i : Rat) + 1 ≤ k := by exact_mod_cast hi
    linarith
  have hba : 0 ≤ b - a := by linarith
  constructor
  · have : 0 ≤ (i : Rat) * (b - a) / ((k : Rat) - 1) := div_nonneg (mul_nonneg hi0 hba) hk'.le
    linarith
  · have : (i : Rat) * (b - a) / ((k : Rat) - 1) ≤ b - a := by
      rw [div_le_iff₀ hk']
      nlinarith
    linarith

/-- **C18 ('uniform', "lie within the clipped data range").** Every 'uniform' keypoint lies
between the smallest and the largest value of the clipped sample. -/
theorem uniform_within_range (values : List Rat) (k : Nat) (clipMin clipMax dflt : Option Rat)
    (weights : Option (List Rat)) (red : Reduce) (dirs : List Int) (hk : 2 ≤ k) (a : Rat) (rest : List Rat)
    (hs : sortedValues values weights clipMin clipMax dflt = a :: rest) :
    ∃ kps, computeKeypoints values k .uniform clipMin clipMax dflt weights red dirs = .ok kps ∧
      ∀ x ∈ kps, a ≤ x ∧ x ≤ (a :: rest).getLast?.getD a := by
  refine ⟨linspace a ((a :: rest).getLast?.getD a) k, ?_, ?_⟩
  · unfold computeKeypoints
    simp only
    rw [← sortedValues, hs]
  · apply linspace_within _ _ _ hk
    have hpw : (a :: rest).Pairwise (· < ·) := by rw [← hs]; exact unique_pairwise _
    cases rest with
    | nil => simp
    | cons x xs =>
      have hmem : (a :: x :: xs).getLast?.getD a ∈ x :: xs := by
        simp only [List.getLast?_cons_cons]
        cases h : (x :: xs).getLast? with
        | none => simp at h
        | some y => simpa using List.mem_of_getLast? h
      exact le_of_lt ((List.pairwise_cons.mp hpw).1 _ hmem)

/-- 'uniform' examples: inside `[clip_min, clip_max] = [0, 8]` with the bounds as ends; the data
extremes without bounds; a constant sample gives `k` equal keypoints (not strictly increasing:
fewer than two distinct values) -/
example : computeKeypoints [1, 1, 2, 2, 2, 5, 7, 7, 9] 5 .uniform (some 0) (some 8) none none .mean []
    = .ok [0, 2, 4, 6, 8] := by decide +kernel
example : computeKeypoints [3, 1, 2, 7] 4 .uniform none none none (some [1, 0, 2, 1]) .sum []
    = .ok [1, 3, 5, 7] := by decide +kernel
example : computeKeypoints [3, 3, 3] 3 .uniform none none none none .mean [] = .ok [3, 3, 3] := by decide +kernel

/-! ## the rules of C18 as one predicate -/

/-- Every clause of C18 about a returned keypoint list `kps`, relative to the de-duplicated
clipped sample `sorted` (whose first / last entries are the clip bounds or data extremes by the
`sortedValues_head_*` / `sortedValues_last_*` theorems): strictly increasing when there are two
distinct values, inside the range, first and last = the ends of the sample, `k` keypoints when
enough distinct values exist (always in 'uniform' mode), otherwise the distinct values. -/
structure Rules (sorted : List Rat) (k : Nat) (mode : Mode) (kps : List Rat) : Prop where
  increasing : 2 ≤ sorted.length → kps.Pairwise (· < ·)
  within : ∀ a b, sorted[0]? = some a → sorted[sorted.length - 1]? = some b → ∀ x ∈ kps, a ≤ x ∧ x ≤ b
  first : kps[0]? = sorted[0]?
  last : kps[kps.length - 1]? = sorted[sorted.length - 1]?
  count : (k ≤ sorted.length ∨ mode = .uniform) → kps.length = k
  few : sorted.length < k → mode = .quantiles → kps = sorted

/-- the inputs C18 quantifies over minus the two recorded findings: `num_keypoints ≥ 2`; in
'uniform' mode a non-empty sample (F-C18-d: all values equal to `default_value`, no bounds);
in weighted 'quantiles' mode with enough distinct values, reduced weights not all zero unless
`k = 2` (F-C18-c) -/
def Admissible (values : List Rat) (k : Nat) (mode : Mode) (clipMin clipMax dflt : Option Rat)
    (weights : Option (List Rat)) (red : Reduce) : Prop :=
  2 ≤ k ∧
  (mode = .uniform → sortedValues values weights clipMin clipMax dflt ≠ []) ∧
  (mode = .quantiles → ∀ w, weights = some w → k ≤ (sortedValues values weights clipMin clipMax dflt).length →
    rsum (reducedWeights values w clipMin clipMax dflt red) ≠ 0 ∨ k = 2)

theorem between_of_mem {s : List Rat} (hs : s.Pairwise (· < ·)) {a b x : Rat} (ha : s[0]? = some a)
    (hb : s[s.length - 1]? = some b) (hx : x ∈ s) : a ≤ x ∧ x ≤ b := by
  obtain ⟨i, hi, rfl⟩ := List.getElem_of_mem hx
  have hp := List.pairwise_iff_getElem.mp hs
  rw [List.getElem?_eq_getElem (by omega)] at ha hb
  simp only [Option.some.injEq] at ha hb
  subst ha hb
  constructor
  · rcases Nat.eq_zero_or_pos i with rfl | hpos
    · exact le_refl _
    · exact le_of_lt (hp 0 i (by omega) hi hpos)
  · rcases Nat.lt_or_ge i (s.length - 1) with hlt | hge
    · exact le_of_lt (hp i (s.length - 1) hi (by omega) hlt)
    · have : i = s.length - 1 := by omega
      subst this; exact le_refl _

theorem rules_of_picked {sorted kps : List Rat} {k : Nat} {mode : Mode} (hs : sorted.Pairwise (· < ·))
    (hk : k ≤ sorted.length) (hlen : kps.length = k) (hp : kps.Pairwise (· < ·)) (hsub : ∀ x ∈ kps, x ∈ sorted)
    (h0 : kps[0]? = sorted[0]?) (hl : kps[k - 1]? = sorted[sorted.length - 1]?) : Rules sorted k mode kps :=
  { increasing := fun _ => hp
    within := fun a b ha hb x hx => between_of_mem hs ha hb (hsub x hx)
    first := h0
    last := by rw [hlen]; exact hl
    count := fun _ => hlen
    few := fun h _ => by omega }

/-- **C18, all clauses, both modes, weighted or not.** For every admissible input
`compute_keypoints` returns (no error) keypoints obeying `Rules` relative to the de-duplicated
clipped sample, for every tie direction. -/
theorem compute_keypoints_rules (values : List Rat) (k : Nat) (mode : Mode) (clipMin clipMax dflt : Option Rat)
    (weights : Option (List Rat)) (red : Reduce) (dirs : List Int)
    (h : Admissible values k mode clipMin clipMax dflt weights red) :
    ∃ kps, computeKeypoints values k mode clipMin clipMax dflt weights red dirs = .ok kps ∧
      Rules (sortedValues values weights clipMin clipMax dflt) k mode kps := by
  obtain ⟨hk, hne, hz⟩ := h
  have hsp : (sortedValues values weights clipMin clipMax dflt).Pairwise (· < ·) := unique_pairwise _
  cases mode with
  | quantiles =>
    rcases Nat.lt_or_ge (sortedValues values weights clipMin clipMax dflt).length k with hlt | hge
    · obtain ⟨h1, h2⟩ := quantiles_few_distinct values k clipMin clipMax dflt weights red dirs hlt
      exact ⟨_, h1, ⟨fun _ => h2, fun a b ha hb x hx => between_of_mem hsp ha hb hx, rfl, rfl,
        fun hc => by rcases hc with hc | hc <;> [omega; cases hc], fun _ _ => rfl⟩⟩
    · cases weights with
      | none =>
        obtain ⟨kps, h1, h2, h3, h4, h5, h6⟩ := quantiles_unweighted values k clipMin clipMax dflt red dirs hk hge
        exact ⟨kps, h1, rules_of_picked hsp hge h2 h3 h4 h5 h6⟩
      | some w =>
        obtain ⟨kps, h1, h2, h3, h4, h5, h6⟩ :=
          quantiles_weighted values w k clipMin clipMax dflt red dirs hk hge (hz rfl w rfl hge)
        exact ⟨kps, h1, rules_of_picked hsp hge h2 h3 h4 h5 h6⟩
  | uniform =>
    cases hs : sortedValues values weights clipMin clipMax dflt with
    | nil => exact absurd hs (hne rfl)
    | cons a rest =>
      obtain ⟨kps, h1, h2, h3, h4, h5⟩ := uniform_keypoints values k clipMin clipMax dflt weights red dirs hk a rest hs
      obtain ⟨kps', h1', h6⟩ := uniform_within_range values k clipMin clipMax dflt weights red dirs hk a rest hs
      have : kps' = kps := by rw [h1] at h1'; exact (Except.ok.inj h1').symm
      subst this
      have hlast : (a :: rest)[(a :: rest).length - 1]? = some ((a :: rest).getLast?.getD a) := by
        rw [← List.getLast?_eq_getElem?]
        cases hg : (a :: rest).getLast? with
        | none => simp at hg
        | some y => rfl
      refine ⟨kps', h1, ⟨fun hl => h5.mpr hl, ?_, by rw [h3]; rfl, by rw [h2, h4, hlast], fun _ => h2,
        fun _ hm => by cases hm⟩⟩
      intro a' b' ha hb x hx
      rw [hlast] at hb
      simp only [List.getElem?_cons_zero, Option.some.injEq] at ha hb
      subst ha hb
      exact h6 x hx

/-! ## the feature helper -/

theorem featureKeypoints1_mode (cfg : FeatureCfg) (values : List Rat) (weights : Option (List Rat)) (red : Reduce)
    (dirs : List Int) (m : Mode) (hb : cfg.numBuckets = 0) (hs : cfg.spec = .mode m) (kps : List Rat)
    (h : computeKeypoints values cfg.numKeypoints m cfg.clipMin cfg.clipMax cfg.dflt weights red dirs = .ok kps) :
    featureKeypoints1 cfg values weights red dirs = .ok (some kps) := by
  unfold featureKeypoints1
  rw [if_neg (by simp [hb]), hs]
  simp only [h]

/-- what one entry of the dict returned by `compute_feature_keypoints` is: the feature is numeric
(`num_buckets` falsy) and its keypoints are the user's (config holds a list) or obey `Rules`
with the CONFIG's `num_keypoints`, mode, clip bounds and default value on that feature's data -/
def FeatureEntryOk (cfgs : List FeatureCfg) (weights : Option (List Rat)) (features : List (Nat × List Rat))
    (p : Nat × List Rat) : Prop :=
  ∃ values, (p.1, values) ∈ features ∧ (featureConfigByName cfgs p.1).numBuckets = 0 ∧
    ((featureConfigByName cfgs p.1).spec = .given p.2 ∨
     ∃ m, (featureConfigByName cfgs p.1).spec = .mode m ∧
       Rules (sortedValues values weights (featureConfigByName cfgs p.1).clipMin (featureConfigByName cfgs p.1).clipMax
         (featureConfigByName cfgs p.1).dflt) (featureConfigByName cfgs p.1).numKeypoints m p.2)

/-- **C18, last sentence (features).** For every list of feature configs (found by name, default
config when missing), every features dict, shared weights, reduction and tie directions: if each
numeric feature whose config asks for a keypoint mode is admissible (with ITS config's
`num_keypoints`, clip bounds, default value), `compute_feature_keypoints` returns (no error) a
dict that has an entry for exactly the non-categorical features, and every entry obeys the rules
of `compute_keypoints` (or is the user-given list). -/
theorem feature_helper_rules (cfgs : List FeatureCfg) (weights : Option (List Rat)) (red : Reduce) :
    ∀ (features : List (Nat × List Rat)) (dirs : List (List Int)),
    (∀ f ∈ features, ∀ m, (featureConfigByName cfgs f.1).numBuckets = 0 →
      (featureConfigByName cfgs f.1).spec = .mode m →
      Admissible f.2 (featureConfigByName cfgs f.1).numKeypoints m (featureConfigByName cfgs f.1).clipMin
        (featureConfigByName cfgs f.1).clipMax (featureConfigByName cfgs f.1).dflt weights red) →
    ∃ out, computeFeatureKeypoints cfgs weights red features dirs = .ok out ∧
      (∀ p ∈ out, FeatureEntryOk cfgs weights features p) ∧
      (∀ f ∈ features, (featureConfigByName cfgs f.1).numBuckets = 0 → ∃ kps, (f.1, kps) ∈ out) ∧
      (∀ p ∈ out, ∃ values, (p.1, values) ∈ features)
  | [], _, _ => ⟨[], rfl, fun _ h => (by cases h), fun _ h => (by cases h), fun _ h => (by cases h)⟩
  | (name, values) :: rest, dirs, hadm => by
    obtain ⟨out, ho, h1, h2, h3⟩ := feature_helper_rules cfgs weights red rest dirs.tail
      (fun f hf => hadm f (List.mem_cons_of_mem _ hf))
    have lift : ∀ p, FeatureEntryOk cfgs weights rest p → FeatureEntryOk cfgs weights ((name, values) :: rest) p := by
      rintro p ⟨v, hv, hr⟩
      exact ⟨v, List.mem_cons_of_mem _ hv, hr⟩
    set cfg := featureConfigByName cfgs name with hcfg
    by_cases hb : cfg.numBuckets = 0
    · cases hsp : cfg.spec with
      | given g =>
        refine ⟨(name, g) :: out, ?_, ?_, ?_, ?_⟩
        · unfold computeFeatureKeypoints featureKeypoints1
          rw [← hcfg, if_neg (by simp [hb]), hsp]
          simp only [ho]
        · intro p hp
          rcases List.mem_cons.mp hp with rfl | hp
          · exact ⟨values, List.mem_cons_self, hb, Or.inl hsp⟩
          · exact lift p (h1 p hp)
        · intro f hf hfb
          rcases List.mem_cons.mp hf with rfl | hf
          · exact ⟨g, List.mem_cons_self⟩
          · obtain ⟨k, hk⟩ := h2 f hf hfb
            exact ⟨k, List.mem_cons_of_mem _ hk⟩
        · intro p hp
          rcases List.mem_cons.mp hp with rfl | hp
          · exact ⟨values, List.mem_cons_self⟩
          · obtain ⟨v, hv⟩ := h3 p hp
            exact ⟨v, List.mem_cons_of_mem _ hv⟩
      | mode m =>
        obtain ⟨kps, hk1, hk2⟩ := compute_keypoints_rules values cfg.numKeypoints m cfg.clipMin cfg.clipMax cfg.dflt
          weights red (dirs.headD []) (hadm (name, values) List.mem_cons_self m hb hsp)
        refine ⟨(name, kps) :: out, ?_, ?_, ?_, ?_⟩
        · unfold computeFeatureKeypoints
          rw [← hcfg, featureKeypoints1_mode cfg values weights red _ m hb hsp kps hk1]
          simp only [ho]
        · intro p hp
          rcases List.mem_cons.mp hp with rfl | hp
          · exact ⟨values, List.mem_cons_self, hb, Or.inr ⟨m, hsp, hk2⟩⟩
          · exact lift p (h1 p hp)
        · intro f hf hfb
          rcases List.mem_cons.mp hf with rfl | hf
          · exact ⟨kps, List.mem_cons_self⟩
          · obtain ⟨k, hk⟩ := h2 f hf hfb
            exact ⟨k, List.mem_cons_of_mem _ hk⟩
        · intro p hp
          rcases List.mem_cons.mp hp with rfl | hp
          · exact ⟨values, List.mem_cons_self⟩
          · obtain ⟨v, hv⟩ := h3 p hp
            exact ⟨v, List.mem_cons_of_mem _ hv⟩
    · refine ⟨out, ?_, fun p hp => lift p (h1 p hp), ?_, ?_⟩
      · unfold computeFeatureKeypoints featureKeypoints1
        rw [← hcfg, if_pos hb]
        simp only [ho]
      · intro f hf hfb
        rcases List.mem_cons.mp hf with rfl | hf
        · exact absurd hfb hb
        · exact h2 f hf hfb
      · intro p hp
        obtain ⟨v, hv⟩ := h3 p hp
        exact ⟨v, List.mem_cons_of_mem _ hv⟩

/-! ### `set_feature_keypoints` stores what it is given -/

theorem find_setFirst_ne (n n' : Nat) (k : List Rat) (h : n ≠ n') : ∀ cs : List FeatureCfg,
    (setFirst n' k cs).find? (fun c => c.name = n) = cs.find? (fun c => c.name = n)
  | [] => rfl
  | c :: cs => by
    unfold setFirst
    by_cases hc : c.name = n'
    · rw [if_pos hc]
      have : c.name ≠ n := fun e => h (e.symm.trans hc)
      simp [this]
    · rw [if_neg hc]
      simp only [List.find?_cons]
      rw [find_setFirst_ne n n' k h cs]

theorem find_setFirst_eq (n : Nat) (k : List Rat) : ∀ cs : List FeatureCfg, cs.any (fun c => c.name = n) = true →
    ∃ c, (setFirst n k cs).find? (fun c => c.name = n) = some c ∧ c.spec = .given k
  | [], h => by simp at h
  | c :: cs, h => by
    unfold setFirst
    by_cases hc : c.name = n
    · rw [if_pos hc]
      exact ⟨{ c with spec := .given k }, by simp [hc], rfl⟩
    · rw [if_neg hc]
      have h' : cs.any (fun c => c.name = n) = true := by
        simpa [List.any_cons, hc] using h
      obtain ⟨c', h1, h2⟩ := find_setFirst_eq n k cs h'
      exact ⟨c', by simp [hc, h1], h2⟩

theorem any_setFirst (n n' : Nat) (k : List Rat) : ∀ cs : List FeatureCfg,
    (setFirst n' k cs).any (fun c => c.name = n) = cs.any (fun c => c.name = n)
  | [] => rfl
  | c :: cs => by
    unfold setFirst
    by_cases hc : c.name = n'
    · rw [if_pos hc]; simp [List.any_cons]
    · rw [if_neg hc]; simp only [List.any_cons]; rw [any_setFirst n n' k cs]

theorem any_setOne (add : Bool) (cfgs : List FeatureCfg) (q : Nat × List Rat) (n : Nat)
    (h : cfgs.any (fun c => c.name = n) = true) : (setOne add cfgs q).any (fun c => c.name = n) = true := by
  unfold setOne
  split_ifs
  · rw [any_setFirst]; exact h
  · rw [List.any_append, h]; rfl
  · exact h

theorem byName_setOne_ne (add : Bool) (cfgs : List FeatureCfg) (q : Nat × List Rat) (n : Nat) (h : n ≠ q.1) :
    featureConfigByName (setOne add cfgs q) n = featureConfigByName cfgs n := by
  unfold featureConfigByName setOne
  split_ifs
  · rw [find_setFirst_ne n q.1 q.2 h]
  · rw [List.find?_append]
    have : (List.find? (fun c : FeatureCfg => decide (c.name = n)) [{ name := q.1, spec := KpSpec.given q.2 }]) = none := by
      simp [Ne.symm h]
    rw [this]
    cases List.find? (fun c : FeatureCfg => decide (c.name = n)) cfgs <;> rfl
  · rfl

theorem byName_setOne_eq (add : Bool) (cfgs : List FeatureCfg) (q : Nat × List Rat)
    (h : add = true ∨ cfgs.any (fun c => c.name = q.1) = true) :
    (featureConfigByName (setOne add cfgs q) q.1).spec = .given q.2 := by
  unfold featureConfigByName setOne
  by_cases ha : cfgs.any (fun c => c.name = q.1) = true
  · rw [if_pos ha]
    obtain ⟨c, h1, h2⟩ := find_setFirst_eq q.1 q.2 cfgs ha
    rw [h1]; exact h2
  · rw [if_neg ha]
    have hadd : add = true := h.resolve_right ha
    rw [if_pos hadd, List.find?_append]
    have hnone : List.find? (fun c : FeatureCfg => decide (c.name = q.1)) cfgs = none := by
      rw [List.find?_eq_none]
      intro c hc hn
      apply ha
      rw [List.any_eq_true]
      exact ⟨c, hc, hn⟩
    rw [hnone]
    simp

theorem byName_set_ne (add : Bool) : ∀ (kps : List (Nat × List Rat)) (cfgs : List FeatureCfg) (n : Nat),
    n ∉ kps.map (·.1) → featureConfigByName (setFeatureKeypoints cfgs kps add) n = featureConfigByName cfgs n
  | [], _, _, _ => rfl
  | q :: kps, cfgs, n, h => by
    simp only [List.map_cons, List.mem_cons, not_or] at h
    unfold setFeatureKeypoints
    rw [List.foldl_cons]
    have := byName_set_ne add kps (setOne add cfgs q) n h.2
    unfold setFeatureKeypoints at this
    rw [this, byName_setOne_ne add cfgs q n h.1]

/-- **C18, "fill configs" (features).** After `set_feature_keypoints(feature_configs,
feature_keypoints, add_missing)` the config found under each name of the dict (dict keys are
distinct) holds exactly that entry's keypoints as `pwl_calibration_input_keypoints` — provided the
config exists or missing configs are added (otherwise the code assigns to a discarded temporary). -/
theorem set_feature_keypoints_get (add : Bool) : ∀ (kps : List (Nat × List Rat)) (cfgs : List FeatureCfg),
    (kps.map (·.1)).Nodup → ∀ p ∈ kps, (add = true ∨ cfgs.any (fun c => c.name = p.1) = true) →
    (featureConfigByName (setFeatureKeypoints cfgs kps add) p.1).spec = .given p.2
  | [], _, _, _, hp, _ => by cases hp
  | q :: kps, cfgs, hnd, p, hp, hex => by
    simp only [List.map_cons, List.nodup_cons] at hnd
    have hfold : setFeatureKeypoints cfgs (q :: kps) add = setFeatureKeypoints (setOne add cfgs q) kps add := by
      unfold setFeatureKeypoints; rw [List.foldl_cons]
    rw [hfold]
    rcases List.mem_cons.mp hp with rfl | hp
    · rw [byName_set_ne add kps _ _ hnd.1]
      exact byName_setOne_eq add cfgs _ hex
    · exact set_feature_keypoints_get add kps (setOne add cfgs q) hnd.2 p hp
        (hex.imp id (any_setOne add cfgs q p.1))

/-! ## the label helper -/

/-- numeric labels, string `output_initialization`, no logits: `compute_keypoints` on the labels
with `output_min` / `output_max` as clip bounds, no default value, the caller's weights -/
theorem label_keypoints_numeric (cfg : LabelCfg) (l : List Rat) (m : Mode) (hs : cfg.spec = .mode m)
    (weights : Option (List Rat)) (red : Reduce) (dirs : List Int) :
    computeLabelKeypoints cfg (.numeric l) false weights red dirs
      = computeKeypoints l cfg.numKeypoints m cfg.outMin cfg.outMax none weights red dirs := by
  unfold computeLabelKeypoints; rw [hs]; rfl

/-- non-numeric (string / bytes / object / boolean) labels: `compute_keypoints` on
`arange(n_classes)`, the weights DROPPED -/
theorem label_keypoints_classes (cfg : LabelCfg) (l : List Nat) (m : Mode) (hs : cfg.spec = .mode m)
    (weights : Option (List Rat)) (red : Reduce) (dirs : List Int) :
    computeLabelKeypoints cfg (.classes l) false weights red dirs
      = computeKeypoints (arange (numClasses l)) cfg.numKeypoints m cfg.outMin cfg.outMax none none red dirs := by
  unfold computeLabelKeypoints; rw [hs]; rfl

theorem label_keypoints_logits (cfg : LabelCfg) (labels : Labels) (m : Mode) (hs : cfg.spec = .mode m)
    (weights : Option (List Rat)) (red : Reduce) (dirs : List Int) :
    computeLabelKeypoints cfg labels true weights red dirs = .ok (linspace (-2) 2 cfg.numKeypoints) := by
  unfold computeLabelKeypoints; rw [hs]; rfl

theorem label_keypoints_given (cfg : LabelCfg) (labels : Labels) (g : List Rat) (hs : cfg.spec = .given g)
    (logits : Bool) (weights : Option (List Rat)) (red : Reduce) (dirs : List Int) :
    computeLabelKeypoints cfg labels logits weights red dirs = .ok g := by
  unfold computeLabelKeypoints; rw [hs]

/-- the data and weights `compute_label_keypoints` hands to `compute_keypoints` -/
def labelData (labels : Labels) (weights : Option (List Rat)) : List Rat × Option (List Rat) :=
  match labels with
  | .numeric l => (l, weights)
  | .classes l => (arange (numClasses l), none)

/-- **C18, last sentence (labels).** With a mode string as `output_initialization` and no logits
output, for numeric AND non-numeric labels: if the effective input (labels resp.
`arange(n_classes)` without weights; `output_min` / `output_max` as clip bounds) is admissible,
`compute_label_keypoints` returns (no error) keypoints obeying the rules of `compute_keypoints`;
`set_label_keypoints` stores exactly them. -/
theorem label_helper_rules (cfg : LabelCfg) (labels : Labels) (m : Mode) (hs : cfg.spec = .mode m)
    (weights : Option (List Rat)) (red : Reduce) (dirs : List Int)
    (h : Admissible (labelData labels weights).1 cfg.numKeypoints m cfg.outMin cfg.outMax none
      (labelData labels weights).2 red) :
    ∃ kps, computeLabelKeypoints cfg labels false weights red dirs = .ok kps ∧
      Rules (sortedValues (labelData labels weights).1 (labelData labels weights).2 cfg.outMin cfg.outMax none)
        cfg.numKeypoints m kps ∧
      (setLabelKeypoints cfg kps).spec = .given kps := by
  obtain ⟨kps, h1, h2⟩ := compute_keypoints_rules _ _ _ _ _ _ _ red dirs h
  refine ⟨kps, ?_, h2, rfl⟩
  cases labels with
  | numeric l => rw [label_keypoints_numeric cfg l m hs]; exact h1
  | classes l => rw [label_keypoints_classes cfg l m hs]; exact h1

/-- **C18, last sentence (logits).** With logits output the label keypoints `linspace(-2, 2, k)`,
`k ≥ 2`, obey the same rules relative to the range `[-2, 2]`: strictly increasing, inside it, first
`-2`, last `2`, `k` of them. -/
theorem label_logits_rules (k : Nat) (hk : 2 ≤ k) : Rules [-2, 2] k .uniform (linspace (-2) 2 k) := by
  have hlen : (linspace (-2) 2 k).length = k := by unfold linspace; rw [if_neg (by omega)]; simp
  have hk' : ((k : Rat) - 1) ≠ 0 := by
    have : (2 : Rat) ≤ k := by exact_mod_cast hk
    intro h; linarith
  refine ⟨fun _ => linspace_pairwise _ _ k hk (by norm_num), ?_, ?_, ?_, fun _ => hlen, fun _ hm => by cases hm⟩
  · intro a b ha hb x hx
    simp at ha hb
    subst ha hb
    exact linspace_within _ _ k hk (by norm_num) x hx
  · unfold linspace; rw [if_neg (by omega), List.getElem?_map, List.getElem?_range (by omega)]; simp
  · rw [hlen]
    unfold linspace; rw [if_neg (by omega), List.getElem?_map, List.getElem?_range (by omega)]
    have : ((k - 1 : Nat) : Rat) = (k : Rat) - 1 := by rw [Nat.cast_sub (by omega)]; simp
    simp only [Option.map_some, this, List.length_cons, List.length_nil]
    norm_num
    field_simp
    ring

theorem unique_of_pairwise : ∀ l : List Rat, l.Pairwise (· < ·) → unique l = l
  | [], _ => rfl
  | [x], _ => rfl
  | x :: y :: l, h => by
    have ih := unique_of_pairwise (y :: l) (List.pairwise_cons.mp h).2
    show insertU x (unique (y :: l)) = _
    rw [ih]
    unfold insertU
    rw [if_pos ((List.pairwise_cons.mp h).1 y List.mem_cons_self)]

theorem arange_pairwise (n : Nat) : (arange n).Pairwise (· < ·) := by
  unfold arange
  rw [List.pairwise_map]
  exact List.Pairwise.imp (fun h => by exact_mod_cast h) (List.pairwise_lt_range (n := n))

/-- string labels with `n` classes and no output bounds: the de-duplicated sample is
`0, 1, …, n-1` itself, so (by `label_helper_rules`) the label keypoints run from `0` to `n-1` -/
theorem string_labels_sample (n : Nat) : sortedValues (arange n) none none none none = arange n := by
  rw [sortedValues_eq _ _ _ _ _ (fun w h => by cases h)]
  unfold clippedData
  simp only [ne_eq, reduceCtorEq, not_false_eq_true, decide_true, List.filter_true]
  exact unique_of_pairwise _ (arange_pairwise n)

/-- string labels `good, bad, good, ugly` (3 classes), 3 keypoints; with weights (dropped);
numeric labels with weights; logits -/
example : computeLabelKeypoints { spec := .mode .quantiles, numKeypoints := 3 } (.classes [0, 1, 0, 2]) false
    (some [1, 2, 3, 4]) .mean [] = .ok [0, 1, 2] := by decide +kernel
example : computeLabelKeypoints { spec := .mode .uniform, numKeypoints := 5 } (.classes [0, 1, 0, 2]) false
    none .mean [] = .ok [0, 1/2, 1, 3/2, 2] := by decide +kernel
example : computeLabelKeypoints { spec := .mode .quantiles, numKeypoints := 3 } (.numeric [0, 1, 1, 2, 5]) false
    (some [1, 0, 0, 2, 1]) .mean [] = .ok [0, 2, 5] := by decide +kernel
example : computeLabelKeypoints { spec := .mode .quantiles, numKeypoints := 4 } (.classes [0, 1]) true
    none .mean [] = .ok [-2, -2/3, 2/3, 2] := by decide +kernel
/-- feature helper: per-feature config (default value `-1` removed, 3 keypoints), a categorical
feature skipped, a feature without config on the defaults (10 keypoints → the 3 distinct values) -/
example : computeFeatureKeypoints [{ name := 0, numKeypoints := 3, dflt := some (-1) }, { name := 1, numBuckets := 3 }]
    (some [1, 1, 5, 1, 1, 3]) .mean [(0, [1, 2, -1, 3, 4, 5]), (1, [0, 1, 2, 0, 1, 2]), (7, [1, 2, 3, 3, 2, 1])] []
    = .ok [(0, [1, 4, 5]), (7, [1, 2, 3])] := by decide +kernel

/-! ## accepted as `input_keypoints` by `PWLCalibration` -/

open Tfl.Verify in
/-- a Python list of floats -/
def kpVal (kps : List Rat) : Tfl.Verify.Val := .s false (kps.map fun x => Tfl.Verify.Item.a (.flt x))

open Tfl.Verify in
theorem strictlyIncreasing_of_pairwise : ∀ l : List Rat, l.Pairwise (· < ·) → strictlyIncreasing l = true
  | [], _ => rfl
  | [_], _ => rfl
  | a :: b :: l, h => by
    unfold strictlyIncreasing
    have h' := List.pairwise_cons.mp h
    rw [Bool.and_eq_true]
    exact ⟨decide_eq_true (h'.1 b List.mem_cons_self), strictlyIncreasing_of_pairwise (b :: l) h'.2⟩

open Tfl.Verify in
theorem mapE_flt (f : Item → Except Err Rat) (hf : ∀ x, f (Item.a (.flt x)) = .ok x) : ∀ l : List Rat,
    mapE f (l.map fun x => Item.a (.flt x)) = .ok l
  | [] => rfl
  | x :: l => by
    simp only [List.map_cons, mapE, hf, mapE_flt f hf l]

open Tfl.Verify in
/-- the keypoint clause of `pwl_calibration_lib.verify_hyperparameters`: at least two keypoints,
strictly increasing -/
theorem parseKeypoints_accepts (kps : List Rat) (hlen : 2 ≤ kps.length) (hp : kps.Pairwise (· < ·)) :
    parseKeypoints (kpVal kps) = .ok (some kps) := by
  unfold parseKeypoints kpVal
  simp only [Val.isNone, Val.len, Val.iter, bind, Except.bind, List.length_map, pure, Except.pure]
  rw [if_neg (by simp), if_neg (by omega), mapE_flt _ (fun x => rfl) kps]
  simp only [strictlyIncreasing_of_pairwise kps hp, Bool.not_true, Bool.false_eq_true, if_false]

open Tfl.Verify in
/-- `PWLCalibration(input_keypoints=kps)`, every other argument at its default (`output_min`,
`output_max`, `missing_*` `None`; `monotonicity`, `convexity` `'none'`; `is_cyclic`,
`impute_missing`, `clamp_*` `False`; `input_keypoints_type='fixed'`; `'equal_heights'`) -/
def defaultPwl (kps : List Rat) : RawPwl :=
  ⟨kpVal kps, .a .none, .a .none, .a (.str .none_), .a (.str .none_), .a (.int 0), .a (.int 0), .a .none, .a .none,
    .a (.str .fixed), .a (.int 0), .a (.int 0), .a (.str .other)⟩

open Tfl.Verify in
/-- **C18, "accepted as input_keypoints by PWLCalibration".** Strictly increasing keypoints with
at least two entries pass `PWLCalibration(input_keypoints=kps)`: the lib verification and the
constructor's own checks (the C16 model of both) accept and keep the keypoints. -/
theorem pwl_accepts_keypoints (kps : List Rat) (hlen : 2 ≤ kps.length) (hp : kps.Pairwise (· < ·)) :
    ∃ c, pwlCalibration (defaultPwl kps) = .ok c ∧ c.keypoints = some kps := by
  refine ⟨⟨some kps, none, none, .int 0, .int 0, false, none⟩, ?_, rfl⟩
  unfold pwlCalibration verifyPwl defaultPwl
  simp only [parseKeypoints_accepts kps hlen hp, bind, Except.bind]
  rfl

/-- **C18: whatever obeys the rules on a sample with ≥ 2 distinct clipped values is accepted by
`PWLCalibration`** — so the results of `compute_keypoints` (`compute_keypoints_rules`), of the
feature helper (`feature_helper_rules`) and of the label helper (`label_helper_rules`,
`label_logits_rules`) are. -/
theorem rules_accepted (sorted kps : List Rat) (k : Nat) (mode : Mode) (hk : 2 ≤ k)
    (h2 : 2 ≤ sorted.length) (hr : Rules sorted k mode kps) :
    ∃ c, Tfl.Verify.pwlCalibration (defaultPwl kps) = .ok c ∧ c.keypoints = some kps := by
  apply pwl_accepts_keypoints kps _ (hr.increasing h2)
  cases mode with
  | uniform => rw [hr.count (Or.inr rfl)]; exact hk
  | quantiles =>
    rcases Nat.lt_or_ge sorted.length k with hlt | hge
    · rw [hr.few hlt rfl]; exact h2
    · rw [hr.count (Or.inl hge)]; exact hk

/-- **C18, `compute_keypoints` end to end.** Admissible input with at least two distinct clipped
values: the call returns keypoints obeying every rule AND accepted by `PWLCalibration`. -/
theorem compute_keypoints_accepted (values : List Rat) (k : Nat) (mode : Mode) (clipMin clipMax dflt : Option Rat)
    (weights : Option (List Rat)) (red : Reduce) (dirs : List Int)
    (h : Admissible values k mode clipMin clipMax dflt weights red)
    (h2 : 2 ≤ (sortedValues values weights clipMin clipMax dflt).length) :
    ∃ kps, computeKeypoints values k mode clipMin clipMax dflt weights red dirs = .ok kps ∧
      Rules (sortedValues values weights clipMin clipMax dflt) k mode kps ∧
      ∃ c, Tfl.Verify.pwlCalibration (defaultPwl kps) = .ok c ∧ c.keypoints = some kps := by
  obtain ⟨kps, h1, hr⟩ := compute_keypoints_rules values k mode clipMin clipMax dflt weights red dirs h
  exact ⟨kps, h1, hr, rules_accepted _ kps k mode h.1 h2 hr⟩

/-- a constant sample is NOT accepted (`[3, 3, 3]` is not strictly increasing): the "≥ 2 distinct
values" proviso of the property is needed -/
theorem constant_sample_rejected :
    Tfl.Verify.pwlCalibration (defaultPwl [3, 3, 3]) = .error .valueError := by decide +kernel

/-- non-vacuity of `Admissible` / `compute_keypoints_accepted` -/
example : Admissible [1, 1, 2, 2, 2, 5, 7, 7, 9] 3 .quantiles (some 0) (some 8) none (some [1, 0, 2, 0, 1, 1, 0, 3, 1]) .mean := by
  refine ⟨by decide, fun h => (by cases h), fun _ w hw _ => ?_⟩
  cases hw
  left
  decide +kernel

end Tfl.C18
