import TflModel.Model.Dykstra
namespace Tfl.C01
theorem placeholder : True := trivial
end Tfl.C01
