import TflModel.Lemmas.LatticeExec
import TflModel.Lemmas.TrapezoidFold
import TflModel.Lemmas.TrapezoidBump
import TflModel.Lemmas.TrapezoidRunning
/-!
# C01 — the Lattice weight constraint (strict mode) / `finalize_constraints` return kernels that
meet every strict shape constraint

Model: `Tfl.Lat.finalize` (`lattice_lib.finalize_constraints`), `clipBounds` and
`latticeConstraintT` (`LatticeConstraints.__call__`), one unit. The input of the finalisation is
ARBITRARY ("whatever the Dykstra iterations returned, for every iteration count").

Proved at full strength for the configuration classes
  (A) any monotonicities, any number of Edgeworth trusts of either direction, any bounds,
      no trapezoid trusts                                   — `C01_strict_edgeworth_class`
  (A0) no trusts at all (monotonicity + bounds)             — instance of (A)
  (B) any monotonicities, any number of trapezoid trusts of either direction (shared conditional
      axes allowed), any bounds, no Edgeworth trusts        — `C01_strict_trapezoid_class`
  (C1) Edgeworth AND trapezoid trusts where no trapezoid trust has a matching Edgeworth trust, no
      trapezoid conditional axis is monotone and no two trapezoid trusts share a conditional axis
                                                            — `C01_strict_mixed_nonmatching_class`
  (C) = (A) ∪ (B) ∪ (C1) ∪ (C2): any Edgeworth trusts and any trapezoid trusts, each trapezoid trust
      WITH its matching Edgeworth trust (running-max mode, the common configuration) or without;
      when Edgeworth trusts are present no two trapezoid trusts share a conditional axis and —
      unless the lattice has rank 2 — no trapezoid conditional axis is monotone (= H_trap)
                                                            — `C01_strict_mixed_class`
and transported to the executable table model (`C01_exec_*`).
The remaining configurations (Edgeworth trusts present and a trapezoid trust with a shared
conditional axis, or with a monotone one in rank ≥ 3) are covered by the
correspondence + oracle of every run; inside them the class "Edgeworth present ∧ trapezoid with monotone conditional axis ∧ a third
axis" genuinely violates the property (finding F-C01-a): `C01_counter_witness`.
`C01_full` keeps the unrestricted statement visible.
Well-formedness: `CfgWF` (no Edgeworth pair listed twice) or the weaker `CfgWFd` (a duplicated identical
trust allowed: that is what acceptance gives); the class theorems are proved from `CfgWFd` (`…_d`).
Companions: `Props/C01Constraint.lean` (the composite `latticeConstraintT` the driver runs: strict mode for
every iteration count, what the non-strict mode guarantees, and "feasible ⇒ unchanged" for every stage
and any trusts) and `Props/C01Accepted.lean` (everything restated for `verifyLattice r = .ok c`; `HTrap`
isolates the part of `MixedClassWF` that is a class restriction).
-/
namespace Tfl.C01
open Tfl Tfl.Lat

/-- in-box bounds -/
def InBounds (sizes : List Nat) (lo hi : Option ℚ) (w : W) : Prop :=
  ∀ idx, InRange sizes idx → (∀ l, lo = some l → l ≤ w idx) ∧ (∀ h, hi = some h → w idx ≤ h)

/-- every strict constraint of the configuration, for one unit -/
def Strict (c : Cfg) (w : W) : Prop :=
  (∀ d, d < c.sizes.length → c.mono.getD d false = true → MonoAx c.sizes d w) ∧
  (∀ tr ∈ c.edgeworth, EdgeOK c.sizes tr w) ∧
  (∀ tr ∈ c.trapezoid, TrapOK c.sizes tr w) ∧
  InBounds c.sizes c.lo c.hi w

/-- what `verify_hyperparameters` guarantees about an accepted configuration -/
structure CfgWF (c : Cfg) : Prop where
  trust_wf : ∀ tr ∈ c.edgeworth ++ c.trapezoid, TrustWF c.sizes tr ∧ c.mono.getD tr.main false = true
  compat : c.edgeworth.Pairwise (fun a b => Compatible a b ∧ Compatible b a)
  bounds : BoundsWF c.lo c.hi

/-- the same well-formedness facts WITHOUT the side condition "no Edgeworth pair listed twice":
`verify_hyperparameters` rejects two trusts on one `(main, cond)` pair only when their directions
differ, so an identical trust may be listed several times (it is then re-applied to a kernel that
already satisfies it, i.e. as the identity). This is what acceptance gives
(`Props/C01Accepted.lean`: `accepted_cfgWFd`); all class theorems below are proved from it
(`…_d`), the `CfgWF` versions are corollaries. -/
structure CfgWFd (c : Cfg) : Prop where
  trust_wf : ∀ tr ∈ c.edgeworth ++ c.trapezoid, TrustWF c.sizes tr ∧ c.mono.getD tr.main false = true
  compat : c.edgeworth.Pairwise (fun a b => a = b ∨ (Compatible a b ∧ Compatible b a))
  bounds : BoundsWF c.lo c.hi

theorem CfgWF.toD {c : Cfg} (h : CfgWF c) : CfgWFd c :=
  ⟨h.trust_wf, h.compat.imp (fun hab => Or.inr hab), h.bounds⟩

theorem CfgWFd.toWF_of_nil {c : Cfg} (h : CfgWFd c) (hne : c.edgeworth = []) : CfgWF c :=
  ⟨h.trust_wf, by rw [hne]; exact List.Pairwise.nil, h.bounds⟩

/-- **the unrestricted statement** (kept visible; false on the current tree: `C01_counter_witness`) -/
def C01_full : Prop :=
  ∀ (c : Cfg), CfgWF c → ∀ w : W, Strict c (clipBounds c.lo c.hi (finalize c w))

theorem EdgeOK.congr {sizes : List Nat} {tr : Trust} {f g : W} (h : AgreeOn sizes f g)
    (hf : EdgeOK sizes tr f) : EdgeOK sizes tr g := by
  intro idx hr i j hi hj
  rw [← eviol_agree h hr hi hj]
  exact hf idx hr i j hi hj

/-- the Edgeworth stage: afterwards every listed trust holds and monotonicity is kept. Two listed
trusts are either IDENTICAL (a duplicate: the second application finds its trust satisfied) or act on
different grids without exchanging the roles of an axis. -/
theorem approxEdgeworth_spec (sizes : List Nat) :
    ∀ (trs : List Trust), (∀ tr ∈ trs, TrustWF sizes tr) →
      trs.Pairwise (fun a b => a = b ∨ (Compatible a b ∧ Compatible b a)) →
      ∀ (w : W) (done : List Trust), (∀ tr ∈ done, TrustWF sizes tr) →
        (∀ a ∈ done, ∀ b ∈ trs, a = b ∨ Compatible b a) → (∀ tr ∈ done, EdgeOK sizes tr w) →
        (∀ tr, tr ∈ done ∨ tr ∈ trs → EdgeOK sizes tr (approxEdgeworth sizes trs w)) ∧
        (∀ d, MonoAx sizes d w → MonoAx sizes d (approxEdgeworth sizes trs w)) := by
  intro trs
  induction trs with
  | nil =>
    intro _ _ w done _ _ hd
    exact ⟨fun tr h => (by rcases h with h | h; exact hd tr h; cases h), fun d h => h⟩
  | cons t r ih =>
    intro hwf hp w done hdwf hcomp hd
    rw [List.pairwise_cons] at hp
    have hwt := hwf t (List.mem_cons_self ..)
    have := ih (fun x hx => hwf x (List.mem_cons_of_mem _ hx)) hp.2 (edgeworthOne sizes t w) (done ++ [t])
      (fun x hx => by
        rcases List.mem_append.mp hx with h | h
        · exact hdwf x h
        · simp at h; subst h; exact hwt)
      (fun a ha b hb => by
        rcases List.mem_append.mp ha with h | h
        · exact hcomp a h b (List.mem_cons_of_mem _ hb)
        · simp at h; subst h
          rcases hp.1 b hb with e | e
          · exact Or.inl e
          · exact Or.inr e.2)
      (fun x hx => by
        rcases List.mem_append.mp hx with h | h
        · rcases hcomp x h t (List.mem_cons_self ..) with e | e
          · subst e; exact edgeworthOne_edgeOK sizes x hwt w
          · exact edgeworthOne_keeps_other sizes t x hwt (hdwf x h) e w (hd x h)
        · simp at h; subst h; exact edgeworthOne_edgeOK sizes x hwt w)
    refine ⟨fun tr htr => ?_, fun d hm => ?_⟩
    · apply this.1
      rcases htr with h | h
      · exact Or.inl (List.mem_append_left _ h)
      · rcases List.mem_cons.mp h with e | e
        · exact Or.inl (by simp [e])
        · exact Or.inr e
    · exact this.2 d (edgeworthOne_mono sizes t hwt w hm)

theorem approxTrapezoid_nil (sizes : List Nat) (ew : List Trust) (w : W) :
    approxTrapezoid sizes ew [] w = w := rfl

/-- **C01 (class A): monotonicity + any Edgeworth trusts + any bounds, no trapezoid trusts.**
For every accepted configuration of this class and EVERY input kernel (e.g. whatever the Dykstra
iterations returned, for every iteration count), the strict finalisation followed by the final
clip returns a kernel that is monotone along every monotone dimension, satisfies every Edgeworth
trust inequality and lies within the output bounds. -/
theorem C01_strict_edgeworth_class_d (c : Cfg) (hwf : CfgWFd c) (hnt : c.trapezoid = []) (w : W) :
    Strict c (clipBounds c.lo c.hi (finalize c w)) := by
  have hclipIn : InBounds c.sizes c.lo c.hi (clipBounds c.lo c.hi (finalize c w)) :=
    fun idx _ => clipBounds_in c.lo c.hi hwf.bounds _ idx
  refine ⟨?_, ?_, by rw [hnt]; exact fun _ h => (by cases h), hclipIn⟩
  · -- monotonicity
    intro d hd hm
    apply clipBounds_mono
    unfold finalize
    have hmem : d ∈ monoDims c.sizes c.mono := mem_monoDims.mpr ⟨hd, hm⟩
    have hhas : hasMono c = true := by
      unfold hasMono
      cases hl : monoDims c.sizes c.mono with
      | nil => rw [hl] at hmem; cases hmem
      | cons a r => rfl
    simp only [hhas, Bool.not_true, Bool.false_eq_true, if_false]
    have h1 := approxMono_mono c.sizes c.mono w hd hm
    split
    · exact h1
    · rw [hnt, approxTrapezoid_nil]
      apply (approxBounds_affine c.sizes c.lo c.hi hwf.bounds _).mono
      exact (approxEdgeworth_spec c.sizes c.edgeworth
        (fun tr h => (hwf.trust_wf tr (List.mem_append_left _ h)).1) hwf.compat _ [] (by simp) (by simp)
        (by simp)).2 d h1
  · -- Edgeworth trusts
    intro tr htr
    obtain ⟨hwt, hmain⟩ := hwf.trust_wf tr (List.mem_append_left _ htr)
    have hmem : tr.main ∈ monoDims c.sizes c.mono := mem_monoDims.mpr ⟨hwt.1, hmain⟩
    have hhas : hasMono c = true := by
      unfold hasMono
      cases hl : monoDims c.sizes c.mono with
      | nil => rw [hl] at hmem; cases hmem
      | cons a r => rfl
    have hne : c.edgeworth.isEmpty = false := by
      cases he : c.edgeworth with
      | nil => rw [he] at htr; cases htr
      | cons a r => simp
    have hfin : finalize c w = approxBounds c.sizes c.lo c.hi
        (approxEdgeworth c.sizes c.edgeworth (approxMono c.sizes c.mono w)) := by
      unfold finalize
      simp only [hhas, hne, Bool.false_and, Bool.not_true, Bool.false_eq_true, if_false, hnt, approxTrapezoid_nil]
    have hE : EdgeOK c.sizes tr (finalize c w) := by
      rw [hfin]
      apply (approxBounds_affine c.sizes c.lo c.hi hwf.bounds _).edgeOK
      exact (approxEdgeworth_spec c.sizes c.edgeworth
        (fun tr h => (hwf.trust_wf tr (List.mem_append_left _ h)).1) hwf.compat _ [] (by simp) (by simp)
        (by simp)).1 tr (Or.inr htr)
    -- after the bounds projection the clip is the identity on the box
    have hag : AgreeOn c.sizes (finalize c w) (clipBounds c.lo c.hi (finalize c w)) := by
      intro idx hr
      have hb := approxBounds_in c.sizes c.lo c.hi hwf.bounds
        (approxEdgeworth c.sizes c.edgeworth (approxMono c.sizes c.mono w)) hr
      rw [← hfin] at hb
      exact (clipBounds_fix c.lo c.hi _ idx hb.1 hb.2).symm
    exact EdgeOK.congr hag hE

/-- the same on the EXECUTABLE model that the correspondence check ties to the real code: for
every table `t` (the Dykstra output), the values `runStage clip (finalizeT c t)` satisfy every
strict constraint of a class-A configuration. -/
theorem C01_exec_edgeworth_class_d (c : Cfg) (hwf : CfgWFd c) (hnt : c.trapezoid = []) (t : Table) :
    Strict c (runStage c.sizes (clipBounds c.lo c.hi) (finalizeT c t)).get := by
  have hag : AgreeOn c.sizes (runStage c.sizes (clipBounds c.lo c.hi) (finalizeT c t)).get
      (clipBounds c.lo c.hi (finalize c t.get)) :=
    runStage_agree (clipBounds_local c.sizes c.lo c.hi)
      (finalizeT_agree c (by rw [hnt]; exact fun _ h => (by cases h)) (AgreeOn.refl _ _))
  obtain ⟨h1, h2, _, h4⟩ := C01_strict_edgeworth_class_d c hwf hnt t.get
  refine ⟨fun d hd hm => (h1 d hd hm).congr hag.symm, fun tr htr => EdgeOK.congr hag.symm (h2 tr htr),
    by rw [hnt]; exact fun _ h => (by cases h), fun idx hr => ?_⟩
  rw [hag idx hr]; exact h4 idx hr

/-- class (A) under the original hypothesis `CfgWF` (no Edgeworth pair listed twice) -/
theorem C01_strict_edgeworth_class (c : Cfg) (hwf : CfgWF c) (hnt : c.trapezoid = []) (w : W) :
    Strict c (clipBounds c.lo c.hi (finalize c w)) := C01_strict_edgeworth_class_d c hwf.toD hnt w
theorem C01_exec_edgeworth_class (c : Cfg) (hwf : CfgWF c) (hnt : c.trapezoid = []) (t : Table) :
    Strict c (runStage c.sizes (clipBounds c.lo c.hi) (finalizeT c t)).get :=
  C01_exec_edgeworth_class_d c hwf.toD hnt t

/-- what `verify_hyperparameters` guarantees about the trapezoid trusts: lattice sizes ≥ 2 and no
feature is both a main and a conditional feature -/
structure TrapWF (c : Cfg) : Prop where
  sizes : ∀ tr ∈ c.trapezoid, 2 ≤ c.sizes.getD tr.main 0 ∧ 1 ≤ c.sizes.getD tr.cond 0
  roles : ∀ a ∈ c.trapezoid, ∀ b ∈ c.trapezoid, b.cond ≠ a.main

/-- **C01 (class B): monotonicity + any trapezoid trusts + any bounds, no Edgeworth trusts.**
For every accepted configuration of this class and EVERY input kernel, the strict finalisation
followed by the final clip returns a kernel that is monotone along every monotone dimension,
satisfies every trapezoid trust inequality (also for trusts sharing a conditional feature) and
lies within the output bounds. -/
theorem C01_strict_trapezoid_class (c : Cfg) (hwf : CfgWF c) (htw : TrapWF c) (hne : c.edgeworth = [])
    (w : W) : Strict c (clipBounds c.lo c.hi (finalize c w)) := by
  by_cases hnt : c.trapezoid = []
  · exact C01_strict_edgeworth_class c hwf hnt w
  have hclipIn : InBounds c.sizes c.lo c.hi (clipBounds c.lo c.hi (finalize c w)) :=
    fun idx _ => clipBounds_in c.lo c.hi hwf.bounds _ idx
  -- some trapezoid trust exists, its main axis is monotone: the projection runs all stages
  obtain ⟨t0, ht0⟩ : ∃ t, t ∈ c.trapezoid := by
    cases h : c.trapezoid with
    | nil => exact absurd h hnt
    | cons a r => exact ⟨a, List.mem_cons_self ..⟩
  obtain ⟨hwt0, hmain0⟩ := hwf.trust_wf t0 (List.mem_append_right _ ht0)
  have hhas : hasMono c = true := by
    have hmem : t0.main ∈ monoDims c.sizes c.mono := mem_monoDims.mpr ⟨hwt0.1, hmain0⟩
    unfold hasMono
    cases hl : monoDims c.sizes c.mono with
    | nil => rw [hl] at hmem; cases hmem
    | cons a r => rfl
  have hnotboth : c.trapezoid.isEmpty = false := by
    cases h : c.trapezoid with
    | nil => exact absurd h hnt
    | cons a r => simp
  have hfin : finalize c w = approxBounds c.sizes c.lo c.hi
      (approxTrapezoid c.sizes [] c.trapezoid (approxMono c.sizes c.mono w)) := by
    unfold finalize
    simp only [hhas, hnotboth, Bool.and_false, Bool.not_true, Bool.false_eq_true, if_false, hne,
      approxEdgeworth, List.foldl_nil]
  have hspec := approxTrapezoid_pe_spec (sizes := c.sizes) c.trapezoid
    (fun tr h => ⟨(hwf.trust_wf tr (List.mem_append_right _ h)).1, (htw.sizes tr h).1, (htw.sizes tr h).2⟩)
    htw.roles (approxMono c.sizes c.mono w) [] (by simp) (by simp) (by simp)
  have haff := approxBounds_affine c.sizes c.lo c.hi hwf.bounds
    (approxTrapezoid c.sizes [] c.trapezoid (approxMono c.sizes c.mono w))
  have hag : AgreeOn c.sizes (finalize c w) (clipBounds c.lo c.hi (finalize c w)) := by
    intro idx hr
    have hb := approxBounds_in c.sizes c.lo c.hi hwf.bounds
      (approxTrapezoid c.sizes [] c.trapezoid (approxMono c.sizes c.mono w)) hr
    rw [← hfin] at hb
    exact (clipBounds_fix c.lo c.hi _ idx hb.1 hb.2).symm
  refine ⟨fun d hd hm => ?_, by rw [hne]; exact fun _ h => (by cases h), fun tr htr => ?_, hclipIn⟩
  · apply clipBounds_mono
    rw [hfin]
    exact haff.mono (hspec.2 d hd (approxMono_mono c.sizes c.mono w hd hm))
  · refine TrapOK.congr hag ?_
    rw [hfin]
    exact AffinePos_trapOK haff (hspec.1 tr (Or.inr htr))

/-- class (B) on the EXECUTABLE model -/
theorem C01_exec_trapezoid_class (c : Cfg) (hwf : CfgWF c) (htw : TrapWF c) (hne : c.edgeworth = [])
    (t : Table) : Strict c (runStage c.sizes (clipBounds c.lo c.hi) (finalizeT c t)).get := by
  have hag : AgreeOn c.sizes (runStage c.sizes (clipBounds c.lo c.hi) (finalizeT c t)).get
      (clipBounds c.lo c.hi (finalize c t.get)) :=
    runStage_agree (clipBounds_local c.sizes c.lo c.hi)
      (finalizeT_agree c (fun tr h => by have := (htw.sizes tr h).1; omega) (AgreeOn.refl _ _))
  obtain ⟨h1, _, h3, h4⟩ := C01_strict_trapezoid_class c hwf htw hne t.get
  refine ⟨fun d hd hm => (h1 d hd hm).congr hag.symm, by rw [hne]; exact fun _ h => (by cases h),
    fun tr htr => TrapOK.congr hag.symm (h3 tr htr), fun idx hr => ?_⟩
  rw [hag idx hr]; exact h4 idx hr


/-- side conditions of class (C1), all decidable facts about the configuration -/
structure MixedWF (c : Cfg) : Prop where
  sizes : ∀ tr ∈ c.trapezoid, 2 ≤ c.sizes.getD tr.main 0
  nonmatching : ∀ tr ∈ c.trapezoid, trapMode c.edgeworth tr = .maxBehind
  roles : ∀ a ∈ c.trapezoid, ∀ b ∈ c.trapezoid, b.cond ≠ a.main
  compat : ∀ tr ∈ c.trapezoid, ∀ e ∈ c.edgeworth, Compatible tr e
  distinct : c.trapezoid.Pairwise (fun a b => a.cond ≠ b.cond)
  cond_free : ∀ tr ∈ c.trapezoid, c.mono.getD tr.cond false = false

/-- **C01 (class C1): Edgeworth and trapezoid trusts together, none matching, free conditional
axes, no shared conditional axis.** Every strict constraint holds for EVERY input kernel. -/
theorem C01_strict_mixed_nonmatching_class (c : Cfg) (hwf : CfgWF c) (hmx : MixedWF c) (w : W) :
    Strict c (clipBounds c.lo c.hi (finalize c w)) := by
  by_cases hnt : c.trapezoid = []
  · exact C01_strict_edgeworth_class c hwf hnt w
  have hclipIn : InBounds c.sizes c.lo c.hi (clipBounds c.lo c.hi (finalize c w)) :=
    fun idx _ => clipBounds_in c.lo c.hi hwf.bounds _ idx
  obtain ⟨t0, ht0⟩ : ∃ t, t ∈ c.trapezoid := by
    cases h : c.trapezoid with
    | nil => exact absurd h hnt
    | cons a r => exact ⟨a, List.mem_cons_self ..⟩
  obtain ⟨hwt0, hmain0⟩ := hwf.trust_wf t0 (List.mem_append_right _ ht0)
  have hhas : hasMono c = true := by
    have hmem : t0.main ∈ monoDims c.sizes c.mono := mem_monoDims.mpr ⟨hwt0.1, hmain0⟩
    unfold hasMono
    cases hl : monoDims c.sizes c.mono with
    | nil => rw [hl] at hmem; cases hmem
    | cons a r => rfl
  have hnotboth : c.trapezoid.isEmpty = false := by
    cases h : c.trapezoid with
    | nil => exact absurd h hnt
    | cons a r => simp
  have hfin : finalize c w = approxBounds c.sizes c.lo c.hi
      (approxTrapezoid c.sizes c.edgeworth c.trapezoid
        (approxEdgeworth c.sizes c.edgeworth (approxMono c.sizes c.mono w))) := by
    unfold finalize
    simp only [hhas, hnotboth, Bool.and_false, Bool.not_true, Bool.false_eq_true, if_false]
  have hE := approxEdgeworth_spec c.sizes c.edgeworth
    (fun tr h => (hwf.trust_wf tr (List.mem_append_left _ h)).1) hwf.toD.compat
    (approxMono c.sizes c.mono w) [] (by simp) (by simp) (by simp)
  have hT := approxTrapezoid_mb_spec (sizes := c.sizes) c.edgeworth
    (fun e h => (hwf.trust_wf e (List.mem_append_left _ h)).1) c.trapezoid
    (fun tr h => ⟨hmx.nonmatching tr h, (hwf.trust_wf tr (List.mem_append_right _ h)).1, hmx.sizes tr h,
      hmx.compat tr h⟩)
    hmx.roles hmx.distinct (approxEdgeworth c.sizes c.edgeworth (approxMono c.sizes c.mono w)) []
    (by simp) (by simp) (fun e he => hE.1 e (Or.inr he))
  have haff := approxBounds_affine c.sizes c.lo c.hi hwf.bounds
    (approxTrapezoid c.sizes c.edgeworth c.trapezoid
      (approxEdgeworth c.sizes c.edgeworth (approxMono c.sizes c.mono w)))
  have hag : AgreeOn c.sizes (finalize c w) (clipBounds c.lo c.hi (finalize c w)) := by
    intro idx hr
    have hb := approxBounds_in c.sizes c.lo c.hi hwf.bounds
      (approxTrapezoid c.sizes c.edgeworth c.trapezoid
        (approxEdgeworth c.sizes c.edgeworth (approxMono c.sizes c.mono w))) hr
    rw [← hfin] at hb
    exact (clipBounds_fix c.lo c.hi _ idx hb.1 hb.2).symm
  refine ⟨fun d hd hm => ?_, fun tr htr => ?_, fun tr htr => ?_, hclipIn⟩
  · apply clipBounds_mono
    rw [hfin]
    refine haff.mono (hT.2.2 d hd (fun tr htr e => ?_) (hE.2 d (approxMono_mono c.sizes c.mono w hd hm)))
    have := hmx.cond_free tr htr
    rw [← e, hm] at this; cases this
  · refine EdgeOK.congr hag ?_
    rw [hfin]
    exact haff.edgeOK (hT.2.1 tr htr)
  · refine TrapOK.congr hag ?_
    rw [hfin]
    exact AffinePos_trapOK haff (hT.1 tr (Or.inr htr))

/-- class (C1) on the EXECUTABLE model -/
theorem C01_exec_mixed_nonmatching_class (c : Cfg) (hwf : CfgWF c) (hmx : MixedWF c) (t : Table) :
    Strict c (runStage c.sizes (clipBounds c.lo c.hi) (finalizeT c t)).get := by
  have hag : AgreeOn c.sizes (runStage c.sizes (clipBounds c.lo c.hi) (finalizeT c t)).get
      (clipBounds c.lo c.hi (finalize c t.get)) :=
    runStage_agree (clipBounds_local c.sizes c.lo c.hi)
      (finalizeT_agree c (fun tr h => by have := hmx.sizes tr h; omega) (AgreeOn.refl _ _))
  obtain ⟨h1, h2, h3, h4⟩ := C01_strict_mixed_nonmatching_class c hwf hmx t.get
  refine ⟨fun d hd hm => (h1 d hd hm).congr hag.symm, fun tr htr => EdgeOK.congr hag.symm (h2 tr htr),
    fun tr htr => TrapOK.congr hag.symm (h3 tr htr), fun idx hr => ?_⟩
  rw [hag idx hr]; exact h4 idx hr


/-- side conditions of the general mixed class (C): the first three are what `verify_hyperparameters`
guarantees (lattice sizes ≥ 2; no feature is both a main and a conditional feature; two trusts on
the same pair of features have the same direction, i.e. an Edgeworth trust on the grid of a
trapezoid trust IS the matching one); the last two are the restriction H_trap and only apply when
Edgeworth trusts are configured (`cond_free` moreover only when the lattice has an axis besides the
main and the conditional one: in rank 2 monotone conditional axes are allowed) -/
structure MixedClassWF (c : Cfg) : Prop where
  sizes : ∀ tr ∈ c.trapezoid, 2 ≤ c.sizes.getD tr.main 0 ∧ 1 ≤ c.sizes.getD tr.cond 0
  roles : ∀ a ∈ c.trapezoid, ∀ b ∈ c.trapezoid, b.cond ≠ a.main
  compat : ∀ tr ∈ c.trapezoid, ∀ e ∈ c.edgeworth, e = tr ∨ Compatible tr e
  distinct : c.edgeworth ≠ [] → c.trapezoid.Pairwise (fun a b => a.cond ≠ b.cond)
  cond_free : c.edgeworth ≠ [] → c.sizes.length ≠ 2 → ∀ tr ∈ c.trapezoid, c.mono.getD tr.cond false = false

/-- **C01 (class C, general mixed class): any Edgeworth trusts and any trapezoid trusts, each
trapezoid trust matching an Edgeworth trust (running-max mode) or not; with Edgeworth trusts
present, conditional axes of trapezoid trusts are pairwise distinct and — unless the lattice has
rank 2 — not monotone. This is exactly H_trap of DESIGN.md.** For every
accepted configuration of this class and EVERY input kernel, the strict finalisation followed by the
final clip returns a kernel that is monotone along every monotone dimension, satisfies every
Edgeworth inequality (the matching ones included), every trapezoid inequality and the bounds. -/
theorem C01_strict_mixed_class_d (c : Cfg) (hwf : CfgWFd c) (hmx : MixedClassWF c) (w : W) :
    Strict c (clipBounds c.lo c.hi (finalize c w)) := by
  by_cases hnt : c.trapezoid = []
  · exact C01_strict_edgeworth_class_d c hwf hnt w
  by_cases hne : c.edgeworth = []
  · exact C01_strict_trapezoid_class c (hwf.toWF_of_nil hne) ⟨hmx.sizes, hmx.roles⟩ hne w
  have hclipIn : InBounds c.sizes c.lo c.hi (clipBounds c.lo c.hi (finalize c w)) :=
    fun idx _ => clipBounds_in c.lo c.hi hwf.bounds _ idx
  obtain ⟨t0, ht0⟩ : ∃ t, t ∈ c.trapezoid := by
    cases h : c.trapezoid with
    | nil => exact absurd h hnt
    | cons a r => exact ⟨a, List.mem_cons_self ..⟩
  obtain ⟨hwt0, hmain0⟩ := hwf.trust_wf t0 (List.mem_append_right _ ht0)
  have hhas : hasMono c = true := by
    have hmem : t0.main ∈ monoDims c.sizes c.mono := mem_monoDims.mpr ⟨hwt0.1, hmain0⟩
    unfold hasMono
    cases hl : monoDims c.sizes c.mono with
    | nil => rw [hl] at hmem; cases hmem
    | cons a r => rfl
  have hnotboth : c.trapezoid.isEmpty = false := by
    cases h : c.trapezoid with
    | nil => exact absurd h hnt
    | cons a r => simp
  have hfin : finalize c w = approxBounds c.sizes c.lo c.hi
      (approxTrapezoid c.sizes c.edgeworth c.trapezoid
        (approxEdgeworth c.sizes c.edgeworth (approxMono c.sizes c.mono w))) := by
    unfold finalize
    simp only [hhas, hnotboth, Bool.and_false, Bool.not_true, Bool.false_eq_true, if_false]
  have hE := approxEdgeworth_spec c.sizes c.edgeworth
    (fun tr h => (hwf.trust_wf tr (List.mem_append_left _ h)).1) hwf.compat
    (approxMono c.sizes c.mono w) [] (by simp) (by simp) (by simp)
  have hT := approxTrapezoid_mixed_spec (sizes := c.sizes) c.edgeworth
    (fun e h => (hwf.trust_wf e (List.mem_append_left _ h)).1) c.trapezoid
    (fun tr h => ⟨trapMode_of_ne_nil tr hne, (hwf.trust_wf tr (List.mem_append_right _ h)).1,
      (hmx.sizes tr h).1, hmx.compat tr h⟩)
    hmx.roles (hmx.distinct hne) (approxEdgeworth c.sizes c.edgeworth (approxMono c.sizes c.mono w)) []
    (by simp) (by simp) (fun e he => hE.1 e (Or.inr he))
  have haff := approxBounds_affine c.sizes c.lo c.hi hwf.bounds
    (approxTrapezoid c.sizes c.edgeworth c.trapezoid
      (approxEdgeworth c.sizes c.edgeworth (approxMono c.sizes c.mono w)))
  have hag : AgreeOn c.sizes (finalize c w) (clipBounds c.lo c.hi (finalize c w)) := by
    intro idx hr
    have hb := approxBounds_in c.sizes c.lo c.hi hwf.bounds
      (approxTrapezoid c.sizes c.edgeworth c.trapezoid
        (approxEdgeworth c.sizes c.edgeworth (approxMono c.sizes c.mono w))) hr
    rw [← hfin] at hb
    exact (clipBounds_fix c.lo c.hi _ idx hb.1 hb.2).symm
  refine ⟨fun d hd hm => ?_, fun tr htr => ?_, fun tr htr => ?_, hclipIn⟩
  · apply clipBounds_mono
    rw [hfin]
    refine haff.mono (hT.2.2 d hd (fun tr htr => ?_) (hE.2 d (approxMono_mono c.sizes c.mono w hd hm)))
    by_cases hr2 : c.sizes.length = 2
    · exact Or.inr hr2
    · refine Or.inl (fun e => ?_)
      have := hmx.cond_free hne hr2 tr htr
      rw [← e, hm] at this; cases this
  · refine EdgeOK.congr hag ?_
    rw [hfin]
    exact haff.edgeOK (hT.2.1 tr htr)
  · refine TrapOK.congr hag ?_
    rw [hfin]
    exact AffinePos_trapOK haff (hT.1 tr (Or.inr htr))

/-- class (C) on the EXECUTABLE model that the correspondence check ties to the real code -/
theorem C01_exec_mixed_class_d (c : Cfg) (hwf : CfgWFd c) (hmx : MixedClassWF c) (t : Table) :
    Strict c (runStage c.sizes (clipBounds c.lo c.hi) (finalizeT c t)).get := by
  have hag : AgreeOn c.sizes (runStage c.sizes (clipBounds c.lo c.hi) (finalizeT c t)).get
      (clipBounds c.lo c.hi (finalize c t.get)) :=
    runStage_agree (clipBounds_local c.sizes c.lo c.hi)
      (finalizeT_agree c (fun tr h => by have := (hmx.sizes tr h).1; omega) (AgreeOn.refl _ _))
  obtain ⟨h1, h2, h3, h4⟩ := C01_strict_mixed_class_d c hwf hmx t.get
  refine ⟨fun d hd hm => (h1 d hd hm).congr hag.symm, fun tr htr => EdgeOK.congr hag.symm (h2 tr htr),
    fun tr htr => TrapOK.congr hag.symm (h3 tr htr), fun idx hr => ?_⟩
  rw [hag idx hr]; exact h4 idx hr


/-- class (C) under the original hypothesis `CfgWF` (no Edgeworth pair listed twice) -/
theorem C01_strict_mixed_class (c : Cfg) (hwf : CfgWF c) (hmx : MixedClassWF c) (w : W) :
    Strict c (clipBounds c.lo c.hi (finalize c w)) := C01_strict_mixed_class_d c hwf.toD hmx w
theorem C01_exec_mixed_class (c : Cfg) (hwf : CfgWF c) (hmx : MixedClassWF c) (t : Table) :
    Strict c (runStage c.sizes (clipBounds c.lo c.hi) (finalizeT c t)).get :=
  C01_exec_mixed_class_d c hwf.toD hmx t

/-! ### non-vacuity: a rank-3, two-trust configuration with both directions meets `CfgWF` -/
def exampleCfg : Cfg :=
  { sizes := [3, 2, 3], mono := [true, false, true],
    edgeworth := [⟨0, 1, true⟩, ⟨2, 1, false⟩], lo := some 0, hi := some 1 }
example : CfgWF exampleCfg where
  trust_wf := by
    intro tr h
    simp only [exampleCfg, List.append_nil, List.mem_cons, List.not_mem_nil, or_false] at h
    rcases h with rfl | rfl <;> exact ⟨⟨by decide, by decide, by decide⟩, by decide⟩
  compat := by
    simp only [exampleCfg, List.pairwise_cons, List.mem_cons, List.not_mem_nil, or_false, forall_eq,
      List.Pairwise.nil, and_true, IsEmpty.forall_iff, implies_true]
    exact ⟨⟨by decide, by decide, by decide⟩, ⟨by decide, by decide, by decide⟩⟩
  bounds := by intro l h e1 e2; cases e1; cases e2; norm_num
/-- … and the projection genuinely moves an infeasible kernel of that configuration -/
example : Table.vals exampleCfg.sizes (finalizeT exampleCfg
    (Table.ofVals exampleCfg.sizes [3,0,1, 0,2,0, 0,1,5, 1,0,0, 2,2,2, 0,0,1]))
    ≠ [3,0,1, 0,2,0, 0,1,5, 1,0,0, 2,2,2, 0,0,1] := by decide +kernel

/-- a class-(B) configuration: two trapezoid trusts sharing the conditional axis 1 -/
def exampleTrapCfg : Cfg :=
  { sizes := [2, 3, 2], mono := [true, false, true],
    trapezoid := [⟨0, 1, true⟩, ⟨2, 1, false⟩], hi := some 2 }
example : TrapWF exampleTrapCfg where
  sizes := by
    intro tr h
    simp only [exampleTrapCfg, List.mem_cons, List.not_mem_nil, or_false] at h
    rcases h with rfl | rfl <;> exact ⟨by decide, by decide⟩
  roles := by
    intro a ha b hb
    simp only [exampleTrapCfg, List.mem_cons, List.not_mem_nil, or_false] at ha hb
    rcases ha with rfl | rfl <;> rcases hb with rfl | rfl <;> decide
example : Table.vals exampleTrapCfg.sizes (finalizeT exampleTrapCfg
    (Table.ofVals exampleTrapCfg.sizes [3,0, 1,0, 2,0, 0,1, 5,1, 0,0]))
    ≠ [3,0, 1,0, 2,0, 0,1, 5,1, 0,0] := by decide +kernel

/-- a class-(C1) configuration: Edgeworth (0,1,+) and a non-matching trapezoid (0,2,−) with a free
conditional axis -/
def exampleMixedCfg : Cfg :=
  { sizes := [2, 2, 3], mono := [true, true, false],
    edgeworth := [⟨0, 1, true⟩], trapezoid := [⟨0, 2, false⟩], lo := some 0 }
example : MixedWF exampleMixedCfg where
  sizes := by intro tr h; simp only [exampleMixedCfg, List.mem_singleton] at h; subst h; decide
  nonmatching := by intro tr h; simp only [exampleMixedCfg, List.mem_singleton] at h; subst h; decide
  roles := by
    intro a ha b hb
    simp only [exampleMixedCfg, List.mem_singleton] at ha hb; subst ha; subst hb; decide
  compat := by
    intro tr h e he
    simp only [exampleMixedCfg, List.mem_singleton] at h he; subst h; subst he
    exact ⟨by decide, by decide, by decide⟩
  distinct := by simp [exampleMixedCfg]
  cond_free := by intro tr h; simp only [exampleMixedCfg, List.mem_singleton] at h; subst h; decide

/-- a class-(C) configuration beyond (C1): Edgeworth (0,2,+) together with the MATCHING trapezoid
trust (0,2,+) — running-max mode — and a non-matching trapezoid trust (0,1,−), free conditional
axes 1 and 2 -/
def exampleMatchingCfg : Cfg :=
  { sizes := [2, 3, 3], mono := [true, false, false],
    edgeworth := [⟨0, 2, true⟩], trapezoid := [⟨0, 2, true⟩, ⟨0, 1, false⟩], lo := some 0, hi := some 4 }
example : CfgWF exampleMatchingCfg where
  trust_wf := by
    intro tr h
    simp only [exampleMatchingCfg, List.cons_append, List.nil_append, List.mem_cons, List.not_mem_nil,
      or_false] at h
    rcases h with rfl | rfl | rfl <;> exact ⟨⟨by decide, by decide, by decide⟩, by decide⟩
  compat := by simp [exampleMatchingCfg]
  bounds := by intro l h e1 e2; cases e1; cases e2; norm_num
example : MixedClassWF exampleMatchingCfg where
  sizes := by
    intro tr h
    simp only [exampleMatchingCfg, List.mem_cons, List.not_mem_nil, or_false] at h
    rcases h with rfl | rfl <;> exact ⟨by decide, by decide⟩
  roles := by
    intro a ha b hb
    simp only [exampleMatchingCfg, List.mem_cons, List.not_mem_nil, or_false] at ha hb
    rcases ha with rfl | rfl <;> rcases hb with rfl | rfl <;> decide
  compat := by
    intro tr h e he
    simp only [exampleMatchingCfg, List.mem_cons, List.not_mem_nil, or_false] at h he
    subst he
    rcases h with rfl | rfl
    · exact Or.inl rfl
    · exact Or.inr ⟨by decide, by decide, by decide⟩
  distinct := by intro _; simp [exampleMatchingCfg]
  cond_free := by
    intro _ _ tr h
    simp only [exampleMatchingCfg, List.mem_cons, List.not_mem_nil, or_false] at h
    rcases h with rfl | rfl <;> decide
/-- the two trusts of that configuration really run in the two scalar modes -/
example : trapMode exampleMatchingCfg.edgeworth ⟨0, 2, true⟩ = .runningMax ∧
    trapMode exampleMatchingCfg.edgeworth ⟨0, 1, false⟩ = .maxBehind := by decide
/-- … and the projection genuinely moves an infeasible kernel of that configuration -/
example : Table.vals exampleMatchingCfg.sizes (finalizeT exampleMatchingCfg
    (Table.ofVals exampleMatchingCfg.sizes [0,3,1, 2,0,5, 1,1,0,  4,0,2, 1,3,0, 0,2,6]))
    ≠ [0,3,1, 2,0,5, 1,1,0,  4,0,2, 1,3,0, 0,2,6] := by decide +kernel

/-- the rank-2 sub-case of class (C): Edgeworth (0,1,+) with its matching trapezoid trust and a
MONOTONE conditional axis -/
def exampleRank2Cfg : Cfg :=
  { sizes := [3, 3], mono := [true, true], edgeworth := [⟨0, 1, true⟩], trapezoid := [⟨0, 1, true⟩] }
example : CfgWF exampleRank2Cfg where
  trust_wf := by
    intro tr h
    simp only [exampleRank2Cfg, List.cons_append, List.nil_append, List.mem_cons, List.not_mem_nil,
      or_false, or_self] at h
    subst h; exact ⟨⟨by decide, by decide, by decide⟩, by decide⟩
  compat := by simp [exampleRank2Cfg]
  bounds := by intro l h e1; cases e1
example : MixedClassWF exampleRank2Cfg where
  sizes := by intro tr h; simp only [exampleRank2Cfg, List.mem_singleton] at h; subst h; exact ⟨by decide, by decide⟩
  roles := by
    intro a ha b hb
    simp only [exampleRank2Cfg, List.mem_singleton] at ha hb; subst ha; subst hb; decide
  compat := by
    intro tr h e he
    simp only [exampleRank2Cfg, List.mem_singleton] at h he; subst h; subst he; exact Or.inl rfl
  distinct := by intro _; simp [exampleRank2Cfg]
  cond_free := by intro _ h; exact absurd rfl h
example : Table.vals exampleRank2Cfg.sizes (finalizeT exampleRank2Cfg
    (Table.ofVals exampleRank2Cfg.sizes [0,2,1, 3,0,4, 1,5,2]))
    ≠ [0,2,1, 3,0,4, 1,5,2] := by decide +kernel

/-! ### finding F-C01-a: the unrestricted statement is false -/
def witnessCfg : Cfg :=
  { sizes := [2, 2, 2], mono := [true, true, false], edgeworth := [⟨0, 2, true⟩],
    trapezoid := [⟨0, 1, false⟩] }
/-- **counter-witness (F-C01-a).** sizes [2,2,2], monotone axes 0 and 1, Edgeworth (0,2,+),
trapezoid (0,1,−), kernel [1,0,0,3,0,0,0,0]: the finalisation returns [½,0,½,3/2,2,3/2,½,3/2],
which DEcreases along the monotone axis 1 from vertex (1,0,0) to (1,1,0). The same input is
replayed on the real `finalize_constraints` by the check (corpus/C01). -/
theorem C01_counter_witness :
    (finalizeT witnessCfg (Table.ofVals [2,2,2] [1,0,0,3,0,0,0,0])).get [1,1,0] <
    (finalizeT witnessCfg (Table.ofVals [2,2,2] [1,0,0,3,0,0,0,0])).get [1,0,0] := by decide +kernel

theorem C01_counter_witness_values :
    Table.vals [2,2,2] (finalizeT witnessCfg (Table.ofVals [2,2,2] [1,0,0,3,0,0,0,0])) =
      [1/2, 0, 1/2, 3/2, 2, 3/2, 1/2, 3/2] := by decide +kernel

/-- the counter-witness configuration is outside class (C): Edgeworth trusts are present and the
conditional axis 1 of its trapezoid trust is monotone -/
example : ¬ MixedClassWF witnessCfg := fun h => by
  have := h.cond_free (by simp [witnessCfg]) (by decide) ⟨0, 1, false⟩ (by simp [witnessCfg])
  revert this; decide

end Tfl.C01
