import TflModel.Lemmas.Kfl
import TflModel.Props.C02
import TflModel.Props.C05
/-!
# C19 — gradients delivered to training equal the true derivatives

T1: the factor `grad0 + grad1` that `custom_reduce_prod.grad_fn` multiplies the incoming gradient
with (`Tfl.Kfl.gradFactor`: `divide_no_nan` branch + single-zero branch) is the product of all the
other entries, for every list and every pattern of exact zeros, and that product IS the partial
derivative of the plain product (the product is affine in each entry with that slope).

T2: every one of Lattice / PWLCalibration / CategoricalCalibration evaluates `out = dot w K` where `w`
does not depend on `K`. First the generic form (`dot_set_sub`, `dot_add`, `dot_smul`: exact
difference quotient `w_j`, additivity, homogeneity), then — section "T2 on the real evaluation
models" — the instantiation on the models of the other slices:
* `Tfl.LatticeEval.evalHypercube` = `dot (hypercubeWeights form clipOn sizes x) kernel`; the weights
  are the row-major products of hat weights, `≥ 0`, sum to one for in-range / clipped inputs (C02);
* `Tfl.LatticeEval.evalSimplex` = `dot (simplexKernelWeights …) kernel` (scatter of the `rank+1`
  simplex weights at the kernel-independent gather indices), `≥ 0`, sum to one;
* `Tfl.PwlEval.calibrate` = `dot (pwlCoeffs cfg ws x) kernel` (`1` for the bias row, clipped ramp
  weights for the height rows, cyclic closing height folded in); `call` adds the missing blend;
* `Tfl.Categorical.call` = `dot (catSelector n default x) kernel`, a one-hot (or zero) selector.
In each case the exact difference quotient in kernel entry `j` is the `j`-th coefficient, whatever
the kernel. The harness additionally ties each real layer's Jacobian to these weights.

The same statements with Mathlib's real analytic derivative (`HasDerivAt` per coordinate, `HasFDerivAt`
for the whole gradient, and for every continuous real extension of the model) are in
`Props/C19Deriv.lean`.
-/
namespace Tfl.C19
open Tfl Tfl.Kfl Tfl.Poset

/-- T1 (all zero patterns at once): the hand-written gradient factor equals `Π_{j≠i} t_j`. -/
theorem gradFactor_eq_prod_others (t : List Rat) (i : Nat) (hi : i < t.length) :
    gradFactor t i = rprod (t.eraseIdx i) := gradFactor_eq t i hi

/-- T1: the plain product is affine in entry `i` with slope `gradFactor t i` … -/
theorem prod_set_eq (t : List Rat) (i : Nat) (hi : i < t.length) (x : Rat) :
    rprod (t.set i x) = x * gradFactor t i := by
  rw [gradFactor_eq t i hi, rprod_set t i x hi]

/-- … hence `Π(t[i:=x]) − Π(t[i:=y]) = (x−y)·gradFactor t i` for all `x y`: the factor is the
partial derivative of `tf.reduce_prod` w.r.t. entry `i` (every difference quotient equals it). -/
theorem prod_difference_quotient (t : List Rat) (i : Nat) (hi : i < t.length) (x y : Rat) :
    rprod (t.set i x) - rprod (t.set i y) = (x - y) * gradFactor t i := by
  rw [prod_set_eq t i hi, prod_set_eq t i hi]; ring

/-- the value of `gradFactor t i` does not depend on `t_i` itself (as a derivative of an affine
function must not) -/
theorem gradFactor_set_self (t : List Rat) (i : Nat) (hi : i < t.length) (x : Rat) :
    gradFactor (t.set i x) i = gradFactor t i := by
  rw [gradFactor_eq _ i (by simpa using hi), gradFactor_eq t i hi, List.eraseIdx_set_eq]

/-- T1, branch "no zero": the factor is `fwd / t_i` -/
theorem gradFactor_no_zero (t : List Rat) (i : Nat) (hi : i < t.length) (h : getR t i ≠ 0) :
    gradFactor t i = rprod t / getR t i := by
  rw [gradFactor_eq t i hi, rprod_eraseIdx t i hi]; field_simp

/-- T1, branch "a zero somewhere else": the factor vanishes (one zero elsewhere, or several) -/
theorem gradFactor_zero_elsewhere (t : List Rat) (i : Nat) (hi : i < t.length)
    (h : numZeros (t.eraseIdx i) ≠ 0) : gradFactor t i = 0 := by
  rw [gradFactor_eq t i hi, rprod_of_numZeros_ne_zero _ h]

/-- T1, branch "the only zero is at `i`": the factor is `prod(t + is_zero)`, non-zero -/
theorem gradFactor_single_zero (t : List Rat) (i : Nat) (hi : i < t.length) (hz : getR t i = 0)
    (h : numZeros (t.eraseIdx i) = 0) : gradFactor t i = prodPlus t := by
  rw [gradFactor_eq t i hi, prodPlus_eraseIdx t i hi, hz, prodPlus_of_numZeros_eq_zero _ h]
  simp [isZero]

/-- the whole gradient row the driver prints -/
theorem gradFactors_get (t : List Rat) (i : Nat) (hi : i < t.length) :
    (gradFactors t).getD i 0 = rprod (t.eraseIdx i) := by
  simp [gradFactors, List.getD, hi, gradFactor_eq t i hi]

example : gradFactors [2, 0, 3] = [0, 6, 0] := by decide +kernel
example : gradFactors [0, 0, 3] = [0, 0, 0] := by decide +kernel
example : gradFactors [2, 5, 3] = [15, 6, 10] := by decide +kernel
example : gradFactors [0] = [1] := by decide +kernel

/-! ## T2: outputs are linear in the kernel, coefficient = interpolation weight -/

theorem dot_nil_right (w : List Rat) : dot w [] = 0 := by cases w <;> rfl

/-- `d out / d K_j = w_j` as an exact difference quotient, whatever the kernel is: the output
`dot w K` is affine in every kernel entry with slope the example's weight `w_j`
(`getR w j = 0` beyond the weight vector: such entries are never read). -/
theorem dot_set_sub : ∀ (w K : List Rat) (j : Nat) (v v' : Rat), j < K.length →
    dot w (K.set j v) - dot w (K.set j v') = getR w j * (v - v')
  | [], K, j, v, v', _ => by simp [dot, getR]
  | a :: w, [], j, v, v', h => by simp at h
  | a :: w, k :: K, 0, v, v', _ => by simp [dot, getR]; ring
  | a :: w, k :: K, j + 1, v, v', h => by
    have := dot_set_sub w K j v v' (by simpa using h)
    simp only [dot, getR, List.set_cons_succ, List.getD_cons_succ] at *
    linarith

/-- the slope does not depend on the kernel value: two kernels, same Jacobian entry -/
theorem dot_jacobian_independent_of_kernel (w K K' : List Rat) (j : Nat) (v v' : Rat)
    (h : j < K.length) (h' : j < K'.length) :
    dot w (K.set j v) - dot w (K.set j v') = dot w (K'.set j v) - dot w (K'.set j v') := by
  rw [dot_set_sub w K j v v' h, dot_set_sub w K' j v v' h']

/-- exact linearity: additivity and homogeneity in the kernel -/
theorem dot_add : ∀ (w K K' : List Rat), K.length = K'.length →
    dot w (List.zipWith (· + ·) K K') = dot w K + dot w K'
  | [], K, K', _ => by simp [dot]
  | a :: w, [], [], _ => by simp [dot]
  | a :: w, [], _ :: _, h => by simp at h
  | a :: w, _ :: _, [], h => by simp at h
  | a :: w, k :: K, k' :: K', h => by
    have := dot_add w K K' (by simpa using h)
    simp only [dot, List.zipWith_cons_cons] at *
    rw [this]; ring

theorem dot_smul : ∀ (w K : List Rat) (c : Rat), dot w (K.map (c * ·)) = c * dot w K
  | [], K, c => by simp [dot]
  | a :: w, [], c => by simp [dot]
  | a :: w, k :: K, c => by
    have := dot_smul w K c
    simp only [dot, List.map_cons] at *
    rw [this]; ring

example : dot [1/4, 3/4] ([10, 20].set 1 24) - dot [1/4, 3/4] ([10, 20].set 1 20) = 3/4 * (24 - 20) := by
  decide +kernel

/-! ## T2 on the real evaluation models -/

/-- the three layer models each carry their own copy of `dot`; they are the same function -/
theorem latDot_eq : ∀ (w K : List Rat), LatticeEval.dot w K = dot w K
  | [], K => by simp [LatticeEval.dot, dot]
  | _ :: _, [] => by simp [LatticeEval.dot, dot]
  | a :: w, k :: K => by
    have := latDot_eq w K
    simp only [LatticeEval.dot, dot, List.zipWith_cons_cons, rsum] at *
    rw [this]

theorem pwlDot_eq : ∀ (w K : List Rat), PwlEval.dot w K = dot w K
  | [], K => by simp [PwlEval.dot, dot]
  | _ :: _, [] => by simp [PwlEval.dot, dot]
  | a :: w, k :: K => by
    have := pwlDot_eq w K
    simp only [PwlEval.dot, dot] at *
    rw [this]

theorem dot_replicate_one : ∀ (w : List Rat) (n : Nat), w.length ≤ n → dot w (List.replicate n 1) = rsum w
  | [], n, _ => by simp [dot, rsum]
  | a :: w, 0, h => by simp at h
  | a :: w, n + 1, h => by
    have := dot_replicate_one w n (by simpa using h)
    simp only [dot, List.replicate_succ, rsum, this]; ring


/-! ### (a) Lattice, hypercube interpolation -/

/-- **C19/T2, Lattice (hypercube).** Whenever `verify_hyperparameters` accepts, the layer output for
one example is `dot (hypercubeWeights form clipOn sizes x) kernel`: the weight vector is a function
of the input point (and of the static configuration) ONLY — the kernel does not occur in it. -/
theorem lattice_output_eq_dot_weights (form : LatticeEval.InputForm) (clipOn : Bool) (sizes : List Nat)
    (kernel x : List Rat) (hs : ∀ n ∈ sizes, 2 ≤ n) (hl : x.length = sizes.length) :
    LatticeEval.evalHypercube form clipOn sizes kernel x
      = .ok (dot (LatticeEval.hypercubeWeights form clipOn sizes x) kernel) := by
  rw [C02.C02_T1_evalHypercube_ok form clipOn sizes kernel x hs hl, LatticeEval.hypercubeValue, latDot_eq]

/-- **C19/T2, Lattice: ∂out/∂K_j = weight_j, whatever the kernel's value.** Exact difference
quotient of the real evaluation model in kernel entry `j`. -/
theorem lattice_kernel_difference_quotient (form : LatticeEval.InputForm) (clipOn : Bool) (sizes : List Nat)
    (K x : List Rat) (j : Nat) (v v' : Rat) (hj : j < K.length) :
    LatticeEval.hypercubeValue form clipOn sizes (K.set j v) x
        - LatticeEval.hypercubeValue form clipOn sizes (K.set j v') x
      = getR (LatticeEval.hypercubeWeights form clipOn sizes x) j * (v - v') := by
  simp only [LatticeEval.hypercubeValue, latDot_eq]
  exact dot_set_sub _ K j v v' hj

/-- the same on the `Except` level of `evalHypercube` (accepted configurations) -/
theorem lattice_eval_kernel_difference_quotient (form : LatticeEval.InputForm) (clipOn : Bool)
    (sizes : List Nat) (K x : List Rat) (j : Nat) (v v' : Rat) (hj : j < K.length)
    (hs : ∀ n ∈ sizes, 2 ≤ n) (hl : x.length = sizes.length) :
    ∃ a b, LatticeEval.evalHypercube form clipOn sizes (K.set j v) x = .ok a ∧
      LatticeEval.evalHypercube form clipOn sizes (K.set j v') x = .ok b ∧
      a - b = getR (LatticeEval.hypercubeWeights form clipOn sizes x) j * (v - v') :=
  ⟨_, _, C02.C02_T1_evalHypercube_ok form clipOn sizes _ x hs hl,
    C02.C02_T1_evalHypercube_ok form clipOn sizes _ x hs hl,
    lattice_kernel_difference_quotient form clipOn sizes K x j v v' hj⟩

/-- **C19/T2, Lattice: exact linearity in the kernel** (additivity and homogeneity). -/
theorem lattice_linear_in_kernel (form : LatticeEval.InputForm) (clipOn : Bool) (sizes : List Nat)
    (K K' x : List Rat) (c : Rat) (h : K.length = K'.length) :
    LatticeEval.hypercubeValue form clipOn sizes (List.zipWith (· + ·) K K') x
        = LatticeEval.hypercubeValue form clipOn sizes K x + LatticeEval.hypercubeValue form clipOn sizes K' x ∧
    LatticeEval.hypercubeValue form clipOn sizes (K.map (c * ·)) x
        = c * LatticeEval.hypercubeValue form clipOn sizes K x := by
  simp only [LatticeEval.hypercubeValue, latDot_eq]
  exact ⟨dot_add _ K K' h, dot_smul _ K c⟩

/-- **C19/T2, Lattice: the Jacobian row is a convex weight vector.** For in-range or clipped inputs
the kernel-independent weights are the row-major products of the 1-D hat weights of the (clipped)
point, are `≥ 0` and sum to one (from `C02_T1_weights`, `C02_T2_convex_weights`).
`C02.Defined` is needed and is the property's own scope: C19 says "non-negative, summing to one for
Lattice", which is the C02 convexity of the interpolation weights of "in-range or clipped inputs"; with
`clip_inputs=False` and a coordinate outside the range the layer extrapolates, the Jacobian row is
STILL the kernel-independent weight vector (`lattice_kernel_difference_quotient` has no such
hypothesis) but it is not convex: `jacobian_row_convex_needs_defined`. -/
theorem lattice_jacobian_row_convex (form : LatticeEval.InputForm) (clipOn : Bool) (sizes : List Nat)
    (x : List Rat) (hs : sizes ≠ []) (hs2 : ∀ n ∈ sizes, 2 ≤ n) (h : C02.Defined clipOn sizes x) :
    LatticeEval.hypercubeWeights form clipOn sizes x
        = (allIdx sizes).map (LatticeEval.prodW (C02.effPoint clipOn sizes x)) ∧
    (∀ j, 0 ≤ getR (LatticeEval.hypercubeWeights form clipOn sizes x) j) ∧
    rsum (LatticeEval.hypercubeWeights form clipOn sizes x) = 1 := by
  have hc := C02.C02_T2_convex_weights form clipOn sizes x hs hs2 h
  refine ⟨C02.C02_T1_weights form clipOn sizes x hs h.1 (h.2.elim Or.inl (fun r => Or.inr (Or.inl r))), ?_, hc.2⟩
  intro j
  unfold getR
  rcases Nat.lt_or_ge j (LatticeEval.hypercubeWeights form clipOn sizes x).length with hj | hj
  · have : (LatticeEval.hypercubeWeights form clipOn sizes x).getD j 0
        = (LatticeEval.hypercubeWeights form clipOn sizes x)[j] := by simp [List.getD_eq_getElem?_getD, hj]
    rw [this]; exact hc.1 _ (List.getElem_mem hj)
  · simp [List.getD_eq_getElem?_getD, hj]


/-! ### (a') Lattice, simplex interpolation -/

theorem dot_range_map : ∀ (K : List Rat) (f : Nat → Rat),
    dot ((List.range K.length).map f) K = LatticeEval.sumR K.length (fun j => f j * K.getD j 0)
  | [], f => by simp [dot, LatticeEval.sumR]
  | k :: K, f => by
    have ih := dot_range_map K (fun j => f (j + 1))
    simp only [LatticeEval.sumR] at ih ⊢
    simp only [List.length_cons, List.range_succ_eq_map, List.map_cons, List.map_map, dot, rsum,
      Function.comp_def, Nat.succ_eq_add_one]
    rw [ih]
    simp

/-- scatter-add of the weights `ws` at the (flat) gather indices `is`, over a kernel of length `n`:
entry `j` collects the weights of all gather positions that read kernel entry `j`. -/
def scatterW (n : Nat) (is : List Int) (ws : List Rat) : List Rat :=
  (List.range n).map (fun j => rsum ((is.zip ws).map (fun p => if p.1.toNat = j then p.2 else 0)))

/-- gather-then-dot = dot with the scattered weights: `Σ_k w_k·K[i_k] = Σ_j (Σ_{k : i_k = j} w_k)·K[j]` -/
theorem dot_gather_eq_dot_scatter (K : List Rat) : ∀ (is : List Int) (ws : List Rat),
    (∀ i ∈ is, i.toNat < K.length) →
    dot (is.map (fun i => K.getD i.toNat 0)) ws = dot (scatterW K.length is ws) K
  | [], ws, _ => by
    rw [scatterW, dot_range_map]
    simp [dot, LatticeEval.sumR_const_zero]
  | i :: is, [], _ => by
    rw [scatterW, dot_range_map]
    simp [dot, LatticeEval.sumR_const_zero]
  | i :: is, w :: ws, h => by
    have ih := dot_gather_eq_dot_scatter K is ws (fun j hj => h j (by simp [hj]))
    have hi : i.toNat < K.length := h i (by simp)
    rw [scatterW, dot_range_map] at ih ⊢
    simp only [List.map_cons, dot, List.zip_cons_cons, rsum]
    rw [ih]
    have e : ∀ j, j < K.length →
        ((if i.toNat = j then w else 0) +
            rsum ((is.zip ws).map (fun p => if p.1.toNat = j then p.2 else 0))) * K.getD j 0
          = (if j = i.toNat then 1 else 0) * (w * K.getD j 0)
            + rsum ((is.zip ws).map (fun p => if p.1.toNat = j then p.2 else 0)) * K.getD j 0 := by
      intro j _
      by_cases hj : i.toNat = j
      · simp [hj]; ring
      · have : ¬ j = i.toNat := fun e => hj e.symm
        simp [hj, this]
    rw [LatticeEval.sumR_congr _ _ _ e, LatticeEval.sumR_add,
      LatticeEval.sumR_ite _ _ hi (fun j => w * K.getD j 0)]
    ring

theorem scatterW_nonneg (n : Nat) (is : List Int) (ws : List Rat) (hw : ∀ w ∈ ws, 0 ≤ w) (j : Nat) :
    0 ≤ getR (scatterW n is ws) j := by
  unfold getR scatterW
  rcases Nat.lt_or_ge j n with hj | hj
  · have : ∀ (l : List (Int × Rat)), (∀ p ∈ l, 0 ≤ p.2) →
        0 ≤ rsum (l.map (fun p => if p.1.toNat = j then p.2 else 0)) := by
      intro l
      induction l with
      | nil => intro _; simp
      | cons p l ih =>
        intro hp
        have h1 := ih (fun q hq => hp q (by simp [hq]))
        have h2 := hp p (by simp)
        simp only [List.map_cons, rsum]
        split_ifs <;> linarith
    simp only [List.getD_eq_getElem?_getD, List.getElem?_map, List.getElem?_range hj, Option.map_some,
      Option.getD_some]
    exact this _ (fun p hp => hw _ (List.of_mem_zip hp).2)
  · simp [List.getD_eq_getElem?_getD, hj]

/-- the kernel-independent weight vector of `evaluate_with_simplex_interpolation` over a flat kernel
of length `n` (scatter of the `rank+1` simplex weights at the gather indices; both the gather
indices `sIndices` and the weights depend on the input point only) -/
def simplexKernelWeights (clipOn : Bool) (sizes : List Nat) (x : List Rat) (n : Nat) : List Rat :=
  scatterW n (C02.sIndices clipOn sizes x)
    (LatticeEval.simplexWeights ((C02.sSorted clipOn sizes x).map (·.1)))

/-- **C19/T2, Lattice (simplex).** Whenever the code does not raise (hyperparameters accepted, no
gather index outside the kernel), the simplex output is `dot W kernel` with the kernel-independent
vector `W = simplexKernelWeights …` (which depends on the kernel's LENGTH only). -/
theorem simplex_output_eq_dot_weights (clipOn : Bool) (sizes : List Nat) (kernel x : List Rat)
    (hv : LatticeEval.verify sizes x = true)
    (hb : ∀ i ∈ C02.sIndices clipOn sizes x, 0 ≤ i ∧ i.toNat < kernel.length) :
    LatticeEval.evalSimplex clipOn sizes kernel x
      = .ok (dot (simplexKernelWeights clipOn sizes x kernel.length) kernel) := by
  have h := LatticeEval.mapM_gatherAt_ok kernel _ hb
  unfold LatticeEval.evalSimplex
  simp only [hv, if_true]
  simp only [C02.sIndices, C02.sOffset, C02.sSorted, C02.sResid, C02.effPoint] at h
  rw [h]
  simp only [latDot_eq]
  have := dot_gather_eq_dot_scatter kernel (C02.sIndices clipOn sizes x)
    (LatticeEval.simplexWeights ((C02.sSorted clipOn sizes x).map (·.1))) (fun i hi => (hb i hi).2)
  simp only [C02.sIndices, C02.sOffset, C02.sSorted, C02.sResid, C02.effPoint] at this
  rw [simplexKernelWeights]
  simp only [C02.sIndices, C02.sOffset, C02.sSorted, C02.sResid, C02.effPoint]
  rw [this]


theorem dot_ones_left : ∀ (is : List Int) (ws : List Rat), ws.length ≤ is.length →
    dot (is.map (fun _ => (1 : Rat))) ws = rsum ws
  | _, [], _ => by cases ‹List Int› <;> simp [dot, rsum]
  | [], w :: ws, h => by simp at h
  | i :: is, w :: ws, h => by
    have := dot_ones_left is ws (by simpa using h)
    simp only [List.map_cons, dot, rsum, this]; ring

theorem rsum_scatterW (n : Nat) (is : List Int) (ws : List Rat) (hb : ∀ i ∈ is, i.toNat < n)
    (hl : ws.length ≤ is.length) : rsum (scatterW n is ws) = rsum ws := by
  have h1 := dot_replicate_one (scatterW n is ws) n (by simp [scatterW])
  have h2 := dot_gather_eq_dot_scatter (List.replicate n 1) is ws (by simpa using hb)
  simp only [List.length_replicate] at h2
  rw [← h1, ← h2, ← dot_ones_left is ws hl]
  congr 1
  apply List.map_congr_left
  intro i hi
  have := hb i hi
  simp [List.getD_eq_getElem?_getD, this]

theorem length_cumsumFrom (acc : Int) (l : List Int) : (LatticeEval.cumsumFrom acc l).length = l.length := by
  induction l generalizing acc with
  | nil => rfl
  | cons a l ih => simp [LatticeEval.cumsumFrom, ih]

/-- **C19/T2, Lattice (simplex): the Jacobian row is a convex weight vector.** For in-range or
clipped inputs whose gather indices stay inside a kernel of length `n` (otherwise the code raises),
the kernel-independent simplex weight vector is `≥ 0` and sums to one. (`C02.Defined` needed:
`jacobian_row_convex_needs_defined`; unclipped out-of-range points are outside the property.) -/
theorem simplex_jacobian_row_convex (clipOn : Bool) (sizes : List Nat) (x : List Rat) (n : Nat)
    (hs2 : ∀ m ∈ sizes, 2 ≤ m) (h : C02.Defined clipOn sizes x)
    (hb : ∀ i ∈ C02.sIndices clipOn sizes x, i.toNat < n) :
    (∀ j, 0 ≤ getR (simplexKernelWeights clipOn sizes x n) j) ∧
      rsum (simplexKernelWeights clipOn sizes x n) = 1 := by
  have hc := C02.C02_T3_simplex_weights clipOn sizes x hs2 h
  refine ⟨scatterW_nonneg _ _ _ hc.1, ?_⟩
  rw [simplexKernelWeights, rsum_scatterW _ _ _ hb, hc.2]
  simp [C02.sIndices, length_cumsumFrom, LatticeEval.simplexWeights]

/-- **Counter-witness: the convexity of the Jacobian row needs `C02.Defined`** (clip off and out of range
— outside the property). Hypercube, all-2 tensor path, `x = −1/2` on `[2]`: row `[3/2, −1/2]`; general
path, `x = (5/2, 1/4)` on `[3, 2]`: row `[0, 0, 0, 0, 3/8, 1/8]` (sum `1/2`); simplex at the same point: row
`[0, 0, −1/2, 0, 5/4, 1/4]`. The real layers' `GradientTape` Jacobians at these points are exactly these
rows (`[1.5, -0.5]`, `[0, 0, 0, 0, .375, .125]`, `[0, 0, -.5, 0, 1.25, .25]`; harness class
`outside:clip_off_out_of_range` of `c19.py` compares them on every run): "gradient = weights,
independent of the kernel" still holds there, "non-negative, summing to one" does not. -/
theorem jacobian_row_convex_needs_defined :
    LatticeEval.hypercubeWeights .tensor false [2] [-1/2] = [3/2, -1/2] ∧
    LatticeEval.hypercubeWeights .tensor false [3, 2] [5/2, 1/4] = [0, 0, 0, 0, 3/8, 1/8] ∧
    simplexKernelWeights false [3, 2] [5/2, 1/4] 6 = [0, 0, -1/2, 0, 5/4, 1/4] ∧
    (∀ i ∈ C02.sIndices false [3, 2] [5/2, 1/4], i.toNat < 6) ∧
    ¬ C02.Defined false [2] [-1/2] ∧ ¬ C02.Defined false [3, 2] [5/2, 1/4] := by
  refine ⟨by decide +kernel, by decide +kernel, by decide +kernel, by decide +kernel, ?_, ?_⟩
  · rintro ⟨-, h | h⟩
    · cases h
    · have := h.1.1; norm_num at this
  · rintro ⟨-, h | h⟩
    · cases h
    · have := h.1.2; norm_num at this

/-- `lattice_jacobian_row_convex` / `simplex_jacobian_row_convex` are FALSE with `C02.Defined` weakened to
the rank condition. -/
theorem jacobian_row_convex_false_without_defined :
    ¬ (∀ (form : LatticeEval.InputForm) (clipOn : Bool) (sizes : List Nat) (x : List Rat), sizes ≠ [] →
        (∀ n ∈ sizes, 2 ≤ n) → x.length = sizes.length →
        ∀ j, 0 ≤ getR (LatticeEval.hypercubeWeights form clipOn sizes x) j) ∧
    ¬ (∀ (clipOn : Bool) (sizes : List Nat) (x : List Rat) (n : Nat), (∀ m ∈ sizes, 2 ≤ m) →
        x.length = sizes.length → (∀ i ∈ C02.sIndices clipOn sizes x, i.toNat < n) →
        ∀ j, 0 ≤ getR (simplexKernelWeights clipOn sizes x n) j) := by
  constructor
  · intro h
    have := h .tensor false [2] [-1/2] (by simp) (by simp) rfl 1
    rw [jacobian_row_convex_needs_defined.1] at this
    norm_num [getR] at this
  · intro h
    have := h false [3, 2] [5/2, 1/4] 6 (by simp) rfl jacobian_row_convex_needs_defined.2.2.2.1 2
    rw [jacobian_row_convex_needs_defined.2.2.1] at this
    norm_num [getR] at this

/-- **C19/T2, Lattice (simplex): ∂out/∂K_j = W_j, whatever the kernel's value** (exact difference
quotient; `K.set` keeps the length, hence the same `W`). -/
theorem simplex_kernel_difference_quotient (clipOn : Bool) (sizes : List Nat) (K x : List Rat) (j : Nat)
    (v v' : Rat) (hj : j < K.length) (hv : LatticeEval.verify sizes x = true)
    (hb : ∀ i ∈ C02.sIndices clipOn sizes x, 0 ≤ i ∧ i.toNat < K.length) :
    ∃ a b, LatticeEval.evalSimplex clipOn sizes (K.set j v) x = .ok a ∧
      LatticeEval.evalSimplex clipOn sizes (K.set j v') x = .ok b ∧
      a - b = getR (simplexKernelWeights clipOn sizes x K.length) j * (v - v') := by
  have e1 := simplex_output_eq_dot_weights clipOn sizes (K.set j v) x hv (by simpa using hb)
  have e2 := simplex_output_eq_dot_weights clipOn sizes (K.set j v') x hv (by simpa using hb)
  rw [List.length_set] at e1 e2
  exact ⟨_, _, e1, e2, dot_set_sub _ K j v v' hj⟩


/-! ### (b) PWLCalibration -/

/-- the ramp weights of the pieces (`compute_interpolation_weights` without the leading bias `1`):
a function of the input, the keypoints and the (softmax) piece lengths only -/
def pwlRamps (cfg : PwlEval.Cfg) (ws : List Rat) (x : Rat) : List Rat :=
  List.zipWith (fun k l => PwlEval.ramp x k l) (PwlEval.interpKeypoints cfg ws) (PwlEval.lengths cfg ws)

/-- kernel-independent coefficient vector of `PWLCalibration.call`: `1` for the bias row, the ramp
weight for each height row; with `is_cyclic` the closing height `-Σ kernel[1:]` folds the last
ramp weight (with a minus sign) into every height row. -/
def pwlCoeffs (cfg : PwlEval.Cfg) (ws : List Rat) (x : Rat) : List Rat :=
  1 :: (if cfg.isCyclic then
          (pwlRamps cfg ws x).dropLast.map (fun r => r - (pwlRamps cfg ws x).getLastD 0)
        else pwlRamps cfg ws x)

theorem dot_append_singleton : ∀ (r t : List Rat) (l c : Rat), r.length = t.length →
    dot (r ++ [l]) (t ++ [c]) = dot r t + l * c
  | [], [], l, c, _ => by simp [dot]
  | [], _ :: _, _, _, h => by simp at h
  | _ :: _, [], _, _, h => by simp at h
  | a :: r, b :: t, l, c, h => by
    have := dot_append_singleton r t l c (by simpa using h)
    simp only [List.cons_append, dot, this]; ring

theorem dot_map_sub : ∀ (r t : List Rat) (l : Rat), r.length = t.length →
    dot (r.map (fun a => a - l)) t = dot r t - l * rsum t
  | [], [], l, _ => by simp [dot, rsum]
  | [], _ :: _, _, h => by simp at h
  | _ :: _, [], _, h => by simp at h
  | a :: r, b :: t, l, h => by
    have := dot_map_sub r t l (by simpa using h)
    simp only [List.map_cons, dot, rsum, this]; ring

theorem pwlRamps_length {cfg : PwlEval.Cfg} {kernel ws : List Rat} (h : PwlEval.WF cfg kernel ws) (x : Rat) :
    (pwlRamps cfg ws x).length + 1 = cfg.inputKeypoints.length := by
  have hl := PwlEval.lengths_length h
  simp [pwlRamps, PwlEval.interpKeypoints_eq h, PwlEval.length_cumsumExcl, hl]

/-- **C19/T2, PWLCalibration.** For every well-formed layer the calibration is
`dot (pwlCoeffs cfg ws x) kernel`: LINEAR in the kernel (bias row + height rows) with coefficients
that do not mention the kernel — `1` and the clipped ramp weights. -/
theorem pwl_output_eq_dot_coeffs {cfg : PwlEval.Cfg} {kernel ws : List Rat} (h : PwlEval.WF cfg kernel ws)
    (x : Rat) : PwlEval.calibrate cfg kernel ws x = dot (pwlCoeffs cfg ws x) kernel := by
  have hr := pwlRamps_length h x
  have hk := h.klen
  unfold PwlEval.calibrate PwlEval.interpWeights PwlEval.biasAndHeights pwlCoeffs
  rw [pwlDot_eq]
  change dot (1 :: pwlRamps cfg ws x) _ = _
  by_cases hc : cfg.isCyclic = true
  · simp only [hc, if_true] at hk ⊢
    cases kernel with
    | nil => simp at hk; have := h.two; omega
    | cons b t =>
      have hne : pwlRamps cfg ws x ≠ [] := by
        intro e; rw [e] at hr; simp at hr hk; omega
      have hsplit := List.dropLast_append_getLast hne
      have hlen : (pwlRamps cfg ws x).dropLast.length = t.length := by
        simp at hk ⊢; omega
      have hlast : (pwlRamps cfg ws x).getLastD 0 = (pwlRamps cfg ws x).getLast hne := by
        rw [List.getLastD_eq_getLast?, List.getLast?_eq_some_getLast hne]; rfl
      simp only [List.cons_append, dot, List.tail_cons]
      rw [hlast, dot_map_sub _ _ _ hlen]
      conv_lhs => rw [← hsplit]
      rw [dot_append_singleton _ _ _ _ hlen]
      ring
  · simp only [hc, if_false, Bool.false_eq_true]

/-- **C19/T2, PWLCalibration: ∂out/∂K_j = coefficient_j, whatever the kernel's value.** -/
theorem pwl_kernel_difference_quotient {cfg : PwlEval.Cfg} {K ws : List Rat} (h : PwlEval.WF cfg K ws)
    (x : Rat) (j : Nat) (v v' : Rat) (hj : j < K.length) :
    PwlEval.calibrate cfg (K.set j v) ws x - PwlEval.calibrate cfg (K.set j v') ws x
      = getR (pwlCoeffs cfg ws x) j * (v - v') := by
  have wf : ∀ u, PwlEval.WF cfg (K.set j u) ws := fun u =>
    ⟨h.two, h.incr, by simpa using h.klen, h.wlen, h.wpos, h.wsum⟩
  rw [pwl_output_eq_dot_coeffs (wf v), pwl_output_eq_dot_coeffs (wf v')]
  exact dot_set_sub _ K j v v' hj

/-- **C19/T2, PWLCalibration: the whole `call` is affine in the kernel.** With the missing-value
blend `m·missing_output + (1-m)·calibration` the kernel enters through `(1-m)·dot coeffs kernel`. -/
theorem pwl_call_affine_in_kernel {cfg : PwlEval.Cfg} {kernel ws : List Rat}
    (mo x : Rat) (isMissing : Option Rat) (r : Rat)
    (hc : PwlEval.call cfg kernel ws mo x isMissing = .ok r) :
    ∃ m : Rat, (∀ kernel', PwlEval.WF cfg kernel' ws →
        PwlEval.call cfg kernel' ws mo x isMissing
          = .ok (m * mo + (1 - m) * dot (pwlCoeffs cfg ws x) kernel')) := by
  unfold PwlEval.call at hc
  split_ifs at hc with h1 h2
  · cases isMissing with
    | some m =>
      refine ⟨m, fun k' hk' => ?_⟩
      rw [← pwl_output_eq_dot_coeffs hk']
      simp [PwlEval.call, h2]
    | none =>
      cases hv : cfg.missingInputValue with
      | none => simp [hv] at hc
      | some mv =>
        refine ⟨if x = mv then 1 else 0, fun k' hk' => ?_⟩
        rw [← pwl_output_eq_dot_coeffs hk']
        simp [PwlEval.call, h2, hv]
  · refine ⟨0, fun k' hk' => ?_⟩
    rw [← pwl_output_eq_dot_coeffs hk']
    have h2' : cfg.imputeMissing = false := by simpa using h2
    cases isMissing with
    | some m => simp [h2'] at h1
    | none => simp [PwlEval.call, h2']

/-- the ramp coefficients lie in `[0, 1]` (non-cyclic rows): clipped ramps -/
theorem pwlRamps_mem (cfg : PwlEval.Cfg) (ws : List Rat) (x : Rat) :
    ∀ r ∈ pwlRamps cfg ws x, 0 ≤ r ∧ r ≤ 1 := by
  intro r hr
  unfold pwlRamps at hr
  obtain ⟨i, hi, rfl⟩ := List.mem_iff_getElem.mp hr
  simp only [List.getElem_zipWith]
  exact ⟨PwlEval.ramp_nonneg _ _ _, PwlEval.ramp_le_one _ _ _⟩

/-! ### (c) CategoricalCalibration -/

/-- the row `CategoricalCalibration.call` looks up: the category itself, or the last bucket for
`default_input_value` — a function of the input and the number of buckets only -/
def catIndex (n : Nat) (default : Option Int) (x : Int) : Int :=
  match default with
  | some d => if x = d then (n : Int) - 1 else x
  | none => x

/-- the kernel-independent one-hot selector over `n` buckets (all zero for an out-of-range category) -/
def catSelector (n : Nat) (default : Option Int) (x : Int) : List Rat :=
  (List.range n).map (fun (j : Nat) => if (j : Int) = catIndex n default x then 1 else 0)

theorem dot_onehot (K : List Rat) (i : Int) :
    dot ((List.range K.length).map (fun (j : Nat) => if (j : Int) = i then (1 : Rat) else 0)) K
      = if 0 ≤ i ∧ i < K.length then getV K i.toNat else 0 := by
  rw [dot_range_map]
  split_ifs with h
  · have hi : i.toNat < K.length := by omega
    have e : ∀ j, j < K.length →
        (if (j : Int) = i then (1 : Rat) else 0) * K.getD j 0 = (if j = i.toNat then 1 else 0) * K.getD j 0 := by
      intro j _
      have : ((j : Int) = i) ↔ (j = i.toNat) := by omega
      simp [this]
    rw [LatticeEval.sumR_congr _ _ _ e, LatticeEval.sumR_ite _ _ hi]; rfl
  · have e : ∀ j, j < K.length → (if (j : Int) = i then (1 : Rat) else 0) * K.getD j 0 = 0 := by
      intro j hj
      have : ¬ ((j : Int) = i) := by omega
      simp [this]
    rw [LatticeEval.sumR_congr _ _ _ e, LatticeEval.sumR_const_zero]

/-- **C19/T2, CategoricalCalibration.** The output is `dot selector kernel` with the one-hot
(or zero) selector determined by the input alone: the kernel row selected does not depend on the
kernel's values; ∂out/∂K_j is `1` for the selected row and `0` elsewhere. -/
theorem categorical_output_eq_dot_selector (kernel : List Rat) (default : Option Int) (x : Int) :
    Categorical.call kernel default x = dot (catSelector kernel.length default x) kernel := by
  rw [catSelector, dot_onehot]
  rfl

/-- the selector is one-hot: entries are `0`/`1`, entry `j` is `1` exactly for the looked-up row -/
theorem catSelector_get (n : Nat) (default : Option Int) (x : Int) (j : Nat) (hj : j < n) :
    getR (catSelector n default x) j = if (j : Int) = catIndex n default x then 1 else 0 := by
  simp [getR, catSelector, List.getD_eq_getElem?_getD, hj]

/-- **C19/T2, CategoricalCalibration: exact difference quotient.** -/
theorem categorical_kernel_difference_quotient (K : List Rat) (default : Option Int) (x : Int) (j : Nat)
    (v v' : Rat) (hj : j < K.length) :
    Categorical.call (K.set j v) default x - Categorical.call (K.set j v') default x
      = (if (j : Int) = catIndex K.length default x then 1 else 0) * (v - v') := by
  rw [categorical_output_eq_dot_selector, categorical_output_eq_dot_selector]
  simp only [List.length_set]
  rw [dot_set_sub _ K j v v' hj, catSelector_get _ _ _ _ hj]


/-! ### non-vacuity of the real-model statements (kernel computation) -/

example : LatticeEval.hypercubeWeights .tensor false [3, 2] [3/2, 1/4] = [0, 0, 3/8, 1/8, 3/8, 1/8] := by
  decide +kernel
example : C02.Defined false [3, 2] [3/2, 1/4] :=
  ⟨rfl, Or.inr (by unfold LatticeEval.InRange LatticeEval.InRange LatticeEval.InRange; decide +kernel)⟩
example : simplexKernelWeights false [3, 2] [3/2, 1/4] 6 = [0, 0, 1/2, 0, 1/4, 1/4] := by decide +kernel
example : C02.sIndices false [3, 2] [3/2, 1/4] = [2, 4, 5] := by decide +kernel
example : LatticeEval.evalSimplex false [3, 2] [0, 5, 1, 5, 4, 7] [3/2, 1/4]
    = .ok (dot (simplexKernelWeights false [3, 2] [3/2, 1/4] 6) [0, 5, 1, 5, 4, 7]) := by decide +kernel
example : pwlCoeffs C05.exCfg [] 2 = [1, 1, 1/2, 0] := by decide +kernel
example : pwlCoeffs C05.exLearned [1/4, 1/2, 1/4] (7/2) = [1, 1/2, 1/2] := by decide +kernel
example : PwlEval.calibrate C05.exLearned [1, 2, -1] [1/4, 1/2, 1/4] (7/2)
    = dot (pwlCoeffs C05.exLearned [1/4, 1/2, 1/4] (7/2)) [1, 2, -1] := by decide +kernel
example : catSelector 3 (some (-1)) (-1) = [0, 0, 1] ∧ catSelector 3 (some (-1)) 1 = [0, 1, 0] ∧
    catSelector 3 (some (-1)) 5 = [0, 0, 0] := by decide +kernel

end Tfl.C19
