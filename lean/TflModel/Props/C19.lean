import TflModel.Lemmas.Kfl
/-!
# C19 — gradients delivered to training equal the true derivatives

T1: the factor `grad0 + grad1` that `custom_reduce_prod.grad_fn` multiplies the incoming gradient
with (`Tfl.Kfl.gradFactor`: `divide_no_nan` branch + single-zero branch) is the product of all the
other entries, for every list and every pattern of exact zeros, and that product IS the partial
derivative of the plain product (the product is affine in each entry with that slope).

T2: for Lattice / PWLCalibration / CategoricalCalibration the models of the other slices
(`Model/LatticeEval.lean`, `PwlEval.lean`) did not exist when this file was written, so T2 is stated
over an ABSTRACT weight vector: every one of these layers evaluates `out = dot w K` where `w` (the
interpolation weights of the example; `1 :: ramp weights` for PWL, one-hot for categorical) does not
depend on `K`; the harness ties each real layer's output and Jacobian to this form with weights
recomputed independently. Non-negativity / sum-to-one of the weights is proved here for the
1-D hat weights `Tfl.Kfl.interpWeights` only (Lattice's own weights belong to C02's model).
-/
namespace Tfl.C19
open Tfl Tfl.Kfl Tfl.Poset

/-- T1 (all zero patterns at once): the hand-written gradient factor equals `Π_{j≠i} t_j`. -/
theorem gradFactor_eq_prod_others (t : List Rat) (i : Nat) (hi : i < t.length) :
    gradFactor t i = rprod (t.eraseIdx i) := gradFactor_eq t i hi

/-- T1: the plain product is affine in entry `i` with slope `gradFactor t i` … -/
theorem prod_set_eq (t : List Rat) (i : Nat) (hi : i < t.length) (x : Rat) :
    rprod (t.set i x) = x * gradFactor t i := by
  rw [gradFactor_eq t i hi, rprod_set t i x hi]

/-- … hence `Π(t[i:=x]) − Π(t[i:=y]) = (x−y)·gradFactor t i` for all `x y`: the factor is the
partial derivative of `tf.reduce_prod` w.r.t. entry `i` (every difference quotient equals it). -/
theorem prod_difference_quotient (t : List Rat) (i : Nat) (hi : i < t.length) (x y : Rat) :
    rprod (t.set i x) - rprod (t.set i y) = (x - y) * gradFactor t i := by
  rw [prod_set_eq t i hi, prod_set_eq t i hi]; ring

/-- the value of `gradFactor t i` does not depend on `t_i` itself (as a derivative of an affine
function must not) -/
theorem gradFactor_set_self (t : List Rat) (i : Nat) (hi : i < t.length) (x : Rat) :
    gradFactor (t.set i x) i = gradFactor t i := by
  rw [gradFactor_eq _ i (by simpa using hi), gradFactor_eq t i hi, List.eraseIdx_set_eq]

/-- T1, branch "no zero": the factor is `fwd / t_i` -/
theorem gradFactor_no_zero (t : List Rat) (i : Nat) (hi : i < t.length) (h : getR t i ≠ 0) :
    gradFactor t i = rprod t / getR t i := by
  rw [gradFactor_eq t i hi, rprod_eraseIdx t i hi]; field_simp

/-- T1, branch "a zero somewhere else": the factor vanishes (one zero elsewhere, or several) -/
theorem gradFactor_zero_elsewhere (t : List Rat) (i : Nat) (hi : i < t.length)
    (h : numZeros (t.eraseIdx i) ≠ 0) : gradFactor t i = 0 := by
  rw [gradFactor_eq t i hi, rprod_of_numZeros_ne_zero _ h]

/-- T1, branch "the only zero is at `i`": the factor is `prod(t + is_zero)`, non-zero -/
theorem gradFactor_single_zero (t : List Rat) (i : Nat) (hi : i < t.length) (hz : getR t i = 0)
    (h : numZeros (t.eraseIdx i) = 0) : gradFactor t i = prodPlus t := by
  rw [gradFactor_eq t i hi, prodPlus_eraseIdx t i hi, hz, prodPlus_of_numZeros_eq_zero _ h]
  simp [isZero]

/-- the whole gradient row the driver prints -/
theorem gradFactors_get (t : List Rat) (i : Nat) (hi : i < t.length) :
    (gradFactors t).getD i 0 = rprod (t.eraseIdx i) := by
  simp [gradFactors, List.getD, hi, gradFactor_eq t i hi]

example : gradFactors [2, 0, 3] = [0, 6, 0] := by decide +kernel
example : gradFactors [0, 0, 3] = [0, 0, 0] := by decide +kernel
example : gradFactors [2, 5, 3] = [15, 6, 10] := by decide +kernel
example : gradFactors [0] = [1] := by decide +kernel

/-! ## T2: outputs are linear in the kernel, coefficient = interpolation weight -/

theorem dot_nil_right (w : List Rat) : dot w [] = 0 := by cases w <;> rfl

/-- `d out / d K_j = w_j` as an exact difference quotient, whatever the kernel is: the output
`dot w K` is affine in every kernel entry with slope the example's weight `w_j`
(`getR w j = 0` beyond the weight vector: such entries are never read). -/
theorem dot_set_sub : ∀ (w K : List Rat) (j : Nat) (v v' : Rat), j < K.length →
    dot w (K.set j v) - dot w (K.set j v') = getR w j * (v - v')
  | [], K, j, v, v', _ => by simp [dot, getR]
  | a :: w, [], j, v, v', h => by simp at h
  | a :: w, k :: K, 0, v, v', _ => by simp [dot, getR]; ring
  | a :: w, k :: K, j + 1, v, v', h => by
    have := dot_set_sub w K j v v' (by simpa using h)
    simp only [dot, getR, List.set_cons_succ, List.getD_cons_succ] at *
    linarith

/-- the slope does not depend on the kernel value: two kernels, same Jacobian entry -/
theorem dot_jacobian_independent_of_kernel (w K K' : List Rat) (j : Nat) (v v' : Rat)
    (h : j < K.length) (h' : j < K'.length) :
    dot w (K.set j v) - dot w (K.set j v') = dot w (K'.set j v) - dot w (K'.set j v') := by
  rw [dot_set_sub w K j v v' h, dot_set_sub w K' j v v' h']

/-- exact linearity: additivity and homogeneity in the kernel -/
theorem dot_add : ∀ (w K K' : List Rat), K.length = K'.length →
    dot w (List.zipWith (· + ·) K K') = dot w K + dot w K'
  | [], K, K', _ => by simp [dot]
  | a :: w, [], [], _ => by simp [dot]
  | a :: w, [], _ :: _, h => by simp at h
  | a :: w, _ :: _, [], h => by simp at h
  | a :: w, k :: K, k' :: K', h => by
    have := dot_add w K K' (by simpa using h)
    simp only [dot, List.zipWith_cons_cons] at *
    rw [this]; ring

theorem dot_smul : ∀ (w K : List Rat) (c : Rat), dot w (K.map (c * ·)) = c * dot w K
  | [], K, c => by simp [dot]
  | a :: w, [], c => by simp [dot]
  | a :: w, k :: K, c => by
    have := dot_smul w K c
    simp only [dot, List.map_cons] at *
    rw [this]; ring

example : dot [1/4, 3/4] ([10, 20].set 1 24) - dot [1/4, 3/4] ([10, 20].set 1 20) = 3/4 * (24 - 20) := by
  decide +kernel

end Tfl.C19
