import TflModel.Lemmas.InitializersKfl
import TflModel.Props.C07
/-!
# C10 — freshly built layers already satisfy their monotonicity and bound constraints

Model: `Model/Initializers.lean` (`Tfl.Init`): `default_init_params`, `_linspace`,
`linear_initializer`, `random_monotonic_initializer` (BFS level order, shuffles and the uniform
sample explicit), `create_kernel_initializer`, PWL `linear_initializer`, the KFL initialisers.
Tied to the code by `harness/props/c10.py` (ops `init.*`; the real draws are recorded).

* T1 `linear_init_*` — linear along monotone dimensions, valley / peak along unimodal ones, constant
  along the others, minimum = `init_min`, maximum = `init_max`; `default_init_params_spec`.
* T2 `random_monotonic_init_*` — sorted values gathered in level order are non-decreasing along
  EVERY axis and inside the range, for every shuffle of every level (hence every seed).
* T3 `pwl_init_*` — equal heights / equal slopes, from `init_min` up to `init_max` (down when decreasing).
* T4 `kfl_init_*` — the KFL initial kernel / scale / bias meet the premises of C07, hence a monotone
  function within the bounds.
* T5 `*_is_fixpoint`, `*_accepted` — for configurations with monotonicity and bound constraints only
  the strict finalisation + clip leave the initial kernel unchanged, and the model of
  `assert_constraints` (C12) accepts it.

Companions: `Props/C10Constraint.lean` (T5 for the WHOLE weight constraint `latticeConstraintT` — Dykstra
included, both modes, unimodal dimensions, any range inside the bounds; totality of the random-monotonic
model; explicit initialisation ranges and the findings F-C10-e/f), `Props/C10Pwl.lean` (PWL initialisers are
fixed points of `project_all_constraints`), `Props/C10Accepted.lean` (`LinWF` derived from acceptance).

Hypotheses are what the constructors enforce (`verify_hyperparameters`: sizes ≥ 2, unimodal
sizes ≥ 3, one entry per dimension, no dimension both monotone and unimodal, `init_min < init_max`).
Outside the statement (recorded as findings by the harness, see the report): categorical ordering
pairs, one-sided categorical bounds, the `random_uniform` fallback for all-feature joint
unimodalities, the Linear layer's default initialiser, trust / dominance constraints.
-/
namespace Tfl.C10
open Tfl Tfl.Lat Tfl.Init

/-! ## T1 — lattice linear initialisation -/

/-- `default_init_params`: the initialisation range takes the output bounds where they are given and
lies inside them; it is a non-empty interval `init_min ≤ init_max` (the constructors then reject
`init_min = init_max`, e.g. `output_min ≥ 1` or `output_max ≤ 0` alone). -/
theorem default_init_params_spec (omin omax : Option ℚ) (hb : ∀ a b, omin = some a → omax = some b → a ≤ b) :
    let r := defaultInitParams omin omax
    (∀ a, omin = some a → r.1 = a) ∧ (∀ b, omax = some b → r.2 = b) ∧ r.1 ≤ r.2 ∧
    (omin = none → omax = none → r = (0, 1)) := by
  intro r
  cases omin with
  | none =>
    cases omax with
    | none =>
      exact ⟨fun _ h => (by cases h), fun _ h => (by cases h), (by simp [r, defaultInitParams]), fun _ _ => rfl⟩
    | some b =>
      refine ⟨fun _ h => (by cases h), fun _ h => (by cases h; rfl), ?_, fun _ h => (by cases h)⟩
      simp only [r, defaultInitParams]; exact min_le_right _ _
  | some a =>
    cases omax with
    | none =>
      refine ⟨fun _ h => (by cases h; rfl), fun _ h => (by cases h), ?_, fun h => (by cases h)⟩
      simp only [r, defaultInitParams]; exact le_max_right _ _
    | some b =>
      exact ⟨fun _ h => (by cases h; rfl), fun _ h => (by cases h; rfl), hb a b rfl rfl, fun h => (by cases h)⟩

/-- **T1 (linear)**: along every monotone dimension of the initialiser (all dimensions when none is
constrained) the initial kernel has constant increments `dim_range / (size - 1)` — at every position of
the other coordinates. -/
theorem linear_init_linear_along_monotone (sizes : List Nat) (monos : List Bool) (unimods : List Int)
    (omin omax : ℚ) (idx : Idx) (hl : idx.length = sizes.length) (d : Nat) (hd : d < sizes.length)
    (hm : (effMonos sizes.length monos unimods).getD d false = true) (k : Nat) (hk : k + 1 < sizes.getD d 0) :
    linearInit sizes monos unimods omin omax (setc idx d (k + 1)) -
        linearInit sizes monos unimods omin omax (setc idx d k) =
      dimRange sizes.length monos unimods omin omax / ((sizes.getD d 0 : ℚ) - 1) := by
  rw [linearInit_setc_sub sizes monos unimods omin omax idx hl d hd]
  exact contrib_mono_step sizes monos unimods omin omax d k hm hk

/-- **T1 (valley / peak)**: along a unimodal dimension (valley `1`, peak `-1`; joint unimodalities are
folded into the vector by `create_kernel_initializer`) the initial kernel satisfies the layer's
unimodality constraint: for a valley, non-increasing on the pairs `k < size/2`, non-decreasing on
the pairs `k ≥ size/2`; reversed for a peak. -/
theorem linear_init_valley_peak_along_unimodal (sizes : List Nat) (monos : List Bool) (unimods : List Int)
    (omin omax : ℚ) (hlt : omin ≤ omax) (idx : Idx) (hl : idx.length = sizes.length) (d : Nat)
    (hd : d < sizes.length) (hm : (effMonos sizes.length monos unimods).getD d false = false)
    (hs : 3 ≤ sizes.getD d 0) (k : Nat) (hk : k + 1 < sizes.getD d 0) :
    let w := linearInit sizes monos unimods omin omax
    (unimods.getD d 0 = 1 →
      (k < sizes.getD d 0 / 2 → w (setc idx d (k + 1)) ≤ w (setc idx d k)) ∧
      (sizes.getD d 0 / 2 ≤ k → w (setc idx d k) ≤ w (setc idx d (k + 1)))) ∧
    (unimods.getD d 0 = -1 →
      (k < sizes.getD d 0 / 2 → w (setc idx d k) ≤ w (setc idx d (k + 1))) ∧
      (sizes.getD d 0 / 2 ≤ k → w (setc idx d (k + 1)) ≤ w (setc idx d k))) :=
  linearInit_unimodal_axis sizes monos unimods omin omax hlt idx hl d hd hm hs k hk

/-- the valley profile itself: `dim_range` at both ends of the dimension, `0` at the bottom -/
theorem valley_profile_ends (R : ℚ) (s : Nat) (hs : 3 ≤ s) :
    getR (oneD false 1 R s) 0 = R ∧ getR (oneD false 1 R s) ((s + 1) / 2 - 1) = 0 ∧
    getR (oneD false (-1) R s) 0 = 0 ∧ getR (oneD false (-1) R s) ((s + 1) / 2 - 1) = R := by
  rw [oneD_valley, oneD_peak]
  refine ⟨valley_first R s hs, valley_bottom R s hs, ?_, ?_⟩
  · rw [getR_peak_eq R s 0 hs (by omega), valley_first R s hs]; ring
  · rw [getR_peak_eq R s _ hs (by omega), valley_bottom R s hs]; ring

/-- **T1 (constant)**: along a dimension that is neither monotone nor unimodal the initial kernel is
constant. -/
theorem linear_init_constant_along_others (sizes : List Nat) (monos : List Bool) (unimods : List Int)
    (omin omax : ℚ) (idx : Idx) (hl : idx.length = sizes.length) (d : Nat) (hd : d < sizes.length)
    (hm : (effMonos sizes.length monos unimods).getD d false = false) (hu : unimods.getD d 0 = 0) (v v' : Nat) :
    linearInit sizes monos unimods omin omax (setc idx d v) = linearInit sizes monos unimods omin omax (setc idx d v') := by
  have := linearInit_setc_sub sizes monos unimods omin omax idx hl d hd v v'
  rw [contrib_free sizes monos unimods omin omax d v hm hu, contrib_free sizes monos unimods omin omax d v' hm hu] at this
  linarith

/-- **T1 (range)**: the minimum of the initial kernel over the lattice is `init_min`, the maximum is
`init_max`, both attained. -/
theorem linear_init_min_max (sizes : List Nat) (monos : List Bool) (unimods : List Int) (omin omax : ℚ)
    (h : LinWF sizes monos unimods) (hlt : omin ≤ omax) :
    (∀ idx, InRange sizes idx →
      omin ≤ linearInit sizes monos unimods omin omax idx ∧ linearInit sizes monos unimods omin omax idx ≤ omax) ∧
    (∃ idx, InRange sizes idx ∧ linearInit sizes monos unimods omin omax idx = omin) ∧
    (∃ idx, InRange sizes idx ∧ linearInit sizes monos unimods omin omax idx = omax) :=
  linearInit_min_max sizes monos unimods omin omax h hlt

/-- what a `tfl.layers.Lattice` gets by default: the linear initialiser with the layer's
monotonicities, the range of `default_init_params`, and unimodalities incl. the joint groups —
unless ONE joint group covers all features (then Keras `random_uniform`: finding F-C10-b). -/
theorem default_lattice_initializer (n : Nat) (monos : List Bool) (omin omax : Option ℚ) (unimods : List Int)
    (joint : List (List Nat × Int)) (hj : jointContainsAll n joint = false) :
    createKernelInitializer .randomUniformOrLinear n monos omin omax unimods joint none none =
      .ok (.linear monos (defaultInitParams omin omax).1 (defaultInitParams omin omax).2
        (allUnimodalities n unimods joint)) := by
  simp [createKernelInitializer, hj]

/-! ## T2 — random monotonic initialisation -/

/-- **T2**: whatever `np.random.shuffle` does inside every BFS level (`perms`) and whatever
`tf.random.uniform` draws from `[init_min, init_max]` (`sample`), the initial kernel is non-decreasing
along EVERY dimension and every weight lies in `[init_min, init_max]`. -/
theorem random_monotonic_init_monotone_and_in_range (sizes : List Nat) (hpos : ∀ s ∈ sizes, 0 < s)
    (perms : List (List Idx)) (sample : List ℚ) (lo hi : ℚ) (hs : ∀ v ∈ sample, lo ≤ v ∧ v ≤ hi) (w : W)
    (h : randomMonotonicInit sizes perms sample = .ok w) :
    (∀ d, MonoAx sizes d w) ∧ (∀ idx, InRange sizes idx → lo ≤ w idx ∧ w idx ≤ hi) := by
  unfold randomMonotonicInit at h
  split at h
  · cases h
  · rename_i order ho
    split at h
    · rename_i hlen
      have hw : w = rmWeights order sample := by cases h; rfl
      subst hw
      have hlo := rmOrder_levelOrder sizes hpos perms order ho
      exact ⟨fun d => rmWeights_monoAx sizes order sample hlo (le_of_eq hlen) d,
        fun idx hr => rmWeights_range sizes order sample hlo (le_of_eq hlen) lo hi hs idx hr⟩
    · cases h

/-- the same for ANY way of numbering the vertices level by level (level = coordinate sum): this is the
statement "for every permutation within levels" without reference to the loop. -/
theorem level_order_gives_monotone (sizes : List Nat) (order : List Idx) (sample : List ℚ)
    (ho : LevelOrder sizes order) (hlen : order.length ≤ sample.length) (d : Nat) :
    MonoAx sizes d (rmWeights order sample) := rmWeights_monoAx sizes order sample ho hlen d

/-! ## T3 — PWL initialisers -/

/-- the initialisation bounds `PWLCalibration` derives lie inside the output bounds -/
theorem pwl_init_bounds_spec (omin omax : Option ℚ) (hb : ∀ a b, omin = some a → omax = some b → a ≤ b) :
    let r := pwlInitBounds omin omax
    r.1 ≤ r.2 ∧ (∀ a, omin = some a → a ≤ r.1) ∧ (∀ b, omax = some b → r.2 ≤ b) := by
  intro r
  cases omin with
  | none =>
    cases omax with
    | none => exact ⟨le_refl _, fun _ h => (by cases h), fun _ h => (by cases h)⟩
    | some b => exact ⟨le_refl _, fun _ h => (by cases h), fun _ h => (by cases h; exact le_refl _)⟩
  | some a =>
    cases omax with
    | none => exact ⟨le_refl _, fun _ h => (by cases h; exact le_refl _), fun _ h => (by cases h)⟩
    | some b =>
      exact ⟨hb a b rfl rfl, fun _ h => (by cases h; exact le_refl _), fun _ h => (by cases h; exact le_refl _)⟩

/-- **T3, equal heights** (`keypoints=None`): the bias is `init_min`, the `num_keypoints - 1` heights are
all `(init_max - init_min)/(num_keypoints - 1) ≥ 0` and the last output `bias + Σ heights` is `init_max`;
with `monotonicity = -1` the bias is `init_max`, every height is negated and the last output is `init_min`. -/
theorem pwl_init_equal_heights (nk : Nat) (hnk : 2 ≤ nk) (omin omax : ℚ) (hlt : omin ≤ omax) (mono : Int) :
    let inc := (pwlLinearInit nk omin omax 1 none).2
    (inc.length = nk - 1 ∧ (∀ h ∈ inc, h = (omax - omin) / ((nk - 1 : ℕ) : ℚ)) ∧ ∀ h ∈ inc, 0 ≤ h) ∧
    (mono ≠ -1 → pwlLinearInit nk omin omax mono none = (omin, inc) ∧ omin + rsum inc = omax) ∧
    (mono = -1 → pwlLinearInit nk omin omax mono none = (omax, inc.map (fun h => -h)) ∧
      omax + rsum (inc.map (fun h => -h)) = omin) := by
  intro inc
  obtain ⟨h1, h2, h3, h4⟩ := pwl_equal_heights nk hnk omin omax hlt
  refine ⟨⟨h1, h2, h4⟩, fun hm => ⟨pwlLinearInit_inc nk omin omax mono hm none, ?_⟩, fun hm => ?_⟩
  · show omin + rsum (pwlLinearInit nk omin omax 1 none).2 = omax
    rw [h3]; ring
  · subst hm
    refine ⟨pwlLinearInit_dec nk omin omax none, ?_⟩
    show omax + rsum ((pwlLinearInit nk omin omax 1 none).2.map (fun h => -h)) = omin
    rw [rsum_map_neg, h3]; ring

/-- **T3, equal slopes** (`keypoints` given, strictly increasing): height `i` is `length_i · c` for one
constant `c ≥ 0` (equal slopes), the outputs run from `init_min` to `init_max`; decreasing: negated,
from `init_max` down to `init_min`. -/
theorem pwl_init_equal_slopes (nk : Nat) (omin omax : ℚ) (hlt : omin ≤ omax) (mono : Int) (kp : List ℚ)
    (hpos : ∀ l ∈ diffs kp, 0 < l) (hne : diffs kp ≠ []) :
    let inc := (pwlLinearInit nk omin omax 1 (some kp)).2
    (inc = (diffs kp).map (fun l => l * ((omax - omin) / rsum (diffs kp))) ∧ ∀ h ∈ inc, 0 ≤ h) ∧
    (mono ≠ -1 → pwlLinearInit nk omin omax mono (some kp) = (omin, inc) ∧ omin + rsum inc = omax) ∧
    (mono = -1 → pwlLinearInit nk omin omax mono (some kp) = (omax, inc.map (fun h => -h)) ∧
      omax + rsum (inc.map (fun h => -h)) = omin) := by
  intro inc
  obtain ⟨h1, h3, h4⟩ := pwl_equal_slopes nk omin omax hlt kp hpos hne
  refine ⟨⟨h1, h4⟩, fun hm => ⟨pwlLinearInit_inc nk omin omax mono hm (some kp), ?_⟩, fun hm => ?_⟩
  · show omin + rsum (pwlLinearInit nk omin omax 1 (some kp)).2 = omax
    rw [h3]; ring
  · subst hm
    refine ⟨pwlLinearInit_dec nk omin omax (some kp), ?_⟩
    show omax + rsum ((pwlLinearInit nk omin omax 1 (some kp)).2.map (fun h => -h)) = omin
    rw [rsum_map_neg, h3]; ring

/-! ## T4 — KFL -/

/-- **T4**: kernel from `kfl_random_monotonic_initializer` (any uniform draws from the range of
`default_init_params`, sorted along monotone dimensions in the direction of `sign(scale)`), scale from
`scale_initializer`: the premises `KOk` / `SOk` of C07 hold right after construction. -/
theorem kfl_init_meets_C07_premises (L : Nat) (ms : List Bool) (olo ohi : Option ℚ)
    (hlh : ∀ l h, olo = some l → ohi = some h → l ≤ h) (T : Nat) (samples : List (List (List ℚ)))
    (hs : ∀ smp ∈ samples, SamplesOk L ms (kflDefaultInitParams olo ohi).1 (kflDefaultInitParams olo ohi).2 smp) :
    Tfl.Kfl.KOk L ms olo ohi ⟨kflInit ms (scaleInit T olo ohi) samples, scaleInit T olo ohi⟩ ∧
    Tfl.Kfl.SOk olo ohi (scaleInit T olo ohi) := by
  have h0 : 0 ≤ (kflDefaultInitParams olo ohi).1 := by
    cases olo <;> cases ohi <;> simp [kflDefaultInitParams]
  exact ⟨⟨fun hany => kernelOk_kflInit L ms hany _ _ h0 _ samples hs, boundOkK_kflInit L ms olo ohi _ samples hs⟩,
    sOk_scaleInit T olo ohi hlh⟩

/-- **T4, consequence** (through C07's T1/T3): the freshly built KFL layer is non-decreasing in every
monotone input and its outputs lie within `[output_min, output_max]`. -/
theorem kfl_init_monotone_and_bounded (L : Nat) (hL : 1 ≤ L) (clipI : Bool) (ms : List Bool) (olo ohi : Option ℚ)
    (hlh : ∀ l h, olo = some l → ohi = some h → l ≤ h) (T : Nat) (samples : List (List (List ℚ)))
    (hs : ∀ smp ∈ samples, SamplesOk L ms (kflDefaultInitParams olo ohi).1 (kflDefaultInitParams olo ohi).2 smp)
    (xs : List ℚ) (hx : ∀ x ∈ xs, Tfl.Kfl.InR L clipI x) :
    let K := kflInit ms (scaleInit T olo ohi) samples
    let sc := scaleInit T olo ohi
    (∀ d y, ms.getD d false = true → Tfl.Kfl.InR L clipI y → getR xs d ≤ y →
      Tfl.Kfl.eval L clipI K sc (biasInit olo ohi) xs ≤ Tfl.Kfl.eval L clipI K sc (biasInit olo ohi) (xs.set d y)) ∧
    ((∀ kt ∈ K, xs.length = kt.length) →
      (∀ l, olo = some l → l ≤ Tfl.Kfl.eval L clipI K sc (biasInit olo ohi) xs) ∧
      (∀ h, ohi = some h → Tfl.Kfl.eval L clipI K sc (biasInit olo ohi) xs ≤ h)) := by
  intro K sc
  obtain ⟨hK, hS⟩ := kfl_init_meets_C07_premises L ms olo ohi hlh T samples hs
  refine ⟨fun d y hm hy hxy => ?_, fun hdims => ?_⟩
  · exact Tfl.C07.output_monotone L hL clipI ms d xs y hm hx hy hxy sc K _ (hK.1 (Tfl.C07.any_of_getD ms d hm))
  · exact Tfl.C07.output_bounded L hL clipI olo ohi hlh xs hx sc K hdims hK.2 hS

/-! ## T5 — the weight constraint leaves the initial kernel unchanged -/

/-- **T5 (generic)**: configuration with monotonicity and bound constraints only; a kernel monotone along
the monotone dimensions and inside the bounds is a fixpoint of strict finalisation + clip. -/
theorem monotone_inbounds_is_fixpoint (c : Cfg) (hnt : c.edgeworth = [] ∧ c.trapezoid = []) (w : W)
    (hmono : ∀ d, d < c.sizes.length → c.mono.getD d false = true → MonoAx c.sizes d w)
    (hb : ∀ idx, InRange c.sizes idx → (∀ l, c.lo = some l → l ≤ w idx) ∧ (∀ h, c.hi = some h → w idx ≤ h)) :
    AgreeOn c.sizes (clipBounds c.lo c.hi (finalize c w)) w := constraint_fixpoint c hnt w hmono hb

/-- monotone dimensions of the linear initialiser really are non-decreasing -/
theorem linear_init_monoAx (sizes : List Nat) (monos : List Bool) (unimods : List Int) (omin omax : ℚ)
    (hlt : omin ≤ omax) (d : Nat) (hm : (effMonos sizes.length monos unimods).getD d false = true) :
    MonoAx sizes d (linearInit sizes monos unimods omin omax) := by
  intro idx hr hd hk
  have hl := hr.1
  have h1 := linear_init_linear_along_monotone sizes monos unimods omin omax idx hl d hd hm (coord idx d) hk
  rw [setc_coord_self (by rw [hl]; exact hd)] at h1
  have hR := dimRange_nonneg sizes monos unimods omin omax hlt
  have hs : (0 : ℚ) ≤ ((sizes.getD d 0 : ℕ) : ℚ) - 1 := by
    have : (1 : ℚ) ≤ ((sizes.getD d 0 : ℕ) : ℚ) := by exact_mod_cast (by omega : 1 ≤ sizes.getD d 0)
    linarith
  have := div_nonneg hR hs
  linarith

/-- **T5 (linear initialisation)**: a `Lattice` with monotonicities and bounds only (no unimodalities, no
trusts), built with the default linear initialiser on the range `default_init_params(output_min,
output_max)`: strict finalisation + clip return the initial kernel on every vertex. -/
theorem linear_init_is_fixpoint (c : Cfg) (hnt : c.edgeworth = [] ∧ c.trapezoid = [])
    (hwf : LinWF c.sizes c.mono (List.replicate c.sizes.length 0))
    (hb : ∀ a b, c.lo = some a → c.hi = some b → a ≤ b) :
    let r := defaultInitParams c.lo c.hi
    let init := linearInit c.sizes c.mono (List.replicate c.sizes.length 0) r.1 r.2
    AgreeOn c.sizes (clipBounds c.lo c.hi (finalize c init)) init := by
  intro r init
  obtain ⟨h1, h2, h3, _⟩ := default_init_params_spec c.lo c.hi hb
  apply constraint_fixpoint c hnt
  · intro d _ hm
    apply linear_init_monoAx c.sizes c.mono _ r.1 r.2 h3 d
    -- a monotone dimension of the layer is a monotone dimension of the initialiser
    unfold effMonos
    split
    · rename_i h0
      have hd : d < c.sizes.length := by assumption
      simp [List.getD_eq_getElem?_getD, hd]
    · exact hm
  · intro idx hr
    have := (linearInit_min_max c.sizes c.mono _ r.1 r.2 hwf h3).1 idx hr
    exact ⟨fun l hl => by rw [← h1 l hl]; exact this.1, fun h hh => by rw [← h2 h hh]; exact this.2⟩

/-- **T5 (random monotonic initialisation)**, monotonicity + bounds only: fixpoint as well -/
theorem random_monotonic_init_is_fixpoint (c : Cfg) (hnt : c.edgeworth = [] ∧ c.trapezoid = [])
    (hpos : ∀ s ∈ c.sizes, 0 < s) (hb : ∀ a b, c.lo = some a → c.hi = some b → a ≤ b)
    (perms : List (List Idx)) (sample : List ℚ)
    (hs : ∀ v ∈ sample, (defaultInitParams c.lo c.hi).1 ≤ v ∧ v ≤ (defaultInitParams c.lo c.hi).2) (w : W)
    (h : randomMonotonicInit c.sizes perms sample = .ok w) :
    AgreeOn c.sizes (clipBounds c.lo c.hi (finalize c w)) w := by
  obtain ⟨h1, h2, _, _⟩ := default_init_params_spec c.lo c.hi hb
  obtain ⟨hm, hr⟩ := random_monotonic_init_monotone_and_in_range c.sizes hpos perms sample _ _ hs w h
  exact constraint_fixpoint c hnt w (fun d _ _ => hm d)
    (fun idx hi => ⟨fun l hl => by rw [← h1 l hl]; exact (hr idx hi).1, fun hh hhh => by rw [← h2 hh hhh]; exact (hr idx hi).2⟩)

/-- **T5 (assert_constraints)**: the model of `lattice_lib.assert_constraints` (C12's `acceptsLatticeW`)
accepts every kernel that is monotone along the monotone dimensions and inside the bounds — in
particular both initialisations above — for every `eps ≥ 0`. -/
theorem monotone_inbounds_accepted (sizes : List Nat) (monos : List Int) (lo hi : Option ℚ) (w : W) (eps : ℚ)
    (heps : 0 ≤ eps) (hml : monos.length ≤ sizes.length)
    (hmono : ∀ d, d < sizes.length → monos.getD d 0 = 1 → MonoAx sizes d w)
    (hb : ∀ idx, InRange sizes idx → (∀ l, lo = some l → l ≤ w idx) ∧ (∀ h, hi = some h → w idx ≤ h)) :
    Tfl.Asserts.acceptsLatticeW ⟨sizes, monos, [], [], [], [], [], lo, hi⟩ w eps = true :=
  accepts_monotone_inbounds sizes monos lo hi w eps heps hmono hml hb

/-! ## non-vacuity -/

/-- a 3×3×2 lattice: dimension 0 monotone, dimension 1 a valley, dimension 2 free; range [-1, 3] -/
example : LinWF [3, 3, 2] [true, false, false] [0, 1, 0] where
  rank_pos := by decide
  sizes_ge := by intro d hd; have : d = 0 ∨ d = 1 ∨ d = 2 := by simp at hd; omega
                 rcases this with rfl | rfl | rfl <;> decide
  mono_len := rfl
  unimod_len := rfl
  unimod_val := by
    intro d hd hu
    have : d = 0 ∨ d = 1 ∨ d = 2 := by simp at hd; omega
    rcases this with rfl | rfl | rfl
    · exact absurd rfl hu
    · exact ⟨Or.inl rfl, by decide⟩
    · exact absurd rfl hu
  not_both := by
    intro d ⟨h1, h2⟩
    match d with
    | 0 => exact h2 rfl
    | 1 => simp at h1
    | 2 => simp at h1
    | n + 3 => simp at h1

/-- … and its initial kernel: linear (steps of 1) along dimension 0, valley 2,0,2 along dimension 1,
constant along dimension 2; minimum -1, maximum 3 -/
example : Table.vals [3, 3, 2] (linearInitT [3, 3, 2] [true, false, false] [0, 1, 0] (-1) 3) =
    [1, 1, -1, -1, 1, 1, 2, 2, 0, 0, 2, 2, 3, 3, 1, 1, 3, 3] := by decide +kernel

/-- the BFS order of a 2×3 lattice for one choice of shuffles, and a rejected one (levels swapped) -/
example : rmOrder [2, 3] [[[1, 0], [0, 1]], [[0, 2], [1, 1]], [[1, 2]]] =
    .ok [[0, 0], [1, 0], [0, 1], [0, 2], [1, 1], [1, 2]] := by decide +kernel
example : rmOrder [2, 3] [[[0, 2], [1, 1]], [[1, 0], [0, 1]], [[1, 2]]] = .error .other := by decide +kernel
example : (randomMonotonicInitT [2, 3] [[[1, 0], [0, 1]], [[0, 2], [1, 1]], [[1, 2]]] [5, 1, 4, 2, 6, 3]).map
    (Table.vals [2, 3]) = .ok [1, 3, 4, 2, 5, 6] := by decide +kernel

/-- KFL draws meeting `SamplesOk`, and the kernel they give for a negative scale (sorted DEcreasingly) -/
example : SamplesOk 3 [true, false] 0 1 [[1/2, 1/4, 1], [1/3, 1, 0]] :=
  ⟨rfl, by
    intro col hc
    simp only [List.mem_cons, List.not_mem_nil, or_false] at hc
    rcases hc with rfl | rfl
    · refine ⟨rfl, fun x hx => ?_⟩
      simp only [List.mem_cons, List.not_mem_nil, or_false] at hx
      rcases hx with rfl | rfl | rfl <;> norm_num
    · refine ⟨rfl, fun x hx => ?_⟩
      simp only [List.mem_cons, List.not_mem_nil, or_false] at hx
      rcases hx with rfl | rfl | rfl <;> norm_num⟩
example : kflInitTerm [true, false] (-2) [[1/2, 1/4, 1], [1/3, 1, 0]] = [[1, 1/2, 1/4], [1/3, 1, 0]] := by
  decide +kernel

/-- the initialisers that the findings are about do NOT satisfy the premises: a linear lattice
initialisation with dimensions of different size violates monotonic dominance of the shorter
dimension's partner (F-C10-d): slope 1/2 along dimension 1 (size 3) < slope 1 along dimension 0 (size 2)
although dimension 1 is declared dominant. -/
theorem linear_init_ignores_dominance :
    (linearInitT [2, 3] [true, true] [0, 0] 0 2).get [0, 1] - (linearInitT [2, 3] [true, true] [0, 0] 0 2).get [0, 0] <
    (linearInitT [2, 3] [true, true] [0, 0] 0 2).get [1, 0] - (linearInitT [2, 3] [true, true] [0, 0] 0 2).get [0, 0] := by
  decide +kernel

end Tfl.C10
