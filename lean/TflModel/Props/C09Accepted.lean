import TflModel.Props.C09Units
import TflModel.Props.C01Accepted
/-!
# C09 for ACCEPTED configurations: `CfgShape` and `DCfgWF` are discharged

The per-unit theorems of `Props/C09.lean` assume `CfgShape` (finalisation) and `DCfgWF` (Dykstra /
whole constraint): list lengths and index ranges. Both follow from acceptance by
`lattice_lib.verify_hyperparameters` (`Tfl.Verify.verifyLattice`, tied to the real constructors by C16).
-/
namespace Tfl.C09
open Tfl Tfl.Lat Tfl.Units Tfl.Verify

/-- **accepted ⇒ `CfgShape`** for the finalisation configuration `c.toLat` -/
theorem accepted_cfgShape (r : RawLatFull) (c : LatCfg) (h : verifyLattice r = .ok c) : CfgShape c.toLat := by
  obtain ⟨mu, _, _, hmu, _, hm, _, _, _, _⟩ := verifyLattice_parts h
  obtain ⟨_, _, hml, _⟩ := verifyShape_spec hmu
  refine ⟨?_, fun tr htr => ?_⟩
  · simp only [LatCfg.toLat, List.length_map]
    cases hc : c.mono with
    | none => simp
    | some l => rw [hm] at hc; simp [hml l hc]
  · have := ((Tfl.C01.accepted_cfgWFd r c h).trust_wf tr htr).1
    exact ⟨this.1, this.2.1⟩

/-- **accepted ⇒ `DCfgWF`** for every Dykstra configuration `d` that carries the accepted one: same
sizes / monotonicities / trusts as `c.toLat`, the accepted dominance and joint-monotonicity pairs, a
unimodality vector of at most rank length and joint-unimodality dimensions inside the rank (the two
last are what `verifyShape` / `verifyJU` check: `Tfl.C16.juLoop_range`). -/
theorem accepted_dcfgWF (r : RawLatFull) (c : LatCfg) (h : verifyLattice r = .ok c) (d : DCfg)
    (hs : d.sizes = c.toLat.sizes) (hm : d.mono = c.toLat.mono) (he : d.edgeworth = c.toLat.edgeworth)
    (ht : d.trapezoid = c.toLat.trapezoid) (hmd : d.monoDom = c.md) (hrd : d.rangeDom = c.rd)
    (hjm : d.jointMono = c.jm) (hul : d.unimod.length ≤ d.sizes.length)
    (hju : ∀ ju ∈ d.jointUnimod, ∀ k ∈ ju.dims, k < d.sizes.length) : DCfgWF d := by
  have hshape := accepted_cfgShape r c h
  obtain ⟨hd1, hd2⟩ := verifyLattice_doms h
  have hlen : c.toLat.sizes.length = c.sizes.length := by simp [LatCfg.toLat]
  refine ⟨by rw [hs, hm]; exact hshape.mono_len, hul, ?_, ?_, hju⟩
  · rw [he, ht, hs]; exact hshape.trusts
  · intro p hp
    rw [hs, hlen]
    rcases List.mem_append.mp hp with e | e
    · rw [hmd, hrd] at e
      exact ⟨(hd1 p e).1, (hd1 p e).2.1⟩
    · rw [hjm] at e
      exact ⟨(hd2 p e).1, (hd2 p e).2.1⟩

/-- **T1, `finalize_constraints`, accepted configurations, executables** -/
theorem accepted_finalizeUT_per_unit (r : RawLatFull) (c : LatCfg) (h : verifyLattice r = .ok c)
    (units u : Nat) (hu : u < units) (t t1 : Table)
    (ht : ∀ idx, InRange c.toLat.sizes idx → t.get (idx ++ [u]) = t1.get idx) :
    ∀ idx, InRange c.toLat.sizes idx →
      (finalizeUT c.toLat units t).get (idx ++ [u]) = (finalizeT c.toLat t1).get idx :=
  finalizeUT_per_unit c.toLat (accepted_cfgShape r c h)
    (fun tr htr => by have := ((Tfl.C01.accepted_mixed_structural r c h).1 tr htr).1; omega) units u hu t t1 ht

end Tfl.C09
