import TflModel.Props.C12Bridge
import TflModel.Props.C12Units
import TflModel.Props.C07
/-!
# C12 — `accepts … eps` ⇔ the eps-relaxed FEASIBLE SET of the projection properties

Closes (for PWL with clamps, for every tolerance `eps`, and for KFL) the DESIGN §8 limit "C12: no
bridge between `accepts` and the feasibility predicates for … KFL, PWL clamps and for any eps > 0".

For every layer kind treated here there are three statements:

* `…FeasibleEps` — the eps-relaxed feasible set, written in the vocabulary of the PROJECTION property
  (C04: heights / keypoint outputs / clamped end points; C06: `Poset` pairs; C08: `FeasibleD`;
  C07: `KernelOk` / `BoundOkK` / `SOk`), every inequality relaxed by `eps` exactly where the real
  assertion carries an `eps`;
* `…_eps_iff` — for EVERY `eps` (also 0 and negative), every size: `accepts … eps = true ↔ …FeasibleEps … eps`
  (both directions);
* `…FeasibleEps_zero_iff…` — at `eps = 0` the relaxed set IS the exact feasibility predicate of the
  projection theorems; hence `…_zero_iff_…` and the composition corollaries
  "what the projection returns is accepted at `eps = 0`" / "what is accepted at `eps = 0` is a fixed point".

Where the real assert tests LESS than the projection's feasible set (PWL convexity; KFL kernel sign
without a single bound) the iff is stated against exactly what is tested and a counter-witness theorem
exhibits an infeasible weight that is accepted (coverage gaps, not violations of C12: the property
speaks about the constraint kinds the assert COVERS).
-/
namespace Tfl.C12
open Tfl Tfl.Poset Tfl.Linear Tfl.Asserts

/-! ## PWL calibration: every eps, clamps included -/

/-- **the eps-relaxed feasible set of one PWL column** `bias :: heights`, in C04's vocabulary
(heights, keypoint outputs `PwlProj.outputs`): monotonicity — every height has the sign of `mono` up to
`eps`; bounds — every keypoint output within `[lo − eps, hi + eps]`; `clamp_min` — some keypoint output
is `≤ lo + eps` (with the bound clause: the minimum output is within `eps` of `lo`); `clamp_max`
symmetric. -/
def PwlFeasibleEps (mono : Int) (lo hi : Option Rat) (cmin cmax : Bool) (b : Rat) (hs : List Rat)
    (eps : Rat) : Prop :=
  (mono ≠ 0 → ∀ h ∈ hs, -eps ≤ (mono : Rat) * h) ∧
  (∀ l, lo = some l → (∀ y ∈ PwlProj.outputs b hs, l - eps ≤ y) ∧
    (cmin = true → ∃ y ∈ PwlProj.outputs b hs, y ≤ l + eps)) ∧
  (∀ h, hi = some h → (∀ y ∈ PwlProj.outputs b hs, y ≤ h + eps) ∧
    (cmax = true → ∃ y ∈ PwlProj.outputs b hs, h - eps ≤ y))

/-- the relaxed sets are nested: a larger tolerance accepts more -/
theorem pwlFeasibleEps_mono (mono : Int) (lo hi : Option Rat) (cmin cmax : Bool) (b : Rat) (hs : List Rat)
    (e1 e2 : Rat) (he : e1 ≤ e2) (h : PwlFeasibleEps mono lo hi cmin cmax b hs e1) :
    PwlFeasibleEps mono lo hi cmin cmax b hs e2 := by
  obtain ⟨h1, h2, h3⟩ := h
  refine ⟨fun hm x hx => by linarith [h1 hm x hx], fun l hl => ?_, fun u hu => ?_⟩
  · obtain ⟨a, c⟩ := h2 l hl
    exact ⟨fun y hy => by linarith [a y hy], fun hc => by
      obtain ⟨y, hy, hle⟩ := c hc
      exact ⟨y, hy, by linarith⟩⟩
  · obtain ⟨a, c⟩ := h3 u hu
    exact ⟨fun y hy => by linarith [a y hy], fun hc => by
      obtain ⟨y, hy, hle⟩ := c hc
      exact ⟨y, hy, by linarith⟩⟩

/-- consecutive differences of the keypoint outputs are the heights -/
theorem prefixSums_diff (b : Rat) (hs : List Rat) (k : Nat) (hk : k < hs.length) :
    getV (prefixSums b hs) (k + 1) - getV (prefixSums b hs) k = getV hs k := by
  rw [prefixSums_spec b hs (k + 1) (by omega), prefixSums_spec b hs k (by omega), rsum_take_succ hs k hk]
  ring

/-- **C12 ⇔ eps-relaxed feasibility (PWL, clamps included, EVERY eps, every number of keypoints).**
The per-column assert (`pwl_calibration_lib.assert_constraints` on `keypoints_outputs()`; layer level:
`C12.pwl_layer_iff_units`) accepts the kernel `bias :: heights` with tolerance `eps` iff the kernel lies
in `PwlFeasibleEps … eps`. Both directions, no hypothesis (any `mono`, any `eps`, also `eps ≤ 0`).
Closes the "PWL clamps" and "eps > 0" parts of the DESIGN §8 C12 limit. -/
theorem pwl_eps_iff (mono : Int) (lo hi : Option Rat) (cmin cmax : Bool) (b : Rat) (hs : List Rat)
    (eps : Rat) :
    acceptsPwl mono lo hi cmin cmax none (b :: hs) eps = true ↔
      PwlFeasibleEps mono lo hi cmin cmax b hs eps := by
  rw [pwl_iff, pwl_outputs_iff _ _ _ _ _ _ _ (by simp only [pwlOutputs]; cases hs <;> simp [prefixSums])]
  simp only [pwlOutputs, reduceCtorEq, false_imp_iff, implies_true, and_true]
  have hlen : (prefixSums b hs).length = hs.length + 1 := length_prefixSums b hs
  have hmono : (mono ≠ 0 → ∀ k, k + 1 < (prefixSums b hs).length →
      -eps ≤ (mono : Rat) * (getV (prefixSums b hs) (k + 1) - getV (prefixSums b hs) k)) ↔
      (mono ≠ 0 → ∀ h ∈ hs, -eps ≤ (mono : Rat) * h) := by
    refine imp_congr_right fun _ => ⟨fun h x hx => ?_, fun h k hk => ?_⟩
    · obtain ⟨k, hk, e⟩ := mem_iff_getV.mp hx
      have := h k (by omega)
      rwa [prefixSums_diff b hs k hk, e] at this
    · have hk' : k < hs.length := by omega
      rw [prefixSums_diff b hs k hk']
      exact h _ (mem_iff_getV.mpr ⟨k, hk', rfl⟩)
  rw [hmono, prefixSums_eq_outputs]
  unfold PwlFeasibleEps
  constructor
  · rintro ⟨h1, h2, h3⟩
    refine ⟨h3, fun l hl => ⟨fun y hy => by linarith [(h1 l hl).1 y hy], fun hc => ?_⟩,
      fun u hu => ⟨fun y hy => by linarith [(h2 u hu).1 y hy], fun hc => ?_⟩⟩
    · obtain ⟨y, hy, hle⟩ := (h1 l hl).2 hc
      exact ⟨y, hy, by linarith⟩
    · obtain ⟨y, hy, hle⟩ := (h2 u hu).2 hc
      exact ⟨y, hy, by linarith⟩
  · rintro ⟨h3, h1, h2⟩
    refine ⟨fun l hl => ⟨fun y hy => by linarith [(h1 l hl).1 y hy], fun hc => ?_⟩,
      fun u hu => ⟨fun y hy => by linarith [(h2 u hu).1 y hy], fun hc => ?_⟩, h3⟩
    · obtain ⟨y, hy, hle⟩ := (h1 l hl).2 hc
      exact ⟨y, hy, by linarith⟩
    · obtain ⟨y, hy, hle⟩ := (h2 u hu).2 hc
      exact ⟨y, hy, by linarith⟩

/-- the same with a learned `missing_output` `v` (`impute_missing`, no `missing_output_value`): in
addition `v` lies within `[lo − eps, hi + eps]` — the eps-relaxation of C04's T6
(`C04.missing_output_in_bounds`). -/
theorem pwl_eps_iff_missing (mono : Int) (lo hi : Option Rat) (cmin cmax : Bool) (v b : Rat)
    (hs : List Rat) (eps : Rat) :
    acceptsPwl mono lo hi cmin cmax (some v) (b :: hs) eps = true ↔
      PwlFeasibleEps mono lo hi cmin cmax b hs eps ∧
        (∀ l, lo = some l → l - eps ≤ v) ∧ (∀ u, hi = some u → v ≤ u + eps) := by
  rw [← pwl_eps_iff, pwl_iff, pwl_iff]
  simp only [Option.some.injEq, forall_eq', reduceCtorEq, false_imp_iff, implies_true, and_true]
  refine and_congr_right fun _ => and_congr ?_ ?_
  · exact forall_congr' fun l => imp_congr_right fun _ => ⟨fun h => by linarith, fun h => by linarith⟩
  · exact forall_congr' fun u => imp_congr_right fun _ => ⟨fun h => by linarith, fun h => by linarith⟩

/-- how a constraint configuration of C04 (`PwlProj.Cfg`) and the arguments of the assert
(`output_min`, `output_max`, `clamp_min`, `clamp_max` of the same layer) belong together; the wiring of
`PWLCalibration.__init__` (`convert_all_constraints`) satisfies it: `wired_link`. -/
structure PwlLink (c : PwlProj.Cfg) (lo hi : Option Rat) (cmin cmax : Bool) : Prop where
  minSome : c.minC ≠ .none ↔ lo.isSome = true
  minClamped : c.minC = .clamped ↔ (lo.isSome = true ∧ cmin = true)
  minVal : ∀ l, lo = some l → c.omin = l
  maxSome : c.maxC ≠ .none ↔ hi.isSome = true
  maxClamped : c.maxC = .clamped ↔ (hi.isSome = true ∧ cmax = true)
  maxVal : ∀ u, hi = some u → c.omax = u

/-- `convert_all_constraints(output_min, output_max, clamp_min, clamp_max)` produces a linked
configuration, for every monotonicity / convexity -/
theorem wired_link (mono conv : Int) (lo hi : Option Rat) (cmin cmax : Bool) :
    PwlLink ⟨mono, conv, (PwlProj.convertAllConstraints lo hi cmin cmax).1,
      (PwlProj.convertAllConstraints lo hi cmin cmax).2.1, (PwlProj.convertAllConstraints lo hi cmin cmax).2.2.1,
      (PwlProj.convertAllConstraints lo hi cmin cmax).2.2.2⟩ lo hi cmin cmax := by
  cases lo <;> cases hi <;> cases cmin <;> cases cmax <;>
    constructor <;> simp [PwlProj.convertAllConstraints, PwlProj.convertConstraints]

/-- with non-negative heights every keypoint output lies between the first and the last one -/
theorem outputs_between (b : Rat) (hs : List Rat) (h0 : ∀ h ∈ hs, 0 ≤ h) :
    ∀ y ∈ PwlProj.outputs b hs, b ≤ y ∧ y ≤ b + rsum hs := by
  induction hs generalizing b with
  | nil => intro y hy; simp [PwlProj.outputs_nil] at hy; subst hy; simp [rsum]
  | cons h hs ih =>
    intro y hy
    have hh := h0 h (by simp)
    rw [PwlProj.outputs_cons] at hy
    have hr := PwlProj.rsum_nonneg hs (fun x hx => h0 x (by simp [hx]))
    rcases List.mem_cons.mp hy with e | e
    · subst e; simp only [rsum]; constructor <;> linarith
    · have := ih (b + h) (fun x hx => h0 x (by simp [hx])) y e
      simp only [rsum]; constructor <;> linarith [this.1, this.2]

/-- with non-positive heights every keypoint output lies between the last and the first one -/
theorem outputs_between_neg (b : Rat) (hs : List Rat) (h0 : ∀ h ∈ hs, h ≤ 0) :
    ∀ y ∈ PwlProj.outputs b hs, b + rsum hs ≤ y ∧ y ≤ b := by
  induction hs generalizing b with
  | nil => intro y hy; simp [PwlProj.outputs_nil] at hy; subst hy; simp [rsum]
  | cons h hs ih =>
    intro y hy
    have hh := h0 h (by simp)
    rw [PwlProj.outputs_cons] at hy
    have hr : rsum hs ≤ 0 := by
      have := PwlProj.rsum_nonneg (hs.map (fun x => -x)) (by
        intro x hx
        obtain ⟨z, hz, rfl⟩ := List.mem_map.mp hx
        linarith [h0 z (by simp [hz])])
      have e : rsum (hs.map (fun x => -x)) = -rsum hs := by
        clear * -
        induction hs with
        | nil => simp [rsum]
        | cons a t ih => simp only [List.map_cons, rsum, ih]; ring
      linarith
    rcases List.mem_cons.mp hy with e | e
    · subst e; simp only [rsum]; constructor <;> linarith
    · have := ih (b + h) (fun x hx => h0 x (by simp [hx])) y e
      simp only [rsum] at this ⊢; constructor <;> linarith [this.1, this.2]

/-- **at `eps = 0` the relaxed set is C04's feasible set (clamps included).** For a linked
configuration with `monotonicity ∈ {−1, 0, 1}` and no clamp without monotonicity (`ClampNeedsMono`: the
constraint object raises `ValueError` otherwise, `projectAll_ok_iff`):
`PwlFeasibleEps … 0 ↔ MonoOk ∧ BoundsOk ∧ ClampOk` — the three clauses C04's `projectAll_spec` /
`clamp_hit` establish and `feasible_unchanged` assumes (for `convexity = 0` that is ALL of them). -/
theorem pwlFeasibleEps_zero_iff_c04 (c : PwlProj.Cfg) (lo hi : Option Rat) (cmin cmax : Bool)
    (hm : c.mono = 0 ∨ c.mono = 1 ∨ c.mono = -1) (hcm : PwlProj.ClampNeedsMono c)
    (lk : PwlLink c lo hi cmin cmax) (b : Rat) (hs : List Rat) :
    PwlFeasibleEps c.mono lo hi cmin cmax b hs 0 ↔
      PwlProj.MonoOk c.mono hs ∧ PwlProj.BoundsOk c b hs ∧ PwlProj.ClampOk c b hs := by
  unfold PwlFeasibleEps PwlProj.MonoOk PwlProj.BoundsOk PwlProj.InBounds PwlProj.ClampOk PwlProj.ClampInc
  simp only [neg_zero, sub_zero, add_zero]
  constructor
  · rintro ⟨hM, hL, hU⟩
    have hmo1 : c.mono = 1 → ∀ h ∈ hs, 0 ≤ h := fun e x hx => by
      have := hM (by omega) x hx; rw [e] at this; simpa using this
    have hmo2 : c.mono = -1 → ∀ h ∈ hs, h ≤ 0 := fun e x hx => by
      have := hM (by omega) x hx; rw [e] at this
      have : (0 : Rat) ≤ -x := by simpa using this
      linarith
    have hlo : ∀ y ∈ PwlProj.outputs b hs, c.minC ≠ .none → c.omin ≤ y := fun y hy hc => by
      obtain ⟨l, hl⟩ := Option.isSome_iff_exists.mp (lk.minSome.mp hc)
      rw [lk.minVal l hl]; exact (hL l hl).1 y hy
    have hhi : ∀ y ∈ PwlProj.outputs b hs, c.maxC ≠ .none → y ≤ c.omax := fun y hy hc => by
      obtain ⟨u, hu⟩ := Option.isSome_iff_exists.mp (lk.maxSome.mp hc)
      rw [lk.maxVal u hu]; exact (hU u hu).1 y hy
    have hexl : c.minC = .clamped → ∃ y ∈ PwlProj.outputs b hs, y ≤ c.omin := fun e => by
      obtain ⟨h1, h2⟩ := lk.minClamped.mp e
      obtain ⟨l, hl⟩ := Option.isSome_iff_exists.mp h1
      rw [lk.minVal l hl]; exact (hL l hl).2 h2
    have hexu : c.maxC = .clamped → ∃ y ∈ PwlProj.outputs b hs, c.omax ≤ y := fun e => by
      obtain ⟨h1, h2⟩ := lk.maxClamped.mp e
      obtain ⟨u, hu⟩ := Option.isSome_iff_exists.mp h1
      rw [lk.maxVal u hu]; exact (hU u hu).2 h2
    refine ⟨⟨hmo1, hmo2⟩, fun y hy => ⟨hlo y hy, hhi y hy⟩, fun e => ⟨fun ec => ?_, fun ec => ?_⟩,
      fun e => ⟨fun ec => ?_, fun ec => ?_⟩, hcm⟩
    · obtain ⟨y, hy, hle⟩ := hexl ec
      have := (outputs_between b hs (hmo1 e) y hy).1
      have := hlo b (PwlProj.first_mem_outputs b hs) (by rw [ec]; simp)
      linarith
    · obtain ⟨y, hy, hle⟩ := hexu ec
      have := (outputs_between b hs (hmo1 e) y hy).2
      have := hhi _ (PwlProj.last_mem_outputs b hs) (by rw [ec]; simp)
      linarith
    · obtain ⟨y, hy, hle⟩ := hexu ec
      have := (outputs_between_neg b hs (hmo2 e) y hy).2
      have := hhi b (PwlProj.first_mem_outputs b hs) (by rw [ec]; simp)
      linarith
    · obtain ⟨y, hy, hle⟩ := hexl ec
      have := (outputs_between_neg b hs (hmo2 e) y hy).1
      have := hlo _ (PwlProj.last_mem_outputs b hs) (by rw [ec]; simp)
      linarith
  · rintro ⟨⟨hmo1, hmo2⟩, hB, hC1, hC2, hC0⟩
    refine ⟨fun hne x hx => ?_, fun l hl => ⟨fun y hy => ?_, fun hc => ?_⟩,
      fun u hu => ⟨fun y hy => ?_, fun hc => ?_⟩⟩
    · rcases hm with e | e | e
      · exact absurd e hne
      · rw [e]; have := hmo1 e x hx; simpa using this
      · rw [e]; have := hmo2 e x hx; simp; linarith
    · have := (hB y hy).1 (lk.minSome.mpr (by simp [hl]))
      rwa [lk.minVal l hl] at this
    · have ec : c.minC = .clamped := lk.minClamped.mpr ⟨by simp [hl], hc⟩
      rcases hm with e | e | e
      · exact absurd ec (hC0 e).1
      · exact ⟨b, PwlProj.first_mem_outputs b hs, by rw [(hC1 e).1 ec, lk.minVal l hl]⟩
      · exact ⟨_, PwlProj.last_mem_outputs b hs, by rw [(hC2 e).2 ec, lk.minVal l hl]⟩
    · have := (hB y hy).2 (lk.maxSome.mpr (by simp [hu]))
      rwa [lk.maxVal u hu] at this
    · have ec : c.maxC = .clamped := lk.maxClamped.mpr ⟨by simp [hu], hc⟩
      rcases hm with e | e | e
      · exact absurd ec (hC0 e).2
      · exact ⟨_, PwlProj.last_mem_outputs b hs, by rw [(hC1 e).2 ec, lk.maxVal u hu]⟩
      · exact ⟨b, PwlProj.first_mem_outputs b hs, by rw [(hC2 e).1 ec, lk.maxVal u hu]⟩

/-- **bridge (PWL with clamps, `eps = 0`).** The assert accepts `bias :: heights` at `eps = 0` iff the
kernel is in C04's feasible set `MonoOk ∧ BoundsOk ∧ ClampOk` (extends `pwl_zero_iff_c04` to
`clamp_min` / `clamp_max`). -/
theorem pwl_zero_iff_c04_clamps (c : PwlProj.Cfg) (lo hi : Option Rat) (cmin cmax : Bool)
    (hm : c.mono = 0 ∨ c.mono = 1 ∨ c.mono = -1) (hcm : PwlProj.ClampNeedsMono c)
    (lk : PwlLink c lo hi cmin cmax) (b : Rat) (hs : List Rat) :
    acceptsPwl c.mono lo hi cmin cmax none (b :: hs) 0 = true ↔
      PwlProj.MonoOk c.mono hs ∧ PwlProj.BoundsOk c b hs ∧ PwlProj.ClampOk c b hs := by
  rw [pwl_eps_iff, pwlFeasibleEps_zero_iff_c04 c lo hi cmin cmax hm hcm lk]

/-- **composition C04 ∘ C12: what the PWL constraint returns is accepted by the assert at `eps = 0`**
(hence, `pwlFeasibleEps_mono`, at every `eps ≥ 0`). Hypotheses are those of the C04 theorems used:
`CfgOk`, strictly increasing keypoints (`AllPos`), and — only when a clamp is configured — those of
`C04.clamp_hit` (no convexity, at least one iteration, at least two keypoints; without them the clamp
is not met: `C04.clamp_fails_with_zero_iterations`, F-C04-b). -/
theorem pwl_projection_accepted (c : PwlProj.Cfg) (hc : PwlProj.CfgOk c) (lo hi : Option Rat)
    (cmin cmax : Bool) (lk : PwlLink c lo hi cmin cmax) (L : List Rat) (hl : PwlProj.AllPos L) (it : Nat)
    (b : Rat) (hs : List Rat)
    (hclamp : (c.minC = .clamped ∨ c.maxC = .clamped) → c.conv = 0 ∧ 1 ≤ it ∧ hs ≠ [])
    (out : Rat × List Rat) (h : PwlProj.projectAll c L it b hs = .ok out) :
    acceptsPwl c.mono lo hi cmin cmax none (out.1 :: out.2) 0 = true := by
  have hcm : PwlProj.ClampNeedsMono c := by
    intro e0
    constructor <;> intro ec
    · rw [PwlProj.projectAll_clamp_without_mono c e0 (Or.inl ec)] at h; cases h
    · rw [PwlProj.projectAll_clamp_without_mono c e0 (Or.inr ec)] at h; cases h
  obtain ⟨_, h2, h3, _⟩ := PwlProj.projectAll_spec c hc L hl it b hs out h
  refine (pwl_zero_iff_c04_clamps c lo hi cmin cmax hc.mono hcm lk out.1 out.2).mpr ⟨h2, h3, ?_⟩
  refine ⟨fun e => ⟨fun ec => ?_, fun ec => ?_⟩, fun e => ⟨fun ec => ?_, fun ec => ?_⟩, hcm⟩
  · obtain ⟨hcv, hit, hne⟩ := hclamp (Or.inl ec)
    exact ((C04.clamp_hit c hc hcv L it hit b hs out hne h).1 e).1 ec
  · obtain ⟨hcv, hit, hne⟩ := hclamp (Or.inr ec)
    exact ((C04.clamp_hit c hc hcv L it hit b hs out hne h).1 e).2 ec
  · obtain ⟨hcv, hit, hne⟩ := hclamp (Or.inr ec)
    exact ((C04.clamp_hit c hc hcv L it hit b hs out hne h).2 e).1 ec
  · obtain ⟨hcv, hit, hne⟩ := hclamp (Or.inl ec)
    exact ((C04.clamp_hit c hc hcv L it hit b hs out hne h).2 e).2 ec

/-- **composition C12 ∘ C04: a kernel accepted at `eps = 0` (clamps included) is a fixed point of the
PWL constraint**, for every iteration count, when no convexity is configured (convexity is not
asserted: `pwl_convexity_not_asserted`). -/
theorem pwl_accepted_fixed (c : PwlProj.Cfg) (hc : PwlProj.CfgOk c) (hcv : c.conv = 0) (lo hi : Option Rat)
    (cmin cmax : Bool) (lk : PwlLink c lo hi cmin cmax) (hcm : PwlProj.ClampNeedsMono c) (L : List Rat)
    (hl : PwlProj.AllPos L) (it : Nat) (b : Rat) (hs : List Rat)
    (h : acceptsPwl c.mono lo hi cmin cmax none (b :: hs) 0 = true) :
    PwlProj.projectAll c L it b hs = .ok (b, hs) := by
  obtain ⟨h1, h2, h3⟩ := (pwl_zero_iff_c04_clamps c lo hi cmin cmax hc.mono hcm lk b hs).mp h
  exact (C04.feasible_unchanged c hc L hl it b hs (fun hne => absurd hcv hne) h1
    (by rw [hcv]; exact PwlProj.convOk_zero hs L) h2 h3).1

/-- **coverage gap (not a C12 violation): convexity is not among the asserted kinds.** The kernel
`[0, 3/4, 1/4]` on unit spacings (increasing, bounds `[0, 1]` both clamped) has DEcreasing slopes —
infeasible for `convexity = 1` (`ConvOk` fails, and the constraint moves it) — and is accepted at
`eps = 0`: the assert has no convexity argument at all. -/
theorem pwl_convexity_not_asserted :
    acceptsPwl 1 (some 0) (some 1) true true none [0, 3/4, 1/4] 0 = true ∧
    ¬ PwlProj.ConvOk 1 [3/4, 1/4] [1, 1] ∧
    PwlProj.projectAll ⟨1, 1, 0, 1, .clamped, .clamped⟩ [1, 1] 8 0 [3/4, 1/4] ≠ .ok (0, [3/4, 1/4]) := by
  refine ⟨by decide +kernel, ?_, by decide +kernel⟩
  intro h
  have := h.1 rfl
  simp only [PwlProj.Slopes, PwlProj.SlopesFrom] at this
  norm_num at this

/-! ### non-vacuity (PWL) -/
-- eps > 0, clamp_min: min output 1/16 is within eps = 1/8 of 0, accepted; both sides of the iff
example : acceptsPwl 1 (some 0) (some 1) true false none [1/16, 1/2, 1/4] (1/8) = true := by decide +kernel
example : PwlFeasibleEps 1 (some 0) (some 1) true false (1/16) [1/2, 1/4] (1/8) :=
  (pwl_eps_iff 1 (some 0) (some 1) true false (1/16) [1/2, 1/4] (1/8)).mp (by decide +kernel)
-- the same kernel is outside the exact set: rejected at eps = 0 (the clamp is missed by 1/16)
example : acceptsPwl 1 (some 0) (some 1) true false none [1/16, 1/2, 1/4] 0 = false := by decide +kernel
-- decreasing, both clamps, exact: first output = output_max, last = output_min
example : acceptsPwl (-1) (some 0) (some 1) true true none [1, -1/2, -1/2] 0 = true := by decide +kernel
example : PwlProj.ClampOk ⟨-1, 0, 0, 1, .clamped, .clamped⟩ 1 [-1/2, -1/2] :=
  ((pwl_zero_iff_c04_clamps ⟨-1, 0, 0, 1, .clamped, .clamped⟩ (some 0) (some 1) true true
    (Or.inr (Or.inr rfl)) (by decide) (wired_link (-1) 0 (some 0) (some 1) true true) 1 [-1/2, -1/2]).mp
    (by decide +kernel)).2.2
-- composition: the output of the constraint on an infeasible kernel, both clamps, is accepted
example : (match PwlProj.projectAll ⟨1, 0, 0, 1, .clamped, .clamped⟩ [1, 1] 4 (1/2) [-1, 3] with
    | .ok r => decide (r ≠ (1/2, [-1, 3])) && acceptsPwl 1 (some 0) (some 1) true true none (r.1 :: r.2) 0
    | .error _ => false) = true := by decide +kernel
-- learned missing output within eps of the bound
example : acceptsPwl 1 (some 0) (some 1) false false (some (9/8)) [0, 1/2, 1/4] (1/4) = true := by decide +kernel
example : acceptsPwl 1 (some 0) (some 1) false false (some (9/8)) [0, 1/2, 1/4] (1/16) = false := by decide +kernel

/-! ## Categorical and lattice: every eps -/

/-- **the eps-relaxed feasible set of a categorical column**, in C06's vocabulary (`Poset.Feasible`
pairs + bounds), every inequality relaxed by `eps` -/
def CatFeasibleEps (lo hi : Option Rat) (cs : Pairs) (w : List Rat) (eps : Rat) : Prop :=
  (∀ c ∈ cs, getV w c.1 ≤ getV w c.2 + eps) ∧
  (∀ k, k < w.length → ∀ l, lo = some l → l - eps ≤ getV w k) ∧
  (∀ k, k < w.length → ∀ h, hi = some h → getV w k ≤ h + eps)

/-- **C12 ⇔ eps-relaxed feasibility (categorical), every eps, every size** — closes "eps > 0" of the
DESIGN §8 C12 limit for categorical calibration. -/
theorem categorical_eps_iff (lo hi : Option Rat) (cs : Pairs) (w : List Rat) (eps : Rat) :
    acceptsCategorical lo hi cs w eps = true ↔ CatFeasibleEps lo hi cs w eps := by
  rw [categorical_iff]
  unfold CatFeasibleEps
  constructor
  · rintro ⟨h1, h2, h3⟩
    exact ⟨fun c hc => by linarith [h3 c hc], fun k hk l hl => by linarith [h1 l hl k hk],
      fun k hk h hh => by linarith [h2 h hh k hk]⟩
  · rintro ⟨h3, h1, h2⟩
    exact ⟨fun l hl k hk => by linarith [h1 k hk l hl], fun h hh k hk => by linarith [h2 k hk h hh],
      fun c hc => by linarith [h3 c hc]⟩

/-- at `eps = 0` the relaxed categorical set is C06's `Poset.Feasible` + bounds (the set
`C06.categorical_pairs_and_bounds` projects onto) -/
theorem catFeasibleEps_zero_iff (lo hi : Option Rat) (cs : Pairs) (w : List Rat) :
    CatFeasibleEps lo hi cs w 0 ↔
      Feasible cs w ∧ (∀ k, k < w.length → ∀ l, lo = some l → l ≤ getV w k) ∧
        (∀ k, k < w.length → ∀ h, hi = some h → getV w k ≤ h) := by
  unfold CatFeasibleEps Feasible
  simp only [add_zero, sub_zero]

example : CatFeasibleEps (some 0) none [(0, 1)] [1/2, 3/8] (1/4) :=
  (categorical_eps_iff _ _ _ _ _).mp (by decide +kernel)
example : acceptsCategorical (some 0) none [(0, 1)] [1/2, 3/8] (1/16) = false := by decide +kernel

/-- **the eps-relaxed feasible set of a lattice kernel**: the seven covered kinds, each slack `≥ −eps`
(`MonoOK … BoundsOK` of Props/C12.lean, explicit `∀`-statements over layer pairs / squares / vertices) -/
def LatFeasibleEps (c : LatCfg) (w : W) (eps : Rat) : Prop :=
  MonoOK c w eps ∧ EdgeOK c w eps ∧ TrapOK c w eps ∧ MdomOK c w eps ∧ RdomOK c w eps ∧
    JointOK c w eps ∧ BoundsOK c w eps

/-- **C12 ⇔ eps-relaxed feasibility (lattice), every eps** -/
theorem lattice_eps_iff (c : LatCfg) (w : W) (eps : Rat) :
    acceptsLatticeW c w eps = true ↔ LatFeasibleEps c w eps := lattice_iff c w eps

/-- at `eps = 0` the relaxed lattice set is C08's `FeasibleD` (+ bounds): the set the Dykstra
projection converges to (`C08.dykstra_cfg_converges`) and whose members it leaves fixed -/
theorem latFeasibleEps_zero_iff (c : LatCfg) (w : W) (h : LatWF c) :
    LatFeasibleEps c w 0 ↔ C08.FeasibleD (toDCfg c) w ∧ BoundsOK c w 0 := by
  rw [← lattice_zero_iff_feasibleD c w h, lattice_iff]
  rfl

example : LatFeasibleEps exBridgeCfg (Table.ofVals [2, 2] [0, 0, 1/2, 1]).get 0 :=
  (lattice_eps_iff _ _ _).mp (by decide +kernel)

/-! ## KroneckerFactoredLattice ↔ the premises of C07 -/

/-- adjacent non-decreasing up to `eps` (C07's `Kfl.Nondec`, relaxed) -/
def NondecEps (eps : Rat) : List Rat → Prop
  | x :: y :: r => x ≤ y + eps ∧ NondecEps eps (y :: r)
  | _ => True

/-- C07's `Kfl.TermBoundOk` with the tolerance where the real assertion has one: both bounds —
`max_output_value ≤ 1 + eps`; a single bound — every factor weight `≥ 0` (NO eps in the code) -/
def TermBoundOkEps (lo hi : Option Rat) (eps : Rat) (kt : List (List Rat)) : Prop :=
  match lo, hi with
  | none, none => True
  | some _, some _ => Kfl.maxOutput kt ≤ 1 + eps
  | _, _ => Kfl.AllNonneg kt

/-- **the eps-relaxed set the KFL assert tests**, in C07's vocabulary and layout (`K[t][d][k]`: term,
dimension, keypoint): on every monotone dimension `sign(scale_t) · column` is non-decreasing up to
`eps`; the bound premise of every term (`TermBoundOkEps`); the scale premise `Kfl.SOk` (no eps in the
code). Compared with C07's `KOk`, the clause "every factor weight `≥ 0` when some dimension is monotone"
is absent unless exactly one bound is set: the real assert never tests it (`kfl_kernel_sign_not_asserted`). -/
def KflFeasibleEps (ms : List Bool) (lo hi : Option Rat) (K : List (List (List Rat))) (scale : List Rat)
    (eps : Rat) : Prop :=
  (∀ t, t < K.length → ∀ d, ms.getD d false = true → d < (K.getD t []).length →
    NondecEps eps (((K.getD t []).getD d []).map (fun v => Kfl.sgn (getR scale t) * v))) ∧
  (∀ kt ∈ K, TermBoundOkEps lo hi eps kt) ∧ Kfl.SOk lo hi scale

/-- the assert's kernel `w[k][d][t]` (`weights[0, k, d, t]` of one unit) and C07's `K[t][d][k]` hold
the same numbers; `K` has the full shape `terms × dims × ls` -/
structure KflTransposed (ls dims terms : Nat) (w K : List (List (List Rat))) : Prop where
  nTerms : K.length = terms
  nDims : ∀ kt ∈ K, kt.length = dims
  nKeys : ∀ kt ∈ K, ∀ col ∈ kt, col.length = ls
  entry : ∀ k, k < ls → ∀ d, d < dims → ∀ t, t < terms → get3 w k d t = get3 K t d k

theorem getD_mem' {α : Type} (l : List α) (i : Nat) (dflt : α) (hi : i < l.length) : l.getD i dflt ∈ l := by
  simp [List.getD, hi]

theorem forall_mem_iff_getD {α : Type} (l : List α) (dflt : α) (P : α → Prop) :
    (∀ x ∈ l, P x) ↔ ∀ i, i < l.length → P (l.getD i dflt) := by
  constructor
  · intro h i hi; exact h _ (getD_mem' l i dflt hi)
  · intro h x hx
    obtain ⟨i, hi, rfl⟩ := List.getElem_of_mem hx
    have := h i hi
    simpa [List.getD, hi] using this

theorem nondecEps_iff (eps : Rat) : ∀ l : List Rat,
    NondecEps eps l ↔ ∀ j, j + 1 < l.length → getV l j ≤ getV l (j + 1) + eps
  | [] => by simp [NondecEps]
  | [x] => by simp [NondecEps]
  | x :: y :: r => by
    rw [NondecEps, nondecEps_iff eps (y :: r)]
    constructor
    · rintro ⟨h0, h⟩ j hj
      cases j with
      | zero => simpa [getV] using h0
      | succ j =>
        have := h j (by simpa using hj)
        simpa [getV] using this
    · intro h
      refine ⟨by simpa [getV] using h 0 (by simp), fun j hj => ?_⟩
      have := h (j + 1) (by simpa using hj)
      simpa [getV] using this

theorem nondecEps_zero : ∀ l : List Rat, NondecEps 0 l ↔ Kfl.Nondec l
  | [] => by simp [NondecEps, Kfl.Nondec]
  | [x] => by simp [NondecEps, Kfl.Nondec]
  | x :: y :: r => by rw [NondecEps, Kfl.Nondec, nondecEps_zero (y :: r), add_zero]

theorem rmax_abs (a : Rat) (ha : 0 ≤ a) (xs : List Rat) :
    rmax a (xs.map Rat.abs) = max a (Kfl.maxAbs xs) := by
  induction xs generalizing a with
  | nil => simp [rmax, Kfl.maxAbs, ha]
  | cons y ys ih =>
    simp only [List.map_cons, rmax, Kfl.maxAbs]
    rw [ih _ (le_trans ha (le_max_left _ _)), max_assoc]

theorem maxAbs_match (col : List Rat) :
    (match col.map Rat.abs with | [] => 0 | x :: xs => rmax x xs) = Kfl.maxAbs col := by
  cases col with
  | nil => rfl
  | cons x xs =>
    simp only [List.map_cons, Kfl.maxAbs]
    exact rmax_abs _ (by rw [ratAbs_eq]; exact abs_nonneg x) xs

theorem kflMaxOut_eq (ls dims terms : Nat) (w K : List (List (List Rat)))
    (hT : KflTransposed ls dims terms w K) (t : Nat) (ht : t < terms) :
    kflMaxOut ls dims w t = Kfl.maxOutput (K.getD t []) := by
  have hkt : K.getD t [] ∈ K := getD_mem' K t [] (hT.nTerms ▸ ht)
  have hentry : ∀ k, k < ls → ∀ d, d < dims → get3 w k d t = ((K.getD t []).getD d []).getD k 0 :=
    fun k hk d hd => hT.entry k hk d hd t ht
  have hd := hT.nDims _ hkt
  have hkeys := hT.nKeys _ hkt
  unfold kflMaxOut Kfl.maxOutput
  generalize K.getD t [] = kt at hentry hd hkeys ⊢
  congr 1
  apply List.ext_getElem
  · rw [List.length_map, List.length_map, List.length_range, hd]
  · intro d h1 h2
    have hdd : d < dims := by rw [List.length_map, List.length_range] at h1; exact h1
    have hd' : d < kt.length := by omega
    simp only [List.getElem_map, List.getElem_range]
    have hlen := hkeys _ (List.getElem_mem hd')
    unfold kflMaxAbs
    have : (List.range ls).map (fun k => Rat.abs (get3 w k d t)) = (kt[d]).map Rat.abs := by
      apply List.ext_getElem
      · rw [List.length_map, List.length_map, List.length_range, hlen]
      · intro k g1 g2
        have hk : k < ls := by rw [List.length_map, List.length_range] at g1; exact g1
        simp only [List.getElem_map, List.getElem_range]
        rw [hentry k hk d hdd]
        have hk' : k < (kt[d]).length := by omega
        simp [List.getD, hd', hk']
    rw [this]
    exact maxAbs_match _

/-- the monotonicity assertions, re-read in C07's layout -/
theorem kfl_mono_bridge (ls dims terms : Nat) (monos : List Int) (hml : monos.length = dims)
    (w K : List (List (List Rat))) (hT : KflTransposed ls dims terms w K) (scale : List Rat) (eps : Rat) :
    (∀ d, d < min dims monos.length → monos.getD d 0 ≠ 0 → ∀ j, j < ls - 1 → ∀ t, t < terms →
      -eps ≤ sign (getV scale t) * get3 w (j + 1) d t - sign (getV scale t) * get3 w j d t) ↔
    (∀ t, t < K.length → ∀ d, (monos.map (fun m => decide (m ≠ 0))).getD d false = true →
      d < (K.getD t []).length →
      NondecEps eps (((K.getD t []).getD d []).map (fun v => Kfl.sgn (getR scale t) * v))) := by
  have hms : ∀ d, d < dims → ((monos.map (fun m => decide (m ≠ 0))).getD d false = true ↔ monos.getD d 0 ≠ 0) := by
    intro d hd
    have hd' : d < monos.length := hml ▸ hd
    simp [List.getD, hd']
  have e1 : ∀ t, sign (getV scale t) = Kfl.sgn (getR scale t) := fun _ => rfl
  have e2 : ∀ t d i, get3 K t d i = getV ((K.getD t []).getD d []) i := fun _ _ _ => rfl
  constructor
  · intro h t ht d hm hd
    have hkt := getD_mem' K t [] ht
    have hdd : d < dims := (hT.nDims _ hkt) ▸ hd
    have hlen := hT.nKeys _ hkt _ (getD_mem' _ d [] hd)
    have htt : t < terms := hT.nTerms ▸ ht
    rw [nondecEps_iff]
    intro j hj
    rw [List.length_map, hlen] at hj
    rw [C06.getV_map _ _ (by omega), C06.getV_map _ _ (by omega)]
    have := h d (by rw [hml, min_self]; exact hdd) ((hms d hdd).mp hm) j (by omega) t htt
    rw [hT.entry (j + 1) (by omega) d hdd t htt, hT.entry j (by omega) d hdd t htt, e1, e2, e2] at this
    linarith
  · intro h d hd hm j hj t htt
    have hdd : d < dims := by rw [hml, min_self] at hd; exact hd
    have ht : t < K.length := hT.nTerms.symm ▸ htt
    have hkt := getD_mem' K t [] ht
    have hd' : d < (K.getD t []).length := (hT.nDims _ hkt).symm ▸ hdd
    have hlen := hT.nKeys _ hkt _ (getD_mem' _ d [] hd')
    have := (nondecEps_iff _ _).mp (h t ht d ((hms d hdd).mpr hm) hd') j (by rw [List.length_map, hlen]; omega)
    rw [C06.getV_map _ _ (by omega), C06.getV_map _ _ (by omega)] at this
    rw [hT.entry (j + 1) (by omega) d hdd t htt, hT.entry j (by omega) d hdd t htt, e1, e2, e2]
    linarith

/-- the bound assertions, re-read in C07's layout -/
theorem kfl_bounds_bridge (ls dims terms : Nat) (lo hi : Option Rat)
    (w K : List (List (List Rat))) (hT : KflTransposed ls dims terms w K) (scale : List Rat) (eps : Rat) :
    KflBoundsOK ls dims terms lo hi w scale eps ↔
      (∀ kt ∈ K, TermBoundOkEps lo hi eps kt) ∧ Kfl.SOk lo hi scale := by
  have hnn : (∀ k, k < ls → ∀ d, d < dims → ∀ t, t < terms → 0 ≤ get3 w k d t) ↔
      ∀ kt ∈ K, Kfl.AllNonneg kt := by
    constructor
    · intro h
      rw [forall_mem_iff_getD K []]
      intro t ht
      have hkt := getD_mem' K t [] ht
      unfold Kfl.AllNonneg
      rw [forall_mem_iff_getD _ []]
      intro d hd
      have hcol := getD_mem' _ d [] hd
      unfold Kfl.Nonneg
      rw [forall_mem_iff_getD _ 0]
      intro k hk
      have := h k ((hT.nKeys _ hkt _ hcol) ▸ hk) d ((hT.nDims _ hkt) ▸ hd) t (hT.nTerms ▸ ht)
      rwa [hT.entry k ((hT.nKeys _ hkt _ hcol) ▸ hk) d ((hT.nDims _ hkt) ▸ hd) t (hT.nTerms ▸ ht)] at this
    · intro h k hk d hd t ht
      rw [hT.entry k hk d hd t ht]
      have ht' : t < K.length := hT.nTerms.symm ▸ ht
      have hkt := getD_mem' K t [] ht'
      have hd' : d < (K.getD t []).length := (hT.nDims _ hkt).symm ▸ hd
      have hcol := getD_mem' _ d [] hd'
      exact h _ hkt _ hcol _ (getD_mem' _ k 0 ((hT.nKeys _ hkt _ hcol).symm ▸ hk))
  have hmo : (∀ t, t < terms → -eps ≤ 1 - kflMaxOut ls dims w t) ↔ ∀ kt ∈ K, Kfl.maxOutput kt ≤ 1 + eps := by
    rw [forall_mem_iff_getD K []]
    constructor
    · intro h t ht
      have := h t (hT.nTerms ▸ ht)
      rw [kflMaxOut_eq ls dims terms w K hT t (hT.nTerms ▸ ht)] at this
      linarith
    · intro h t ht
      rw [kflMaxOut_eq ls dims terms w K hT t ht]
      linarith [h t (hT.nTerms.symm ▸ ht)]
  unfold KflBoundsOK TermBoundOkEps Kfl.SOk
  cases lo <;> cases hi <;> simp only
  · simp
  · rw [hnn]
  · rw [hnn]
  · rw [hmo]
    refine and_congr_right fun _ => forall_congr' fun s => imp_congr_right fun _ => ?_
    rw [abs_le]

/-- **C12 ⇔ eps-relaxed feasibility (KFL, one unit; all units: `C12.kfl_layer_iff`), every eps, every
shape.** The assert on `weights[0, :, :, :]`, `scale` accepts iff the transposed kernel `K` (C07's
layout) and the scale lie in `KflFeasibleEps … eps`. `monotonicities` has one entry per dimension
(`verify_hyperparameters`). Closes the "KFL" part of the DESIGN §8 C12 limit. -/
theorem kfl_eps_iff (ls dims terms : Nat) (monos : List Int) (hml : monos.length = dims)
    (lo hi : Option Rat) (w K : List (List (List Rat))) (hT : KflTransposed ls dims terms w K)
    (scale : List Rat) (eps : Rat) :
    acceptsKfl ls dims terms monos lo hi w scale eps = true ↔
      KflFeasibleEps (monos.map (fun m => decide (m ≠ 0))) lo hi K scale eps := by
  rw [kfl_iff, kfl_mono_bridge ls dims terms monos hml w K hT, kfl_bounds_bridge ls dims terms lo hi w K hT]
  rfl

theorem kernelOk_iff (L : Nat) (ms : List Bool) : ∀ (K : List (List (List Rat))) (scale : List Rat),
    K.length ≤ scale.length →
    (Kfl.KernelOk L ms scale K ↔
      ∀ t, t < K.length → Kfl.DimsOk L (Kfl.sgn (getR scale t)) ms (K.getD t []))
  | [], scale, _ => by cases scale <;> simp [Kfl.KernelOk]
  | kt :: ks, [], h => by simp at h
  | kt :: ks, s :: ss, h => by
    rw [Kfl.KernelOk, kernelOk_iff L ms ks ss (by simpa using h)]
    constructor
    · rintro ⟨h0, h1⟩ t ht
      cases t with
      | zero => simpa [getR] using h0
      | succ t => simpa [getR] using h1 t (by simpa using ht)
    · intro h1
      exact ⟨by simpa [getR] using h1 0 (by simp), fun t ht => by simpa [getR] using h1 (t + 1) (by simpa using ht)⟩

theorem dimsOk_iff (L : Nat) (σ : Rat) : ∀ (ms : List Bool) (kt : List (List Rat)),
    Kfl.DimsOk L σ ms kt ↔ ms.length = kt.length ∧ ∀ d, d < kt.length →
      Kfl.Nonneg (kt.getD d []) ∧ (ms.getD d false = true →
        (kt.getD d []).length = L ∧ Kfl.Nondec ((kt.getD d []).map (fun v => σ * v)))
  | [], [] => by simp [Kfl.DimsOk]
  | [], _ :: _ => by simp [Kfl.DimsOk]
  | _ :: _, [] => by simp [Kfl.DimsOk]
  | m :: ms, k :: ks => by
    rw [Kfl.DimsOk, dimsOk_iff L σ ms ks]
    constructor
    · rintro ⟨h0, hl, h⟩
      refine ⟨by simp [hl], fun d hd => ?_⟩
      cases d with
      | zero => simpa using h0
      | succ d => simpa using h d (by simpa using hd)
    · rintro ⟨hl, h⟩
      refine ⟨by simpa using h 0 (by simp), by simpa using hl, fun d hd => ?_⟩
      simpa using h (d + 1) (by simpa using hd)

/-- **at `eps = 0`: the tested set + the untested sign clause = the premises of C07.** For a kernel of
full shape (`Kfl.TermShape`) and one scale entry per term: `KflFeasibleEps … 0` together with "every
factor weight is `≥ 0` when some dimension is monotone" is exactly `Kfl.KOk ∧ Kfl.SOk` — the premises
C07's constraint theorems establish (`C07.constraints_any_order_establish_premises`) and from which
`C07.output_monotone` / `output_bounded` follow. -/
theorem kfl_zero_iff_c07 (L : Nat) (ms : List Bool) (lo hi : Option Rat) (K : List (List (List Rat)))
    (scale : List Rat) (hsl : K.length ≤ scale.length) (hsh : ∀ kt ∈ K, Kfl.TermShape L ms kt) :
    (KflFeasibleEps ms lo hi K scale 0 ∧ (ms.any id = true → ∀ kt ∈ K, Kfl.AllNonneg kt)) ↔
      (Kfl.KOk L ms lo hi ⟨K, scale⟩ ∧ Kfl.SOk lo hi scale) := by
  have hb : (∀ kt ∈ K, TermBoundOkEps lo hi 0 kt) ↔ Kfl.BoundOkK lo hi K := by
    unfold Kfl.BoundOkK TermBoundOkEps Kfl.TermBoundOk
    cases lo <;> cases hi <;> simp
  unfold KflFeasibleEps Kfl.KOk
  rw [hb]
  simp only
  constructor
  · rintro ⟨⟨hA, hB, hS⟩, hG⟩
    refine ⟨⟨fun hany => ?_, hB⟩, hS⟩
    rw [kernelOk_iff L ms K scale hsl]
    intro t ht
    have hkt := getD_mem' K t [] ht
    rw [dimsOk_iff]
    refine ⟨(hsh _ hkt).1.symm, fun d hd => ⟨hG hany _ hkt _ (getD_mem' _ d [] hd), fun hm => ?_⟩⟩
    exact ⟨(hsh _ hkt).2 _ (getD_mem' _ d [] hd), (nondecEps_zero _).mp (hA t ht d hm hd)⟩
  · rintro ⟨⟨hK, hB⟩, hS⟩
    refine ⟨⟨fun t ht d hm hd => ?_, hB, hS⟩, fun hany => ?_⟩
    · have hany : ms.any id = true := C07.any_of_getD ms d hm
      have := ((dimsOk_iff _ _ _ _).mp ((kernelOk_iff L ms K scale hsl).mp (hK hany) t ht)).2 d hd
      exact (nondecEps_zero _).mpr (this.2 hm).2
    · rw [forall_mem_iff_getD K []]
      intro t ht
      exact Kfl.DimsOk.allNonneg ((kernelOk_iff L ms K scale hsl).mp (hK hany) t ht)

/-- **feasible ⇒ accepted (KFL).** A (kernel, scale) meeting the premises of C07 is accepted by the
assert at `eps = 0`. -/
theorem kfl_premises_accepted (ls dims terms : Nat) (monos : List Int) (hml : monos.length = dims)
    (lo hi : Option Rat) (w K : List (List (List Rat))) (hT : KflTransposed ls dims terms w K)
    (scale : List Rat) (hsl : K.length ≤ scale.length)
    (hK : Kfl.KOk ls (monos.map (fun m => decide (m ≠ 0))) lo hi ⟨K, scale⟩) (hS : Kfl.SOk lo hi scale) :
    acceptsKfl ls dims terms monos lo hi w scale 0 = true := by
  have hsh : ∀ kt ∈ K, Kfl.TermShape ls (monos.map (fun m => decide (m ≠ 0))) kt := fun kt hkt =>
    ⟨by rw [hT.nDims kt hkt, List.length_map, hml], hT.nKeys kt hkt⟩
  exact (kfl_eps_iff ls dims terms monos hml lo hi w K hT scale 0).mpr
    ((kfl_zero_iff_c07 ls _ lo hi K scale hsl hsh).mpr ⟨hK, hS⟩).1

/-- **accepted ⇒ feasible (KFL)**, given the clause the assert does not test (all factor weights `≥ 0`
when some dimension is monotone): accepted at `eps = 0` ⇒ the premises of C07, hence the layer is
monotone and bounded (`C07.output_monotone`, `C07.output_bounded`). -/
theorem kfl_accepted_premises (ls dims terms : Nat) (monos : List Int) (hml : monos.length = dims)
    (lo hi : Option Rat) (w K : List (List (List Rat))) (hT : KflTransposed ls dims terms w K)
    (scale : List Rat) (hsl : K.length ≤ scale.length)
    (hsign : (monos.map (fun m => decide (m ≠ 0))).any id = true → ∀ kt ∈ K, Kfl.AllNonneg kt)
    (h : acceptsKfl ls dims terms monos lo hi w scale 0 = true) :
    Kfl.KOk ls (monos.map (fun m => decide (m ≠ 0))) lo hi ⟨K, scale⟩ ∧ Kfl.SOk lo hi scale := by
  have hsh : ∀ kt ∈ K, Kfl.TermShape ls (monos.map (fun m => decide (m ≠ 0))) kt := fun kt hkt =>
    ⟨by rw [hT.nDims kt hkt, List.length_map, hml], hT.nKeys kt hkt⟩
  exact (kfl_zero_iff_c07 ls _ lo hi K scale hsl hsh).mp
    ⟨(kfl_eps_iff ls dims terms monos hml lo hi w K hT scale 0).mp h, hsign⟩

/-- **composition C07 ∘ C12: after the KFL constraints have both been applied (any order, any
repetition — the hypotheses of `C07.constraints_any_order_establish_premises`) the assert accepts the
layer's weights at `eps = 0`.** `w` is the final kernel in the assert's layout (`hT`; that the run
keeps the full shape is a hypothesis here). -/
theorem kfl_constraints_accepted (ls dims terms : Nat) (monos : List Int) (hml : monos.length = dims)
    (lo hi : Option Rat) (hlh : ∀ l h, lo = some l → hi = some h → l ≤ h) (st : Kfl.State)
    (ops : List Kfl.Op)
    (hv : Kfl.ValidRun ls (monos.map (fun m => decide (m ≠ 0))) lo hi st ops) (hKc : Kfl.HasConsK ops)
    (hSc : Kfl.Op.consS ∈ ops) (w : List (List (List Rat)))
    (hT : KflTransposed ls dims terms w (Kfl.runOps (monos.map (fun m => decide (m ≠ 0))) lo hi st ops).K)
    (hsl : (Kfl.runOps (monos.map (fun m => decide (m ≠ 0))) lo hi st ops).K.length ≤
      (Kfl.runOps (monos.map (fun m => decide (m ≠ 0))) lo hi st ops).scale.length) :
    acceptsKfl ls dims terms monos lo hi w
      (Kfl.runOps (monos.map (fun m => decide (m ≠ 0))) lo hi st ops).scale 0 = true := by
  obtain ⟨h1, h2⟩ := C07.constraints_any_order_establish_premises ls _ lo hi hlh st ops hv hKc hSc
  exact kfl_premises_accepted ls dims terms monos hml lo hi w _ hT _ hsl h1 h2

/-- **coverage gap (not a C12 violation: kernel sign is not among the covered kinds without a single
bound).** Two keypoints, dimension 0 monotone, no bounds, one term, scale 1, factor columns
`[−2, −1]` (increasing) and `[−1, −1]`: the assert accepts at `eps = 0`, the premise `KOk` of C07
fails, and the layer's function DEcreases in the monotone input: `f(0,0) = 2 > 1 = f(1,0)`. The real
`KroneckerFactoredLattice.assert_constraints` accepts this kernel too and the real layer returns 2 and 1. -/
theorem kfl_kernel_sign_not_asserted :
    acceptsKfl 2 2 1 [1, 0] none none [[[-2], [-1]], [[-1], [-1]]] [1] 0 = true ∧
    KflTransposed 2 2 1 [[[-2], [-1]], [[-1], [-1]]] [[[-2, -1], [-1, -1]]] ∧
    ¬ Kfl.KOk 2 [true, false] none none ⟨[[[-2, -1], [-1, -1]]], [1]⟩ ∧
    Kfl.eval 2 false [[[-2, -1], [-1, -1]]] [1] 0 [0, 0] = 2 ∧
    Kfl.eval 2 false [[[-2, -1], [-1, -1]]] [1] 0 [1, 0] = 1 := by
  refine ⟨by decide +kernel, ⟨rfl, by decide, by decide, ?_⟩, ?_, by decide +kernel, by decide +kernel⟩
  · intro k hk d hd t ht
    have : t = 0 := by omega
    subst this
    interval_cases k <;> interval_cases d <;> rfl
  · intro h
    have := (h.1 rfl).1.1.1 (-2) (by simp)
    norm_num at this

/-! ### non-vacuity (KFL) -/
-- both sides of `kfl_eps_iff` at eps = 1/8: the monotone column dips by 1/16, max output 17/16
example : acceptsKfl 2 2 1 [1, 0] (some 0) (some 2) [[[1/2], [1]], [[7/16], [17/16]]] [1] (1/8) = true := by
  decide +kernel
example : acceptsKfl 2 2 1 [1, 0] (some 0) (some 2) [[[1/2], [1]], [[7/16], [17/16]]] [1] 0 = false := by
  decide +kernel
-- premises of C07 hold ⇒ accepted: feasible kernel, both bounds
example : Kfl.KOk 2 [true, false] (some 0) (some 2) ⟨[[[1/4, 1/2], [1, 1]]], [1]⟩ ∧
    Kfl.SOk (some 0) (some 2) [1] := by
  refine (kfl_accepted_premises 2 2 1 [1, 0] rfl (some 0) (some 2) [[[1/4], [1]], [[1/2], [1]]]
    [[[1/4, 1/2], [1, 1]]] ⟨rfl, by decide, by decide, ?_⟩ [1] (by simp) ?_ (by decide +kernel))
  · intro k hk d hd t ht
    have : t = 0 := by omega
    subst this
    interval_cases k <;> interval_cases d <;> rfl
  · intro _ kt hkt col hcol v hv
    simp at hkt; subst hkt
    simp at hcol
    rcases hcol with rfl | rfl <;> simp at hv <;> rcases hv with rfl | rfl <;> norm_num

/-! ## Hypothesis-free forms, all units, and the property's two directions in words -/

/-- the assert's kernel re-indexed into C07's layout -/
def kflToK (ls dims terms : Nat) (w : List (List (List Rat))) : List (List (List Rat)) :=
  (List.range terms).map fun t => (List.range dims).map fun d => (List.range ls).map fun k => get3 w k d t
/-- C07's kernel re-indexed into the assert's layout -/
def kflToW (ls dims terms : Nat) (K : List (List (List Rat))) : List (List (List Rat)) :=
  (List.range ls).map fun k => (List.range dims).map fun d => (List.range terms).map fun t => get3 K t d k

theorem kflToK_transposed (ls dims terms : Nat) (w : List (List (List Rat))) :
    KflTransposed ls dims terms w (kflToK ls dims terms w) := by
  refine ⟨by simp [kflToK], ?_, ?_, ?_⟩
  · intro kt hkt
    simp only [kflToK, List.mem_map, List.mem_range] at hkt
    obtain ⟨t, _, rfl⟩ := hkt
    simp
  · intro kt hkt col hcol
    simp only [kflToK, List.mem_map, List.mem_range] at hkt
    obtain ⟨t, _, rfl⟩ := hkt
    simp only [List.mem_map, List.mem_range] at hcol
    obtain ⟨d, _, rfl⟩ := hcol
    simp
  · intro k hk d hd t ht
    simp [kflToK, get3, List.getD, hk, hd, ht]

theorem kflToW_transposed (ls dims terms : Nat) (K : List (List (List Rat))) (h1 : K.length = terms)
    (h2 : ∀ kt ∈ K, kt.length = dims) (h3 : ∀ kt ∈ K, ∀ col ∈ kt, col.length = ls) :
    KflTransposed ls dims terms (kflToW ls dims terms K) K :=
  ⟨h1, h2, h3, fun k hk d hd t ht => by simp [kflToW, get3, List.getD, hk, hd, ht]⟩

/-- **`kfl_eps_iff` for EVERY kernel tensor, no hypothesis on the kernel** (the transposed kernel is
computed): per unit, and for the whole layer (all units, `kfl_layer_iff`). -/
theorem kfl_eps_iff_all (ls dims terms : Nat) (monos : List Int) (hml : monos.length = dims)
    (lo hi : Option Rat) (w : List (List (List Rat))) (scale : List Rat) (eps : Rat) :
    acceptsKfl ls dims terms monos lo hi w scale eps = true ↔
      KflFeasibleEps (monos.map (fun m => decide (m ≠ 0))) lo hi (kflToK ls dims terms w) scale eps :=
  kfl_eps_iff ls dims terms monos hml lo hi w _ (kflToK_transposed ls dims terms w) scale eps

theorem kfl_layer_eps_iff (ls dims terms : Nat) (monos : List Int) (hml : monos.length = dims)
    (lo hi : Option Rat) (us : List (List (List (List Rat)) × List Rat)) (eps : Rat) :
    acceptsKflLayer ls dims terms monos lo hi us eps = true ↔
      ∀ u ∈ us, KflFeasibleEps (monos.map (fun m => decide (m ≠ 0))) lo hi (kflToK ls dims terms u.1) u.2 eps := by
  rw [kfl_layer_iff]
  exact forall_congr' fun u => imp_congr_right fun _ => kfl_eps_iff_all ls dims terms monos hml lo hi u.1 u.2 eps

/-- **PWL, the whole layer (all units; fixed or learned-interior keypoints, not cyclic; no learned
missing output): accepted with tolerance `eps` iff EVERY unit column lies in `PwlFeasibleEps … eps`** —
whichever unit offends. Columns are given as `(bias, heights)`. -/
theorem pwl_layer_eps_iff (mono : Int) (lo hi : Option Rat) (cmin cmax : Bool) (cfg : PwlEval.Cfg)
    (hc : cfg.isCyclic = false) (cols : List (Rat × List Rat)) (mouts : List Rat) (eps : Rat) :
    acceptsPwlLayer mono lo hi cmin cmax false cfg (cols.map fun c => c.1 :: c.2) mouts eps = true ↔
      ∀ c ∈ cols, PwlFeasibleEps mono lo hi cmin cmax c.1 c.2 eps := by
  rw [pwl_layer_iff_units _ _ _ _ _ _ _ _ _ _ hc, forall_mem_iff_getD cols (0, [])]
  simp only [List.length_map, Bool.false_eq_true, if_false]
  refine forall_congr' fun u => imp_congr_right fun hu => ?_
  have : (cols.map fun c => c.1 :: c.2).getD u [] = (cols.getD u (0, [])).1 :: (cols.getD u (0, [])).2 := by
    simp [List.getD, hu]
  rw [this, pwl_eps_iff]

/-- C04 ∘ C12 at every `eps ≥ 0`: what the PWL constraint returns is accepted with any non-negative
tolerance (in particular the default `eps = 1e-6`) -/
theorem pwl_projection_accepted_eps (c : PwlProj.Cfg) (hc : PwlProj.CfgOk c) (lo hi : Option Rat)
    (cmin cmax : Bool) (lk : PwlLink c lo hi cmin cmax) (L : List Rat) (hl : PwlProj.AllPos L) (it : Nat)
    (b : Rat) (hs : List Rat)
    (hclamp : (c.minC = .clamped ∨ c.maxC = .clamped) → c.conv = 0 ∧ 1 ≤ it ∧ hs ≠ [])
    (out : Rat × List Rat) (h : PwlProj.projectAll c L it b hs = .ok out) (eps : Rat) (he : 0 ≤ eps) :
    acceptsPwl c.mono lo hi cmin cmax none (out.1 :: out.2) eps = true := by
  have h0 := pwl_projection_accepted c hc lo hi cmin cmax lk L hl it b hs hclamp out h
  rw [pwl_eps_iff] at h0 ⊢
  exact pwlFeasibleEps_mono _ _ _ _ _ _ _ 0 eps he h0

/-- **the property's "fails whenever a covered constraint is violated by more than eps", for the clamp
clauses**: with `clamp_min`, if EVERY keypoint output stays more than `eps` above `output_min` the
assert rejects; likewise `clamp_max`. (Bounds and monotonicity: the same contrapositive of `pwl_eps_iff`.) -/
theorem pwl_clamp_violation_rejected (mono : Int) (lo hi : Option Rat) (cmin cmax : Bool) (b : Rat)
    (hs : List Rat) (eps : Rat) :
    (∀ l, lo = some l → cmin = true → (∀ y ∈ PwlProj.outputs b hs, l + eps < y) →
      acceptsPwl mono lo hi cmin cmax none (b :: hs) eps = false) ∧
    (∀ u, hi = some u → cmax = true → (∀ y ∈ PwlProj.outputs b hs, y < u - eps) →
      acceptsPwl mono lo hi cmin cmax none (b :: hs) eps = false) := by
  constructor
  · intro l hl hc hfar
    rw [Bool.eq_false_iff, ne_eq, pwl_eps_iff]
    rintro ⟨_, h2, _⟩
    obtain ⟨y, hy, hle⟩ := (h2 l hl).2 hc
    linarith [hfar y hy]
  · intro u hu hc hfar
    rw [Bool.eq_false_iff, ne_eq, pwl_eps_iff]
    rintro ⟨_, _, h3⟩
    obtain ⟨y, hy, hle⟩ := (h3 u hu).2 hc
    linarith [hfar y hy]

-- two units, the second one misses `clamp_min` by 1/4 > eps: the layer is rejected; within eps: accepted
example : acceptsPwlLayer 1 (some 0) (some 1) true false false
    { inputKeypoints := [0, 1, 2], learned := false, isCyclic := false, imputeMissing := false, missingInputValue := none } [[0, 1/2, 1/4], [1/4, 1/2, 1/4]] [] (1/8) = false := by
  decide +kernel
example : acceptsPwlLayer 1 (some 0) (some 1) true false false
    { inputKeypoints := [0, 1, 2], learned := false, isCyclic := false, imputeMissing := false, missingInputValue := none } [[0, 1/2, 1/4], [1/16, 1/2, 1/4]] [] (1/8) = true := by
  decide +kernel
example : kflToK 2 2 1 [[[-2], [-1]], [[-1], [-1]]] = [[[-2, -1], [-1, -1]]] := by decide +kernel

end Tfl.C12
