import TflModel.Lemmas.LatticeEval
import TflModel.Lemmas.LatticeSimplex
/-!
# C02 — Lattice output is exact hypercube / simplex interpolation, inheriting kernel shape

Model: `Tfl.LatticeEval` (lattice_lib.py:32-413; one unit column, one example — units and
examples are independent rows/columns of the same ops, see C09). The kernel of a unit is the flat
row-major list `kernelOf sizes K = (allIdx sizes).map K` of a function `K` on multi-indices.
`evalRec sizes x K` is THE multilinear interpolant (iterated 1-D interpolation, L2); for
`j ≤ x_d ≤ j+1` it is the chord between the neighbouring grid values (`C02_T2_cell`).
Simplex: `walkK K 1 lower sorted` is the sorted-simplex interpolant on MULTI-INDICES (weights = gaps
of the descending residuals, vertices `lower + e_{σ1} + … + e_{σk}`); `C02_T3_simplex_index_bridge`
proves the code's flat offset/strides/cumsum/gather pipeline equal to it, and from there: range,
agreement with the hypercube scheme on vertices and axis-parallel edges, tie-independence and
all-pairs monotonicity (`C02_T4_simplex_mono`). Lemmas: `Lemmas/LatticeEval.lean` (L1, L2, code
paths), `Lemmas/LatticeSimplex.lean` (ravel/strides, tie-independence, insertion monotonicity,
cell faces).
Every statement is for all ranks, sizes, rational kernels and rational points.
Continuity across cells / simplex regions as explicit Lipschitz and ε–δ theorems: `Props/C02Lip.lean` (`C02_T6_*`).

SCOPE. Every theorem that speaks about a cell, convexity, range or monotonicity carries
`Defined clipOn sizes x` (`x` has the lattice's rank and is in range, or `clip_inputs` is on) for EACH
point it mentions. The case `clip_inputs=False` with a coordinate outside `[0, size_d − 1]` is OUTSIDE
property C02: the property interpolates "the cell containing the point, with out-of-range coordinates
clipped onto the lattice when clip_inputs is on" and bounds "the output for in-range or clipped
inputs"; an unclipped out-of-range point has no containing cell. The exclusion is necessary:
`Props/C02Outside.lean` gives counter-witnesses (`*_needs_defined`) — there the code extrapolates with
the outermost hat weights (general path), linearly (all-2 tensor path; tensor and list input differ), or
gathers out-of-bounds / wrong vertices (simplex) — and the harness compares model and real code on such
points on every run (class `outside:clip_off_out_of_range`), the T1 statements (`C02_T1_oneD_paths`,
`C02_T1_weights`, `C02_T1_hypercube_eq_interp` with their third disjunct) still describing what is
computed there. Cell support of the weights ("convex combination of the CELL's corners") and Edgeworth
for arbitrary axes / both directions: `Props/C02Cell.lean`.
-/
namespace Tfl.C02
open Tfl Tfl.LatticeEval

/-- flat row-major kernel column of the function `K` -/
def kernelOf (sizes : List Nat) (K : W) : List ℚ := (allIdx sizes).map K
/-- the point the code interpolates at: clipped onto the lattice iff `clip_inputs` -/
def effPoint (clipOn : Bool) (sizes : List Nat) (x : List ℚ) : List ℚ :=
  if clipOn then clipOntoRange sizes x else x
/-- the input is "in-range or clipped" -/
def Defined (clipOn : Bool) (sizes : List Nat) (x : List ℚ) : Prop :=
  x.length = sizes.length ∧ (clipOn = true ∨ InRange sizes x)

theorem effPoint_length {clipOn : Bool} {sizes : List Nat} {x : List ℚ} (h : x.length = sizes.length) :
    (effPoint clipOn sizes x).length = sizes.length := by
  unfold effPoint; split_ifs
  · exact length_clipOntoRange sizes x h
  · exact h

theorem effPoint_inRange {clipOn : Bool} {sizes : List Nat} {x : List ℚ} (hs : ∀ n ∈ sizes, 2 ≤ n)
    (h : Defined clipOn sizes x) : InRange sizes (effPoint clipOn sizes x) := by
  unfold effPoint
  rcases h with ⟨hl, hc | hr⟩
  · simp only [hc, if_true]
    exact inRange_clip sizes x hl (fun n hn => by have := hs n hn; omega)
  · split_ifs
    · rw [clip_of_inRange sizes x hr]; exact hr
    · exact hr

/-! ## T1 — every code path computes the outer-product weights; output = multilinear interpolation -/

/-- T1 (paths): the list of 1-D weight vectors built by `compute_interpolation_weights` — all-2 fast
path `[1-x, x]` (+clip), bucketised single-tensor path, list-of-tensors path — is, for in-range or
clipped inputs, always the hat weights `1 - min(|x_d - i|, 1)` of the (clipped) point. The general
paths agree with it for EVERY input (third disjunct). -/
theorem C02_T1_oneD_paths (form : InputForm) (clipOn : Bool) (sizes : List Nat) (x : List ℚ)
    (hl : x.length = sizes.length)
    (h : clipOn = true ∨ InRange sizes x ∨ ¬ (allTwo sizes = true ∧ form = .tensor)) :
    oneDWeights form clipOn sizes x = generalWeightsList sizes (effPoint clipOn sizes x) := by
  unfold oneDWeights effPoint
  by_cases hf : allTwo sizes = true ∧ form = .tensor
  · have hcond : (allTwo sizes && decide (form = InputForm.tensor)) = true := by simp [hf.1, hf.2]
    have hcond' : (allTwo sizes && form == InputForm.tensor) = true := by simpa using hcond
    rw [if_pos hcond']
    cases clipOn with
    | true => simpa using fastWeights_clip sizes x hf.1 hl
    | false =>
      rcases h with h | h | h
      · cases h
      · simpa using fastWeights_noclip sizes x hf.1 h
      · exact absurd hf h
  · have hcond' : ¬ ((allTwo sizes && form == InputForm.tensor) = true) := by
      intro hc; apply hf
      simpa using hc
    rw [if_neg hcond']
    have hl' : (if clipOn = true then clipOntoRange sizes x else x).length = sizes.length := by
      split_ifs
      · exact length_clipOntoRange sizes x hl
      · exact hl
    cases form with
    | tensor => exact generalWeightsTensor_eq sizes _ hl'
    | list => rfl

/-- T1 (ordering): the weight vector of `compute_interpolation_weights` lists, in the row-major
order of the kernel, the products of the 1-D hat weights. -/
theorem C02_T1_weights (form : InputForm) (clipOn : Bool) (sizes : List Nat) (x : List ℚ)
    (hs : sizes ≠ []) (hl : x.length = sizes.length)
    (h : clipOn = true ∨ InRange sizes x ∨ ¬ (allTwo sizes = true ∧ form = .tensor)) :
    hypercubeWeights form clipOn sizes x = (allIdx sizes).map (prodW (effPoint clipOn sizes x)) := by
  unfold hypercubeWeights
  rw [C02_T1_oneD_paths form clipOn sizes x hl h]
  have hne : generalWeightsList sizes (effPoint clipOn sizes x) ≠ [] := by
    intro he
    have := congrArg List.length he
    simp [generalWeightsList, effPoint_length hl] at this
    exact hs this
  rw [batchOuter_eq_outerR _ hne]
  exact outerR_oneD sizes _ (effPoint_length hl)

/-- T1: the hypercube output IS the multilinear interpolant (iterated 1-D interpolation, L2) of the
kernel at the (clipped) point — for every rank, shape, path and kernel. -/
theorem C02_T1_hypercube_eq_interp (form : InputForm) (clipOn : Bool) (sizes : List Nat) (K : W)
    (x : List ℚ) (hs : sizes ≠ []) (hl : x.length = sizes.length)
    (h : clipOn = true ∨ InRange sizes x ∨ ¬ (allTwo sizes = true ∧ form = .tensor)) :
    hypercubeValue form clipOn sizes (kernelOf sizes K) x = evalRec sizes (effPoint clipOn sizes x) K := by
  unfold hypercubeValue kernelOf
  rw [C02_T1_weights form clipOn sizes x hs hl h, dot_map]
  exact evalFlat_eq_evalRec sizes _ K (effPoint_length hl)

/-- T1 (paths equal as functions): tensor input and list-of-tensors input give the same weights
for in-range or clipped inputs. (Clip off and out of range — outside the property — they DIFFER on
all-2 lattices: `outside_forms_differ`, `C02_T1_forms_agree_needs_defined`.) -/
theorem C02_T1_forms_agree (clipOn : Bool) (sizes : List Nat) (x : List ℚ) (hs : sizes ≠ [])
    (h : Defined clipOn sizes x) :
    hypercubeWeights .tensor clipOn sizes x = hypercubeWeights .list clipOn sizes x := by
  have h' : ∀ form, clipOn = true ∨ InRange sizes x ∨ ¬ (allTwo sizes = true ∧ form = InputForm.tensor) :=
    fun _ => h.2.elim Or.inl (fun r => Or.inr (Or.inl r))
  rw [C02_T1_weights .tensor clipOn sizes x hs h.1 (h' _), C02_T1_weights .list clipOn sizes x hs h.1 (h' _)]

/-- the `Except` wrapper returns the value exactly when `verify_hyperparameters` accepts -/
theorem C02_T1_evalHypercube_ok (form : InputForm) (clipOn : Bool) (sizes : List Nat) (kernel x : List ℚ)
    (hs : ∀ n ∈ sizes, 2 ≤ n) (hl : x.length = sizes.length) :
    evalHypercube form clipOn sizes kernel x = .ok (hypercubeValue form clipOn sizes kernel x) := by
  unfold evalHypercube verify
  have : (sizes.all fun n => decide (2 ≤ n)) = true := by simpa using hs
  simp [this, hl]

/-! ## T2 — vertex reproduction, convex weights, range, cell formula -/

private theorem defined_disj {clipOn : Bool} {sizes : List Nat} {x : List ℚ} {form : InputForm}
    (h : Defined clipOn sizes x) :
    clipOn = true ∨ InRange sizes x ∨ ¬ (allTwo sizes = true ∧ form = .tensor) :=
  h.2.elim Or.inl (fun r => Or.inr (Or.inl r))

/-- T2: at a vertex the output is exactly that vertex's weight. -/
theorem C02_T2_vertex (form : InputForm) (clipOn : Bool) (sizes : List Nat) (K : W) (idx : Idx)
    (hs : sizes ≠ []) (hi : idx ∈ allIdx sizes) :
    hypercubeValue form clipOn sizes (kernelOf sizes K) (idx.map (fun (v : Nat) => (v : ℚ))) = K idx := by
  have hr := inRange_vertex sizes idx hi
  rw [C02_T1_hypercube_eq_interp form clipOn sizes K _ hs hr.length_eq (Or.inr (Or.inl hr))]
  have : effPoint clipOn sizes (idx.map (fun (v : Nat) => (v : ℚ))) = idx.map (fun (v : Nat) => (v : ℚ)) := by
    unfold effPoint; split_ifs
    · exact clip_of_inRange sizes _ hr
    · rfl
  rw [this]
  exact evalRec_vertex sizes idx K hi

/-- T2: for in-range or clipped inputs the interpolation weights are ≥ 0 and sum to 1 — the output
is a convex combination of kernel values (that only the corners of the cell containing the point
carry weight: `C02_T2_cell_corners`, `C02_T2_weights_vanish_off_cell`). `clip_inputs=False` with an
out-of-range coordinate is outside the property; `Defined` cannot be dropped
(`C02_T2_convex_weights_needs_defined`: weights `[3/2, −1/2]`, resp. sum `1/2`). -/
theorem C02_T2_convex_weights (form : InputForm) (clipOn : Bool) (sizes : List Nat) (x : List ℚ)
    (hs : sizes ≠ []) (hs2 : ∀ n ∈ sizes, 2 ≤ n) (h : Defined clipOn sizes x) :
    (∀ w ∈ hypercubeWeights form clipOn sizes x, 0 ≤ w) ∧ rsum (hypercubeWeights form clipOn sizes x) = 1 := by
  rw [C02_T1_weights form clipOn sizes x hs h.1 (defined_disj h)]
  constructor
  · intro w hw
    obtain ⟨idx, _, rfl⟩ := List.mem_map.mp hw
    exact prodW_nonneg _ idx
  · have h1 := evalFlat_eq_evalRec sizes (effPoint clipOn sizes x) (fun _ => 1) (effPoint_length h.1)
    rw [evalRec_const sizes _ 1 (effPoint_inRange hs2 h)] at h1
    simpa [evalFlat] using h1

/-- T2: the output for in-range or clipped inputs never leaves `[min kernel, max kernel]`
(stated with arbitrary bounds `lo ≤ K ≤ hi` on the vertices). The property claims this for "in-range
or clipped inputs" only; without `Defined` it is false (`C02_T2_range_needs_defined`: constant kernel 1,
`clip_inputs=False`, `x = 5/2` on `[3]` gives `1/2`). -/
theorem C02_T2_range (form : InputForm) (clipOn : Bool) (sizes : List Nat) (K : W) (x : List ℚ) (lo hi : ℚ)
    (hs : sizes ≠ []) (hs2 : ∀ n ∈ sizes, 2 ≤ n) (h : Defined clipOn sizes x)
    (hK : ∀ idx ∈ allIdx sizes, lo ≤ K idx ∧ K idx ≤ hi) :
    lo ≤ hypercubeValue form clipOn sizes (kernelOf sizes K) x ∧
      hypercubeValue form clipOn sizes (kernelOf sizes K) x ≤ hi := by
  rw [C02_T1_hypercube_eq_interp form clipOn sizes K x hs h.1 (defined_disj h)]
  exact evalRec_bounds sizes _ K lo hi (effPoint_inRange hs2 h) hK

/-- T2 (cell formula ⇒ continuity): along any axis `d`, for `j ≤ x_d ≤ j+1` the output is the chord
`(1-t)·f(x_d := j) + t·f(x_d := j+1)`, `t = x_d - j`; the formulas of two neighbouring cells both
hold on the common face `x_d = j+1` (closed intervals), so the output is continuous across cells. -/
theorem C02_T2_cell (form : InputForm) (sizes : List Nat) (K : W) (x : List ℚ) (d j : Nat)
    (hs : sizes ≠ []) (hx : InRange sizes x) (hj : j + 1 < sizes.getD d 0)
    (h1 : (j : ℚ) ≤ x.getD d 0) (h2 : x.getD d 0 ≤ (j : ℚ) + 1) (clipOn : Bool) :
    hypercubeValue form clipOn sizes (kernelOf sizes K) x
      = (1 - (x.getD d 0 - j)) * evalRec sizes (x.set d (j : ℚ)) K
        + (x.getD d 0 - j) * evalRec sizes (x.set d ((j : ℚ) + 1)) K := by
  rw [C02_T1_hypercube_eq_interp form clipOn sizes K x hs hx.length_eq (Or.inr (Or.inl hx))]
  have : effPoint clipOn sizes x = x := by
    unfold effPoint; split_ifs
    · exact clip_of_inRange sizes _ hx
    · rfl
  rw [this]
  exact evalRec_cell sizes d x K j hx.length_eq hj h1 h2

/-! ## T4 (hypercube) — monotone kernel ⇒ monotone output, for ALL pairs of points -/

private theorem size_ge_two {sizes : List Nat} (hs2 : ∀ n ∈ sizes, 2 ≤ n) {d : Nat} (hd : d < sizes.length) :
    2 ≤ sizes.getD d 0 := by
  have : sizes.getD d 0 = sizes[d] := by simp [List.getD_eq_getElem?_getD, hd]
  rw [this]
  exact hs2 _ (List.getElem_mem hd)

/-- T4 (hypercube): if the kernel is non-decreasing along dimension `d`, then for EVERY pair of
points that differ only in coordinate `d` (`x_d ≤ v`, any distance apart, any cells) and are
in-range or clipped, the output does not decrease. Via the PWL ramp form — no floors.
"Every pair of points" of the property = every pair of in-range or clipped points: with
`clip_inputs=False` and a point outside the range (outside the property: no containing cell) the
statement is false for either point (`C02_T4_hypercube_mono_needs_defined_upper` / `_lower`: kernel
`[0, 1, 2]`, `f(2) = 2 > f(5/2) = 1`; all-2 fast path `outside_fastpath_decreases`). -/
theorem C02_T4_hypercube_mono (form : InputForm) (clipOn : Bool) (sizes : List Nat) (K : W) (x : List ℚ)
    (d : Nat) (v : ℚ) (hs : sizes ≠ []) (hs2 : ∀ n ∈ sizes, 2 ≤ n) (hd : d < sizes.length)
    (hm : MonoAx sizes d K) (hx : Defined clipOn sizes x) (hx' : Defined clipOn sizes (x.set d v))
    (hv : x.getD d 0 ≤ v) :
    hypercubeValue form clipOn sizes (kernelOf sizes K) x
      ≤ hypercubeValue form clipOn sizes (kernelOf sizes K) (x.set d v) := by
  rw [C02_T1_hypercube_eq_interp form clipOn sizes K x hs hx.1 (defined_disj hx),
    C02_T1_hypercube_eq_interp form clipOn sizes K _ hs hx'.1 (defined_disj hx')]
  have hn : (2 : ℚ) ≤ (sizes.getD d 0 : ℚ) := by exact_mod_cast size_ge_two hs2 hd
  cases clipOn with
  | true =>
    simp only [effPoint, if_true]
    rw [clipOntoRange_set]
    have hb := clipV_bounds (x.getD d 0) (lo := 0) (hi := (sizes.getD d 0 : ℚ) - 1) (by linarith)
    have hb' := clipV_bounds v (lo := 0) (hi := (sizes.getD d 0 : ℚ) - 1) (by linarith)
    apply evalRec_mono_axis sizes d _ K _ (length_clipOntoRange sizes x hx.1) hd hm
    · rw [clipOntoRange_getD sizes x d hx.1 hd]; exact hb.1
    · rw [clipOntoRange_getD sizes x d hx.1 hd]; exact clipV_mono hv
    · exact hb'.2
  | false =>
    simp only [effPoint, Bool.false_eq_true, if_false]
    have hr : InRange sizes x := hx.2.elim (fun h => by cases h) id
    have hr' : InRange sizes (x.set d v) := hx'.2.elim (fun h => by cases h) id
    have h1 := inRange_getD sizes x d hr hd
    have h2 := inRange_getD sizes (x.set d v) d hr' hd
    have hdx : d < x.length := by rw [hx.1]; exact hd
    have hget : (x.set d v).getD d 0 = v := by simp [List.getD_eq_getElem?_getD, hdx]
    rw [hget] at h2
    exact evalRec_mono_axis sizes d x K v hx.1 hd hm h1.1 hv h2.2

/-! ## T5 (hypercube) — Edgeworth trust -/

/-- T5: with hypercube interpolation, a kernel satisfying the Edgeworth condition between the two
leading axes (for every position of the remaining axes; the condition is symmetric in main and
conditional feature) makes the effect `f(a', ·) - f(a, ·)` of the main feature non-decreasing in
the conditional feature, for ALL in-range or clipped point quadruples (other coordinates `zs`
fixed and arbitrary). Arbitrary distinct axes `(m, c)` and the negative trust direction:
`C02_T5_edgeworth_axes`, `C02_T5_edgeworth_axes_neg` (Props/C02Cell.lean); this theorem is their
instance `(0, 1)` (`edgeworth01_iff_axes`). Unclipped out-of-range points are outside the property. -/
theorem C02_T5_edgeworth (form : InputForm) (clipOn : Bool) (n m : Nat) (rest : List Nat) (K : W)
    (zs : List ℚ) (a a' b b' : ℚ) (hn : 2 ≤ n) (hm : 2 ≤ m) (hK : Edgeworth01 n m rest K)
    (h00 : Defined clipOn (n :: m :: rest) (a :: b :: zs)) (h10 : Defined clipOn (n :: m :: rest) (a' :: b :: zs))
    (h01 : Defined clipOn (n :: m :: rest) (a :: b' :: zs)) (h11 : Defined clipOn (n :: m :: rest) (a' :: b' :: zs))
    (ha : a ≤ a') (hb : b ≤ b') :
    hypercubeValue form clipOn (n :: m :: rest) (kernelOf (n :: m :: rest) K) (a' :: b :: zs)
        - hypercubeValue form clipOn (n :: m :: rest) (kernelOf (n :: m :: rest) K) (a :: b :: zs)
      ≤ hypercubeValue form clipOn (n :: m :: rest) (kernelOf (n :: m :: rest) K) (a' :: b' :: zs)
        - hypercubeValue form clipOn (n :: m :: rest) (kernelOf (n :: m :: rest) K) (a :: b' :: zs) := by
  have hs : (n :: m :: rest) ≠ [] := by simp
  rw [C02_T1_hypercube_eq_interp form clipOn _ K _ hs h00.1 (defined_disj h00),
    C02_T1_hypercube_eq_interp form clipOn _ K _ hs h10.1 (defined_disj h10),
    C02_T1_hypercube_eq_interp form clipOn _ K _ hs h01.1 (defined_disj h01),
    C02_T1_hypercube_eq_interp form clipOn _ K _ hs h11.1 (defined_disj h11)]
  have hz : zs.length = rest.length := by simpa using h00.1
  have hnq : (2 : ℚ) ≤ n := by exact_mod_cast hn
  have hmq : (2 : ℚ) ≤ m := by exact_mod_cast hm
  cases clipOn with
  | true =>
    simp only [effPoint, if_true, clipOntoRange, List.zipWith_cons_cons]
    have A := clipV_bounds a (lo := 0) (hi := (n : ℚ) - 1) (by linarith)
    have A' := clipV_bounds a' (lo := 0) (hi := (n : ℚ) - 1) (by linarith)
    have B := clipV_bounds b (lo := 0) (hi := (m : ℚ) - 1) (by linarith)
    have B' := clipV_bounds b' (lo := 0) (hi := (m : ℚ) - 1) (by linarith)
    exact evalRec_edgeworth n m rest K _ (by simpa [clipOntoRange] using length_clipOntoRange rest zs hz) hK
      A.1 (clipV_mono ha) A'.2 B.1 (clipV_mono hb) B'.2
  | false =>
    simp only [effPoint, Bool.false_eq_true, if_false]
    have r00 : InRange (n :: m :: rest) (a :: b :: zs) := h00.2.elim (fun h => by cases h) id
    have r11 : InRange (n :: m :: rest) (a' :: b' :: zs) := h11.2.elim (fun h => by cases h) id
    exact evalRec_edgeworth n m rest K zs hz hK r00.1.1 ha r11.1.2 r00.2.1.1 hb r11.2.1.2

/-! ## T3 — simplex interpolation -/

/-- residual vector / lower-corner offset / sorted (value, position) list / gather indices of the
simplex code at the (clipped) point -/
def sResid (clipOn : Bool) (sizes : List Nat) (x : List ℚ) : List ℚ :=
  (simplexSplit sizes (effPoint clipOn sizes x)).2
def sOffset (clipOn : Bool) (sizes : List Nat) (x : List ℚ) : Int :=
  (simplexSplit sizes (effPoint clipOn sizes x)).1
def sSorted (clipOn : Bool) (sizes : List Nat) (x : List ℚ) : List (ℚ × Nat) :=
  sortDesc (sResid clipOn sizes x).zipIdx
def sIndices (clipOn : Bool) (sizes : List Nat) (x : List ℚ) : List Int :=
  cumsumFrom 0 (sOffset clipOn sizes x ::
    (sSorted clipOn sizes x).map (fun p => (((stridesCode sizes).getD p.2 0 : Nat) : Int)))
/-- lower corner of the cell as a multi-index (all zeros for `2^d` lattices: no floor step) -/
def lowerIdx (clipOn : Bool) (sizes : List Nat) (x : List ℚ) : Idx :=
  cellIdx sizes (effPoint clipOn sizes x)

/-- T3: for in-range or clipped inputs the simplex weights (gaps between the descending sorted
residuals, padded with 1 and 0) are ≥ 0 and sum to 1: the simplex output is a convex combination
of `d+1` kernel entries. The sort is stable-descending; residuals lie in `[0,1]` also on the
outermost edge (`min(floor, size-2)`). -/
theorem C02_T3_simplex_weights (clipOn : Bool) (sizes : List Nat) (x : List ℚ) (hs2 : ∀ n ∈ sizes, 2 ≤ n)
    (h : Defined clipOn sizes x) :
    (∀ w ∈ simplexWeights ((sSorted clipOn sizes x).map (·.1)), 0 ≤ w) ∧
      rsum (simplexWeights ((sSorted clipOn sizes x).map (·.1))) = 1 :=
  simplexWeights_convex _ (simplexSplit_resid_mem sizes _ hs2 (effPoint_inRange hs2 h))

/-- T3: the sorted list is a permutation of the (residual, position) pairs, sorted descending. -/
theorem C02_T3_sorted (clipOn : Bool) (sizes : List Nat) (x : List ℚ) :
    (sSorted clipOn sizes x).Perm (sResid clipOn sizes x).zipIdx ∧ SortedDesc (sSorted clipOn sizes x) :=
  ⟨sortDesc_perm _, sortDesc_sorted _⟩

/-- T3: whenever no gather index leaves the kernel (otherwise the real code raises
InvalidArgument, as the model does), the code's pad / subtract / cumsum / gather / dot pipeline
equals the walk `Σ_k (s_{k-1} - s_k) · kernel[offset + stride_{σ1} + … + stride_{σk}]`. -/
theorem C02_T3_simplex_eq_walk (clipOn : Bool) (sizes : List Nat) (kernel x : List ℚ)
    (hv : verify sizes x = true)
    (hb : ∀ i ∈ sIndices clipOn sizes x, 0 ≤ i ∧ i.toNat < kernel.length) :
    evalSimplex clipOn sizes kernel x
      = .ok (walkF kernel (stridesCode sizes) 1 (sOffset clipOn sizes x) (sSorted clipOn sizes x)) := by
  have h := mapM_gatherAt_ok kernel _ hb
  have hp := pipeline_eq_walkF kernel (stridesCode sizes) (sSorted clipOn sizes x) 1 0 (sOffset clipOn sizes x)
  rw [zero_add] at hp
  unfold evalSimplex
  simp only [hv, if_true]
  simp only [sIndices, sOffset, sSorted, sResid, effPoint] at h hp
  rw [h]
  simp only [simplexWeights_eq]
  rw [hp]
  rfl

/-- the index-level reading of the simplex code: gathered entries are the kernel values along the
chain `lower, lower + e_{σ1}, lower + e_{σ1} + e_{σ2}, …` of MULTI-INDICES (`walkK` raises
coordinate `σ_k` of the current vertex by one at step `k`), with weights the gaps between the
sorted residuals — flat offsets, strides, cumsum and gather are gone. Proved below
(`C02_T3_simplex_index_bridge`). -/
def C02_simplex_index_bridge : Prop :=
  ∀ (clipOn : Bool) (sizes : List Nat) (K : W) (x : List ℚ), sizes ≠ [] → (∀ n ∈ sizes, 2 ≤ n) →
    Defined clipOn sizes x →
    evalSimplex clipOn sizes (kernelOf sizes K) x
      = .ok (walkK K 1 (lowerIdx clipOn sizes x) (sSorted clipOn sizes x))

/-- T3: the literal stride computation `np.cumprod([1] + sizes[::-1][:-1])[::-1]` gives
`stride_d = ∏_{e > d} size_e`. -/
theorem C02_T3_strides (sizes : List Nat) (hs : sizes ≠ []) : stridesCode sizes = strides sizes :=
  stridesCode_eq sizes hs

private theorem sorted_pos_lt (clipOn : Bool) (sizes : List Nat) (x : List ℚ) (hl : x.length = sizes.length) :
    ∀ i ∈ (sSorted clipOn sizes x).map (·.2), i < sizes.length := by
  intro i hi
  obtain ⟨p, hp, rfl⟩ := List.mem_map.mp hi
  have h1 : p ∈ (sResid clipOn sizes x).zipIdx := (sortDesc_perm _).mem_iff.mp hp
  have h2 := mem_zipIdx_snd_lt h1
  rwa [sResid, simplexSplit_resid_length sizes _ (effPoint_length hl)] at h2

private theorem verify_ok {sizes : List Nat} {x : List ℚ} (hs2 : ∀ n ∈ sizes, 2 ≤ n)
    (hl : x.length = sizes.length) : verify sizes x = true := by
  unfold verify
  have : (sizes.all fun n => decide (2 ≤ n)) = true := by simpa using hs2
  simp [this, hl]

/-- T3 (index bridge): for every in-range or clipped input no gather index leaves the kernel, and
the simplex output is `Σ_k (s_{k-1} - s_k) · K(lower + e_{σ1} + … + e_{σk})` — flat offset +
cumulative sorted strides IS the row-major index of that chain of multi-indices. -/
theorem C02_T3_simplex_index_bridge : C02_simplex_index_bridge := by
  intro clipOn sizes K x hne hs2 h
  have hy := effPoint_inRange hs2 h
  have hroom : Room sizes (lowerIdx clipOn sizes x) ((sSorted clipOn sizes x).map (·.2)) := by
    refine ⟨cellIdx_length sizes _ (effPoint_length h.1), fun i hi => ?_⟩
    have := cellIdx_room sizes _ hs2 hy i hi
    unfold lowerIdx
    split_ifs <;> omega
  have hnd : ((sSorted clipOn sizes x).map (·.2)).Nodup := sorted_snd_nodup _
  have hlt := sorted_pos_lt clipOn sizes x h.1
  have hoff : sOffset clipOn sizes x = ((ravel sizes (lowerIdx clipOn sizes x) : Nat) : Int) :=
    simplexSplit_offset sizes _ hne hs2 hy
  have hb : ∀ i ∈ sIndices clipOn sizes x, 0 ≤ i ∧ i.toNat < (kernelOf sizes K).length := by
    have := indices_ok sizes (sSorted clipOn sizes x) (lowerIdx clipOn sizes x) 0 (sOffset clipOn sizes x)
      (by rw [zero_add, hoff]) hroom hnd hlt
    intro i hi
    have hlen : (kernelOf sizes K).length = prodNat sizes := by simp [kernelOf, length_allIdx]
    rw [hlen]
    apply this
    simpa [sIndices, stridesCode_eq sizes hne] using hi
  rw [C02_T3_simplex_eq_walk clipOn sizes _ x (verify_ok hs2 h.1) hb, stridesCode_eq sizes hne, hoff]
  unfold kernelOf
  rw [walkF_eq_walkK sizes K _ 1 _ hroom hnd hlt]

/-- T3 (vertices, index level): if all residuals are 0 or 1 (the point is a vertex), the walk
returns the kernel value at the vertex `lower + Σ_{r_i = 1} e_i` — the value the hypercube scheme
returns there (`C02_T2_vertex`), whatever the tie-breaking of the sort. (Index-level lemma; the
statement about the two entry points is `C02_T3_agree_vertex`.) -/
theorem C02_T3_vertex_walk_partial (K : W) (P : Idx) (L : List (ℚ × Nat)) (hs : SortedDesc L)
    (h01 : ∀ p ∈ L, p.1 = 0 ∨ p.1 = 1) :
    walkK K 1 P L = K (bumpAll P ((L.filter (fun p => p.1 = 1)).map (·.2))) :=
  walkK_vertex K P L hs h01

/-- T3 (axis-parallel edges, index level): if all residuals are 0 or 1 except coordinate `d` with
`0 < t < 1`, the walk is the chord `(1-t)·K(v) + t·K(v + e_d)` between the two neighbouring
vertices — the hypercube cell formula (`C02_T2_cell` + `C02_T2_vertex`). (Index-level lemma; the
statement about the two entry points is `C02_T3_agree_edge`.) -/
theorem C02_T3_edge_walk_partial (K : W) (P : Idx) (L : List (ℚ × Nat)) (d : Nat) (t : ℚ) (hs : SortedDesc L)
    (hnd : (L.map (·.2)).Nodup) (hd : (t, d) ∈ L) (ht0 : 0 < t) (ht1 : t < 1)
    (h01 : ∀ p ∈ L, p.2 ≠ d → p.1 = 0 ∨ p.1 = 1) :
    walkK K 1 P L = (1 - t) * K (bumpAll P ((L.filter (fun p => p.1 = 1)).map (·.2)))
      + t * K (bump (bumpAll P ((L.filter (fun p => p.1 = 1)).map (·.2))) d) :=
  walkK_edge K P L d t hs hnd hd ht0 ht1 h01

/-- T3 (hypercube = simplex on vertices and axis-parallel edges, the two entry-point models): if
every coordinate of an in-range point except (possibly) coordinate `d` is an integer, then
`evaluate_with_simplex_interpolation` and `evaluate_with_hypercube_interpolation` return the same
value (any input form, any `clip_inputs`, endpoints of the edge included, outermost edge
included). -/
theorem C02_T3_agree_edge (form : InputForm) (clipOn : Bool) (sizes : List Nat) (K : W) (x : List ℚ) (d : Nat)
    (hne : sizes ≠ []) (hs2 : ∀ n ∈ sizes, 2 ≤ n) (hx : InRange sizes x) (hd : d < sizes.length)
    (hint : ∀ i, i < sizes.length → i ≠ d → ∃ k : Nat, x.getD i 0 = (k : ℚ)) :
    evalSimplex clipOn sizes (kernelOf sizes K) x
      = .ok (hypercubeValue form clipOn sizes (kernelOf sizes K) x) := by
  have hdef : Defined clipOn sizes x := ⟨hx.length_eq, Or.inr hx⟩
  have heff : effPoint clipOn sizes x = x := by
    unfold effPoint; split_ifs
    · exact clip_of_inRange sizes _ hx
    · rfl
  rw [C02_T3_simplex_index_bridge clipOn sizes K x hne hs2 hdef,
    C02_T1_hypercube_eq_interp form clipOn sizes K x hne hx.length_eq (Or.inr (Or.inl hx))]
  unfold lowerIdx sSorted sResid
  rw [heff]
  have hPl := cellIdx_length sizes x hx.length_eq
  have hrl := simplexSplit_resid_length sizes x hx.length_eq
  have hr := fun i hi => simplexSplit_resid_getD sizes x hs2 hx i hi
  have hmem := simplexSplit_resid_mem sizes x hs2 hx
  have h01 : ∀ i, i < sizes.length → i ≠ d →
      (simplexSplit sizes x).2.getD i 0 = 0 ∨ (simplexSplit sizes x).2.getD i 0 = 1 := by
    intro i hi hid
    obtain ⟨k, hk⟩ := hint i hi hid
    have hb := hmem _ (getD_mem_of_lt _ i (by rw [hrl]; exact hi))
    rw [hr i hi, hk] at hb ⊢
    have h1 : coord (cellIdx sizes x) i ≤ k := by
      have : ((coord (cellIdx sizes x) i : Nat) : ℚ) ≤ (k : ℚ) := by linarith [hb.1]
      exact_mod_cast this
    have h2 : k ≤ coord (cellIdx sizes x) i + 1 := by
      have : (k : ℚ) ≤ ((coord (cellIdx sizes x) i + 1 : Nat) : ℚ) := by push_cast; linarith [hb.2]
      exact_mod_cast this
    rcases Nat.lt_or_ge (coord (cellIdx sizes x) i) k with h | h
    · right
      have : k = coord (cellIdx sizes x) i + 1 := by omega
      rw [this]; push_cast; ring
    · left
      have : k = coord (cellIdx sizes x) i := by omega
      rw [this]; ring
  have ht := hmem _ (getD_mem_of_lt _ d (by rw [hrl]; exact hd))
  rw [simplex_edge_walk K (cellIdx sizes x) (simplexSplit sizes x).2 d (by rw [hrl, hPl])
      (by rw [hPl]; exact hd) (fun i hi => h01 i (by rw [← hPl]; exact hi)) ht,
    hyper_edge_value sizes K x (cellIdx sizes x) (simplexSplit sizes x).2 d hx.length_eq hPl hd
      (fun i hi => by rw [hr i hi]; ring) (cellIdx_room sizes x hs2 hx) h01 ht]

/-- T3 (vertices): at a vertex the simplex output is exactly that vertex's weight, hence equal to
the hypercube output. -/
theorem C02_T3_agree_vertex (form : InputForm) (clipOn : Bool) (sizes : List Nat) (K : W) (idx : Idx)
    (hne : sizes ≠ []) (hs2 : ∀ n ∈ sizes, 2 ≤ n) (hi : idx ∈ allIdx sizes) :
    evalSimplex clipOn sizes (kernelOf sizes K) (idx.map (fun (v : Nat) => (v : ℚ))) = .ok (K idx) ∧
    evalSimplex clipOn sizes (kernelOf sizes K) (idx.map (fun (v : Nat) => (v : ℚ)))
      = .ok (hypercubeValue form clipOn sizes (kernelOf sizes K) (idx.map (fun (v : Nat) => (v : ℚ)))) := by
  have h0 : 0 < sizes.length := List.length_pos_iff.mpr hne
  have := C02_T3_agree_edge form clipOn sizes K _ 0 hne hs2 (inRange_vertex sizes idx hi) h0
    (fun i _ _ => ⟨coord idx i, getD_castIdx idx i⟩)
  exact ⟨by rw [this, C02_T2_vertex form clipOn sizes K idx hne hi], this⟩

/-- T3 (range): for in-range or clipped inputs the simplex evaluation succeeds and its output never
leaves `[min kernel, max kernel]` (stated with arbitrary bounds `lo ≤ K ≤ hi` on the vertices).
Without `Defined` (clip off, out of range: outside the property) the evaluation may raise
`InvalidArgumentError` or leave the range (`outside_simplex`, `C02_T3_simplex_range_needs_defined`). -/
theorem C02_T3_simplex_range (clipOn : Bool) (sizes : List Nat) (K : W) (x : List ℚ) (lo hi : ℚ)
    (hne : sizes ≠ []) (hs2 : ∀ n ∈ sizes, 2 ≤ n) (h : Defined clipOn sizes x)
    (hK : ∀ idx ∈ allIdx sizes, lo ≤ K idx ∧ K idx ≤ hi) :
    ∃ v, evalSimplex clipOn sizes (kernelOf sizes K) x = .ok v ∧ lo ≤ v ∧ v ≤ hi := by
  refine ⟨_, C02_T3_simplex_index_bridge clipOn sizes K x hne hs2 h, ?_⟩
  have hy := effPoint_inRange hs2 h
  have hroom : Room sizes (lowerIdx clipOn sizes x) ((sSorted clipOn sizes x).map (·.2)) := by
    refine ⟨cellIdx_length sizes _ (effPoint_length h.1), fun i hi => ?_⟩
    have := cellIdx_room sizes _ hs2 hy i hi
    unfold lowerIdx
    split_ifs <;> omega
  have hval : ∀ p ∈ sSorted clipOn sizes x, 0 ≤ p.1 ∧ p.1 ≤ 1 := fun p hp =>
    simplexSplit_resid_mem sizes _ hs2 hy _ (mem_zipIdx_fst ((sortDesc_perm _).mem_iff.mp hp))
  have := walkK_bounds sizes K lo hi hK (sSorted clipOn sizes x) 1 (lowerIdx clipOn sizes x) hroom
    (sorted_snd_nodup _) (sorted_pos_lt clipOn sizes x h.1) (sortDesc_sorted _)
    (fun p hp => (hval p hp).2) (fun p hp => (hval p hp).1) (by norm_num)
  simpa using this

/-! ## T4 (simplex) -/

/-- the all-pairs statement for simplex interpolation; proved below
(`C02_T4_simplex_mono_all_pairs`). "All pairs" = all pairs of in-range or clipped points (`Defined` for
both); an unclipped out-of-range point is outside the property and the statement fails there
(`C02_T4_simplex_mono_needs_defined`). -/
def C02_simplex_mono_all_pairs : Prop :=
  ∀ (clipOn : Bool) (sizes : List Nat) (K : W) (x : List ℚ) (d : Nat) (v : ℚ) (a b : ℚ),
    sizes ≠ [] → (∀ n ∈ sizes, 2 ≤ n) → d < sizes.length → MonoAx sizes d K →
    Defined clipOn sizes x → Defined clipOn sizes (x.set d v) → x.getD d 0 ≤ v →
    evalSimplex clipOn sizes (kernelOf sizes K) x = .ok a →
    evalSimplex clipOn sizes (kernelOf sizes K) (x.set d v) = .ok b → a ≤ b

/-- T4 (simplex, one ordering region; superseded by `C02_T4_simplex_mono` but kept): same lower
corner `P`, same sorted index order, residuals equal except that of coordinate `d` which grows ⇒
the simplex walk does not decrease when `K` is non-decreasing in coordinate `d`. -/
theorem C02_simplex_partial (K : W) (d : Nat) (L L' : List (ℚ × Nat)) (prev : ℚ) (P : Idx)
    (hσ : L.map (·.2) = L'.map (·.2)) (hnd : (L.map (·.2)).Nodup)
    (hf : List.Forall₂ (fun p q => if p.2 = d then p.1 ≤ q.1 else p.1 = q.1) L L')
    (hK : ∀ Q, K Q ≤ K (bump Q d)) : walkK K prev P L ≤ walkK K prev P L' :=
  walkK_mono_region K d L L' prev P hσ hnd hf hK

/-- T3/T4 (tie-independence): any two descending arrangements of the same (residual, position)
pairs give the same simplex value — the output does not depend on how `argsort` breaks ties. -/
theorem C02_T3_tie_independent (K : W) (L L' : List (ℚ × Nat)) (prev : ℚ) (P : Idx)
    (hs : SortedDesc L) (hs' : SortedDesc L') (hp : L.Perm L') : walkK K prev P L = walkK K prev P L' :=
  walkK_tie_indep K L L' prev P hs hs' hp

/-- T4 (simplex, ALL pairs): if the kernel is non-decreasing along dimension `d`, then for EVERY
pair of in-range or clipped points that differ only in coordinate `d` (`x_d ≤ v`; across ordering
regions of the sort, across any number of cells, through ties and cell faces) both simplex
evaluations succeed and the output does not decrease. Proof: index bridge; tie-independence puts
the sorted list into the canonical form "other coordinates with `(t, d)` inserted"; inserting at
a larger value is monotone by induction along the list (`walkK_insert_mono`); residual 1 in a cell
equals residual 0 in the next cell (`walk_face`); a finite chain of cells along the axis.
`Defined` of both points is needed: `C02_T4_simplex_mono_needs_defined` (clip off, `x = (1, −3/2)` on
`[3, 3]` reads the vertex `(0, 2)`: `f = 10 > f(1, 0) = 0`) — that case is outside the property. -/
theorem C02_T4_simplex_mono (clipOn : Bool) (sizes : List Nat) (K : W) (x : List ℚ) (d : Nat) (v : ℚ)
    (hne : sizes ≠ []) (hs2 : ∀ n ∈ sizes, 2 ≤ n) (hd : d < sizes.length) (hm : MonoAx sizes d K)
    (hx : Defined clipOn sizes x) (hx' : Defined clipOn sizes (x.set d v)) (hv : x.getD d 0 ≤ v) :
    ∃ a b, evalSimplex clipOn sizes (kernelOf sizes K) x = .ok a ∧
      evalSimplex clipOn sizes (kernelOf sizes K) (x.set d v) = .ok b ∧ a ≤ b := by
  refine ⟨_, _, C02_T3_simplex_index_bridge clipOn sizes K x hne hs2 hx,
    C02_T3_simplex_index_bridge clipOn sizes K _ hne hs2 hx', ?_⟩
  have hy := effPoint_inRange hs2 hx
  have hy' := effPoint_inRange hs2 hx'
  unfold lowerIdx sSorted sResid
  -- the clipped upper point is the clipped lower point with coordinate d replaced
  obtain ⟨w, hw, hset⟩ : ∃ w, (effPoint clipOn sizes x).getD d 0 ≤ w ∧
      effPoint clipOn sizes (x.set d v) = (effPoint clipOn sizes x).set d w := by
    cases clipOn with
    | true =>
      refine ⟨clipV v 0 ((sizes.getD d 0 : ℚ) - 1), ?_, ?_⟩
      · simp only [effPoint, if_true]
        rw [clipOntoRange_getD sizes x d hx.1 hd]
        exact clipV_mono hv
      · simp only [effPoint, if_true]
        exact clipOntoRange_set sizes x d v
    | false => exact ⟨v, by simpa [effPoint] using hv, by simp [effPoint]⟩
  rw [hset] at hy' ⊢
  exact simplex_cell_mono sizes K d hs2 hd hm _ w hy hy' hw

/-- T4 (simplex): the all-pairs statement holds. -/
theorem C02_T4_simplex_mono_all_pairs : C02_simplex_mono_all_pairs := by
  intro clipOn sizes K x d v a b hne hs2 hd hm hx hx' hv ha hb
  obtain ⟨a', b', ha', hb', hab⟩ := C02_T4_simplex_mono clipOn sizes K x d v hne hs2 hd hm hx hx' hv
  rw [ha'] at ha; rw [hb'] at hb
  cases ha; cases hb
  exact hab

/-! ## non-vacuity and instances (kernel computation) -/

/-- a concrete 3×2 kernel, non-decreasing along axis 0, not along axis 1 -/
def Kex : W := fun idx => (Table.ofVals [3, 2] [0, 5, 1, 5, 4, 7]).get idx

example : kernelOf [3, 2] Kex = [0, 5, 1, 5, 4, 7] := by decide +kernel
example : MonoAx [3, 2] 0 Kex := by unfold MonoAx; decide +kernel
example : ¬ MonoAx [3, 2] 1 (fun idx => -Kex idx) := by unfold MonoAx; decide +kernel
example : InRange [3, 2] [3/2, 1/4] := by unfold InRange InRange InRange; decide +kernel
example : Defined true [3, 2] [7/2, -1] := ⟨rfl, Or.inl rfl⟩
-- both forms, clipped and not, interior point of cell (1, 0): multilinear value
example : hypercubeValue .tensor false [3, 2] (kernelOf [3, 2] Kex) [3/2, 1/4] = 27/8 := by decide +kernel
example : hypercubeValue .list true [3, 2] (kernelOf [3, 2] Kex) [3/2, 1/4] = 27/8 := by decide +kernel
example : evalRec [3, 2] [3/2, 1/4] Kex = 27/8 := by decide +kernel
-- all-2 fast path: clipped extrapolation vs. the general path
example : hypercubeValue .tensor true [2, 2] [0, 1, 2, 4] [3/2, 1/4] = 5/2 := by decide +kernel
example : hypercubeValue .list true [2, 2] [0, 1, 2, 4] [3/2, 1/4] = 5/2 := by decide +kernel
-- without clipping the two forms differ outside the range (outside the property's scope)
example : hypercubeValue .tensor false [2, 2] [0, 1, 2, 4] [3/2, 1/4] = 29/8 := by decide +kernel
example : hypercubeValue .list false [2, 2] [0, 1, 2, 4] [3/2, 1/4] = 5/4 := by decide +kernel
-- simplex: value, and the index bridge on concrete instances (interior, tie, outermost edge, clipped)
example : evalSimplex false [3, 2] (kernelOf [3, 2] Kex) [3/2, 1/4] = .ok (13/4) := by decide +kernel
example : evalSimplex false [3, 2] (kernelOf [3, 2] Kex) [3/2, 1/4]
    = .ok (walkK Kex 1 (lowerIdx false [3, 2] [3/2, 1/4]) (sSorted false [3, 2] [3/2, 1/4])) := by decide +kernel
example : evalSimplex false [3, 2] (kernelOf [3, 2] Kex) [1/2, 1/2]
    = .ok (walkK Kex 1 (lowerIdx false [3, 2] [1/2, 1/2]) (sSorted false [3, 2] [1/2, 1/2])) := by decide +kernel
example : evalSimplex false [3, 2] (kernelOf [3, 2] Kex) [2, 1]
    = .ok (walkK Kex 1 (lowerIdx false [3, 2] [2, 1]) (sSorted false [3, 2] [2, 1])) := by decide +kernel
example : evalSimplex true [3, 2] (kernelOf [3, 2] Kex) [7/2, -1]
    = .ok (walkK Kex 1 (lowerIdx true [3, 2] [7/2, -1]) (sSorted true [3, 2] [7/2, -1])) := by decide +kernel
-- hypercube and simplex agree on a vertex and on an axis-parallel edge, differ inside a cell
example : evalSimplex false [3, 2] (kernelOf [3, 2] Kex) [2, 1] = .ok (Kex [2, 1]) := by decide +kernel
example : evalSimplex false [3, 2] (kernelOf [3, 2] Kex) [3/2, 1]
    = .ok (hypercubeValue .tensor false [3, 2] (kernelOf [3, 2] Kex) [3/2, 1]) := by decide +kernel
-- a monotone pair along axis 0 (Kex is non-decreasing along it) ending on the face between two cells
example : evalSimplex false [3, 2] (kernelOf [3, 2] Kex) [1/2, 3/4] = .ok (15/4) := by decide +kernel
example : evalSimplex false [3, 2] (kernelOf [3, 2] Kex) ([1/2, 3/4].set 0 1) = .ok 4 := by decide +kernel
example : Defined false [3, 2] ([1/2, 3/4].set 0 1) :=
  ⟨rfl, Or.inr (by simp only [List.set_cons_zero]; unfold InRange InRange InRange; decide +kernel)⟩
-- unclipped out-of-range simplex input whose gather index leaves the kernel: InvalidArgument
example : evalSimplex false [3, 3] [0, 1, 2, 3, 4, 5, 6, 7, 8] [-3/2, 2] = .error .invalidArgument := by
  decide +kernel
-- Edgeworth: the product kernel K(i, j) = i·j has non-negative mixed differences
example : Edgeworth01 3 2 [] (fun idx => (coord idx 0 : ℚ) * (coord idx 1 : ℚ)) := by
  intro i j t hi hj ht
  rw [mem_allIdx_nil.mp ht]
  simp only [coord, List.getD_cons_zero, List.getD_cons_succ]
  push_cast; nlinarith

end Tfl.C02
