import TflModel.Lemmas.LatticeEval
/-!
# C02 — Lattice output is exact hypercube / simplex interpolation, inheriting kernel shape

Model: `Tfl.LatticeEval` (lattice_lib.py:32-413; one unit column, one example — units and
examples are independent rows/columns of the same ops, see C09). The kernel of a unit is the flat
row-major list `kernelOf sizes K = (allIdx sizes).map K` of a function `K` on multi-indices.
`evalRec sizes x K` is THE multilinear interpolant (iterated 1-D interpolation, L2); for
`j ≤ x_d ≤ j+1` it is the chord between the neighbouring grid values (`C02_T2_cell`).
Every statement is for all ranks, sizes, rational kernels and rational points.
-/
namespace Tfl.C02
open Tfl Tfl.LatticeEval

/-- flat row-major kernel column of the function `K` -/
def kernelOf (sizes : List Nat) (K : W) : List ℚ := (allIdx sizes).map K
/-- the point the code interpolates at: clipped onto the lattice iff `clip_inputs` -/
def effPoint (clipOn : Bool) (sizes : List Nat) (x : List ℚ) : List ℚ :=
  if clipOn then clipOntoRange sizes x else x
/-- the input is "in-range or clipped" -/
def Defined (clipOn : Bool) (sizes : List Nat) (x : List ℚ) : Prop :=
  x.length = sizes.length ∧ (clipOn = true ∨ InRange sizes x)

theorem effPoint_length {clipOn : Bool} {sizes : List Nat} {x : List ℚ} (h : x.length = sizes.length) :
    (effPoint clipOn sizes x).length = sizes.length := by
  unfold effPoint; split_ifs
  · exact length_clipOntoRange sizes x h
  · exact h

theorem effPoint_inRange {clipOn : Bool} {sizes : List Nat} {x : List ℚ} (hs : ∀ n ∈ sizes, 2 ≤ n)
    (h : Defined clipOn sizes x) : InRange sizes (effPoint clipOn sizes x) := by
  unfold effPoint
  rcases h with ⟨hl, hc | hr⟩
  · simp only [hc, if_true]
    exact inRange_clip sizes x hl (fun n hn => by have := hs n hn; omega)
  · split_ifs
    · rw [clip_of_inRange sizes x hr]; exact hr
    · exact hr

/-! ## T1 — every code path computes the outer-product weights; output = multilinear interpolation -/

/-- T1 (paths): the list of 1-D weight vectors built by `compute_interpolation_weights` — all-2 fast
path `[1-x, x]` (+clip), bucketised single-tensor path, list-of-tensors path — is, for in-range or
clipped inputs, always the hat weights `1 - min(|x_d - i|, 1)` of the (clipped) point. The general
paths agree with it for EVERY input (third disjunct). -/
theorem C02_T1_oneD_paths (form : InputForm) (clipOn : Bool) (sizes : List Nat) (x : List ℚ)
    (hl : x.length = sizes.length)
    (h : clipOn = true ∨ InRange sizes x ∨ ¬ (allTwo sizes = true ∧ form = .tensor)) :
    oneDWeights form clipOn sizes x = generalWeightsList sizes (effPoint clipOn sizes x) := by
  unfold oneDWeights effPoint
  by_cases hf : allTwo sizes = true ∧ form = .tensor
  · have hcond : (allTwo sizes && decide (form = InputForm.tensor)) = true := by simp [hf.1, hf.2]
    have hcond' : (allTwo sizes && form == InputForm.tensor) = true := by simpa using hcond
    rw [if_pos hcond']
    cases clipOn with
    | true => simpa using fastWeights_clip sizes x hf.1 hl
    | false =>
      rcases h with h | h | h
      · cases h
      · simpa using fastWeights_noclip sizes x hf.1 h
      · exact absurd hf h
  · have hcond' : ¬ ((allTwo sizes && form == InputForm.tensor) = true) := by
      intro hc; apply hf
      simpa using hc
    rw [if_neg hcond']
    have hl' : (if clipOn = true then clipOntoRange sizes x else x).length = sizes.length := by
      split_ifs
      · exact length_clipOntoRange sizes x hl
      · exact hl
    cases form with
    | tensor => exact generalWeightsTensor_eq sizes _ hl'
    | list => rfl

/-- T1 (ordering): the weight vector of `compute_interpolation_weights` lists, in the row-major
order of the kernel, the products of the 1-D hat weights. -/
theorem C02_T1_weights (form : InputForm) (clipOn : Bool) (sizes : List Nat) (x : List ℚ)
    (hs : sizes ≠ []) (hl : x.length = sizes.length)
    (h : clipOn = true ∨ InRange sizes x ∨ ¬ (allTwo sizes = true ∧ form = .tensor)) :
    hypercubeWeights form clipOn sizes x = (allIdx sizes).map (prodW (effPoint clipOn sizes x)) := by
  unfold hypercubeWeights
  rw [C02_T1_oneD_paths form clipOn sizes x hl h]
  have hne : generalWeightsList sizes (effPoint clipOn sizes x) ≠ [] := by
    intro he
    have := congrArg List.length he
    simp [generalWeightsList, effPoint_length hl] at this
    exact hs this
  rw [batchOuter_eq_outerR _ hne]
  exact outerR_oneD sizes _ (effPoint_length hl)

/-- T1: the hypercube output IS the multilinear interpolant (iterated 1-D interpolation, L2) of the
kernel at the (clipped) point — for every rank, shape, path and kernel. -/
theorem C02_T1_hypercube_eq_interp (form : InputForm) (clipOn : Bool) (sizes : List Nat) (K : W)
    (x : List ℚ) (hs : sizes ≠ []) (hl : x.length = sizes.length)
    (h : clipOn = true ∨ InRange sizes x ∨ ¬ (allTwo sizes = true ∧ form = .tensor)) :
    hypercubeValue form clipOn sizes (kernelOf sizes K) x = evalRec sizes (effPoint clipOn sizes x) K := by
  unfold hypercubeValue kernelOf
  rw [C02_T1_weights form clipOn sizes x hs hl h, dot_map]
  exact evalFlat_eq_evalRec sizes _ K (effPoint_length hl)

/-- T1 (paths equal as functions): tensor input and list-of-tensors input give the same weights
for in-range or clipped inputs. -/
theorem C02_T1_forms_agree (clipOn : Bool) (sizes : List Nat) (x : List ℚ) (hs : sizes ≠ [])
    (h : Defined clipOn sizes x) :
    hypercubeWeights .tensor clipOn sizes x = hypercubeWeights .list clipOn sizes x := by
  have h' : ∀ form, clipOn = true ∨ InRange sizes x ∨ ¬ (allTwo sizes = true ∧ form = InputForm.tensor) :=
    fun _ => h.2.elim Or.inl (fun r => Or.inr (Or.inl r))
  rw [C02_T1_weights .tensor clipOn sizes x hs h.1 (h' _), C02_T1_weights .list clipOn sizes x hs h.1 (h' _)]

/-- the `Except` wrapper returns the value exactly when `verify_hyperparameters` accepts -/
theorem C02_T1_evalHypercube_ok (form : InputForm) (clipOn : Bool) (sizes : List Nat) (kernel x : List ℚ)
    (hs : ∀ n ∈ sizes, 2 ≤ n) (hl : x.length = sizes.length) :
    evalHypercube form clipOn sizes kernel x = .ok (hypercubeValue form clipOn sizes kernel x) := by
  unfold evalHypercube verify
  have : (sizes.all fun n => decide (2 ≤ n)) = true := by simpa using hs
  simp [this, hl]

/-! ## T2 — vertex reproduction, convex weights, range, cell formula -/

private theorem defined_disj {clipOn : Bool} {sizes : List Nat} {x : List ℚ} {form : InputForm}
    (h : Defined clipOn sizes x) :
    clipOn = true ∨ InRange sizes x ∨ ¬ (allTwo sizes = true ∧ form = .tensor) :=
  h.2.elim Or.inl (fun r => Or.inr (Or.inl r))

/-- T2: at a vertex the output is exactly that vertex's weight. -/
theorem C02_T2_vertex (form : InputForm) (clipOn : Bool) (sizes : List Nat) (K : W) (idx : Idx)
    (hs : sizes ≠ []) (hi : idx ∈ allIdx sizes) :
    hypercubeValue form clipOn sizes (kernelOf sizes K) (idx.map (fun v => (v : ℚ))) = K idx := by
  have hr := inRange_vertex sizes idx hi
  rw [C02_T1_hypercube_eq_interp form clipOn sizes K _ hs hr.length_eq (Or.inr (Or.inl hr))]
  have : effPoint clipOn sizes (idx.map (fun v => (v : ℚ))) = idx.map (fun v => (v : ℚ)) := by
    unfold effPoint; split_ifs
    · exact clip_of_inRange sizes _ hr
    · rfl
  rw [this]
  exact evalRec_vertex sizes idx K hi

/-- T2: for in-range or clipped inputs the interpolation weights are ≥ 0 and sum to 1 — the output
is a convex combination of kernel values. -/
theorem C02_T2_convex_weights (form : InputForm) (clipOn : Bool) (sizes : List Nat) (x : List ℚ)
    (hs : sizes ≠ []) (hs2 : ∀ n ∈ sizes, 2 ≤ n) (h : Defined clipOn sizes x) :
    (∀ w ∈ hypercubeWeights form clipOn sizes x, 0 ≤ w) ∧ rsum (hypercubeWeights form clipOn sizes x) = 1 := by
  rw [C02_T1_weights form clipOn sizes x hs h.1 (defined_disj h)]
  constructor
  · intro w hw
    obtain ⟨idx, _, rfl⟩ := List.mem_map.mp hw
    exact prodW_nonneg _ idx
  · have h1 := evalFlat_eq_evalRec sizes (effPoint clipOn sizes x) (fun _ => 1) (effPoint_length h.1)
    rw [evalRec_const sizes _ 1 (effPoint_inRange hs2 h)] at h1
    simpa [evalFlat] using h1

/-- T2: the output for in-range or clipped inputs never leaves `[min kernel, max kernel]`
(stated with arbitrary bounds `lo ≤ K ≤ hi` on the vertices). -/
theorem C02_T2_range (form : InputForm) (clipOn : Bool) (sizes : List Nat) (K : W) (x : List ℚ) (lo hi : ℚ)
    (hs : sizes ≠ []) (hs2 : ∀ n ∈ sizes, 2 ≤ n) (h : Defined clipOn sizes x)
    (hK : ∀ idx ∈ allIdx sizes, lo ≤ K idx ∧ K idx ≤ hi) :
    lo ≤ hypercubeValue form clipOn sizes (kernelOf sizes K) x ∧
      hypercubeValue form clipOn sizes (kernelOf sizes K) x ≤ hi := by
  rw [C02_T1_hypercube_eq_interp form clipOn sizes K x hs h.1 (defined_disj h)]
  exact evalRec_bounds sizes _ K lo hi (effPoint_inRange hs2 h) hK

/-- T2 (cell formula ⇒ continuity): along any axis `d`, for `j ≤ x_d ≤ j+1` the output is the chord
`(1-t)·f(x_d := j) + t·f(x_d := j+1)`, `t = x_d - j`; the formulas of two neighbouring cells both
hold on the common face `x_d = j+1` (closed intervals), so the output is continuous across cells. -/
theorem C02_T2_cell (form : InputForm) (sizes : List Nat) (K : W) (x : List ℚ) (d j : Nat)
    (hs : sizes ≠ []) (hx : InRange sizes x) (hj : j + 1 < sizes.getD d 0)
    (h1 : (j : ℚ) ≤ x.getD d 0) (h2 : x.getD d 0 ≤ (j : ℚ) + 1) (clipOn : Bool) :
    hypercubeValue form clipOn sizes (kernelOf sizes K) x
      = (1 - (x.getD d 0 - j)) * evalRec sizes (x.set d (j : ℚ)) K
        + (x.getD d 0 - j) * evalRec sizes (x.set d ((j : ℚ) + 1)) K := by
  rw [C02_T1_hypercube_eq_interp form clipOn sizes K x hs hx.length_eq (Or.inr (Or.inl hx))]
  have : effPoint clipOn sizes x = x := by
    unfold effPoint; split_ifs
    · exact clip_of_inRange sizes _ hx
    · rfl
  rw [this]
  exact evalRec_cell sizes d x K j hx.length_eq hj h1 h2

/-! ## T4 (hypercube) — monotone kernel ⇒ monotone output, for ALL pairs of points -/

private theorem size_ge_two {sizes : List Nat} (hs2 : ∀ n ∈ sizes, 2 ≤ n) {d : Nat} (hd : d < sizes.length) :
    2 ≤ sizes.getD d 0 := by
  have : sizes.getD d 0 = sizes[d] := by simp [List.getD_eq_getElem?_getD, hd]
  rw [this]
  exact hs2 _ (List.getElem_mem hd)

/-- T4 (hypercube): if the kernel is non-decreasing along dimension `d`, then for EVERY pair of
points that differ only in coordinate `d` (`x_d ≤ v`, any distance apart, any cells) and are
in-range or clipped, the output does not decrease. Via the PWL ramp form — no floors. -/
theorem C02_T4_hypercube_mono (form : InputForm) (clipOn : Bool) (sizes : List Nat) (K : W) (x : List ℚ)
    (d : Nat) (v : ℚ) (hs : sizes ≠ []) (hs2 : ∀ n ∈ sizes, 2 ≤ n) (hd : d < sizes.length)
    (hm : MonoAx sizes d K) (hx : Defined clipOn sizes x) (hx' : Defined clipOn sizes (x.set d v))
    (hv : x.getD d 0 ≤ v) :
    hypercubeValue form clipOn sizes (kernelOf sizes K) x
      ≤ hypercubeValue form clipOn sizes (kernelOf sizes K) (x.set d v) := by
  rw [C02_T1_hypercube_eq_interp form clipOn sizes K x hs hx.1 (defined_disj hx),
    C02_T1_hypercube_eq_interp form clipOn sizes K _ hs hx'.1 (defined_disj hx')]
  have hn : (2 : ℚ) ≤ (sizes.getD d 0 : ℚ) := by exact_mod_cast size_ge_two hs2 hd
  cases clipOn with
  | true =>
    simp only [effPoint, if_true]
    rw [clipOntoRange_set]
    have hb := clipV_bounds (x.getD d 0) (lo := 0) (hi := (sizes.getD d 0 : ℚ) - 1) (by linarith)
    have hb' := clipV_bounds v (lo := 0) (hi := (sizes.getD d 0 : ℚ) - 1) (by linarith)
    apply evalRec_mono_axis sizes d _ K _ (length_clipOntoRange sizes x hx.1) hd hm
    · rw [clipOntoRange_getD sizes x d hx.1 hd]; exact hb.1
    · rw [clipOntoRange_getD sizes x d hx.1 hd]; exact clipV_mono hv
    · exact hb'.2
  | false =>
    simp only [effPoint, Bool.false_eq_true, if_false]
    have hr : InRange sizes x := hx.2.elim (fun h => by cases h) id
    have hr' : InRange sizes (x.set d v) := hx'.2.elim (fun h => by cases h) id
    have h1 := inRange_getD sizes x d hr hd
    have h2 := inRange_getD sizes (x.set d v) d hr' hd
    have hdx : d < x.length := by rw [hx.1]; exact hd
    have hget : (x.set d v).getD d 0 = v := by simp [List.getD_eq_getElem?_getD, hdx]
    rw [hget] at h2
    exact evalRec_mono_axis sizes d x K v hx.1 hd hm h1.1 hv h2.2

/-! ## T5 (hypercube) — Edgeworth trust -/

/-- T5: with hypercube interpolation, a kernel satisfying the Edgeworth condition between the two
leading axes (for every position of the remaining axes; the condition is symmetric in main and
conditional feature) makes the effect `f(a', ·) - f(a, ·)` of the main feature non-decreasing in
the conditional feature, for ALL in-range or clipped point quadruples (other coordinates `zs`
fixed and arbitrary). -/
theorem C02_T5_edgeworth (form : InputForm) (clipOn : Bool) (n m : Nat) (rest : List Nat) (K : W)
    (zs : List ℚ) (a a' b b' : ℚ) (hn : 2 ≤ n) (hm : 2 ≤ m) (hK : Edgeworth01 n m rest K)
    (h00 : Defined clipOn (n :: m :: rest) (a :: b :: zs)) (h10 : Defined clipOn (n :: m :: rest) (a' :: b :: zs))
    (h01 : Defined clipOn (n :: m :: rest) (a :: b' :: zs)) (h11 : Defined clipOn (n :: m :: rest) (a' :: b' :: zs))
    (ha : a ≤ a') (hb : b ≤ b') :
    hypercubeValue form clipOn (n :: m :: rest) (kernelOf (n :: m :: rest) K) (a' :: b :: zs)
        - hypercubeValue form clipOn (n :: m :: rest) (kernelOf (n :: m :: rest) K) (a :: b :: zs)
      ≤ hypercubeValue form clipOn (n :: m :: rest) (kernelOf (n :: m :: rest) K) (a' :: b' :: zs)
        - hypercubeValue form clipOn (n :: m :: rest) (kernelOf (n :: m :: rest) K) (a :: b' :: zs) := by
  have hs : (n :: m :: rest) ≠ [] := by simp
  rw [C02_T1_hypercube_eq_interp form clipOn _ K _ hs h00.1 (defined_disj h00),
    C02_T1_hypercube_eq_interp form clipOn _ K _ hs h10.1 (defined_disj h10),
    C02_T1_hypercube_eq_interp form clipOn _ K _ hs h01.1 (defined_disj h01),
    C02_T1_hypercube_eq_interp form clipOn _ K _ hs h11.1 (defined_disj h11)]
  have hz : zs.length = rest.length := by simpa using h00.1
  have hnq : (2 : ℚ) ≤ n := by exact_mod_cast hn
  have hmq : (2 : ℚ) ≤ m := by exact_mod_cast hm
  cases clipOn with
  | true =>
    simp only [effPoint, if_true, clipOntoRange, List.zipWith_cons_cons]
    have A := clipV_bounds a (lo := 0) (hi := (n : ℚ) - 1) (by linarith)
    have A' := clipV_bounds a' (lo := 0) (hi := (n : ℚ) - 1) (by linarith)
    have B := clipV_bounds b (lo := 0) (hi := (m : ℚ) - 1) (by linarith)
    have B' := clipV_bounds b' (lo := 0) (hi := (m : ℚ) - 1) (by linarith)
    exact evalRec_edgeworth n m rest K _ (by simpa [clipOntoRange] using length_clipOntoRange rest zs hz) hK
      A.1 (clipV_mono ha) A'.2 B.1 (clipV_mono hb) B'.2
  | false =>
    simp only [effPoint, Bool.false_eq_true, if_false]
    have r00 : InRange (n :: m :: rest) (a :: b :: zs) := h00.2.elim (fun h => by cases h) id
    have r11 : InRange (n :: m :: rest) (a' :: b' :: zs) := h11.2.elim (fun h => by cases h) id
    exact evalRec_edgeworth n m rest K zs hz hK r00.1.1 ha r11.1.2 r00.2.1.1 hb r11.2.1.2

/-! ## T3 — simplex interpolation -/

/-- residual vector / lower-corner offset / sorted (value, position) list / gather indices of the
simplex code at the (clipped) point -/
def sResid (clipOn : Bool) (sizes : List Nat) (x : List ℚ) : List ℚ :=
  (simplexSplit sizes (effPoint clipOn sizes x)).2
def sOffset (clipOn : Bool) (sizes : List Nat) (x : List ℚ) : Int :=
  (simplexSplit sizes (effPoint clipOn sizes x)).1
def sSorted (clipOn : Bool) (sizes : List Nat) (x : List ℚ) : List (ℚ × Nat) :=
  sortDesc (sResid clipOn sizes x).zipIdx
def sIndices (clipOn : Bool) (sizes : List Nat) (x : List ℚ) : List Int :=
  cumsumFrom 0 (sOffset clipOn sizes x ::
    (sSorted clipOn sizes x).map (fun p => (((stridesCode sizes).getD p.2 0 : Nat) : Int)))
/-- lower corner of the cell as a multi-index (all zeros for `2^d` lattices: no floor step) -/
def lowerIdx (clipOn : Bool) (sizes : List Nat) (x : List ℚ) : Idx :=
  if allTwo sizes then sizes.map (fun _ => 0)
  else (lowerCorner sizes (effPoint clipOn sizes x)).map Int.toNat

/-- T3: for in-range or clipped inputs the simplex weights (gaps between the descending sorted
residuals, padded with 1 and 0) are ≥ 0 and sum to 1: the simplex output is a convex combination
of `d+1` kernel entries. The sort is stable-descending; residuals lie in `[0,1]` also on the
outermost edge (`min(floor, size-2)`). -/
theorem C02_T3_simplex_weights (clipOn : Bool) (sizes : List Nat) (x : List ℚ) (hs2 : ∀ n ∈ sizes, 2 ≤ n)
    (h : Defined clipOn sizes x) :
    (∀ w ∈ simplexWeights ((sSorted clipOn sizes x).map (·.1)), 0 ≤ w) ∧
      rsum (simplexWeights ((sSorted clipOn sizes x).map (·.1))) = 1 :=
  simplexWeights_convex _ (simplexSplit_resid_mem sizes _ hs2 (effPoint_inRange hs2 h))

/-- T3: the sorted list is a permutation of the (residual, position) pairs, sorted descending. -/
theorem C02_T3_sorted (clipOn : Bool) (sizes : List Nat) (x : List ℚ) :
    (sSorted clipOn sizes x).Perm (sResid clipOn sizes x).zipIdx ∧ SortedDesc (sSorted clipOn sizes x) :=
  ⟨sortDesc_perm _, sortDesc_sorted _⟩

/-- T3: whenever no gather index leaves the kernel (otherwise the real code raises
InvalidArgument, as the model does), the code's pad / subtract / cumsum / gather / dot pipeline
equals the walk `Σ_k (s_{k-1} - s_k) · kernel[offset + stride_{σ1} + … + stride_{σk}]`. -/
theorem C02_T3_simplex_eq_walk (clipOn : Bool) (sizes : List Nat) (kernel x : List ℚ)
    (hv : verify sizes x = true)
    (hb : ∀ i ∈ sIndices clipOn sizes x, 0 ≤ i ∧ i.toNat < kernel.length) :
    evalSimplex clipOn sizes kernel x
      = .ok (walkF kernel (stridesCode sizes) 1 (sOffset clipOn sizes x) (sSorted clipOn sizes x)) := by
  have h := mapM_gatherAt_ok kernel _ hb
  have hp := pipeline_eq_walkF kernel (stridesCode sizes) (sSorted clipOn sizes x) 1 0 (sOffset clipOn sizes x)
  rw [zero_add] at hp
  unfold evalSimplex
  simp only [hv, if_true]
  simp only [sIndices, sOffset, sSorted, sResid, effPoint] at h hp
  rw [h]
  simp only [simplexWeights_eq]
  rw [hp]
  rfl

/-- the index-level reading of the simplex code: gathered entries are the kernel values along the
chain `lower, lower + e_{σ1}, lower + e_{σ1} + e_{σ2}, …`. This is the link between flat offsets +
strides and multi-indices (ravel arithmetic). NOT proved in Lean; it is exactly the numpy
reference `ref_simplex` of the harness, compared with the real code on every case, and instances
are checked below by kernel computation. -/
def C02_simplex_index_bridge : Prop :=
  ∀ (clipOn : Bool) (sizes : List Nat) (K : W) (x : List ℚ), sizes ≠ [] → (∀ n ∈ sizes, 2 ≤ n) →
    Defined clipOn sizes x →
    evalSimplex clipOn sizes (kernelOf sizes K) x
      = .ok (walkK K 1 (lowerIdx clipOn sizes x) (sSorted clipOn sizes x))

/-- T3 (vertices, index level): if all residuals are 0 or 1 (the point is a vertex), the walk
returns the kernel value at the vertex `lower + Σ_{r_i = 1} e_i` — the value the hypercube scheme
returns there (`C02_T2_vertex`), whatever the tie-breaking of the sort. -/
theorem C02_T3_vertex_walk_partial (K : W) (P : Idx) (L : List (ℚ × Nat)) (hs : SortedDesc L)
    (h01 : ∀ p ∈ L, p.1 = 0 ∨ p.1 = 1) :
    walkK K 1 P L = K (bumpAll P ((L.filter (fun p => p.1 = 1)).map (·.2))) :=
  walkK_vertex K P L hs h01

/-- T3 (axis-parallel edges, index level): if all residuals are 0 or 1 except coordinate `d` with
`0 < t < 1`, the walk is the chord `(1-t)·K(v) + t·K(v + e_d)` between the two neighbouring
vertices — the hypercube cell formula (`C02_T2_cell` + `C02_T2_vertex`). -/
theorem C02_T3_edge_walk_partial (K : W) (P : Idx) (L : List (ℚ × Nat)) (d : Nat) (t : ℚ) (hs : SortedDesc L)
    (hnd : (L.map (·.2)).Nodup) (hd : (t, d) ∈ L) (ht0 : 0 < t) (ht1 : t < 1)
    (h01 : ∀ p ∈ L, p.2 ≠ d → p.1 = 0 ∨ p.1 = 1) :
    walkK K 1 P L = (1 - t) * K (bumpAll P ((L.filter (fun p => p.1 = 1)).map (·.2)))
      + t * K (bump (bumpAll P ((L.filter (fun p => p.1 = 1)).map (·.2))) d) :=
  walkK_edge K P L d t hs hnd hd ht0 ht1 h01

/-! ## T4 (simplex) -/

/-- the all-pairs statement for simplex interpolation (kept visible; proved below only inside one
ordering region; proof plan via the partition / Lovász form: DESIGN.md C02). Checked on every
monotone pair of the harness (pairs cross cells and ordering regions). -/
def C02_simplex_mono_all_pairs : Prop :=
  ∀ (clipOn : Bool) (sizes : List Nat) (K : W) (x : List ℚ) (d : Nat) (v : ℚ) (a b : ℚ),
    sizes ≠ [] → (∀ n ∈ sizes, 2 ≤ n) → d < sizes.length → MonoAx sizes d K →
    Defined clipOn sizes x → Defined clipOn sizes (x.set d v) → x.getD d 0 ≤ v →
    evalSimplex clipOn sizes (kernelOf sizes K) x = .ok a →
    evalSimplex clipOn sizes (kernelOf sizes K) (x.set d v) = .ok b → a ≤ b

/-- T4 (simplex, PARTIAL): inside one cell and one ordering region — same lower corner `P`, same
sorted index order, residuals equal except that of coordinate `d` which grows — the simplex walk
does not decrease when `K` is non-decreasing in coordinate `d`. Missing for the full statement
`C02_simplex_mono_all_pairs`: the index bridge above, and gluing regions/cells (continuity at
ties, i.e. tie-independence, is `C02_T3_vertex_walk_partial`-style reasoning). -/
theorem C02_simplex_partial (K : W) (d : Nat) (L L' : List (ℚ × Nat)) (prev : ℚ) (P : Idx)
    (hσ : L.map (·.2) = L'.map (·.2)) (hnd : (L.map (·.2)).Nodup)
    (hf : List.Forall₂ (fun p q => if p.2 = d then p.1 ≤ q.1 else p.1 = q.1) L L')
    (hK : ∀ Q, K Q ≤ K (bump Q d)) : walkK K prev P L ≤ walkK K prev P L' :=
  walkK_mono_region K d L L' prev P hσ hnd hf hK

/-! ## non-vacuity and instances (kernel computation) -/

/-- a concrete 3×2 kernel, non-decreasing along axis 0, not along axis 1 -/
def Kex : W := fun idx => (Table.ofVals [3, 2] [0, 5, 1, 5, 4, 7]).get idx

example : kernelOf [3, 2] Kex = [0, 5, 1, 5, 4, 7] := by decide +kernel
example : MonoAx [3, 2] 0 Kex := by unfold MonoAx; decide +kernel
example : ¬ MonoAx [3, 2] 1 (fun idx => -Kex idx) := by unfold MonoAx; decide +kernel
example : InRange [3, 2] [3/2, 1/4] := by unfold InRange InRange InRange; decide +kernel
example : Defined true [3, 2] [7/2, -1] := ⟨rfl, Or.inl rfl⟩
-- both forms, clipped and not, interior point of cell (1, 0): multilinear value
example : hypercubeValue .tensor false [3, 2] (kernelOf [3, 2] Kex) [3/2, 1/4] = 27/8 := by decide +kernel
example : hypercubeValue .list true [3, 2] (kernelOf [3, 2] Kex) [3/2, 1/4] = 27/8 := by decide +kernel
example : evalRec [3, 2] [3/2, 1/4] Kex = 27/8 := by decide +kernel
-- all-2 fast path: clipped extrapolation vs. the general path
example : hypercubeValue .tensor true [2, 2] [0, 1, 2, 4] [3/2, 1/4] = 5/2 := by decide +kernel
example : hypercubeValue .list true [2, 2] [0, 1, 2, 4] [3/2, 1/4] = 5/2 := by decide +kernel
-- without clipping the two forms differ outside the range (outside the property's scope)
example : hypercubeValue .tensor false [2, 2] [0, 1, 2, 4] [3/2, 1/4] = 29/8 := by decide +kernel
example : hypercubeValue .list false [2, 2] [0, 1, 2, 4] [3/2, 1/4] = 5/4 := by decide +kernel
-- simplex: value, and the index bridge on concrete instances (interior, tie, outermost edge, clipped)
example : evalSimplex false [3, 2] (kernelOf [3, 2] Kex) [3/2, 1/4] = .ok (13/4) := by decide +kernel
example : evalSimplex false [3, 2] (kernelOf [3, 2] Kex) [3/2, 1/4]
    = .ok (walkK Kex 1 (lowerIdx false [3, 2] [3/2, 1/4]) (sSorted false [3, 2] [3/2, 1/4])) := by decide +kernel
example : evalSimplex false [3, 2] (kernelOf [3, 2] Kex) [1/2, 1/2]
    = .ok (walkK Kex 1 (lowerIdx false [3, 2] [1/2, 1/2]) (sSorted false [3, 2] [1/2, 1/2])) := by decide +kernel
example : evalSimplex false [3, 2] (kernelOf [3, 2] Kex) [2, 1]
    = .ok (walkK Kex 1 (lowerIdx false [3, 2] [2, 1]) (sSorted false [3, 2] [2, 1])) := by decide +kernel
example : evalSimplex true [3, 2] (kernelOf [3, 2] Kex) [7/2, -1]
    = .ok (walkK Kex 1 (lowerIdx true [3, 2] [7/2, -1]) (sSorted true [3, 2] [7/2, -1])) := by decide +kernel
-- hypercube and simplex agree on a vertex and on an axis-parallel edge, differ inside a cell
example : evalSimplex false [3, 2] (kernelOf [3, 2] Kex) [2, 1] = .ok (Kex [2, 1]) := by decide +kernel
example : evalSimplex false [3, 2] (kernelOf [3, 2] Kex) [3/2, 1]
    = .ok (hypercubeValue .tensor false [3, 2] (kernelOf [3, 2] Kex) [3/2, 1]) := by decide +kernel
-- unclipped out-of-range simplex input whose gather index leaves the kernel: InvalidArgument
example : evalSimplex false [3, 3] [0, 1, 2, 3, 4, 5, 6, 7, 8] [-3/2, 2] = .error .invalidArgument := by
  decide +kernel
-- Edgeworth: the product kernel K(i, j) = i·j has non-negative mixed differences
example : Edgeworth01 3 2 [] (fun idx => (coord idx 0 : ℚ) * (coord idx 1 : ℚ)) := by
  intro i j t hi hj ht
  rw [mem_allIdx_nil.mp ht]
  simp only [coord, List.getD_cons_zero, List.getD_cons_succ]
  push_cast; nlinarith

end Tfl.C02
