import TflModel.Props.C03
import TflModel.Lemmas.Kahn
/-!
# C03 — a GENERIC `System` for every graph the builders produce

`Props/C03.lean` states `C03_partial` over an abstract `System g` (variables, constraint relation,
invariant, realised functions) whose fields `establishes`, `sound`, `init_sound` are hypotheses of
the structure. This file BUILDS that structure for every layer graph `g`, from the layer theorems:

* variables `Tfl.Premade.Var` (`Model/Premade.lean`): calibrator unit `(feature, unit)`, lattice / KFL
  unit `j`, the `Linear` kernel of a calibrated linear model, the linear-combination kernel, the
  output calibrator; values = the weights as DATA (`CalW`, `BlkW`, `LinW`);
* `realise g P` — the CONCRETE composite of `Model/Premade.lean` (the function the driver evaluates
  and the check compares numerically with the real premade models);
* `Step` — the models of the real constraint objects (`PWLCalibrationConstraints` +
  `NaiveBoundsConstraints`, `CategoricalCalibrationConstraints`, `LatticeConstraints` = strict
  finalisation of whatever Dykstra returned + clip, the KFL kernel / scale constraints,
  `LinearConstraints`);
* `Inv` — WEIGHT-level feasibility (`PwlFeas`, `CatFeas`, `LatFeas`, `KflFeas`, `LinOk`/`NormOk`);
* `establishes` from C04 / C06 / C01 (class C = H_trap, `C01_exec_mixed_class`) / C07 / C06+C20;
* `sound` from C05 / C02 (hypercube AND simplex) / C07 / C20;
* `Init` — every variable feasible, except that a categorical kernel only has to be within its
  bounds (F-C03-b: random-uniform initial values ignore the ordering pairs); `init_sound` is then a
  statement about weights, not an assumption.

Hypotheses of the final theorems (`C03_systemOf`, `C03_calibrated_*`):
`buildSpec c = .ok g` (accepted by `verify_config` and the builders), `layersAccept g P = true`
(every layer constructor the builders call accepts its arguments), and the documented exclusions
`trapClass g = true` (H_trap of C01: outside it lies finding F-C01-a), `Nondegenerate` (F-C03-a),
`0 < n ∨ NoCategoricalPairs g` (F-C03-b), `RtlDraws` (the RTL shuffles are permutations).
-/
namespace Tfl.C03
open Tfl Tfl.Premade Tfl.Poset Tfl.Linear

/-! ## PWL calibrator units (C04 + C05) -/

/-- weight-level invariant of a PWL unit with monotonicity `mono`, bounds `lo hi`, evaluation
configuration `cfgE`: shapes as `build` created them, keypoint outputs sorted in the configured
direction and within the bounds, missing output within the bounds -/
structure PwlFeas (mono : Int) (lo hi : Option ℚ) (cfgE : PwlEval.Cfg) (s : CalW) : Prop where
  wf : PwlEval.WF cfgE s.kernel s.ws
  inc : mono = 1 → ∀ j, j + 1 < cfgE.inputKeypoints.length →
    getR (PwlEval.keypointsOutputs cfgE s.kernel) j ≤ getR (PwlEval.keypointsOutputs cfgE s.kernel) (j + 1)
  dec : mono = -1 → ∀ j, j + 1 < cfgE.inputKeypoints.length →
    getR (PwlEval.keypointsOutputs cfgE s.kernel) (j + 1) ≤ getR (PwlEval.keypointsOutputs cfgE s.kernel) j
  bnd : ∀ j, j < cfgE.inputKeypoints.length → inB lo hi (getR (PwlEval.keypointsOutputs cfgE s.kernel) j)
  mo : inB lo hi s.missingOut

/-- one application of the constraints of a PWL unit to the raw state `s`:
`PWLCalibrationConstraints` on the kernel column (ANY positive piece lengths, ANY number of
iterations), `NaiveBoundsConstraints` on the missing output; the softmax row of learned keypoints
is a row of positive weights summing to one -/
def PwlStep (mono conv : Int) (lo hi : Option ℚ) (cmin cmax : Bool) (cfgE : PwlEval.Cfg) (s s' : CalW) : Prop :=
  ∃ (b0 : ℚ) (hs0 L : List ℚ) (it : Nat) (b : ℚ) (hs : List ℚ),
    s.kernel = b0 :: hs0 ∧ hs0.length + 1 = cfgE.inputKeypoints.length ∧ PwlProj.AllPos L ∧
    PwlProj.constraintsCall mono conv lo hi cmin cmax L it b0 hs0 = .ok (b, hs) ∧
    s'.kernel = b :: hs ∧ s'.missingOut = PwlProj.naiveBounds lo hi s.missingOut ∧
    (cfgE.learned = true →
      s'.ws.length + 1 = cfgE.inputKeypoints.length ∧ (∀ w ∈ s'.ws, 0 < w) ∧ rsum s'.ws = 1)

theorem cumsumFrom_length : ∀ (a : ℚ) (l : List ℚ), (PwlProj.cumsumFrom a l).length = l.length
  | _, [] => rfl
  | a, x :: t => by simp [PwlProj.cumsumFrom, cumsumFrom_length (a + x) t]

/-- **T1 premise, PWL (C04).** From ANY raw kernel and missing output, one application of the
constraints gives a feasible unit. -/
theorem pwl_step_feas {mono conv : Int} {lo hi : Option ℚ} {cmin cmax : Bool} {cfgE : PwlEval.Cfg} {s s' : CalW}
    (hm : mono = 0 ∨ mono = 1 ∨ mono = -1) (hcv : conv = 0 ∨ conv = 1 ∨ conv = -1)
    (hb : ∀ l h, lo = some l → hi = some h → l ≤ h) (hcyc : cfgE.isCyclic = false)
    (h2 : 2 ≤ cfgE.inputKeypoints.length) (hinc : PwlEval.StrictIncr cfgE.inputKeypoints)
    (h : PwlStep mono conv lo hi cmin cmax cfgE s s') : PwlFeas mono lo hi cfgE s' := by
  obtain ⟨b0, hs0, L, it, b, hs, hk0, hlen0, hL, hproj, hk, hmo, hws⟩ := h
  unfold PwlProj.constraintsCall at hproj
  simp only at hproj
  split_ifs at hproj with hbad
  have hcfg := C04.wired_cfgOk mono conv hm hcv lo hi cmin cmax hb
  have hmono := C04.monotone_exact _ hcfg L hL it b0 hs0 (b, hs) hproj
  have hbnd := C04.bounds_hold _ hcfg L hL it b0 hs0 (b, hs) hproj
  have hlen := (PwlProj.projectAll_spec _ hcfg L hL it b0 hs0 (b, hs) hproj).1
  have hconv := convert_facts lo hi cmin cmax
  have hKO : PwlEval.keypointsOutputs cfgE s'.kernel = PwlProj.outputs b hs := by
    rw [hk]; exact keypointsOutputs_eq cfgE hcyc b hs
  have hlenKO : (PwlProj.outputs b hs).length = cfgE.inputKeypoints.length := by
    simp only [PwlProj.outputs, List.length_cons, cumsumFrom_length]
    simp only at hlen
    omega
  have hwf : PwlEval.WF cfgE s'.kernel s'.ws := by
    refine ⟨h2, hinc, ?_, fun hl => (hws hl).1, fun hl => (hws hl).2.1, fun hl => (hws hl).2.2⟩
    rw [hk, hcyc]
    simp only at hlen
    simp only [List.length_cons, Bool.false_eq_true, if_false, add_zero]
    omega
  have consec : ∀ (R : ℚ → ℚ → Prop), (PwlProj.outputs b hs).Pairwise R → ∀ j, j + 1 < cfgE.inputKeypoints.length →
      R (getR (PwlEval.keypointsOutputs cfgE s'.kernel) j) (getR (PwlEval.keypointsOutputs cfgE s'.kernel) (j + 1)) := by
    intro R hp j hj
    rw [hKO]
    have h1 : j < (PwlProj.outputs b hs).length := by omega
    have h2 : j + 1 < (PwlProj.outputs b hs).length := by omega
    have := (List.pairwise_iff_getElem.mp hp) j (j + 1) h1 h2 (by omega)
    simpa [getR, List.getD_eq_getElem?_getD, h1, h2] using this
  refine ⟨hwf, fun h1 => consec (· ≤ ·) (hmono.1 h1).2, fun h1 => consec (fun a b => b ≤ a) (hmono.2 h1).2, ?_, ?_⟩
  · intro j hj
    rw [hKO]
    have hj' : j < (PwlProj.outputs b hs).length := by omega
    have hy : getR (PwlProj.outputs b hs) j ∈ PwlProj.outputs b hs := by
      simp only [getR, List.getD_eq_getElem?_getD, List.getElem?_eq_getElem hj', Option.getD_some]
      exact List.getElem_mem hj'
    have := hbnd _ hy
    exact ⟨fun l hl => by have := this.1 (hconv.1 l hl).1; rw [(hconv.1 l hl).2] at this; exact this,
      fun u hu => by have := this.2 (hconv.2 u hu).1; rw [(hconv.2 u hu).2] at this; exact this⟩
  · rw [hmo]; exact C04.missing_output_in_bounds lo hi hb _

/-- **weights ⇒ function, PWL (C05).** A feasible PWL unit realises a function that is monotone in
the configured direction for all pairs of non-missing inputs and within the bounds at EVERY input,
the imputed missing value included. -/
theorem pwl_feas_calOk (c : Calibrator) (kps : List ℚ) (hpairs : c.pairs = []) (s : CalW)
    (h : PwlFeas c.mono c.outMin c.outMax (pwlCfg c kps) s) :
    CalOk c (pwlFn (pwlCfg c kps) s.kernel s.ws s.missingOut) := by
  have hspec := pwlFn_spec (pwlCfg c kps) c.missing rfl rfl s.kernel s.ws s.missingOut
  refine ⟨?_, ?_, (by rw [hpairs]; intro p hp; cases hp), ?_⟩
  · intro h1 x y hx hy hxy
    rw [(hspec x).2 hx, (hspec y).2 hy]
    exact C05.pwl_monotone_increasing h.wf (h.inc h1) x y hxy
  · intro h1 x y hx hy hxy
    rw [(hspec x).2 hx, (hspec y).2 hy]
    exact C05.pwl_monotone_decreasing h.wf (h.dec h1) x y hxy
  · intro x _
    by_cases hx : c.missing = some x
    · rw [(hspec x).1 hx]; exact h.mo
    · rw [(hspec x).2 hx]
      set outs := PwlEval.keypointsOutputs (pwlCfg c kps) s.kernel with houts
      obtain ⟨l, u, hin, hout⟩ := exists_box_anchor c.outMin c.outMax s.missingOut
        ((List.range (pwlCfg c kps).inputKeypoints.length).map (fun j => getR outs j)) (by
        intro y hy
        rcases List.mem_cons.mp hy with rfl | hy
        · exact h.mo
        · obtain ⟨j, hj, rfl⟩ := List.mem_map.mp hy
          exact h.bnd j (List.mem_range.mp hj))
      have := C05.pwl_bounded h.wf l u (fun j hj =>
        hin _ (List.mem_cons_of_mem _ (List.mem_map.mpr ⟨j, List.mem_range.mpr hj, rfl⟩))) x
      exact hout _ this.1 this.2

/-! ## categorical calibrator units (C06 + C05) -/

/-- weight-level invariant of a categorical unit: one row per bucket, every ordering pair holds,
every row within the bounds -/
structure CatFeas (c : Calibrator) (k : List ℚ) : Prop where
  len : k.length = c.numBuckets
  pairs : Feasible c.pairs k
  bnd : ∀ j, j < k.length → inB c.outMin c.outMax (getV k j)

/-- what the initializer of a categorical unit delivers (`RandomUniform(output_min, output_max)`):
rows within the bounds — NOT the ordering pairs (finding F-C03-b) -/
structure CatInit (c : Calibrator) (k : List ℚ) : Prop where
  len : k.length = c.numBuckets
  bnd : ∀ j, j < k.length → inB c.outMin c.outMax (getV k j)

/-- one application of `CategoricalCalibrationConstraints` to the raw kernel column -/
def CatStep (c : Calibrator) (s s' : CalW) : Prop :=
  s.kernel.length = c.numBuckets ∧ Categorical.project c.outMin c.outMax c.pairs s.kernel = .ok s'.kernel

/-- **T1 premise, categorical (C06).** -/
theorem cat_step_feas {c : Calibrator} {s s' : CalW} (hacyc : Acyclic c.pairs)
    (hrange : ∀ p ∈ c.pairs, p.1 < c.numBuckets ∧ p.2 < c.numBuckets)
    (hb : ∀ l h, c.outMin = some l → c.outMax = some h → l ≤ h) (h : CatStep c s s') :
    CatFeas c s'.kernel := by
  obtain ⟨hlen, hp⟩ := h
  obtain ⟨out, hout, hf, hl, hbnd⟩ := C06.categorical_pairs_and_bounds_acyclic c.outMin c.outMax c.pairs s.kernel
    hacyc (by
      rintro a ⟨p, hp, hpa⟩
      rw [hlen]
      rcases hpa with rfl | rfl
      · exact (hrange p hp).1
      · exact (hrange p hp).2) hb
  rw [hp] at hout
  cases hout
  exact ⟨by rw [hl, hlen], hf, fun j hj => hbnd j hj⟩

/-- **weights ⇒ function, categorical (C05).** -/
theorem cat_feas_calOk (c : Calibrator) (hcat : c.categorical = true) (hm : c.mono = 0) (hnb : 0 < c.numBuckets)
    (hrange : ∀ p ∈ c.pairs, p.1 < c.numBuckets ∧ p.2 < c.numBuckets)
    (hint : ∀ m, c.missing = some m → m = (m.num : ℚ)) (k : List ℚ) (h : CatFeas c k) :
    CalOk c (catFn k c.missing) := by
  have hkne : k ≠ [] := by
    intro e
    have := h.len
    rw [e] at this
    simp at this
    omega
  refine ⟨fun h1 => by omega, fun h1 => by omega, ?_, ?_⟩
  · intro p hp h1 h2
    have hp1 : p.1 < k.length := by rw [h.len]; exact (hrange p hp).1
    have hp2 : p.2 < k.length := by rw [h.len]; exact (hrange p hp).2
    obtain ⟨j1, _, e1, u1⟩ := catFn_row k c.missing hint hkne (p.1 : ℚ) (Or.inr ⟨p.1, hp1, rfl⟩)
    obtain ⟨j2, _, e2, u2⟩ := catFn_row k c.missing hint hkne (p.2 : ℚ) (Or.inr ⟨p.2, hp2, rfl⟩)
    rw [e1, e2, u1 p.1 rfl h1, u2 p.2 rfl h2]
    exact h.pairs p hp
  · intro x hx
    have hx' : c.missing = some x ∨ ∃ j : Nat, j < k.length ∧ x = (j : ℚ) := by
      rcases hx hcat with h' | ⟨j, hj, e⟩
      · exact Or.inl h'
      · exact Or.inr ⟨j, by rw [h.len]; exact hj, e⟩
    obtain ⟨j, hj, e, _⟩ := catFn_row k c.missing hint hkne x hx'
    rw [e]
    exact h.bnd j hj

/-! ## all-vertices lattice units (C01 + C02) -/

/-- weight-level invariant of an all-vertices unit: the vertex values are non-decreasing along
every axis marked monotone and within the output bounds -/
structure LatFeas (b : Block) (K : W) : Prop where
  mono : ∀ d, d < b.sizes.length → b.monos.getD d 0 = 1 → Tfl.MonoAx b.sizes d K
  bnd : C01.InBounds b.sizes b.outMin b.outMax K

/-- one application of `LatticeConstraints` (strict mode): `tmid` is WHATEVER the Dykstra iterations
returned (any number of iterations, any of the soft constraints — unimodality, dominances, joint
constraints — only enter here); then the strict finalisation and the final clip, on the executable
table model that the C01 check ties to the real `finalize_constraints` -/
def LatStep (b : Block) (_s s' : BlkW) : Prop :=
  ∃ tmid : Table, s'.table = runStage (latCfgOf b).sizes
    (Tfl.Lat.clipBounds (latCfgOf b).lo (latCfgOf b).hi) (Tfl.Lat.finalizeT (latCfgOf b) tmid)

theorem latCfgOf_mono (b : Block) (d : Nat) (h : b.monos.getD d 0 = 1) : (latCfgOf b).mono.getD d false = true := by
  unfold latCfgOf
  simp only
  by_cases hd : d < b.monos.length
  · rw [getD_map' _ _ _ 0 _ hd, h]; rfl
  · rw [List.getD_eq_getElem?_getD, List.getElem?_eq_none (by omega)] at h; cases h

/-- **T1 premise, all-vertices lattice (C01, class C = H_trap).** -/
theorem lat_step_feas {b : Block} {s s' : BlkW} (hwf : C01.CfgWF (latCfgOf b)) (hmx : C01.MixedClassWF (latCfgOf b))
    (h : LatStep b s s') : LatFeas b s'.table.get := by
  obtain ⟨tmid, ht⟩ := h
  obtain ⟨hM, _, _, hB⟩ := C01.C01_exec_mixed_class (latCfgOf b) hwf hmx tmid
  rw [← ht] at hM hB
  exact ⟨fun d hd hm => hM d hd (latCfgOf_mono b d hm), hB⟩

/-- the function an all-vertices unit realises, as `Props/C03.lean` writes it -/
theorem latKernel_eq (sizes : List Nat) (t : Table) : latKernel sizes t = C02.kernelOf sizes t.get := rfl

/-- **weights ⇒ function, all-vertices lattice (C02): hypercube AND simplex interpolation.** -/
theorem lat_feas_latOk (b : Block) (hk : b.kind = .lattice) (hne : b.sizes ≠ []) (hs2 : ∀ n ∈ b.sizes, 2 ≤ n)
    (s : BlkW) (h : LatFeas b s.table.get) : LatOk b (blkFn b s) := by
  have hvals : ∀ y ∈ (allIdx b.sizes).map s.table.get, inB b.outMin b.outMax y := by
    intro y hy
    obtain ⟨idx, hidx, rfl⟩ := List.mem_map.mp hy
    exact h.bnd idx (mem_allIdx.mp hidx)
  obtain ⟨l, u, hin, hout⟩ := exists_box b.outMin b.outMax _ hvals
  have hdef : ∀ z, InBox b.sizes z → C02.Defined false b.sizes z :=
    fun z hz => ⟨hz.1, Or.inr (inRange_of_inBox _ _ hz)⟩
  have hmono : ∀ d, d < b.sizes.length → b.monos.getD d 0 = 1 → LatticeEval.MonoAx b.sizes d s.table.get :=
    fun d hd hm idx hidx hlt => h.mono d hd hm idx (mem_allIdx.mp hidx) hd hlt
  by_cases hsx : b.simplex = true
  · have hfn : ∀ z, blkFn b s z = okOr0 (LatticeEval.evalSimplex false b.sizes (C02.kernelOf b.sizes s.table.get) z) := by
      intro z; simp [blkFn, hk, hsx, latKernel_eq]
    constructor
    · intro z d v hz hz' hd hle
      by_cases hdl : d < b.sizes.length
      · obtain ⟨a, c, ha, hc, hac⟩ := C02.C02_T4_simplex_mono false b.sizes s.table.get z d v hne hs2 hdl
          (hmono d hdl hd) (hdef z hz) (hdef _ hz') hle
        rw [hfn, hfn, ha, hc]; exact hac
      · rw [set_of_length_le _ _ (by rw [hz.1]; omega)]
    · intro z hz
      obtain ⟨v, hv, h1, h2⟩ := C02.C02_T3_simplex_range false b.sizes s.table.get z l u hne hs2 (hdef z hz)
        (fun idx hidx => hin _ (List.mem_map_of_mem hidx))
      rw [hfn, hv]; exact hout _ h1 h2
  · have hfn : ∀ z, blkFn b s z = LatticeEval.hypercubeValue .list false b.sizes (C02.kernelOf b.sizes s.table.get) z := by
      intro z; simp [blkFn, hk, hsx, latKernel_eq]
    constructor
    · intro z d v hz hz' hd hle
      by_cases hdl : d < b.sizes.length
      · rw [hfn, hfn]
        exact C02.C02_T4_hypercube_mono .list false b.sizes s.table.get z d v hne hs2 hdl (hmono d hdl hd)
          (hdef z hz) (hdef _ hz') hle
      · rw [set_of_length_le _ _ (by rw [hz.1]; omega)]
    · intro z hz
      have := C02.C02_T2_range .list false b.sizes s.table.get z l u hne hs2 (hdef z hz)
        (fun idx hidx => hin _ (List.mem_map_of_mem hidx))
      rw [hfn]; exact hout _ this.1 this.2

/-! ## Kronecker-factored units (C07) -/

/-- monotonicities of a KFL block as the constraint reads them -/
def kflMonos (b : Block) : List Bool := b.monos.map (fun m => m == 1)

/-- weight-level invariant of a KFL unit: the premises of C07's T1 and T3, one kernel column per axis -/
structure KflFeas (b : Block) (st : Kfl.State) : Prop where
  k : Kfl.KOk (b.sizes.headD 0) (kflMonos b) b.outMin b.outMax st
  s : Kfl.SOk b.outMin b.outMax st.scale
  dims : ∀ kt ∈ st.K, kt.length = b.sizes.length

/-- one step of a KFL unit: the kernel constraint and the scale constraint, each applied at least
once, in ANY order and repetition (the kernel projection reads the scale) -/
def KflStep (b : Block) (s s' : BlkW) : Prop :=
  ∃ ops : List Kfl.Op, Kfl.ValidRun (b.sizes.headD 0) (kflMonos b) b.outMin b.outMax s.kfl ops ∧
    Kfl.HasConsK ops ∧ Kfl.Op.consS ∈ ops ∧
    s'.kfl = Kfl.runOps (kflMonos b) b.outMin b.outMax s.kfl ops ∧
    (∀ kt ∈ s'.kfl.K, kt.length = b.sizes.length) ∧ s'.bias = s.bias

/-- **T1 premise, KFL (C07).** -/
theorem kfl_step_feas {b : Block} {s s' : BlkW}
    (hlh : ∀ l h, b.outMin = some l → b.outMax = some h → l ≤ h) (h : KflStep b s s') : KflFeas b s'.kfl := by
  obtain ⟨ops, hv, hK, hS, he, hd, _⟩ := h
  obtain ⟨h1, h2⟩ := C07.constraints_any_order_establish_premises _ _ _ _ hlh s.kfl ops hv hK hS
  rw [← he] at h1 h2
  exact ⟨h1, h2, hd⟩

theorem kflMonos_getD (b : Block) (d : Nat) (h : b.monos.getD d 0 = 1) : (kflMonos b).getD d false = true := by
  unfold kflMonos
  by_cases hd : d < b.monos.length
  · rw [getD_map' _ _ _ 0 _ hd, h]; rfl
  · rw [List.getD_eq_getElem?_getD, List.getElem?_eq_none (by omega)] at h; cases h

/-- **weights ⇒ function, KFL (C07).** -/
theorem kfl_feas_latOk (b : Block) (hk : b.kind = .kfl) (hL : 1 ≤ b.sizes.headD 0)
    (hsz : ∀ n ∈ b.sizes, n = b.sizes.headD 0)
    (hlh : ∀ l h, b.outMin = some l → b.outMax = some h → l ≤ h)
    (s : BlkW) (h : KflFeas b s.kfl) : LatOk b (blkFn b s) := by
  set L := b.sizes.headD 0 with hLdef
  have hfn : ∀ z, blkFn b s z = Kfl.eval L false s.kfl.K s.kfl.scale (kflBias b s) z := by
    intro z; simp [blkFn, hk, hLdef]
  have hin : ∀ z, InBox b.sizes z → ∀ x ∈ z, Kfl.InR L false x := by
    intro z hz x hx
    obtain ⟨d, hd, rfl⟩ := List.mem_iff_getElem.mp hx
    have hd' : d < b.sizes.length := by rw [← hz.1]; exact hd
    have := hz.2 d hd'
    have hs : b.sizes.getD d 0 = L := hsz _ (by
      rw [List.getD_eq_getElem?_getD, List.getElem?_eq_getElem hd']; exact List.getElem_mem hd')
    rw [hs, List.getD_eq_getElem?_getD, List.getElem?_eq_getElem hd, Option.getD_some] at this
    exact Or.inr this
  constructor
  · intro z d v hz hz' hd hle
    by_cases hdl : d < z.length
    · have hmem : v ∈ z.set d v := List.mem_iff_getElem.mpr ⟨d, by simpa using hdl, by simp⟩
      have hm := kflMonos_getD b d hd
      rw [hfn, hfn]
      exact C07.output_monotone L hL false (kflMonos b) d z v hm (hin z hz) (hin _ hz' v hmem) hle
        s.kfl.scale s.kfl.K _ (h.k.1 (C07.any_of_getD _ d hm))
    · rw [set_of_length_le _ _ (by omega)]
  · intro z hz
    rw [hfn]
    by_cases hbd : (b.outMin.isSome || b.outMax.isSome) = true
    · have hbias : kflBias b s = Kfl.fixedBias b.outMin b.outMax := by simp [kflBias, hbd]
      rw [hbias]
      exact C07.output_bounded L hL false b.outMin b.outMax hlh z (hin z hz) s.kfl.scale s.kfl.K
        (fun kt hkt => by rw [h.dims kt hkt, hz.1]) h.k.2 h.s
    · have : b.outMin = none ∧ b.outMax = none := by
        cases h1 : b.outMin <;> cases h2 : b.outMax <;> simp_all
      rw [this.1, this.2]; exact inB_none _

/-! ## `Linear` kernels (C06 + C20) -/

/-- one application of `LinearConstraints` of a `Linear` layer with monotonicities `monos`,
monotonic dominances `md` and `normalization_order = 1` iff `normalized` -/
def LinStep (monos : List Nat) (md : Pairs) (normalized : Bool) (n : Nat) (s s' : LinW) : Prop :=
  s.w.length = n ∧
  Linear.project (linMonos monos) md [] [] [] (if normalized then .l1 else .none) s.w = .ok s'.w

/-- the stages of `LinearConstraints` before the normalisation, with monotonic dominances: the signs
survive and the shape is kept -/
theorem projectPre_md_spec {monos : List Nat} {md : Pairs} {w0 w2 : List ℚ}
    (hacyc : Acyclic md) (hinc : ∀ c ∈ md, monos.getD c.1 0 = 1 ∧ monos.getD c.2 0 = 1)
    (hrng : ∀ c ∈ md, c.1 < w0.length ∧ c.2 < w0.length)
    (h : projectPre (linMonos monos) md [] [] [] w0 = .ok w2) :
    (∀ i, getM (linMonos monos) i = 1 → 0 ≤ getV w2 i) ∧ w2.length = w0.length := by
  by_cases hmd : md = []
  · subst hmd
    simp only [projectPre, List.isEmpty_nil, if_true, pure, Except.pure, bind, Except.bind, Except.ok.injEq] at h
    subst h
    exact ⟨fun i hi => (signClip_signOk (linMonos monos) w0 i).1 hi, length_signClip _ _⟩
  have hne : md.isEmpty = false := by cases md <;> simp_all
  have hw2 : approxProject (swapPairs md) (signClip (linMonos monos) w0) = .ok w2 := by
    simp only [projectPre, hne, List.isEmpty_nil, if_true, Bool.false_eq_true, if_false,
      pure, Except.pure, bind, Except.bind] at h
    cases hap : approxProject (swapPairs md) (signClip (linMonos monos) w0) with
    | error e => rw [hap] at h; cases h
    | ok w => rw [hap] at h; rw [Except.ok.inj h]
  have hincM : ∀ c ∈ md, getM (linMonos monos) c.1 = 1 ∧ getM (linMonos monos) c.2 = 1 :=
    fun c hc => ⟨getM_linMonos _ _ (hinc c hc).1, getM_linMonos _ _ (hinc c hc).2⟩
  obtain ⟨order, _, hv, hin, hw2e⟩ := C06.approxProject_eq_of_acyclic (swapPairs md) _ w2 (C06.acyclic_swap hacyc)
    (by
      rintro a ⟨p, hp', hpa⟩
      obtain ⟨c, hc, rfl⟩ : ∃ c ∈ md, p = (c.2, c.1) := by
        simp only [swapPairs, List.mem_map] at hp'
        obtain ⟨c, hc, e⟩ := hp'
        exact ⟨c, hc, e.symm⟩
      rw [length_signClip]
      rcases hpa with rfl | rfl
      · exact (hrng c hc).2
      · exact (hrng c hc).1) hw2
  have hdom := C06.linear_monotonic_dominance (linMonos monos) md w0 order hv
    (by intro a ha; have := hin a ha; rwa [length_signClip] at this) hincM
  simp only at hdom
  rw [← hw2e] at hdom
  exact ⟨fun i hi => (hdom.2.1 i).1 hi, by rw [hw2e, length_approxProjectWith, length_signClip]⟩

/-- **T1 premise, `Linear` with monotonic dominances (C06 + C20).** For EVERY raw kernel the
constraint returns weight ≥ 0 on every axis marked increasing; with `normalization_order = 1` on an
all-increasing layer the weights are ≥ 0 and sum to one unless the clipped column is below the norm
guard (F-C03-a). -/
theorem lin_step_ok {monos : List Nat} {md : Pairs} {normalized : Bool} {n : Nat} {s s' : LinW}
    (hacyc : Acyclic md) (hinc : ∀ c ∈ md, monos.getD c.1 0 = 1 ∧ monos.getD c.2 0 = 1)
    (hrng : ∀ c ∈ md, c.1 < n ∧ c.2 < n) (h : LinStep monos md normalized n s s') :
    s'.w.length = n ∧ LinOk monos s'.w ∧
      (normalized = true → (∀ i, i < n → monos.getD i 0 = 1) → NormOk n s'.w) := by
  obtain ⟨hlen0, hp⟩ := h
  obtain ⟨w2, hw2, hw⟩ : ∃ w2, projectPre (linMonos monos) md [] [] [] s.w = .ok w2 ∧
      s'.w = normalize (if normalized then .l1 else .none) w2 := by
    simp only [Linear.project, Except.map] at hp
    cases hpp : projectPre (linMonos monos) md [] [] [] s.w with
    | error e => rw [hpp] at hp; cases hp
    | ok w2 => rw [hpp] at hp; exact ⟨w2, rfl, (Except.ok.inj hp).symm⟩
  obtain ⟨hsign2, hlen2⟩ := projectPre_md_spec hacyc hinc (by rw [hlen0]; exact hrng) hw2
  obtain ⟨nn, hn, hnorm⟩ := C06.normalize_keeps (if normalized then .l1 else .none) w2
  have hlen : s'.w.length = n := by rw [hw, hnorm]; simp [hlen2, hlen0]
  have hsign : ∀ i, getM (linMonos monos) i = 1 → 0 ≤ getV s'.w i := by
    intro i hi
    rw [hw, hnorm]
    by_cases hil : i < w2.length
    · rw [C06.getV_map _ _ hil]
      exact div_nonneg (hsign2 i hi) hn.le
    · rw [getV_of_le (by simpa using Nat.le_of_not_lt hil)]
  refine ⟨hlen, fun i hi => hsign i (getM_linMonos monos i hi), ?_⟩
  intro hN hall
  subst hN
  have hnn : ∀ i, 0 ≤ getV s'.w i := by
    intro i
    by_cases hi : i < n
    · exact hsign i (getM_linMonos monos i (hall i hi))
    · rw [getV_of_le (by rw [hlen]; omega)]
  refine ⟨hlen, hnn, ?_⟩
  by_cases hz : norm1 w2 < normEps
  · right
    have : s'.w = w2 := by
      rw [hw]; simp only [if_true, normalize, if_pos hz]; simp
    rw [this]; exact hz
  · left
    rw [← C20.norm1_eq_rsum_of_nonneg s'.w (fun i _ => hnn i), hw]
    exact C06.normalize_l1_unit _ hz

/-! ## what acceptance by the layer constructors and H_trap mean, as propositions -/

/-- the facts `layersAccept g P = true` (every layer constructor accepts) and `trapClass g = true`
(H_trap) deliver — `accepted_of_checks` -/
structure Accepted (g : LayerGraph) (P : Params) : Prop where
  pwl : ∀ c ∈ g.calibrators, c.categorical = false →
    (c.mono = 0 ∨ c.mono = 1 ∨ c.mono = -1) ∧ (c.convexity = 0 ∨ c.convexity = 1 ∨ c.convexity = -1) ∧
    c.pairs = [] ∧ 2 ≤ (P.kpsOf c.feature).length ∧ PwlEval.StrictIncr (P.kpsOf c.feature)
  cat : ∀ c ∈ g.calibrators, c.categorical = true →
    c.mono = 0 ∧ 0 < c.numBuckets ∧ (∀ p ∈ c.pairs, p.1 < c.numBuckets ∧ p.2 < c.numBuckets) ∧
    Acyclic c.pairs ∧ ∀ m, c.missing = some m → m = (m.num : ℚ)
  calB : ∀ c ∈ g.calibrators, ∀ l h, c.outMin = some l → c.outMax = some h → l ≤ h
  lat : ∀ b ∈ g.blocks, b.kind = .lattice →
    b.sizes ≠ [] ∧ (∀ n ∈ b.sizes, 2 ≤ n) ∧ C01.CfgWF (latCfgOf b) ∧ C01.MixedClassWF (latCfgOf b)
  kfl : ∀ b ∈ g.blocks, b.kind = .kfl →
    1 ≤ b.sizes.headD 0 ∧ (∀ n ∈ b.sizes, n = b.sizes.headD 0) ∧
    ∀ l h, b.outMin = some l → b.outMax = some h → l ≤ h
  lin : ∀ b ∈ g.blocks, b.kind = .linear →
    Acyclic b.dominances ∧ (∀ c ∈ b.dominances, b.monos.getD c.1 0 = 1 ∧ b.monos.getD c.2 0 = 1) ∧
    ∀ c ∈ b.dominances, c.1 < b.inputs.length ∧ c.2 < b.inputs.length
  out : ∀ oc, g.outCal = some oc →
    2 ≤ oc.numKeypoints ∧ ∀ l h, oc.outMin = some l → oc.outMax = some h → l ≤ h

theorem strictIncrB_sound : ∀ (l : List ℚ), strictIncrB l = true → PwlEval.StrictIncr l
  | [], _ => trivial
  | [_], _ => trivial
  | a :: b :: t, h => by
    simp only [strictIncrB, Bool.and_eq_true, decide_eq_true_eq] at h
    exact ⟨h.1, strictIncrB_sound (b :: t) h.2⟩

theorem boundsLeB_sound {lo hi : Option ℚ} (h : boundsLeB lo hi = true) :
    ∀ l u, lo = some l → hi = some u → l ≤ u := by
  intro l u e1 e2; subst e1; subst e2
  simpa [boundsLeB] using h

theorem boundsLtB_sound {lo hi : Option ℚ} (h : boundsLtB lo hi = true) : Tfl.Lat.BoundsWF lo hi := by
  intro l u e1 e2; subst e1; subst e2
  simpa [boundsLtB] using h

theorem pairwiseB_sound {α} {r : α → α → Bool} : ∀ {l : List α}, pairwiseB r l = true →
    l.Pairwise (fun a b => r a b = true)
  | [], _ => List.Pairwise.nil
  | a :: l, h => by
    simp only [pairwiseB, Bool.and_eq_true, List.all_eq_true] at h
    exact List.Pairwise.cons h.1 (pairwiseB_sound h.2)

theorem compatB_sound {a b : Tfl.Lat.Trust} (h : compatB a b = true) : Tfl.Lat.Compatible a b := by
  simp only [compatB, Bool.and_eq_true, bne_iff_ne, ne_eq, Bool.not_eq_true', Bool.and_eq_false_iff,
    beq_eq_false_iff_ne] at h
  refine ⟨h.1.1, h.1.2, fun hh => ?_⟩
  rcases h.2 with h2 | h2
  · exact h2 hh.1
  · exact h2 hh.2

theorem kahn_acyclic {ps : Pairs} (h : Verify.kahnAcyclic ps.length ps = true) : Acyclic ps :=
  (Verify.pacyclic_nat_iff ps).mp ((Verify.kahnAcyclic_iff ps).mp h)

theorem latticeAccept_sound {b : Block} (h : latticeAccept b = true) :
    b.sizes ≠ [] ∧ (∀ n ∈ b.sizes, 2 ≤ n) ∧ C01.CfgWF (latCfgOf b) ∧
    (∀ tr ∈ (latCfgOf b).trapezoid, 2 ≤ (latCfgOf b).sizes.getD tr.main 0 ∧ 1 ≤ (latCfgOf b).sizes.getD tr.cond 0) ∧
    (∀ a ∈ (latCfgOf b).trapezoid, ∀ b' ∈ (latCfgOf b).trapezoid, b'.cond ≠ a.main) ∧
    (∀ tr ∈ (latCfgOf b).trapezoid, ∀ e ∈ (latCfgOf b).edgeworth, e = tr ∨ Tfl.Lat.Compatible tr e) := by
  simp only [latticeAccept, Bool.and_eq_true, Bool.not_eq_true', List.all_eq_true, decide_eq_true_eq,
    bne_iff_ne, ne_eq, Bool.or_eq_true, beq_iff_eq] at h
  obtain ⟨⟨⟨⟨⟨⟨hne, hs2⟩, htr⟩, hpw⟩, hroles⟩, hcompat⟩, hbd⟩ := h
  have hsz : (latCfgOf b).sizes = b.sizes := rfl
  have hne' : b.sizes ≠ [] := by
    intro e; rw [e] at hne; simp at hne
  have hsize : ∀ d, d < b.sizes.length → 2 ≤ b.sizes.getD d 0 := by
    intro d hd
    rw [List.getD_eq_getElem?_getD, List.getElem?_eq_getElem hd, Option.getD_some]
    exact hs2 _ (List.getElem_mem hd)
  refine ⟨hne', hs2, ⟨?_, ?_, boundsLtB_sound hbd⟩, ?_, ?_, ?_⟩
  · intro tr htr'
    have := htr tr htr'
    exact ⟨⟨this.1.1.1, this.1.1.2, this.1.2⟩, this.2⟩
  · refine (pairwiseB_sound hpw).imp ?_
    intro x y hxy
    simp only [Bool.and_eq_true] at hxy
    exact ⟨compatB_sound hxy.1, compatB_sound hxy.2⟩
  · intro tr htr'
    have := htr tr (List.mem_append_right _ htr')
    rw [hsz]
    exact ⟨hsize _ this.1.1.1, le_trans (by norm_num) (hsize _ this.1.1.2)⟩
  · intro a ha b' hb'; exact hroles a ha b' hb'
  · intro tr htr' e he
    rcases hcompat tr htr' e he with h1 | h1
    · exact Or.inl h1
    · exact Or.inr (compatB_sound h1)

/-- **acceptance by the layer constructors + H_trap, as propositions** -/
theorem accepted_of_checks {g : LayerGraph} {P : Params} (hacc : layersAccept g P = true)
    (htrap : trapClass g = true) : Accepted g P := by
  simp only [layersAccept, Bool.and_eq_true, List.all_eq_true] at hacc
  obtain ⟨⟨hcal, hblk⟩, hout⟩ := hacc
  simp only [trapClass, List.all_eq_true, Bool.or_eq_true, bne_iff_ne, ne_eq, Bool.and_eq_true] at htrap
  refine ⟨?_, ?_, ?_, ?_, ?_, ?_, ?_⟩
  · intro c hc hcat
    have := hcal c hc
    simp only [hcat, Bool.false_eq_true, if_false, pwlAccept, Bool.and_eq_true, Bool.or_eq_true, beq_iff_eq,
      List.isEmpty_iff, decide_eq_true_eq] at this
    obtain ⟨⟨⟨⟨⟨hm, hcv⟩, hp⟩, h2⟩, hinc⟩, _⟩ := this
    exact ⟨by rcases hm with (h | h) | h <;> simp [h], by rcases hcv with (h | h) | h <;> simp [h], hp, h2,
      strictIncrB_sound _ hinc⟩
  · intro c hc hcat
    have := hcal c hc
    simp only [hcat, if_true, catAccept, Bool.and_eq_true, beq_iff_eq, decide_eq_true_eq, List.all_eq_true] at this
    obtain ⟨⟨⟨⟨⟨hm, hnb⟩, hr⟩, hk⟩, hint⟩, _⟩ := this
    refine ⟨hm, hnb, hr, kahn_acyclic hk, ?_⟩
    intro m hmm
    rw [hmm] at hint
    simp only [beq_iff_eq] at hint
    have := Rat.num_div_den m
    rw [hint] at this
    simpa using this.symm
  · intro c hc
    have := hcal c hc
    by_cases hcat : c.categorical = true
    · simp only [hcat, if_true, catAccept, Bool.and_eq_true] at this
      exact boundsLeB_sound this.2
    · simp only [hcat, Bool.false_eq_true, if_false, pwlAccept, Bool.and_eq_true] at this
      exact boundsLeB_sound this.2
  · intro b hb hk
    have hacc := hblk b hb
    simp only [blockAccept, hk] at hacc
    obtain ⟨h1, h2, h3, h4, h5, h6⟩ := latticeAccept_sound hacc
    have ht := htrap b hb
    rcases ht with ht | ht
    · exact absurd hk ht
    refine ⟨h1, h2, h3, ⟨h4, h5, h6, ?_, ?_⟩⟩
    · intro hne
      have := ht.1
      simp only [trapDistinct, Bool.or_eq_true, List.isEmpty_iff] at this
      rcases this with h | h
      · exact absurd (by simp [latCfgOf, h]) hne
      · exact (pairwiseB_sound h).imp (fun hxy => by simpa using hxy)
    · intro hne hr2 tr htr
      have := ht.2
      simp only [trapCondFree, Bool.or_eq_true, List.isEmpty_iff, beq_iff_eq, List.all_eq_true,
        Bool.not_eq_true'] at this
      rcases this with (h | h) | h
      · exact absurd (by simp [latCfgOf, h]) hne
      · exact absurd h hr2
      · exact h tr htr
  · intro b hb hk
    have hacc := hblk b hb
    simp only [blockAccept, hk, kflAccept, Bool.and_eq_true, Bool.not_eq_true', decide_eq_true_eq,
      List.all_eq_true, beq_iff_eq] at hacc
    obtain ⟨⟨⟨_, h2⟩, hall⟩, hbd⟩ := hacc
    exact ⟨by omega, hall, fun l h e1 e2 => le_of_lt (boundsLtB_sound hbd l h e1 e2)⟩
  · intro b hb hk
    have hacc := hblk b hb
    simp only [blockAccept, hk, linearAccept, Bool.and_eq_true, List.all_eq_true, beq_iff_eq,
      decide_eq_true_eq] at hacc
    exact ⟨kahn_acyclic hacc.2, fun c hc => ⟨(hacc.1 c hc).1.1.1, (hacc.1 c hc).1.1.2⟩,
      fun c hc => ⟨(hacc.1 c hc).1.2, (hacc.1 c hc).2⟩⟩
  · intro oc ho
    rw [ho] at hout
    simp only [Bool.and_eq_true, decide_eq_true_eq] at hout
    exact ⟨hout.1, boundsLeB_sound hout.2⟩

/-! ## structural facts about the graphs `buildSpec` returns -/

/-- what the composite needs to know about the SHAPE of a graph (proved for every graph the
builders return: `buildSpec_built`) -/
structure Built (g : LayerGraph) : Prop where
  /-- one calibrator layer per feature -/
  calsUnique : ∀ c ∈ g.calibrators, ∀ c' ∈ g.calibrators, c.feature = c'.feature → c = c'
  /-- a normalised `Linear` (weighted average) has every input marked increasing -/
  linAll : ∀ b ∈ g.blocks, b.kind = .linear → b.normalized = true →
    ∀ i, i < b.inputs.length → b.monos.getD i 0 = 1

theorem cals_unique_of_mapM {c : ModelConfig} {rng : Range} {units : Nat → Nat} {l : List Nat}
    {cals : List Calibrator} (hm : mapMExcept (fun i => mkCalibrator c rng i (units i)) l = .ok cals) :
    ∀ a ∈ cals, ∀ b ∈ cals, a.feature = b.feature → a = b := by
  intro a ha b hb hab
  obtain ⟨i, _, hi⟩ := forall₂_of_mem_right (mapMExcept_ok hm) ha
  obtain ⟨j, _, hj⟩ := forall₂_of_mem_right (mapMExcept_ok hm) hb
  have e1 := (mkCalibrator_basic hi).1
  have e2 := (mkCalibrator_basic hj).1
  have : i = j := by rw [← e1, ← e2, hab]
  subst this
  rw [hi] at hj
  exact Except.ok.inj hj

theorem mkLinear_normalized_all (c : ModelConfig) (ins : List (Nat × Nat))
    (h : (mkLinear c ins).normalized = true) {i : Nat} (hi : i < ins.length) :
    (mkLinear c ins).monos.getD i 0 = 1 := by
  unfold mkLinear at h ⊢
  by_cases hw : weightedAverage c = true
  · simp only [hw, if_true]
    rw [getD_map' _ _ _ default _ hi]
  · simp [hw] at h

theorem mkRtlBlock_kind (c : ModelConfig) (flat : List (Nat × Nat)) (monos lat : List Nat) :
    (mkRtlBlock c flat monos lat).kind ≠ .linear := by
  unfold mkRtlBlock; simp only; split_ifs <;> simp

/-- **every graph the builders return has the shape the composite assumes** (all four model shapes) -/
theorem buildSpec_built {c : ModelConfig} {g : LayerGraph} (h : buildSpec c = .ok g) : Built g := by
  cases hk : c.kind with
  | lattice =>
    obtain ⟨_, cals, hc, rfl⟩ := buildSpec_lattice h hk
    refine ⟨cals_unique_of_mapM (units := fun _ => 1) hc, ?_⟩
    intro b hb hl
    simp only [List.mem_singleton] at hb; subst hb
    exact absurd hl (mkLattice_kind _ _)
  | linear =>
    obtain ⟨_, cals, hc, rfl⟩ := buildSpec_linear h hk
    refine ⟨cals_unique_of_mapM (units := fun _ => 1) hc, ?_⟩
    intro b hb _ hn i hi
    simp only [List.mem_singleton] at hb; subst hb
    rw [mkLinear_inputs] at hi
    exact mkLinear_normalized_all c _ hn hi
  | ensemble =>
    cases hr : c.rtl with
    | false =>
      obtain ⟨_, cals, _, hc, _, rfl⟩ := buildSpec_explicit h hk hr
      refine ⟨cals_unique_of_mapM hc, ?_⟩
      intro b hb hl
      simp only [List.mem_map] at hb
      obtain ⟨row, _, rfl⟩ := hb
      exact absurd hl (mkLattice_kind _ _)
    | true =>
      obtain ⟨_, cals, bs, _, hc, hbs, _, rfl⟩ := buildSpec_rtl h hk hr
      refine ⟨cals_unique_of_mapM hc, ?_⟩
      intro b hb hl
      obtain ⟨s, cap, _, rfl⟩ := rtlBlocks_inv hbs
      simp only [List.mem_flatMap, List.mem_map] at hb
      obtain ⟨grp, _, lat, _, rfl⟩ := hb
      exact absurd hl (mkRtlBlock_kind _ _ _ _)

theorem calOf_mem {g : LayerGraph} (hB : Built g) {c : Calibrator} (hc : c ∈ g.calibrators) :
    calOf g c.feature = c := by
  unfold calOf
  cases hf : g.calibrators.find? (fun c' => c'.feature == c.feature) with
  | none =>
    have := List.find?_eq_none.mp hf c hc
    simp at this
  | some c' =>
    have hmem := List.mem_of_find?_eq_some hf
    have hp := List.find?_some hf
    simp only [beq_iff_eq] at hp
    simp only [Option.getD_some]
    exact hB.calsUnique c' hmem c hc hp

/-! ## the generic `System` -/

/-- the fake `Calibrator` record of the output calibrator (`build_output_calibration_layer`) -/
def outAsCal (oc : OutCal) : Calibrator :=
  { feature := 0, categorical := false, units := 1, mono := 1, pairs := [], numBuckets := 0,
    numKeypoints := oc.numKeypoints, outMin := oc.outMin, outMax := oc.outMax, clampMin := false,
    clampMax := false, convexity := 0, missing := none, learned := false }

/-- the constraint relation of every variable: the models of the real constraint objects -/
def Step (g : LayerGraph) (P : Params) : ∀ v : Var, v.S → v.S → Prop
  | .cal f u, s, s' => ∀ c ∈ g.calibrators, c.feature = f → u < c.units →
      (c.categorical = true → CatStep c s s') ∧
      (c.categorical = false → PwlStep c.mono c.convexity c.outMin c.outMax c.clampMin c.clampMax
        (pwlCfg c (P.kpsOf f)) s s')
  | .blk j, s, s' => ∀ b, g.blocks[j]? = some b →
      (b.kind = .lattice → LatStep b s s') ∧ (b.kind = .kfl → KflStep b s s')
  | .lin, s, s' => ∀ b ∈ g.blocks, b.kind = .linear →
      LinStep b.monos b.dominances b.normalized b.inputs.length s s'
  | .comb, s, s' => ∀ n ub, g.combine = .linear n ub →
      LinStep (List.replicate g.blocks.length 1) [] n g.blocks.length s s'
  | .out, s, s' => ∀ oc, g.outCal = some oc →
      PwlStep 1 0 oc.outMin oc.outMax false false (outCfg oc) s s'

/-- the weight-level invariant of every variable -/
def Inv (g : LayerGraph) (P : Params) : ∀ v : Var, v.S → Prop
  | .cal f u, s => ∀ c ∈ g.calibrators, c.feature = f → u < c.units →
      (c.categorical = true → CatFeas c s.kernel) ∧
      (c.categorical = false → PwlFeas c.mono c.outMin c.outMax (pwlCfg c (P.kpsOf f)) s)
  | .blk j, s => ∀ b, g.blocks[j]? = some b →
      (b.kind = .lattice → LatFeas b s.table.get) ∧ (b.kind = .kfl → KflFeas b s.kfl)
  | .lin, s => ∀ b ∈ g.blocks, b.kind = .linear →
      LinOk b.monos s.w ∧ (b.normalized = true → NormOk b.inputs.length s.w)
  | .comb, s => ∀ n ub, g.combine = .linear n ub →
      (∀ i, 0 ≤ getV s.w i) ∧ (n = true → NormOk g.blocks.length s.w)
  | .out, s => ∀ oc, g.outCal = some oc → PwlFeas 1 oc.outMin oc.outMax (outCfg oc) s

/-- what the initializers deliver: every variable feasible, EXCEPT that a categorical kernel is only
within its bounds (`RandomUniform`; finding F-C03-b) -/
def InitInv (g : LayerGraph) (P : Params) : ∀ v : Var, v.S → Prop
  | .cal f u, s => ∀ c ∈ g.calibrators, c.feature = f → u < c.units →
      (c.categorical = true → CatInit c s.kernel) ∧
      (c.categorical = false → PwlFeas c.mono c.outMin c.outMax (pwlCfg c (P.kpsOf f)) s)
  | v, s => Inv g P v s

theorem linspace01_length (n : Nat) : (linspace01 n).length = n := by simp [linspace01]

theorem strictIncr_of_getElem : ∀ (l : List ℚ), (∀ i (h : i + 1 < l.length), l[i] < l[i + 1]) → PwlEval.StrictIncr l
  | [], _ => trivial
  | [_], _ => trivial
  | a :: b :: t, h => by
    refine ⟨by simpa using h 0 (by simp), strictIncr_of_getElem (b :: t) (fun i hi => ?_)⟩
    have := h (i + 1) (by simpa using hi)
    simpa using this

theorem linspace01_strictIncr (n : Nat) (hn : 2 ≤ n) : PwlEval.StrictIncr (linspace01 n) := by
  apply strictIncr_of_getElem
  intro i hi
  simp only [linspace01, List.getElem_map, List.getElem_range]
  have hpos : (0 : ℚ) < (n : ℚ) - 1 := by
    have : (2 : ℚ) ≤ n := by exact_mod_cast hn
    linarith
  apply div_lt_div_of_pos_right _ hpos
  push_cast
  linarith

theorem establishes_all {g : LayerGraph} {P : Params} (hA : Accepted g P) (hB : Built g) :
    ∀ v s s', Step g P v s s' → Inv g P v s'
  | .cal f u, s, s', h => by
    intro c hc hcf hu
    obtain ⟨h1, h2⟩ := h c hc hcf hu
    refine ⟨fun hcat => ?_, fun hcat => ?_⟩
    · obtain ⟨_, _, hr, hacyc, _⟩ := hA.cat c hc hcat
      exact cat_step_feas hacyc hr (hA.calB c hc) (h1 hcat)
    · obtain ⟨hm, hcv, _, h2k, hinc⟩ := hA.pwl c hc hcat
      rw [hcf] at h2k hinc
      exact pwl_step_feas hm hcv (hA.calB c hc) rfl h2k hinc (h2 hcat)
  | .blk j, s, s', h => by
    intro b hb
    have hmem : b ∈ g.blocks := List.mem_of_getElem? hb
    obtain ⟨h1, h2⟩ := h b hb
    refine ⟨fun hk => ?_, fun hk => ?_⟩
    · obtain ⟨_, _, hwf, hmx⟩ := hA.lat b hmem hk
      exact lat_step_feas hwf hmx (h1 hk)
    · exact kfl_step_feas (hA.kfl b hmem hk).2.2 (h2 hk)
  | .lin, s, s', h => by
    intro b hb hk
    obtain ⟨hacyc, hinc, hrng⟩ := hA.lin b hb hk
    obtain ⟨_, h2, h3⟩ := lin_step_ok hacyc hinc hrng (h b hb hk)
    exact ⟨h2, fun hn => h3 hn (hB.linAll b hb hk hn)⟩
  | .comb, s, s', h => by
    intro n ub hc
    obtain ⟨hlen, h2, h3⟩ := lin_step_ok (md := []) (fun x hx => by
        have := Relation.TransGen.head'_iff.mp hx
        obtain ⟨y, hy, _⟩ := this
        cases hy) (fun c hc' => by cases hc') (fun c hc' => by cases hc') (h n ub hc)
    refine ⟨fun i => ?_, fun hn => h3 hn (fun i hi => by
      rw [List.getD_eq_getElem?_getD, List.getElem?_replicate]; simp [hi])⟩
    by_cases hi : i < g.blocks.length
    · exact h2 i (by rw [List.getD_eq_getElem?_getD, List.getElem?_replicate]; simp [hi])
    · rw [getV_of_le (by rw [hlen]; omega)]
  | .out, s, s', h => by
    intro oc ho
    obtain ⟨h2, hb⟩ := hA.out oc ho
    exact pwl_step_feas (Or.inr (Or.inl rfl)) (Or.inl rfl) hb rfl (by simpa [outCfg, linspace01_length] using h2)
      (linspace01_strictIncr _ h2) (h oc ho)

theorem sound_all {g : LayerGraph} {P : Params} (hA : Accepted g P) (hB : Built g) (w : Assign)
    (h : ∀ v, Inv g P v (w v)) : FnsOk g (realise g P w) := by
  refine ⟨?_, ?_, ?_, ?_, ?_⟩
  · intro c hc u hu
    have hcal : (realise g P w).cal c.feature u = calFn P c (w (.cal c.feature u)) := by
      funext x; simp [realise, calOf_mem hB hc]
    rw [hcal]
    obtain ⟨h1, h2⟩ := h (.cal c.feature u) c hc rfl hu
    by_cases hcat : c.categorical = true
    · obtain ⟨hm, hnb, hr, _, hint⟩ := hA.cat c hc hcat
      have : calFn P c (w (.cal c.feature u)) = catFn (w (.cal c.feature u)).kernel c.missing := by
        funext x; simp [calFn, hcat]
      rw [this]
      exact cat_feas_calOk c hcat hm hnb hr hint _ (h1 hcat)
    · have hcat' : c.categorical = false := by simpa using hcat
      obtain ⟨_, _, hp, _, _⟩ := hA.pwl c hc hcat'
      have : calFn P c (w (.cal c.feature u)) = pwlFn (pwlCfg c (P.kpsOf c.feature)) (w (.cal c.feature u)).kernel
          (w (.cal c.feature u)).ws (w (.cal c.feature u)).missingOut := by
        funext x; simp [calFn, hcat']
      rw [this]
      exact pwl_feas_calOk c _ hp _ (h2 hcat')
  · intro i b hb hk
    have hmem : b ∈ g.blocks := List.mem_of_getElem? hb
    have hlat : (realise g P w).lat i = blkFn b (w (.blk i)) := by
      funext z; simp [realise, hb]
    rw [hlat]
    obtain ⟨h1, h2⟩ := h (.blk i) b hb
    cases hkk : b.kind with
    | linear => exact absurd hkk hk
    | lattice =>
      obtain ⟨hne, hs2, _, _⟩ := hA.lat b hmem hkk
      exact lat_feas_latOk b hkk hne hs2 _ (h1 hkk)
    | kfl =>
      obtain ⟨hL, hsz, hlh⟩ := hA.kfl b hmem hkk
      exact kfl_feas_latOk b hkk hL hsz hlh _ (h2 hkk)
  · intro b hb hk
    exact h .lin b hb hk
  · intro n ub hc
    exact h .comb n ub hc
  · intro oc ho
    have hfeas := h .out oc ho
    have hout : (realise g P w).out = pwlFn (outCfg oc) (w .out).kernel (w .out).ws (w .out).missingOut := by
      funext y; simp [realise, ho]
    rw [hout]
    have hc := pwl_feas_calOk (outAsCal oc) (linspace01 oc.numKeypoints) rfl (w .out) hfeas
    exact ⟨fun x y hxy => hc.inc rfl x y (by simp [outAsCal]) (by simp [outAsCal]) hxy,
      fun x => hc.bounds x (fun hcat => by cases hcat)⟩

theorem init_sound_all {g : LayerGraph} {P : Params} (hno : NoCategoricalPairs g) (w0 : Assign)
    (h : ∀ v, InitInv g P v (w0 v)) : ∀ v, Inv g P v (w0 v)
  | .cal f u => by
    intro c hc hcf hu
    obtain ⟨h1, h2⟩ := h (.cal f u) c hc hcf hu
    refine ⟨fun hcat => ?_, h2⟩
    obtain ⟨hl, hb⟩ := h1 hcat
    exact ⟨hl, (by rw [hno c hc]; intro p hp; cases hp), hb⟩
  | .blk j => h (.blk j)
  | .lin => h .lin
  | .comb => h .comb
  | .out => h .out

/-- **the generic `System`** of a layer graph `g` with keypoints `P`: variables, the models of the
real constraint objects, weight-level invariants, the CONCRETE composite, and the three proof
obligations discharged from the layer theorems. -/
def systemOf (g : LayerGraph) (P : Params) (hA : Accepted g P) (hB : Built g) : System g where
  V := Var
  S := Var.S
  C := Step g P
  Inv := Inv g P
  establishes := establishes_all hA hB
  realise := realise g P
  sound := sound_all hA hB
  Init := fun w0 => ∀ v, InitInv g P v (w0 v)
  init_sound := fun hno w0 h => init_sound_all hno w0 h

/-! ## the property for the generic system -/

/-- **C03 for EVERY accepted configuration (all model shapes).** Let `c` be a premade model config,
`g = buildSpec c` its layer graph (calibrated linear, calibrated lattice — all-vertices or
Kronecker-factored —, lattice ensemble with explicit / random-resolved lattices or an RTL layer, each
with or without output calibration, linear combination or average), `P` the input keypoints, and
suppose every layer constructor accepts its arguments (`layersAccept`). Start from ANY weights the
initializers can produce (`InitInv`) and run ANY history: `n` steps, each an ARBITRARY update of all
weights followed by the models of the real constraint objects (`Step`). Then the CONCRETE composite
`forward g (realise g P w)` — the function the driver evaluates and the check compares with the real
model — is monotone in every constrained feature for all pairs of non-missing points and, when no
normalised `Linear` degenerated, within the output bounds at every input, missing values included.

Hypotheses beyond acceptance = documented exclusions only: `trapClass g` (H_trap of C01; its
complement contains the class of finding F-C01-a: Edgeworth trusts + a trapezoid trust on a monotone
conditional axis + a third axis), `Nondegenerate` (F-C03-a), `0 < n ∨ NoCategoricalPairs g`
(F-C03-b), `RtlDraws` (the shuffles of the RTL layer are permutations). -/
theorem C03_systemOf (c : ModelConfig) (g : LayerGraph) (hb : buildSpec c = .ok g) (P : Params)
    (hacc : layersAccept g P = true) (htrap : trapClass g = true)
    (hdraw : c.kind = .ensemble → c.rtl = true → RtlDraws rtlIncreasing c)
    (w0 : Assign) (hinit : ∀ v, InitInv g P v (w0 v)) (n : Nat) (w : Assign)
    (hr : Reaches (Step g P) w0 n w) (hhist : 0 < n ∨ NoCategoricalPairs g) :
    (∀ f rq, f < c.features.length → ReqOf (featAt c f).mono rq → MonoClause c g (realise g P w) f rq) ∧
    (Nondegenerate g (realise g P w) → ∀ x : List ℚ, ValidInputs g x →
      inB c.outMin c.outMax (forward g (realise g P w) x)) :=
  C03_partial c g hb (systemOf g P (accepted_of_checks hacc htrap) (buildSpec_built hb)) w0 hinit n w hr hhist hdraw

/-- **the same for weights given as data** (restored from a checkpoint, `set_weights`): whenever the
weights are feasible — which is what every constraint establishes and every `Step` keeps — the
concrete composite is monotone and bounded. -/
theorem C03_feasible_weights (c : ModelConfig) (g : LayerGraph) (hb : buildSpec c = .ok g) (P : Params)
    (hacc : layersAccept g P = true) (htrap : trapClass g = true)
    (hdraw : c.kind = .ensemble → c.rtl = true → RtlDraws rtlIncreasing c)
    (w : Assign) (hw : ∀ v, Inv g P v (w v)) :
    (∀ f rq, f < c.features.length → ReqOf (featAt c f).mono rq → MonoClause c g (realise g P w) f rq) ∧
    (Nondegenerate g (realise g P w) → ∀ x : List ℚ, ValidInputs g x →
      inB c.outMin c.outMax (forward g (realise g P w) x)) := by
  have hF := sound_all (accepted_of_checks hacc htrap) (buildSpec_built hb) w hw
  exact ⟨fun f rq hf hreq => monotone_clause hb hF hf hreq hdraw, fun hN x hx => output_bounds hb hF hN hdraw x hx⟩

/-- **after at least one step the start does not matter**: from ANY weights whatsoever (also weights no
initializer produces, weights thrown far outside the feasible set, a categorical kernel against its
pairs), every non-empty history of arbitrary updates each followed by the constraints ends in weights
whose concrete composite is monotone and bounded. -/
theorem C03_systemOf_any_start (c : ModelConfig) (g : LayerGraph) (hb : buildSpec c = .ok g) (P : Params)
    (hacc : layersAccept g P = true) (htrap : trapClass g = true)
    (hdraw : c.kind = .ensemble → c.rtl = true → RtlDraws rtlIncreasing c)
    (w0 : Assign) (n : Nat) (hn : 0 < n) (w : Assign) (hr : Reaches (Step g P) w0 n w) :
    (∀ f rq, f < c.features.length → ReqOf (featAt c f).mono rq → MonoClause c g (realise g P w) f rq) ∧
    (Nondegenerate g (realise g P w) → ∀ x : List ℚ, ValidInputs g x →
      inB c.outMin c.outMax (forward g (realise g P w) x)) :=
  C03_feasible_weights c g hb P hacc htrap hdraw w
    (invariant_after_history_rel (Step g P) (Inv g P)
      (establishes_all (accepted_of_checks hacc htrap) (buildSpec_built hb)) hr (Or.inl hn))

/-- calibrated linear models (`tfl.premade.CalibratedLinear`) -/
theorem C03_calibrated_linear (c : ModelConfig) (hk : c.kind = .linear) (g : LayerGraph) (hb : buildSpec c = .ok g)
    (P : Params) (hacc : layersAccept g P = true) (w0 : Assign) (hinit : ∀ v, InitInv g P v (w0 v)) (n : Nat)
    (w : Assign) (hr : Reaches (Step g P) w0 n w) (hhist : 0 < n ∨ NoCategoricalPairs g) :
    (∀ f rq, f < c.features.length → ReqOf (featAt c f).mono rq → MonoClause c g (realise g P w) f rq) ∧
    (Nondegenerate g (realise g P w) → ∀ x : List ℚ, ValidInputs g x →
      inB c.outMin c.outMax (forward g (realise g P w) x)) := by
  obtain ⟨_, cals, _, rfl⟩ := buildSpec_linear hb hk
  refine C03_systemOf c _ hb P hacc ?_ (fun h => by rw [hk] at h; cases h) w0 hinit n w hr hhist
  simp [trapClass, mkLinear_kind]

/-- calibrated lattice models (`tfl.premade.CalibratedLattice`), all-vertices (`c.kfl = false`:
H_trap is the only exclusion) or Kronecker-factored -/
theorem C03_calibrated_lattice (c : ModelConfig) (hk : c.kind = .lattice) (g : LayerGraph) (hb : buildSpec c = .ok g)
    (P : Params) (hacc : layersAccept g P = true) (htrap : trapClass g = true)
    (w0 : Assign) (hinit : ∀ v, InitInv g P v (w0 v)) (n : Nat)
    (w : Assign) (hr : Reaches (Step g P) w0 n w) (hhist : 0 < n ∨ NoCategoricalPairs g) :
    (∀ f rq, f < c.features.length → ReqOf (featAt c f).mono rq → MonoClause c g (realise g P w) f rq) ∧
    (Nondegenerate g (realise g P w) → ∀ x : List ℚ, ValidInputs g x →
      inB c.outMin c.outMax (forward g (realise g P w) x)) :=
  C03_systemOf c g hb P hacc htrap (fun h => by rw [hk] at h; cases h) w0 hinit n w hr hhist

/-- lattice ensembles with explicit lattices (`'random'` lattices are resolved to explicit ones before
construction), average or linear combination -/
theorem C03_ensemble_explicit (c : ModelConfig) (_hk : c.kind = .ensemble) (hrtl : c.rtl = false) (g : LayerGraph)
    (hb : buildSpec c = .ok g) (P : Params) (hacc : layersAccept g P = true) (htrap : trapClass g = true)
    (w0 : Assign) (hinit : ∀ v, InitInv g P v (w0 v)) (n : Nat)
    (w : Assign) (hr : Reaches (Step g P) w0 n w) (hhist : 0 < n ∨ NoCategoricalPairs g) :
    (∀ f rq, f < c.features.length → ReqOf (featAt c f).mono rq → MonoClause c g (realise g P w) f rq) ∧
    (Nondegenerate g (realise g P w) → ∀ x : List ℚ, ValidInputs g x →
      inB c.outMin c.outMax (forward g (realise g P w) x)) :=
  C03_systemOf c g hb P hacc htrap (fun _ h => by rw [hrtl] at h; cases h) w0 hinit n w hr hhist

/-- RTL ensembles: for EVERY pair of shuffles (a family of explicit wirings). RTL lattices carry no
trusts, so H_trap holds by construction. -/
theorem C03_ensemble_rtl (c : ModelConfig) (hk : c.kind = .ensemble) (hrtl : c.rtl = true) (g : LayerGraph)
    (hb : buildSpec c = .ok g) (P : Params) (hacc : layersAccept g P = true)
    (hdraw : RtlDraws rtlIncreasing c)
    (w0 : Assign) (hinit : ∀ v, InitInv g P v (w0 v)) (n : Nat)
    (w : Assign) (hr : Reaches (Step g P) w0 n w) (hhist : 0 < n ∨ NoCategoricalPairs g) :
    (∀ f rq, f < c.features.length → ReqOf (featAt c f).mono rq → MonoClause c g (realise g P w) f rq) ∧
    (Nondegenerate g (realise g P w) → ∀ x : List ℚ, ValidInputs g x →
      inB c.outMin c.outMax (forward g (realise g P w) x)) := by
  refine C03_systemOf c g hb P hacc ?_ (fun _ _ => hdraw) w0 hinit n w hr hhist
  obtain ⟨_, cals, bs, cb, _, hbs, _, rfl⟩ := buildSpec_rtl hb hk hrtl
  obtain ⟨s, cap, _, rfl⟩ := rtlBlocks_inv hbs
  simp only [trapClass, List.all_eq_true, Bool.or_eq_true, bne_iff_ne, ne_eq, Bool.and_eq_true]
  intro b hb'
  simp only [List.mem_flatMap, List.mem_map] at hb'
  obtain ⟨grp, _, lat, _, rfl⟩ := hb'
  right
  simp [trapDistinct, trapCondFree, mkRtlBlock]

/-! ## non-vacuity: accepted configurations of every shape -/

/-- "`buildSpec` accepts `c`, every layer constructor accepts the graph, H_trap holds" as one Boolean -/
def acceptedB (c : ModelConfig) (P : Params) : Bool :=
  match buildSpec c with
  | .ok g => layersAccept g P && trapClass g
  | .error _ => false

theorem acceptedB_spec {c : ModelConfig} {P : Params} (h : acceptedB c P = true) :
    ∃ g, buildSpec c = .ok g ∧ layersAccept g P = true ∧ trapClass g = true := by
  unfold acceptedB at h
  split at h
  · rename_i g hg
    simp only [Bool.and_eq_true] at h
    exact ⟨g, hg, h.1, h.2⟩
  · cases h

/-- three features: increasing, decreasing with a default value, categorical with two ordering pairs -/
def exFeatures : List Feature :=
  [{ mono := .inc true, numKeypoints := 3, latticeSize := 2 },
   { mono := .dec false, numKeypoints := 2, default := some (-1), latticeSize := 2 },
   { numBuckets := 3, mono := .pairs [(0, 1), (1, 2)] .tuple, latticeSize := 2 }]
def exParams : Params := { kps := [[0, 1/2, 2], [-1, 3], []] }

def trustFeatures (condMono : MonoSpec) (trusts : List (Nat × Bool × Int)) : List Feature :=
  [{ mono := .inc true, numKeypoints := 3 }, { mono := condMono, numKeypoints := 2, trusts := trusts },
   { mono := .dec true, numKeypoints := 2 }]
def trustParams : Params := { kps := [[0, 1, 2], [0, 1], [0, 1]] }

/-- calibrated linear with bounds (a weighted average) and output calibration -/
def exLinear : ModelConfig :=
  { kind := .linear, features := exFeatures, outMin := some (-1), outMax := some 2, outCalib := true,
    outInitLen := 3 }
/-- calibrated lattice, all-vertices, simplex interpolation, one-sided bound -/
def exLattice : ModelConfig := { kind := .lattice, features := exFeatures, outMin := some 0, simplex := true }
/-- calibrated lattice with an Edgeworth AND a trapezoid trust of feature 1 in feature 0 -/
def exTrust (condMono : MonoSpec) (trusts : List (Nat × Bool × Int)) : ModelConfig :=
  { kind := .lattice, outMin := some 0, outMax := some 1, features := trustFeatures condMono trusts }
/-- calibrated lattice, Kronecker-factored -/
def exKfl : ModelConfig :=
  { kind := .lattice, features := exFeatures, kfl := true, numTerms := 2, outMin := some 0, outMax := some 1 }
/-- explicit ensemble with separate calibrators, linear combination and output calibration -/
def exEnsemble : ModelConfig :=
  { kind := .ensemble, features := exFeatures, lattices := [[0, 1], [1, 2], [2, 0, 1]],
    useLinearCombination := true, outCalib := true, outMin := some 0, outMax := some 4 }
/-- RTL ensemble (two lattices of rank 2 over three features, shared calibrators) -/
def exRtl : ModelConfig :=
  { kind := .ensemble, rtl := true, numLattices := 2, latticeRank := 2, separateCalibrators := false,
    features := exFeatures, perm1 := [2, 0, 1], perm2 := [3, 1, 0, 2], outMin := some 0, outMax := some 1 }

example : acceptedB exLinear exParams = true := by decide +kernel
example : acceptedB exLattice exParams = true := by decide +kernel
example : acceptedB exKfl exParams = true := by decide +kernel
example : acceptedB exEnsemble exParams = true := by decide +kernel
/-- the RTL example meets `RtlDraws` (its two shuffles are permutations). `buildSpec exRtl` itself is
evaluated by the driver on every RTL model the check builds (`pm.forward` reports `layersAccept`):
`rtlStructure` sorts with `List.mergeSort` (well-founded recursion), which the kernel cannot unfold
by `decide`. -/
example : RtlDraws rtlIncreasing exRtl := by
  refine ⟨by decide +kernel, ?_, ?_⟩
  · rw [show (rtlFlat exRtl rtlIncreasing).length = 3 by decide +kernel]
    decide
  · show [3, 1, 0, 2].Perm (List.range 4)
    decide
/-- Edgeworth + trapezoid trust, conditional feature NOT monotone: inside H_trap although the lattice
has a third axis -/
example : acceptedB (exTrust .none [(0, false, 1), (0, true, 1)]) trustParams = true := by decide +kernel
/-- a trapezoid trust ALONE on a monotone conditional feature: inside H_trap (class B of C01) -/
example : acceptedB (exTrust (.inc true) [(0, true, -1)]) trustParams = true := by decide +kernel
/-- Edgeworth + trapezoid trust on a MONOTONE conditional feature with a third feature: accepted by the
builders and by the layer constructors, but OUTSIDE H_trap — the class of finding F-C01-a, excluded
by the hypothesis `trapClass` -/
example : (match buildSpec (exTrust (.inc true) [(0, false, 1), (0, true, 1)]) with
    | .ok g => (layersAccept g trustParams, trapClass g)
    | .error _ => (false, false)) = (true, false) := by decide +kernel

/-! ## non-vacuity: a history of the generic system -/

/-- keypoints of the example graph `gEx` of `Props/C03.lean` (calibrated lattice: an increasing numeric
feature, a categorical feature with the pair (0, 1), sizes [2, 2], bounds [0, 1]) -/
def exP : Params := { kps := [[0, 1], []] }

/-- infeasible raw weights: a decreasing, out-of-bounds PWL kernel; a categorical kernel against its
pair; lattice vertices that are neither monotone nor bounded -/
def exStart : Assign
  | .cal 0 _ => ({ kernel := [5, -3] } : CalW)
  | .cal _ _ => ({ kernel := [1, 0] } : CalW)
  | .blk _ => ({ table := Table.ofVals [2, 2] [7, -1, 3, 9] } : BlkW)
  | .lin => ({} : LinW)
  | .comb => ({} : LinW)
  | .out => ({} : CalW)

def exLatAfter : Table :=
  runStage [2, 2] (Tfl.Lat.clipBounds (some 0) (some 1))
    (Tfl.Lat.finalizeT (latCfgOf blkEx) (Table.ofVals [2, 2] [7, -1, 3, 9]))

/-- … and what one application of the real constraints makes of them -/
def exAfter : Assign
  | .cal 0 _ => ({ kernel := [1, 0] } : CalW)
  | .cal _ _ => ({ kernel := [1/2, 1/2] } : CalW)
  | .blk _ => ({ table := exLatAfter } : BlkW)
  | .lin => ({} : LinW)
  | .comb => ({} : LinW)
  | .out => ({} : CalW)

/-- the example graph with the example keypoints is accepted and inside H_trap -/
theorem exAccepted : layersAccept gEx exP = true ∧ trapClass gEx = true := by constructor <;> decide +kernel

/-- the models of the real constraint objects of EVERY variable of the example map the infeasible
weights `exStart` to `exAfter` -/
theorem exStep : ∀ v, Step gEx exP v (exStart v) (exAfter v) := by
  have hpwl : PwlProj.constraintsCall 1 0 (some 0) (some 1) false false [1] 8 5 [-3] = .ok (1, [0]) := by
    decide +kernel
  have hcat : Categorical.project (some 0) (some 1) [(0, 1)] [1, 0] = .ok [1/2, 1/2] := by decide +kernel
  have hmo : (0 : ℚ) = PwlProj.naiveBounds (some 0) (some 1) 0 := by decide +kernel
  intro v
  cases v with
  | cal f u =>
    intro c hc hcf hu
    simp only [gEx, List.mem_cons, List.not_mem_nil, or_false] at hc
    rcases hc with rfl | rfl
    · have hf : f = 0 := hcf.symm
      subst hf
      refine ⟨fun h => (by cases h), fun _ => ?_⟩
      exact ⟨5, [-3], [1], 8, 1, [0], rfl, rfl, (by intro l hl; simp at hl; subst hl; norm_num),
        hpwl, rfl, hmo, fun h => (by cases h)⟩
    · have hf : f = 1 := hcf.symm
      subst hf
      exact ⟨fun _ => ⟨rfl, hcat⟩, fun h => (by cases h)⟩
  | blk j =>
    intro b hb
    rcases j with _ | j
    · simp only [gEx, List.getElem?_cons_zero, Option.some.injEq] at hb
      subst hb
      exact ⟨fun _ => ⟨Table.ofVals [2, 2] [7, -1, 3, 9], rfl⟩, fun h => (by cases h)⟩
    · simp [gEx] at hb
  | lin =>
    intro b hb hk
    simp only [gEx, List.mem_singleton] at hb
    subst hb; cases hk
  | comb => intro n ub h; cases h
  | out => intro oc h; cases h

/-- **the history hypothesis of `C03_systemOf` is satisfiable**: from ANY weights, one step of the
generic system — an arbitrary update (here: overwrite everything with the infeasible `exStart`)
followed by the models of the real constraint objects of every variable — leads to `exAfter` -/
theorem exReaches (w0 : Assign) : Reaches (Step gEx exP) w0 1 exAfter :=
  .step (fun _ => exStart) _ (.init w0) exStep

/-- feasible weights are weights the initializers may produce -/
theorem initInv_of_inv {g : LayerGraph} {P : Params} : ∀ (v : Var) (s : v.S), Inv g P v s → InitInv g P v s
  | .cal _ _, _, h => fun c hc hcf hu => ⟨fun hcat => ⟨((h c hc hcf hu).1 hcat).len, ((h c hc hcf hu).1 hcat).bnd⟩,
      (h c hc hcf hu).2⟩
  | .blk _, _, h => h
  | .lin, _, h => h
  | .comb, _, h => h
  | .out, _, h => h

/-- … the initial-state hypothesis is satisfiable too (`exAfter` is feasible: `establishes_all`), and
`C03_calibrated_lattice` applies: the concrete composite with the weights `exAfter` is non-decreasing
in feature 0, ordered along the category pair of feature 1 and within [0, 1] -/
example : MonoClause cfgEx gEx (realise gEx exP exAfter) 0 .inc ∧
    MonoClause cfgEx gEx (realise gEx exP exAfter) 1 (.pair 0 1) ∧
    ∀ x, ValidInputs gEx x → inB (some 0) (some 1) (forward gEx (realise gEx exP exAfter) x) := by
  have hinit : ∀ v, InitInv gEx exP v (exAfter v) := fun v =>
    initInv_of_inv v _ (establishes_all (accepted_of_checks exAccepted.1 exAccepted.2)
      (buildSpec_built buildSpec_cfgEx) v _ _ (exStep v))
  obtain ⟨h1, h2⟩ := C03_calibrated_lattice cfgEx rfl gEx buildSpec_cfgEx exP exAccepted.1 exAccepted.2
    exAfter hinit 1 exAfter (exReaches _) (Or.inl Nat.one_pos)
  refine ⟨h1 0 .inc (by simp [cfgEx]) (.inc true), h1 1 (.pair 0 1) (by simp [cfgEx]) (.pair _ _ 0 1 (by simp)), ?_⟩
  apply h2
  exact ⟨(fun b hb hk _ => by simp only [gEx, List.mem_singleton] at hb; subst hb; cases hk),
    (fun ub e => by cases e)⟩

end Tfl.C03
