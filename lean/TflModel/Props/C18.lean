import TflModel.Lemmas.Keypoints
/-!
# C18 — computed calibration keypoints are valid for every data sample

Model: `Tfl.Keypoints.computeKeypoints` over exact rationals. The rounding direction at an exact
tie `m + 1/2` is an argument (`dirs`): float rounding of `np.linspace`/`np.interp` may resolve an
exact tie either way, and every theorem holds for all directions.

`Props/C18Helpers.lean` continues this file: the first / last value of `sortedValues` IS the clip
bound or the data extreme (`sortedValues_head_clipMin`, `sortedValues_last_clipMax`,
`sortedValues_head_dataMin`, `sortedValues_last_dataMax`), 'uniform' keypoints lie in the range
(`uniform_within_range`), all clauses as one predicate (`Rules`, `compute_keypoints_rules`), the
feature / label helpers (`feature_helper_rules`, `set_feature_keypoints_get`, `label_helper_rules`,
`label_logits_rules`) and acceptance by `PWLCalibration` (`pwl_accepts_keypoints`,
`compute_keypoints_accepted`).
-/
namespace Tfl.C18
open Tfl Tfl.Keypoints

/-- **C18-T1.** Nearest-rank indices `round((n-1)·i/(k-1))`, `i = 0..k-1`, of
`np.quantile(method='nearest')`: for every `n ≥ k ≥ 2` and every tie direction they are `k`
strictly increasing indices starting at `0` and ending at `n-1` (hence all inside `[0, n-1]`). -/
theorem nearest_rank_indices (n k : Nat) (dirs : List Int) (hk : 2 ≤ k) (hn : k ≤ n) :
    (nearestIdx n (quantileGrid k) dirs).length = k ∧
    (nearestIdx n (quantileGrid k) dirs).Pairwise (· < ·) ∧
    (nearestIdx n (quantileGrid k) dirs)[0]? = some 0 ∧
    (nearestIdx n (quantileGrid k) dirs)[k - 1]? = some ((n : Int) - 1) := by
  have hk1 : k ≠ 1 := by omega
  have hlen := length_nearestIdx n k dirs hk1
  refine ⟨hlen, ?_, ?_, ?_⟩
  · rw [List.pairwise_iff_getElem]
    intro i j hi hj hij
    rw [getElem_nearestIdx n k dirs hk1 i hi, getElem_nearestIdx n k dirs hk1 j hj]
    rcases Nat.eq_or_lt_of_le hn with rfl | hlt
    · rw [virt_eq k i hk, virt_eq k j hk, roundDir_int, roundDir_int]
      exact_mod_cast hij
    · exact roundDir_lt_of_gap _ _ (virt_lt n k i j hk hlt hij)
  · have h0 : 0 < (nearestIdx n (quantileGrid k) dirs).length := by omega
    rw [List.getElem?_eq_getElem h0, getElem_nearestIdx n k dirs hk1 0 h0, virt_zero, roundDir_int]
  · have h0 : k - 1 < (nearestIdx n (quantileGrid k) dirs).length := by omega
    rw [List.getElem?_eq_getElem h0, getElem_nearestIdx n k dirs hk1 (k - 1) h0, virt_last n k hk, roundDir_int]

theorem nearest_rank_in_range (n k : Nat) (dirs : List Int) (hk : 2 ≤ k) (hn : k ≤ n) :
    ∀ z ∈ nearestIdx n (quantileGrid k) dirs, 0 ≤ z ∧ z < (n : Int) := by
  obtain ⟨hlen, hp, h0, hl⟩ := nearest_rank_indices n k dirs hk hn
  intro z hz
  obtain ⟨i, hi, rfl⟩ := List.getElem_of_mem hz
  have hp' := List.pairwise_iff_getElem.mp hp
  have h0' : (nearestIdx n (quantileGrid k) dirs)[0]'(by omega) = 0 := by
    have := h0; rw [List.getElem?_eq_getElem (by omega)] at this; simpa using this
  have hl' : (nearestIdx n (quantileGrid k) dirs)[k - 1]'(by omega) = (n : Int) - 1 := by
    have := hl; rw [List.getElem?_eq_getElem (by omega)] at this; simpa using this
  constructor
  · rcases Nat.eq_zero_or_pos i with rfl | hpos
    · rw [h0']
    · have := hp' 0 i (by omega) hi hpos; rw [h0'] at this; omega
  · rcases Nat.lt_or_ge i (k - 1) with hlt | hge
    · have := hp' i (k - 1) hi (by omega) hlt; rw [hl'] at this; omega
    · have : i = k - 1 := by omega
      subst this; rw [hl']; omega

/-- the de-duplicated, sorted, clipped sample `compute_keypoints` works on -/
def sortedValues (values : List Rat) (weights : Option (List Rat)) (clipMin clipMax dflt : Option Rat) : List Rat :=
  unique ((prepare values weights clipMin clipMax dflt).map (·.1))

/-- **C18, unweighted 'quantiles'.** For every value array, clip bounds, default value, tie
directions and `num_keypoints = k ≥ 2` with at least `k` distinct clipped values, the unweighted
'quantiles' path returns (no error) exactly `k` keypoints, strictly increasing, each one a value
of the clipped sample (so inside its range), picked at strictly increasing ranks from rank `0`
(the clip bound / minimum) to rank `n-1` (the clip bound / maximum). -/
theorem quantiles_unweighted (values : List Rat) (k : Nat) (clipMin clipMax dflt : Option Rat) (red : Reduce)
    (dirs : List Int) (hk : 2 ≤ k) (hn : k ≤ (sortedValues values none clipMin clipMax dflt).length) :
    ∃ kps, computeKeypoints values k .quantiles clipMin clipMax dflt none red dirs = .ok kps ∧
      kps.length = k ∧ kps.Pairwise (· < ·) ∧
      (∀ x ∈ kps, x ∈ sortedValues values none clipMin clipMax dflt) ∧
      kps[0]? = (sortedValues values none clipMin clipMax dflt)[0]? ∧
      kps[k - 1]? = (sortedValues values none clipMin clipMax dflt)[(sortedValues values none clipMin clipMax dflt).length - 1]? := by
  set sorted := sortedValues values none clipMin clipMax dflt with hs
  set idx := nearestIdx sorted.length (quantileGrid k) dirs with hidx
  obtain ⟨hlen, hp, h0, hl⟩ := nearest_rank_indices sorted.length k dirs hk hn
  have hr := nearest_rank_in_range sorted.length k dirs hk hn
  rw [← hidx] at hlen hp h0 hl hr
  refine ⟨idx.map (fun z => sorted.getD z.toNat 0), ?_, by rw [List.length_map, hlen], ?_, ?_, ?_, ?_⟩
  · unfold computeKeypoints
    simp only
    rw [if_neg (by rw [← sortedValues, ← hs]; omega)]
    rw [← sortedValues, ← hs, ← hidx]
    exact mapM_pyIndex sorted idx hr
  · exact pairwise_map_getD sorted (unique_pairwise _) idx hp hr
  · intro x hx
    rw [List.mem_map] at hx
    obtain ⟨z, hz, rfl⟩ := hx
    have := hr z hz
    have hz' : z.toNat < sorted.length := by omega
    simp only [List.getD_eq_getElem?_getD, List.getElem?_eq_getElem hz', Option.getD_some]
    exact List.getElem_mem _
  · rw [List.getElem?_map, h0]
    have : 0 < sorted.length := by omega
    simp [List.getElem?_eq_getElem this]
  · rw [List.getElem?_map, hl]
    have h1 : sorted.length - 1 < sorted.length := by omega
    have h2 : ((sorted.length : Int) - 1).toNat = sorted.length - 1 := by omega
    simp [h2, List.getElem?_eq_getElem h1]

/-- **C18, count clause ('quantiles', fewer distinct values than keypoints).** The distinct
values themselves are returned, strictly increasing — weighted or not. -/
theorem quantiles_few_distinct (values : List Rat) (k : Nat) (clipMin clipMax dflt : Option Rat)
    (weights : Option (List Rat)) (red : Reduce) (dirs : List Int)
    (hn : (sortedValues values weights clipMin clipMax dflt).length < k) :
    computeKeypoints values k .quantiles clipMin clipMax dflt weights red dirs
      = .ok (sortedValues values weights clipMin clipMax dflt) ∧
    (sortedValues values weights clipMin clipMax dflt).Pairwise (· < ·) := by
  refine ⟨?_, unique_pairwise _⟩
  unfold computeKeypoints
  simp only
  rw [if_pos (by rw [← sortedValues]; exact hn)]
  rfl

theorem linspace_pairwise (a b : Rat) (k : Nat) (hk : 2 ≤ k) (hab : a < b) : (linspace a b k).Pairwise (· < ·) := by
  unfold linspace
  rw [if_neg (by omega), List.pairwise_map]
  refine List.Pairwise.imp_of_mem ?_ (List.pairwise_lt_range (n := k))
  intro i j _ _ hij
  have hk' : (0 : Rat) < (k : Rat) - 1 := by
    have : (2 : Rat) ≤ k := by exact_mod_cast hk
    linarith
  have hij' : (i : Rat) < j := by exact_mod_cast hij
  have hba : 0 < b - a := by linarith
  have : (i : Rat) * (b - a) / ((k : Rat) - 1) < (j : Rat) * (b - a) / ((k : Rat) - 1) :=
    div_lt_div_of_pos_right (mul_lt_mul_of_pos_right hij' hba) hk'
  linarith

/-- **C18-T3 ('uniform').** With `k ≥ 2` the 'uniform' keypoints `linspace(min, max, k)` of a
non-empty clipped sample number `k`, start at the smallest and end at the largest clipped value,
and are strictly increasing if and only if the sample has at least two distinct values. -/
theorem uniform_keypoints (values : List Rat) (k : Nat) (clipMin clipMax dflt : Option Rat)
    (weights : Option (List Rat)) (red : Reduce) (dirs : List Int) (hk : 2 ≤ k) (a : Rat) (rest : List Rat)
    (hs : sortedValues values weights clipMin clipMax dflt = a :: rest) :
    ∃ kps, computeKeypoints values k .uniform clipMin clipMax dflt weights red dirs = .ok kps ∧
      kps.length = k ∧ kps[0]? = some a ∧ kps[k - 1]? = some ((a :: rest).getLast?.getD a) ∧
      (kps.Pairwise (· < ·) ↔ 2 ≤ (a :: rest).length) := by
  set b := (a :: rest).getLast?.getD a with hb
  refine ⟨linspace a b k, ?_, ?_, ?_, ?_, ?_⟩
  · unfold computeKeypoints
    simp only
    rw [← sortedValues, hs]
  · unfold linspace; rw [if_neg (by omega)]; simp
  · unfold linspace; rw [if_neg (by omega)]
    rw [List.getElem?_map, List.getElem?_range (by omega)]; simp
  · unfold linspace; rw [if_neg (by omega)]
    rw [List.getElem?_map, List.getElem?_range (by omega)]
    have hk' : ((k : Rat) - 1) ≠ 0 := by
      have : (2 : Rat) ≤ k := by exact_mod_cast hk
      intro h; linarith
    have : ((k - 1 : Nat) : Rat) = (k : Rat) - 1 := by
      rw [Nat.cast_sub (by omega)]; simp
    simp only [Option.map_some, this, Option.some.injEq]
    field_simp
    ring
  · have hpw : (a :: rest).Pairwise (· < ·) := by rw [← hs]; exact unique_pairwise _
    constructor
    · intro h
      by_contra hlen
      have hrest : rest = [] := by
        cases rest with
        | nil => rfl
        | cons x xs => simp at hlen
      have hba : b = a := by rw [hb, hrest]; simp
      rw [hba] at h
      have h0 : (linspace a a k)[0]? = some a := by
        unfold linspace; rw [if_neg (by omega), List.getElem?_map, List.getElem?_range (by omega)]; simp
      have h1 : (linspace a a k)[1]? = some a := by
        unfold linspace; rw [if_neg (by omega), List.getElem?_map, List.getElem?_range (by omega)]; simp
      have hl : (linspace a a k).length = k := by unfold linspace; rw [if_neg (by omega)]; simp
      have := List.pairwise_iff_getElem.mp h 0 1 (by omega) (by omega) (by omega)
      rw [List.getElem?_eq_getElem (by omega)] at h0 h1
      simp only [Option.some.injEq] at h0 h1
      rw [h0, h1] at this
      exact lt_irrefl _ this
    · intro hlen
      apply linspace_pairwise a b k hk
      cases rest with
      | nil => simp at hlen
      | cons x xs =>
        have hmem : b ∈ x :: xs := by
          rw [hb]
          simp only [List.getLast?_cons_cons]
          cases h : (x :: xs).getLast? with
          | none => simp at h
          | some y => simpa using List.mem_of_getLast? h
        exact (List.pairwise_cons.mp hpw).1 b hmem

/-- **C18-T2 (first half): the repair loop.** Started from `k ≤ n` in-range indices, the
repeated-index repair of `_weighted_quantile` yields `k` DISTINCT in-range indices that still
contain every index that was present (a candidate always exists: fewer than `n` indices are in
use, and the search order `±1 … ±(n-1)` reaches every other in-range index). -/
theorem repair_spec (n : Nat) (idx0 : List Int) (hk : idx0.length ≤ n)
    (hr : ∀ z ∈ idx0, 0 ≤ z ∧ z < (n : Int)) :
    (repair n [] (firstUses [] idx0) idx0).length = idx0.length ∧
    (repair n [] (firstUses [] idx0) idx0).Nodup ∧
    (∀ z ∈ repair n [] (firstUses [] idx0) idx0, 0 ≤ z ∧ z < (n : Int)) ∧
    ∀ z ∈ idx0, z ∈ repair n [] (firstUses [] idx0) idx0 := by
  have hu : ∀ v ∈ idx0, v ∈ firstUses [] idx0 := fun v hv =>
    (mem_firstUses idx0 [] v hv).resolve_left (by simp)
  obtain ⟨i1, _, i3⟩ := repair_inv n idx0 [] (firstUses [] idx0) hr hu (firstUses_nodup idx0 []).1
    (by rw [length_firstUses_add_reps]; exact hk)
  exact ⟨length_repair n _ _ _, i1, i3, fun z hz => (repair_keeps n idx0 [] _ z hz).resolve_left (by simp)⟩

theorem head_of_strict {s : List Int} (hs : s.Pairwise (· < ·)) {m : Int} (hm : m ∈ s) (hlo : ∀ z ∈ s, m ≤ z) :
    s[0]? = some m := by
  obtain ⟨i, hi, rfl⟩ := List.getElem_of_mem hm
  rcases Nat.eq_zero_or_pos i with rfl | hpos
  · exact List.getElem?_eq_getElem hi
  · have h1 := List.pairwise_iff_getElem.mp hs 0 i (by omega) hi hpos
    have h2 := hlo (s[0]'(by omega)) (List.getElem_mem _)
    omega

theorem last_of_strict {s : List Int} (hs : s.Pairwise (· < ·)) {m : Int} (hm : m ∈ s) (hhi : ∀ z ∈ s, z ≤ m) :
    s[s.length - 1]? = some m := by
  obtain ⟨i, hi, rfl⟩ := List.getElem_of_mem hm
  rcases Nat.lt_or_ge i (s.length - 1) with hlt | hge
  · have h1 := List.pairwise_iff_getElem.mp hs i (s.length - 1) hi (by omega) hlt
    have h2 := hhi (s[s.length - 1]'(by omega)) (List.getElem_mem _)
    omega
  · have : i = s.length - 1 := by omega
    subst this
    exact List.getElem?_eq_getElem hi

/-- **C18-T2 (`_weighted_quantile`, fixed code).** For strictly increasing `sorted_values`
(length `n`), one weight per value, `2 ≤ k ≤ n` quantiles, every tie direction, and weights that
are not all zero (or `k = 2`): the function returns without error `k` keypoints, strictly
increasing, each a value of the sample, the first equal to the smallest and the last to the
largest value — whatever zero-weight plateaus the interpolation grid has (the rounded `np.interp`
indices are in range for ANY grid, the ends are forced, the repair loop makes them distinct). -/
theorem weighted_quantile (vals ws qs : List Rat) (dirs : List Int) (hv : vals.Pairwise (· < ·))
    (hw : ws.length = vals.length) (hk : 2 ≤ qs.length) (hn : qs.length ≤ vals.length)
    (hz : ¬ (rsum ws = 0 ∧ 2 < qs.length)) :
    ∃ kps, weightedQuantile vals ws qs dirs = .ok kps ∧ kps.length = qs.length ∧ kps.Pairwise (· < ·) ∧
      (∀ x ∈ kps, x ∈ vals) ∧ kps[0]? = vals[0]? ∧ kps[qs.length - 1]? = vals[vals.length - 1]? := by
  set n := vals.length with hnv
  have hn1 : 1 ≤ ws.length := by omega
  obtain ⟨wl, wr⟩ := weightedIdx_facts ws qs dirs hn1
  rw [hw] at wr
  set idx0 := forceEnds n (weightedIdx ws qs dirs) with hidx0
  have hlen0 : idx0.length = qs.length := by rw [hidx0, length_forceEnds, wl]
  have hr0 : ∀ z ∈ idx0, 0 ≤ z ∧ z < (n : Int) := by
    intro z hz'
    rcases mem_forceEnds hz' with rfl | rfl | h
    · omega
    · omega
    · exact wr z h
  obtain ⟨c0, cn⟩ := forceEnds_contains n (weightedIdx ws qs dirs) (by rw [wl]; exact hk)
  rw [← hidx0] at c0 cn
  obtain ⟨r1, r2, r3, r4⟩ := repair_spec n idx0 (by rw [hlen0]; exact hn) hr0
  set s := sortI (repair n [] (firstUses [] idx0) idx0) with hs
  have hsp := sortI_perm (repair n [] (firstUses [] idx0) idx0)
  rw [← hs] at hsp
  have hss : s.Pairwise (· < ·) := sortI_strict _ r2
  have hsr : ∀ z ∈ s, 0 ≤ z ∧ z < (n : Int) := fun z hz' => r3 z (hsp.subset hz')
  have hsl : s.length = qs.length := by rw [hsp.length_eq, r1, hlen0]
  have h0 : s[0]? = some 0 := head_of_strict hss (hsp.symm.subset (r4 0 c0)) (fun z hz' => (hsr z hz').1)
  have hl : s[s.length - 1]? = some ((n : Int) - 1) :=
    last_of_strict hss (hsp.symm.subset (r4 _ cn)) (fun z hz' => by have := (hsr z hz').2; omega)
  refine ⟨s.map (fun z => vals.getD z.toNat 0), ?_, by rw [List.length_map, hsl], ?_, ?_, ?_, ?_⟩
  · unfold weightedQuantile
    rw [if_neg (by omega), if_neg hz]
    exact mapM_pyIndex vals s hsr
  · exact pairwise_map_getD vals hv s hss hsr
  · intro x hx
    rw [List.mem_map] at hx
    obtain ⟨z, hz', rfl⟩ := hx
    have := hsr z hz'
    have hz'' : z.toNat < vals.length := by omega
    simp only [List.getD_eq_getElem?_getD, List.getElem?_eq_getElem hz'', Option.getD_some]
    exact List.getElem_mem _
  · rw [List.getElem?_map, h0]
    have : 0 < vals.length := by omega
    simp [List.getElem?_eq_getElem this]
  · rw [← hsl, List.getElem?_map, hl]
    have h1 : vals.length - 1 < vals.length := by omega
    have h2 : ((n : Int) - 1).toNat = vals.length - 1 := by omega
    have h3 : n - 1 = vals.length - 1 := by omega
    simp [h2, h3, List.getElem?_eq_getElem h1]

/-- the reduced weights (`np.add.reduceat`, divided by the counts for `'mean'`) of the distinct
clipped values -/
def reducedWeights (values : List Rat) (weights : List Rat) (clipMin clipMax dflt : Option Rat) (red : Reduce) :
    List Rat :=
  (uniqueW (prepare values (some weights) clipMin clipMax dflt)).map fun e => match red with
    | .sum => e.2.1
    | .mean => e.2.1 / (e.2.2 : Rat)

theorem length_quantileGrid (k : Nat) (hk : 2 ≤ k) : (quantileGrid k).length = k := by
  unfold quantileGrid linspace; rw [if_neg (by omega)]; simp

/-- **C18, weighted 'quantiles' end to end.** For every value array, weight vector, clip bounds,
default value, reduction, tie directions and `k ≥ 2` with at least `k` distinct clipped values,
provided the reduced weights are not all zero (F-C18-c) or `k = 2`: `compute_keypoints` returns
`k` strictly increasing keypoints, all values of the clipped sample, the first the smallest
(clip_min if given) and the last the largest (clip_max if given) clipped value. -/
theorem quantiles_weighted (values weights : List Rat) (k : Nat) (clipMin clipMax dflt : Option Rat) (red : Reduce)
    (dirs : List Int) (hk : 2 ≤ k) (hn : k ≤ (sortedValues values (some weights) clipMin clipMax dflt).length)
    (hz : rsum (reducedWeights values weights clipMin clipMax dflt red) ≠ 0 ∨ k = 2) :
    ∃ kps, computeKeypoints values k .quantiles clipMin clipMax dflt (some weights) red dirs = .ok kps ∧
      kps.length = k ∧ kps.Pairwise (· < ·) ∧
      (∀ x ∈ kps, x ∈ sortedValues values (some weights) clipMin clipMax dflt) ∧
      kps[0]? = (sortedValues values (some weights) clipMin clipMax dflt)[0]? ∧
      kps[k - 1]? = (sortedValues values (some weights) clipMin clipMax dflt)[
        (sortedValues values (some weights) clipMin clipMax dflt).length - 1]? := by
  set sorted := sortedValues values (some weights) clipMin clipMax dflt with hs
  have hgl := length_quantileGrid k hk
  have hwl : (reducedWeights values weights clipMin clipMax dflt red).length = sorted.length := by
    unfold reducedWeights
    rw [List.length_map, hs, sortedValues, ← map_fst_uniqueW, List.length_map]
  obtain ⟨kps, h1, h2, h3, h4, h5, h6⟩ := weighted_quantile sorted
    (reducedWeights values weights clipMin clipMax dflt red) (quantileGrid k) dirs (unique_pairwise _) hwl
    (by rw [hgl]; exact hk) (by rw [hgl]; exact hn)
    (by rw [hgl]; rintro ⟨ha, hb⟩; rcases hz with hz | hz <;> [exact hz ha; omega])
  rw [hgl] at h2 h6
  refine ⟨kps, ?_, h2, h3, h4, h5, h6⟩
  unfold computeKeypoints
  simp only
  rw [if_neg (by rw [← sortedValues, ← hs]; omega)]
  exact h1

/-! ### non-vacuity and counter-witnesses -/

/-- a heavy-duplicate sample with clip bounds meets the hypotheses of `quantiles_unweighted` -/
example : computeKeypoints [1, 1, 2, 2, 2, 5, 7, 7, 9] 3 .quantiles (some 0) (some 8) none none .mean []
    = .ok [0, 2, 8] := by decide +kernel

/-- weighted path with a repaired duplicate index -/
example : computeKeypoints [1, 2, 3, 4, 5] 4 .quantiles none none none (some [8, 0, 0, 0, 1]) .sum []
    = .ok [1, 2, 3, 5] := by decide +kernel

/-- **F-C18-b regression witnesses (fixed).** On the inputs on which the old code returned
`[2,4,5]` / `[2,4]` (two leading zero weights: quantile 0 landed on the last index of the zero
plateau) the model of the fixed code returns the extremes: `clip_min = 0` resp. the data minimum
first, the maximum last. -/
theorem leading_zero_weights_fixed :
    computeKeypoints [1, 2, 3, 4, 5] 3 .quantiles (some 0) none none (some [1, 1, 1, 1, 1]) .mean []
      = .ok [0, 3, 5] ∧
    computeKeypoints [1, 2, 3, 4, 5] 3 .quantiles (some 0) none none (some [0, 0, 1, 1, 1]) .mean []
      = .ok [0, 4, 5] ∧
    computeKeypoints [1, 2, 3, 4] 2 .quantiles none none none (some [0, 0, 1, 1]) .mean [] = .ok [1, 4] := by
  decide +kernel

/-- **F-C18-c / F-C18-d witnesses.** All-zero weights with more than two keypoints and an
all-default sample in 'uniform' mode are errors (`IndexError` in the real code); with two
keypoints the forced ends make all-zero weights harmless. -/
theorem degenerate_inputs_witness :
    computeKeypoints [1, 2, 3] 3 .quantiles none none none (some [0, 0, 0]) .mean [] = .error .other ∧
    computeKeypoints [1, 2, 3] 2 .quantiles none none none (some [0, 0, 0]) .mean [] = .ok [1, 3] ∧
    computeKeypoints [1, 1] 3 .uniform none none (some 1) none .mean [] = .error .other := by decide +kernel

end Tfl.C18
