import TflModel.Props.C12
import Mathlib.Analysis.Real.Sqrt
import Mathlib.NumberTheory.Real.Irrational
/-!
# C12 — the order-2 norm assertion of `linear_lib.assert_constraints`, for EVERY rational kernel

`normOk .l2 w eps` (Model/Asserts.lean) decides `|‖w‖₂ − 1| < eps ∨ ‖w‖₂ < 1e-8` on `s = Σ w²` without
a square root.  `C12.normOk_l2_iff` needs a RATIONAL root `r·r = s`, which generic kernels do not
have (`no_rational_root_example`).  Here:

* `normOk_l2_sq_iff` / `_small` / `_large` / `_nonpos`: the acceptance as inequalities between squares,
  no root, all rational `w`, `eps`;
* `normOk_l2_real_iff`: the acceptance is exactly the real-valued statement
  `|√s − 1| < eps ∨ |√s| < 1e-8` with Mathlib's `Real.sqrt` — what `tf.norm(ord=2)` computes up to
  float rounding — for all rational `w`, `eps`.
-/
namespace Tfl.C12
open Tfl Tfl.Poset Tfl.Linear Tfl.Asserts

theorem normSq_nonneg (w : List Rat) : 0 ≤ normSq w := by
  unfold normSq
  induction w with
  | nil => simp [rsum]
  | cons x xs ih => simp only [List.map_cons, rsum]; nlinarith [mul_self_nonneg x]

/-- the square-root-free test, in any ordered field: with `r ≥ 0`, `r·r = s`, `n > 0` it says
`|r − 1| < e ∨ |r| < n`. -/
theorem l2_test_field {K : Type} [Field K] [LinearOrder K] [IsStrictOrderedRing K]
    (s e n r : K) (hr : 0 ≤ r) (hrr : r * r = s) (hn : 0 < n) :
    (((0 < 1 + e ∧ s < (1 + e) * (1 + e)) ∧ (1 - e < 0 ∨ (1 - e) * (1 - e) < s)) ∨ s < n * n) ↔
      (|r - 1| < e ∨ |r| < n) := by
  subst hrr
  simp only [abs_lt, abs_of_nonneg hr]
  constructor
  · rintro (⟨⟨h1, h2⟩, h3⟩ | h)
    · left
      refine ⟨?_, by nlinarith⟩
      rcases h3 with h3 | h3
      · linarith
      · by_contra hc
        have : r ≤ 1 - e := by linarith
        by_cases he : 1 - e < 0
        · linarith
        · nlinarith
    · right; nlinarith
  · rintro (⟨h1, h2⟩ | h)
    · left
      refine ⟨⟨by linarith, by nlinarith⟩, ?_⟩
      by_cases he : 1 - e < 0
      · left; exact he
      · right; nlinarith
    · right; nlinarith

/-- the Boolean of the model, as the proposition it decides (pure unfolding) -/
theorem normOk_l2_unfold (w : List Rat) (eps : Rat) :
    normOk .l2 w eps = true ↔
      (((0 < 1 + eps ∧ normSq w < (1 + eps) * (1 + eps)) ∧
        (1 - eps < 0 ∨ (1 - eps) * (1 - eps) < normSq w)) ∨ normSq w < normEps * normEps) := by
  simp only [normOk, Bool.or_eq_true, Bool.and_eq_true, decide_eq_true_eq]

/-- **C12 (linear, order-2 norm, no root), `eps ≤ 1`** (the range of every sensible tolerance; for `eps ≤ 0` the first disjunct is empty). For EVERY rational kernel: the norm
assertion passes iff `(1 − eps)² < Σw² < (1 + eps)²` (i.e. `|‖w‖₂ − 1| < eps`) or
`Σw² < (1e-8)²` (the all-zero escape). -/
theorem normOk_l2_sq_iff_small (w : List Rat) (eps : Rat) (h1 : eps ≤ 1) :
    normOk .l2 w eps = true ↔
      (((1 - eps) * (1 - eps) < normSq w ∧ normSq w < (1 + eps) * (1 + eps)) ∨
        normSq w < normEps * normEps) := by
  rw [normOk_l2_unfold]
  constructor
  · rintro (⟨⟨_, h2⟩, h3 | h3⟩ | h)
    · linarith
    · exact Or.inl ⟨h3, h2⟩
    · exact Or.inr h
  · rintro (⟨h2, h3⟩ | h)
    · exact Or.inl ⟨⟨by linarith, h3⟩, Or.inr h2⟩
    · exact Or.inr h

/-- **C12 (linear, order-2 norm, no root), `eps > 1`.** Only the upper inequality is left:
`Σw² < (1 + eps)²` (the lower one, `‖w‖₂ > 1 − eps`, is vacuous for a negative right-hand side). -/
theorem normOk_l2_sq_iff_large (w : List Rat) (eps : Rat) (h1 : 1 < eps) :
    normOk .l2 w eps = true ↔ normSq w < (1 + eps) * (1 + eps) := by
  rw [normOk_l2_unfold]
  have hne : normEps * normEps < (1 + eps) * (1 + eps) := by
    have : normEps < 1 := by norm_num [normEps]
    have : (0 : Rat) < normEps := by norm_num [normEps]
    nlinarith
  constructor
  · rintro (⟨⟨_, h2⟩, _⟩ | h)
    · exact h2
    · linarith
  · intro h
    exact Or.inl ⟨⟨by linarith, h⟩, Or.inl (by linarith)⟩

/-- **C12 (linear, order-2 norm), `eps ≤ 0`.** `|‖w‖₂ − 1| < eps` cannot hold: only kernels with
`Σw² < (1e-8)²` pass. -/
theorem normOk_l2_sq_iff_nonpos (w : List Rat) (eps : Rat) (h0 : eps ≤ 0) :
    normOk .l2 w eps = true ↔ normSq w < normEps * normEps := by
  rw [normOk_l2_unfold]
  constructor
  · rintro (⟨⟨_, h2⟩, h3 | h3⟩ | h)
    · linarith
    · nlinarith
    · exact h
  · exact Or.inr

/-- all three ranges in one statement (`max 0 (1 − eps)` is the clipped lower radius) -/
theorem normOk_l2_sq_iff (w : List Rat) (eps : Rat) :
    normOk .l2 w eps = true ↔
      ((0 < eps ∧ (1 < eps ∨ (1 - eps) * (1 - eps) < normSq w) ∧ normSq w < (1 + eps) * (1 + eps)) ∨
        normSq w < normEps * normEps) := by
  rcases le_or_gt eps 0 with h0 | h0
  · rw [normOk_l2_sq_iff_nonpos w eps h0]
    constructor
    · exact Or.inr
    · rintro (⟨h, _⟩ | h)
      · linarith
      · exact h
  · rcases le_or_gt eps 1 with h1 | h1
    · rw [normOk_l2_sq_iff_small w eps h1]
      constructor
      · rintro (⟨h2, h3⟩ | h)
        · exact Or.inl ⟨h0, Or.inr h2, h3⟩
        · exact Or.inr h
      · rintro (⟨_, h2 | h2, h3⟩ | h)
        · linarith
        · exact Or.inl ⟨h2, h3⟩
        · exact Or.inr h
    · rw [normOk_l2_sq_iff_large w eps h1]
      constructor
      · intro h; exact Or.inl ⟨h0, Or.inl h1, h⟩
      · rintro (⟨_, _, h3⟩ | h)
        · exact h3
        · have : normEps < 1 := by norm_num [normEps]
          have : (0 : Rat) < normEps := by norm_num [normEps]
          nlinarith

/-- **C12 (linear, order-2 norm, real-valued).** For EVERY rational kernel and `eps`: the model's
root-free test accepts iff the real 2-norm `‖w‖₂ = √(Σw²)` satisfies the code's condition
`|‖w‖₂ − 1| < eps ∨ |‖w‖₂| < 1e-8`. No hypothesis on `w` (the root is irrational in general). -/
theorem normOk_l2_real_iff (w : List Rat) (eps : Rat) :
    normOk .l2 w eps = true ↔
      (|Real.sqrt ((normSq w : ℚ) : ℝ) - 1| < ((eps : ℚ) : ℝ) ∨
        |Real.sqrt ((normSq w : ℚ) : ℝ)| < ((normEps : ℚ) : ℝ)) := by
  have hs : (0 : ℝ) ≤ ((normSq w : ℚ) : ℝ) := by exact_mod_cast normSq_nonneg w
  have hn : (0 : ℝ) < ((normEps : ℚ) : ℝ) := by
    have : (0 : ℚ) < normEps := by norm_num [normEps]
    exact_mod_cast this
  rw [normOk_l2_unfold,
    ← l2_test_field ((normSq w : ℚ) : ℝ) (eps : ℝ) (normEps : ℝ) (Real.sqrt ((normSq w : ℚ) : ℝ))
      (Real.sqrt_nonneg _) (Real.mul_self_sqrt hs) hn]
  have c1 : (0 < 1 + eps) ↔ ((0 : ℝ) < 1 + (eps : ℝ)) := by exact_mod_cast Iff.rfl
  have c2 : (normSq w < (1 + eps) * (1 + eps)) ↔ (((normSq w : ℚ) : ℝ) < (1 + (eps : ℝ)) * (1 + (eps : ℝ))) := by
    exact_mod_cast Iff.rfl
  have c3 : (1 - eps < 0) ↔ ((1 : ℝ) - (eps : ℝ) < 0) := by exact_mod_cast Iff.rfl
  have c4 : ((1 - eps) * (1 - eps) < normSq w) ↔ (((1 : ℝ) - (eps : ℝ)) * (1 - (eps : ℝ)) < ((normSq w : ℚ) : ℝ)) := by
    exact_mod_cast Iff.rfl
  have c5 : (normSq w < normEps * normEps) ↔ (((normSq w : ℚ) : ℝ) < (normEps : ℝ) * (normEps : ℝ)) := by
    exact_mod_cast Iff.rfl
  rw [c1, c2, c3, c4, c5]

/-- `normOk_l2_iff` (rational root) is the special case of the field lemma over `ℚ` -/
theorem normOk_l2_iff_of_field (w : List Rat) (eps r : Rat) (hr : 0 ≤ r) (hrr : r * r = normSq w) :
    normOk .l2 w eps = true ↔ (|r - 1| < eps ∨ |r| < normEps) := by
  rw [normOk_l2_unfold]
  exact l2_test_field (normSq w) eps normEps r hr hrr (by norm_num [normEps])

/-- the hypothesis of `normOk_l2_iff` is unsatisfiable for the kernel `[1, 1]` (`Σw² = 2`): the
root-free theorems above are the ones that speak about generic kernels -/
theorem no_rational_root_example : ¬ ∃ r : ℚ, r * r = normSq [1, 1] := by
  rintro ⟨r, hr⟩
  have h2 : normSq [1, 1] = 2 := by decide +kernel
  rw [h2] at hr
  apply irrational_sqrt_two
  refine ⟨|r|, ?_⟩
  rw [eq_comm, Real.sqrt_eq_iff_mul_self_eq (by norm_num) (by positivity)]
  have : (|r| * |r| : ℚ) = 2 := by rw [abs_mul_abs_self]; exact hr
  exact_mod_cast this.symm

/-! non-vacuity: a kernel with irrational norm on each side -/
-- ‖[1,1]/√2-ish‖: [7/10, 7/10] has Σw² = 0.98, inside (0.99², 1.01²)? 0.9801 > 0.98: rejected at eps = 1/100
example : normOk .l2 [7/10, 7/10] (1/100) = false := by decide +kernel
-- accepted at eps = 1/50: 0.98² = 0.9604 < 0.98 < 1.0404
example : normOk .l2 [7/10, 7/10] (1/50) = true := by decide +kernel
example : normOk .l2 [0, 0] (1/50) = true := by decide +kernel

end Tfl.C12
