import TflModel.Props.C06
import TflModel.Lemmas.VerifyLinear
/-!
# C06 for ACCEPTED Linear configurations: the scaling hypothesis `hsc` is discharged

The range-dominance theorems of Props/C06.lean (`linear_range_dominance[_acyclic]`,
`linear_fixpoint[_acyclic]`) carry the hypothesis `hsc : ∀ k, getV (scalings …) k ≠ 0`: the model
computes in ℚ where `x / 0 = 0`, so without it the theorems would claim totality where the real
code divides by zero (an accepted configuration with `input_min = input_max` on a dimension OUTSIDE
every range dominance had the scaling 0 and the projection returned NaN: F-C06-a, fixed by 44c9e89
— `project` now scales only the dimensions of the range-dominance pairs).

Here `hsc` (and the length and direction side conditions) are PROVED for every configuration the
model of `linear_lib.verify_hyperparameters` accepts (`Tfl.Verify.verifyLinear`, Model/Verify.lean,
tied to the real `LinearConstraints.__init__` / `Linear.__init__` by the tables of C16):
`Tfl.Verify.verifyLinear_scalings_ne_zero` (Lemmas/VerifyLinear.lean). The two hypotheses that were
left in the first version are discharged too, because the validation now enforces them:
* `Acyclic` of the dominance sets — `Tfl.Verify.verifyLinear_acyclic`: since fix 2ef7ec2 the linear
  validation runs the round-based cycle check (`kahnAcyclic`, sound by Lemmas/Kahn.lean) on both
  dominance sets (it used to reject only a pair together with its reverse: F-C16-u);
* the range-dominance dimensions carry a monotonicity `±1` — `Tfl.Verify.verifyLinear_hdir`: since
  fix 1f0b06a a `None` entry is rejected like 0 (F-C16-x).
What remains are the shape of the column (one entry per input) and, for the stage theorem, the
signs of its input column (the output of the preceding stages).
-/
namespace Tfl.C06
open Tfl Tfl.Poset Tfl.Linear Tfl.Verify

/-- **C06 (Linear), `hsc` discharged.** For every accepted configuration no scaling of the
range-dominance step is zero, and the scalings have one entry per input. -/
theorem accepted_scalings (nid : Option Nat) (mv mdv rdv iminv imaxv : Val) (c : LinCfg)
    (h : verifyLinear nid mv mdv rdv iminv imaxv = .ok c) :
    (scalings c.monos c.rd c.los c.his).length = c.monos.length ∧
    ∀ k, k < (scalings c.monos c.rd c.los c.his).length → getV (scalings c.monos c.rd c.los c.his) k ≠ 0 := by
  refine ⟨scalings_length _ _ _ _, fun k hk => ?_⟩
  rw [scalings_length] at hk
  exact verifyLinear_scalings_ne_zero h k hk

/-- **C06 (Linear, range dominance) for accepted configurations.** For every configuration accepted
by the constructor model with a non-empty range-dominance set, and every column `w2` with one entry
per input that has the configured signs (the output of the sign / monotonic-dominance stages), the
range-dominance stage of `project` does not raise; after un-scaling every `(dominant, weak)` pair
satisfies the scaled inequality, the signs survive and the inputs outside the pairs keep their
value. No hypothesis on the scalings, on cycles or on the monotonicities: all are consequences of
acceptance. -/
theorem accepted_range_dominance (nid : Option Nat) (mv mdv rdv iminv imaxv : Val) (c : LinCfg)
    (h : verifyLinear nid mv mdv rdv iminv imaxv = .ok c)
    (hne : c.rd ≠ [])
    (w2 : List Rat) (hlen : w2.length = c.monos.length)
    (hsign : ∀ k, SignOk (getM c.monos k) (getV w2 k)) :
    let sc := scalings c.monos c.rd c.los c.his
    ∃ w3, approxProject (swapPairs c.rd) (mulV w2 sc) = .ok w3 ∧
      (∀ p ∈ c.rd, getV sc p.2 * getV (divV w3 sc) p.2 ≤ getV sc p.1 * getV (divV w3 sc) p.1) ∧
      (∀ k, SignOk (getM c.monos k) (getV (divV w3 sc) k)) ∧
      (∀ k, ¬ IsNode c.rd k → getV (divV w3 sc) k = getV w2 k) := by
  intro sc
  obtain ⟨hl, hsc⟩ := accepted_scalings nid mv mdv rdv iminv imaxv c h
  refine linear_range_dominance_acyclic c.monos c.rd sc w2 hne (verifyLinear_acyclic h).2 ?_ (by rw [hlen, hl]) hsc
    (verifyLinear_hdir h) hsign
  rintro a ⟨p, hp, e | e⟩
  · rw [hlen, ← e]; exact (verifyLinear_range h hp (Or.inl rfl)).1
  · rw [hlen, ← e]; exact (verifyLinear_range h hp (Or.inr rfl)).1

/-- **C06 feasible ⇒ unchanged (Linear, before normalisation) for accepted configurations**: a
column with one entry per input that already has the configured signs and satisfies every
monotonic- and (scaled) range-dominance pair is returned unchanged by `projectPre` — in particular
the un-scaling `divV (mulV w sc) sc` is exact, which needs every scaling non-zero, and neither
topological sort raises, which needs both dominance sets acyclic: all proved from acceptance. -/
theorem accepted_fixpoint (nid : Option Nat) (mv mdv rdv iminv imaxv : Val) (c : LinCfg)
    (h : verifyLinear nid mv mdv rdv iminv imaxv = .ok c)
    (w : List Rat) (hlen : w.length = c.monos.length)
    (hsign : ∀ k, SignOk (getM c.monos k) (getV w k))
    (hmd : ∀ p ∈ c.md, getV w p.2 ≤ getV w p.1)
    (hrd : ∀ p ∈ c.rd, getV (scalings c.monos c.rd c.los c.his) p.2 * getV w p.2 ≤
                        getV (scalings c.monos c.rd c.los c.his) p.1 * getV w p.1) :
    projectPre c.monos c.md c.rd c.los c.his w = .ok w := by
  obtain ⟨hl, hsc⟩ := accepted_scalings nid mv mdv rdv iminv imaxv c h
  exact linear_fixpoint_acyclic c.monos c.md c.rd c.los c.his w (verifyLinear_acyclic h).1 (verifyLinear_acyclic h).2
    hsign hmd (by rw [hlen, hl]) hsc hrd

/-- the same for the constraints class `LinearConstraints.__init__` -/
theorem accepted_scalings_constraints (r : RawLinC) (c : LinCfg) (h : linearConstraints r = .ok c) :
    ∀ k, k < (scalings c.monos c.rd c.los c.his).length → getV (scalings c.monos c.rd c.los c.his) k ≠ 0 :=
  (accepted_scalings _ _ _ _ _ _ c h).2

/-- **F-C06-a, fixed by 44c9e89** — the coordinator's witness
`LinearConstraints(monotonicities=[1,1,0], range_dominances=[(0,1)], input_min=[0,0,2],
input_max=[2,1,2])`: the configuration is accepted; the scalings of `project` are `[2, 1, 1]` (the
dimension 2 outside the dominance keeps 1), all non-zero; the scalings that `project` used before
the fix (every dimension with both bounds: still what `assert_constraints` computes, `scalingsAll`)
are `[2, 1, 0]` — the real code then computed `0 · w / 0 = NaN` for weight 2; and the projection of a
hostile column is total, ordered (`2 · 3/2 ≥ 1 · 3`) and leaves weight 2 alone. -/
theorem fixed_C06_a_zero_range_outside_dominance :
    let r : RawLinC := ⟨.s false [.a (.int 1), .a (.int 1), .a (.int 0)], .a .none, .s false [.s true [.int 0, .int 1]],
      .s false [.a (.flt 0), .a (.flt 0), .a (.flt 2)], .s false [.a (.flt 2), .a (.flt 1), .a (.flt 2)]⟩
    outcome (linearConstraints r) = 0 ∧
    scalings [1, 1, 0] [(0, 1)] [some 0, some 0, some 2] [some 2, some 1, some 2] = [2, 1, 1] ∧
    scalingsAll [1, 1, 0] [some 0, some 0, some 2] [some 2, some 1, some 2] = [2, 1, 0] ∧
    projectPre [1, 1, 0] [] [(0, 1)] [some 0, some 0, some 2] [some 2, some 1, some 2] [1, 4, -7]
      = .ok [3/2, 3, -7] := by decide +kernel

end Tfl.C06
