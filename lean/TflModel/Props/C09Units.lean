import TflModel.Props.C09
import TflModel.Lemmas.UnitsExec
/-!
# C09 — what the driver runs, the remaining layers, the forward passes, and the composite constraint

* `finalizeUT_per_unit`: the EXECUTABLE multi-unit finalisation (`finalizeUT`, driver op `un.finalize`)
  read at unit `u` is the executable one-unit finalisation (`finalizeT`, the object of C01, driver op
  `lat.finalize`) of column `u` — through `finalizeUT_agree` (new, `Lemmas/UnitsExec.lean`),
  `finalize_per_unit` and `finalizeT_agree`.
* `constraint1_eq_latticeConstraintT` / `lattice_constraint_per_unit_exec`: the one-unit function
  `constraint1` the per-unit theorem `lattice_constraint_per_unit` talks about IS, on the box, what the
  driver's `latticeConstraintT` (op `lat.constraint`) computes — given the table / function tie of the
  Dykstra loop (C08: `projectByDykstraT_agree`; with the `last_change` slots keyed like the Python dict,
  for configurations in which no constraint tuple is listed twice).
* PWL / Linear / Categorical full constraints and the forward passes (`Linear`, `CategoricalCalibration`,
  `Lattice`): the multi-unit models `pwlConstraintU`, `linearProjectU`, `categoricalProjectU`,
  `linearCallU`, `categoricalCallU`, `latticeCallU` (Model/Units.lean) are DEFINED column-wise, so the
  per-unit statements below are definitional (`getElem?` of a `map` over `range units`); the content is in
  the correspondence suites `un.pwlfull / un.linfull / un.catfull` and the real-vs-real suites of
  `harness/props/c09.py`. `PWLCalibration.call`: `pwl_callUnits_per_unit` (the model `callUnits` maps the
  one-unit `call` over the units, with the code's broadcast rule for a single input column).
-/
namespace Tfl.C09
open Tfl Tfl.Lat Tfl.Units

/-! ## the executable multi-unit finalisation -/

theorem inRange_append {sizes : List Nat} {units u : Nat} {idx : Idx} (hr : InRange sizes idx) (hu : u < units) :
    InRange (sizes ++ [units]) (idx ++ [u]) := by
  refine ⟨by simp [hr.1], fun d hd => ?_⟩
  simp only [List.length_append, List.length_cons, List.length_nil, zero_add] at hd
  by_cases h : d < sizes.length
  · rw [coord_append_lt u (by rw [hr.1]; exact h), getD_append_lt _ _ _ h]
    exact hr.2 d h
  · have hd' : d = sizes.length := by omega
    subst hd'
    rw [← hr.1, coord_append_len]
    simpa [hr.1, List.getD_eq_getElem?_getD] using hu

/-- **T1 on the executables**: for every accepted configuration (`CfgShape`; sizes of trapezoid main
dimensions positive), unit count, unit `u`, multi-unit table `t` over `sizes ++ [units]` and one-unit table
`t1` over `sizes` carrying column `u` of `t`: on every vertex, `finalizeUT` (what `un.finalize` runs) at
`(vertex, u)` equals `finalizeT` (what `lat.finalize` runs, the object of C01) at the vertex. -/
theorem finalizeUT_per_unit (c : Cfg) (hc : CfgShape c) (hM : ∀ tr ∈ c.trapezoid, 0 < c.sizes.getD tr.main 0)
    (units u : Nat) (hu : u < units) (t t1 : Table)
    (ht : ∀ idx, InRange c.sizes idx → t.get (idx ++ [u]) = t1.get idx) :
    ∀ idx, InRange c.sizes idx → (finalizeUT c units t).get (idx ++ [u]) = (finalizeT c t1).get idx := by
  intro idx hr
  have h1 := finalizeUT_agree c units hc.trusts hM (AgreeOn.refl _ t.get) (idx ++ [u]) (inRange_append hr hu)
  have h2 : slice (finalizeU c units t.get) u idx = finalize c (slice t.get u) idx :=
    finalize_per_unit c hc units u hu t.get idx hr.1
  have hloc : AgreeOn c.sizes (slice t.get u) t1.get := fun i hi => ht i hi
  have h3 := finalizeT_agree c hM (t := t1) (f := slice t.get u) hloc.symm idx hr
  rw [h1, show finalizeU c units t.get (idx ++ [u]) = slice (finalizeU c units t.get) u idx from rfl, h2, h3]

/-! ## the composite `LatticeConstraints.__call__` -/

/-- **the function-level one-unit constraint of `lattice_constraint_per_unit` is what the driver runs**:
`constraint1 c` (Dykstra → strict finalisation → clip on functions) agrees on the box with
`latticeConstraintT c` (op `lat.constraint`), for every configuration, iteration count and mode, given the
table / function tie `hdyk` of the Dykstra loop alone (C08: `projectByDykstraT_agree` /
`dykstraIterT_agree`; since the `last_change` slots are keyed like the Python dict it holds for the
positional function-level loop of `Model/Units.lean` when no constraint tuple is listed twice). -/
theorem constraint1_eq_latticeConstraintT (c : LCfg) (hM : ∀ tr ∈ c.d.trapezoid, 0 < c.d.sizes.getD tr.main 0)
    (t : Table) (f : W) (hf : AgreeOn c.d.sizes t.get f)
    (hdyk : AgreeOn c.d.sizes (projectByDykstraT c.d c.iters t).get (projectByDykstra c.d c.iters f)) :
    AgreeOn c.d.sizes (latticeConstraintT c t).get (constraint1 c f) := by
  unfold latticeConstraintT constraint1
  apply runStage_agree (clipBounds_local c.d.sizes c.lo c.hi)
  split
  · split
    · exact finalizeT_agree c.fin hM hdyk
    · exact hdyk
  · exact hf

/-- **T1, `LatticeConstraints.__call__`, against the executable**: unit `u` of the multi-unit
constraint (`constraintU`: the `sizes + [units]` reshape, reductions over all axes but the last) equals,
on every vertex, the driver's `latticeConstraintT` applied to the table of column `u` — every
configuration, iteration count, strict or not. -/
theorem lattice_constraint_per_unit_exec (c : LCfg) (hd : DCfgWF c.d)
    (hM : ∀ tr ∈ c.d.trapezoid, 0 < c.d.sizes.getD tr.main 0) (units u : Nat) (hu : u < units) (w : W)
    (hdyk : AgreeOn c.d.sizes (projectByDykstraT c.d c.iters (tabulate c.d.sizes (slice w u))).get
      (projectByDykstra c.d c.iters (slice w u))) :
    ∀ idx, InRange c.d.sizes idx →
      constraintU c units w (idx ++ [u]) = (latticeConstraintT c (tabulate c.d.sizes (slice w u))).get idx := by
  intro idx hr
  have h1 : slice (constraintU c units w) u idx = constraint1 c (slice w u) idx :=
    lattice_constraint_per_unit c hd units u hu w idx hr.1
  have h2 := constraint1_eq_latticeConstraintT c hM (tabulate c.d.sizes (slice w u)) (slice w u)
    (agreeOn_tabulate _ _) hdyk idx hr
  rw [h2, ← h1]
  rfl

/-- the strict composite inherits C01: unit `u` of the multi-unit strict constraint satisfies, on the
one-unit box, whatever the one-unit executable output satisfies (`P` = e.g. `Tfl.C01.Strict c.fin`,
proved for `latticeConstraintT` in `Props/C01Constraint.lean`, is a property of the values on the box) -/
theorem lattice_constraint_per_unit_transfer (c : LCfg) (hd : DCfgWF c.d)
    (hM : ∀ tr ∈ c.d.trapezoid, 0 < c.d.sizes.getD tr.main 0) (units u : Nat) (hu : u < units) (w : W)
    (hdyk : AgreeOn c.d.sizes (projectByDykstraT c.d c.iters (tabulate c.d.sizes (slice w u))).get
      (projectByDykstra c.d c.iters (slice w u))) :
    AgreeOn c.d.sizes (slice (constraintU c units w) u)
      (latticeConstraintT c (tabulate c.d.sizes (slice w u))).get :=
  fun idx hr => lattice_constraint_per_unit_exec c hd hM units u hu w hdyk idx hr

/-! ## PWL, Linear, Categorical: full constraints (column-wise models: definitional) -/

theorem getElem?_map_range {α : Type} (n : Nat) (f : Nat → α) (u : Nat) (hu : u < n) :
    ((List.range n).map f)[u]? = some (f u) := by
  rw [List.getElem?_map, List.getElem?_range hu]; rfl

/-- **T1, the whole PWL weight constraint** (`PWLCalibrationConstraints.__call__` =
`project_all_constraints`: bounds / monotonicity / convexity Dykstra loop + finalisation): unit `u` of the
multi-unit model is the one-unit `Tfl.PwlProj.constraintsCall` (the object of C04) of column `u`.
Definitional — `pwlConstraintU` is the column-wise map; the real multi-unit call is tied to it by the
suite `un.pwlfull` (convexity, clamps, 2–3 units, columns ×1 / ×100 / ×0.01). -/
theorem pwl_constraint_per_unit (mono conv : Int) (omin omax : Option ℚ) (cmin cmax : Bool) (lengths : List ℚ)
    (iters units u : Nat) (hu : u < units) (bias : List ℚ) (H : Mat) :
    (pwlConstraintU mono conv omin omax cmin cmax lengths iters units bias H)[u]? =
      some (Tfl.PwlProj.constraintsCall mono conv omin omax cmin cmax lengths iters (getR bias u) (col H u)) :=
  getElem?_map_range units _ u hu

/-- **T1, the whole Linear weight constraint** (`linear_lib.project`: sign clip, dominance sweeps,
normalisation): definitional for the column-wise `linearProjectU`; suite `un.linfull`. The stage that is
NOT column-wise in the code (`tf.norm(axis=0)`) is `linear_normalization_per_unit`. -/
theorem linear_project_per_unit (monos : List Int) (md rd : Tfl.Poset.Pairs) (los his : List (Option ℚ))
    (ord : Tfl.Linear.NormOrd) (units u : Nat) (hu : u < units) (m : Mat) :
    (linearProjectU monos md rd los his ord units m)[u]? =
      some (Tfl.Linear.project monos md rd los his ord (col m u)) :=
  getElem?_map_range units _ u hu

/-- **T1, the Categorical weight constraint** (`categorical_calibration_lib.project`): definitional for
`categoricalProjectU`; suite `un.catfull`. -/
theorem categorical_project_per_unit (lo hi : Option ℚ) (cs : Tfl.Poset.Pairs) (units u : Nat) (hu : u < units)
    (m : Mat) :
    (categoricalProjectU lo hi cs units m)[u]? = some (Tfl.Categorical.project lo hi cs (col m u)) :=
  getElem?_map_range units _ u hu

/-! ## forward passes: output `u` is the single-unit function of column `u` -/

theorem mapM_ok_getElem {α : Type} (f : Nat → Except Err α) :
    ∀ (l : List Nat) (ys : List α), l.mapM f = .ok ys →
      ys.length = l.length ∧ ∀ i (h : i < l.length) (h' : i < ys.length), f l[i] = .ok ys[i]
  | [], ys, h => by
    simp only [List.mapM_nil, pure, Except.pure, Except.ok.injEq] at h
    subst h
    exact ⟨rfl, fun i hi => absurd hi (by simp)⟩
  | a :: r, ys, h => by
    simp only [List.mapM_cons, bind, Except.bind] at h
    split at h
    · cases h
    · rename_i y hy
      split at h
      · cases h
      · rename_i zs hzs
        simp only [pure, Except.pure, Except.ok.injEq] at h
        subst h
        obtain ⟨hl, hall⟩ := mapM_ok_getElem f r zs hzs
        refine ⟨by simp [hl], fun i hi hi' => ?_⟩
        cases i with
        | zero => simpa using hy
        | succ i =>
          simp only [List.getElem_cons_succ]
          exact hall i (by simpa using hi) (by simpa using hi')

/-- **evaluation side, `PWLCalibration.call`** with `units > 1`: whenever the multi-unit call returns,
output `u` is the ONE-unit `call` on unit `u`'s kernel column, softmax row and missing output, at the
input entry the code hands to unit `u` (the single column when one is given, column `u` otherwise). -/
theorem pwl_callUnits_per_unit (cfg : Tfl.PwlEval.Cfg) (kernels wss : List (List ℚ)) (mouts xs : List ℚ)
    (ms : Option (List ℚ)) (ys : List ℚ) (h : Tfl.PwlEval.callUnits cfg kernels wss mouts xs ms = .ok ys)
    (u : Nat) (hu : u < kernels.length) :
    ∃ hy : u < ys.length,
      Tfl.PwlEval.call cfg (kernels.getD u []) (wss.getD u []) (getR mouts u)
        (getR xs (if xs.length = 1 then 0 else u)) (ms.map (fun m => getR m (if xs.length = 1 then 0 else u))) =
        .ok ys[u] := by
  unfold Tfl.PwlEval.callUnits at h
  by_cases h1 : xs.length ≠ 1 ∧ xs.length ≠ kernels.length
  · rw [if_pos h1] at h; cases h
  · rw [if_neg h1] at h
    have fin : ∀ (h : (List.range kernels.length).mapM (fun u =>
          let c := if xs.length = 1 then 0 else u
          Tfl.PwlEval.call cfg (kernels.getD u []) (wss.getD u []) (getR mouts u) (getR xs c)
            (ms.map (fun m => getR m c))) = .ok ys),
        ∃ hy : u < ys.length,
          Tfl.PwlEval.call cfg (kernels.getD u []) (wss.getD u []) (getR mouts u)
            (getR xs (if xs.length = 1 then 0 else u)) (ms.map (fun m => getR m (if xs.length = 1 then 0 else u))) =
            .ok ys[u] := by
      intro h
      obtain ⟨hl, hall⟩ := mapM_ok_getElem _ _ ys h
      have hy : u < ys.length := by rw [hl]; simpa using hu
      refine ⟨hy, ?_⟩
      have := hall u (by simpa using hu) hy
      simpa using this
    cases ms with
    | none => exact fin (by simpa using h)
    | some m =>
      simp only at h
      by_cases h2 : (m.length != xs.length) = true
      · rw [if_pos h2] at h; cases h
      · rw [if_neg h2] at h; exact fin h

/-- **evaluation side, `Linear.call`**: output `u` = the one-unit `Tfl.Linear.call` on kernel column `u`
(and bias entry `u`). Definitional for `linearCallU`; real-vs-real suite `real:units:linear.call`. -/
theorem linear_call_per_unit (units u : Nat) (hu : u < units) (K : Mat) (bias : Option (List ℚ))
    (los his : List (Option ℚ)) (x : List ℚ) :
    (linearCallU units K bias los his x)[u]? =
      some (Tfl.Linear.call (col K u) (bias.map (fun b => getR b u)) los his x) :=
  getElem?_map_range units _ u hu

/-- **evaluation side, `CategoricalCalibration.call`** -/
theorem categorical_call_per_unit (units u : Nat) (hu : u < units) (K : Mat) (default : Option Int) (xs : List Int) :
    (categoricalCallU units K default xs)[u]? =
      some (Tfl.Categorical.call (col K u) default (xs.getD (if xs.length = 1 then 0 else u) 0)) :=
  getElem?_map_range units _ u hu

/-- **evaluation side, `Lattice.call`** (hypercube): unit `u` interpolates its own kernel column at its own
input row -/
theorem lattice_call_per_unit (form : Tfl.LatticeEval.InputForm) (clipOn : Bool) (sizes : List Nat)
    (units u : Nat) (hu : u < units) (K : Mat) (xs : List (List ℚ)) :
    (latticeCallU form clipOn sizes units K xs)[u]? =
      some (Tfl.LatticeEval.evalHypercube form clipOn sizes (col K u) (xs.getD u [])) :=
  getElem?_map_range units _ u hu

/-- non-vacuity of the executable tie: the example of `Props/C09.lean` -/
example : ∀ idx, InRange [2, 2] idx →
    (finalizeUT exCfg 2 exW).get (idx ++ [1]) =
      (finalizeT exCfg (Table.ofVals [2, 2] [0, -300, 400, -100])).get idx := by
  apply finalizeUT_per_unit exCfg ⟨by decide, by
      intro tr h
      simp only [exCfg, List.append_nil, List.mem_cons, List.not_mem_nil, or_false] at h
      subst h; exact ⟨by decide, by decide⟩⟩ (by intro tr h; simp [exCfg] at h) 2 1 (by decide)
  intro idx hr
  have : idx ∈ allIdx [2, 2] := mem_allIdx.mpr hr
  simp only [allIdx, List.range, List.range.loop, List.flatMap_cons, List.flatMap_nil, List.map_cons, List.map_nil,
    List.append_nil, List.cons_append, List.nil_append, List.mem_cons, List.not_mem_nil, or_false] at this
  rcases this with rfl | rfl | rfl | rfl <;> decide +kernel

end Tfl.C09
