import TflModel.Props.C05
import TflModel.Lemmas.VerifyPwl
/-!
# C05 for ACCEPTED configurations: `PwlEval.WF` is discharged

Every T1 / T3 / T5 theorem of Props/C05.lean assumes `WF cfg kernel ws`: at least two strictly
increasing keypoints, `len(keypoints) - is_cyclic` kernel rows and — for learned interior keypoints —
one positive softmax weight per piece, summing to one. Here the first two groups are PROVED from what
the layer constructor model accepts (`Tfl.Verify.pwlCalibration`, Model/Verify.lean, tied to the real
`PWLCalibration.__init__` by the tables of C16) plus the shape of the weights `build()` creates:

* `accepted_keypoints` — an accepted layer HAS keypoints (`input_keypoints=None` is rejected), at least
  two, and `strictlyIncreasing` (the Boolean check of `verify_hyperparameters`) is `StrictIncr`;
* `Built r c cfg kernel ws` — the evaluation configuration `cfg` carries the accepted keypoints and
  `is_cyclic`, the kernel column has the `num_weights = len(input_keypoints) - is_cyclic` rows of
  `build()`'s `add_weight`, and (learned interior keypoints only) `ws` is a softmax row of the
  `interpolation_logits` shape `(units, len(input_keypoints) - 1)`: positive weights summing to one —
  true of the exact softmax of any finite logits, violated only by the float32 underflow of finding
  F-C05-a;
* `built_wf : Built … → WF cfg kernel ws`.

The headline theorems of C05 are then restated with `Built` as the only hypothesis. The categorical
part restates T4/T5 for configurations accepted by `categoricalLayer`.
-/
namespace Tfl.C05
open Tfl Tfl.PwlEval Tfl.Poset Tfl.Verify

/-- the Boolean check `all(k[i] < k[i+1])` of the constructor is the `StrictIncr` of the theorems -/
theorem strictIncr_of_check : ∀ ks : List Rat, strictlyIncreasing ks = true → StrictIncr ks := by
  intro ks
  induction ks with
  | nil => intro _; trivial
  | cons a t ih =>
    cases t with
    | nil => intro _; trivial
    | cons b t' =>
      intro h
      simp only [strictlyIncreasing, Bool.and_eq_true, decide_eq_true_eq] at h
      exact ⟨h.1, ih h.2⟩

/-- **accepted ⇒ keypoints exist, at least two, strictly increasing.** `PWLCalibration.__init__` rejects
`input_keypoints=None`, fewer than two keypoints and keypoints that are not strictly increasing. -/
theorem accepted_keypoints (r : RawPwl) (c : PwlCfg) (h : pwlCalibration r = .ok c) :
    ∃ ks, c.keypoints = some ks ∧ 2 ≤ ks.length ∧ StrictIncr ks := by
  obtain ⟨hlib, hkp⟩ := pwlCalibration_inv h
  obtain ⟨k, lo, hi, m, cv, ls, hk, -, -, -, -, -, -, -, rfl⟩ := verifyPwl_inv hlib
  obtain ⟨ks, rfl⟩ := parseKeypoints_some hk hkp
  exact ⟨ks, rfl, parseKeypoints_two hk ks rfl, strictIncr_of_check ks (parseKeypoints_inc hk ks rfl)⟩

/-- an accepted layer configuration `c` (of the raw arguments `r`) together with weights of the shapes
`build()` creates: what the evaluation model `Tfl.PwlEval` is run on -/
structure Built (r : RawPwl) (c : PwlCfg) (cfg : Cfg) (kernel ws : List Rat) : Prop where
  /-- the constructor accepted the arguments -/
  accepted : pwlCalibration r = .ok c
  /-- the layer evaluates with the accepted keypoints … -/
  keypoints : c.keypoints = some cfg.inputKeypoints
  /-- … and the accepted `is_cyclic` -/
  cyclic : cfg.isCyclic = c.cyclic
  /-- `build()`: `num_weights = len(input_keypoints) - is_cyclic` kernel rows -/
  rows : kernel.length + (if cfg.isCyclic then 1 else 0) = cfg.inputKeypoints.length
  /-- learned interior keypoints: `ws = softmax(interpolation_logits[u])`, one weight per piece -/
  softmax : cfg.learned = true →
    ws.length + 1 = cfg.inputKeypoints.length ∧ (∀ w ∈ ws, 0 < w) ∧ rsum ws = 1

/-- **the bridge: accepted + built ⇒ `WF`** -/
theorem built_wf {r : RawPwl} {c : PwlCfg} {cfg : Cfg} {kernel ws : List Rat}
    (b : Built r c cfg kernel ws) : WF cfg kernel ws := by
  obtain ⟨ks, hks, h2, hinc⟩ := accepted_keypoints r c b.accepted
  have e : ks = cfg.inputKeypoints := by
    have := b.keypoints; rw [hks] at this; exact Option.some.inj this
  subst e
  exact ⟨h2, hinc, b.rows, fun hl => (b.softmax hl).1, fun hl => (b.softmax hl).2.1,
    fun hl => (b.softmax hl).2.2⟩

variable {r : RawPwl} {c : PwlCfg} {cfg : Cfg} {kernel ws : List Rat}

/-- **C05/T1 for accepted layers: the output is the piecewise-linear interpolation through the
reported points.** With `KI = keypoints_inputs()`, `KO = keypoints_outputs()`, `n = len(keypoints)`:
the function passes through every `(KI_j, KO_j)`, is constant left of `KI_0` and right of `KI_{n-1}`,
linear on every piece, and these cases cover every input. -/
theorem accepted_interpolation (b : Built r c cfg kernel ws) :
    (∀ j, j < cfg.inputKeypoints.length →
      calibrate cfg kernel ws (getR (keypointsInputs cfg ws) j) = getR (keypointsOutputs cfg kernel) j) ∧
    (∀ x, x ≤ getR (keypointsInputs cfg ws) 0 →
      calibrate cfg kernel ws x = getR (keypointsOutputs cfg kernel) 0) ∧
    (∀ x, getR (keypointsInputs cfg ws) (cfg.inputKeypoints.length - 1) ≤ x →
      calibrate cfg kernel ws x = getR (keypointsOutputs cfg kernel) (cfg.inputKeypoints.length - 1)) ∧
    (∀ j, j + 1 < cfg.inputKeypoints.length → ∀ x, getR (keypointsInputs cfg ws) j ≤ x →
      x ≤ getR (keypointsInputs cfg ws) (j + 1) →
      calibrate cfg kernel ws x =
        (1 - (x - getR (keypointsInputs cfg ws) j) /
              (getR (keypointsInputs cfg ws) (j + 1) - getR (keypointsInputs cfg ws) j))
            * getR (keypointsOutputs cfg kernel) j
          + (x - getR (keypointsInputs cfg ws) j) /
              (getR (keypointsInputs cfg ws) (j + 1) - getR (keypointsInputs cfg ws) j)
            * getR (keypointsOutputs cfg kernel) (j + 1)) ∧
    (∀ x, x ≤ getR (keypointsInputs cfg ws) 0 ∨
      getR (keypointsInputs cfg ws) (cfg.inputKeypoints.length - 1) ≤ x ∨
      ∃ j, j + 1 < cfg.inputKeypoints.length ∧
        getR (keypointsInputs cfg ws) j ≤ x ∧ x ≤ getR (keypointsInputs cfg ws) (j + 1)) :=
  have h := built_wf b
  ⟨pwl_value_at_keypoints h, pwl_constant_left h, pwl_constant_right h,
    fun j hj x h1 h2 => pwl_linear_between h j hj x h1 h2, pwl_cases_exhaustive h⟩

/-- **C05/T1 for accepted layers: `keypoints_inputs()` of a fixed-keypoint layer are the ACCEPTED
keypoints**, and `keypoints_outputs()` are the cumulative kernel sums. -/
theorem accepted_keypoints_reported (b : Built r c cfg kernel ws) :
    (cfg.learned = false → some (keypointsInputs cfg ws) = c.keypoints) ∧
    (∀ j, j < kernel.length → getR (keypointsOutputs cfg kernel) j = rsum (kernel.take (j + 1))) :=
  ⟨fun hf => by rw [keypoints_inputs_fixed (built_wf b) hf, b.keypoints],
    fun j hj => keypoints_outputs_are_cumulative_sums cfg kernel j hj⟩

/-- **C05/T1 for accepted cyclic layers**: equal reported end outputs, equal values at and beyond both ends -/
theorem accepted_cyclic_equal_ends (b : Built r c cfg kernel ws) (hc : c.cyclic = true) :
    getR (keypointsOutputs cfg kernel) (cfg.inputKeypoints.length - 1) = getR (keypointsOutputs cfg kernel) 0 ∧
    ∀ x y, x ≤ getR (keypointsInputs cfg ws) 0 →
      getR (keypointsInputs cfg ws) (cfg.inputKeypoints.length - 1) ≤ y →
      calibrate cfg kernel ws x = calibrate cfg kernel ws y :=
  pwl_cyclic_equal_ends (built_wf b) (by rw [b.cyclic, hc])

/-- **C05/T3 for accepted layers**: the (learned or fixed) keypoints start at the first and end at the
last accepted keypoint, are strictly increasing and lie between the two -/
theorem accepted_learned_keypoints_ordered (b : Built r c cfg kernel ws) :
    getR (keypointsInputs cfg ws) 0 = cfg.inputKeypoints.headD 0 ∧
    getR (keypointsInputs cfg ws) (cfg.inputKeypoints.length - 1) = cfg.inputKeypoints.getLastD 0 ∧
    (∀ j, j + 1 < cfg.inputKeypoints.length →
      getR (keypointsInputs cfg ws) j < getR (keypointsInputs cfg ws) (j + 1)) ∧
    (∀ j, j < cfg.inputKeypoints.length →
      cfg.inputKeypoints.headD 0 ≤ getR (keypointsInputs cfg ws) j ∧
      getR (keypointsInputs cfg ws) j ≤ cfg.inputKeypoints.getLastD 0) ∧
    (keypointsInputs cfg ws).length = cfg.inputKeypoints.length :=
  learned_keypoints_ordered (built_wf b)

/-- **C05/T5 for accepted layers, monotone**: sorted reported outputs give a monotone function at all
pairs of inputs (both directions) -/
theorem accepted_monotone (b : Built r c cfg kernel ws) :
    ((∀ j, j + 1 < cfg.inputKeypoints.length →
        getR (keypointsOutputs cfg kernel) j ≤ getR (keypointsOutputs cfg kernel) (j + 1)) →
      ∀ x y, x ≤ y → calibrate cfg kernel ws x ≤ calibrate cfg kernel ws y) ∧
    ((∀ j, j + 1 < cfg.inputKeypoints.length →
        getR (keypointsOutputs cfg kernel) (j + 1) ≤ getR (keypointsOutputs cfg kernel) j) →
      ∀ x y, x ≤ y → calibrate cfg kernel ws y ≤ calibrate cfg kernel ws x) :=
  ⟨fun hm x y hxy => pwl_monotone_increasing (built_wf b) hm x y hxy,
    fun hm x y hxy => pwl_monotone_decreasing (built_wf b) hm x y hxy⟩

/-- **C05/T5 for accepted layers, bounded**: reported outputs in `[lo, hi]` give a function in `[lo, hi]`
at every input; with a missing output in `[lo, hi]` and flags in `[0, 1]` so is every result of `call` -/
theorem accepted_bounded (b : Built r c cfg kernel ws) (lo hi : Rat)
    (hb : ∀ j, j < cfg.inputKeypoints.length →
      lo ≤ getR (keypointsOutputs cfg kernel) j ∧ getR (keypointsOutputs cfg kernel) j ≤ hi) :
    (∀ x, lo ≤ calibrate cfg kernel ws x ∧ calibrate cfg kernel ws x ≤ hi) ∧
    (∀ mo, lo ≤ mo ∧ mo ≤ hi → ∀ x (isMissing : Option Rat), (∀ m, isMissing = some m → 0 ≤ m ∧ m ≤ 1) →
      ∀ v, call cfg kernel ws mo x isMissing = .ok v → lo ≤ v ∧ v ≤ hi) :=
  ⟨pwl_bounded (built_wf b) lo hi hb,
    fun mo hmo x im him v hv => call_bounded (built_wf b) lo hi mo hmo hb x im him v hv⟩

/-- **C05 for accepted multi-unit layers.** Every unit's weights have the built shape; the layer call
returns (single broadcast column or one column per unit, any `is_missing`); then output `u` is the
one-unit `call` of unit `u` — whose kernel column satisfies `WF`, so the statements above hold per unit.
In particular every output lies in `[lo, hi]` when every unit's reported outputs and missing output do. -/
theorem accepted_layer_bounded (kernels wss : List (List Rat)) (mouts xs : List Rat)
    (ms : Option (List Rat)) (ys : List Rat)
    (hbuilt : ∀ u, u < kernels.length → Built r c cfg (kernels.getD u []) (wss.getD u []))
    (lo hi : Rat)
    (hb : ∀ u, u < kernels.length → ∀ j, j < cfg.inputKeypoints.length →
      lo ≤ getR (keypointsOutputs cfg (kernels.getD u [])) j ∧ getR (keypointsOutputs cfg (kernels.getD u [])) j ≤ hi)
    (hmo : ∀ u, u < kernels.length → lo ≤ getR mouts u ∧ getR mouts u ≤ hi)
    (hflag : ∀ m, ms = some m → ∀ i, 0 ≤ getR m i ∧ getR m i ≤ 1)
    (h : callUnits cfg kernels wss mouts xs ms = .ok ys) :
    ys.length = kernels.length ∧ ∀ u, u < kernels.length → lo ≤ getR ys u ∧ getR ys u ≤ hi := by
  obtain ⟨hl, he⟩ := callUnits_entries cfg kernels wss mouts xs ms ys h
  refine ⟨hl, fun u hu => ?_⟩
  refine (accepted_bounded (hbuilt u hu) lo hi (hb u hu)).2 (getR mouts u) (hmo u hu) _ _ ?_ _ (he u hu)
  intro m hm
  cases ms with
  | none => cases hm
  | some l =>
    simp only [Option.map_some, Option.some.injEq] at hm
    rw [← hm]; exact hflag l rfl _

/-- non-vacuity: `PWLCalibration(input_keypoints=[0, 1, 3, 4], impute_missing=True,
missing_input_value=-1)` is accepted and the example layer of Props/C05.lean is `Built` on it -/
example :
    let r : RawPwl := ⟨.s false [.a (.flt 0), .a (.flt 1), .a (.flt 3), .a (.flt 4)], .a .none, .a .none, .a (.int 0),
      .a (.str .none_), .a (.int 0), .a (.int 1), .a (.flt (-1)), .a .none, .a (.str .fixed), .a (.int 0), .a (.int 0),
      .a (.str .other)⟩
    ∃ c, Built r c exCfg [1, 2, -1, 1/2] [] := by
  intro r
  have h : pwlCalibration r = .ok ⟨some [0, 1, 3, 4], none, none, .int 0, .int 0, false, none⟩ := by decide +kernel
  exact ⟨_, h, rfl, rfl, rfl, fun hl => by simp [exCfg] at hl⟩

/-! ## CategoricalCalibration -/

/-- **C05/T4 + T5 for accepted categorical layers.** For every configuration accepted by
`CategoricalCalibration.__init__` (model `categoricalLayer`) with `num_buckets = n`, a kernel column of
the built shape (`n` rows), and a `default_input_value` that is absent or negative:
* category `i < n` maps to kernel row `i`, the default value to the last bucket;
* if the kernel satisfies the accepted monotonicity pairs (`Feasible c.natPairs kernel` — what the layer's
  constraint returns for every accepted configuration: `Tfl.C16.categoricalLayer_projection_total`), the
  calibration is monotone along the order: `f(i) ≤ f(j)` for every pair;
* if all kernel rows lie in `[lo, hi]`, so does the output for every category in range and the default. -/
theorem accepted_categorical (r : RawCat) (c : CatCfg) (_h : categoricalLayer r = .ok c) (n : Nat)
    (_hn : c.buckets = some n) (kernel : List Rat) (hk : kernel.length = n) (default : Option Int)
    (hd : ∀ d, default = some d → d < 0) :
    (∀ i : Nat, i < n → Categorical.call kernel default i = getV kernel i) ∧
    (∀ d, default = some d → 0 < n → Categorical.call kernel default d = getV kernel (n - 1)) ∧
    (Feasible c.natPairs kernel →
      ∀ p ∈ c.natPairs, Categorical.call kernel default (p.1 : Int) ≤ Categorical.call kernel default (p.2 : Int)) ∧
    (∀ lo hi, (∀ i, i < n → lo ≤ getV kernel i ∧ getV kernel i ≤ hi) →
      ∀ x : Int, ((0 ≤ x ∧ x < n) ∨ (default = some x ∧ 0 < n)) →
        lo ≤ Categorical.call kernel default x ∧ Categorical.call kernel default x ≤ hi) := by
  subst hk
  refine ⟨fun i _ => ?_, fun d hdd hpos => ?_, fun hf => ?_, fun lo hi hb x hx => ?_⟩
  · apply category_lookup_nat
    intro e; have := hd _ e; omega
  · rw [hdd]
    exact default_maps_to_last_bucket kernel d (List.length_pos_iff.mp hpos)
  · exact categorical_monotone_pairs_default_outside kernel default c.natPairs hf hd
  · apply categorical_bounded kernel default lo hi hb x
    rcases hx with hx | hx
    · exact Or.inl hx
    · exact Or.inr ⟨hx.1, List.length_pos_iff.mp hx.2⟩

end Tfl.C05
