import TflModel.Props.C02
import TflModel.Lemmas.LatticeEvalCell
/-!
# C02 — "a convex combination of the CELL's corner values", and Edgeworth for arbitrary axes

`C02_T2_convex_weights` (Props/C02.lean) proves: weights `≥ 0`, sum 1, over ALL vertices. Here the
support is pinned to the cell:

* `C02_T2_cell_corners` — hypercube: the output is `Σ_{v ∈ corners(cell)} w_v · K(v)` over the `2^rank`
  corners of the cell `lowerIdx clipOn sizes x` (the cell the code's `min(floor, size − 2)` selects; it
  contains the clipped point: `C02_cell_contains`), with `w_v ≥ 0`, `Σ w_v = 1`;
  `C02_T2_weights_vanish_off_cell` — the entry of `compute_interpolation_weights` at every vertex that
  is not a corner of that cell is exactly 0.
* `C02_T3_simplex_cell_vertices` — simplex: the output is `Σ_k w_k · K(v_k)` over the `rank + 1` chain
  vertices `lower, lower + e_{σ1}, …`, each of which is a corner of the same cell; `w_k ≥ 0`, `Σ w_k = 1`.
* `C02_T5_edgeworth_axes` / `C02_T5_edgeworth_axes_neg` — the Edgeworth effect for ARBITRARY distinct
  axes `(main, cond)` and BOTH trust directions (`C02_T5_edgeworth` is the case `(0, 1)`, positive).

All statements are for in-range or clipped inputs (`Defined`); see `Props/C02Outside.lean` for why.
-/
namespace Tfl.C02
open Tfl Tfl.LatticeEval

/-- the (clipped) point lies in the closed cell whose lower corner the code selects -/
theorem C02_cell_contains (clipOn : Bool) (sizes : List Nat) (x : List ℚ) (hs2 : ∀ n ∈ sizes, 2 ≤ n)
    (h : Defined clipOn sizes x) :
    (lowerIdx clipOn sizes x).length = sizes.length ∧
    ∀ d, d < sizes.length →
      coord (lowerIdx clipOn sizes x) d + 1 < sizes.getD d 0 ∧
      (coord (lowerIdx clipOn sizes x) d : ℚ) ≤ (effPoint clipOn sizes x).getD d 0 ∧
      (effPoint clipOn sizes x).getD d 0 ≤ (coord (lowerIdx clipOn sizes x) d : ℚ) + 1 :=
  ⟨cellIdx_length sizes _ (effPoint_length h.1), inCell_cellIdx sizes _ hs2 (effPoint_inRange hs2 h)⟩

/-- **C02/T2 (convex combination of the cell's corner values).** For every in-range or clipped input,
every rank, shape, code path and kernel: the hypercube output is the sum over the `2^rank` corners `v` of
the cell containing the (clipped) point of `w_v · K(v)`, where `w_v = Π_d hat_{v_d}(x_d)` is `≥ 0`, the
`w_v` sum to one, and every corner is a vertex of the lattice. -/
theorem C02_T2_cell_corners (form : InputForm) (clipOn : Bool) (sizes : List Nat) (K : W) (x : List ℚ)
    (hs : sizes ≠ []) (hs2 : ∀ n ∈ sizes, 2 ≤ n) (h : Defined clipOn sizes x) :
    hypercubeValue form clipOn sizes (kernelOf sizes K) x
        = rsum ((corners (lowerIdx clipOn sizes x)).map
            (fun v => prodW (effPoint clipOn sizes x) v * K v)) ∧
    (∀ v ∈ corners (lowerIdx clipOn sizes x), v ∈ allIdx sizes ∧ 0 ≤ prodW (effPoint clipOn sizes x) v) ∧
    rsum ((corners (lowerIdx clipOn sizes x)).map (prodW (effPoint clipOn sizes x))) = 1 := by
  obtain ⟨hcl, hin⟩ := C02_cell_contains clipOn sizes x hs2 h
  have hy := effPoint_inRange hs2 h
  refine ⟨?_, fun v hv => ⟨?_, prodW_nonneg _ v⟩, corner_weights_sum sizes _ _ hy hcl hin⟩
  · rw [C02_T1_hypercube_eq_interp form clipOn sizes K x hs h.1 (h.2.elim Or.inl (fun r => Or.inr (Or.inl r)))]
    exact evalRec_cell_corners sizes _ _ K (effPoint_length h.1) hcl hin
  · exact corners_sub_allIdx sizes _ hcl (fun d hd => (hin d hd).1) v hv

/-- **C02/T2 (support).** The weight vector `compute_interpolation_weights` returns is zero at (the
row-major position of) every lattice vertex that is not a corner of the cell containing the (clipped)
point. -/
theorem C02_T2_weights_vanish_off_cell (form : InputForm) (clipOn : Bool) (sizes : List Nat) (x : List ℚ)
    (hs : sizes ≠ []) (hs2 : ∀ n ∈ sizes, 2 ≤ n) (h : Defined clipOn sizes x) (v : Idx)
    (hv : v ∈ allIdx sizes) (hnc : v ∉ corners (lowerIdx clipOn sizes x)) :
    (hypercubeWeights form clipOn sizes x).getD (ravel sizes v) 0 = 0 := by
  obtain ⟨hcl, hin⟩ := C02_cell_contains clipOn sizes x hs2 h
  rw [C02_T1_weights form clipOn sizes x hs h.1 (h.2.elim Or.inl (fun r => Or.inr (Or.inl r))),
    (getD_kernel sizes (prodW (effPoint clipOn sizes x)) v hv).2]
  have hvl : v.length = sizes.length := ((mem_allIdx_iff sizes v).mp hv).1
  apply prodW_eq_zero_off_cell sizes _ (lowerIdx clipOn sizes x) v (effPoint_length h.1) hcl hvl hin
  by_contra hne
  apply hnc
  rw [mem_corners]
  refine ⟨by rw [hvl, hcl], fun d hd => ?_⟩
  by_contra hd'
  exact hne ⟨d, by rw [← hcl]; exact hd, fun e => hd' (Or.inl e), fun e => hd' (Or.inr e)⟩

/-- **C02/T3 (simplex: convex combination of vertices of the same cell).** For every in-range or
clipped input the simplex output is `Σ_k w_k · K(v_k)` over the chain `v_0 = lower`,
`v_k = v_{k-1} + e_{σ_k}` (`σ` = positions in the order of the descending sort), every `v_k` is a corner
of the cell containing the (clipped) point (hence a lattice vertex), `w_k ≥ 0` and `Σ w_k = 1`. -/
theorem C02_T3_simplex_cell_vertices (clipOn : Bool) (sizes : List Nat) (K : W) (x : List ℚ)
    (hs : sizes ≠ []) (hs2 : ∀ n ∈ sizes, 2 ≤ n) (h : Defined clipOn sizes x) :
    evalSimplex clipOn sizes (kernelOf sizes K) x
        = .ok (rsum (List.zipWith (fun w v => w * K v)
            (simplexWeights ((sSorted clipOn sizes x).map (·.1)))
            (chain (lowerIdx clipOn sizes x) ((sSorted clipOn sizes x).map (·.2))))) ∧
    (∀ v ∈ chain (lowerIdx clipOn sizes x) ((sSorted clipOn sizes x).map (·.2)),
        v ∈ corners (lowerIdx clipOn sizes x) ∧ v ∈ allIdx sizes) ∧
    (∀ w ∈ simplexWeights ((sSorted clipOn sizes x).map (·.1)), 0 ≤ w) ∧
    rsum (simplexWeights ((sSorted clipOn sizes x).map (·.1))) = 1 := by
  obtain ⟨hcl, hin⟩ := C02_cell_contains clipOn sizes x hs2 h
  have hw := C02_T3_simplex_weights clipOn sizes x hs2 h
  refine ⟨?_, fun v hv => ?_, hw.1, hw.2⟩
  · rw [C02_T3_simplex_index_bridge clipOn sizes K x hs hs2 h, walkK_eq_chain, simplexWeights_eq]
  · have hc : v ∈ corners (lowerIdx clipOn sizes x) :=
      chain_sub_corners _ (lowerIdx clipOn sizes x) (lowerIdx clipOn sizes x) rfl (fun d _ => Or.inl rfl)
        (sorted_snd_nodup _) v hv
    exact ⟨hc, corners_sub_allIdx sizes _ hcl (fun d hd => (hin d hd).1) v hc⟩

/-! ## T5 — Edgeworth trust, arbitrary axes, both directions -/

private theorem effPoint_set2 (clipOn : Bool) (sizes : List Nat) (x : List ℚ) (m c : Nat) (a b : ℚ) :
    effPoint clipOn sizes ((x.set m a).set c b)
      = ((effPoint clipOn sizes x).set m (if clipOn then clipV a 0 ((sizes.getD m 0 : ℚ) - 1) else a)).set c
          (if clipOn then clipV b 0 ((sizes.getD c 0 : ℚ) - 1) else b) := by
  cases clipOn with
  | true => simp only [effPoint, if_true]; rw [clipOntoRange_set, clipOntoRange_set]
  | false => simp [effPoint]

private theorem getD_set_set {x : List ℚ} {m c : Nat} {a b : ℚ} (hm : m < x.length) (hc : c < x.length)
    (hmc : m ≠ c) : ((x.set m a).set c b).getD m 0 = a ∧ ((x.set m a).set c b).getD c 0 = b := by
  constructor
  · simp [List.getD_eq_getElem?_getD, hm, Ne.symm hmc]
  · simp [List.getD_eq_getElem?_getD, hc]

/-- **C02/T5 for arbitrary axes (positive direction).** With hypercube interpolation, a kernel whose mixed
second differences between two DISTINCT axes `m` (main feature) and `c` (conditional feature) are
non-negative at every vertex (`EdgeworthAx`, the invariant of `edgeworth_trusts=(m, c, "positive")`)
makes the effect `f(x_m := a', ·) − f(x_m := a, ·)` of the main feature non-decreasing in the conditional
feature, for ALL in-range or clipped point quadruples (`a ≤ a'`, `b ≤ b'`; the other coordinates of `x`
fixed and arbitrary), every rank, shape, input form and `clip_inputs`. -/
theorem C02_T5_edgeworth_axes (form : InputForm) (clipOn : Bool) (sizes : List Nat) (K : W) (x : List ℚ)
    (m c : Nat) (a a' b b' : ℚ) (hs : sizes ≠ []) (hs2 : ∀ n ∈ sizes, 2 ≤ n) (hm : m < sizes.length)
    (hc : c < sizes.length) (hmc : m ≠ c) (hK : EdgeworthAx sizes m c K)
    (h00 : Defined clipOn sizes ((x.set m a).set c b)) (h10 : Defined clipOn sizes ((x.set m a').set c b))
    (h01 : Defined clipOn sizes ((x.set m a).set c b')) (h11 : Defined clipOn sizes ((x.set m a').set c b'))
    (ha : a ≤ a') (hb : b ≤ b') :
    hypercubeValue form clipOn sizes (kernelOf sizes K) ((x.set m a').set c b)
        - hypercubeValue form clipOn sizes (kernelOf sizes K) ((x.set m a).set c b)
      ≤ hypercubeValue form clipOn sizes (kernelOf sizes K) ((x.set m a').set c b')
        - hypercubeValue form clipOn sizes (kernelOf sizes K) ((x.set m a).set c b') := by
  have dj : ∀ {p : List ℚ}, Defined clipOn sizes p →
      clipOn = true ∨ InRange sizes p ∨ ¬ (allTwo sizes = true ∧ form = .tensor) :=
    fun h => h.2.elim Or.inl (fun r => Or.inr (Or.inl r))
  rw [C02_T1_hypercube_eq_interp form clipOn sizes K _ hs h00.1 (dj h00),
    C02_T1_hypercube_eq_interp form clipOn sizes K _ hs h10.1 (dj h10),
    C02_T1_hypercube_eq_interp form clipOn sizes K _ hs h01.1 (dj h01),
    C02_T1_hypercube_eq_interp form clipOn sizes K _ hs h11.1 (dj h11)]
  have hxl : x.length = sizes.length := by simpa using h00.1
  have hnm : (2 : ℚ) ≤ (sizes.getD m 0 : ℚ) := by
    have : sizes.getD m 0 = sizes[m] := by simp [List.getD_eq_getElem?_getD, hm]
    rw [this]; exact_mod_cast hs2 _ (List.getElem_mem hm)
  have hnc : (2 : ℚ) ≤ (sizes.getD c 0 : ℚ) := by
    have : sizes.getD c 0 = sizes[c] := by simp [List.getD_eq_getElem?_getD, hc]
    rw [this]; exact_mod_cast hs2 _ (List.getElem_mem hc)
  simp only [effPoint_set2]
  cases clipOn with
  | true =>
    simp only [if_true]
    have A := clipV_bounds a (lo := 0) (hi := (sizes.getD m 0 : ℚ) - 1) (by linarith)
    have A' := clipV_bounds a' (lo := 0) (hi := (sizes.getD m 0 : ℚ) - 1) (by linarith)
    have B := clipV_bounds b (lo := 0) (hi := (sizes.getD c 0 : ℚ) - 1) (by linarith)
    have B' := clipV_bounds b' (lo := 0) (hi := (sizes.getD c 0 : ℚ) - 1) (by linarith)
    exact evalRec_edgeworth_axes sizes m c _ K _ _ _ _ (effPoint_length hxl) hm hc hmc hK
      A.1 (clipV_mono ha) A'.2 B.1 (clipV_mono hb) B'.2
  | false =>
    simp only [Bool.false_eq_true, if_false]
    have r00 : InRange sizes ((x.set m a).set c b) := h00.2.elim (fun h => by cases h) id
    have r11 : InRange sizes ((x.set m a').set c b') := h11.2.elim (fun h => by cases h) id
    have g00 := getD_set_set (x := x) (a := a) (b := b) (by rw [hxl]; exact hm) (by rw [hxl]; exact hc) hmc
    have g11 := getD_set_set (x := x) (a := a') (b := b') (by rw [hxl]; exact hm) (by rw [hxl]; exact hc) hmc
    have p00m := inRange_getD sizes _ m r00 hm
    have p00c := inRange_getD sizes _ c r00 hc
    have p11m := inRange_getD sizes _ m r11 hm
    have p11c := inRange_getD sizes _ c r11 hc
    rw [g00.1] at p00m; rw [g00.2] at p00c; rw [g11.1] at p11m; rw [g11.2] at p11c
    have : effPoint false sizes x = x := by simp [effPoint]
    rw [this]
    exact evalRec_edgeworth_axes sizes m c x K a a' b b' hxl hm hc hmc hK p00m.1 ha p11m.2 p00c.1 hb p11c.2

/-- **C02/T5, negative direction** (`edgeworth_trusts=(m, c, "negative")`: the mixed differences are
non-positive, i.e. `−K` satisfies `EdgeworthAx`): the effect of the main feature is non-INCREASING in the
conditional feature. -/
theorem C02_T5_edgeworth_axes_neg (form : InputForm) (clipOn : Bool) (sizes : List Nat) (K : W) (x : List ℚ)
    (m c : Nat) (a a' b b' : ℚ) (hs : sizes ≠ []) (hs2 : ∀ n ∈ sizes, 2 ≤ n) (hm : m < sizes.length)
    (hc : c < sizes.length) (hmc : m ≠ c) (hK : EdgeworthAx sizes m c (fun idx => -K idx))
    (h00 : Defined clipOn sizes ((x.set m a).set c b)) (h10 : Defined clipOn sizes ((x.set m a').set c b))
    (h01 : Defined clipOn sizes ((x.set m a).set c b')) (h11 : Defined clipOn sizes ((x.set m a').set c b'))
    (ha : a ≤ a') (hb : b ≤ b') :
    hypercubeValue form clipOn sizes (kernelOf sizes K) ((x.set m a').set c b')
        - hypercubeValue form clipOn sizes (kernelOf sizes K) ((x.set m a).set c b')
      ≤ hypercubeValue form clipOn sizes (kernelOf sizes K) ((x.set m a').set c b)
        - hypercubeValue form clipOn sizes (kernelOf sizes K) ((x.set m a).set c b) := by
  have key := C02_T5_edgeworth_axes form clipOn sizes (fun idx => -K idx) x m c a a' b b' hs hs2 hm hc hmc hK
    h00 h10 h01 h11 ha hb
  have neg : ∀ p : List ℚ, hypercubeValue form clipOn sizes (kernelOf sizes (fun idx => -K idx)) p
      = - hypercubeValue form clipOn sizes (kernelOf sizes K) p := by
    intro p
    simp only [hypercubeValue, kernelOf]
    rw [← dot_neg_right, List.map_map]
    rfl
  simp only [neg] at key
  linarith

/-- the existing leading-axes statement is the instance `m = 0`, `c = 1` of the hypothesis -/
theorem edgeworth01_iff_axes (n m : Nat) (rest : List Nat) (K : W) :
    Edgeworth01 n m rest K ↔ EdgeworthAx (n :: m :: rest) 0 1 K := by
  constructor
  · intro h idx hi h0 h1
    obtain ⟨i, t', rfl, _, ht'⟩ := allIdx_cons_exists hi
    obtain ⟨j, t, rfl, _, ht⟩ := allIdx_cons_exists ht'
    have := h i j t (by simpa [coord] using h0) (by simpa [coord] using h1) ht
    simpa [bump, setc, coord] using this
  · intro h i j t hi hj ht
    have := h (i :: j :: t) (mem_allIdx_cons.mpr ⟨by omega, mem_allIdx_cons.mpr ⟨by omega, ht⟩⟩)
      (by simpa [coord] using hi) (by simpa [coord] using hj)
    simpa [bump, setc, coord] using this

/-! ## non-vacuity -/

/-- `K(i, j, k) = i·k` on `[3, 2, 3]`: Edgeworth between axes 0 and 2 (not adjacent, not leading) -/
example : EdgeworthAx [3, 2, 3] 0 2 (fun idx => (coord idx 0 : ℚ) * (coord idx 2 : ℚ)) := by
  unfold EdgeworthAx; decide +kernel
example : EdgeworthAx [3, 2, 3] 2 0 (fun idx => -(-((coord idx 0 : ℚ) * (coord idx 2 : ℚ)))) := by
  unfold EdgeworthAx; decide +kernel
example : corners [1, 0] = [[1, 0], [1, 1], [2, 0], [2, 1]] := by decide
example : lowerIdx false [3, 2] [3/2, 1/4] = [1, 0] ∧ lowerIdx true [3, 2] [7/2, -1] = [1, 0] := by decide +kernel
example : chain [1, 0] [0, 1] = [[1, 0], [2, 0], [2, 1]] := by decide

end Tfl.C02
