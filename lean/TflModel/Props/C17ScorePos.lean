import TflModel.Props.C17Score
/-!
# C17 — when is a Crystals importance score strictly positive (the hypothesis F-C17-a excludes)

`crystals_from_kernels_structure` keeps `0 < importance score` as a hypothesis.  Here it is characterised on the
kernels in one direction: the Laplacian term `laplacian_regularizer(l2 = e_p)` of a `[2]*d` lattice is `0` exactly
when the normalised kernel is FLAT in dimension `p` (`lapAt_eq_zero_iff`), and a feature that some prefitting
lattice's normalised kernel is not flat in has a strictly positive importance score (`importance_pos_of_not_flat`).
-/
namespace Tfl.C17Score
open Tfl Tfl.Reg Tfl.Ensembles Tfl.CrystalsScore

theorem rsum_eq_zero_iff {l : List Rat} (h : ∀ x ∈ l, 0 ≤ x) : rsum l = 0 ↔ ∀ x ∈ l, x = 0 := by
  induction l with
  | nil => simp [rsum]
  | cons a l ih =>
    have ha := h a List.mem_cons_self
    have hl : ∀ x ∈ l, 0 ≤ x := fun x hx => h x (List.mem_cons_of_mem _ hx)
    have hs := Tfl.Ensembles.rsum_nonneg hl
    simp only [rsum, List.mem_cons, forall_eq_or_imp]
    constructor
    · intro h0
      have h1 : a = 0 := by linarith
      have h2 : rsum l = 0 := by linarith
      exact ⟨h1, (ih hl).mp h2⟩
    · rintro ⟨h1, h2⟩
      rw [h1, (ih hl).mpr h2]; ring

/-- the kernel `w` over `[2]*d` does not depend on dimension `p` -/
def FlatIn (d : Nat) (w : W) (p : Nat) : Prop :=
  ∀ idx ∈ allIdx (sizesOf d), coord idx p + 1 < coord (sizesOf d) p → w (setc idx p (coord idx p + 1)) = w idx

theorem getR_unit1_self {d p : Nat} (hp : p < d) : getR (unit1 d p) p = 1 := by
  simp [getR, unit1, List.getD_eq_getElem?_getD, hp]

theorem lapAt_eq_spec {d p : Nat} (hp : p < d) (w : W) :
    lapAt d w p = lapSpec (sizesOf d) [] (unit1 d p) w := by
  have hne : (unit1 d p).isEmpty = false := by
    cases d with
    | zero => omega
    | succ d => simp [unit1, List.range_succ]
  simp only [lapAt, laplacian, lapAmounts, Amt.truthy, bne_self_eq_false, Bool.false_eq_true, if_false,
    gt_iff_lt, Nat.lt_irrefl, hne, Bool.not_false, Bool.not_true, Bool.and_false, if_true]
  rw [lapCore_eq_spec]
  rfl

/-- **the Laplacian term of the scoring path vanishes exactly on kernels that are flat in that dimension** -/
theorem lapAt_eq_zero_iff {d p : Nat} (hp : p < d) (w : W) : lapAt d w p = 0 ↔ FlatIn d w p := by
  rw [lapAt_eq_spec hp]
  unfold lapSpec
  have hinner : ∀ d', ∀ x ∈ ((allIdx (sizesOf d)).filter (fun idx => coord idx d' + 1 < coord (sizesOf d) d')).map
      (fun idx => absSq (getR [] d') (getR (unit1 d p) d') (w (setc idx d' (coord idx d' + 1)) - w idx)), 0 ≤ x := by
    intro d' x hx
    obtain ⟨idx, _, rfl⟩ := List.mem_map.mp hx
    exact absSq_nonneg (by simp [getR]) (getR_nonneg (unit1_nonneg d p) d') _
  have houter : ∀ x ∈ (List.range (sizesOf d).length).map (fun d' =>
      rsum (((allIdx (sizesOf d)).filter (fun idx => coord idx d' + 1 < coord (sizesOf d) d')).map
      (fun idx => absSq (getR [] d') (getR (unit1 d p) d') (w (setc idx d' (coord idx d' + 1)) - w idx)))), 0 ≤ x := by
    intro x hx
    obtain ⟨d', _, rfl⟩ := List.mem_map.mp hx
    exact Tfl.Ensembles.rsum_nonneg (hinner d')
  rw [rsum_eq_zero_iff houter]
  constructor
  · intro h idx hidx hlt
    have h1 := h _ (List.mem_map.mpr ⟨p, List.mem_range.mpr (by simpa [sizesOf] using hp), rfl⟩)
    rw [rsum_eq_zero_iff (hinner p)] at h1
    have h2 := h1 _ (List.mem_map.mpr ⟨idx, List.mem_filter.mpr ⟨hidx, by simpa using hlt⟩, rfl⟩)
    simp only [absSq] at h2
    rw [getR_unit1_self hp, show getR ([] : List Rat) p = 0 from by simp [getR]] at h2
    have h3 : (w (setc idx p (coord idx p + 1)) - w idx) * (w (setc idx p (coord idx p + 1)) - w idx) = 0 := by
      simpa using h2
    have : w (setc idx p (coord idx p + 1)) - w idx = 0 := mul_self_eq_zero.mp h3
    linarith
  · intro hflat x hx
    obtain ⟨d', hd', rfl⟩ := List.mem_map.mp hx
    apply Tfl.rsum_eq_zero
    intro y hy
    obtain ⟨idx, hidx, rfl⟩ := List.mem_map.mp hy
    have hidx' := List.mem_filter.mp hidx
    by_cases hdp : d' = p
    · subst hdp
      have := hflat idx hidx'.1 (by simpa using hidx'.2)
      simp [absSq, this, show getR ([] : List Rat) d' = 0 from by simp [getR]]
    · have : getR (unit1 d p) d' = 0 := by
        have hd'' : d' < d := by simpa [sizesOf] using List.mem_range.mp hd'
        simp [getR, unit1, List.getD_eq_getElem?_getD, hd'', hdp]
      simp [absSq, this, show getR ([] : List Rat) d' = 0 from by simp [getR]]

theorem lapAt_pos_of_not_flat {d p : Nat} (hp : p < d) (w : W) (h : ¬ FlatIn d w p) : 0 < lapAt d w p := by
  rcases lt_or_eq_of_le (lapAt_nonneg d w p) with h1 | h1
  · exact h1
  · exact absurd ((lapAt_eq_zero_iff hp w).mp h1.symm) h

theorem rsum_pos_of_mem {l : List Rat} (h : ∀ x ∈ l, 0 ≤ x) {v : Rat} (hv : v ∈ l) (hpos : 0 < v) : 0 < rsum l := by
  rcases lt_or_eq_of_le (Tfl.Ensembles.rsum_nonneg h) with h1 | h1
  · exact h1
  · have := (rsum_eq_zero_iff h).mp h1.symm v hv
    linarith

/-- **C17 scoring path: a sufficient condition on the kernels for `0 < importance score`** (the hypothesis of
`crystals_from_kernels_structure` that finding F-C17-a excludes).  If prefitting lattice `j` contains feature `f`
at position `p` and its normalised kernel is NOT flat in dimension `p` (it depends on the feature), then the
importance score of `f` computed by the model is strictly positive. -/
theorem importance_pos_of_not_flat (lattices : List (List Nat)) (kernels : List (List Rat)) (n : Nat)
    (t : List (List Rat)) (lap : List Rat) (hok : torsionsAndLaplacians lattices kernels n = .ok (t, lap))
    (j : Nat) (hj : j < lattices.length) (hj' : j < kernels.length) (p : Nat) (hp : p < lattices[j].length)
    (f : Nat) (hf : f < n) (hfp : lattices[j][p] = f)
    (k' : List Rat) (hk' : normalizeKernel kernels[j] = .ok k')
    (hflat : ¬ FlatIn lattices[j].length (Table.ofVals (sizesOf lattices[j].length) k').get p) :
    0 < (importanceScores n (t, lap)).getD f 0 := by
  obtain ⟨hT, hL, _, _⟩ := scores_nonneg lattices kernels n t lap hok
  unfold torsionsAndLaplacians at hok
  split at hok
  · cases hok
  · cases hc : collect (fun p => latticeObs p.1 p.2) (lattices.zip kernels) with
    | error e => rw [hc] at hok; cases hok
    | ok obs =>
      rw [hc] at hok
      simp only at hok
      split at hok
      · cases hok
      · injection hok with hok
        injection hok with ht hl
        have hobs : ∀ o ∈ obs, ObsNonneg o := by
          intro o ho
          obtain ⟨q, _, hq⟩ := collect_ok_mem _ _ _ hc o ho
          exact latticeObs_nonneg _ _ _ hq
        have hmem : (lattices[j], kernels[j]) ∈ lattices.zip kernels := by
          have hz : j < (lattices.zip kernels).length := by simp [List.length_zip]; omega
          have := List.getElem_mem hz
          simpa [List.getElem_zip] using this
        obtain ⟨o, ho, hfo⟩ := collect_ok_mem' _ _ _ hc _ hmem
        simp only at hfo
        -- the Laplacian value of (lattice j, position p) is appended to the list of f
        have hv : lapAt lattices[j].length (Table.ofVals (sizesOf lattices[j].length) k').get p ∈ lapList obs f := by
          unfold latticeObs at hfo
          simp only [hk'] at hfo
          split at hfo
          · cases hfo
          · cases hcc : collect (torObs lattices[j] (Table.ofVals (sizesOf lattices[j].length) k').get)
                (pairsOf lattices[j].length) with
            | error e => rw [hcc] at hfo; cases hfo
            | ok ts =>
              rw [hcc] at hfo
              cases hfo
              simp only [lapList, List.mem_map, List.mem_filter, List.mem_flatMap]
              refine ⟨(f, lapAt lattices[j].length (Table.ofVals (sizesOf lattices[j].length) k').get p),
                ⟨⟨_, ho, ?_⟩, by simp⟩, rfl⟩
              simp only [List.mem_map, List.mem_range]
              exact ⟨p, hp, by simp [List.getD_eq_getElem?_getD, List.getElem?_eq_getElem hp, hfp]⟩
        have hvpos := lapAt_pos_of_not_flat hp _ hflat
        have hmean : 0 < mean (lapList obs f) := by
          unfold mean
          have hlen : 0 < (lapList obs f).length := List.length_pos_of_mem hv
          exact div_pos (rsum_pos_of_mem (lapList_nonneg hobs f) hv hvpos) (by exact_mod_cast hlen)
        have hlapf : lap.getD f 0 = mean (lapList obs f) := by
          rw [← hl]
          simp [List.getD_eq_getElem?_getD, hf]
        simp only [importanceScores, importance]
        rw [List.getD_eq_getElem?_getD]
        simp only [List.getElem?_map, List.getElem?_range hf, Option.map_some, Option.getD_some]
        have h2 : 0 ≤ rsum ((List.range n).map fun g =>
            if f < g then getT t f g else if g < f then getT t g f else 0) := by
          apply Tfl.Ensembles.rsum_nonneg
          intro x hx
          simp only [List.mem_map] at hx
          obtain ⟨g, _, rfl⟩ := hx
          split
          · exact hT _ _
          · split
            · exact hT _ _
            · exact le_refl _
        rw [hlapf]
        linarith

/-- non-vacuity: lattice `[0, 1]` with kernel `[0, 1, 2, 5]` (normalised `[0, 1/5, 2/5, 1]`) is not flat in
dimension `0` (`w[1,0] = 2/5 ≠ 0 = w[0,0]`), and a kernel that ignores dimension 1 is flat in it. -/
example : normalizeKernel [0, 1, 2, 5] = .ok [0, 1/5, 2/5, 1] ∧
    lapAt 2 (Table.ofVals (sizesOf 2) [0, 1/5, 2/5, 1]).get 0 = 4/5 ∧
    lapAt 2 (Table.ofVals (sizesOf 2) [0, 0, 1, 1]).get 1 = 0 := by decide +kernel

end Tfl.C17Score
