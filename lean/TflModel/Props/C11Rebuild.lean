import TflModel.Props.C11
/-!
# C11 (continued): `from_config(get_config())` re-runs the constructor — and its verification

Audit row 28.  `Tfl.Configs.fromConfig` models the KEY PASSING of `from_config` (`cls(**config)`: an
unknown key or a missing required parameter is a `TypeError`); it does not run the constructor body,
so `roundtrip`'s "succeeds" means "every key is accepted as a parameter and every required parameter
is present".  The real `from_config` also re-runs `verify_hyperparameters` on the STORED values.  For
the two layers whose constructor stores NORMALISED values the theorems below close that gap on the
acceptance models of `Model/Verify.lean`: the stored values are accepted again, with the same
result.  (The other layers store the raw arguments: the rebuild verifies literally the same values.
The constraint classes store canonical values; their re-verification is exercised on the real
objects by every `check_object` rebuild of the harness — not proved here.)
-/
namespace Tfl.C11
open Tfl Tfl.Verify

theorem wrapJU_idem' (j : JU) : wrapJU (wrapJU j) = wrapJU j := by
  cases j with
  | none => rfl
  | list xs => rfl
  | single dims dir => cases dir <;> rfl

theorem wrapSingle_ne_emptyTuple {v : Val} (h : v ≠ .s true []) : wrapSingle v ≠ .s true [] := by
  cases v with
  | a x => simp [wrapSingle]
  | s t xs =>
    cases t with
    | false => simp [wrapSingle]
    | true =>
      cases xs with
      | nil => exact absurd rfl h
      | cons it rest =>
        cases it with
        | s t' ys => simp [wrapSingle]
        | a x => cases x <;> simp [wrapSingle]

theorem wrapSingleLayer_stored {v w : Val} (h : wrapSingleLayer v = .ok w) : wrapSingleLayer w = .ok w := by
  simp only [wrapSingleLayer, Except.ok.injEq] at h ⊢
  rw [← h, wrapSingle_idem]

theorem guard2_ok' {α} {a b : Bool} {x : Except Err α} {c : α}
    (h : (if a then ve else if b then ve else x) = .ok c) : a = false ∧ b = false ∧ x = .ok c := by
  cases a <;> cases b <;> simp [ve] at h ⊢
  exact h

/-- **C11 (rebuild re-verifies, `Lattice`)**: the attributes `Lattice.__init__` stores — single
trust / dominance tuples and a bare joint unimodality WRAPPED — handed to the constructor again (what
`Lattice.from_config(layer.get_config())` does) pass the same verification and are stored
unchanged: an accepted layer is accepted again, with an equal set of stored constraint arguments. -/
theorem latticeLayer_rebuild_accepted (r : RawLatLayerFull) (s : RawLattice) (h : latticeLayerFull r = .ok s) :
    latticeLayerFull { r with ew := s.ew, tp := s.tp, md := s.md, rd := s.rd, jm := s.jm, ju := s.ju } = .ok s := by
  obtain ⟨hu, hi, h⟩ := guard2_ok' h
  simp only [latticeLayerFull, hu, hi, Bool.false_eq_true, if_false]
  simp only [latticeLayerCore, bind, Except.bind] at h
  split at h
  · cases h
  · rename_i c1 h1
    split at h
    · cases h
    · rename_i ew hew
      split at h
      · cases h
      · rename_i tp htp
        split at h
        · cases h
        · rename_i md hmd
          split at h
          · cases h
          · rename_i rd hrd
            split at h
            · cases h
            · rename_i jm hjm
              split at h
              · cases h
              · rename_i c2 h2
                split at h
                · cases h
                · rename_i u hu'
                  simp only [pure, Except.pure, Except.ok.injEq] at h
                  subst h
                  simp only [latticeLayerCore, bind, Except.bind, h1, wrapSingleLayer_stored hew,
                    wrapSingleLayer_stored htp, wrapSingleLayer_stored hmd, wrapSingleLayer_stored hrd,
                    wrapSingleLayer_stored hjm, wrapJU_idem', h2]
                  -- `create_kernel_initializer` reads the joint unimodalities only through the wrapped value
                  have hb : RawLatLayerFull.base { r with ew := ew, tp := tp, md := md, rd := rd, jm := jm, ju := wrapJU r.ju } =
                      { r.base with ju := wrapJU r.ju } := rfl
                  have hk : createKernelInitializer { r.base with ju := wrapJU r.ju } (wrapJU r.ju) =
                      createKernelInitializer r.base (wrapJU r.ju) := rfl
                  rw [hb, hk, hu']
                  rfl

/-- **C11 (rebuild re-verifies, `Linear`)**: `Linear.__init__` stores the BROADCAST monotonicities
(`[m] * num_input_dims`, a tuple as a list); handed to the constructor again they are verified to the
same configuration. -/
theorem linearLayer_rebuild_accepted (r : RawLinFull) (c : LinCfg) (k : Int) (hk : r.nid = .a (.int k))
    (h : linearLayerFull r = .ok c) :
    linearLayerFull { r with mono := linearBroadcast k.toNat r.mono } = .ok c := by
  have e : linearLayer (RawLinFull.base { r with mono := linearBroadcast k.toNat r.mono }) = linearLayer r.base := by
    simp only [linearLayer, RawLinFull.base, hk, linearBroadcast_idem]
  simp only [linearLayerFull, linearLayerCore, e] at h ⊢
  exact h

end Tfl.C11
