import TflModel.Model.Verify
import TflModel.Lemmas.Verify
import TflModel.Props.C08
import TflModel.Props.C08Shared
/-!
# C08 — from constructor acceptance to the hypotheses of the convergence theorems

`Tfl.Verify.verifyLattice` (`Model/Verify.lean`, the object of C16) models
`lattice_lib.verify_hyperparameters` as the `Lattice` layer / `LatticeConstraints` call it. This file
maps an accepted, canonicalised configuration `LatCfg` to the configuration `DCfg` of the Dykstra model
(`toDCfg`) and shows which fields of `Tfl.C08.CfgShape` / `Tfl.C08.CfgWF` FOLLOW from acceptance and
which do not:

* follow (`verifyLattice_cfgShape`): `edge`, `trap` (trust dims in range, `main ≠ cond`), `mdom`, `jmono`
  (dims in range and — since /repo 18dd711, formerly finding F-C08-c — two DIFFERENT dimensions:
  `verifyDominances_distinct`; `selfPair_rejected` is the model-side witness that `(d, d)` is rejected),
  and `juni` (dims of a joint unimodality distinct and in range);
* do NOT follow and are explicit hypotheses:
  - `c.rd = []` — range dominance is accepted but outside the convergence theorem
    (`rangeDom_corner_not_projection`);
  - `NoRepeats` (needed for `CfgWF` only) — a constraint tuple listed twice is accepted
    (`dupPair_accepted`); then the dict keys repeat and the loop is not Boyle–Dykstra's
    (`Tfl.C08.dup_slots_differ`). The convergence theorem does NOT need it
    (`Props/C08Shared.lean`: `projectByDykstraT_cfg_converges_shape`), so `accepted_converges` has only
    the first side condition.
-/
namespace Tfl.C08
open Tfl Tfl.Verify Tfl.Lat

/-- a canonical unimodality (`-1 / 0 / 1`, possibly as a float or bool-like number) as the model's integer -/
def atomUni (a : Atom) : Int := if a.eqNum 1 then 1 else if a.eqNum (-1) then -1 else 0

/-- is the direction string a valley? `_project_onto_hyperplane` tests `direction.lower() == "valley"`
(since /repo cdf6c9e; it compared the string as given before: fixed finding F-C08-d), so ANY
capitalisation of "valley" is a valley; everything else `verify_hyperparameters` accepts (any
capitalisation of "peak") is a peak -/
def isValley : Atom → Bool
  | .str .valley _ => true
  | _ => false

/-- one accepted joint unimodality -/
def toJU (x : List Int × Atom) : JointUni := ⟨x.1.map Int.toNat, isValley x.2⟩

/-- the spelling does not matter (cdf6c9e): `'Valley'` and `'valley'` configure the same constraint, with
the same `last_change` dict keys (the key holds the lower-cased direction) -/
theorem toJU_spelling (dims : List Int) (e e' : Bool) :
    toJU (dims, .str .valley e) = toJU (dims, .str .valley e') ∧
      toJU (dims, .str .peak e) = toJU (dims, .str .peak e') ∧
      (toJU (dims, .str .valley e)).valley = true ∧ (toJU (dims, .str .peak e)).valley = false :=
  ⟨rfl, rfl, rfl, rfl⟩

/-- the `DCfg` (model of `project_by_dykstra`) that an accepted configuration configures -/
def toDCfg (c : LatCfg) : DCfg :=
  { sizes := c.sizes.map Int.toNat
    mono := (c.mono.getD []).map (fun a => a.eqNum 1)
    unimod := (c.uni.getD []).map atomUni
    edgeworth := c.ew.map toTrust
    trapezoid := c.tp.map toTrust
    monoDom := c.md
    rangeDom := c.rd
    jointMono := c.jm
    jointUnimod := c.ju.map toJU }

/-! ### what the joint-unimodality loop of the verifier establishes -/

theorem juDimLoop_spec {sizes : List Int} {mono : Option (List Atom)} :
    ∀ ds : List Int, juDimLoop sizes mono ds = .ok () → ∀ d ∈ ds, 0 ≤ d ∧ d < sizes.length := by
  intro ds
  induction ds with
  | nil => intro _ d hd; cases hd
  | cons a ds ih =>
    intro h d hd
    unfold juDimLoop at h
    split_ifs at h with hr
    · cases h
    · cases h
    · cases h
    · rcases List.mem_cons.mp hd with e | e
      · subst e
        exact ⟨by omega, by omega⟩
      · exact ih h d e

theorem juLoop_spec {sizes : List Int} {mono : Option (List Atom)} :
    ∀ xs : List (List Int × Atom), juLoop sizes mono xs = .ok () →
      ∀ x ∈ xs, x.1.Nodup ∧ ∀ d ∈ x.1, 0 ≤ d ∧ d < sizes.length := by
  intro xs
  induction xs with
  | nil => intro _ p hp; cases hp
  | cons q rest ih =>
    intro h p hp
    obtain ⟨dims, dir⟩ := q
    simp only [juLoop, bind, Except.bind] at h
    split at h
    · cases h
    · split at h
      · cases h
      · rename_i hdl
        split at h
        · cases h
        · rename_i hnd
          rcases List.mem_cons.mp hp with e | e
          · subst e
            have hu : juDimLoop sizes mono dims = .ok () := by
              rw [hdl]
            exact ⟨by simpa using hnd, juDimLoop_spec dims hu⟩
          · exact ih h p e

theorem verifyJU_spec {sizes : List Int} {mono : Option (List Atom)} {j : JU} {xs : List (List Int × Atom)}
    (h : verifyJU sizes mono j = .ok xs) : ∀ x ∈ xs, x.1.Nodup ∧ ∀ d ∈ x.1, 0 ≤ d ∧ d < sizes.length := by
  cases j with
  | none => simp only [verifyJU, Except.ok.injEq] at h; subst h; intro x hx; cases hx
  | list ys =>
    simp only [verifyJU, bind, Except.bind] at h
    split at h
    · cases h
    · rename_i u hu
      simp only [pure, Except.pure, Except.ok.injEq] at h
      subst h
      exact juLoop_spec ys (by cases u; exact hu)
  | single a b => simp [verifyJU, ve] at h

/-- the facts of an accepted configuration the Dykstra theorems use -/
structure AcceptedFacts (c : LatCfg) : Prop where
  trusts : ∀ t ∈ c.ew ++ c.tp, TrustOK c.sizes.length c.mono t
  main_cond : ∀ t ∈ c.ew ++ c.tp, ∀ t' ∈ c.ew ++ c.tp, atomNat t.main ≠ atomNat t'.cond
  md : ∀ p ∈ c.md, PairOK c.sizes.length c.mono true p
  rd : ∀ p ∈ c.rd, PairOK c.sizes.length c.mono true p
  jm : ∀ p ∈ c.jm, PairOK c.sizes.length c.mono false p
  /-- fix 18dd711: dominance and joint-monotonicity pairs name two different dimensions -/
  distinct : ∀ p ∈ c.md ++ c.rd ++ c.jm, p.1 ≠ p.2
  ju : ∀ x ∈ c.ju, x.1.Nodup ∧ ∀ d ∈ x.1, 0 ≤ d ∧ d < c.sizes.length

theorem verifyLattice_facts (r : RawLatFull) (c : LatCfg) (h : verifyLattice r = .ok c) : AcceptedFacts c := by
  simp only [verifyLattice, bind, Except.bind] at h
  split at h
  · cases h
  · rename_i sizes hs
    split at h
    · cases h
    · rename_i mu hmu
      split at h
      · cases h
      · rename_i all hall
        split at h
        · cases h
        · rename_i md hmd
          split at h
          · cases h
          · rename_i rd hrd
            split at h
            · cases h
            · rename_i jm hjm
              split at h
              · cases h
              · rename_i ju hju
                split at h
                · cases h
                · rename_i lo hlo
                  split at h
                  · cases h
                  · rename_i hi hhi
                    split at h
                    · cases h
                    · split at h
                      · cases h
                      · split at h
                        · cases h
                        · simp only [pure, Except.pure, Except.ok.injEq] at h
                          subst h
                          obtain ⟨ht1, ht2⟩ := verifyTrusts_spec hall
                          have htd : List.take (seqLen r.ew) all ++ List.drop (seqLen r.ew) all = all :=
                            List.take_append_drop _ _
                          refine ⟨?_, ?_, verifyDominances_spec hmd, verifyDominances_spec hrd,
                            verifyDominances_spec hjm, ?_, verifyJU_spec hju⟩
                          · intro t ht; rw [htd] at ht; exact ht1 t ht
                          · intro t ht t' ht'; rw [htd] at ht ht'; exact ht2 t ht t' ht'
                          · intro p hp
                            rcases List.mem_append.mp hp with hp | hp
                            · rcases List.mem_append.mp hp with hp | hp
                              · exact verifyDominances_distinct hmd p hp
                              · exact verifyDominances_distinct hrd p hp
                            · exact verifyDominances_distinct hjm p hp

theorem toNat_nodup {l : List Int} (h : l.Nodup) (hp : ∀ d ∈ l, 0 ≤ d) : (l.map Int.toNat).Nodup := by
  refine List.Nodup.map_on (fun a ha b hb hab => ?_) h
  have := hp a ha
  have := hp b hb
  omega

/-- **accepted ⇒ `CfgShape`**, with exactly the one side condition acceptance does not give: no range
dominance (that dominance / joint-monotonicity pairs name two different dimensions follows from
acceptance since /repo 18dd711). -/
theorem verifyLattice_cfgShape (r : RawLatFull) (c : LatCfg) (h : verifyLattice r = .ok c)
    (hrd : c.rd = []) : CfgShape (toDCfg c) := by
  have ok := verifyLattice_facts r c h
  have hself : ∀ p ∈ c.md ++ c.jm, p.1 ≠ p.2 := by
    intro p hp
    apply ok.distinct p
    rcases List.mem_append.mp hp with hp | hp
    · exact List.mem_append_left _ (List.mem_append_left _ hp)
    · exact List.mem_append_right _ hp
  have hlen : (c.sizes.map Int.toNat).length = c.sizes.length := List.length_map _
  have key : ∀ t ∈ c.ew ++ c.tp, TrustWF (toDCfg c).sizes (toTrust t) := by
    intro t ht
    obtain ⟨hm, hc, _⟩ := ok.trusts t ht
    refine ⟨?_, ?_, ok.main_cond t ht t ht⟩
    · simp only [toDCfg, toTrust, hlen]; exact hm.atomNat_lt
    · simp only [toDCfg, toTrust, hlen]; exact hc.atomNat_lt
  refine ⟨?_, ?_, ?_, ?_, ?_, hrd⟩
  · intro tr htr
    obtain ⟨t, ht, rfl⟩ := List.mem_map.mp htr
    exact key t (List.mem_append_left _ ht)
  · intro tr htr
    obtain ⟨t, ht, rfl⟩ := List.mem_map.mp htr
    exact key t (List.mem_append_right _ ht)
  · intro p hp
    have := ok.md p hp
    exact ⟨by simpa [toDCfg] using this.1, by simpa [toDCfg] using this.2.1,
      hself p (List.mem_append_left _ hp)⟩
  · intro p hp
    have := ok.jm p hp
    exact ⟨by simpa [toDCfg] using this.1, by simpa [toDCfg] using this.2.1,
      hself p (List.mem_append_right _ hp)⟩
  · intro ju hju
    obtain ⟨x, hx, rfl⟩ := List.mem_map.mp hju
    obtain ⟨hnd, hr⟩ := ok.ju x hx
    refine ⟨toNat_nodup hnd (fun d hd => (hr d hd).1), ?_⟩
    intro d hd
    obtain ⟨z, hz, rfl⟩ := List.mem_map.mp hd
    have := hr z hz
    simp only [toDCfg, hlen]
    omega

/-- **accepted ⇒ `CfgWF`** (the hypothesis of `projectByDykstraT_cfg_converges`), with the two side
conditions acceptance does not give: no range dominance, no constraint listed twice. -/
theorem verifyLattice_cfgWF (r : RawLatFull) (c : LatCfg) (h : verifyLattice r = .ok c)
    (hrd : c.rd = []) (hnd : NoRepeats (toDCfg c)) :
    CfgWF (toDCfg c) :=
  cfgWF_of_noRepeats _ (verifyLattice_cfgShape r c h hrd) hnd

/-- **C08 for accepted configurations**: whatever `verify_hyperparameters` accepts without range
dominance — constraint tuples may be listed twice (`Props/C08Shared.lean`), joint unimodality
directions in any accepted spelling — the executable model of `project_by_dykstra` converges to the
Euclidean-nearest feasible kernel. -/
theorem accepted_converges (r : RawLatFull) (c : LatCfg) (h : verifyLattice r = .ok c)
    (hrd : c.rd = [])
    (hact : dykstraActive (toDCfg c) = true) (t : Table) :
    ∃ p : Idx → ℝ, FeasibleR (toDCfg c) p ∧
      (∀ y : Idx → ℝ, FeasibleR (toDCfg c) y →
        Tfl.DykConv.bsum (toDCfg c).sizes (fun idx => ((t.get idx : ℝ) - p idx) ^ 2)
            + Tfl.DykConv.bsum (toDCfg c).sizes (fun idx => (p idx - y idx) ^ 2)
          ≤ Tfl.DykConv.bsum (toDCfg c).sizes (fun idx => ((t.get idx : ℝ) - y idx) ^ 2)) ∧
      (∀ idx, InRange (toDCfg c).sizes idx → Filter.Tendsto (fun n =>
        (((projectByDykstraT (toDCfg c) n t).get idx : ℚ) : ℝ)) Filter.atTop (nhds (p idx))) ∧
      (∀ ε : ℝ, 0 < ε → ∃ n0 : Nat, ∀ n, n0 ≤ n → ∀ idx, InRange (toDCfg c).sizes idx →
        |(((projectByDykstraT (toDCfg c) n t).get idx : ℚ) : ℝ) - p idx| < ε) :=
  projectByDykstraT_cfg_converges_shape _ (verifyLattice_cfgShape r c h hrd) hact t

/-! ### what the verifier rejects / accepts at the edges of the side conditions -/

def rawSelfJm : RawLatFull :=
  { sizes := .s false [.a (.int 3), .a (.int 3)], jm := .s false [.s true [.int 0, .int 0]] }
def rawSelfMd : RawLatFull :=
  { sizes := .s false [.a (.int 3), .a (.int 3)], mono := .s false [.a (.int 1), .a (.int 1)],
    md := .s false [.s true [.int 0, .int 0]] }
def rawDupJm : RawLatFull :=
  { sizes := .s false [.a (.int 3), .a (.int 2)],
    jm := .s false [.s true [.int 0, .int 1], .s true [.int 0, .int 1]] }
def rawGood : RawLatFull :=
  { sizes := .s false [.a (.int 3), .a (.int 3)], mono := .s false [.a (.int 1), .a (.int 0)],
    ew := .s false [.s true [.int 0, .int 1, .int 1]], jm := .s false [.s true [.int 0, .int 1]] }

/-- `joint_monotonicities=[(0, 0)]` and `monotonic_dominances=[(0, 0)]` (on a 3×3 lattice) are REJECTED
by the model of `verify_hyperparameters` (as by the real one since fix 18dd711; formerly finding F-C08-c) -/
theorem selfPair_rejected : outcome (verifyLattice rawSelfJm) = 1 ∧ outcome (verifyLattice rawSelfMd) = 1 := by
  decide +kernel

/-- a joint monotonicity listed twice (`[(0, 1), (0, 1)]` on a 3×2 lattice, the configuration of
`Tfl.C08.dup_slots_differ`) is ACCEPTED (as by the real verifier): `NoRepeats` does not follow from
acceptance -/
theorem dupPair_accepted : outcome (verifyLattice rawDupJm) = 0 := by
  decide +kernel

/-- the canonical form of `rawGood` -/
def cfgGood : LatCfg :=
  { sizes := [3, 3], mono := some [.int 1, .int 0], uni := none, ew := [⟨.int 0, .int 1, 1⟩], tp := [],
    md := [], rd := [], jm := [(0, 1)], ju := [], lo := none, hi := none }

/-- non-vacuity: an accepted 3×3 configuration (monotone dim 0, Edgeworth trust, joint monotonicity)
meets all side conditions -/
example : verifyLattice rawGood = .ok cfgGood ∧ cfgGood.rd = [] ∧
      NoRepeats (toDCfg cfgGood) ∧ dykstraActive (toDCfg cfgGood) = true := by
  refine ⟨by decide +kernel, rfl, ⟨by decide, by decide, by decide, by decide, by decide, by decide⟩,
    by decide⟩

/-- a capitalised joint-unimodality direction is accepted and configures a VALLEY (cdf6c9e) -/
def rawValley : RawLatFull :=
  { sizes := .s false [.a (.int 3), .a (.int 3)], ju := .list [([0, 1], .str .valley false)] }

example : (match verifyLattice rawValley with
    | .ok c => (toDCfg c).jointUnimod == [⟨[0, 1], true⟩]
    | .error _ => false) = true := by decide +kernel

end Tfl.C08
