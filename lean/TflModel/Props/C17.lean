import TflModel.Lemmas.Ensembles
/-!
# C17 — ensemble structures use every feature, fill each lattice, respect monotone slots

Model: `Tfl.Ensembles` (`rtlStructure`, `randomEnsemble`, `pairCover`, `crystals`).
Shuffles are arbitrary permutations, `np.random.choice` arbitrary draws, so every theorem holds
for every seed.  "Deterministic function of the seed" is stated in the last section
(`rtl_deterministic`, `random_deterministic`, `cover_deterministic`, `crystals_deterministic`): every
structure is a FUNCTION of the configuration and of the recorded permutations / draws, and the draws are
a function `gen seed cfg` of the seed — NumPy's generator, a parameter of the statements, outside the
model; the harness runs the real code twice per seed (clause `deterministic`) and replays
`RandomState(seed)` into the model.
Crystals: importance scores must be POSITIVE (`0 < s`, not merely non-negative): a zero score is the
known finding F-C17-a (`crystals_zero_score_witness`); torsions and the empty-lattice score are `≥ 0`.
-/
namespace Tfl.C17
open Tfl Tfl.Ensembles

/-- all lattices (lists of flattened input indices) of an RTL structure -/
def lattices (s : Structure) : List (List Nat) := s.flatMap (·.2)
/-- number of lattice slots wired to input `i` -/
def usage (s : Structure) (i : Nat) : Nat := (lattices s).flatten.count i

theorem rtlSlots_perm (inc unc : List Nat) (L r : Nat) (avoid : Bool) (perm1 perm2 : List Nat) (fuel : Nat)
    (hpos : 0 < (rtlInputs inc unc).length)
    (hp1 : perm1.Perm (List.range (rtlInputs inc unc).length)) (hp2 : perm2.Perm (List.range (L * r))) :
    (rtlSlots inc unc L r avoid perm1 perm2 fuel).1.Perm
      (tileTake (applyPerm perm1 (rtlInputs inc unc)) (L * r)) := by
  have hJ := applyPerm_perm perm1 _ hp1
  have hlen : (tileTake (applyPerm perm1 (rtlInputs inc unc)) (L * r)).length = L * r :=
    length_tileTake _ (by rw [hJ.length_eq]; exact hpos) _
  have h2 := applyPerm_perm perm2 (tileTake (applyPerm perm1 (rtlInputs inc unc)) (L * r)) (by rw [hlen]; exact hp2)
  unfold rtlSlots
  simp only
  split_ifs
  · exact (rtlSwapLoop_perm L r fuel _).trans h2
  · exact h2

theorem foldl_max_eq_one : ∀ (l : List Nat) (a : Nat), a ≤ 1 → (∀ x ∈ l, x ≤ 1) →
    (l.foldl max a = 1 ↔ a = 1 ∨ 1 ∈ l)
  | [], a, _, _ => by simp
  | x :: xs, a, ha, hl => by
    have hx : x ≤ 1 := hl x List.mem_cons_self
    rw [List.foldl_cons, foldl_max_eq_one xs (max a x) (by omega) (fun y hy => hl y (List.mem_cons_of_mem _ hy))]
    simp only [List.mem_cons]
    constructor
    · rintro (h | h)
      · rcases Nat.le_total a x with h' | h'
        · rw [max_eq_right h'] at h; exact Or.inr (Or.inl h.symm)
        · rw [max_eq_left h'] at h; exact Or.inl h
      · exact Or.inr (Or.inr h)
    · rintro (h | h | h)
      · left; omega
      · left; omega
      · exact Or.inr h

/-- **C17-T1 (RTL).** For every input layout with at least one input, every lattice count and
rank, every pair of shuffles (arbitrary permutations — hence every seed), with or without the
group-avoiding swap loop and whatever its cap: if `_get_rtl_structure` returns (i.e.
`num_lattices·rank ≥ #inputs`), then there are exactly `num_lattices` lattices, each wired to
exactly `lattice_rank` inputs; position `p` of a group's monotonicity tuple is 1 iff the input
wired at `p` is one of the `'increasing'` inputs (so increasing inputs meet only monotone lattice
dimensions); every input is used, and any two usage counts differ by at most one (each is
`⌊slots/inputs⌋` or that plus one). -/
theorem rtl_structure (inc unc : List Nat) (L r : Nat) (avoid : Bool) (perm1 perm2 : List Nat) (fuel : Nat)
    (s : Structure) (cap : Bool)
    (hpos : 0 < (rtlInputs inc unc).length)
    (hp1 : perm1.Perm (List.range (rtlInputs inc unc).length)) (hp2 : perm2.Perm (List.range (L * r)))
    (h : rtlStructure inc unc L r avoid perm1 perm2 fuel = .ok (s, cap)) :
    (lattices s).length = L ∧
    (∀ g ∈ s, ∀ lat ∈ g.2, lat.length = r ∧ g.1 = lat.map (monoOf inc)) ∧
    (∀ i, i < (rtlInputs inc unc).length →
      1 ≤ usage s i ∧ L * r / (rtlInputs inc unc).length ≤ usage s i ∧
      usage s i ≤ L * r / (rtlInputs inc unc).length + 1) := by
  unfold rtlStructure at h
  split_ifs at h with hsmall
  simp only [Except.ok.injEq, Prod.mk.injEq] at h
  obtain ⟨hs, _⟩ := h
  set n := (rtlInputs inc unc).length with hn
  set flat := (rtlSlots inc unc L r avoid perm1 perm2 fuel).1 with hflat
  have hperm := rtlSlots_perm inc unc L r avoid perm1 perm2 fuel hpos hp1 hp2
  rw [← hflat] at hperm
  have hJ := applyPerm_perm perm1 _ hp1
  have hlen : flat.length = L * r := by
    rw [hperm.length_eq]; exact length_tileTake _ (by rw [hJ.length_eq]; exact hpos) _
  have hmem : ∀ x ∈ flat, x ∈ rtlInputs inc unc := fun x hx =>
    hJ.subset (mem_tileTake (hperm.subset hx))
  -- the structure is a permutation of the grouped chunks
  have hsperm : s.Perm (groupLattices (chunks r L flat)) := by rw [← hs]; exact List.mergeSort_perm _ _
  have hlats : (lattices s).Perm ((chunks r L flat).map latVal) := by
    unfold lattices
    refine (List.Perm.flatMap_right _ hsperm).trans ?_
    have := groupFold_flatMap_perm (chunks r L flat) []
    simpa [groupLattices_eq] using this
  refine ⟨?_, ?_, ?_⟩
  · rw [hlats.length_eq, List.length_map]; simp [chunks]
  · intro g hg lat hlat
    have hg' : g ∈ groupFold [] (chunks r L flat) := by
      rw [← groupLattices_eq]; exact hsperm.subset hg
    rcases mem_groupFold _ _ g hg' lat hlat with ⟨e', he', _⟩ | ⟨c, hc, hk, hv⟩
    · cases he'
    · have hcs : (sortLattice c).Perm c := List.mergeSort_perm _ _
      constructor
      · rw [hv, latVal, List.length_map, hcs.length_eq]; exact length_of_mem_chunks r L flat hlen hc
      · rw [hk, hv, latKey, latVal, List.map_map]
        apply List.map_congr_left
        intro x hx
        exact mono_of_mem_rtlInputs inc unc (hmem x (mem_of_mem_chunks r L flat hc (hcs.subset hx)))
  · intro i hi
    have hcount : usage s i = (tileTake ((applyPerm perm1 (rtlInputs inc unc)).map (·.idx)) (L * r)).count i := by
      unfold usage
      rw [(List.Perm.flatten hlats).count_eq, (flatten_map_latVal_perm _).count_eq,
        flatten_chunks r L flat hlen, (List.Perm.map _ hperm).count_eq, map_tileTake]
    have hJidx : ((applyPerm perm1 (rtlInputs inc unc)).map (·.idx)).Perm (List.range n) := by
      have := List.Perm.map (·.idx) hJ
      rwa [map_idx_rtlInputs] at this
    have hnodup : ((applyPerm perm1 (rtlInputs inc unc)).map (·.idx)).Nodup :=
      hJidx.nodup_iff.mpr List.nodup_range
    have hlenJ : ((applyPerm perm1 (rtlInputs inc unc)).map (·.idx)).length = n := by
      rw [hJidx.length_eq, List.length_range]
    have himem : i ∈ (applyPerm perm1 (rtlInputs inc unc)).map (·.idx) :=
      hJidx.symm.subset (List.mem_range.mpr hi)
    have := count_tileTake _ hnodup (by rw [hlenJ]; exact hpos) (L * r) himem
    rw [hlenJ] at this
    rw [hcount]
    have hq : 1 ≤ L * r / n := (Nat.one_le_div_iff hpos).mpr (by omega)
    omega

/-- **C17-T1 (RTL), output label.** `call` sends a lattice's output to `'increasing'`
(`max(monotonicities) = 1`) exactly when that lattice is wired to at least one `'increasing'`
input. -/
theorem rtl_output_label (inc unc : List Nat) (L r : Nat) (avoid : Bool) (perm1 perm2 : List Nat) (fuel : Nat)
    (s : Structure) (cap : Bool)
    (hpos : 0 < (rtlInputs inc unc).length)
    (hp1 : perm1.Perm (List.range (rtlInputs inc unc).length)) (hp2 : perm2.Perm (List.range (L * r)))
    (h : rtlStructure inc unc L r avoid perm1 perm2 fuel = .ok (s, cap)) :
    ∀ g ∈ s, ∀ lat ∈ g.2, (outputIncreasing g.1 = true ↔ ∃ i ∈ lat, i < inc.sum) := by
  intro g hg lat hlat
  obtain ⟨_, h2, _⟩ := rtl_structure inc unc L r avoid perm1 perm2 fuel s cap hpos hp1 hp2 h
  obtain ⟨_, hk⟩ := h2 g hg lat hlat
  unfold outputIncreasing
  rw [beq_iff_eq, hk, foldl_max_eq_one _ 0 (by omega)]
  · simp only [List.mem_map, monoOf]
    constructor
    · rintro (h | ⟨i, hi, h⟩)
      · omega
      · refine ⟨i, hi, ?_⟩
        by_contra hc
        rw [if_neg hc] at h; omega
    · rintro ⟨i, hi, h⟩
      exact Or.inr ⟨i, hi, by rw [if_pos h]⟩
  · intro x hx
    rw [List.mem_map] at hx
    obtain ⟨i, _, rfl⟩ := hx
    unfold monoOf; split_ifs <;> omega


/-! ### RTL: "at least one input" follows from acceptance

`rtl_structure` / `rtl_output_label` assume `0 < #inputs`.  The real `_get_rtl_structure` never returns for a
layer without inputs: `0 ≤ num_lattices·rank` passes the "too small" check and `total_usage //
len(rtl_inputs)` raises `ZeroDivisionError` (rtl_layer.py:570; `RTL(...)(tf.zeros((2, 0)))`).  `rtlStructure`
models that exit as `.error .other` (not as Lean's `x / 0 = 0`), so the hypothesis is discharged for every
accepted layer.  No arrangement can give each lattice `lattice_rank` of zero features: the empty feature set
is outside C17's quantifier, the error class is not a clause of C17. -/

/-- **C17-T1 (RTL), no inputs.** A layer without inputs is not given a structure: `ZeroDivisionError`. -/
theorem rtl_no_inputs_raises (inc unc : List Nat) (L r : Nat) (avoid : Bool) (perm1 perm2 : List Nat) (fuel : Nat)
    (h0 : (rtlInputs inc unc).length = 0) :
    rtlStructure inc unc L r avoid perm1 perm2 fuel = .error .other := by
  unfold rtlStructure
  simp [h0]

/-- **C17-T1 (RTL), acceptance ⇒ at least one input and enough slots.** -/
theorem rtl_accepted_has_inputs (inc unc : List Nat) (L r : Nat) (avoid : Bool) (perm1 perm2 : List Nat) (fuel : Nat)
    (s : Structure) (cap : Bool) (h : rtlStructure inc unc L r avoid perm1 perm2 fuel = .ok (s, cap)) :
    0 < (rtlInputs inc unc).length ∧ (rtlInputs inc unc).length ≤ L * r := by
  unfold rtlStructure at h
  split_ifs at h with hsmall hzero
  omega

/-- **C17-T1 (RTL) for accepted layers.** `rtl_structure` without the hypothesis `0 < #inputs`. -/
theorem rtl_structure_accepted (inc unc : List Nat) (L r : Nat) (avoid : Bool) (perm1 perm2 : List Nat) (fuel : Nat)
    (s : Structure) (cap : Bool)
    (hp1 : perm1.Perm (List.range (rtlInputs inc unc).length)) (hp2 : perm2.Perm (List.range (L * r)))
    (h : rtlStructure inc unc L r avoid perm1 perm2 fuel = .ok (s, cap)) :
    (lattices s).length = L ∧
    (∀ g ∈ s, ∀ lat ∈ g.2, lat.length = r ∧ g.1 = lat.map (monoOf inc)) ∧
    (∀ i, i < (rtlInputs inc unc).length →
      1 ≤ usage s i ∧ L * r / (rtlInputs inc unc).length ≤ usage s i ∧
      usage s i ≤ L * r / (rtlInputs inc unc).length + 1) :=
  rtl_structure inc unc L r avoid perm1 perm2 fuel s cap
    (rtl_accepted_has_inputs inc unc L r avoid perm1 perm2 fuel s cap h).1 hp1 hp2 h

/-- **C17-T1 (RTL), output label, for accepted layers.** -/
theorem rtl_output_label_accepted (inc unc : List Nat) (L r : Nat) (avoid : Bool) (perm1 perm2 : List Nat)
    (fuel : Nat) (s : Structure) (cap : Bool)
    (hp1 : perm1.Perm (List.range (rtlInputs inc unc).length)) (hp2 : perm2.Perm (List.range (L * r)))
    (h : rtlStructure inc unc L r avoid perm1 perm2 fuel = .ok (s, cap)) :
    ∀ g ∈ s, ∀ lat ∈ g.2, (outputIncreasing g.1 = true ↔ ∃ i ∈ lat, i < inc.sum) :=
  rtl_output_label inc unc L r avoid perm1 perm2 fuel s cap
    (rtl_accepted_has_inputs inc unc L r avoid perm1 perm2 fuel s cap h).1 hp1 hp2 h

/-- two lattices of rank 2 over zero inputs (`RTL(num_lattices=2, lattice_rank=2)(tf.zeros((2, 0)))`) -/
example : rtlStructure [] [] 2 2 true [] [0, 1, 2, 3] = .error .other := by decide +kernel

/-- **C17-T2 (random ensemble).** For every number of features, lattice count, rank and every
sequence of `np.random.choice` draws (hence every seed): whenever `set_random_lattice_ensemble`
returns, there are `num_lattices` lattices, each with exactly `lattice_rank` features, no
feature repeated inside a lattice, every entry a valid feature, and every feature used. -/
theorem random_ensemble (n L r : Nat) (first : List Nat) (fill lats : List (List Nat))
    (h : randomEnsemble n L r first fill = .ok lats) :
    lats.length = L ∧ (∀ l ∈ lats, l.length = r ∧ l.Nodup ∧ ∀ x ∈ l, x < n) ∧
    (∀ f, f < n → ∃ l ∈ lats, f ∈ l) := by
  unfold randomEnsemble at h
  simp only [bind, Except.bind] at h
  split at h
  · cases h
  · rename_i mid hmid
    have inv0 : FirstInv L r [] (List.replicate L []) := by
      refine ⟨by simp, ?_, ?_, ?_, ?_⟩
      · intro l hl; rw [(List.mem_replicate.mp hl).2]; exact List.nodup_nil
      · intro l hl; rw [(List.mem_replicate.mp hl).2]; simp
      · intro l hl x hx; rw [(List.mem_replicate.mp hl).2] at hx; cases hx
      · intro x hx; cases hx
    have inv := randomFirst_inv L r (List.range n) first _ mid [] inv0 List.nodup_range
      (fun f _ hf => by cases hf) hmid
    rw [List.nil_append] at inv
    obtain ⟨r1, r2, r3⟩ := randomFill_ok n r mid fill lats h
      (fun l hl => ⟨inv.nodup l hl, inv.le l hl, fun x hx => List.mem_range.mp (inv.sub l hl x hx)⟩)
    refine ⟨by rw [r1, inv.len], fun l hl => ?_, fun f hf => ?_⟩
    · obtain ⟨a, b, c⟩ := r2 l hl
      exact ⟨b, a, c⟩
    · exact r3 f (inv.cover f (List.mem_range.mpr hf))

theorem tot_replicate_nil (L : Nat) : tot (List.replicate L []) = 0 := by
  induction L with
  | zero => rfl
  | succ L ih => simp only [tot, List.replicate_succ, List.map_cons, List.sum_cons, List.length_nil] at ih ⊢; omega

/-- **C17-T2 (random ensemble), totality.** Under exactly the code's preconditions — enough
slots (`num_features ≤ num_lattices·lattice_rank`) and `lattice_rank ≤ num_features` — and for
every sequence of draws `np.random.choice` can produce (`ValidFirst`: an index into the non-empty
list of non-full lattices; `ValidFill`: `rank - len(lattice)` distinct indices into the list of
features not yet in the lattice), `set_random_lattice_ensemble` returns without error: there is
always a non-full lattice for the next feature and always enough candidates to fill a lattice.
With `random_ensemble` the result then has every stated property. -/
theorem random_ensemble_total (n L r : Nat) (first : List Nat) (fill : List (List Nat))
    (hslots : n ≤ L * r) (hrn : r ≤ n)
    (hfirst : ValidFirst L r (List.range n) first (List.replicate L []))
    (hfill : ∀ mid, randomFirst L r (List.range n) first (List.replicate L []) = .ok mid → ValidFill n r mid fill) :
    ∃ lats, randomEnsemble n L r first fill = .ok lats ∧
      lats.length = L ∧ (∀ l ∈ lats, l.length = r ∧ l.Nodup ∧ ∀ x ∈ l, x < n) ∧
      (∀ f, f < n → ∃ l ∈ lats, f ∈ l) := by
  obtain ⟨mid, hmid⟩ := randomFirst_total L r (List.range n) first (List.replicate L []) (by simp)
    (by intro lat hlat; rw [(List.mem_replicate.mp hlat).2]; simp)
    (by rw [tot_replicate_nil, List.length_range]; omega) hfirst
  obtain ⟨out, hout⟩ := randomFill_total n r hrn mid fill (hfill mid hmid)
  have hok : randomEnsemble n L r first fill = .ok out := by
    unfold randomEnsemble
    simp only [bind, Except.bind, hmid, hout]
  exact ⟨out, hok, random_ensemble n L r first fill out hok⟩

/-- non-vacuity of `random_ensemble_total`: the draws of the `random_ensemble` example are valid -/
example : ValidFirst 3 2 (List.range 5) [0, 1, 1, 1, 0] (List.replicate 3 []) ∧
    ValidFill 5 2 [[0, 4], [1, 2], [3]] [[], [], [2]] := by
  constructor
  · simp [ValidFirst, List.range_succ, List.filter_cons]
  · simp [ValidFill, List.range_succ]

/-- **C17-T3 (Crystals prefitting cover), EVERY rank.** For every number of features, every rank
(no `2 ≤ r`: ranks 0 and 1 included) and every shuffle of the pair list (every seed),
`_set_all_pairs_cover_lattices` puts every feature pair together in some lattice — the clause C17
states — and no lattice has more than `max lattice_rank 2` features.  For `lattice_rank ≥ 2` that bound
is `lattice_rank` (`pair_cover`); for `lattice_rank ≤ 1` a pair cannot fit into a lattice of that rank,
`_add_pair_to_ensemble` falls through to `lattices.append(set([i, j]))` every time and every lattice has
exactly two features (`pair_cover_rank_le_one`; real code, `lattice_rank=1`, 3 features:
`[['f0','f1'],['f1','f2'],['f0','f2']]`). -/
theorem pair_cover_any_rank (n r : Nat) (perm : List Nat)
    (hp : perm.Perm (List.range (allPairs n).length)) :
    (∀ i j, i < j → j < n → ∃ l ∈ pairCover n r perm, i ∈ l ∧ j ∈ l) ∧
    (∀ l ∈ pairCover n r perm, l.length ≤ max r 2) := by
  obtain ⟨_, c, s⟩ := foldl_addPair_facts_any r (max r 2) (Nat.le_max_left _ _) (Nat.le_max_right _ _)
    (applyPerm perm (allPairs n)) []
  refine ⟨fun i j hij hj => ?_, s (fun l hl => by cases hl)⟩
  exact c (i, j) ((applyPerm_perm perm _ hp).symm.subset (mem_allPairs hij hj))

/-- **C17-T3 (Crystals prefitting cover), the cover clause alone**: no rank hypothesis. -/
theorem pair_cover_covers (n r : Nat) (perm : List Nat)
    (hp : perm.Perm (List.range (allPairs n).length)) :
    ∀ i j, i < j → j < n → ∃ l ∈ pairCover n r perm, i ∈ l ∧ j ∈ l :=
  (pair_cover_any_rank n r perm hp).1

/-- **C17-T3 (Crystals prefitting cover), rank ≥ 2.** Corollary of `pair_cover_any_rank`: every feature
pair is together in some lattice and no lattice has more than `lattice_rank` features.  `2 ≤ r` is needed
by the SIZE clause only (see `pair_cover_rank_le_one_exceeds`). -/
theorem pair_cover (n r : Nat) (perm : List Nat) (hr : 2 ≤ r)
    (hp : perm.Perm (List.range (allPairs n).length)) :
    (∀ i j, i < j → j < n → ∃ l ∈ pairCover n r perm, i ∈ l ∧ j ∈ l) ∧
    (∀ l ∈ pairCover n r perm, l.length ≤ r) := by
  obtain ⟨c, s⟩ := pair_cover_any_rank n r perm hp
  refine ⟨c, fun l hl => ?_⟩
  have := s l hl
  rwa [max_eq_left hr] at this

/-- **C17-T3, rank ≤ 1: every cover lattice has exactly two features** (whatever list `perm` is): a
lattice of rank ≤ 1 never has room (`len(lattice) < lattice_rank` fails for every non-empty lattice), so
each uncovered pair gets a new lattice `{i, j}`.  Not a defect of the C17 cover clause (which holds,
`pair_cover_covers`); the prefitting config then lists two-feature lattices next to `lattice_rank = 1`,
which the premade model accepts (explicit lattices are not checked against `lattice_rank`) and the final
Crystals lattices have exactly `lattice_rank = 1` feature each (`crystals_structure` covers `r = 1`). -/
theorem pair_cover_rank_le_one (n r : Nat) (perm : List Nat) (hr : r ≤ 1) :
    ∀ l ∈ pairCover n r perm, l.length = 2 :=
  foldl_addPair_rank_le_one r hr (applyPerm perm (allPairs n)) []
    (fun p hp => Nat.ne_of_lt (lt_of_mem_allPairs (mem_of_mem_applyPerm hp)).1)
    (fun l hl => by cases hl)

/-- **C17-T3, rank ≤ 1: "size ≤ rank" is false** for every shuffle as soon as there is one pair:
this is why `pair_cover`'s size clause carries `2 ≤ r`. -/
theorem pair_cover_rank_le_one_exceeds (n r : Nat) (perm : List Nat) (hr : r ≤ 1) (hn : 2 ≤ n)
    (hp : perm.Perm (List.range (allPairs n).length)) :
    ∃ l ∈ pairCover n r perm, r < l.length := by
  obtain ⟨l, hl, _⟩ := pair_cover_covers n r perm hp 0 1 (by omega) (by omega)
  exact ⟨l, hl, by rw [pair_cover_rank_le_one n r perm hr l hl]; omega⟩

/-- rank 1 cannot hold a pair: the cover then creates two-feature lattices (the code's
`construct_prefitting_model_config` is only reached with `lattice_rank < #features`). Real code,
`lattice_rank=1`, 2 and 3 features, `random_seed=1`. -/
example : pairCover 2 1 [0] = [[0, 1]] ∧ pairCover 3 1 [0, 2, 1] = [[0, 1], [1, 2], [0, 2]] := by decide


/-- **C17-T4 (Crystals), full statement.** For every number of features `n`, lattice count `L`
and rank `r` with `r < n ≤ L·r` (rank 1 included), all torsions ≥ 0, every importance score STRICTLY
POSITIVE (`0 < s`; "non-negative" is not enough: a zero score is finding F-C17-a,
`crystals_zero_score_witness`), `order` a descending sort of the scores and an empty-lattice score ≥ 0:
`_get_final_crystal_lattices` returns (both `assert`s hold), there are `L` lattices, every
lattice has exactly `r` features and every feature is placed, whatever the swap cap. Proved
below as `crystals_structure`. The driver evaluates the hypotheses on every correspondence case. -/
def CrystalsSpec : Prop :=
  ∀ (n L r : Nat) (t : List (List Rat)) (lap : List Rat) (order : List Nat) (emptyScore : Rat) (fuel : Nat),
    r < n → n ≤ L * r → (∀ i j, 0 ≤ getT t i j) → 0 ≤ emptyScore →
    (∀ s ∈ importance n t lap, 0 < s) → order.Perm (List.range n) →
    sortedDesc (importance n t lap) order = true →
    ∃ lats cap, crystals n L r t lap order emptyScore fuel = .ok (lats, cap) ∧ lats.length = L ∧
      (∀ l ∈ lats, l.length = r) ∧ ∀ f, f < n → ∃ l ∈ lats, f ∈ l

/-- **C17-T4a (use allocation).** For `r ≤ n ≤ L·r`, strictly positive scores (`0 < s`) and `order` a descending
sort: the allocation loop never divides by zero, `Σ features_uses = num_lattices·lattice_rank`
(the code's first `assert`), and every feature gets between 1 and `num_lattices` uses. -/
theorem crystals_allocation (n L r : Nat) (scores : List Rat) (order : List Nat) (hlen : scores.length = n)
    (h0 : 0 < n) (hrn : r ≤ n) (hn : n ≤ L * r) (hpos : ∀ s ∈ scores, 0 < s)
    (hperm : order.Perm (List.range n)) (hso : sortedDesc scores order = true) :
    ∃ uses, allocUses n L r scores order = .ok uses ∧ uses.length = n ∧ isum uses = ((L * r : Nat) : Int) ∧
      ∀ f, f < n → 1 ≤ uses.getD f 0 ∧ uses.getD f 0 ≤ (L : Int) :=
  allocUses_ok n L r scores order hlen h0 hrn hn hpos hperm hso

/-- **C17-T4b (round-robin add list).** For non-negative uses the add list has `Σ uses` entries
(the code's second `assert`), feature `f` occurs exactly `uses[f]` times and every entry is a
feature index. -/
theorem crystals_add_list (uses : List Int) (h0 : ∀ x ∈ uses, 0 ≤ x) :
    ((addList uses).length : Int) = isum uses ∧
    (∀ f, f < uses.length → ((addList uses).count f : Int) = uses.getD f 0) ∧
    (∀ f ∈ addList uses, f < uses.length) :=
  addList_facts uses h0

/-- **C17-T4c (greedy placement).** With torsions ≥ 0 and a non-negative empty-lattice score,
starting from `L` lattices of at most `r` features with exactly as many free slots as features
still to add: no lattice ever exceeds `r` (a full lattice scores `-2`, any other ≥ `-1`), at the
end every lattice has exactly `r` features, and every added feature is in some lattice. -/
theorem crystals_placement (t : List (List Rat)) (r L : Nat) (e : Rat) (ht : ∀ i j, 0 ≤ getT t i j) (he : 0 ≤ e)
    (al : List Nat) (st : List (List Nat) × List (List Int)) (hL : st.1.length = L)
    (hle : ∀ lat ∈ st.1, lat.length ≤ r) (htot : tot st.1 + al.length = L * r) :
    (al.foldl (placeStep t r e) st).1.length = L ∧
    (∀ lat ∈ (al.foldl (placeStep t r e) st).1, lat.length = r) ∧
    (∀ g, (g ∈ al ∨ ∃ lat ∈ st.1, g ∈ lat) → ∃ lat ∈ (al.foldl (placeStep t r e) st).1, g ∈ lat) :=
  place_all t r L e ht he al st hL hle htot

/-- **C17-T4d (swap optimisation).** For ANY scores and cooccurrence counts and whatever the cap
(`fuel`), the swap loop keeps the number of lattices, the size of every lattice and every placed
feature (it exchanges one feature between two different lattices). Nothing in the code
guarantees that a lattice ends without a repeated feature — see `CrystalsNoRepeats`. -/
theorem crystals_swaps (t : List (List Rat)) (L fuel : Nat) (lats : List (List Nat)) (c : List (List Int)) :
    (crySwapLoop t L fuel lats c).1.length = lats.length ∧
    (∀ lat ∈ (crySwapLoop t L fuel lats c).1, ∃ lat' ∈ lats, lat.length = lat'.length) ∧
    (∀ g, (∃ lat ∈ lats, g ∈ lat) → ∃ lat ∈ (crySwapLoop t L fuel lats c).1, g ∈ lat) :=
  crySwapLoop_ok t L fuel lats c

/-- **C17-T4 (Crystals).** `CrystalsSpec` holds: exact rank and every feature placed, for all
sizes, scores (torsions ≥ 0, importance scores > 0 — the zero-score case is F-C17-a), tie orders of
the argsort and swap caps. -/
theorem crystals_structure : CrystalsSpec := by
  intro n L r t lap order e fuel hrn hn ht he hpos hperm hso
  have hlen : (importance n t lap).length = n := by simp [importance]
  obtain ⟨uses, hu, hul, hus, hur⟩ := allocUses_ok n L r (importance n t lap) order hlen (by omega) (by omega)
    hn hpos hperm hso
  have hu0 : ∀ x ∈ uses, 0 ≤ x := by
    intro x hx
    obtain ⟨i, hi, rfl⟩ := List.getElem_of_mem hx
    have := (hur i (by omega)).1
    simp only [List.getD_eq_getElem?_getD, List.getElem?_eq_getElem hi, Option.getD_some] at this
    omega
  obtain ⟨a1, a2, a3⟩ := addList_facts uses hu0
  have hal : (addList uses).length = L * r := by
    have : ((addList uses).length : Int) = ((L * r : Nat) : Int) := by rw [a1, hus]
    exact_mod_cast this
  set init : List (List Nat) × List (List Int) :=
    (List.replicate L [], List.replicate n (List.replicate n 0)) with hinit
  obtain ⟨p1, p2, p3⟩ := place_all t r L e ht he (addList uses) init (by simp [hinit])
    (by
      intro lat hlat
      rw [(List.mem_replicate.mp hlat).2]; simp)
    (by simp only [hinit]; rw [tot_replicate_nil, hal]; omega)
  set placed := (addList uses).foldl (placeStep t r e) init with hplaced
  obtain ⟨s1, s2, s3⟩ := crySwapLoop_ok t L fuel placed.1 placed.2
  refine ⟨(crySwapLoop t L fuel placed.1 placed.2).1, (crySwapLoop t L fuel placed.1 placed.2).2, ?_,
    by rw [s1, p1], ?_, ?_⟩
  · unfold crystals
    simp only [bind, Except.bind, hu, pure, Except.pure]
    rw [if_neg (by rw [hal]; simp)]
  · intro l hl
    obtain ⟨l', hl', e'⟩ := s2 l hl
    rw [e', p2 l' hl']
  · intro f hf
    apply s3 f
    apply p3 f
    left
    have hc : ((addList uses).count f : Int) = uses.getD f 0 := a2 f (by omega)
    have := (hur f hf).1
    exact List.count_pos_iff.mp (by omega)

/-- "No feature is repeated inside a final Crystals lattice." NOT part of C17 (the property
states it for the random ensemble only), NOT proved and not enforced by the code: the greedy
placement does create repeats (`example` below: `[[1,2],[0,0]]`), the swap loop repairs one only
when some other lattice lacks the repeated feature and holds a feature the first lattice lacks,
and the loop is capped. No counter-example was found in 2·10⁵ runs of the real code
(3-7 features, skewed / binary / block / random scores). -/
def CrystalsNoRepeats : Prop :=
  ∀ (n L r : Nat) (t : List (List Rat)) (lap : List Rat) (order : List Nat) (emptyScore : Rat) (fuel : Nat)
    (lats : List (List Nat)) (cap : Bool),
    r < n → n ≤ L * r → (∀ i j, 0 ≤ getT t i j) → 0 ≤ emptyScore →
    (∀ s ∈ importance n t lap, 0 < s) → order.Perm (List.range n) →
    sortedDesc (importance n t lap) order = true →
    crystals n L r t lap order emptyScore fuel = .ok (lats, cap) → cap = false → ∀ l ∈ lats, l.Nodup

/-- the greedy placement can repeat a feature inside a lattice (`[0,0]`); here the swap loop
repairs it (same output as the real code on these scores). -/
example :
    ((addList [2, 1, 1]).foldl (placeStep [[0,0,0],[0,0,1],[0,1,0]] 2 (4/9))
      (List.replicate 2 [], List.replicate 3 (List.replicate 3 0))).1 = [[1, 2], [0, 0]] ∧
    crystals 3 2 2 [[0,0,0],[0,0,1],[0,1,0]] [4, 1/8, 1/8] [0, 1, 2] (4/9) = .ok ([[0, 2], [1, 0]], false) := by
  decide +kernel

/-- **F-C17-a witness** (why `CrystalsSpec` asks for `0 < s` and not `0 ≤ s`). A feature with
importance score 0 (here features 2 and 3 — all other scores positive, every score non-negative; in the
second instance every feature) makes the use allocation divide `0/0`: the model returns the
`ValueError` the real code raises (`cannot convert float NaN to integer`). -/
theorem crystals_zero_score_witness :
    crystals 4 4 2 [[0,1,0,0],[1,0,0,0],[0,0,0,0],[0,0,0,0]] [1,1,0,0] [0,1,2,3] (1/4) = .error .valueError ∧
    crystals 3 2 2 [[0,0,0],[0,0,0],[0,0,0]] [0,0,0] [0,1,2] 0 = .error .valueError := by
  decide +kernel

/-- non-vacuity of `CrystalsSpec`: positive scores give four rank-2 lattices using every feature -/
example : crystals 4 4 2 [[0,1,0,0],[1,0,0,0],[0,0,0,0],[0,0,0,0]] [1,1,1/2,1/4] [0,1,2,3] (1/4)
    = .ok ([[0, 1], [3, 2], [2, 0], [0, 1]], false) := by decide +kernel

/-- non-vacuity of `random_ensemble`: 5 features, 3 lattices of rank 2 -/
example : randomEnsemble 5 3 2 [0, 1, 1, 1, 0] [[], [], [2]] = .ok [[0, 4], [1, 2], [3, 2]] := by decide +kernel

/-- non-vacuity of `pair_cover`: 4 features, rank 3 -/
example : pairCover 4 3 [3, 0, 5, 1, 4, 2] = [[1, 2, 0], [2, 3, 1], [0, 3]] := by decide +kernel

/-- non-vacuity of `rtl_structure`: the hypotheses hold for the shuffles `RandomState(3)` draws
for 6 inputs (3 increasing in groups of 2+1, 3 unconstrained) and 5 lattices of rank 3. -/
example : [3, 5, 4, 1, 0, 2].Perm (List.range (rtlInputs [2, 1] [1, 1, 1]).length) ∧
    [12, 2, 1, 8, 4, 14, 6, 7, 13, 11, 9, 10, 3, 5, 0].Perm (List.range (5 * 3)) := by decide +kernel

/-! ### Determinism in the seed

C17: "… and are a deterministic function of the seed."  What the model can say, and says here:

* each structure is a FUNCTION of its configuration and of the recorded permutations / draws
  (`rtlStructure`, `randomEnsemble`, `pairCover`, `crystals` are Lean functions — no hidden state);
* the permutations / draws are a function `gen seed cfg` of the seed (and of the configuration: the
  sizes of the shuffled lists and of the candidate lists depend on it) — through NumPy's generator
  (`np.random.RandomState(seed).shuffle` in `_get_rtl_structure`; `np.random.seed(seed)` followed by
  `np.random.choice` / `np.random.shuffle` in `set_random_lattice_ensemble` /
  `_set_all_pairs_cover_lattices`).  NumPy's generator is OUTSIDE the model: `gen` is an arbitrary
  parameter of the statements below.

Hence `structure cfg (gen seed cfg)`: equal configurations and equal seeds give equal structures
(`…_deterministic`; a congruence — true of any Lean function, stated explicitly for every structure
with the model functions' real names), and the seed enters ONLY through the draws
(`…_depends_on_draws_only`: two runs that drew the same permutations produce the same structure,
whatever generators and seeds produced them).  That the real code draws through a generator seeded
with `random_seed` and nothing else (no global state, no time, no hash order) cannot be proved here; the
harness (`harness/props/c17.py`, clause `deterministic`) runs the real code TWICE per configuration and
seed — RTL, random ensemble, prefitting cover, final Crystals (patched scores and the real scoring
path), re-seeding the global NumPy generator with an unrelated value in between — and compares the two
structures; and it replays `RandomState(seed)` / `np.random.seed(seed)` in its own process to feed the
model, so the tie `rtl.structure` / `cover.lattices` also checks that the real draws ARE NumPy's
`gen seed cfg`.

`_get_final_crystal_lattices` draws nothing: the final Crystals lattices are a function of the
configuration and the prefitting scores (`np.argsort`'s tie order and the float
`np.mean(torsions)·rank²/2` are parameters `argsort`, `emptyOf` — deterministic NumPy functions outside
the model); the seed reaches them only through the prefitting model (cover + training), i.e. through
the scores `scoreOf seed cfg`. -/
section Determinism

/-- configuration of `_get_rtl_structure`: group sizes of the two input keys, `num_lattices`,
`lattice_rank`, `avoid_intragroup_interaction`, swap cap -/
structure RtlCfg where
  inc : List Nat
  unc : List Nat
  L : Nat
  r : Nat
  avoid : Bool
  fuel : Nat := maxRtlSwaps + 1
  deriving DecidableEq

/-- configuration of `set_random_lattice_ensemble` / `_get_final_crystal_lattices`:
number of features, `num_lattices`, `lattice_rank` -/
structure EnsCfg where
  n : Nat
  L : Nat
  r : Nat
  fuel : Nat := maxCrystalsSwaps + 1
  deriving DecidableEq

variable {Seed : Type}

/-- the RTL arrangement of a layer built with `random_seed = seed`: `gen seed cfg` = the two
permutations `RandomState(seed)` draws for the two `shuffle` calls -/
def rtlOfSeed (gen : Seed → RtlCfg → List Nat × List Nat) (cfg : RtlCfg) (seed : Seed) :
    Except Err (Structure × Bool) :=
  rtlStructure cfg.inc cfg.unc cfg.L cfg.r cfg.avoid (gen seed cfg).1 (gen seed cfg).2 cfg.fuel

/-- the random ensemble of a config with `random_seed = seed`: `gen seed cfg` = what the
`np.random.choice` calls draw after `np.random.seed(seed)` -/
def randomOfSeed (gen : Seed → EnsCfg → List Nat × List (List Nat)) (cfg : EnsCfg) (seed : Seed) :
    Except Err (List (List Nat)) :=
  randomEnsemble cfg.n cfg.L cfg.r (gen seed cfg).1 (gen seed cfg).2

/-- the Crystals prefitting cover of a config with `random_seed = seed`: `gen seed cfg` = the
permutation `np.random.shuffle(to_cover)` draws after `np.random.seed(seed)` -/
def coverOfSeed (gen : Seed → EnsCfg → List Nat) (cfg : EnsCfg) (seed : Seed) : List (List Nat) :=
  pairCover cfg.n cfg.r (gen seed cfg)

/-- the final Crystals lattices given the prefitting scores (no random draw in
`_get_final_crystal_lattices`) -/
def crystalsOfScores (argsort : List Rat → List Nat) (emptyOf : List (List Rat) → Nat → Rat) (cfg : EnsCfg)
    (t : List (List Rat)) (lap : List Rat) : Except Err (List (List Nat) × Bool) :=
  crystals cfg.n cfg.L cfg.r t lap (argsort (importance cfg.n t lap)) (emptyOf t cfg.r) cfg.fuel

/-- the final Crystals lattices of a config with `random_seed = seed`: `scoreOf seed cfg` = torsions
and Laplacians of the prefitting model built and trained with that seed (outside the model) -/
def crystalsOfSeed (argsort : List Rat → List Nat) (emptyOf : List (List Rat) → Nat → Rat)
    (scoreOf : Seed → EnsCfg → List (List Rat) × List Rat) (cfg : EnsCfg) (seed : Seed) :
    Except Err (List (List Nat) × Bool) :=
  crystalsOfScores argsort emptyOf cfg (scoreOf seed cfg).1 (scoreOf seed cfg).2

/-- **C17 determinism (RTL).** For ANY generator `gen` (NumPy's is one), equal configurations and
equal seeds give the same RTL structure (and the same cap flag / the same error). -/
theorem rtl_deterministic (gen : Seed → RtlCfg → List Nat × List Nat) (cfg cfg' : RtlCfg) (seed seed' : Seed)
    (hc : cfg = cfg') (hs : seed = seed') : rtlOfSeed gen cfg seed = rtlOfSeed gen cfg' seed' := by
  subst hc hs; rfl

/-- **C17 determinism (RTL): the seed enters through the two permutations only.** Two runs (any
generators, any seeds) that drew the same permutations give the same structure — the structure is
`rtlStructure` of the configuration and the draws. -/
theorem rtl_depends_on_draws_only (gen gen' : Seed → RtlCfg → List Nat × List Nat) (cfg : RtlCfg) (seed seed' : Seed)
    (h : gen seed cfg = gen' seed' cfg) : rtlOfSeed gen cfg seed = rtlOfSeed gen' cfg seed' := by
  unfold rtlOfSeed; rw [h]

/-- **C17 determinism (random ensemble).** Equal configurations and seeds give the same lattices. -/
theorem random_deterministic (gen : Seed → EnsCfg → List Nat × List (List Nat)) (cfg cfg' : EnsCfg)
    (seed seed' : Seed) (hc : cfg = cfg') (hs : seed = seed') :
    randomOfSeed gen cfg seed = randomOfSeed gen cfg' seed' := by
  subst hc hs; rfl

/-- **C17 determinism (random ensemble): through the `np.random.choice` draws only.** -/
theorem random_depends_on_draws_only (gen gen' : Seed → EnsCfg → List Nat × List (List Nat)) (cfg : EnsCfg)
    (seed seed' : Seed) (h : gen seed cfg = gen' seed' cfg) :
    randomOfSeed gen cfg seed = randomOfSeed gen' cfg seed' := by
  unfold randomOfSeed; rw [h]

/-- **C17 determinism (Crystals prefitting cover).** Equal configurations and seeds give the same cover. -/
theorem cover_deterministic (gen : Seed → EnsCfg → List Nat) (cfg cfg' : EnsCfg) (seed seed' : Seed)
    (hc : cfg = cfg') (hs : seed = seed') : coverOfSeed gen cfg seed = coverOfSeed gen cfg' seed' := by
  subst hc hs; rfl

/-- **C17 determinism (Crystals prefitting cover): through the shuffle of the pair list only.** -/
theorem cover_depends_on_draws_only (gen gen' : Seed → EnsCfg → List Nat) (cfg : EnsCfg) (seed seed' : Seed)
    (h : gen seed cfg = gen' seed' cfg) : coverOfSeed gen cfg seed = coverOfSeed gen' cfg seed' := by
  unfold coverOfSeed; rw [h]

/-- **C17 determinism (final Crystals).** `_get_final_crystal_lattices` draws nothing: equal
configurations and equal prefitting scores give the same lattices, for any (fixed) argsort tie rule and
float evaluation of the empty-lattice score. -/
theorem crystals_scores_deterministic (argsort : List Rat → List Nat) (emptyOf : List (List Rat) → Nat → Rat)
    (cfg cfg' : EnsCfg) (t t' : List (List Rat)) (lap lap' : List Rat)
    (hc : cfg = cfg') (ht : t = t') (hl : lap = lap') :
    crystalsOfScores argsort emptyOf cfg t lap = crystalsOfScores argsort emptyOf cfg' t' lap' := by
  subst hc ht hl; rfl

/-- **C17 determinism (final Crystals, in the seed).** Equal configurations and seeds give the same final
lattices; the seed enters only through the prefitting scores `scoreOf seed cfg`. -/
theorem crystals_deterministic (argsort : List Rat → List Nat) (emptyOf : List (List Rat) → Nat → Rat)
    (scoreOf : Seed → EnsCfg → List (List Rat) × List Rat) (cfg cfg' : EnsCfg) (seed seed' : Seed)
    (hc : cfg = cfg') (hs : seed = seed') :
    crystalsOfSeed argsort emptyOf scoreOf cfg seed = crystalsOfSeed argsort emptyOf scoreOf cfg' seed' := by
  subst hc hs; rfl

/-- **C17 determinism (final Crystals): through the prefitting scores only.** -/
theorem crystals_depends_on_scores_only (argsort : List Rat → List Nat) (emptyOf : List (List Rat) → Nat → Rat)
    (scoreOf scoreOf' : Seed → EnsCfg → List (List Rat) × List Rat) (cfg : EnsCfg) (seed seed' : Seed)
    (h : scoreOf seed cfg = scoreOf' seed' cfg) :
    crystalsOfSeed argsort emptyOf scoreOf cfg seed = crystalsOfSeed argsort emptyOf scoreOf' cfg seed' := by
  unfold crystalsOfSeed; rw [h]

/-- the structures of the seed have every property proved above: e.g. the RTL structure of ANY seed
(any generator that returns permutations) has exact rank, full coverage and ±1 usage. -/
theorem rtl_of_seed_structure (gen : Seed → RtlCfg → List Nat × List Nat) (cfg : RtlCfg) (seed : Seed)
    (s : Structure) (cap : Bool)
    (hp1 : (gen seed cfg).1.Perm (List.range (rtlInputs cfg.inc cfg.unc).length))
    (hp2 : (gen seed cfg).2.Perm (List.range (cfg.L * cfg.r)))
    (h : rtlOfSeed gen cfg seed = .ok (s, cap)) :
    (lattices s).length = cfg.L ∧
    (∀ g ∈ s, ∀ lat ∈ g.2, lat.length = cfg.r ∧ g.1 = lat.map (monoOf cfg.inc)) ∧
    (∀ i, i < (rtlInputs cfg.inc cfg.unc).length →
      1 ≤ usage s i ∧ cfg.L * cfg.r / (rtlInputs cfg.inc cfg.unc).length ≤ usage s i ∧
      usage s i ≤ cfg.L * cfg.r / (rtlInputs cfg.inc cfg.unc).length + 1) :=
  rtl_structure_accepted cfg.inc cfg.unc cfg.L cfg.r cfg.avoid _ _ cfg.fuel s cap hp1 hp2 h

/-- the seeded functions are the model functions at the generator's draws: `RandomState(3)` on the
layer of the `rtl_structure` example (a constant `gen` returning what NumPy drew). -/
example :
    rtlOfSeed (fun (_ : Nat) _ => ([3, 5, 4, 1, 0, 2], [12, 2, 1, 8, 4, 14, 6, 7, 13, 11, 9, 10, 3, 5, 0]))
      { inc := [2, 1], unc := [1, 1, 1], L := 5, r := 3, avoid := true } 3 =
    rtlStructure [2, 1] [1, 1, 1] 5 3 true [3, 5, 4, 1, 0, 2]
      [12, 2, 1, 8, 4, 14, 6, 7, 13, 11, 9, 10, 3, 5, 0] := rfl

end Determinism

end Tfl.C17
