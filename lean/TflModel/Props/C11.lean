import TflModel.Lemmas.Verify
import TflModel.Generated.Configs
import TflModel.Lemmas.Ensembles
/-!
# C11 — config and weight round trips reproduce the same function

* T0 `roundtrip` (generic, proved once, any value type): a class whose table row meets `RowOK`
  (keys = parameters, each key reads the attribute assigned from the same-named parameter through
  an idempotent normaliser, `from_config` hands every key on) satisfies
  `from_config (get_config o)` succeeds and `get_config` of the rebuilt object is EQUAL.
* T1 `table_rows_ok` / `table_loadable` (`decide +kernel` over the WHOLE regenerated table): every
  class meets `RowOK` except exactly the four premade models (finding F-C11-d: the `dtype`
  constructor argument is not serialised), and every class is reloadable under
  `premade.get_custom_objects()` (`CDF` too since fix 029a324; F-C11-e fixed).
* T2 `valSem_idem`: the normalisers modelled in Lean (`utils.canonicalize_*`, the single-tuple
  wrap, its compositions with `canonicalize_trust` / `as_tuples` in `LatticeConstraints` (fix ebf18ed),
  the `Linear` monotonicity broadcast, the CDF float default) are idempotent in the strong
  form the theorem needs, and tuple↔list insensitive (`Lemmas/Verify.lean`).
* T3 (Props/C11Seed.lean) `rtl_rebuild_structure`, `rtl_rebuild_outputs`: with an INTEGER `random_seed`
  the RTL structure is a function of (stored config, input shapes) — independent of the state of the
  process at the build — so a layer rebuilt from its config has the same structure and, with the original
  weights, identical outputs; `rtl_seed_none_not_a_function`: false for `random_seed=None` (finding
  F-C11-i).  `rtl_structure_deterministic`, `random_ensemble_deterministic` below are mere congruences
  (equal arguments, equal results) and are kept only as such.
Limits (`_partial`): the Keras composites (`initializers.get ∘ serialize`, nested config lists) are
hypotheses of T0, exercised on the real objects by the harness; HDF5 / SavedModel / `.keras`
machinery is runtime, exercised at k ∈ {0,1,5} training steps.
-/
namespace Tfl.C11
open Tfl Tfl.Configs Tfl.Generated.Configs

variable {V : Type}

/-! ## T0 -/

theorem lookup_map_of_mem (f : KeyRow → V) :
    ∀ (l : List KeyRow), (l.map (·.key)).Nodup → ∀ k ∈ l,
      (l.map (fun k => (k.key, f k))).lookup k.key = some (f k) := by
  intro l
  induction l with
  | nil => intro _ k hk; cases hk
  | cons a l ih =>
    intro hnd k hk
    simp only [List.map_cons, List.nodup_cons] at hnd
    rcases List.mem_cons.mp hk with e | e
    · subst e; simp [List.lookup]
    · have hne : k.key ≠ a.key := by
        intro h
        exact hnd.1 (by rw [← h]; exact List.mem_map.mpr ⟨k, e, rfl⟩)
      simp only [List.map_cons, List.lookup]
      have : (k.key == a.key) = false := by simpa using hne
      rw [this]
      exact ih hnd.2 k e

theorem lookup_map_none (f : KeyRow → V) (n : String) :
    ∀ (l : List KeyRow), (∀ k ∈ l, k.key ≠ n) → (l.map (fun k => (k.key, f k))).lookup n = none := by
  intro l
  induction l with
  | nil => intro _; rfl
  | cons a l ih =>
    intro h
    simp only [List.map_cons, List.lookup]
    have : (n == a.key) = false := by
      have := h a (List.mem_cons_self ..)
      simpa using fun e => this e.symm
    rw [this]
    exact ih (fun k hk => h k (List.mem_cons_of_mem _ hk))

/-- the facts `RowOK` packs, as propositions -/
structure RowFacts (ok : List NormId) (row : ClassRow) : Prop where
  keys_nodup : row.keyNames.Nodup
  params_nodup : row.paramNames.Nodup
  key_param : ∀ k ∈ row.keys, k.param = k.key
  key_is_param : ∀ k ∈ row.keys, k.key ∈ row.paramNames
  key_norm : ∀ k ∈ row.keys, k.nid ∈ ok
  guard : ∀ k ∈ row.keys, k.guard ≠ "" →
    (∃ g ∈ row.keys, g.key = k.guard ∧ g.guard = "" ∧ g.nid = idNorm) ∧
    (∃ p ∈ row.params, p.name = k.key ∧ p.hasDefault = true)
  param_is_key : ∀ p ∈ row.paramNames, p ∈ row.keyNames
  consumed : row.fromConfig = "default" ∨ row.consumesRest = true ∨ ∀ k ∈ row.keyNames, k ∈ row.consumes

theorem rowFacts_of_rowOK {ok : List NormId} {row : ClassRow} (h : RowOK ok row = true) : RowFacts ok row := by
  simp only [RowOK, Bool.and_eq_true, decide_eq_true_eq, List.all_eq_true, Bool.or_eq_true, beq_iff_eq,
    List.any_eq_true, List.contains_iff_mem] at h
  obtain ⟨⟨⟨⟨h1, h2⟩, h3⟩, h4⟩, h5⟩ := h
  refine ⟨h1, h2, fun k hk => (h3 k hk).1.1.1, fun k hk => (h3 k hk).1.1.2, fun k hk => (h3 k hk).1.2, ?_, h4, ?_⟩
  · intro k hk hg
    rcases (h3 k hk).2 with e | ⟨⟨g, hgm, hg'⟩, ⟨p, hpm, hp'⟩⟩
    · exact absurd e hg
    · exact ⟨⟨g, hgm, hg'.1.1, hg'.1.2, hg'.2⟩, ⟨p, hpm, hp'.1, hp'.2⟩⟩
  · rcases h5 with (e | e) | e
    · exact Or.inl e
    · exact Or.inr (Or.inl e)
    · exact Or.inr (Or.inr e)

/-- **C11-T0 (generic round trip).** For a class whose row meets `RowOK ok`, any value semantics
`S` whose un-normalised read is the identity and whose normalisers in `ok` are idempotent — in
the strong form `N o' (N o v) = N o v`, the normaliser may read OTHER constructor arguments —,
any defaults and ANY object `o`: `from_config (get_config o)` succeeds and the rebuilt object has
an equal `get_config`. -/
theorem roundtrip (S : Sem V) (ok : List NormId) (row : ClassRow) (h : RowOK ok row = true)
    (hid : ∀ o v, S.norm idNorm o v = v)
    (hS : ∀ n ∈ ok, ∀ (o o' : String → V) (v : V), S.norm n o' (S.norm n o v) = S.norm n o v)
    (dflt o : String → V) :
    ∃ o', fromConfig row dflt (getConfig S row o) = .ok o' ∧ getConfig S row o' = getConfig S row o := by
  have F := rowFacts_of_rowOK h
  set em := row.keys.filter (emitted S o) with hem
  have hsub : List.Sublist em row.keys := List.filter_sublist
  have hemnd : (em.map (·.key)).Nodup := List.Nodup.sublist (hsub.map _) F.keys_nodup
  set cfg := getConfig S row o with hcfg
  have hcfg' : cfg = em.map (fun k => (k.key, S.norm k.nid o (o k.param))) := rfl
  -- the custom from_config hands every key on
  have hpass : passed row cfg = cfg := by
    unfold passed
    rcases F.consumed with e | e | e
    · simp [e]
    · simp [e]
    · split
      · rfl
      · apply List.filter_eq_self.mpr
        intro kv hkv
        rw [hcfg'] at hkv
        obtain ⟨k, hk, rfl⟩ := List.mem_map.mp hkv
        have : k.key ∈ row.keyNames := List.mem_map.mpr ⟨k, hsub.subset hk, rfl⟩
        simpa using e _ this
  have hlook : ∀ k ∈ em, cfg.lookup k.key = some (S.norm k.nid o (o k.param)) := by
    intro k hk
    rw [hcfg']
    exact lookup_map_of_mem _ em hemnd k hk
  -- no unexpected keyword
  have h1 : (cfg.any fun kv => !(row.paramNames.contains kv.1)) = false := by
    rw [Bool.eq_false_iff]
    intro hany
    simp only [List.any_eq_true, Bool.not_eq_true', List.contains_eq_mem, decide_eq_false_iff_not] at hany
    obtain ⟨kv, hkv, hn⟩ := hany
    rw [hcfg'] at hkv
    obtain ⟨k, hk, rfl⟩ := List.mem_map.mp hkv
    exact hn (F.key_is_param k (hsub.subset hk))
  -- no missing required parameter
  have h2 : (row.params.any fun p => !p.hasDefault && (cfg.lookup p.name).isNone) = false := by
    rw [Bool.eq_false_iff]
    intro hany
    simp only [List.any_eq_true, Bool.and_eq_true, Bool.not_eq_true', Option.isNone_iff_eq_none] at hany
    obtain ⟨p, hp, hnd, hnone⟩ := hany
    have hpk : p.name ∈ row.keyNames := F.param_is_key _ (List.mem_map.mpr ⟨p, hp, rfl⟩)
    obtain ⟨k, hk, hkn⟩ := List.mem_map.mp hpk
    have hg : k.guard = "" := by
      by_contra hg
      obtain ⟨_, ⟨p', hp', hn', hd'⟩⟩ := F.guard k hk hg
      have : p' = p := by
        have hinj := List.inj_on_of_nodup_map F.params_nodup
        exact hinj hp' hp (by rw [hn', hkn])
      subst this
      rw [hd'] at hnd
      cases hnd
    have hkem : k ∈ em := by
      rw [hem]
      exact List.mem_filter.mpr ⟨hk, by simp [emitted, hg]⟩
    have := hlook k hkem
    rw [hkn, hnone] at this
    cases this
  refine ⟨fun n => (cfg.lookup n).getD (dflt n), ?_, ?_⟩
  · simp only [fromConfig, hpass, h1, h2, Bool.false_eq_true, if_false]
  · set o' : String → V := fun n => (cfg.lookup n).getD (dflt n) with ho'
    -- a guard flag survives the round trip
    have hguard : ∀ k ∈ row.keys, emitted S o' k = emitted S o k := by
      intro k hk
      unfold emitted
      by_cases hg : k.guard = ""
      · simp [hg]
      · obtain ⟨⟨g, hgm, hgk, hgg, hgn⟩, _⟩ := F.guard k hk hg
        have hgem : g ∈ em := by
          rw [hem]; exact List.mem_filter.mpr ⟨hgm, by simp [emitted, hgg]⟩
        have : o' k.guard = o k.guard := by
          rw [ho']
          simp only
          rw [← hgk, hlook g hgem, Option.getD_some, hgn, hid, F.key_param g hgm]
        rw [this]
    have hfil : row.keys.filter (emitted S o') = em := by
      rw [hem]
      exact List.filter_congr hguard
    unfold getConfig
    rw [hfil]
    apply List.map_congr_left
    intro k hk
    have hkk := hsub.subset hk
    have hv : o' k.param = S.norm k.nid o (o k.param) := by
      rw [ho']
      simp only
      rw [F.key_param k hkk, hlook k hk, Option.getD_some, F.key_param k hkk]
    rw [hv, hS k.nid (F.key_norm k hkk)]

/-! ## T1: the regenerated table -/

/-- **C11-T1 (key sets).** Over the WHOLE table regenerated from the current source: the classes
that do NOT meet the premises of `roundtrip` are exactly the four premade Keras models — their
`get_config` emits name / trainable / model_config but not the `dtype` constructor argument
(finding F-C11-d). Every other public class with `get_config` meets them. -/
theorem table_rows_ok :
    (rows.filter (fun r => !RowOK okNorms r)).map (·.cls) =
      ["AggregateFunction", "CalibratedLattice", "CalibratedLatticeEnsemble", "CalibratedLinear"] := by
  decide +kernel

/-- what fails for the premade models is exactly the key set: `dtype` is a parameter and not a
key; apart from that argument the rows meet every premise (in particular their custom
`from_config` hands on every key that IS emitted) -/
theorem F_C11_d_dtype_not_serialised :
    (rows.filter (fun r => !RowOK okNorms r)).all (fun r =>
      r.paramNames.filter (fun p => !r.keyNames.contains p) == ["dtype"] &&
      r.keyNames.all (fun k => r.paramNames.contains k) &&
      RowOK okNorms { r with params := r.params.filter (fun p => p.name != "dtype") }) = true := by
  decide +kernel

/-- **C11-T1 (registry).** Every class of the table can be deserialised under
`premade.get_custom_objects()` (registered there, or wrapped in a `custom_object_scope` by the
layer that owns it) — `CDF` included since fix 029a324 (finding F-C11-e, fixed). -/
theorem table_loadable :
    (rows.filter (fun r => !Loadable r)).map (·.cls) = [] := by
  decide +kernel

/-- the table is not empty and covers layers, constraints, initialisers, regularisers, configs
and models -/
theorem table_covers :
    rows.length = 39 ∧
    ["layer", "constraint", "initializer", "regularizer", "config", "model"].all
      (fun k => rows.any (fun r => r.kind == k)) = true := by
  decide +kernel

/-! ## T2: the modelled normalisers are idempotent in the strong form -/
open Tfl.Verify

theorem orSelf_canon_idem {α} (canon : Val → Except Err α) (back : α → Val)
    (hidem : ∀ v x, canon v = .ok x → canon (back x) = .ok x) (v : Val) :
    orSelf (orSelf v ((canon v).map back)) ((canon (orSelf v ((canon v).map back))).map back) =
      orSelf v ((canon v).map back) := by
  cases hc : canon v with
  | error e => simp [orSelf, Except.map, hc]
  | ok x => simp [orSelf, Except.map, hidem v x hc]

theorem wrapSingle_idem (v : Val) : wrapSingle (wrapSingle v) = wrapSingle v := by
  cases v with
  | a x => rfl
  | s t xs =>
    cases t with
    | false => rfl
    | true =>
      cases xs with
      | nil => rfl
      | cons it rest =>
        cases it with
        | s t' ys => rfl
        | a x => cases x <;> rfl

theorem linearBroadcast_idem (n m : Nat) (v : Val) :
    linearBroadcast m (linearBroadcast n v) = linearBroadcast n v := by
  cases v with
  | s t xs => rfl
  | a x => cases x <;> rfl

theorem asTuples_idem (v : Val) : asTuples (asTuples v) = asTuples v := by
  cases v with
  | a x => rfl
  | s t xs =>
    simp only [asTuples]
    by_cases h : (!xs.isEmpty && xs.all isSeqItem) = true
    · rw [if_pos h]
      have hc : (!(xs.map toTupleItem).isEmpty && (xs.map toTupleItem).all isSeqItem) = true := by
        simp only [Bool.and_eq_true, Bool.not_eq_true', List.isEmpty_eq_false_iff, List.all_eq_true] at h ⊢
        refine ⟨by simpa using h.1, ?_⟩
        intro it hit
        obtain ⟨x, hx, rfl⟩ := List.mem_map.mp hit
        have := h.2 x hx
        cases x <;> simp_all [toTupleItem, isSeqItem]
      simp only [hc, if_true, List.map_map]
      congr 1
      apply List.map_congr_left
      intro x _
      cases x <;> rfl
    · rw [if_neg h]
      simp only [if_neg h]

/-- **F-C11-f, fixed by 7780660** a dominance pair that came back from JSON as a list is stored as a
tuple again (hashable), and agrees with what the tuple spelling stores -/
theorem fixed_C11_f_pairs_are_tuples (a b : Atom) :
    asTuples (.s false [.s false [a, b]]) = .s false [.s true [a, b]] ∧
    asTuples (.s false [.s true [a, b]]) = .s false [.s true [a, b]] := ⟨rfl, rfl⟩

/-! ### the compositions of `LatticeConstraints.__init__` since fix ebf18ed: `as_list`, then the canonicaliser -/

/-- a LIST is never wrapped (`isinstance(x, tuple)` fails) -/
theorem wrapSingle_list (xs : List Item) : wrapSingle (.s false xs) = .s false xs := rfl

/-- what `canonicalize_trust` returns (`None` or a list) is never wrapped -/
theorem wrapSingle_trustsVal (o : Option (List CTrust)) : wrapSingle (trustsVal o) = trustsVal o := by
  cases o <;> rfl

/-- `canonicalize_trust ∘ as_list` is idempotent on its own output -/
theorem wrapCanonTrust_idem (v : Val) (o : Option (List CTrust)) (h : canonTrust (wrapSingle v) = .ok o) :
    canonTrust (wrapSingle (trustsVal o)) = .ok o := by
  rw [wrapSingle_trustsVal]
  exact canonTrust_idem (wrapSingle v) o h

/-- `as_tuples` returns its argument or a LIST -/
theorem asTuples_self_or_list (u : Val) : asTuples u = u ∨ ∃ ys, asTuples u = .s false ys := by
  cases u with
  | a x => exact Or.inl rfl
  | s t xs =>
    simp only [asTuples]
    split
    · exact Or.inr ⟨_, rfl⟩
    · exact Or.inl rfl

/-- `as_tuples ∘ as_list` is idempotent: its result is a list (never wrapped again, `as_tuples` is
idempotent) or the already wrapped argument itself -/
theorem wrapAsTuples_idem (v : Val) :
    asTuples (wrapSingle (asTuples (wrapSingle v))) = asTuples (wrapSingle v) := by
  rcases asTuples_self_or_list (wrapSingle v) with h | ⟨ys, h⟩
  · rw [h, wrapSingle_idem, h]
  · have h2 := asTuples_idem (wrapSingle v)
    rw [h] at h2 ⊢
    rw [wrapSingle_list, h2]

/-- **fix ebf18ed (model level)** a single dominance / joint-monotonicity pair `(a, b)` with an integer
first entry is stored as `[(a, b)]`, exactly what the one-element-list spellings `[(a, b)]` and `[[a, b]]`
store — whereas `as_tuples` ALONE would have kept the bare tuple `(a, b)` (the composition is modelled,
not its parts) -/
theorem fixed_ebf18ed_single_pair (i : Int) (b : Atom) :
    asTuples (wrapSingle (.s true [.a (.int i), .a b])) = .s false [.s true [.int i, b]] ∧
    asTuples (wrapSingle (.s false [.s true [.int i, b]])) = .s false [.s true [.int i, b]] ∧
    asTuples (wrapSingle (.s false [.s false [.int i, b]])) = .s false [.s true [.int i, b]] ∧
    asTuples (.s true [.a (.int i), .a b]) = .s true [.a (.int i), .a b] := ⟨rfl, rfl, rfl, rfl⟩

/-- **fix ebf18ed (model level)** a single trust triple `(a, b, "positive")` is stored as `[(a, b, 1)]`,
exactly what the one-element-list spelling stores; the empty tuple is left alone by `as_list` (the
`and constraints` guard) and stored as `None` -/
theorem fixed_ebf18ed_single_trust (i : Int) (b : Atom) :
    orSelf (.s true [.a (.int i), .a b, .a (.str .positive)])
        ((canonTrust (wrapSingle (.s true [.a (.int i), .a b, .a (.str .positive)]))).map trustsVal) =
      .s false [.s true [.int i, b, .int 1]] ∧
    orSelf (.s false [.s true [.int i, b, .str .positive]])
        ((canonTrust (wrapSingle (.s false [.s true [.int i, b, .str .positive]]))).map trustsVal) =
      .s false [.s true [.int i, b, .int 1]] ∧
    wrapSingle (.s true []) = .s true [] ∧
    orSelf (.s true []) ((canonTrust (wrapSingle (.s true []))).map trustsVal) = .a .none :=
  ⟨rfl, rfl, rfl, rfl⟩

/-- the joint-unimodality wrap (typed model `wrapJU`; an opaque id of the table, `Val` has no nesting
depth 3) is idempotent: a wrapped single pair is a list, which is left alone -/
theorem wrapJU_idem (j : JU) : wrapJU (wrapJU j) = wrapJU j := by
  cases j with
  | none => rfl
  | list xs => rfl
  | single dims dir => cases dir <;> rfl

theorem toFloat_idem (c c' v : Val) : toFloat c' (toFloat c v) = toFloat c v := by
  cases v with
  | s t xs => rfl
  | a x =>
    cases x with
    | none =>
      cases c with
      | s t xs => rfl
      | a y => cases y <;> rfl
    | _ => rfl

/-- **C11-T2.** The value semantics `valSem` meets the hypotheses of `roundtrip` for every
modelled normaliser: the un-normalised read is the identity and each normaliser `N` satisfies
`N o' (N o v) = N o v` for all contexts — `canonicalize_monotonicities / monotonicity /
unimodalities / trust`, the single-tuple wrap of `Lattice.__init__`, the monotonicity broadcast of
`Linear.__init__`, the float default of `CDF.__init__`, the tuple canonicalisation of the
`LatticeConstraints` dominance pairs (fix 7780660) and the two compositions "single-tuple wrap, then
`canonicalize_trust` / `as_tuples`" of `LatticeConstraints.__init__` (fix ebf18ed). -/
theorem valSem_idem : (∀ o v, valSem.norm idNorm o v = v) ∧
    ∀ n ∈ modelledNorms, ∀ (o o' : String → Val) (v : Val),
      valSem.norm n o' (valSem.norm n o v) = valSem.norm n o v := by
  refine ⟨fun o v => by simp [valSem, valNorm, idNorm, nCanonMono0, nCanonMono1, nCanonTrust, nCanonUni,
    nWrapSingle, nLinearMono, nFloatOr, nAsTuples, nWrapCanonTrust, nWrapAsTuples, nWrapSingleG], ?_⟩
  intro n hn o o' v
  simp only [modelledNorms, List.mem_cons, List.mem_nil_iff, or_false] at hn
  rcases hn with rfl | rfl | rfl | rfl | rfl | rfl | rfl | rfl | rfl | rfl | rfl | rfl | rfl
  · simp [valSem, valNorm, idNorm, nCanonMono0, nCanonMono1, nCanonTrust, nCanonUni, nWrapSingle, nLinearMono, nFloatOr, nAsTuples,
      nWrapCanonTrust, nWrapAsTuples, nWrapSingleG]
  · simp [valSem, valNorm, nCanonMono0, nCanonMono1, nCanonTrust, nCanonUni, nWrapSingle, nLinearMono, nFloatOr, nAsTuples,
      nWrapCanonTrust, nWrapAsTuples, nWrapSingleG]
  · simp only [valSem, valNorm, if_true]
    exact orSelf_canon_idem (canonMonotonicities false) atomsVal (canonMonotonicities_idem false) v
  · have e1 : nCanonMono1 ≠ nCanonMono0 := by decide +kernel
    simp only [valSem, valNorm, e1, if_false, if_true]
    have key : ∀ v x, canonMonotonicity true (Val.toItem v) = .ok x →
        canonMonotonicity true (Val.toItem (Val.a x)) = .ok x :=
      fun v x hx => canonMonotonicity_idem true _ x hx
    exact orSelf_canon_idem (fun v => canonMonotonicity true v.toItem) Val.a key v
  · have e1 : nCanonTrust ≠ nCanonMono0 := by decide +kernel
    have e2 : nCanonTrust ≠ nCanonMono1 := by decide +kernel
    simp only [valSem, valNorm, e1, e2, if_false, if_true]
    exact orSelf_canon_idem canonTrust trustsVal canonTrust_idem v
  · have e1 : nCanonUni ≠ nCanonMono0 := by decide +kernel
    have e2 : nCanonUni ≠ nCanonMono1 := by decide +kernel
    have e3 : nCanonUni ≠ nCanonTrust := by decide +kernel
    simp only [valSem, valNorm, e1, e2, e3, if_false, if_true]
    exact orSelf_canon_idem canonUnimodalities atomsVal canonUnimodalities_idem v
  · have e1 : nWrapSingle ≠ nCanonMono0 := by decide +kernel
    have e2 : nWrapSingle ≠ nCanonMono1 := by decide +kernel
    have e3 : nWrapSingle ≠ nCanonTrust := by decide +kernel
    have e4 : nWrapSingle ≠ nCanonUni := by decide +kernel
    simp only [valSem, valNorm, e1, e2, e3, e4, if_false, if_true]
    exact wrapSingle_idem v
  · have e1 : nLinearMono ≠ nCanonMono0 := by decide +kernel
    have e2 : nLinearMono ≠ nCanonMono1 := by decide +kernel
    have e3 : nLinearMono ≠ nCanonTrust := by decide +kernel
    have e4 : nLinearMono ≠ nCanonUni := by decide +kernel
    have e5 : nLinearMono ≠ nWrapSingle := by decide +kernel
    simp only [valSem, valNorm, e1, e2, e3, e4, e5, if_false, if_true]
    exact linearBroadcast_idem _ _ v
  · have e1 : nFloatOr ≠ nCanonMono0 := by decide +kernel
    have e2 : nFloatOr ≠ nCanonMono1 := by decide +kernel
    have e3 : nFloatOr ≠ nCanonTrust := by decide +kernel
    have e4 : nFloatOr ≠ nCanonUni := by decide +kernel
    have e5 : nFloatOr ≠ nWrapSingle := by decide +kernel
    have e6 : nFloatOr ≠ nLinearMono := by decide +kernel
    simp only [valSem, valNorm, e1, e2, e3, e4, e5, e6, if_false, if_true]
    exact toFloat_idem _ _ v
  · have e1 : nAsTuples ≠ nCanonMono0 := by decide +kernel
    have e2 : nAsTuples ≠ nCanonMono1 := by decide +kernel
    have e3 : nAsTuples ≠ nCanonTrust := by decide +kernel
    have e4 : nAsTuples ≠ nCanonUni := by decide +kernel
    have e5 : nAsTuples ≠ nWrapSingle := by decide +kernel
    have e6 : nAsTuples ≠ nLinearMono := by decide +kernel
    have e7 : nAsTuples ≠ nFloatOr := by decide +kernel
    simp only [valSem, valNorm, e1, e2, e3, e4, e5, e6, e7, if_false, if_true]
    exact asTuples_idem v
  · have e1 : nWrapCanonTrust ≠ nCanonMono0 := by decide +kernel
    have e2 : nWrapCanonTrust ≠ nCanonMono1 := by decide +kernel
    have e3 : nWrapCanonTrust ≠ nCanonTrust := by decide +kernel
    have e4 : nWrapCanonTrust ≠ nCanonUni := by decide +kernel
    have e5 : nWrapCanonTrust ≠ nWrapSingle := by decide +kernel
    have e6 : nWrapCanonTrust ≠ nLinearMono := by decide +kernel
    have e7 : nWrapCanonTrust ≠ nFloatOr := by decide +kernel
    have e8 : nWrapCanonTrust ≠ nAsTuples := by decide +kernel
    simp only [valSem, valNorm, e1, e2, e3, e4, e5, e6, e7, e8, if_false, if_true]
    exact orSelf_canon_idem (fun v => canonTrust (wrapSingle v)) trustsVal wrapCanonTrust_idem v
  · have e1 : nWrapAsTuples ≠ nCanonMono0 := by decide +kernel
    have e2 : nWrapAsTuples ≠ nCanonMono1 := by decide +kernel
    have e3 : nWrapAsTuples ≠ nCanonTrust := by decide +kernel
    have e4 : nWrapAsTuples ≠ nCanonUni := by decide +kernel
    have e5 : nWrapAsTuples ≠ nWrapSingle := by decide +kernel
    have e6 : nWrapAsTuples ≠ nLinearMono := by decide +kernel
    have e7 : nWrapAsTuples ≠ nFloatOr := by decide +kernel
    have e8 : nWrapAsTuples ≠ nAsTuples := by decide +kernel
    have e9 : nWrapAsTuples ≠ nWrapCanonTrust := by decide +kernel
    simp only [valSem, valNorm, e1, e2, e3, e4, e5, e6, e7, e8, e9, if_false, if_true]
    exact wrapAsTuples_idem v
  · have e1 : nWrapSingleG ≠ nCanonMono0 := by decide +kernel
    have e2 : nWrapSingleG ≠ nCanonMono1 := by decide +kernel
    have e3 : nWrapSingleG ≠ nCanonTrust := by decide +kernel
    have e4 : nWrapSingleG ≠ nCanonUni := by decide +kernel
    have e5 : nWrapSingleG ≠ nWrapSingle := by decide +kernel
    have e6 : nWrapSingleG ≠ nLinearMono := by decide +kernel
    have e7 : nWrapSingleG ≠ nFloatOr := by decide +kernel
    have e8 : nWrapSingleG ≠ nAsTuples := by decide +kernel
    have e9 : nWrapSingleG ≠ nWrapCanonTrust := by decide +kernel
    have e10 : nWrapSingleG ≠ nWrapAsTuples := by decide +kernel
    simp only [valSem, valNorm, e1, e2, e3, e4, e5, e6, e7, e8, e9, e10, if_false, if_true]
    exact wrapSingle_idem v

/-- **C11 (T0 + T1 + T2 together).** For every class of the regenerated table other than the four
premade models, every semantics that agrees with the Lean models on the modelled normalisers and
whose opaque (Keras) composites are idempotent, and every object: the config round trip succeeds
and reproduces an equal config. -/
theorem roundtrip_table (S : Sem Val) (row : ClassRow) (hrow : row ∈ rows)
    (hcls : row.cls ∉ ["AggregateFunction", "CalibratedLattice", "CalibratedLatticeEnsemble", "CalibratedLinear"])
    (hmod : ∀ n ∈ modelledNorms, S.norm n = valSem.norm n)
    (hopq : ∀ n ∈ opaqueNorms, ∀ (o o' : String → Val) (v : Val), S.norm n o' (S.norm n o v) = S.norm n o v)
    (dflt o : String → Val) :
    ∃ o', fromConfig row dflt (getConfig S row o) = .ok o' ∧ getConfig S row o' = getConfig S row o := by
  have hok : RowOK okNorms row = true := by
    by_contra hne
    have hmem : row ∈ rows.filter (fun r => !RowOK okNorms r) :=
      List.mem_filter.mpr ⟨hrow, by simpa using hne⟩
    have : row.cls ∈ (rows.filter (fun r => !RowOK okNorms r)).map (·.cls) := List.mem_map.mpr ⟨row, hmem, rfl⟩
    rw [table_rows_ok] at this
    exact hcls this
  refine roundtrip S okNorms row hok ?_ ?_ dflt o
  · intro o v
    rw [hmod idNorm (by simp [modelledNorms])]
    exact valSem_idem.1 o v
  · intro n hn o o' v
    rcases List.mem_append.mp hn with h | h
    · rw [hmod n h]; exact valSem_idem.2 n h o o' v
    · exact hopq n h o o' v

/-! ## the finding as a theorem of the model -/

theorem lookup_none_of_not_key (n : String) :
    ∀ (l : List (String × V)), (∀ kv ∈ l, kv.1 ≠ n) → l.lookup n = none := by
  intro l
  induction l with
  | nil => intro _; rfl
  | cons a l ih =>
    intro h
    have : (n == a.1) = false := by
      have := h a (List.mem_cons_self ..)
      simpa using fun e => this e.symm
    simp only [List.lookup, this]
    exact ih (fun kv hkv => h kv (List.mem_cons_of_mem _ hkv))

/-- a constructor argument that is not a key of `get_config` comes back as its DEFAULT -/
theorem not_key_takes_default (S : Sem V) (row : ClassRow) (n : String) (hn : n ∉ row.keyNames)
    (dflt o o' : String → V) (h : fromConfig row dflt (getConfig S row o) = .ok o') : o' n = dflt n := by
  have hcfg : ∀ kv ∈ getConfig S row o, kv.1 ≠ n := by
    intro kv hkv
    obtain ⟨k, hk, rfl⟩ := List.mem_map.mp hkv
    intro e
    exact hn (List.mem_map.mpr ⟨k, (List.mem_filter.mp hk).1, e⟩)
  have hpass : ∀ kv ∈ passed row (getConfig S row o), kv.1 ≠ n := by
    intro kv hkv
    unfold passed at hkv
    split at hkv
    · exact hcfg kv hkv
    · exact hcfg kv (List.mem_filter.mp hkv).1
  simp only [fromConfig] at h
  split at h
  · cases h
  · split at h
    · cases h
    · cases h
      simp [lookup_none_of_not_key n _ hpass]

/-- **F-C11-d (model level).** The premade models take a `dtype` constructor argument that is not
a key of their `get_config`: whatever dtype the original was built with, the object rebuilt by
`from_config(get_config())` has the DEFAULT dtype (float32) — a genuine round-trip loss, confirmed
on the real classes by the harness (rebuilt weights are float32, outputs differ in precision). -/
theorem F_C11_d_counter_witness (S : Sem V) (row : ClassRow) (hrow : row ∈ rows)
    (hcls : row.cls ∈ ["AggregateFunction", "CalibratedLattice", "CalibratedLatticeEnsemble", "CalibratedLinear"])
    (dflt o o' : String → V) (h : fromConfig row dflt (getConfig S row o) = .ok o') :
    "dtype" ∈ row.paramNames ∧ o' "dtype" = dflt "dtype" := by
  have key : ∀ r ∈ rows, r.cls ∈ ["AggregateFunction", "CalibratedLattice", "CalibratedLatticeEnsemble", "CalibratedLinear"] →
      "dtype" ∈ r.paramNames ∧ "dtype" ∉ r.keyNames := by decide +kernel
  exact ⟨(key row hrow hcls).1, not_key_takes_default S row "dtype" (key row hrow hcls).2 dflt o o' h⟩

/-! ## T3: seed-derived structure is a function of the stored config -/

/-- (A CONGRUENCE — true of any function; the statement about a REBUILD, with the seed → shuffles map
made explicit and `random_seed=None` excluded by a counter-witness, is `rtl_rebuild_structure` /
`rtl_rebuild_outputs` / `rtl_seed_none_not_a_function` in Props/C11Seed.lean.)
`rtlStructureOf` takes the input shapes, `num_lattices`, `lattice_rank`,
`avoid_intragroup_interaction` and the two shuffles: equal arguments give equal structures. -/
theorem rtl_structure_deterministic (inc unc inc' unc' : List Nat) (L r L' r' : Nat) (av av' : Bool)
    (p1 p2 p1' p2' : List Nat) (h1 : inc = inc') (h2 : unc = unc') (h3 : L = L') (h4 : r = r')
    (h5 : av = av') (h6 : p1 = p1') (h7 : p2 = p2') :
    rtlStructureOf inc unc L r av p1 p2 = rtlStructureOf inc' unc' L' r' av' p1' p2' := by
  subst h1 h2 h3 h4 h5 h6 h7; rfl

/-- (A CONGRUENCE as well.)  `set_random_lattice_ensemble` is a function of (`num_features`,
`num_lattices`, `lattice_rank`) and of its draws.  For the ROUND TRIP of a premade model nothing is
drawn again: the setter writes the ensemble into `model_config.lattices`, a key of the config
(`table_rows_ok`); see Props/C11Seed.lean. -/
theorem random_ensemble_deterministic (n L r n' L' r' : Nat) (f f' : List Nat) (g g' : List (List Nat))
    (h1 : n = n') (h2 : L = L') (h3 : r = r') (h4 : f = f') (h5 : g = g') :
    Tfl.Ensembles.randomEnsemble n L r f g = Tfl.Ensembles.randomEnsemble n' L' r' f' g' := by
  subst h1 h2 h3 h4 h5; rfl

end Tfl.C11
